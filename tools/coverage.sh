#!/bin/bash
# Measures which lines of the five library crates the generated ops of ALL properties reach (tier $1, default quick).
# NOT part of any check: a diagnostic for the generators (the Impl<->Rust tie is sampling; unreached library lines are where a change
# to the code could hide). Builds an instrumented copy of the harness against a clean checkout of /repo HEAD under /tmp/cov.
set -e
TIER=${1:-quick}
W=/tmp/cov; rm -rf $W; mkdir -p $W
git -C /repo worktree add --detach -q $W/repo HEAD
cp -r /verif/harness $W/harness; rm -rf $W/harness/target
sed -i "s|/repo/|$W/repo/|g" $W/harness/Cargo.toml
cat > $W/harness/.cargo/config.toml <<EOC
[net]
offline = true
[build]
rustflags = ["--cfg", "gm_rs_verif", "-Awarnings", "-C", "instrument-coverage"]
target-dir = "$W/target"
EOC
(cd $W/harness && cargo +nightly build --release 2>&1 | tail -2)
BIN=$W/target/release/gmverif-harness
python3 - "$TIER" "$W" <<'EOP'
import sys, random
sys.path.insert(0, '/verif')
from vlib.props import PROPS
tier, W = sys.argv[1], sys.argv[2]
ops = []
for pid in sorted(PROPS):
    rng = random.Random(20260929)
    ops += [o[1] for o in PROPS[pid]['gen'](tier, rng)]
    import os
    c = f'/verif/corpus/{pid}.txt'
    if os.path.exists(c):
        ops += [l.strip() for l in open(c) if l.strip() and not l.startswith('#')]
# skip the 2^29-byte message (8 s and no new lines)
ops = [o for o in ops if not (o.startswith('sm3rep') and ' 8388608 ' in o)]
n = 16
for i in range(n):
    open(f'{W}/ops.{i}.txt', 'w').write(''.join(o + '\n' for o in ops[i::n]))
print('ops', len(ops))
EOP
for i in $(seq 0 15); do LLVM_PROFILE_FILE=$W/prof.$i.profraw $BIN run < $W/ops.$i.txt > /dev/null & done; wait
TOOLS=$(dirname $(find ~/.rustup/toolchains/nightly-x86_64-unknown-linux-gnu -name llvm-cov | head -1))
$TOOLS/llvm-profdata merge -sparse $W/prof.*.profraw -o $W/all.profdata
mkdir -p /verif/coverage
$TOOLS/llvm-cov report $BIN -instr-profile=$W/all.profdata --ignore-filename-regex='(registry|rustc|harness)' 2>/dev/null | sed "s|$W/repo/||" > /verif/coverage/summary-$TIER.txt
$TOOLS/llvm-cov show $BIN -instr-profile=$W/all.profdata --ignore-filename-regex='(registry|rustc|harness)' --show-line-counts-or-regions=false 2>/dev/null \
  | sed "s|$W/repo/||" | awk '/^[a-z0-9-]+\/src\/.*:$/ {f=$0} /^ *[0-9]+\| *0\|/ {print f" "$0}' > /verif/coverage/uncovered-$TIER.txt
tail -3 /verif/coverage/summary-$TIER.txt
wc -l /verif/coverage/uncovered-$TIER.txt
git -C /repo worktree remove --force $W/repo; rm -rf $W
