#!/usr/bin/env python3
"""
rs2lean.py -- a small Rust -> Lean 4 translator for the integer/array/struct subset used by gm-sm3, gm-zuc
and the block-cipher part of gm-sm4.

    python3 rs2lean.py <input.rs> <output.lean> [--namespace GmVerif.Gen.SrcSM3]
                       [--usize-overflow=unchecked|panic]        (default: unchecked)
                       [--only fn1,fn2,S::m,...]
                       [--int-overflow=reject|panic]            (default: reject)
                       [--extern <other.rs>=<Lean.Module>]

`&local` of type `[T; N]` / `Vec<T>` is accepted as an argument for a `&[T]` parameter (unsize coercion; all three
are `Array T`).

`--extern lib.rs=GmVerif.Gen.SrcZUC`: the input belongs to the same crate as `lib.rs`, whose translation is the
Lean module `GmVerif.Gen.SrcZUC`.  `lib.rs` goes through the same front end (so field types, signatures and the
pure/effectful status of its fns are known exactly), and for every `use crate::X;` of the input that names a
struct X of `lib.rs`, the type `X`, `X::assoc(..)`, `x.method(..)` and `x.field` refer to `<Lean.Module>.X..`.
Nothing of `lib.rs` is emitted again; the output imports <Lean.Module> and its header records the sha256 of
`lib.rs`, to be compared with the one in the header of <Lean.Module>.  Anything else of `lib.rs` (free fns,
consts, structs not imported by `use crate::X;`, `impl X` in the input) stays unknown / is rejected.

`--only` translates only the named `fn`s / methods (`S::m`) and the structs named or owning a named method
(consts, statics, unit enums and `type R<T> = Result<T, E>;` aliases are always kept); every other fn /
struct is skipped by bracket matching and listed in the output header.  A name that the file does not
contain, or a reference from a translated item to a skipped one, makes the translator fail (exit 2).

Pipeline: tokenise -> parse (recursive descent, Rust operator precedence) -> type check with
integer-literal inference -> effect analysis -> emit Lean.  Anything outside the subset below makes
the translator exit with status 2 and a message `rs2lean: <file>:<line>: unsupported: <construct>`.
Nothing is guessed; the output depends only on the input bytes (no timestamps, no hash-order).

SUPPORTED SUBSET
  items   `fn` (typed params, optional `-> T`), `const`/`static` of a supported type,
          `enum` with unit variants (only the variant names are used, for `Err(E::V)`),
          `struct S { field: T, .. }` with named fields of supported types (no generics),
          inherent `impl S { fn .. }` of such a struct: associated fns (`S::new(..)`) and methods taking
          `&self` / `&mut self` (by-value `self` is rejected); each becomes the item `S.name`,
          SKIPPED (listed in the output header): `use`, `mod name;`, inner attributes, every other `impl`
          block (trait impls, impls of untranslated types), items under
          `#[cfg(test)]` / `#[cfg(gm_rs_verif)]`, const/static of an unsupported type.  A reference to
          anything skipped is an "unknown identifier" failure.
  types   u8 u32 u64 usize bool (), [T; N], Vec<T>, &[T], &T (read-only borrow = value), a translated
          struct `S` (`Self` inside its impl), `&mut T` on parameters only, Result<T, E> as a function
          return type only.
  stmts   let / let mut (optional type), assignment and compound assignment (+= -= *= ^= |= &= <<= >>=)
          to a local, `local[index]`, `local.field` or `local.field[index]` (`self` counts as a local),
          `while`, `for x in a..b`, `for _ in a..b`, `if / else if / else`, `return`,
          expression statements `v.push(e)`, `f(&mut v, ..)`, `x.m(..)` for a `&mut self` method (its
          value, if any, is discarded), tail expressions.
  exprs   integer literals (dec/hex/oct/bin, `_`, suffixes), true/false, locals, consts, `(e)`,
          `[e; N]`, `[a, b, ..]`, `a[i]`, `&a[lo..hi]` / `a[lo..hi].to_vec()` (`Rs.slice`, a copy), unary `!`, casts `as u8/u32/u64/usize`,
          `<< >> & | ^ + - * / %`, comparisons, `&& ||`, `if` expressions,
          methods `.wrapping_add/sub/mul`, `.rotate_left/right`, `.len()`, `.to_vec()`, `.clone()`,
          `.push(e)`, `.copy_from_slice(&src[..])`, `.unwrap()` (on a call of a Result function),
          `?` (same error type), `Ok(e)`, `Err(Enum::Variant)` (only as the returned value),
          `u32::from(e)` / `u64::from(e)` / `usize::from(e)` (widening only), calls of translated fns,
          field access `e.f`, struct literals `S { f: e, g }` (every field, no `..base`), `vec![]`,
          method calls `e.m(..)` of translated `&self` methods, and of `&mut self` methods on a local
          when the call is the first thing the statement evaluates (see EMBEDDING),
          `S::assoc(..)`, u32 `a << k` / `a >> k` with `k: u32` not a literal, u32 `a - b`,
          `x.to_be_bytes()` (x: u32), `u32::from_be_bytes(b)` (b: [u8; 4]), `s.try_into().unwrap()` from a
          slice to an array `[T; N]` whose type is known from the context,
          statement `dst[lo..hi].copy_from_slice(src)` on a local `dst`.
  type    `type R<T> = Result<T, E>;` (exactly this form), usable where `Result<T, E>` is.

EMBEDDING (shallow)
  u8/u32/u64 -> UInt8/UInt32/UInt64 (Lean's operations on these wrap exactly like Rust's
      wrapping_* / bit operations).  Plain `+ *` on these types (and `-` on u8/u64) is REJECTED (Rust
      panics in debug and wraps in release; write `wrapping_add`).  u32 `a - b` is `Rs.sub32` (panic when
      b > a, i.e. overflow-checks on, like usize `-`: when a proof shows that no panic occurs the result
      is also the release result).
  usize -> Nat, for a 64-bit target.  `+`, `*` are exact Nat operations: usize overflow is NOT
      modelled (same as the hand model; every such site is listed in the output header).  With
      `--usize-overflow=panic` they become `Rs.uadd` / `Rs.umul` (a result >= 2^64 panics, i.e.
      overflow-checks on; when a proof shows that no panic occurs the result is also the release result).
      `a - b` is `Rs.usub` (panic when b > a); `a << k` is `(a <<< k) % 2^64` (bits shifted out are
      discarded, no panic, k a literal < 64); `a >> k` is `a >>> k`; `/` and `%` by a non-literal or zero
      divisor are `Rs.udiv`/`Rs.urem` (panic on 0); `x as u64/u32/u8` is `UIntN.ofNat x` (truncation).
  shifts on UIntN: by an integer literal smaller than the width; on u32 also by a non-literal `k: u32`:
      `Rs.shl32` / `Rs.shr32` (k >= 32 panics: overflow-checks on; release Rust would mask k instead,
      so again a no-panic proof makes the result the release result).  Anything else is rejected.
      (`Rs.sub32`, `Rs.shl32`, `Rs.shr32` are emitted only into files that use them.)
      With `--int-overflow=panic` plain `+ *` on u32/u64 and `-` on u64 are accepted with the overflow-checks-on
      reading: `Rs.add32` / `Rs.mul32` / `Rs.add64` / `Rs.sub64` / `Rs.mul64` panic when the exact result does
      not fit (u8 stays rejected).  u32 `a << k` / `a >> k` with a non-literal `k: usize`: `Rs.shl32u` /
      `Rs.shr32u` (k >= 32 panics).  `v.as_slice()` is the value `v` (shared borrows are values).
      `x.f.m(..)` for a `&mut self` method `m` and a local (or `self`) `x`: as for `x.m(..)`, the new receiver
      is stored back with `x := { x with f := c.2 }`.
  struct S {..} -> a Lean `structure S` (deriving Repr, DecidableEq, Inhabited) with the same field names;
      `S { f: e, .. }` -> `({ f := e, .. } : S)`; `x.f` -> `x.f`; `x.f = e` -> `x := { x with f := e }`;
      `x.f[i] = e` -> `x := { x with f := (<- Rs.set x.f i e) }` (rhs, index, bounds check in Rust's order).
  impl S { fn name(..) } -> `def S.name`.  `&self` -> an ordinary first parameter `self : S`.
      `&mut self` -> like a `&mut` parameter: the fn takes `self : S` and returns the final `self`,
      tupled after the result (`Outcome (T × S)`, or `Outcome S` for a unit method).
      `x.m(a);` -> `x <- S.m x a` (unit) or `let c <- S.m x a; x := c.2` (value discarded).
      `let v = .. x.m(a) ..;` (also in assignments, `push` arguments, returned values): the call is
      emitted first as `let c <- S.m x a; x := c.2` and `c.1` stands for its value.  This is exactly
      Rust's order when the call is the first thing the statement evaluates (it lies on the leftmost
      evaluation path: `x.m() ^ x.f[3]` reads the updated `x.f`); any other position is rejected.
  `for _ in a..b` -> `for _ in [a:b] do`; when the bounds are untyped literals Rust iterates over i32:
      accepted when both fit i32 (the variable is unused, only the number of iterations matters).
  `vec![]` -> `#[]` (element type from the first use).
  `x.to_be_bytes()` -> `Rs.to_be_bytes32 x` (4-element array), `u32::from_be_bytes(b)` -> `Rs.from_be_bytes32 b`
      (pure; reads b[0..3]), `s.try_into().unwrap()` -> `Rs.try_into_array s N` (length /= N: the `Err` that
      `unwrap` turns into a panic), `dst[lo..hi].copy_from_slice(src)` -> `dst <- Rs.copy_into_range dst lo hi src`
      (bad range panics, then a length mismatch panics).  These helpers are emitted only into files that use them.
  rotate_left(k): `GmVerif.rotl32 x k` (k literal) or `GmVerif.rotl32 x k.toNat` (Rust reduces mod 32).
  [T; N], Vec<T>, &[T] -> `Array T`.  `a[i]` -> `Rs.get a i`, `a[i] = v` -> `a <- Rs.set a i v`:
      out-of-range index = `Outcome.panic`.  `[e; N]` -> `Array.replicate N e`.
      `&a[lo..hi]` -> `Rs.slice a lo hi` (a copy: shared borrows are values);
      `d.copy_from_slice(s)` -> `d <- Rs.copy_from_slice d s` (length mismatch panics).
  A fn is PURE if it contains no panicking/diverging construct (index, usize `-`, div/rem by a
      non-literal, `while`, `unwrap`, `?`, `Err`, call of an effectful fn); pure fns become plain Lean
      functions (`Id.run do` when they have statements), all others live in the monad
      `GmVerif.Outcome` (ok / err <variant name> / panic) and effectful sub-expressions are emitted as
      nested actions `(<- e)` in Rust's left-to-right evaluation order.  (All panics are the same
      outcome, so the relative order of two panicking sub-expressions is not observable.)
  Result<T,E> fn -> `Outcome T`; `return Err(E::V)` -> `Rs.err "V"`; `.unwrap()` -> `Rs.unwrap` (err -> panic).
  `&mut` parameter -> the fn returns the final value of that parameter (tupled after the result);
      the call `f(&mut v, x);` becomes `v <- f v x`.
  let mut -> `let mut`; `for i in a..b` -> `for i in [a:b] do`; `while c {..}` -> Lean's own
      `while c do` (`repeat`/`break` when c is effectful), i.e. `Lean.Loop.forIn`, whose one-step
      unfolding is a theorem for monads with a `MonadTail` instance; a non-terminating loop has an
      unspecified value about which nothing can be proved.
  Boolean conditions are emitted as decidable propositions (`<=` `/\\` `\\/` `Not`); boolean values as `decide`.
  A local that re-declares a name already used in the same fn gets a numeric suffix (`msg_1`).

ADDED FOR THE SM4 MODES (gm-sm4/src/lib.rs `Sm4CipherMode`, `block_xor`, `block_add_one`); everything else still fails
  unit enum used as a type (struct field / parameter): emitted as `inductive E | V1 | V2 .. deriving Repr, DecidableEq,
      Inhabited` (an enum that is only an error type is still not emitted; the header says which is which).
  `match e { E::V1 => x1, E::V2 => x2, .. }` as the RETURNED value only (tail / `return`), `e` of a unit-enum type, the
      arms exactly the variants once each, no `_`, no block bodies, no guards -> `match e with | E.V1 => return ..`.
  returned value `x.m(..)` of a `&self` method with the same `Result` type; `?` on `x.m(..)` and on `S::assoc(..)`.
  `let (s, c) = a.overflowing_add(b);` on u8 only -> `let (s, c) : UInt8 × Bool := Rs.overflowing_add8 a b`
      (wrapped sum, `256 <= a + b`); no other tuple pattern / tuple value exists.  `c as u8` for `c: bool` -> 1 / 0.
  `return;` inside a `for` of a unit fn with a `&mut` parameter (Lean's `return` in `for .. do`).
  `Vec::new()` = `vec![]`; `vec![e; N]` -> `Array.replicate N e` (type `Vec<T>`).
  `d.clone_from_slice(s)` = `d.copy_from_slice(s)` (both panic on different lengths) -> `Rs.copy_from_slice`.
  `for x in a.iter() { .. *x .. }` -> `for x in a do` (x may only be used as `*x`).
  `f(&mut v[..])` for a `&mut [T]` parameter and a local `v: Vec<T> / [T; N]`: the whole of `v` (`v <- f v`).
  `&[e; N]` as an argument for a `&[T]` parameter.  `v.extend_from_slice(s)` -> `v := v ++ s`.
  `v.resize(n, x)` -> `Rs.resize v n x` (truncate or pad).  `dst[..hi].copy_from_slice(src)` (lower bound 0).
  u8 `a - b` -> `Rs.sub8 a b` (underflow panics: overflow-checks on, like u32 `-`).
"""
import sys, re, hashlib

class Unsupported(Exception):
    pass

SRC_NAME = '<input>'
USIZE_CHECKED = False   # --usize-overflow=panic
ONLY = None             # --only a,b,S::m : set of selected fn / struct names, or None (everything)
INT_CHECKED = False     # --int-overflow=panic
EXTERN_LEAN = {}        # extern struct name -> qualified Lean name (filled from --extern)

def selected(name):
    return ONLY is None or name in ONLY
def struct_selected(name):
    return ONLY is None or name in ONLY or any(o.startswith(name + '::') for o in ONLY)

def fail(line, what):
    raise Unsupported('%s:%s: unsupported: %s' % (SRC_NAME, line, what))

# ----------------------------------------------------------------------------------------------
# lexer
# ----------------------------------------------------------------------------------------------
PUNCT = ['<<=', '>>=', '..=', '...', '::', '->', '=>', '==', '!=', '<=', '>=', '&&', '||', '+=', '-=',
         '*=', '/=', '%=', '^=', '&=', '|=', '<<', '>>', '..',
         '+', '-', '*', '/', '%', '^', '!', '&', '|', '=', '<', '>', '@', '.', ',', ';', ':', '#', '$',
         '?', '(', ')', '[', ']', '{', '}', '_']
INT_SUFFIXES = ['u8', 'u16', 'u32', 'u64', 'u128', 'usize', 'i8', 'i16', 'i32', 'i64', 'i128', 'isize']

class Tok:
    __slots__ = ('kind', 'val', 'line', 'suffix', 'text')
    def __init__(self, kind, val, line, suffix=None, text=None):
        self.kind, self.val, self.line, self.suffix, self.text = kind, val, line, suffix, text
    def __repr__(self):
        return '%s(%r)@%d' % (self.kind, self.val, self.line)

def lex(src):
    toks = []
    i, n, line = 0, len(src), 1
    while i < n:
        c = src[i]
        if c == '\n':
            line += 1; i += 1; continue
        if c in ' \t\r':
            i += 1; continue
        if src.startswith('//', i):
            j = src.find('\n', i)
            i = n if j < 0 else j
            continue
        if src.startswith('/*', i):
            depth, j = 1, i + 2
            while j < n and depth:
                if src.startswith('/*', j): depth += 1; j += 2
                elif src.startswith('*/', j): depth -= 1; j += 2
                else:
                    if src[j] == '\n': line += 1
                    j += 1
            if depth: fail(line, 'unterminated block comment')
            i = j; continue
        if c == '"' or (c == 'b' and src.startswith('b"', i)):
            j = i + (2 if c == 'b' else 1)
            while j < n and src[j] != '"':
                if src[j] == '\\': j += 1
                if j < n and src[j] == '\n': line += 1
                j += 1
            if j >= n: fail(line, 'unterminated string literal')
            toks.append(Tok('str', src[i:j + 1], line)); i = j + 1; continue
        if c == "'":
            m = re.match(r"'(\\.|[^\\'])'", src[i:])
            if m:
                toks.append(Tok('char', m.group(0), line)); i += m.end(); continue
            m = re.match(r"'[A-Za-z_][A-Za-z0-9_]*", src[i:])
            if m:
                toks.append(Tok('lifetime', m.group(0), line)); i += m.end(); continue
            fail(line, "stray `'`")
        if c.isdigit():
            m = re.match(r'0x[0-9a-fA-F_]+|0o[0-7_]+|0b[01_]+|[0-9][0-9_]*', src[i:])
            text = m.group(0); j = i + m.end()
            suffix = None
            for s in INT_SUFFIXES:
                if src.startswith(s, j) and not (j + len(s) < n and (src[j + len(s)].isalnum() or src[j + len(s)] == '_')):
                    suffix = s; j += len(s); break
            if j < n and (src[j].isalpha() or src[j] == '_'):
                fail(line, 'numeric literal `%s`' % src[i:j + 1])
            if j < n and src[j] == '.' and j + 1 < n and src[j + 1].isdigit():
                fail(line, 'floating-point literal')
            digits = text.replace('_', '')
            if digits.startswith('0x'): val = int(digits[2:], 16)
            elif digits.startswith('0o'): val = int(digits[2:], 8)
            elif digits.startswith('0b'): val = int(digits[2:], 2)
            else: val = int(digits, 10)
            toks.append(Tok('int', val, line, suffix, digits)); i = j; continue
        if c.isalpha() or c == '_':
            m = re.match(r'[A-Za-z_][A-Za-z0-9_]*', src[i:])
            w = m.group(0)
            if w == '_':
                toks.append(Tok('punct', '_', line))
            else:
                toks.append(Tok('ident', w, line))
            i += m.end(); continue
        for p in PUNCT:
            if src.startswith(p, i):
                toks.append(Tok('punct', p, line)); i += len(p); break
        else:
            fail(line, 'character %r' % c)
    toks.append(Tok('eof', None, line))
    return toks

# ----------------------------------------------------------------------------------------------
# AST
# ----------------------------------------------------------------------------------------------
class Node:
    def __init__(self, kind, line, **kw):
        self.kind, self.line = kind, line
        self.ty = None
        self.__dict__.update(kw)

INT_TYPES = ('u8', 'u32', 'u64', 'usize')
BITS = {'u8': 8, 'u32': 32, 'u64': 64, 'usize': 64}

class IntVar:
    """type of an unsuffixed integer literal, resolved by unification"""
    def __init__(self, line):
        self.ref, self.line, self.vals = None, line, []

class TyVar:
    """element type of `vec![]`, resolved by unification (first `push` / use)"""
    def __init__(self, line):
        self.ref, self.line = None, line

def resolve(t):
    while isinstance(t, (IntVar, TyVar)) and t.ref is not None:
        t = t.ref
    return t

def tystr(t):
    t = resolve(t)
    if isinstance(t, IntVar): return '{integer}'
    if isinstance(t, TyVar): return '_'
    if isinstance(t, tuple):
        if t[0] == 'array': return '[%s; %d]' % (tystr(t[1]), t[2])
        if t[0] == 'vec': return 'Vec<%s>' % tystr(t[1])
        if t[0] == 'slice': return '[%s]' % tystr(t[1])
        if t[0] == 'result': return 'Result<%s, %s>' % (tystr(t[1]), t[2])
        if t[0] == 'struct': return t[1]
        if t[0] == 'enum': return t[1]
    return str(t)

# ----------------------------------------------------------------------------------------------
# parser
# ----------------------------------------------------------------------------------------------
BINPREC = [  # loosest first; all left-associative (comparisons non-associative)
    ['||'], ['&&'], ['==', '!=', '<', '>', '<=', '>='], ['|'], ['^'], ['&'], ['<<', '>>'],
    ['+', '-'], ['*', '/', '%']]
ASSIGN_OPS = ['=', '+=', '-=', '*=', '/=', '%=', '^=', '&=', '|=', '<<=', '>>=']
SKIP_CFGS = ('test', 'gm_rs_verif')
HARMLESS_ATTRS = ('inline', 'derive', 'doc', 'allow', 'must_use', 'rustfmt', 'deny', 'warn')

class Parser:
    def __init__(self, toks, extern_avail=()):
        self.t, self.p = toks, 0
        self.skipped = []
        # structs of the --extern file that this file imports with `use crate::X;`
        self.extern_structs = set()
        for i in range(len(toks) - 4):
            if toks[i].kind == 'ident' and toks[i].val == 'use' and toks[i + 1].kind == 'ident' and \
                    toks[i + 1].val == 'crate' and toks[i + 2].val == '::' and toks[i + 3].kind == 'ident' and \
                    toks[i + 4].kind == 'punct' and toks[i + 4].val == ';' and toks[i + 3].val in extern_avail and \
                    (i == 0 or not (toks[i - 1].kind == 'punct' and toks[i - 1].val == ']')):
                self.extern_structs.add(toks[i + 3].val)
        self.selfty = None
        # names of the `struct X { .. }` items of the file (a type may be used before its declaration)
        self.struct_names = set()
        self.aliases = {}       # `type R<T> = Result<T, E>;`  name -> E
        self.seen = set()       # names of the fn / struct items met (to report a misspelt --only name)
        for i in range(len(toks) - 2):
            if toks[i].kind == 'ident' and toks[i].val == 'struct' and toks[i + 1].kind == 'ident' \
                    and toks[i + 2].kind == 'punct' and toks[i + 2].val == '{' and struct_selected(toks[i + 1].val):
                self.struct_names.add(toks[i + 1].val)
        self.enum_names = set()     # unit enums of the file: usable as a type (field / parameter / `match`)
        self.enum_types_used = []   # those actually used as a type: emitted as a Lean `inductive`
        for i in range(len(toks) - 2):
            if toks[i].kind == 'ident' and toks[i].val == 'enum' and toks[i + 1].kind == 'ident' \
                    and toks[i + 2].kind == 'punct' and toks[i + 2].val == '{':
                self.enum_names.add(toks[i + 1].val)
        for n in sorted(self.extern_structs):
            if n in self.struct_names: fail(1, 'struct `%s` both declared here and imported from the --extern file' % n)
        self.struct_names |= self.extern_structs

    def peek(self, k=0): return self.t[self.p + k]
    def at(self, val, k=0):
        x = self.peek(k)
        return x.kind in ('punct', 'ident') and x.val == val
    def next(self):
        x = self.t[self.p]; self.p += 1; return x
    def eat(self, val):
        if self.at(val):
            return self.next()
        return None
    def expect(self, val):
        if not self.at(val):
            x = self.peek()
            fail(x.line, 'expected `%s`, found `%s`' % (val, x.val if x.val is not None else 'end of file'))
        return self.next()
    def ident(self):
        x = self.peek()
        if x.kind != 'ident':
            fail(x.line, 'expected identifier, found `%s`' % x.val)
        return self.next().val

    def skip_balanced(self, open_, close):
        self.expect(open_); depth = 1
        while depth:
            x = self.next()
            if x.kind == 'eof': fail(x.line, 'unbalanced `%s`' % open_)
            if x.kind == 'punct' and x.val == open_: depth += 1
            if x.kind == 'punct' and x.val == close: depth -= 1

    def skip_item(self):
        """skip one item by bracket matching: `use`/`const`/`static`/`type` items end at the first `;`
        outside brackets, every other item at the end of its first balanced `{..}`"""
        k = self.p
        if self.at('pub', 0):
            k += 1
            if self.t[k].kind == 'punct' and self.t[k].val == '(':
                while not (self.t[k].kind == 'punct' and self.t[k].val == ')'): k += 1
                k += 1
        semi = self.t[k].kind == 'ident' and self.t[k].val in ('use', 'const', 'static', 'type') \
            and not (self.t[k + 1].kind == 'ident' and self.t[k + 1].val == 'fn')
        while True:
            x = self.peek()
            if x.kind == 'eof': fail(x.line, 'unterminated item')
            if self.at('{'):
                self.skip_balanced('{', '}')
                if semi: continue
                return
            if self.at('('): self.skip_balanced('(', ')'); continue
            if self.at('['): self.skip_balanced('[', ']'); continue
            if self.at(';'):
                self.next()
                if semi: return
                fail(x.line, 'item without a body')
            self.next()

    def skip_struct(self):
        self.next(); self.next()
        if self.at('<'):
            while not (self.at('{') or self.at('(') or self.at(';')): self.next()
        if self.at('{'): self.skip_balanced('{', '}')
        elif self.at('('):
            self.skip_balanced('(', ')'); self.expect(';')
        else: self.expect(';')

    # ---- items
    def parse_file(self):
        items = []
        while self.peek().kind != 'eof':
            it = self.parse_item()
            if it is not None: items.append(it)
        return items

    def parse_attrs(self):
        """returns True if the following item must be skipped (cfg(test) / cfg(gm_rs_verif))"""
        skip = False
        while self.at('#'):
            line = self.peek().line
            self.next()
            inner = self.eat('!') is not None
            start = self.p
            self.skip_balanced('[', ']')
            body = self.t[start + 1:self.p - 1]
            name = body[0].val if body else None
            if name == 'cfg':
                txt = ''.join(str(b.val) for b in body[1:])
                if any(txt == '(%s)' % c for c in SKIP_CFGS):
                    skip = True
                else:
                    fail(line, 'attribute #[cfg%s]' % txt)
            elif name not in HARMLESS_ATTRS:
                fail(line, 'attribute #[%s ..]' % name)
            if inner:
                self.skipped.append((line, 'inner attribute #![%s ..]' % name))
        return skip

    def parse_item(self):
        skip = self.parse_attrs()
        x = self.peek(); line = x.line
        if x.kind == 'eof': return None
        if skip:
            desc = ' '.join(str(k.val) for k in self.t[self.p:self.p + 3])
            self.skip_item()
            self.skipped.append((line, 'cfg-disabled item `%s ..`' % desc)); return None
        if self.eat('pub'):
            if self.at('('): self.skip_balanced('(', ')')
        x = self.peek()
        if self.at('use'):
            ext = self.at('crate', 1) and self.at('::', 2) and self.peek(3).kind == 'ident' and \
                self.peek(3).val in self.extern_structs and self.at(';', 4)
            what = '`use crate::%s;` (resolved by --extern)' % self.peek(3).val if ext else '`use` declaration'
            self.skip_item(); self.skipped.append((line, what)); return None
        if self.at('mod') and self.peek(1).kind == 'ident' and self.at(';', 2):
            self.next(); name = self.ident(); self.next()
            self.skipped.append((line, '`mod %s;` (another file)' % name)); return None
        if self.at('impl'):
            if self.peek(1).kind == 'ident' and self.peek(1).val in self.extern_structs and self.at('{', 2):
                fail(line, '`impl %s` of a struct that comes from the --extern file' % self.peek(1).val)
            if self.peek(1).kind == 'ident' and self.peek(1).val in self.struct_names and self.at('{', 2):
                return self.parse_impl()
            desc = []
            k = self.p
            while not (self.t[k].kind == 'punct' and self.t[k].val == '{'):
                desc.append(str(self.t[k].val)); k += 1
            self.skip_item()
            self.skipped.append((line, '`%s` block' % ' '.join(desc))); return None
        if self.at('type'):
            # only the alias form `type R<T> = Result<T, E>;`
            self.next(); name = self.ident()
            ok = self.at('<') and self.peek(1).kind == 'ident' and self.at('>', 2) and self.at('=', 3) and \
                self.at('Result', 4) and self.at('<', 5) and self.peek(6).kind == 'ident' and \
                self.peek(6).val == self.peek(1).val and self.at(',', 7) and self.peek(8).kind == 'ident' and \
                self.at('>', 9) and self.at(';', 10)
            if not ok: fail(line, 'type alias `%s` that is not `type %s<T> = Result<T, E>;`' % (name, name))
            self.aliases[name] = self.peek(8).val
            self.p += 11
            return None
        if self.at('struct') and self.peek(1).kind == 'ident' and not struct_selected(self.peek(1).val):
            name = self.peek(1).val
            self.skip_struct()
            self.skipped.append((line, 'struct `%s` (not selected by --only)' % name)); return None
        if self.at('fn') and self.peek(1).kind == 'ident' and not selected(self.peek(1).val):
            name = self.peek(1).val
            self.seen.add(name)
            self.skip_item()
            self.skipped.append((line, 'fn `%s` (not selected by --only)' % name)); return None
        if self.at('struct'):
            self.next(); name = self.ident()
            self.seen.add(name)
            if not self.at('{'): fail(line, 'struct `%s` that is not `struct %s { field: T, .. }`' % (name, name))
            self.next()
            fields = []
            while not self.at('}'):
                self.parse_attrs()
                if self.eat('pub'):
                    if self.at('('): self.skip_balanced('(', ')')
                fl = self.peek().line
                fname = self.ident(); self.expect(':')
                fty = self.parse_type()
                if fname in [f[0] for f in fields]: fail(fl, 'duplicate field `%s`' % fname)
                fields.append((fname, fty))
                if not self.eat(','): break
            self.expect('}')
            if not fields: fail(line, 'struct `%s` without fields' % name)
            return Node('struct', line, name=name, fields=fields)
        if self.at('enum'):
            self.next(); name = self.ident(); self.expect('{')
            variants = []
            while not self.at('}'):
                self.parse_attrs()
                variants.append(self.ident())
                if self.at('(') or self.at('{') or self.at('='):
                    fail(self.peek().line, 'enum variant with payload or discriminant')
                if not self.eat(','): break
            self.expect('}')
            return Node('enum', line, name=name, variants=variants)
        if self.at('const') or self.at('static'):
            kwpos = self.p
            kw = self.next().val
            if self.at('mut'): fail(line, '`static mut`')
            if self.at('fn'): fail(line, '`const fn`')
            name = self.ident(); self.expect(':')
            save = self.p
            try:
                ty = self.parse_type()
            except Unsupported:
                self.p = kwpos
                self.skip_item()
                self.skipped.append((line, '%s `%s` of an unsupported type' % (kw, name))); return None
            self.expect('='); e = self.parse_expr(); self.expect(';')
            return Node('const', line, name=name, cty=ty, init=e)
        if self.at('fn'):
            return self.parse_fn()
        fail(line, 'item starting with `%s`' % x.val)

    def parse_impl(self):
        """inherent `impl S { fn .. }` of a translated struct: every fn becomes the item `S::name`"""
        line = self.expect('impl').line
        sname = self.ident(); self.expect('{')
        fns = []
        self.selfty = sname
        while not self.at('}'):
            if self.parse_attrs(): fail(self.peek().line, 'cfg-disabled item inside `impl`')
            if self.eat('pub'):
                if self.at('('): self.skip_balanced('(', ')')
            if not self.at('fn'):
                fail(self.peek().line, 'item starting with `%s` inside `impl %s`' % (self.peek().val, sname))
            if self.peek(1).kind == 'ident' and not selected('%s::%s' % (sname, self.peek(1).val)):
                fl = self.peek().line
                self.seen.add('%s::%s' % (sname, self.peek(1).val))
                self.skipped.append((fl, 'fn `%s::%s` (not selected by --only)' % (sname, self.peek(1).val)))
                self.skip_item(); continue
            fns.append(self.parse_fn())
        self.expect('}')
        self.selfty = None
        return Node('impl', line, name=sname, fns=fns)

    def parse_fn(self):
        line = self.expect('fn').line
        name = self.ident()
        if self.at('<'): fail(line, 'generic function `%s`' % name)
        self.expect('(')
        params = []
        selfkind = None
        self.seen.add(name if self.selfty is None else '%s::%s' % (self.selfty, name))
        if self.selfty is not None:
            name = '%s.%s' % (self.selfty, name)
            pl = self.peek().line
            if self.at('&') and self.at('self', 1):
                self.next(); self.next(); selfkind = 'ref'
            elif self.at('&') and self.at('mut', 1) and self.at('self', 2):
                self.next(); self.next(); self.next(); selfkind = 'mut'
            elif self.at('self') or self.at('mut') and self.at('self', 1) or self.at('&') and self.peek(1).kind == 'lifetime':
                fail(pl, '`self` parameter that is not `&self` / `&mut self`')
            if selfkind is not None:
                if self.at(':'): fail(pl, 'typed `self` parameter')
                params.append(Node('param', pl, name='self', pty=('struct', self.selfty), mutref=(selfkind == 'mut')))
                if not self.eat(',') and not self.at(')'): fail(pl, 'expected `,` or `)` after `self`')
        while not self.at(')'):
            pl = self.peek().line
            if self.at('mut'): fail(pl, '`mut` parameter binding')
            if self.at('&') or self.at('self'): fail(pl, '`self` parameter')
            pname = self.ident(); self.expect(':')
            mutref = False
            if self.at('&') and self.at('mut', 1):
                self.next(); self.next(); mutref = True
                ty = self.parse_type()
            else:
                ty = self.parse_type()
            params.append(Node('param', pl, name=pname, pty=ty, mutref=mutref))
            if not self.eat(','): break
        self.expect(')')
        ret = 'unit'
        if self.eat('->'):
            ret = self.parse_type(allow_result=True)
        if self.at('where'): fail(line, '`where` clause')
        body = self.parse_block()
        return Node('fn', line, name=name, params=params, ret=ret, body=body, selfkind=selfkind,
                    owner=self.selfty)

    # ---- types
    def close_angle(self):
        x = self.peek()
        if x.kind == 'punct' and x.val == '>>':
            x.val = '>'; return
        self.expect('>')

    def parse_type(self, allow_result=False):
        x = self.peek(); line = x.line
        if self.at('&'):
            self.next()
            if self.peek().kind == 'lifetime': self.next()
            if self.at('mut'): fail(line, '`&mut` type outside a parameter')
            return self.parse_type()
        if self.at('('):
            self.next(); self.expect(')'); return 'unit'
        if self.at('['):
            self.next(); elem = self.parse_type()
            if self.eat(';'):
                n = self.next()
                if n.kind != 'int': fail(line, 'array length that is not an integer literal')
                self.expect(']'); return ('array', elem, n.val)
            self.expect(']'); return ('slice', elem)
        name = self.ident()
        if name in INT_TYPES or name == 'bool':
            return name
        if name == 'Vec':
            self.expect('<'); elem = self.parse_type(); self.close_angle(); return ('vec', elem)
        if name in self.struct_names:
            if self.at('<'): fail(line, 'generic type `%s<..>`' % name)
            return ('struct', name)
        if name == 'Self' and self.selfty is not None:
            return ('struct', self.selfty)
        if name in self.enum_names:
            if self.at('<'): fail(line, 'generic type `%s<..>`' % name)
            if name not in self.enum_types_used: self.enum_types_used.append(name)
            return ('enum', name)
        if name in self.aliases:
            if not allow_result: fail(line, '`%s` outside a function return type' % name)
            self.expect('<'); ok = self.parse_type(); self.close_angle()
            return ('result', ok, self.aliases[name])
        if name == 'Result':
            if not allow_result: fail(line, '`Result` outside a function return type')
            self.expect('<'); ok = self.parse_type(); self.expect(','); err = self.ident(); self.close_angle()
            return ('result', ok, err)
        fail(line, 'type `%s`' % name)

    # ---- statements
    def parse_block(self):
        line = self.expect('{').line
        stmts, tail = [], None
        while not self.at('}'):
            if self.peek().kind == 'eof': fail(line, 'unterminated block')
            s, is_tail = self.parse_stmt()
            if is_tail:
                tail = s
                if not self.at('}'): fail(self.peek().line, 'expression without `;` that is not at the end of a block')
            elif s is not None:
                stmts.append(s)
        self.expect('}')
        return Node('block', line, stmts=stmts, tail=tail)

    def parse_stmt(self):
        x = self.peek(); line = x.line
        if self.at('#'): fail(line, 'attribute on a statement')
        if self.eat(';'): return None, False
        if self.at('let'):
            self.next()
            mut = self.eat('mut') is not None
            if self.at('(') and not mut and self.peek(1).kind == 'ident' and self.at(',', 2) and \
                    self.peek(3).kind == 'ident' and self.at(')', 4) and self.at('=', 5):
                # `let (x, y) = e;` (two plain names; the checker accepts only `a.overflowing_add(b)` for e)
                self.next(); n1 = self.ident(); self.next(); n2 = self.ident(); self.next(); self.next()
                e = self.parse_expr(); self.expect(';')
                return Node('lettuple', line, names=[n1, n2], init=e), False
            if not self.peek().kind == 'ident': fail(line, 'pattern in `let`')
            name = self.ident(); ty = None
            if self.eat(':'): ty = self.parse_type()
            if not self.eat('='): fail(line, '`let` without initialiser')
            e = self.parse_expr(); self.expect(';')
            return Node('let', line, name=name, mut=mut, lty=ty, init=e), False
        if self.at('while'):
            self.next()
            if self.at('let'): fail(line, '`while let`')
            c = self.parse_expr(nostruct=True); b = self.parse_block()
            self.eat(';')
            return Node('while', line, cond=c, body=b), False
        if self.at('loop'): fail(line, '`loop`')
        if self.at('for'):
            self.next()
            if self.at('_'):
                self.next(); v = '_'
            elif self.peek().kind != 'ident': fail(line, 'pattern in `for`')
            else: v = self.ident()
            self.expect('in')
            r = self.parse_expr(nostruct=True)
            if r.kind == 'paren': r = r.e
            if r.kind == 'method' and r.name == 'iter' and not r.args and v != '_':
                # `for x in a.iter() { .. *x .. }`
                b = self.parse_block(); self.eat(';')
                return Node('foriter', line, var=v, recv=r.recv, body=b), False
            if r.kind != 'range' or r.lo is None or r.hi is None or r.inclusive:
                fail(line, '`for` over something that is not a half-open range `a..b`')
            b = self.parse_block(); self.eat(';')
            return Node('for', line, var=v, lo=r.lo, hi=r.hi, body=b), False
        if self.at('if'):
            e = self.parse_if()
            if self.at('}'):
                return e, True       # value (or unit) of the enclosing block
            self.eat(';')
            return Node('exprstmt', line, e=e), False
        if self.at('return'):
            self.next(); e = None
            if not self.at(';') and not self.at('}'): e = self.parse_expr()
            if not self.eat(';') and not self.at('}'): fail(line, 'expected `;` after `return`')
            return Node('return', line, e=e), False
        if self.at('break') or self.at('continue'):
            fail(line, '`%s`' % x.val)
        if self.at('{'): fail(line, 'nested block statement')
        e = self.parse_expr()
        for op in ASSIGN_OPS:
            if self.at(op):
                self.next(); r = self.parse_expr(); self.expect(';')
                return Node('assign', line, lhs=e, op=op, rhs=r), False
        if self.eat(';'):
            return Node('exprstmt', line, e=e), False
        if self.at('}'):
            return e, True
        fail(self.peek().line, 'expected `;` or `}`, found `%s`' % self.peek().val)

    def parse_if(self):
        line = self.expect('if').line
        if self.at('let'): fail(line, '`if let`')
        c = self.parse_expr(nostruct=True); th = self.parse_block(); el = None
        if self.eat('else'):
            if self.at('if'):
                inner = self.parse_if()
                el = Node('block', inner.line, stmts=[], tail=inner)
            else:
                el = self.parse_block()
        return Node('if', line, cond=c, th=th, el=el)

    # ---- expressions
    def parse_expr(self, nostruct=False):
        return self.parse_range(nostruct)

    def parse_range(self, ns):
        line = self.peek().line
        if self.at('..') or self.at('..='):
            fail(line, 'range without a lower bound')
        lo = self.parse_bin(0, ns)
        if self.at('..') or self.at('..='):
            inc = self.next().val == '..='
            hi = None
            x = self.peek()
            if not (self.at(']') or self.at(')') or self.at('{') or self.at(';') or self.at(',')):
                hi = self.parse_bin(0, ns)
            return Node('range', line, lo=lo, hi=hi, inclusive=inc)
        return lo

    def parse_bin(self, lvl, ns):
        if lvl == len(BINPREC):
            return self.parse_cast(ns)
        lhs = self.parse_bin(lvl + 1, ns)
        while True:
            x = self.peek()
            if x.kind == 'punct' and x.val in BINPREC[lvl]:
                op = self.next().val
                rhs = self.parse_bin(lvl + 1, ns)
                lhs = Node('bin', x.line, op=op, l=lhs, r=rhs)
                if lvl == 2:
                    y = self.peek()
                    if y.kind == 'punct' and y.val in BINPREC[2]:
                        fail(y.line, 'chained comparison')
                    break
            else:
                break
        return lhs

    def parse_cast(self, ns):
        e = self.parse_unary(ns)
        while self.at('as'):
            line = self.next().line
            ty = self.parse_type()
            e = Node('cast', line, e=e, to=ty)
        return e

    def parse_unary(self, ns):
        x = self.peek(); line = x.line
        if self.at('!'):
            self.next(); return Node('not', line, e=self.parse_unary(ns))
        if self.at('-'): fail(line, 'unary minus')
        if self.at('*'):
            if self.peek(1).kind == 'ident' and not self.at('::', 2) and not self.at('(', 2) and not self.at('.', 2) \
                    and not self.at('[', 2):
                self.next(); return Node('deref', line, name=self.ident())   # `*x`, x the variable of `for x in a.iter()`
            fail(line, 'dereference `*`')
        if self.at('&') or self.at('&&'):
            if self.at('&&'): fail(line, '`&&` borrow')
            self.next()
            mut = self.eat('mut') is not None
            return Node('borrow', line, mut=mut, e=self.parse_unary(ns))
        return self.parse_postfix(ns)

    def parse_args(self):
        self.expect('('); args = []
        while not self.at(')'):
            args.append(self.parse_expr())
            if not self.eat(','): break
        self.expect(')')
        return args

    def parse_postfix(self, ns):
        e = self.parse_primary(ns)
        while True:
            x = self.peek(); line = x.line
            if self.at('.'):
                self.next()
                y = self.peek()
                if y.kind == 'int': fail(line, 'tuple field access')
                name = self.ident()
                if self.at('::'): fail(line, 'turbofish')
                if not self.at('('):
                    if not self.struct_names: fail(line, 'field access `.%s`' % name)
                    e = Node('field', line, base=e, name=name)
                    continue
                args = self.parse_args()
                e = Node('method', line, recv=e, name=name, args=args)
            elif self.at('['):
                self.next()
                if self.at('..'):
                    self.next()
                    hi = None if self.at(']') else self.parse_bin(0, False)
                    i = Node('range', line, lo=None, hi=hi, inclusive=False)
                else:
                    i = self.parse_expr()
                self.expect(']')
                e = Node('index', line, base=e, idx=i)
            elif self.at('?'):
                self.next(); e = Node('try', line, e=e)
            elif self.at('('):
                if e.kind != 'path': fail(line, 'call of a non-path expression')
                args = self.parse_args()
                if e.segs == ['Vec', 'new'] and not args:
                    e = Node('vecnew', line)
                else:
                    e = Node('call', line, path=e.segs, args=args)
            else:
                return e

    def parse_primary(self, ns):
        x = self.peek(); line = x.line
        if x.kind == 'int':
            self.next(); return Node('lit', line, val=x.val, suffix=x.suffix, text=x.text)
        if x.kind in ('str', 'char'): fail(line, 'string/char literal')
        if self.at('('):
            self.next()
            if self.at(')'): fail(line, 'unit value `()`')
            e = self.parse_expr()
            if self.at(','): fail(line, 'tuple expression')
            self.expect(')'); return Node('paren', line, e=e)
        if self.at('['):
            self.next()
            first = self.parse_expr()
            if self.eat(';'):
                n = self.next()
                if n.kind != 'int': fail(line, 'array repeat count that is not an integer literal')
                self.expect(']'); return Node('repeat', line, e=first, n=n.val)
            elems = [first]
            while self.eat(','):
                if self.at(']'): break
                elems.append(self.parse_expr())
            self.expect(']'); return Node('arraylit', line, elems=elems)
        if self.at('if'):
            return self.parse_if()
        if self.at('match'):
            # `match e { Enum::V => expr, .. }` over a unit enum; accepted by the checker as a returned value only
            self.next()
            scrut = self.parse_expr(nostruct=True)
            self.expect('{')
            arms = []
            while not self.at('}'):
                al = self.peek().line
                if not (self.peek().kind == 'ident' and self.at('::', 1) and self.peek(2).kind == 'ident' and self.at('=>', 3)):
                    fail(al, '`match` arm whose pattern is not `Enum::Variant`')
                en = self.ident(); self.next(); vn = self.ident(); self.next()
                if self.at('{'): fail(al, '`match` arm with a block body')
                ae = self.parse_expr()
                arms.append((en, vn, ae))
                if not self.eat(','): break
            self.expect('}')
            return Node('match', line, scrut=scrut, arms=[a[2] for a in arms], pats=[(a[0], a[1]) for a in arms])
        if self.at('|') or self.at('||') or self.at('move'): fail(line, 'closure')
        if self.at('{'): fail(line, 'block expression')
        if self.at('unsafe'): fail(line, '`unsafe`')
        if x.kind == 'ident':
            if x.val in ('true', 'false'):
                self.next(); return Node('bool', line, val=(x.val == 'true'))
            segs = [self.ident()]
            while self.at('::'):
                self.next()
                if self.at('<'): fail(line, 'turbofish')
                segs.append(self.ident())
            if self.at('!'):
                if segs == ['vec'] and self.at('[', 1) and self.at(']', 2):
                    self.next(); self.next(); self.next()
                    return Node('vecnew', line)
                if segs == ['vec'] and self.at('[', 1):
                    # `vec![e; N]`
                    save = self.p
                    self.next(); self.next()
                    first = self.parse_expr()
                    if self.eat(';'):
                        n = self.next()
                        if n.kind == 'int' and self.at(']'):
                            self.next(); return Node('repeat', line, e=first, n=n.val, isvec=True)
                    self.p = save
                fail(line, 'macro `%s!`' % '::'.join(segs) + (' with arguments' if segs == ['vec'] else ''))
            if self.at('{') and not ns:
                if len(segs) != 1 or segs[0] not in self.struct_names:
                    fail(line, 'struct literal `%s {..}`' % '::'.join(segs))
                self.next()
                inits = []
                while not self.at('}'):
                    fl = self.peek().line
                    if self.at('..'): fail(fl, 'struct update syntax `..base`')
                    fname = self.ident()
                    if self.eat(':'):
                        fe = self.parse_expr()
                    else:
                        fe = Node('path', fl, segs=[fname])      # shorthand `S { field }`
                    inits.append((fname, fe))
                    if not self.eat(','): break
                self.expect('}')
                return Node('structlit', line, name=segs[0], inits=[x[1] for x in inits],
                            fnames=[x[0] for x in inits])
            return Node('path', line, segs=segs)
        fail(line, 'token `%s` in an expression' % x.val)

BUILTIN_METHODS = ('overflowing_add', 'clone_from_slice', 'extend_from_slice', 'resize', 'iter', 'wrapping_add', 'wrapping_sub', 'wrapping_mul', 'rotate_left', 'rotate_right', 'len',
                   'to_vec', 'clone', 'unwrap', 'push', 'copy_from_slice', 'to_be_bytes', 'try_into', 'as_slice')

# ----------------------------------------------------------------------------------------------
# type checker (bidirectional, integer literals by unification)
# ----------------------------------------------------------------------------------------------
def is_int(t):
    t = resolve(t)
    return isinstance(t, IntVar) or t in INT_TYPES

def elem_of(t, line, what):
    t = resolve(t)
    if isinstance(t, tuple) and t[0] in ('array', 'vec', 'slice'):
        return t[1]
    fail(line, '%s of type %s' % (what, tystr(t)))

class Local:
    def __init__(self, rname, lname, ty, mut, kind):
        self.rname, self.lname, self.ty, self.mut, self.kind = rname, lname, ty, mut, kind

class Checker:
    def __init__(self, items, extern=None):
        self.items = items
        self.consts, self.fns, self.enums, self.structs = {}, {}, {}, {}
        if extern is not None:
            self.structs.update(extern['structs']); self.fns.update(extern['fns'])
        flat = []
        for it in items:
            if it.kind == 'impl': flat += it.fns
            else: flat.append(it)
        for it in flat:
            tbl = {'const': self.consts, 'fn': self.fns, 'enum': self.enums, 'struct': self.structs}[it.kind]
            if it.name in tbl: fail(it.line, 'duplicate item `%s`' % it.name)
            tbl[it.name] = it
        for st in self.structs.values():
            for fname, _ in st.fields:
                if '%s.%s' % (st.name, fname) in self.fns:
                    fail(st.line, 'field and method of `%s` with the same name `%s`' % (st.name, fname))
        self.intvars = []
        self.tyvars = []

    def unify(self, a, b, line, what):
        a, b = resolve(a), resolve(b)
        if a is b: return a
        if isinstance(a, TyVar):
            a.ref = b; return b
        if isinstance(b, TyVar):
            b.ref = a; return a
        if isinstance(a, IntVar):
            if isinstance(b, IntVar) or b in INT_TYPES:
                a.ref = b; return b
            fail(line, '%s: integer literal used as %s' % (what, tystr(b)))
        if isinstance(b, IntVar):
            return self.unify(b, a, line, what)
        if isinstance(a, tuple) and isinstance(b, tuple) and a[0] == b[0] and len(a) == len(b):
            if a[0] == 'result':
                if a[2] != b[2]: fail(line, '%s: error types %s / %s differ' % (what, a[2], b[2]))
                return ('result', self.unify(a[1], b[1], line, what), a[2])
            if a[0] == 'array' and a[2] != b[2]:
                fail(line, '%s: array lengths %d / %d differ' % (what, a[2], b[2]))
            return (a[0], self.unify(a[1], b[1], line, what)) + tuple(a[2:])
        if a == b: return a
        fail(line, '%s: type mismatch %s / %s' % (what, tystr(a), tystr(b)))

    def fresh_int(self, line):
        v = IntVar(line); self.intvars.append(v); return v

    # ---- scopes
    def push(self): self.scopes.append({})
    def pop(self): self.scopes.pop()
    def lookup(self, name):
        for s in reversed(self.scopes):
            if name in s: return s[name]
        return None
    def declare(self, rname, ty, mut, kind, line):
        n = self.used.get(rname, 0)
        self.used[rname] = n + 1
        lname = rname if n == 0 else '%s_%d' % (rname, n)
        while n and (lname in self.used):
            n += 1; lname = '%s_%d' % (rname, n)
        if n: self.used[lname] = 1
        loc = Local(rname, lname, ty, mut, kind)
        self.scopes[-1][rname] = loc
        return loc

    # ---- items
    def check_all(self):
        for it in self.items:
            if it.kind == 'const':
                self.scopes, self.used, self.cur = [{}], {}, None
                self.expr(it.init, it.cty)
                self.finish(it)
        for it in self.items:
            if it.kind == 'fn':
                self.check_fn(it)
            elif it.kind == 'impl':
                for f in it.fns: self.check_fn(f)

    def finish(self, it):
        for v in self.intvars:
            if resolve(v) is v:
                fail(v.line, 'integer literal whose type is not determined (Rust would default to i32) in `%s`' % it.name)
        self.intvars = []
        for v in self.tyvars:
            if resolve(v) is v:
                fail(v.line, '`vec![]` whose element type is not determined in `%s`' % it.name)
        self.tyvars = []

    def check_fn(self, fn):
        self.scopes, self.used, self.cur = [{}], {}, fn
        for name in list(self.consts) + list(self.fns):
            self.used[name] = 1       # never let a local be spelled like a global
        fn.locals = []
        for p in fn.params:
            p.loc = self.declare(p.name, p.pty, p.mutref, 'param', p.line)
        fn.retval = fn.ret[1] if isinstance(fn.ret, tuple) and fn.ret[0] == 'result' else fn.ret
        fn.errty = fn.ret[2] if isinstance(fn.ret, tuple) and fn.ret[0] == 'result' else None
        if fn.errty is not None and fn.errty not in self.enums:
            fail(fn.line, 'error type `%s` is not a translated enum' % fn.errty)
        self.block(fn.body, fn.retval, fnbody=True)
        self.finish(fn)

    # ---- statements
    def block(self, b, expected, fnbody=False):
        """expected: type of the block's value, or None when the value is discarded (unit)"""
        self.push()
        for s in b.stmts:
            self.stmt(s)
        if b.tail is not None:
            if expected is None or expected == 'unit':
                if b.tail.kind == 'if':
                    self.ifnode(b.tail, None)
                else:
                    fail(b.tail.line, 'tail expression in a unit context')
            else:
                if fnbody: self.retexpr(b.tail, expected)
                else: self.expr(b.tail, expected)
            b.ty = expected
        else:
            if expected is not None and expected != 'unit':
                if not (b.stmts and self.diverges(b.stmts[-1])):
                    fail(b.line, 'block without a value where %s is expected' % tystr(expected))
        self.pop()

    def diverges(self, s):
        if s.kind == 'return': return True
        if s.kind == 'exprstmt' and s.e.kind == 'if' and s.e.el is not None:
            return all(blk.tail is None and blk.stmts and self.diverges(blk.stmts[-1]) or
                       (blk.tail is not None and blk.tail.kind == 'if' and self.diverges(Node('exprstmt', blk.line, e=blk.tail)) and not blk.stmts)
                       for blk in (s.e.th, s.e.el))
        return False

    def retexpr(self, e, expected):
        """expression in return position: Ok(..)/Err(..) allowed for Result functions"""
        fn = self.cur
        if e.kind == 'paren':
            return self.retexpr(e.e, expected)
        if e.kind == 'if':
            return self.ifnode(e, expected, ret=True)
        if e.kind == 'match':
            st = resolve(self.expr(e.scrut, None))
            if not (isinstance(st, tuple) and st[0] == 'enum'):
                fail(e.line, '`match` on %s (only a unit enum of this file)' % tystr(st))
            vs = self.enums[st[1]].variants
            if any(en != st[1] for en, _ in e.pats) or sorted(v for _, v in e.pats) != sorted(vs):
                fail(e.line, '`match` whose arms are not exactly the variants of `%s`, once each' % st[1])
            for a in e.arms: self.retexpr(a, expected)
            e.ty = expected; e.isret = True; e.enum = st[1]
            return
        if fn.errty is not None and e.kind == 'method' and e.name not in BUILTIN_METHODS:
            t = self.expr(e, fn.ret, allow_result=True); e.retkind = 'result'; return
        if fn.errty is not None:
            if e.kind == 'call' and e.path == ['Ok'] and len(e.args) == 1:
                self.expr(e.args[0], fn.retval); e.ty = fn.ret; e.retkind = 'ok'; return
            if e.kind == 'call' and e.path == ['Err'] and len(e.args) == 1:
                a = e.args[0]
                if a.kind != 'path' or len(a.segs) != 2 or a.segs[0] != fn.errty or \
                        a.segs[1] not in self.enums[fn.errty].variants:
                    fail(e.line, '`Err(..)` whose argument is not `%s::<Variant>`' % fn.errty)
                e.ty = fn.ret; e.retkind = 'err'; e.variant = a.segs[1]; return
            if e.kind == 'call' and e.path[-1] in self.fns and self.fns[e.path[-1]].ret == fn.ret:
                self.expr(e, fn.ret, allow_result=True); e.retkind = 'result'; return
            fail(e.line, 'returned value of a Result function that is not Ok(..) / Err(..) / a call')
        self.expr(e, expected); e.retkind = 'plain'

    def stmt(self, s):
        k = s.kind
        if k == 'let':
            if s.lty is not None:
                self.expr(s.init, s.lty); ty = s.lty
            else:
                ty = self.expr(s.init, None)
            if ty == 'unit': fail(s.line, '`let` of a unit value')
            s.loc = self.declare(s.name, ty, s.mut, 'let', s.line)
        elif k == 'lettuple':
            m = s.init
            if not (m.kind == 'method' and m.name == 'overflowing_add' and len(m.args) == 1):
                fail(s.line, 'pattern in `let` whose initialiser is not `a.overflowing_add(b)`')
            t = self.expr(m.recv, None)
            if isinstance(resolve(t), IntVar) or resolve(t) not in ('u8', 'u32', 'u64'):
                fail(s.line, '`.overflowing_add` on %s' % tystr(t))
            self.expr(m.args[0], t)
            m.ty = t; s.opty = t
            s.locs = [self.declare(s.names[0], t, False, 'let', s.line), self.declare(s.names[1], 'bool', False, 'let', s.line)]
        elif k == 'foriter':
            t = self.expr(s.recv, None)
            et = elem_of(t, s.line, '`.iter()`')
            self.push()
            s.loc = self.declare(s.var, et, False, 'iterref', s.line)
            self.loopdepth = getattr(self, 'loopdepth', 0) + 1
            self.block(s.body, None)
            self.loopdepth -= 1
            self.pop()
        elif k == 'assign':
            self.assign(s)
        elif k == 'while':
            self.expr(s.cond, 'bool')
            self.loopdepth = getattr(self, 'loopdepth', 0) + 1
            self.block(s.body, None)
            self.loopdepth -= 1
        elif k == 'for':
            t = self.expr(s.lo, None)
            t2 = self.expr(s.hi, t)
            s.ity = self.unify(t, t2, s.line, '`for` range bounds')
            if s.var == '_' and isinstance(resolve(s.ity), IntVar):
                # `for _ in 0..32`: Rust infers i32; the variable is unused, so only the number of
                # iterations matters -- the same as for the Nat range, provided both bounds fit i32
                lo, hi = literal_value(s.lo), literal_value(s.hi)
                if lo is None or hi is None or lo >= 2 ** 31 or hi >= 2 ** 31:
                    fail(s.line, '`for _ in a..b` whose bounds are not i32 literals')
                s.ity = self.unify(s.ity, 'usize', s.line, '`for` range bounds')
            self.push()
            s.loc = self.declare(s.var, s.ity, False, 'for', s.line) if s.var != '_' else None
            self.loopdepth = getattr(self, 'loopdepth', 0) + 1
            self.block(s.body, None)
            self.loopdepth -= 1
            self.pop()
        elif k == 'return':
            if getattr(self, 'loopdepth', 0) and False:
                pass
            if s.e is None:
                if self.cur.ret != 'unit': fail(s.line, '`return;` in a non-unit function')
            else:
                self.retexpr(s.e, self.cur.retval)
        elif k == 'exprstmt':
            e = s.e
            if e.kind == 'if':
                self.ifnode(e, None)
            elif e.kind == 'method' and e.name in ('push', 'copy_from_slice', 'clone_from_slice', 'extend_from_slice', 'resize'):
                self.mutmethod(e)
            elif e.kind == 'method' and e.name not in BUILTIN_METHODS:
                self.expr(e, None, stmt=True)
                if getattr(e, 'mutself', None) is None:
                    fail(s.line, 'method-call statement without `&mut self` (no effect on the state)')
                e.stmtcall = True
            elif e.kind == 'call':
                t = self.expr(e, None, stmt=True)
                if resolve(t) != 'unit': fail(s.line, 'call statement that discards a value')
            else:
                fail(s.line, 'expression statement of kind `%s`' % e.kind)
        else:
            fail(s.line, 'statement kind %s' % k)

    def place(self, e, what):
        """assignable place: local or local[index]; returns (Local, index-expr or None)"""
        if e.kind == 'path' and len(e.segs) == 1:
            loc = self.lookup(e.segs[0])
            if loc is None: fail(e.line, '%s to unknown local `%s`' % (what, e.segs[0]))
            if not loc.mut: fail(e.line, '%s to immutable `%s`' % (what, e.segs[0]))
            e.loc = loc; e.ty = loc.ty
            return loc, None
        if e.kind == 'index' and e.base.kind == 'path' and len(e.base.segs) == 1:
            loc, _ = self.place(e.base, what)
            self.expr(e.idx, 'usize')
            e.ty = elem_of(loc.ty, e.line, 'indexing')
            return loc, e.idx
        if e.kind == 'field' and e.base.kind == 'path' and len(e.base.segs) == 1:
            loc, _ = self.place(e.base, what)
            e.ty = self.fieldty(loc.ty, e.name, e.line)
            return loc, None
        if e.kind == 'index' and e.base.kind == 'field' and e.base.base.kind == 'path' and len(e.base.base.segs) == 1:
            loc, _ = self.place(e.base, what)
            if e.idx.kind == 'range': fail(e.line, '%s to a slice' % what)
            self.expr(e.idx, 'usize')
            e.ty = elem_of(e.base.ty, e.line, 'indexing')
            return loc, e.idx
        fail(e.line, '%s to a place that is not `x`, `x[i]`, `x.f` or `x.f[i]`' % what)

    def fieldty(self, t, fname, line):
        t = resolve(t)
        if not (isinstance(t, tuple) and t[0] == 'struct'):
            fail(line, 'field access `.%s` on %s' % (fname, tystr(t)))
        for n, ft in self.structs[t[1]].fields:
            if n == fname: return ft
        fail(line, 'unknown field `%s` of `%s`' % (fname, t[1]))

    def assign(self, s):
        loc, idx = self.place(s.lhs, 'assignment')
        lt = s.lhs.ty
        if s.op == '=':
            self.expr(s.rhs, lt)
        else:
            op = s.op[:-1]
            s.bin = Node('bin', s.line, op=op, l=s.lhs, r=s.rhs)
            s.lhs_skip = True
            self.binop(s.bin, lt, lhs_done=True)

    def mutmethod(self, e):
        r = e.recv
        if e.name == 'copy_from_slice' and r.kind == 'index' and r.idx.kind == 'range' and \
                r.base.kind == 'path' and len(r.base.segs) == 1:
            # `dst[lo..hi].copy_from_slice(src)`
            loc, _ = self.place(r.base, '`.copy_from_slice`')
            if r.idx.inclusive or r.idx.hi is None:
                fail(e.line, '`.copy_from_slice` on a range that is not `lo..hi` / `..hi`')
            if r.idx.lo is not None: self.expr(r.idx.lo, 'usize')
            self.expr(r.idx.hi, 'usize')
            if len(e.args) != 1: fail(e.line, '`.copy_from_slice` arity')
            at = self.expr(e.args[0], None)
            self.unify(elem_of(loc.ty, e.line, '`.copy_from_slice`'), elem_of(at, e.line, '`.copy_from_slice` argument'),
                       e.line, '`.copy_from_slice`')
            e.rangecopy = True
            return
        if e.recv.kind != 'path' or len(e.recv.segs) != 1:
            fail(e.line, '`.%s` on something that is not a local' % e.name)
        loc, _ = self.place(e.recv, '`.%s`' % e.name)
        t = resolve(loc.ty)
        if e.name == 'push':
            if not (isinstance(t, tuple) and t[0] == 'vec') or len(e.args) != 1:
                fail(e.line, '`.push` on %s' % tystr(t))
            self.expr(e.args[0], t[1])
        elif e.name == 'extend_from_slice':
            if not (isinstance(t, tuple) and t[0] == 'vec') or len(e.args) != 1:
                fail(e.line, '`.extend_from_slice` on %s' % tystr(t))
            at = self.expr(e.args[0], None)
            self.unify(t[1], elem_of(at, e.line, '`.extend_from_slice` argument'), e.line, '`.extend_from_slice`')
        elif e.name == 'resize':
            if not (isinstance(t, tuple) and t[0] == 'vec') or len(e.args) != 2:
                fail(e.line, '`.resize` on %s' % tystr(t))
            self.expr(e.args[0], 'usize'); self.expr(e.args[1], t[1])
        else:
            if len(e.args) != 1: fail(e.line, '`.copy_from_slice` arity')
            at = self.expr(e.args[0], None)
            self.unify(elem_of(t, e.line, '`.copy_from_slice`'), elem_of(at, e.line, '`.copy_from_slice` argument'),
                       e.line, '`.copy_from_slice`')

    def ifnode(self, e, expected, ret=False):
        self.expr(e.cond, 'bool')
        for blk in (e.th, e.el):
            if blk is None: continue
            if ret:
                self.block(blk, expected, fnbody=True)
            else:
                self.block(blk, expected)
        if expected is not None and expected != 'unit' and e.el is None:
            fail(e.line, '`if` without `else` used as a value')
        e.ty = expected if expected is not None else 'unit'
        e.isret = ret
        return e.ty

    # ---- expressions
    def expr(self, e, expected, allow_result=False, stmt=False):
        t = self.expr1(e, expected, allow_result, stmt)
        if expected is not None:
            t = self.unify(t, expected, e.line, 'expression')
        e.ty = t
        return t

    def expr1(self, e, expected, allow_result, stmt):
        k = e.kind
        if k == 'lit':
            if e.suffix is not None:
                if e.suffix not in INT_TYPES: fail(e.line, 'literal suffix `%s`' % e.suffix)
                t = e.suffix
            elif expected is not None and is_int(expected):
                t = expected
            elif expected is not None:
                fail(e.line, 'integer literal where %s is expected' % tystr(expected))
            else:
                t = self.fresh_int(e.line)
            self.litvals.append(e) if hasattr(self, 'litvals') else None
            return t
        if k == 'bool': return 'bool'
        if k == 'paren': return self.expr(e.e, expected)
        if k == 'path':
            if len(e.segs) != 1: fail(e.line, 'path `%s` as a value' % '::'.join(e.segs))
            name = e.segs[0]
            loc = self.lookup(name)
            if loc is not None:
                if loc.kind == 'iterref': fail(e.line, 'use of the `.iter()` variable `%s` without `*`' % name)
                e.loc = loc; return loc.ty
            if name in self.consts:
                e.const = self.consts[name]; return self.consts[name].cty
            fail(e.line, 'unknown identifier `%s`' % name)
        if k == 'deref':
            loc = self.lookup(e.name)
            if loc is None or loc.kind != 'iterref':
                fail(e.line, 'dereference `*%s` of something that is not the variable of `for %s in a.iter()`' % (e.name, e.name))
            e.loc = loc; return loc.ty
        if k == 'match': fail(e.line, '`match` that is not the returned value')
        if k == 'borrow':
            if e.mut: fail(e.line, '`&mut` outside a call argument')
            return self.expr(e.e, expected)
        if k == 'not':
            t = self.expr(e.e, expected)
            if resolve(t) != 'bool' and not is_int(t): fail(e.line, '`!` on %s' % tystr(t))
            return t
        if k == 'cast':
            to = e.to
            if to not in INT_TYPES: fail(e.line, 'cast to %s' % tystr(to))
            ft = self.expr(e.e, None)
            if isinstance(resolve(ft), IntVar):
                self.unify(ft, to, e.line, 'cast of a literal')
            elif resolve(ft) == 'bool' and to == 'u8':
                pass        # `b as u8` is 0 / 1
            elif resolve(ft) not in INT_TYPES:
                fail(e.line, 'cast from %s' % tystr(ft))
            return to
        if k == 'bin':
            return self.binop(e, expected)
        if k == 'repeat':
            et = None
            ex = resolve(expected) if expected is not None else None
            if getattr(e, 'isvec', False):
                if isinstance(ex, tuple) and ex[0] == 'vec': et = ex[1]
                t = self.expr(e.e, et)
                return ('vec', t)
            if isinstance(ex, tuple) and ex[0] == 'array':
                et = ex[1]
                if ex[2] != e.n: fail(e.line, 'array length %d where %d is expected' % (e.n, ex[2]))
            t = self.expr(e.e, et)
            return ('array', t, e.n)
        if k == 'arraylit':
            et = None
            ex = resolve(expected) if expected is not None else None
            if isinstance(ex, tuple) and ex[0] == 'array': et = ex[1]
            for x in e.elems:
                t = self.expr(x, et); et = t
            return ('array', et, len(e.elems))
        if k == 'index':
            bt = self.expr(e.base, None)
            if e.idx.kind == 'range':
                if e.idx.inclusive: fail(e.line, 'inclusive range `..=` in a slice')
                if e.idx.lo is not None: self.expr(e.idx.lo, 'usize')
                if e.idx.hi is not None: self.expr(e.idx.hi, 'usize')
                return ('slice', elem_of(bt, e.line, 'slicing'))
            self.expr(e.idx, 'usize')
            return elem_of(bt, e.line, 'indexing')
        if k == 'field':
            return self.fieldty(self.expr(e.base, None), e.name, e.line)
        if k == 'structlit':
            st = self.structs[e.name]
            if sorted(e.fnames) != sorted(n for n, _ in st.fields):
                fail(e.line, 'struct literal `%s {..}` that does not name every field exactly once' % e.name)
            for n, x in zip(e.fnames, e.inits):
                self.expr(x, self.fieldty(('struct', e.name), n, x.line))
            return ('struct', e.name)
        if k == 'vecnew':
            v = TyVar(e.line); self.tyvars.append(v)
            return ('vec', v)
        if k == 'if':
            if expected is None: fail(e.line, '`if` expression whose type is not known from context')
            return self.ifnode(e, expected)
        if k == 'method':
            return self.method(e, expected, allow_result, stmt)
        if k == 'try':
            c = e.e
            if c.kind == 'method' and c.name not in BUILTIN_METHODS: pass
            elif c.kind == 'call' and len(c.path) == 2 and c.path[0] in self.structs and '%s.%s' % tuple(c.path) in self.fns: pass
            elif c.kind != 'call' or c.path[-1] not in self.fns: fail(e.line, '`?` on something that is not a call of a translated fn')
            t = resolve(self.expr(c, None, allow_result=True))
            if not (isinstance(t, tuple) and t[0] == 'result'): fail(e.line, '`?` on %s' % tystr(t))
            if self.cur is None or self.cur.errty != t[2]:
                fail(e.line, '`?` converting error type %s' % t[2])
            return t[1]
        if k == 'call':
            return self.call(e, expected, allow_result, stmt)
        if k == 'range': fail(e.line, 'range expression outside `for`')
        fail(e.line, 'expression kind %s' % k)

    def binop(self, e, expected, lhs_done=False):
        op = e.op
        if op in ('&&', '||'):
            self.expr(e.l, 'bool'); self.expr(e.r, 'bool'); e.ty = 'bool'; return 'bool'
        if op in ('==', '!=', '<', '>', '<=', '>='):
            lt = self.expr(e.l, None)
            rt = self.expr(e.r, lt if not isinstance(resolve(lt), IntVar) else None)
            t = self.unify(lt, rt, e.line, 'comparison')
            if not is_int(t) and not (resolve(t) == 'bool' and op in ('==', '!=')):
                fail(e.line, 'comparison of %s' % tystr(t))
            e.opty = t; e.ty = 'bool'
            return 'bool'
        if op in ('<<', '>>'):
            lt = e.l.ty if lhs_done else self.expr(e.l, expected)
            if not is_int(lt): fail(e.line, 'shift of %s' % tystr(lt))
            r = e.r
            while r.kind == 'paren': r = r.e
            if r.kind != 'lit':
                rt = resolve(self.expr(e.r, None))
                if resolve(lt) != 'u32' or rt not in ('u32', 'usize'):
                    fail(e.line, 'shift of %s by a non-literal amount of type %s' % (tystr(lt), tystr(rt)))
                e.amount = None; e.amty = rt
            else:
                e.amount = r.val
            e.opty = lt; e.ty = lt
            return lt
        lt = e.l.ty if lhs_done else self.expr(e.l, expected)
        rt = self.expr(e.r, lt if not isinstance(resolve(lt), IntVar) else expected)
        t = self.unify(lt, rt, e.line, 'operator `%s`' % op)
        if resolve(t) == 'bool' and op in ('&', '|', '^'):
            pass
        elif not is_int(t):
            fail(e.line, 'operator `%s` on %s' % (op, tystr(t)))
        e.opty = t; e.ty = t
        return t

    def method(self, e, expected, allow_result, stmt=False):
        n = e.name
        if n not in BUILTIN_METHODS:
            return self.usermethod(e, stmt, allow_result)
        if n in ('overflowing_add', 'clone_from_slice', 'extend_from_slice', 'resize', 'iter'):
            fail(e.line, '`.%s` in this position' % n)
        if n in ('wrapping_add', 'wrapping_sub', 'wrapping_mul'):
            if len(e.args) != 1: fail(e.line, '`.%s` arity' % n)
            t = self.expr(e.recv, expected)
            if not is_int(t): fail(e.line, '`.%s` on %s' % (n, tystr(t)))
            self.expr(e.args[0], t)
            return t
        if n in ('rotate_left', 'rotate_right'):
            if len(e.args) != 1: fail(e.line, '`.%s` arity' % n)
            t = self.expr(e.recv, expected if expected is not None else None)
            self.expr(e.args[0], 'u32')
            return t
        if n == 'len':
            if e.args: fail(e.line, '`.len` arity')
            t = self.expr(e.recv, None); elem_of(t, e.line, '`.len()`')
            return 'usize'
        if n in ('to_vec', 'clone'):
            if e.args: fail(e.line, '`.%s` arity' % n)
            t = resolve(self.expr(e.recv, None))
            if n == 'to_vec':
                return ('vec', elem_of(t, e.line, '`.to_vec()`'))
            if not (isinstance(t, tuple) or t in INT_TYPES or t == 'bool'): fail(e.line, '`.clone()` on %s' % tystr(t))
            return t
        if n == 'as_slice':
            if e.args: fail(e.line, '`.as_slice` arity')
            t = resolve(self.expr(e.recv, None))
            if not (isinstance(t, tuple) and t[0] in ('vec', 'array', 'slice')): fail(e.line, '`.as_slice()` on %s' % tystr(t))
            return ('slice', t[1])
        if n == 'to_be_bytes':
            if e.args: fail(e.line, '`.to_be_bytes` arity')
            t = resolve(self.expr(e.recv, 'u32'))
            return ('array', 'u8', 4)
        if n == 'try_into':
            fail(e.line, '`.try_into()` that is not `slice.try_into().unwrap()` where an array `[T; N]` is expected')
        if n == 'unwrap' and e.recv.kind == 'method' and e.recv.name == 'try_into':
            # `s.try_into().unwrap()` : slice -> [T; N] (N from the expected type), wrong length panics
            c = e.recv
            if e.args or c.args: fail(e.line, '`.try_into().unwrap()` arity')
            ex = resolve(expected) if expected is not None else None
            if not (isinstance(ex, tuple) and ex[0] == 'array'):
                fail(e.line, '`.try_into().unwrap()` where the expected array type is not known')
            st = resolve(self.expr(c.recv, None))
            if not (isinstance(st, tuple) and st[0] in ('slice', 'vec', 'array')):
                fail(e.line, '`.try_into()` on %s' % tystr(st))
            self.unify(st[1], ex[1], e.line, '`.try_into()`')
            e.tryinto = ex[2]; c.ty = ex
            return ex
        if n == 'unwrap':
            if e.args: fail(e.line, '`.unwrap` arity')
            c = e.recv
            if c.kind != 'call' or c.path[-1] not in self.fns:
                fail(e.line, '`.unwrap()` on something that is not a call of a translated fn')
            t = resolve(self.expr(c, None, allow_result=True))
            if not (isinstance(t, tuple) and t[0] == 'result'): fail(e.line, '`.unwrap()` on %s' % tystr(t))
            return t[1]
        fail(e.line, 'method `.%s`' % n)

    def usermethod(self, e, stmt, allow_result=False):
        """`recv.m(args)` where recv has a translated struct type and `m` takes `&self` / `&mut self`"""
        n = e.name
        rt = resolve(self.expr(e.recv, None))
        if not (isinstance(rt, tuple) and rt[0] == 'struct'):
            fail(e.line, 'method `.%s`' % n)
        fn = self.fns.get('%s.%s' % (rt[1], n))
        if fn is None or fn.selfkind is None:
            fail(e.line, 'method `.%s` of `%s`' % (n, rt[1]))
        if self.cur is not None:
            self.cur.calls = getattr(self.cur, 'calls', [])
            if fn.name not in self.cur.calls: self.cur.calls.append(fn.name)
        if len(e.args) != len(fn.params) - 1:
            fail(e.line, 'call of `%s` with %d arguments' % (fn.name, len(e.args)))
        e.fn = fn; e.mutself = None; e.mutfield = None
        if fn.selfkind == 'mut':
            r = e.recv
            if r.kind == 'field' and r.base.kind == 'path' and len(r.base.segs) == 1:
                e.mutfield = r.name
            elif not (r.kind == 'path' and len(r.segs) == 1):
                fail(e.line, 'call of the `&mut self` method `.%s` on something that is not a local or `local.field`' % n)
            loc, _ = self.place(e.recv, '`&mut self` call')
            e.mutself = loc
        for a, prm in zip(e.args, fn.params[1:]):
            if prm.mutref: fail(a.line, '`&mut` argument of a method call')
            self.arg(a, prm.pty)
        t = fn.ret
        if isinstance(t, tuple) and t[0] == 'result' and not allow_result:
            fail(e.line, 'method returning `Result` used without `?`')
        if t == 'unit' and not stmt:
            fail(e.line, 'unit method call used as a value')
        return t

    def arg(self, a, pty):
        """argument for a by-value / shared-borrow parameter; `&local` of type [T; N] / Vec<T> coerces to `&[T]`"""
        p = resolve(pty)
        if isinstance(p, tuple) and p[0] == 'slice' and a.kind == 'borrow' and not a.mut and \
                a.e.kind == 'path' and len(a.e.segs) == 1:
            t = resolve(self.expr(a.e, None))
            if isinstance(t, tuple) and t[0] in ('array', 'vec'):
                self.unify(t[1], p[1], a.line, 'argument'); a.ty = p
                return p
        if isinstance(p, tuple) and p[0] == 'slice' and a.kind == 'borrow' and not a.mut and a.e.kind == 'repeat' \
                and not getattr(a.e, 'isvec', False):
            # `&[e; N]` for a `&[T]` parameter
            self.expr(a.e, ('array', p[1], a.e.n)); a.ty = p
            return p
        return self.expr(a, pty)

    def call(self, e, expected, allow_result, stmt):
        p = e.path
        if len(p) == 2 and p[0] in self.structs:
            p = e.path = ['%s.%s' % (p[0], p[1])]
            if p[0] in self.fns and self.fns[p[0]].selfkind is not None:
                fail(e.line, 'method `%s` called as a path' % p[0])
        if len(p) == 2 and p[1] == 'from' and p[0] in INT_TYPES:
            if len(e.args) != 1: fail(e.line, '`%s::from` arity' % p[0])
            ft = resolve(self.expr(e.args[0], None))
            if ft not in INT_TYPES or BITS[ft] > BITS[p[0]] or (ft == 'usize') != (p[0] == 'usize') and ft == 'usize':
                fail(e.line, '`%s::from(%s)` is not a widening conversion' % (p[0], tystr(ft)))
            if ft != 'u8' and p[0] == 'usize' and ft != 'usize':
                fail(e.line, '`usize::from(%s)`' % tystr(ft))
            e.builtin = 'from'; e.fromty = ft
            return p[0]
        if p == ['u32', 'from_be_bytes']:
            if len(e.args) != 1: fail(e.line, '`u32::from_be_bytes` arity')
            self.expr(e.args[0], ('array', 'u8', 4))
            e.builtin = 'from_be_bytes'
            return 'u32'
        if len(p) != 1: fail(e.line, 'call of path `%s`' % '::'.join(p))
        name = p[0]
        if name in ('Ok', 'Err', 'Some', 'None'):
            fail(e.line, '`%s(..)` that is not the returned value' % name)
        if name not in self.fns:
            fail(e.line, 'call of unknown function `%s`' % name)
        fn = self.fns[name]
        if self.cur is not None:
            self.cur.calls = getattr(self.cur, 'calls', [])
            if name not in self.cur.calls: self.cur.calls.append(name)
        if len(e.args) != len(fn.params): fail(e.line, 'call of `%s` with %d arguments' % (name, len(e.args)))
        e.fn = fn; e.mutargs = []
        for a, prm in zip(e.args, fn.params):
            if prm.mutref:
                if a.kind == 'borrow' and a.mut and a.e.kind == 'index' and a.e.idx.kind == 'range' and a.e.idx.lo is None \
                        and a.e.idx.hi is None and a.e.base.kind == 'path' and len(a.e.base.segs) == 1 and \
                        isinstance(resolve(prm.pty), tuple) and resolve(prm.pty)[0] == 'slice':
                    # `&mut local[..]` for a `&mut [T]` parameter: the whole of `local` (its length cannot change)
                    loc, _ = self.place(a.e.base, '`&mut` borrow')
                    self.unify(elem_of(loc.ty, a.line, '`&mut x[..]`'), resolve(prm.pty)[1], a.line, 'argument')
                    a.mutwhole = a.e.base
                    e.mutargs.append(loc)
                    continue
                if not (a.kind == 'borrow' and a.mut and a.e.kind == 'path' and len(a.e.segs) == 1):
                    fail(a.line, 'argument for a `&mut` parameter that is not `&mut local` / `&mut local[..]`')
                loc, _ = self.place(a.e, '`&mut` borrow')
                self.unify(loc.ty, prm.pty, a.line, 'argument')
                e.mutargs.append(loc)
            else:
                self.arg(a, prm.pty)
        if e.mutargs and not (stmt and fn.ret == 'unit'):
            fail(e.line, 'call with `&mut` arguments that is not a statement of a unit function')
        t = fn.ret
        if isinstance(t, tuple) and t[0] == 'result' and not allow_result:
            fail(e.line, 'Result value of `%s` used without `?` / `.unwrap()`' % name)
        return t

# ----------------------------------------------------------------------------------------------
# effect analysis
# ----------------------------------------------------------------------------------------------
def walk(n, f):
    """pre-order walk over every Node reachable from n"""
    if isinstance(n, Node):
        f(n)
        for k, v in n.__dict__.items():
            if k in ('loc', 'fn', 'const', 'ty', 'opty', 'cty', 'pty', 'lty', 'to', 'ret', 'mutargs', 'bin'):
                continue
            walk(v, f)
        if n.kind == 'assign' and hasattr(n, 'bin'):
            walk(n.bin.r, lambda x: None)
    elif isinstance(n, list):
        for x in n: walk(x, f)

def literal_value(e):
    while e.kind == 'paren': e = e.e
    return e.val if e.kind == 'lit' else None

def node_effect(n, effectful_fns):
    """does this node (by itself) panic / diverge / fail?"""
    k = n.kind
    if k == 'index': return True
    if k == 'while': return True
    if k == 'try': return True
    if k == 'method' and n.name in ('unwrap', 'copy_from_slice', 'clone_from_slice'): return True
    if k == 'call' and getattr(n, 'retkind', None) == 'err': return True
    if k == 'call' and hasattr(n, 'fn') and n.fn.name in effectful_fns: return True
    if k == 'method' and hasattr(n, 'fn') and n.fn.name in effectful_fns: return True
    if k == 'bin' and n.op in ('<<', '>>') and getattr(n, 'amount', 0) is None: return True
    if k == 'bin' and n.op == '-' and resolve(n.opty) == 'u32': return True
    if k == 'bin' and n.op in ('/', '%'):
        v = literal_value(n.r)
        return v is None or v == 0
    if k == 'bin' and n.op == '-' and resolve(n.opty) == 'usize': return True
    if k == 'bin' and n.op in ('+', '*', '-') and resolve(n.opty) in ('u8', 'u32', 'u64'): return True
    if k == 'bin' and n.op in ('+', '*') and resolve(n.opty) == 'usize' and USIZE_CHECKED: return True
    if k == 'assign':
        if n.lhs.kind == 'index': return True
        if n.op in ('/=', '%='):
            v = literal_value(n.rhs); return v is None or v == 0
        if n.op == '-=' and resolve(n.lhs.ty) in ('usize', 'u32'): return True
        if n.op in ('<<=', '>>=') and getattr(n.bin, 'amount', 0) is None: return True
        if n.op in ('+=', '*=') and resolve(n.lhs.ty) == 'usize' and USIZE_CHECKED: return True
        if n.op in ('+=', '*=', '-=') and resolve(n.lhs.ty) in ('u8', 'u32', 'u64'): return True
    return False

def has_effect(n, effectful_fns):
    found = []
    def f(x):
        if node_effect(x, effectful_fns): found.append(x)
    walk(n, f)
    return bool(found)

def order_fns(fns):
    """topological order (callees first); recursion is unsupported"""
    order, state = [], {}
    def visit(f, stack):
        if state.get(f.name) == 2: return
        if state.get(f.name) == 1: fail(f.line, 'recursive function `%s`' % f.name)
        state[f.name] = 1
        for c in getattr(f, 'calls', []):
            visit(fns[c], stack + [f.name])
        state[f.name] = 2; order.append(f)
    for f in fns.values(): visit(f, [])
    return order

# ----------------------------------------------------------------------------------------------
# emitter
# ----------------------------------------------------------------------------------------------
LEAN_KEYWORDS = set('''at by do else end extends for from fun have if in let match mut namespace open show then
where with using variable section theorem def example instance structure inductive class deriving local
set_option universe import private protected partial unsafe macro syntax notation infix infixl infixr prefix
postfix return break continue try catch finally unless repeat while nomatch nofun calc suffices obtain Type Prop Sort
abbrev axiom attribute export mutual opaque'''.split())

def lname(s):
    if '.' in s: return '.'.join(lname(x) for x in s.split('.'))
    return '«%s»' % s if s in LEAN_KEYWORDS else s

def lean_ty(t):
    t = resolve(t)
    if t == 'u8': return 'UInt8'
    if t == 'u32': return 'UInt32'
    if t == 'u64': return 'UInt64'
    if t == 'usize': return 'Nat'
    if t == 'bool': return 'Bool'
    if t == 'unit': return 'Unit'
    if isinstance(t, tuple) and t[0] in ('array', 'vec', 'slice'):
        inner = lean_ty(t[1])
        return 'Array %s' % (inner if ' ' not in inner else '(%s)' % inner)
    if isinstance(t, tuple) and t[0] == 'struct':
        return EXTERN_LEAN[t[1]] if t[1] in EXTERN_LEAN else lname(t[1])
    if isinstance(t, tuple) and t[0] == 'enum':
        return lname(t[1])
    raise Unsupported('internal: no Lean type for %s' % tystr(t))

def fn_lean(fn):
    """Lean name of a translated fn; fns of the --extern file are referred to by their qualified name"""
    return getattr(fn, 'lean_name', None) or lname(fn.name)

def paren_ty(s):
    return '(%s)' % s if ' ' in s else s

class Emitter:
    def __init__(self, chk, ns):
        self.chk, self.ns = chk, ns
        self.effectful = set()
        self.unchecked_sites = []
        self.helpers = set()      # on-demand run-time support (PRELUDE_EXTRA) used by the output

    def lit(self, e, t):
        t = resolve(t)
        if e.val >= 2 ** BITS[t]:
            fail(e.line, 'literal %s out of range for %s' % (e.text, t))
        return '(%s : %s)' % (e.text, lean_ty(t))

    # ---- expressions: returns Lean term; effectful sub-terms are `(← ..)` (only when self.monadic)
    def act(self, s):
        if not self.monadic:
            raise Unsupported('internal: effect in a pure function')
        return '(← %s)' % s

    def cond(self, e):
        """boolean expression in condition position -> decidable Prop"""
        k = e.kind
        if k == 'paren': return self.cond(e.e)
        if k == 'bin' and e.op in ('&&', '||'):
            if has_effect(e.r, self.effectful):
                fail(e.line, 'short-circuit `%s` whose right operand can panic' % e.op)
            return '(%s %s %s)' % (self.cond(e.l), '∧' if e.op == '&&' else '∨', self.cond(e.r))
        if k == 'bin' and e.op in ('==', '!=', '<', '>', '<=', '>='):
            op = {'==': '=', '!=': '≠', '<': '<', '>': '>', '<=': '≤', '>=': '≥'}[e.op]
            return '(%s %s %s)' % (self.expr(e.l), op, self.expr(e.r))
        if k == 'not':
            return '(¬ %s)' % self.cond(e.e)
        if k == 'bool':
            return 'True' if e.val else 'False'
        return '(%s = true)' % self.expr(e)

    def expr(self, e):
        k = e.kind
        t = resolve(e.ty) if e.ty is not None else None
        if k == 'lit': return self.lit(e, e.ty)
        if k == 'bool': return 'true' if e.val else 'false'
        if k == 'paren': return self.expr(e.e)
        if k == 'path':
            if hasattr(e, 'loc'): return lname(e.loc.lname)
            return lname(e.const.name)
        if k == 'borrow': return self.expr(e.e)
        if k == 'deref': return lname(e.loc.lname)
        if k == 'not':
            if t == 'bool': return '(!%s)' % self.expr(e.e)
            if t == 'usize': fail(e.line, '`!` on usize')
            return '(~~~ %s)' % self.expr(e.e)
        if k == 'cast':
            ft, to = resolve(e.e.ty), e.to
            x = self.expr(e.e)
            if ft == to: return x
            if ft == 'bool': return '(if %s then (1 : UInt8) else (0 : UInt8))' % self.cond(e.e)
            if ft == 'usize': return '(%s.ofNat %s)' % (lean_ty(to), x)
            if to == 'usize': return '%s.toNat' % self.atom(x)
            return '%s.to%s' % (self.atom(x), lean_ty(to))
        if k == 'bin': return self.binop(e)
        if k == 'repeat':
            return '(Array.replicate %d %s)' % (e.n, self.expr(e.e))
        if k == 'arraylit':
            return '#[%s]' % ', '.join(self.expr(x) for x in e.elems)
        if k == 'index':
            if e.idx.kind == 'range':
                base = self.atom(self.expr(e.base))
                lo = self.atom(self.expr(e.idx.lo)) if e.idx.lo is not None else '(0 : Nat)'
                hi = self.atom(self.expr(e.idx.hi)) if e.idx.hi is not None else '%s.size' % base
                return self.act('Rs.slice %s %s %s' % (base, lo, hi))
            return self.act('Rs.get %s %s' % (self.atom(self.expr(e.base)), self.atom(self.expr(e.idx))))
        if k == 'field':
            return '%s.%s' % (self.atom(self.expr(e.base)), lname(e.name))
        if k == 'structlit':
            return '({ %s } : %s)' % (', '.join('%s := %s' % (lname(n), self.expr(x))
                                                  for n, x in zip(e.fnames, e.inits)), lean_ty(('struct', e.name)))
        if k == 'vecnew':
            return '#[]'
        if k == 'if':
            if has_effect(e.th, self.effectful) or has_effect(e.el, self.effectful) or e.th.stmts or e.el.stmts:
                fail(e.line, '`if` expression with statements or panicking operations in its branches')
            return '(if %s then %s else %s)' % (self.cond(e.cond), self.expr(e.th.tail), self.expr(e.el.tail))
        if k == 'method': return self.method(e)
        if k == 'try':
            return self.act(self.methodcall(e.e) if e.e.kind == 'method' else self.callstr(e.e))
        if k == 'call':
            if getattr(e, 'builtin', None) == 'from_be_bytes':
                self.helpers.add('from_be_bytes32')
                return '(Rs.from_be_bytes32 %s)' % self.atom(self.expr(e.args[0]))
            if getattr(e, 'builtin', None) == 'from':
                x = self.expr(e.args[0])
                if e.fromty == e.path[0]: return x
                if e.path[0] == 'usize': return '%s.toNat' % self.atom(x)
                return '%s.to%s' % (self.atom(x), lean_ty(e.path[0]))
            s = self.callstr(e)
            return self.act(s) if e.fn.name in self.effectful else '(%s)' % s
        fail(e.line, 'expression kind %s' % k)

    def atom(self, s):
        if re.match(r'^[A-Za-z_«][A-Za-z0-9_.«»]*$', s) or (s.startswith('(') and self.balanced(s)) or s.startswith('#['):
            return s
        return '(%s)' % s

    @staticmethod
    def balanced(s):
        d = 0
        for i, c in enumerate(s):
            if c == '(': d += 1
            if c == ')':
                d -= 1
                if d == 0 and i != len(s) - 1: return False
        return d == 0

    def callstr(self, e):
        args = []
        for a, prm in zip(e.args, e.fn.params):
            args.append(self.atom(self.expr((getattr(a, 'mutwhole', None) or a.e) if prm.mutref else a)))
        return ' '.join([fn_lean(e.fn)] + args)

    def binop(self, e):
        op = e.op
        if op in ('&&', '||'):
            if has_effect(e.r, self.effectful):
                fail(e.line, 'short-circuit `%s` whose right operand can panic' % op)
            return '(%s %s %s)' % (self.expr(e.l), op, self.expr(e.r))
        if op in ('==', '!=', '<', '>', '<=', '>='):
            return '(decide %s)' % self.cond(e)
        t = resolve(e.opty)
        l = self.expr(e.l)
        if op in ('<<', '>>') and e.amount is None:
            h = 'shl32' if op == '<<' else 'shr32'
            if getattr(e, 'amty', 'u32') == 'usize': h += 'u'
            self.helpers.add(h)
            return self.act('Rs.%s %s %s' % (h, self.atom(l), self.atom(self.expr(e.r))))
        if op in ('<<', '>>'):
            if e.amount >= BITS[t]: fail(e.line, 'shift by %d on %s' % (e.amount, t))
            if t == 'usize':
                if op == '<<': return '(Rs.ushl %s %d)' % (self.atom(l), e.amount)
                return '(%s >>> %d)' % (l, e.amount)
            return '(%s %s %d)' % (l, '<<<' if op == '<<' else '>>>', e.amount)
        r = self.expr(e.r)
        if op in ('&', '|', '^'):
            if t == 'bool':
                return '(%s %s %s)' % (l, {'&': '&&', '|': '||', '^': '!='}[op], r)
            return '(%s %s %s)' % (l, {'&': '&&&', '|': '|||', '^': '^^^'}[op], r)
        if t == 'u32' and op == '-':
            self.helpers.add('sub32')
            return self.act('Rs.sub32 %s %s' % (self.atom(l), self.atom(r)))
        if t == 'u8' and op == '-':
            self.helpers.add('sub8')
            return self.act('Rs.sub8 %s %s' % (self.atom(l), self.atom(r)))
        if INT_CHECKED and t in ('u32', 'u64') and op in ('+', '-', '*'):
            h = {'+': 'add', '-': 'sub', '*': 'mul'}[op] + str(BITS[t])
            self.helpers.add(h)
            return self.act('Rs.%s %s %s' % (h, self.atom(l), self.atom(r)))
        if t != 'usize':
            if op in ('+', '-', '*'):
                fail(e.line, 'operator `%s` on %s (panics in debug, wraps in release; write wrapping_%s)'
                     % (op, t, {'+': 'add', '-': 'sub', '*': 'mul'}[op]))
        if op in ('/', '%'):
            v = literal_value(e.r)
            if v is None or v == 0:
                f = {'/': 'div', '%': 'rem'}[op]
                pre = 'Rs.u' if t == 'usize' else 'Rs.w'
                if t != 'usize': fail(e.line, '`%s` on %s by a non-literal divisor' % (op, t))
                return self.act('%s%s %s %s' % (pre, f, self.atom(l), self.atom(r)))
            return '(%s %s %s)' % (l, op, r)
        if op == '-':
            return self.act('Rs.usub %s %s' % (self.atom(l), self.atom(r)))
        if op in ('+', '*'):
            if USIZE_CHECKED:
                return self.act('Rs.%s %s %s' % ({'+': 'uadd', '*': 'umul'}[op], self.atom(l), self.atom(r)))
            self.unchecked_sites.append((e.line, op))
            return '(%s %s %s)' % (l, op, r)
        fail(e.line, 'operator `%s`' % op)

    def methodcall(self, e):
        return ' '.join([fn_lean(e.fn), self.atom(self.expr(e.recv))] +
                        [self.atom(self.expr(a)) for a in e.args])

    def hoist(self, ind, exprs):
        """`x.m(..)` with `&mut self` inside the expressions of one statement: Rust evaluates it, updating
        `x`, before the operands to its right.  It is emitted as two statements of its own in front
        (`let c <- S.m x ..; x := c.2`, the value is `c.1`), which is only done when nothing of the statement
        is evaluated before the call (it lies on the leftmost evaluation path of the first expression)."""
        found = []
        for x in exprs:
            walk(x, lambda n: found.append(n) if n.kind == 'method' and getattr(n, 'mutself', None) is not None else None)
        if not found: return
        if len(found) > 1: fail(found[1].line, 'two `&mut self` method calls in one statement')
        m = found[0]
        n = exprs[0]
        while n is not m:
            if n.kind in ('paren', 'cast', 'not', 'borrow', 'try'): n = n.e
            elif n.kind == 'bin' and n.op not in ('&&', '||'): n = n.l
            elif n.kind == 'method' and getattr(n, 'fn', None) is None: n = n.recv
            elif n.kind == 'index': n = n.base
            elif n.kind == 'field': n = n.base
            elif n.kind == 'call' and n.args: n = n.args[0]
            else: fail(m.line, 'call of a `&mut self` method after other operands of the statement have been evaluated')
        self.tmpcount = getattr(self, 'tmpcount', 0) + 1
        tmp = 'call_L%d_%d' % (m.line, self.tmpcount)
        v = lname(m.mutself.lname)
        eff = m.fn.name in self.effectful
        self.out(ind, 'let %s %s %s' % (tmp, self.bind(eff), self.methodcall(m)))
        if m.fn.ret == 'unit':
            self.out(ind, self.writeback(m, v, tmp))
        else:
            self.out(ind, self.writeback(m, v, '%s.2' % tmp))
            m.hoisted = '%s.1' % tmp

    def writeback(self, m, v, val):
        """store the receiver returned by a `&mut self` call: into the local, or into `local.field`"""
        if getattr(m, 'mutfield', None) is not None:
            return '%s := { %s with %s := %s }' % (v, v, lname(m.mutfield), val)
        return '%s := %s' % (v, val)

    def method(self, e):
        n = e.name
        if getattr(e, 'fn', None) is not None:
            if e.mutself is not None:
                if getattr(e, 'hoisted', None) is None:
                    fail(e.line, 'call of a `&mut self` method in this position')
                return e.hoisted
            s = self.methodcall(e)
            return self.act(s) if e.fn.name in self.effectful else '(%s)' % s
        if n in ('wrapping_add', 'wrapping_sub', 'wrapping_mul'):
            t = resolve(e.ty)
            if t == 'usize': fail(e.line, '`.%s` on usize' % n)
            op = {'wrapping_add': '+', 'wrapping_sub': '-', 'wrapping_mul': '*'}[n]
            return '(%s %s %s)' % (self.expr(e.recv), op, self.expr(e.args[0]))
        if n in ('rotate_left', 'rotate_right'):
            t = resolve(e.ty)
            if t != 'u32' or n != 'rotate_left': fail(e.line, '`.%s` on %s' % (n, t))
            v = literal_value(e.args[0])
            x = self.atom(self.expr(e.recv))
            if v is not None:
                if v >= 2 ** 32: fail(e.line, 'rotate amount out of range')
                return '(GmVerif.rotl32 %s %d)' % (x, v)
            return '(GmVerif.rotl32 %s %s.toNat)' % (x, self.atom(self.expr(e.args[0])))
        if n == 'len':
            return '%s.size' % self.atom(self.expr(e.recv))
        if n in ('to_vec', 'clone', 'as_slice'):
            return self.expr(e.recv)
        if n == 'to_be_bytes':
            self.helpers.add('to_be_bytes32')
            return '(Rs.to_be_bytes32 %s)' % self.atom(self.expr(e.recv))
        if n == 'unwrap' and getattr(e, 'tryinto', None) is not None:
            self.helpers.add('try_into_array')
            return self.act('Rs.try_into_array %s %d' % (self.atom(self.expr(e.recv.recv)), e.tryinto))
        if n == 'unwrap':
            return self.act('Rs.unwrap (%s)' % self.callstr(e.recv))
        fail(e.line, 'method `.%s`' % n)

    # ---- statements
    def out(self, ind, s):
        self.lines.append('  ' * ind + s)

    def bind(self, monadic_rhs):
        return '←' if monadic_rhs else ':='

    def ret_value(self, fn, valstr):
        """value returned by the Lean function: result followed by the final `&mut` parameters"""
        outs = [lname(p.loc.lname) for p in fn.params if p.mutref]
        parts = ([valstr] if valstr is not None else []) + outs
        if not parts: return '()'
        if len(parts) == 1: return parts[0]
        return '(%s)' % ', '.join(parts)

    def emit_return(self, ind, e):
        fn = self.fn
        if e is None:
            self.out(ind, 'return %s' % self.ret_value(fn, None)); return
        while e.kind == 'paren': e = e.e
        if e.kind not in ('if', 'match'): self.hoist(ind, [e])
        if e.kind == 'if' and getattr(e, 'isret', False):
            self.emit_if(ind, e, tailret=True); return
        if e.kind == 'match':
            self.out(ind, 'match %s with' % self.expr(e.scrut))
            for (en, vn), a in zip(e.pats, e.arms):
                self.out(ind, '| %s.%s =>' % (lname(en), lname(vn)))
                self.emit_return(ind + 1, a)
            return
        rk = getattr(e, 'retkind', 'plain')
        if rk == 'result' and e.kind == 'method':
            self.out(ind, 'return %s' % self.ret_value(fn, self.act(self.methodcall(e)))); return
        if rk == 'err':
            self.out(ind, 'Rs.err "%s"' % e.variant); return
        if rk == 'ok':
            self.out(ind, 'return %s' % self.ret_value(fn, self.expr(e.args[0]))); return
        if rk == 'result':
            self.out(ind, 'return %s' % self.ret_value(fn, self.act(self.callstr(e)))); return
        self.out(ind, 'return %s' % self.ret_value(fn, self.expr(e)))

    def emit_if(self, ind, e, tailret=False):
        first = True
        while True:
            self.out(ind, '%s %s then' % ('if' if first else 'else if', self.cond(e.cond)))
            self.emit_block(ind + 1, e.th, tailret)
            el = e.el
            if el is None: return
            if not el.stmts and el.tail is not None and el.tail.kind == 'if' and \
                    not has_effect(el.tail.cond, self.effectful):
                e = el.tail; first = False; continue
            self.out(ind, 'else')
            self.emit_block(ind + 1, el, tailret)
            return

    def emit_block(self, ind, b, tailret):
        n0 = len(self.lines)
        for s in b.stmts:
            self.stmt(ind, s)
        if b.tail is not None:
            if tailret: self.emit_return(ind, b.tail)
            elif b.tail.kind == 'if': self.emit_if(ind, b.tail)
            else: fail(b.tail.line, 'tail expression here')
        if len(self.lines) == n0:
            self.out(ind, 'pure ()')

    def stmt(self, ind, s):
        k = s.kind
        if k == 'let':
            self.hoist(ind, [s.init])
            ann = ' : %s' % lean_ty(s.loc.ty)
            self.out(ind, 'let %s%s%s := %s' % ('mut ' if s.mut else '', lname(s.loc.lname), ann, self.expr(s.init)))
        elif k == 'lettuple':
            h = 'overflowing_add%d' % BITS[resolve(s.opty)]
            if h != 'overflowing_add8': fail(s.line, '`.overflowing_add` on %s' % tystr(s.opty))
            self.helpers.add(h)
            self.out(ind, 'let (%s, %s) : %s × Bool := Rs.%s %s %s' % (
                lname(s.locs[0].lname), lname(s.locs[1].lname), lean_ty(s.opty), h,
                self.atom(self.expr(s.init.recv)), self.atom(self.expr(s.init.args[0]))))
        elif k == 'foriter':
            self.out(ind, 'for %s in %s do' % (lname(s.loc.lname), self.expr(s.recv)))
            self.emit_block(ind + 1, s.body, False)
        elif k == 'assign' and (s.lhs.kind == 'field' or s.lhs.kind == 'index' and s.lhs.base.kind == 'field'):
            # `x.f = e` / `x.f[i] = e`: the struct value is rebuilt with the new field
            if s.op == '=': self.hoist(ind, [s.rhs])
            fld = s.lhs if s.lhs.kind == 'field' else s.lhs.base
            v = lname(fld.base.loc.lname)
            if s.lhs.kind == 'field':
                rhs = self.expr(s.rhs) if s.op == '=' else self.binop(s.bin)
                self.out(ind, '%s := { %s with %s := %s }' % (v, v, lname(fld.name), rhs))
            else:
                # Rust evaluates the right-hand side first, then the index, then the bounds check
                if s.op == '=' and has_effect(s.rhs, self.effectful) and has_effect(s.lhs.idx, self.effectful):
                    self.tmpcount = getattr(self, 'tmpcount', 0) + 1
                    tmp = 'rhs_L%d_%d' % (s.line, self.tmpcount)
                    self.out(ind, 'let %s : %s := %s' % (tmp, lean_ty(s.lhs.ty), self.expr(s.rhs)))
                    rhs = tmp
                else:
                    rhs = self.expr(s.rhs) if s.op == '=' else None
                idx = self.atom(self.expr(s.lhs.idx))
                if s.op != '=':
                    rhs = self.binop(s.bin)
                self.out(ind, '%s := { %s with %s := (← Rs.set %s.%s %s %s) }' % (
                    v, v, lname(fld.name), v, lname(fld.name), idx, self.atom(rhs)))
        elif k == 'assign':
            if s.op == '=': self.hoist(ind, [s.rhs])
            v = lname((s.lhs if s.lhs.kind == 'path' else s.lhs.base).loc.lname)
            if s.lhs.kind == 'path':
                rhs = self.expr(s.rhs) if s.op == '=' else self.binop(s.bin)
                self.out(ind, '%s := %s' % (v, rhs))
            else:
                # Rust evaluates the right-hand side first, then the index, then the bounds check
                if s.op == '=' and has_effect(s.rhs, self.effectful) and has_effect(s.lhs.idx, self.effectful):
                    self.tmpcount = getattr(self, 'tmpcount', 0) + 1
                    tmp = 'rhs_L%d_%d' % (s.line, self.tmpcount)
                    self.out(ind, 'let %s : %s := %s' % (tmp, lean_ty(s.lhs.ty), self.expr(s.rhs)))
                    rhs = tmp
                else:
                    rhs = self.expr(s.rhs) if s.op == '=' else None
                idx = self.atom(self.expr(s.lhs.idx))
                if s.op != '=':
                    rhs = self.binop(s.bin)
                self.out(ind, '%s ← Rs.set %s %s %s' % (v, v, idx, self.atom(rhs)))
        elif k == 'while':
            if has_effect(s.cond, self.effectful):
                self.out(ind, 'repeat')
                self.out(ind + 1, 'if %s then' % self.cond(s.cond))
                self.emit_block(ind + 2, s.body, False)
                self.out(ind + 1, 'else')
                self.out(ind + 2, 'break')
            else:
                self.out(ind, 'while %s do' % self.cond(s.cond))
                self.emit_block(ind + 1, s.body, False)
        elif k == 'for':
            if resolve(s.ity) != 'usize': fail(s.line, '`for` over a range of %s' % tystr(s.ity))
            self.out(ind, 'for %s in [%s:%s] do' % (lname(s.loc.lname) if s.loc is not None else '_',
                                                    self.expr(s.lo), self.expr(s.hi)))
            self.emit_block(ind + 1, s.body, False)
        elif k == 'return':
            self.emit_return(ind, s.e)
        elif k == 'exprstmt':
            e = s.e
            if e.kind == 'if':
                self.emit_if(ind, e)
            elif e.kind == 'method' and e.name == 'copy_from_slice' and getattr(e, 'rangecopy', False):
                self.helpers.add('copy_into_range')
                v = lname(e.recv.base.loc.lname)
                self.out(ind, '%s ← Rs.copy_into_range %s %s %s %s' % (
                    v, v, self.atom(self.expr(e.recv.idx.lo)) if e.recv.idx.lo is not None else '(0 : Nat)',
                    self.atom(self.expr(e.recv.idx.hi)),
                    self.atom(self.expr(e.args[0]))))
            elif e.kind == 'method' and e.name == 'extend_from_slice':
                v = lname(e.recv.loc.lname)
                self.out(ind, '%s := %s ++ %s' % (v, v, self.atom(self.expr(e.args[0]))))
            elif e.kind == 'method' and e.name == 'resize':
                self.helpers.add('resize')
                v = lname(e.recv.loc.lname)
                self.out(ind, '%s := Rs.resize %s %s %s' % (v, v, self.atom(self.expr(e.args[0])), self.atom(self.expr(e.args[1]))))
            elif e.kind == 'method' and e.name in ('copy_from_slice', 'clone_from_slice'):
                v = lname(e.recv.loc.lname)
                self.out(ind, '%s ← Rs.copy_from_slice %s %s' % (v, v, self.atom(self.expr(e.args[0]))))
            elif e.kind == 'method' and getattr(e, 'stmtcall', False):
                # `x.m(..);` with `&mut self`: the returned value (if any) is discarded, `x` is updated
                v = lname(e.mutself.lname)
                eff = e.fn.name in self.effectful
                if e.fn.ret == 'unit' and getattr(e, 'mutfield', None) is None:
                    self.out(ind, '%s %s %s' % (v, self.bind(eff), self.methodcall(e)))
                else:
                    self.tmpcount = getattr(self, 'tmpcount', 0) + 1
                    tmp = 'call_L%d_%d' % (e.line, self.tmpcount)
                    self.out(ind, 'let %s %s %s' % (tmp, self.bind(eff), self.methodcall(e)))
                    self.out(ind, self.writeback(e, v, tmp if e.fn.ret == 'unit' else '%s.2' % tmp))
            elif e.kind == 'method' and e.name == 'push':
                self.hoist(ind, e.args)
                v = lname(e.recv.loc.lname)
                self.out(ind, '%s := %s.push %s' % (v, v, self.atom(self.expr(e.args[0]))))
            elif e.kind == 'call':
                outs = [lname(l.lname) for l in e.mutargs]
                call = self.callstr(e)
                eff = e.fn.name in self.effectful
                if not outs:
                    if not eff: fail(s.line, 'call of a pure unit function without `&mut` arguments (no effect)')
                    self.out(ind, '%s' % call)
                elif len(outs) == 1:
                    self.out(ind, '%s %s %s' % (outs[0], self.bind(eff), call))
                else:
                    self.out(ind, '(%s) %s %s' % (', '.join(outs), self.bind(eff), call))
            else:
                fail(s.line, 'expression statement')
        else:
            fail(s.line, 'statement kind %s' % k)

    # ---- items
    def emit_const(self, c):
        self.monadic = False
        return ['def %s : %s := %s' % (lname(c.name), lean_ty(c.cty), self.expr(c.init))]

    def emit_fn(self, fn):
        self.fn = fn
        eff = fn.name in self.effectful
        self.monadic = eff
        self.lines = []
        self.tmpcount = 0
        params = ' '.join('(%s : %s)' % (lname(p.loc.lname), lean_ty(p.pty)) for p in fn.params)
        outs = [lean_ty(p.pty) for p in fn.params if p.mutref]
        parts = ([lean_ty(fn.retval)] if fn.retval != 'unit' else []) + outs
        if not parts: rty = 'Unit'
        elif len(parts) == 1: rty = parts[0]
        else: rty = ' × '.join(paren_ty(x) for x in parts)
        if eff: rty = 'Outcome %s' % paren_ty(rty)
        head = 'def %s %s : %s :=' % (lname(fn.name), params, rty) if params else 'def %s : %s :=' % (lname(fn.name), rty)
        b = fn.body
        if not eff and not b.stmts and b.tail is not None and b.tail.kind not in ('if', 'match') and not any(p.mutref for p in fn.params):
            return [head, '  ' + self.expr(b.tail)]
        self.lines.append(head + (' do' if eff else ' Id.run do'))
        for p in fn.params:
            if p.mutref:
                self.out(1, 'let mut %s := %s' % (lname(p.loc.lname), lname(p.loc.lname)))
        for s in b.stmts:
            self.stmt(1, s)
        if b.tail is not None:
            self.emit_return(1, b.tail)
        elif fn.ret == 'unit':
            self.emit_return(1, None)
        return self.lines

PRELUDE = '''\
/-! ### run-time support of the embedding (fixed text, part of the translator) -/
namespace Rs
/-- `a[i]` as a value: out-of-range index panics -/
@[inline] def get {α} [Inhabited α] (a : Array α) (i : Nat) : Outcome α :=
  if i < a.size then .ok a[i]! else .panic
/-- `a[i] = v`: out-of-range index panics -/
@[inline] def set {α} (a : Array α) (i : Nat) (v : α) : Outcome (Array α) :=
  if i < a.size then .ok (a.set! i v) else .panic
/-- usize `a - b`: underflow panics (overflow-checks on; when this never fires the result is also
    the release-mode result) -/
@[inline] def usub (a b : Nat) : Outcome Nat := if b ≤ a then .ok (a - b) else .panic
/-- usize `a + b`, `a * b` with `--usize-overflow=panic`: a result that does not fit 64 bits panics -/
@[inline] def uadd (a b : Nat) : Outcome Nat :=
  if a + b < 18446744073709551616 then .ok (a + b) else .panic
@[inline] def umul (a b : Nat) : Outcome Nat :=
  if a * b < 18446744073709551616 then .ok (a * b) else .panic
/-- usize `a / b`, `a % b`: division by zero panics -/
@[inline] def udiv (a b : Nat) : Outcome Nat := if b = 0 then .panic else .ok (a / b)
@[inline] def urem (a b : Nat) : Outcome Nat := if b = 0 then .panic else .ok (a % b)
/-- usize `a << k` (k < 64): the bits shifted out of the 64-bit word are discarded, no panic -/
@[inline] def ushl (a k : Nat) : Nat := (a <<< k) % 18446744073709551616
/-- `&a[lo..hi]`: `lo > hi` or `hi > a.len()` panics -/
@[inline] def slice {α} (a : Array α) (lo hi : Nat) : Outcome (Array α) :=
  if lo ≤ hi ∧ hi ≤ a.size then .ok (a.extract lo hi) else .panic
/-- `dst.copy_from_slice(src)`: different lengths panic -/
@[inline] def copy_from_slice {α} (dst src : Array α) : Outcome (Array α) :=
  if src.size = dst.size then .ok src else .panic
/-- `return Err(E::V)` -/
@[inline] def err {α} (variant : String) : Outcome α := .err variant
/-- `r.unwrap()` on a `Result`: `Err` panics -/
@[inline] def unwrap {α} (r : Outcome α) : Outcome α :=
  match r with
  | .ok a => .ok a
  | .err _ => .panic
  | .panic => .panic
end Rs
'''

# run-time support that is emitted only when the translated file uses it (so that the output for
# files that do not need it is unchanged)
PRELUDE_EXTRA = [
    ('shl32', '''\
/-- u32 `a << k` with a non-literal amount: `k >= 32` panics (overflow-checks on; when this never fires
    the result is also the release-mode result) -/
@[inline] def shl32 (a k : UInt32) : Outcome UInt32 := if k < 32 then .ok (a <<< k) else .panic'''),
    ('shr32', '''\
/-- u32 `a >> k` with a non-literal amount: `k >= 32` panics (as for `shl32`) -/
@[inline] def shr32 (a k : UInt32) : Outcome UInt32 := if k < 32 then .ok (a >>> k) else .panic'''),
    ('shl32u', '''\
/-- u32 `a << k` with a non-literal `k: usize`: `k >= 32` panics (as for `shl32`) -/
@[inline] def shl32u (a : UInt32) (k : Nat) : Outcome UInt32 := if k < 32 then .ok (a <<< k.toUInt32) else .panic'''),
    ('shr32u', '''\
/-- u32 `a >> k` with a non-literal `k: usize`: `k >= 32` panics (as for `shl32`) -/
@[inline] def shr32u (a : UInt32) (k : Nat) : Outcome UInt32 := if k < 32 then .ok (a >>> k.toUInt32) else .panic'''),
    ('to_be_bytes32', '''\
/-- `x.to_be_bytes()` on u32 -/
@[inline] def to_be_bytes32 (x : UInt32) : Array UInt8 :=
  #[(x >>> 24).toUInt8, (x >>> 16).toUInt8, (x >>> 8).toUInt8, x.toUInt8]'''),
    ('from_be_bytes32', '''\
/-- `u32::from_be_bytes(b)`, `b : [u8; 4]` -/
@[inline] def from_be_bytes32 (b : Array UInt8) : UInt32 :=
  (b[0]!.toUInt32 <<< 24) ||| (b[1]!.toUInt32 <<< 16) ||| (b[2]!.toUInt32 <<< 8) ||| b[3]!.toUInt32'''),
    ('try_into_array', '''\
/-- `s.try_into().unwrap()` from a slice to `[T; n]`: a different length is `Err`, which `unwrap` panics on -/
@[inline] def try_into_array {α} (s : Array α) (n : Nat) : Outcome (Array α) :=
  if s.size = n then .ok s else .panic'''),
    ('copy_into_range', '''\
/-- `dst[lo..hi].copy_from_slice(src)`: a bad range panics, then different lengths panic -/
@[inline] def copy_into_range {α} (dst : Array α) (lo hi : Nat) (src : Array α) : Outcome (Array α) :=
  if lo ≤ hi ∧ hi ≤ dst.size then
    if src.size = hi - lo then .ok (dst.extract 0 lo ++ src ++ dst.extract hi dst.size) else .panic
  else .panic'''),
    ('sub32', '''\
/-- u32 `a - b`: underflow panics (overflow-checks on; when this never fires the result is also the
    release-mode result) -/
@[inline] def sub32 (a b : UInt32) : Outcome UInt32 := if b ≤ a then .ok (a - b) else .panic'''),
    ('sub8', '''\
/-- u8 `a - b`: underflow panics (overflow-checks on; when this never fires the result is also the
    release-mode result) -/
@[inline] def sub8 (a b : UInt8) : Outcome UInt8 := if b ≤ a then .ok (a - b) else .panic'''),
    ('overflowing_add8', '''\
/-- u8 `a.overflowing_add(b)`: the wrapped sum and whether the exact sum does not fit 8 bits -/
@[inline] def overflowing_add8 (a b : UInt8) : UInt8 × Bool := (a + b, decide (256 ≤ a.toNat + b.toNat))'''),
    ('resize', '''\
/-- `v.resize(n, x)`: truncate to `n` elements, or pad with `x` up to `n` -/
@[inline] def resize {α} (v : Array α) (n : Nat) (x : α) : Array α :=
  if n ≤ v.size then v.extract 0 n else v ++ Array.replicate (n - v.size) x'''),
    ('add32', '''\
/-- u32 `a + b` with `--int-overflow=panic`: a result that does not fit 32 bits panics (overflow-checks on;
    when this never fires the result is also the release-mode result) -/
@[inline] def add32 (a b : UInt32) : Outcome UInt32 :=
  if a.toNat + b.toNat < 4294967296 then .ok (a + b) else .panic'''),
    ('mul32', '''\
/-- u32 `a * b` with `--int-overflow=panic` (as for `add32`) -/
@[inline] def mul32 (a b : UInt32) : Outcome UInt32 :=
  if a.toNat * b.toNat < 4294967296 then .ok (a * b) else .panic'''),
    ('add64', '''\
/-- u64 `a + b` with `--int-overflow=panic`: a result that does not fit 64 bits panics (as for `add32`) -/
@[inline] def add64 (a b : UInt64) : Outcome UInt64 :=
  if a.toNat + b.toNat < 18446744073709551616 then .ok (a + b) else .panic'''),
    ('sub64', '''\
/-- u64 `a - b` with `--int-overflow=panic`: underflow panics -/
@[inline] def sub64 (a b : UInt64) : Outcome UInt64 := if b ≤ a then .ok (a - b) else .panic'''),
    ('mul64', '''\
/-- u64 `a * b` with `--int-overflow=panic` (as for `add64`) -/
@[inline] def mul64 (a b : UInt64) : Outcome UInt64 :=
  if a.toNat * b.toNat < 18446744073709551616 then .ok (a * b) else .panic'''),
]

def load_extern(path, module):
    """--extern <file.rs>=<Lean.Module>: the structs of another, already translated file of the same crate and
    their inherent impls.  The file goes through the same front end (parse, type check, effect analysis), so
    the field types, the signatures and the pure/effectful status of its fns are those of the translation
    that <Lean.Module> contains (its header carries the same sha256); nothing of it is emitted again."""
    global SRC_NAME, ONLY, USIZE_CHECKED
    with open(path, encoding='utf-8') as f:
        src = f.read()
    save = (SRC_NAME, ONLY, USIZE_CHECKED)
    SRC_NAME, ONLY = path, None
    try:
        ps = Parser(lex(src))
        items = ps.parse_file()
        chk = Checker(items)
        chk.check_all()
        eff = []
        for flag in (False, True):      # the status must not depend on the (unknown) flag of that translation
            USIZE_CHECKED = flag
            e = set()
            for f in order_fns(chk.fns):
                if has_effect(f.body, e) or f.errty is not None: e.add(f.name)
            eff.append(e)
    finally:
        SRC_NAME, ONLY, USIZE_CHECKED = save
    structs = {}
    for it in items:
        if it.kind == 'struct':
            it.extern = True; structs[it.name] = it
    fns = {}
    for it in items:
        if it.kind == 'impl':
            for f in it.fns:
                if (f.name in eff[0]) != (f.name in eff[1]):
                    fail(f.line, 'extern fn `%s` whose pure/effectful status depends on --usize-overflow' % f.name)
                f.extern = True; f.calls = []; f.lean_name = '%s.%s' % (module, lname(f.name))
                fns[f.name] = f
    return {'path': path, 'module': module, 'sha': hashlib.sha256(src.encode('utf-8')).hexdigest(),
            'structs': structs, 'fns': fns, 'effectful': eff[0]}

def translate(src, ns, srcname, extern=None):
    global SRC_NAME
    SRC_NAME = srcname
    toks = lex(src)
    ps = Parser(toks, extern_avail=set(extern['structs']) if extern else ())
    items = ps.parse_file()
    if ONLY is not None:
        missing = sorted(o for o in ONLY if o not in ps.seen)
        if missing: fail(1, '--only names an item that the file does not contain: %s' % ', '.join(missing))
    ext = None
    if extern:
        # only what `use crate::X;` imports is visible: the struct X and the fns of `impl X`
        vis = ps.extern_structs
        ext = {'structs': {n: s for n, s in extern['structs'].items() if n in vis},
               'fns': {n: f for n, f in extern['fns'].items() if f.owner in vis}}
        for st in ext['structs'].values():
            for _, fty in st.fields:
                def chkty(t):
                    if isinstance(t, tuple) and t[0] == 'struct' and t[1] not in vis:
                        fail(st.line, 'extern struct `%s` has a field of the struct `%s`, which is not imported' % (st.name, t[1]))
                    if isinstance(t, tuple):
                        for x in t[1:]: chkty(x)
                chkty(fty)
        for n in vis: EXTERN_LEAN[n] = '%s.%s' % (extern['module'], lname(n))
    chk = Checker(items, ext)
    chk.check_all()
    em = Emitter(chk, ns)
    if ext:
        em.effectful |= set(n for n in ext['fns'] if n in extern['effectful'])
    fns = [f for f in order_fns(chk.fns) if not getattr(f, 'extern', False)]
    for f in fns:                       # callees first, so one pass suffices
        if has_effect(f.body, em.effectful) or f.errty is not None:
            em.effectful.add(f.name)
    body = []
    for it in items:
        if it.kind == 'const':
            body += ['/-- line %d: `%s` -/' % (it.line, it.name)] + em.emit_const(it) + ['']
    for it in items:
        if it.kind == 'enum' and it.name in ps.enum_types_used:
            body += ['/-- line %d: `enum %s` (unit variants) -/' % (it.line, it.name), 'inductive %s where' % lname(it.name)]
            body += ['  | %s' % lname(v) for v in it.variants]
            body += ['deriving Repr, DecidableEq, Inhabited', '']
    for it in items:
        if it.kind == 'struct':
            body += ['/-- line %d: `struct %s` -/' % (it.line, it.name), 'structure %s where' % lname(it.name)]
            body += ['  %s : %s' % (lname(n), lean_ty(t)) for n, t in it.fields]
            body += ['deriving Repr, DecidableEq, Inhabited', '']
    for f in fns:
        sig = ', '.join(('&mut self' if p.mutref else '&self') if p.name == 'self' else
                        '%s: %s%s' % (p.name, '&mut ' if p.mutref else '', tystr(p.pty)) for p in f.params)
        body += ['/-- line %d: `fn %s(%s)%s` (%s) -/' % (
            f.line, f.name.replace('.', '::'), sig, '' if f.ret == 'unit' else ' -> ' + tystr(f.ret),
            'effectful: Outcome monad' if f.name in em.effectful else 'pure')]
        body += em.emit_fn(f) + ['']
    h = hashlib.sha256(src.encode('utf-8')).hexdigest()
    out = ['-- GENERATED by rs2lean.py -- do not edit.  Source: %s  sha256 %s' % (srcname.split('/')[-1], h),
           '-- Embedding: see the header of rs2lean.py.  Skipped items (not translated):']
    for line, what in ps.skipped:
        out.append('--   line %d: %s' % (line, what))
    for it in items:
        if it.kind == 'enum' and it.name in ps.enum_types_used:
            out.append('--   (line %d: enum `%s` is used as a type and translated to an `inductive`)' % (it.line, it.name))
        elif it.kind == 'enum':
            out.append('--   line %d: enum `%s` (only its variant names %s are used)' % (it.line, it.name, ', '.join(it.variants)))
    if ext:
        out.append('-- extern (--extern, imported, not translated again): %s from %s sha256 %s = %s' % (
            ', '.join('struct `%s` + `impl %s`' % (n, n) for n in sorted(ext['structs'])) or 'nothing',
            extern['path'].split('/')[-1], extern['sha'], extern['module']))
    if INT_CHECKED:
        out.append('-- u32/u64 `+` `-` `*`: --int-overflow=panic (Rs.add32 / Rs.add64 / ..: a result out of range panics)')
    if USIZE_CHECKED:
        out.append('-- usize `+` / `*`: --usize-overflow=panic (Rs.uadd / Rs.umul: a result >= 2^64 panics)')
    else:
        out.append('-- usize `+` / `*` sites translated as exact Nat operations (overflow not modelled): '
                   + (', '.join('line %d `%s`' % s for s in sorted(set(em.unchecked_sites))) or 'none'))
    out += ['import GmVerif.Common'] + (['import %s' % extern['module']] if ext else [])
    out += ['namespace %s' % ns, 'open GmVerif', '']
    out += PRELUDE.split('\n')
    if em.helpers:
        out += ['/-! ### run-time support used by this file only (fixed text, part of the translator) -/', 'namespace Rs']
        for name, text in PRELUDE_EXTRA:
            if name in em.helpers: out += text.split('\n')
        out += ['end Rs', '']
    out += body
    out += ['end %s' % ns, '']
    return '\n'.join(out)

def main(argv):
    global USIZE_CHECKED, ONLY, INT_CHECKED
    args = [a for a in argv[1:] if not a.startswith('--')]
    ns = 'GmVerif.Gen.SrcSM3'
    externspec = None
    for i, a in enumerate(argv):
        if a == '--namespace': ns = argv[i + 1]; args.remove(argv[i + 1])
        elif a == '--extern':
            externspec = argv[i + 1]; args.remove(argv[i + 1])
            if externspec.count('=') != 1 or not re.match(r'^[A-Za-z_][A-Za-z0-9_.]*$', externspec.split('=')[1]):
                sys.stderr.write('rs2lean: --extern wants <file.rs>=<Lean.Module>\n'); return 2
        elif a == '--int-overflow=panic': INT_CHECKED = True
        elif a == '--int-overflow=reject': INT_CHECKED = False
        elif a == '--only':
            ONLY = set(x for x in argv[i + 1].split(',') if x); args.remove(argv[i + 1])
        elif a == '--usize-overflow=panic': USIZE_CHECKED = True
        elif a == '--usize-overflow=unchecked': USIZE_CHECKED = False
        elif a.startswith('--'):
            sys.stderr.write('rs2lean: unknown option %s\n' % a); return 2
    if len(args) != 2:
        sys.stderr.write(__doc__); return 2
    with open(args[0], encoding='utf-8') as f:
        src = f.read()
    try:
        extern = load_extern(*externspec.split('=')) if externspec else None
        text = translate(src, ns, args[0], extern)
    except Unsupported as e:
        sys.stderr.write('rs2lean: %s\n' % e)
        return 2
    with open(args[1], 'w', encoding='utf-8') as f:
        f.write(text)
    return 0

if __name__ == '__main__':
    sys.exit(main(sys.argv))
