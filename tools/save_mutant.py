#!/usr/bin/env python3
"""save_mutant.py <worktree-mutant-dir> <CNN-mK> <json-meta-overrides>
Copy a confirmed seeded change (patch.diff, README, demo without build output) into /verif/seeded/<id>/ and write meta.json."""
import sys, os, shutil, json
src, mid, over = sys.argv[1], sys.argv[2], json.loads(sys.argv[3])
dst = os.path.join('/verif/seeded', mid)
if os.path.exists(dst): shutil.rmtree(dst)
def ign(d, names): return [n for n in names if n in ('target', 'Cargo.lock.bak') or n.endswith('.log') and False]
shutil.copytree(src, dst, ignore=ign)
prop = mid.split('-')[0]
meta = {"id": mid, "property": prop, "breaks": "see README.md",
        "how_to_run": f"tools/run_mutant.sh seeded/{mid}/patch.diff {prop}"}
meta.update(over)
json.dump(meta, open(os.path.join(dst, 'meta.json'), 'w'), indent=1)
print(dst, sorted(os.listdir(dst)))
