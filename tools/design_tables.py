#!/usr/bin/env python3
"""Regenerates the two generated tables of DESIGN.md (between <!-- BEGIN x --> / <!-- END x --> markers):
 seeded-table  from seeded/*/meta.json
 theorem-table from vlib/props.py + evidence/*.json"""
import json, os, re, sys, glob
sys.path.insert(0, '/verif')
from vlib.props import PROPS
def seeded():
    rows = ['| id | file(s) changed | needs to manifest | result of the checks | history |', '|---|---|---|---|---|']
    for d in sorted(glob.glob('/verif/seeded/*/meta.json')):
        m = json.load(open(d))
        patch = open(os.path.join(os.path.dirname(d), 'patch.diff')).read()
        files = sorted(set(re.findall(r'^\+\+\+ b/(\S+)', patch, re.M)))
        cell = lambda s: ' '.join(str(s).split()).replace('|', '\\|')
        rows.append('| %s | %s | %s | %s | %s |' % (m['id'], ', '.join('`%s`' % f for f in files), cell(m.get('needs_to_manifest', ''))[:260], cell(m.get('check_result', '')), cell(m.get('history', ''))))
    return '\n'.join(rows)
def theorems():
    rows = ['| property | theorem modules (Thm/…) | theorems audited | correspondence ops quick |', '|---|---|---|---|']
    for pid in sorted(PROPS):
        ev = {}
        p = f'/verif/evidence/{pid}.json'
        if os.path.exists(p):
            ev = json.load(open(p))
        mods = ', '.join(m + ('' if sel is None else f' ({len(sel)})') for m, sel in PROPS[pid].get('thm', [(pid, None)]))
        cov = ev.get('coverage', {})
        rows.append('| %s | %s | %s | %s |' % (pid, mods, cov.get('obligations', '?'), cov.get('evaluations', cov.get('ops', '?'))))
    return '\n'.join(rows)
s = open('/verif/DESIGN.md').read()
for name, fn in (('seeded-table', seeded), ('theorem-table', theorems)):
    b, e = f'<!-- BEGIN {name} -->', f'<!-- END {name} -->'
    if b in s:
        s = s[:s.index(b) + len(b)] + '\n' + fn() + '\n' + s[s.index(e):]
open('/verif/DESIGN.md', 'w').write(s)
print('ok')
