// (core copied from eia_ref.c) Independent reference for 128-EIA3 on a SYNTHETIC message (word i = 0x9e3779b9 * (i + 1) + seed), written from the ZUC /
// EIA3 specification with 64-bit modular arithmetic (no code shared with gm-zuc; the S-boxes and d constants are the
// specification's, taken from the frozen Lean transcription). Used ONCE to freeze reference MACs for LENGTH values next to 2^32.
#include <stdio.h>
#include <stdint.h>
#include <stdlib.h>
static const uint8_t S0[256]={62,114,91,71,202,224,0,51,4,209,84,152,9,185,109,203,123,27,249,50,175,157,106,165,184,45,252,29,8,83,3,144,77,78,132,153,228,206,217,145,221,182,133,72,139,41,110,172,205,193,248,30,115,67,105,198,181,189,253,57,99,32,212,56,118,125,178,167,207,237,87,197,243,44,187,20,33,6,85,155,227,239,94,49,79,127,90,164,13,130,81,73,95,186,88,28,74,22,213,23,168,146,36,31,140,255,216,174,46,1,211,173,59,75,218,70,235,201,222,154,143,135,215,58,128,111,47,200,177,180,55,247,10,34,19,40,124,204,60,137,199,195,150,86,7,191,126,240,11,43,151,82,53,65,121,97,166,76,16,254,188,38,149,136,138,176,163,251,192,24,148,242,225,229,233,93,208,220,17,102,100,92,236,89,66,117,18,245,116,156,170,35,14,134,171,190,42,2,231,103,230,68,162,108,194,147,159,241,246,250,54,210,80,104,158,98,113,21,61,214,64,196,226,15,142,131,119,107,37,5,63,12,48,234,112,183,161,232,169,101,141,39,26,219,129,179,160,244,69,122,25,223,238,120,52,96};
static const uint8_t S1[256]={85,194,99,113,59,200,71,134,159,60,218,91,41,170,253,119,140,197,148,12,166,26,19,0,227,168,22,114,64,249,248,66,68,38,104,150,129,217,69,62,16,118,198,167,139,57,67,225,58,181,86,42,192,109,179,5,34,102,191,220,11,250,98,72,221,32,17,6,54,201,193,207,246,39,82,187,105,245,212,135,127,132,76,210,156,87,164,188,79,154,223,254,214,141,122,235,43,83,216,92,161,20,23,251,35,213,125,48,103,115,8,9,238,183,112,63,97,178,25,142,78,229,75,147,143,93,219,169,173,241,174,46,203,13,252,244,45,70,110,29,151,232,209,233,77,55,165,117,94,131,158,171,130,157,185,28,224,205,73,137,1,182,189,88,36,162,95,56,120,153,21,144,80,184,149,228,208,145,199,206,237,15,180,111,160,204,240,2,74,121,195,222,163,239,234,81,230,107,24,236,27,44,128,247,116,231,255,33,90,106,84,30,65,49,146,53,196,51,7,10,186,126,14,52,136,177,152,124,243,61,96,108,123,202,211,31,50,101,4,40,100,190,133,155,47,89,138,215,176,37,172,175,18,3,226,242};
static const uint32_t D[16]={17623,9916,25195,4958,22409,13794,28981,2479,19832,12051,27588,6897,24102,15437,30874,18348};
static uint32_t s[16], R1, R2;
#define M 0x7FFFFFFFull
static uint32_t mulpow(uint32_t a, int k){ return (uint32_t)(((uint64_t)a << k) % M); }
static uint32_t rot(uint32_t a,int k){return (a<<k)|(a>>(32-k));}
static uint32_t L1(uint32_t x){return x^rot(x,2)^rot(x,10)^rot(x,18)^rot(x,24);}
static uint32_t L2(uint32_t x){return x^rot(x,8)^rot(x,14)^rot(x,22)^rot(x,30);}
static uint32_t X[4];
static void br(void){ X[0]=((s[15]&0x7FFF8000)<<1)|(s[14]&0xFFFF); X[1]=((s[11]&0xFFFF)<<16)|(s[9]>>15); X[2]=((s[7]&0xFFFF)<<16)|(s[5]>>15); X[3]=((s[2]&0xFFFF)<<16)|(s[0]>>15);}
static uint32_t F(void){ uint32_t W=(X[0]^R1)+R2, W1=R1+X[1], W2=R2^X[2]; uint32_t u=L1((W1<<16)|(W2>>16)), v=L2((W2<<16)|(W1>>16));
  R1=((uint32_t)S0[u>>24]<<24)|((uint32_t)S1[(u>>16)&255]<<16)|((uint32_t)S0[(u>>8)&255]<<8)|S1[u&255];
  R2=((uint32_t)S0[v>>24]<<24)|((uint32_t)S1[(v>>16)&255]<<16)|((uint32_t)S0[(v>>8)&255]<<8)|S1[v&255]; return W; }
static void lfsr(uint32_t u, int init){ uint64_t v=(uint64_t)mulpow(s[15],15)+mulpow(s[13],17)+mulpow(s[10],21)+mulpow(s[4],20)+mulpow(s[0],8)+s[0]; if(init) v+=u; uint32_t r=(uint32_t)(v%M); if(r==0) r=0x7FFFFFFF; for(int i=0;i<15;i++) s[i]=s[i+1]; s[15]=r; }
static void zinit(const uint8_t*k,const uint8_t*iv){ for(int i=0;i<16;i++) s[i]=((uint32_t)k[i]<<23)|(D[i]<<8)|iv[i]; R1=R2=0; for(int i=0;i<32;i++){ br(); uint32_t w=F(); lfsr(w>>1,1);} br(); F(); lfsr(0,0); }

// ---- search: key/IV pairs for which a WORK-MODE LFSR step within the first NSTEP steps produces a cell next to the ends of the range
// [1, 2^31-1] (1..16 or 2^31-17..2^31-1) or whose six-term sum is a multiple of 2^31-1 / wraps the maximal number of times.
// With a 4th argument 1: only steps whose six-term sum needs TWO folds (kind=3: (v & M) + (v >> 31) >= 2^31, the new cell is then 1..5).
// Such keys have density ~2^-21; they exercise the final reduction / fold of the mod 2^31-1 arithmetic that random keys never reach.
static uint64_t rs; static int only3=0, fmt=0; /* fmt 1: 128-EEA3 IV, 2: 128-EIA3 IV (count, bearer, direction) */
static uint64_t nx(void){ rs+=0x9e3779b97f4a7c15ull; uint64_t z=rs; z=(z^(z>>30))*0xbf58476d1ce4e5b9ull; z=(z^(z>>27))*0x94d049bb133111ebull; return z^(z>>31); }
static int lfsr_work_probe(int *kind){ uint64_t v=(uint64_t)mulpow(s[15],15)+mulpow(s[13],17)+mulpow(s[10],21)+mulpow(s[4],20)+mulpow(s[0],8)+s[0]; uint32_t r=(uint32_t)(v%M); int hit=0;
  uint64_t f1=(v&M)+(v>>31);   /* one fold of the 34-bit sum: a second fold is needed exactly when f1 >= 2^31 */
  if(only3){ if(f1>=0x80000000ull){ hit=1; *kind=3; } }
  else if(r==0){ hit=1; *kind=0; } else if(r<=16){ hit=1; *kind=1; } else if(r>=0x7FFFFFFF-16){ hit=1; *kind=2; }
  if(r==0) r=0x7FFFFFFF; for(int i=0;i<15;i++) s[i]=s[i+1]; s[15]=r; return hit; }
int main(int argc,char**argv){ uint64_t seed=strtoull(argv[1],0,10); uint64_t want=strtoull(argv[2],0,10); int nstep=atoi(argv[3]); if(argc>4) only3=atoi(argv[4]); if(argc>5) fmt=atoi(argv[5]); rs=seed; uint64_t found=0, tried=0;
  while(found<want){ uint8_t k[16],iv[16]; uint64_t a=nx(),b=nx(),c=nx(),d=nx(); for(int i=0;i<8;i++){k[i]=a>>(8*i);k[8+i]=b>>(8*i);iv[i]=c>>(8*i);iv[8+i]=d>>(8*i);} tried++;
    uint32_t count=(uint32_t)c, bearer=(uint32_t)(d&31), dir=(uint32_t)((d>>8)&1);
    if(fmt==1){ iv[0]=count>>24; iv[1]=count>>16; iv[2]=count>>8; iv[3]=count; iv[4]=((bearer<<3)|(dir<<2))&0xfc; iv[5]=iv[6]=iv[7]=0; for(int i=0;i<8;i++) iv[8+i]=iv[i]; }
    if(fmt==2){ iv[0]=count>>24; iv[1]=count>>16; iv[2]=count>>8; iv[3]=count; iv[4]=bearer<<3; iv[5]=iv[6]=iv[7]=0; iv[8]=iv[0]^(dir<<7); iv[9]=iv[1]; iv[10]=iv[2]; iv[11]=iv[3]; iv[12]=iv[4]; iv[13]=iv[5]; iv[14]=iv[6]^(dir<<7); iv[15]=iv[7]; }
    for(int i=0;i<16;i++) s[i]=((uint32_t)k[i]<<23)|(D[i]<<8)|iv[i]; R1=R2=0; for(int i=0;i<32;i++){ br(); uint32_t w=F(); lfsr(w>>1,1);} 
    int kind=0, hitstep=-1; br(); F(); if(lfsr_work_probe(&kind)) hitstep=0;
    for(int st=1; st<nstep && hitstep<0; st++){ br(); F(); if(lfsr_work_probe(&kind)) hitstep=st; }
    if(hitstep>=0){ found++; for(int i=0;i<16;i++) printf("%02x",k[i]); printf(" "); for(int i=0;i<16;i++) printf("%02x",iv[i]); printf(" step=%d kind=%d count=%08x bearer=%x dir=%x\n",hitstep,kind,count,bearer,dir); fflush(stdout);} }
  fprintf(stderr,"tried %llu\n",(unsigned long long)tried); return 0; }
