#!/usr/bin/env python3
"""Find 64-bit quotients q for which q*(N-1) has an all-ones (or all-zero) 64-bit limb i (i = 1, 2, 3), and print 40-byte inputs
Ha = q*(N-1) + r for SM9's hash-to-range helper whose five-limb subtraction Ha - q*(N-1) then borrows (resp. does not) through that
limb.  Such quotients have density 2^-64; they are found with a 2-dimensional lattice (q*M_i mod B must fall into a window of width
B/2^64).  Output lines are INPUTS for corpus/C16.txt (model and oracle evaluate them at check time).  Authoring-time tool."""
import sys, random
N = 0xB640000002A3A6F1D603AB4FF58EC74449F2934B18EA8BEEE56EE19CD69ECF25
M = N - 1


def lagrange(u, v):
    def n2(a): return a[0] * a[0] + a[1] * a[1]
    while True:
        if n2(u) < n2(v):
            u, v = v, u
        # reduce u by v
        k = (u[0] * v[0] + u[1] * v[1]) // n2(v) if n2(v) else 0
        k2 = k + 1
        cands = [(u[0] - kk * v[0], u[1] - kk * v[1]) for kk in (k, k2)]
        w = min(cands, key=n2)
        if n2(w) >= n2(u):
            return v, u
        u = w


def find(i, ones=True, want=4, M=None):
    M = M if M is not None else globals()['M']
    """q in (0, 2^64) with limb i of q*M all ones (ones=True: q*M mod B in [B - W, B)) or all zero (in [0, W)), B = 2^(64(i+1)), W = 2^(64 i)"""
    B, W = 1 << (64 * (i + 1)), 1 << (64 * i)
    Mi = M % B
    # lattice of (q * scale, (q*Mi mod B) centred): L = {(q, q*Mi - k*B)}; we look for q in (0,2^64), value v = q*Mi mod B in the window.
    SC = W >> 64          # balance: q*SC < 2^64*SC = W and |q*Mi - k*B| <= W
    b1, b2 = lagrange((SC, Mi), (0, B))
    out = set()
    rng = range(-40, 41)
    for a in rng:
        for b in rng:
            x = a * b1[0] + b * b2[0]
            if x % SC:
                continue
            q = x // SC
            if not (0 < q < (1 << 64)):
                continue
            v = q * Mi % B
            ok = (v >= B - W) if ones else (v < W)
            if ok:
                out.add(q)
    return sorted(out)[:want]


def main():
    r = random.Random(20260930)
    print('# quotients q with an all-ones / all-zero limb in q*(N-1), found by tools/find_limb_quotients.py; Ha = q*(N-1) + r')
    for i in (1, 2, 3):
        for ones in (True, False):
            qs = find(i, ones)
            for q in qs:
                prod = q * M
                limb = (prod >> (64 * i)) & ((1 << 64) - 1)
                assert limb == ((1 << 64) - 1 if ones else 0)
                for kind in ('borrow', 'noborrow', 'small'):
                    if kind == 'small':
                        rem = r.randrange(0, 1 << 16)
                    else:
                        rem = r.randrange(0, M)
                    ha = prod + rem
                    if ha >= 1 << 320:
                        continue
                    # force / avoid a borrow into limb i: low part of Ha below / above low part of the product
                    low = (1 << (64 * i)) - 1
                    if kind == 'borrow' and (ha & low) >= (prod & low):
                        ha2 = ha - ((ha & low) - (prod & low)) - 1 + (1 << (64 * i)) * 0
                        # keep ha2 >= prod: add 2^(64 i) * something small to stay above the product
                        while ha2 < prod:
                            ha2 += 1 << (64 * (i + 1))
                        ha = ha2 if ha2 < (1 << 320) and ha2 - prod < M else ha
                    if ha - prod >= M or ha < prod:
                        continue
                    print('n_from_hash %s' % ('%080x' % ha))
    return 0


def main_mul():
    """operands a, b < N of SM9's Barrett multiplication mod N whose quotient floor(a*b/N) is q (or q + 1: the routine's estimate may be one
    short) where q*N has an all-ones / all-zero limb i and the subtraction a*b - q*N borrows into that limb"""
    r = random.Random(20260930)
    print('# operands for mod_n_mul found by tools/find_limb_quotients.py mul: floor(a*b/N) = q (or q+1) with a limb of q*N all ones / all zero')
    for i in (1, 2, 3):
        for ones in (True, False):
            for q0 in find(i, ones, want=3, M=N):
                for q in (q0, q0 - 1):
                    prod = (q0) * N
                    done = 0
                    for _ in range(4000):
                        a = min(N - 1, r.randrange(q + 1, 1 << r.randint(70, 256)))
                        b = -(-(q * N) // a)
                        if not (0 < b < N):
                            continue
                        z = a * b
                        if z // N != q:
                            continue
                        low = (1 << (64 * i)) - 1
                        if (z & low) < (prod & low) or done >= 2:
                            print('n_mul %064x %064x' % (a, b))
                            print('n_mul %064x %064x' % (b, a))
                            done += 1
                            if done >= 3:
                                break
    return 0


def main_extract():
    """signing master keys ks (for a few identities) whose extraction computes t1 = H1(ID||01) + ks with floor(t1^2 / N) = q, q*N having an
    all-ones limb with a borrow into it: the first squaring of t1^(N-2) in mod_n_inv hits the rare borrow pattern"""
    sys.path.insert(0, __file__.rsplit('/tools/', 1)[0])
    from vlib import sm9py as S
    import math
    print('# master keys found by tools/find_limb_quotients.py extract: t1 = H1(ID||hid) + ks squares to q*N + rem with a limb of q*N all ones and a borrow into it')
    for hidname, hid in (('sign', 1), ('enc', 3), ('exch', 2)):
        for idb in (b'Alice', b'Bob'):
            h1 = S.H1(idb, hid)
            for i in (1, 2, 3):
                for q0 in find(i, True, want=2, M=N):
                    for q in (q0, q0 - 1):
                        t1 = math.isqrt(q * N) + 1
                        for dlt in range(0, 50):
                            t = t1 + dlt
                            if t >= N or (t * t) // N != q:
                                break
                            low = (1 << (64 * i)) - 1
                            if ((t * t) & low) < ((q0 * N) & low):
                                ks = (t - h1) % N
                                if 1 <= ks < N:
                                    print('s9_extract %s %064x %s' % (hidname, ks, idb.hex()))
                                break
    return 0


# ---------------------------------------------------------------------------------------------------------------------------------
# 256-bit quotients (mod_n_mul: z = a*b up to 512 bits).  The quotient ESTIMATE is the documented Barrett formula of the routine
# (q^ = floor(floor(z / 2^192) * floor(2^512 / N) / 2^320); the constant is re-proved equal to floor(2^512/N) by the Lean constants
# theorem): s = q^ * N is what the five-limb subtraction removes from z.  "rare" = a limb 1..3 of s is all ones AND a borrow enters it.
M64 = (1 << 64) - 1
MU = (1 << 512) // N


def rare(a, b):
    z = a * b
    qh = ((z >> 192) * MU) >> 320
    s = qh * N
    zl = [(z >> (64 * i)) & M64 for i in range(5)]
    sl = [(s >> (64 * i)) & M64 for i in range(5)]
    borrow = 0
    hit = None
    for i in range(4):
        if i >= 1 and sl[i] == M64 and borrow:
            hit = i
        t = zl[i] - borrow - sl[i]
        borrow = 1 if t < 0 else 0
    return hit


def main_mul256(want_per_limb=4):
    r = random.Random(20260931)
    print('# operands of mod_n_mul with a 256-bit quotient whose product q^*N has an all-ones limb (1..3) with a borrow into it (tools/find_limb_quotients.py mul256)')
    for i in (1, 2, 3):
        B = 1 << (64 * (i + 1))
        Ninv = pow(N, -1, B)
        got = 0
        tries = 0
        while got < want_per_limb and tries < 200000:
            tries += 1
            T = r.getrandbits(64 * i) | (M64 << (64 * i))
            q = (T * Ninv) % B + (r.getrandbits(250 - 64 * (i + 1)) << (64 * (i + 1)) if i < 3 else 0)
            if not (0 < q < N):
                continue
            for dq in (0, 1, 2):
                a = r.randrange(N >> 1, N)
                b = -(-((q + dq) * N) // a)
                if 0 < b < N and rare(a, b) == i:
                    print('n_mul %064x %064x' % (a, b))
                    print('n_mul %064x %064x' % (b, a))
                    got += 1
                    break
    return 0


def main_extract256():
    sys.path.insert(0, __file__.rsplit('/tools/', 1)[0])
    from vlib import sm9py as S
    import math
    r = random.Random(20260932)
    print('# master keys: t1 = H1(ID||hid) + ks with (t1, t1) a rare operand pair of mod_n_mul (first squaring of t1^(N-2) in mod_n_inv); tools/find_limb_quotients.py extract256')
    for hidname, hid in (('sign', 1), ('enc', 3), ('exch', 2)):
        for idb in ((b'Alice', b'Bob') if hidname != 'exch' else (b'Bob',)):
            h1 = S.H1(idb, hid)
            for i in (1, 2, 3):
                B = 1 << (64 * (i + 1))
                Ninv = pow(N, -1, B)
                for _ in range(400000):
                    T = r.getrandbits(64 * i) | (M64 << (64 * i))
                    q = (T * Ninv) % B + (r.getrandbits(250 - 64 * (i + 1)) << (64 * (i + 1)) if i < 3 else 0)
                    if not (0 < q < N):
                        continue
                    a = math.isqrt(q * N) + 1
                    if a < N and rare(a, a) is not None:
                        ks = (a - h1) % N
                        if 1 <= ks < N:
                            print('s9_extract %s %064x %s' % (hidname, ks, idb.hex()))
                            break
    return 0



if __name__ == '__main__':
    if len(sys.argv) > 1 and sys.argv[1] in ('mul256', 'extract256'):
        sys.exit(main_mul256() if sys.argv[1] == 'mul256' else main_extract256())
    if len(sys.argv) > 1 and sys.argv[1] == 'extract':
        sys.exit(main_extract())
    sys.exit(main_mul() if len(sys.argv) > 1 and sys.argv[1] == 'mul' else main())


