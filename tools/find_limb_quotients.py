#!/usr/bin/env python3
"""Find 64-bit quotients q for which q*(N-1) has an all-ones (or all-zero) 64-bit limb i (i = 1, 2, 3), and print 40-byte inputs
Ha = q*(N-1) + r for SM9's hash-to-range helper whose five-limb subtraction Ha - q*(N-1) then borrows (resp. does not) through that
limb.  Such quotients have density 2^-64; they are found with a 2-dimensional lattice (q*M_i mod B must fall into a window of width
B/2^64).  Output lines are INPUTS for corpus/C16.txt (model and oracle evaluate them at check time).  Authoring-time tool."""
import sys, random
N = 0xB640000002A3A6F1D603AB4FF58EC74449F2934B18EA8BEEE56EE19CD69ECF25
M = N - 1


def lagrange(u, v):
    def n2(a): return a[0] * a[0] + a[1] * a[1]
    while True:
        if n2(u) < n2(v):
            u, v = v, u
        # reduce u by v
        k = (u[0] * v[0] + u[1] * v[1]) // n2(v) if n2(v) else 0
        k2 = k + 1
        cands = [(u[0] - kk * v[0], u[1] - kk * v[1]) for kk in (k, k2)]
        w = min(cands, key=n2)
        if n2(w) >= n2(u):
            return v, u
        u = w


def find(i, ones=True, want=4):
    """q in (0, 2^64) with limb i of q*M all ones (ones=True: q*M mod B in [B - W, B)) or all zero (in [0, W)), B = 2^(64(i+1)), W = 2^(64 i)"""
    B, W = 1 << (64 * (i + 1)), 1 << (64 * i)
    Mi = M % B
    # lattice of (q * scale, (q*Mi mod B) centred): L = {(q, q*Mi - k*B)}; we look for q in (0,2^64), value v = q*Mi mod B in the window.
    SC = W >> 64          # balance: q*SC < 2^64*SC = W and |q*Mi - k*B| <= W
    b1, b2 = lagrange((SC, Mi), (0, B))
    out = set()
    rng = range(-40, 41)
    for a in rng:
        for b in rng:
            x = a * b1[0] + b * b2[0]
            if x % SC:
                continue
            q = x // SC
            if not (0 < q < (1 << 64)):
                continue
            v = q * Mi % B
            ok = (v >= B - W) if ones else (v < W)
            if ok:
                out.add(q)
    return sorted(out)[:want]


def main():
    r = random.Random(20260930)
    print('# quotients q with an all-ones / all-zero limb in q*(N-1), found by tools/find_limb_quotients.py; Ha = q*(N-1) + r')
    for i in (1, 2, 3):
        for ones in (True, False):
            qs = find(i, ones)
            for q in qs:
                prod = q * M
                limb = (prod >> (64 * i)) & ((1 << 64) - 1)
                assert limb == ((1 << 64) - 1 if ones else 0)
                for kind in ('borrow', 'noborrow', 'small'):
                    if kind == 'small':
                        rem = r.randrange(0, 1 << 16)
                    else:
                        rem = r.randrange(0, M)
                    ha = prod + rem
                    if ha >= 1 << 320:
                        continue
                    # force / avoid a borrow into limb i: low part of Ha below / above low part of the product
                    low = (1 << (64 * i)) - 1
                    if kind == 'borrow' and (ha & low) >= (prod & low):
                        ha2 = ha - ((ha & low) - (prod & low)) - 1 + (1 << (64 * i)) * 0
                        # keep ha2 >= prod: add 2^(64 i) * something small to stay above the product
                        while ha2 < prod:
                            ha2 += 1 << (64 * (i + 1))
                        ha = ha2 if ha2 < (1 << 320) and ha2 - prod < M else ha
                    if ha - prod >= M or ha < prod:
                        continue
                    print('n_from_hash %s' % ('%080x' % ha))
    return 0


if __name__ == '__main__':
    sys.exit(main())
