#!/usr/bin/env python3
"""One-off SEARCH tool (not run by any check): looks, with the real code on the CURRENT /repo tree, for ephemeral scalars
that drive the rare "draw again" branches of SM9 encryption (K1 all zero, 1-byte message: 1/256) and of the SM9 key
exchange responder (klen = 1, key byte 0: 1/256), and appends the found op lines to corpus/C10.txt / corpus/C17.txt.
The corpus lines are INPUTS only: at check time the real code, the model and the oracle evaluate them like any other op.
usage: tools/find_retry_inputs.py [n]   (build the harness first: ./check --setup)"""
import os, random, re, sys
sys.path.insert(0, '/verif')
from vlib import core, gens_sm9 as G
n = int(sys.argv[1]) if len(sys.argv) > 1 else 2500
rng = random.Random(4242)
ke = G.rs(rng)
ops10 = ['s9_enc %s %s 5a %s,%s' % (G.H(ke), G.hx(b'Bob'), G.good_r(rng), G.good_r(rng)) for _ in range(n)]
ops17 = ['s9_exch %s %s %s 1 %s %s,%s -' % (G.H(ke), G.hx(b'A'), G.hx(b'B'), G.good_r(rng), G.good_r(rng), G.good_r(rng)) for _ in range(n)]
real, _, _, prob = core.run_three_way(ops10 + ops17, 'find-retry', want_spec=False, want_impl=False)
print(prob)
os.makedirs('/verif/corpus', exist_ok=True)
hit10 = [o for o, r in zip(ops10, real[:n]) if r and re.search(r'used=[0-9a-f]{64},[0-9a-f]{64}', r)]
from vlib import sm9py as S
tA = (S.H1(b'A', 2) + ke) % S.N
hit17 = []
for o, r in zip(ops17, real[n:]):
    if r and r.startswith('OK'):
        rb1 = int(o.split()[6].split(',')[0], 16)
        if S.g1_bytes(S.g1_mul(rb1 * tA % S.N, S.P1)) != r.split()[2]:
            hit17.append(o)
print('C17 hits', len(hit17))
with open('/verif/corpus/C17.txt', 'a') as f:
    for o in hit17[:6]:
        f.write(o + '\n')
print('C10 hits', len(hit10))
with open('/verif/corpus/C10.txt', 'a') as f:
    for o in hit10[:6]:
        f.write(o + '\n')
