#!/bin/bash
# usage: confirm_mutant.sh <Cnn> <mK> [tier]
# 1. in the scratch worktree /tmp/w4/<Cnn>: apply mutants/<mK>/patch.diff, run the 41 tests, run the demo (must FAIL), revert, run the demo (must PASS)
# 2. apply the patch to /repo, run ./check <Cnn> --tier <tier>, revert /repo
# prints one summary line: CONFIRM <Cnn>-<mK> tests=<ok|FAIL> demo_with=<rc> demo_without=<rc> check=<CAUGHT|MISSED> ...
C="$1"; M="$2"; T="${3:-quick}"
WD=${WDIR:-/tmp/w4}; W=$WD/$C; D=$W/mutants/$M
export CARGO_NET_OFFLINE=true
cd "$W" || exit 9
git checkout -q -- .
git apply "$D/patch.diff" || { echo "CONFIRM $C-$M patch-does-not-apply"; exit 3; }
tests=$(cargo test --workspace --offline --lib 2>&1 | grep -E "^test result" | awk '{p+=$4; f+=$6} END {print p"/"f}')
( cd "$D/demo" && timeout 900 bash ./run.sh > $WD/$C-$M-with.log 2>&1 ); rc_with=$?
git checkout -q -- .
( cd "$D/demo" && timeout 900 bash ./run.sh > $WD/$C-$M-without.log 2>&1 ); rc_without=$?
rm -rf "$D/demo/target" "$W/target"
# now /repo
if [ -n "$SKIP_CHECK" ]; then echo "CONFIRM $C-$M tests=$tests demo_with=$rc_with demo_without=$rc_without check=SKIPPED"; exit 0; fi
(
  flock 9
  git -C /repo apply "$D/patch.diff" || { echo "CONFIRM $C-$M repo-apply-failed"; exit 3; }
  cd /verif && out=$(./check "$C" --tier "$T" 2>&1 | tail -3 | cut -c1-300)
  git -C /repo checkout -q -- .
  st=$(git -C /repo status --short | wc -l)
  if echo "$out" | grep -q "^VIOLATION"; then v=CAUGHT; else v=MISSED; fi
  echo "CONFIRM $C-$M tests=$tests demo_with=$rc_with demo_without=$rc_without check=$v repo_dirty=$st"
  echo "$out" | sed 's/^/    /'
) 9>/tmp/w4/repo.lock
