// Independent reference for 128-EIA3 on a SYNTHETIC message (word i = 0x9e3779b9 * (i + 1) + seed), written from the ZUC /
// EIA3 specification with 64-bit modular arithmetic (no code shared with gm-zuc; the S-boxes and d constants are the
// specification's, taken from the frozen Lean transcription). Used ONCE to freeze reference MACs for LENGTH values next to 2^32.
#include <stdio.h>
#include <stdint.h>
#include <stdlib.h>
static const uint8_t S0[256]={62,114,91,71,202,224,0,51,4,209,84,152,9,185,109,203,123,27,249,50,175,157,106,165,184,45,252,29,8,83,3,144,77,78,132,153,228,206,217,145,221,182,133,72,139,41,110,172,205,193,248,30,115,67,105,198,181,189,253,57,99,32,212,56,118,125,178,167,207,237,87,197,243,44,187,20,33,6,85,155,227,239,94,49,79,127,90,164,13,130,81,73,95,186,88,28,74,22,213,23,168,146,36,31,140,255,216,174,46,1,211,173,59,75,218,70,235,201,222,154,143,135,215,58,128,111,47,200,177,180,55,247,10,34,19,40,124,204,60,137,199,195,150,86,7,191,126,240,11,43,151,82,53,65,121,97,166,76,16,254,188,38,149,136,138,176,163,251,192,24,148,242,225,229,233,93,208,220,17,102,100,92,236,89,66,117,18,245,116,156,170,35,14,134,171,190,42,2,231,103,230,68,162,108,194,147,159,241,246,250,54,210,80,104,158,98,113,21,61,214,64,196,226,15,142,131,119,107,37,5,63,12,48,234,112,183,161,232,169,101,141,39,26,219,129,179,160,244,69,122,25,223,238,120,52,96};
static const uint8_t S1[256]={85,194,99,113,59,200,71,134,159,60,218,91,41,170,253,119,140,197,148,12,166,26,19,0,227,168,22,114,64,249,248,66,68,38,104,150,129,217,69,62,16,118,198,167,139,57,67,225,58,181,86,42,192,109,179,5,34,102,191,220,11,250,98,72,221,32,17,6,54,201,193,207,246,39,82,187,105,245,212,135,127,132,76,210,156,87,164,188,79,154,223,254,214,141,122,235,43,83,216,92,161,20,23,251,35,213,125,48,103,115,8,9,238,183,112,63,97,178,25,142,78,229,75,147,143,93,219,169,173,241,174,46,203,13,252,244,45,70,110,29,151,232,209,233,77,55,165,117,94,131,158,171,130,157,185,28,224,205,73,137,1,182,189,88,36,162,95,56,120,153,21,144,80,184,149,228,208,145,199,206,237,15,180,111,160,204,240,2,74,121,195,222,163,239,234,81,230,107,24,236,27,44,128,247,116,231,255,33,90,106,84,30,65,49,146,53,196,51,7,10,186,126,14,52,136,177,152,124,243,61,96,108,123,202,211,31,50,101,4,40,100,190,133,155,47,89,138,215,176,37,172,175,18,3,226,242};
static const uint32_t D[16]={17623,9916,25195,4958,22409,13794,28981,2479,19832,12051,27588,6897,24102,15437,30874,18348};
static uint32_t s[16], R1, R2;
#define M 0x7FFFFFFFull
static uint32_t mulpow(uint32_t a, int k){ return (uint32_t)(((uint64_t)a << k) % M); }
static uint32_t rot(uint32_t a,int k){return (a<<k)|(a>>(32-k));}
static uint32_t L1(uint32_t x){return x^rot(x,2)^rot(x,10)^rot(x,18)^rot(x,24);}
static uint32_t L2(uint32_t x){return x^rot(x,8)^rot(x,14)^rot(x,22)^rot(x,30);}
static uint32_t X[4];
static void br(void){ X[0]=((s[15]&0x7FFF8000)<<1)|(s[14]&0xFFFF); X[1]=((s[11]&0xFFFF)<<16)|(s[9]>>15); X[2]=((s[7]&0xFFFF)<<16)|(s[5]>>15); X[3]=((s[2]&0xFFFF)<<16)|(s[0]>>15);}
static uint32_t F(void){ uint32_t W=(X[0]^R1)+R2, W1=R1+X[1], W2=R2^X[2]; uint32_t u=L1((W1<<16)|(W2>>16)), v=L2((W2<<16)|(W1>>16));
  R1=((uint32_t)S0[u>>24]<<24)|((uint32_t)S1[(u>>16)&255]<<16)|((uint32_t)S0[(u>>8)&255]<<8)|S1[u&255];
  R2=((uint32_t)S0[v>>24]<<24)|((uint32_t)S1[(v>>16)&255]<<16)|((uint32_t)S0[(v>>8)&255]<<8)|S1[v&255]; return W; }
static void lfsr(uint32_t u, int init){ uint64_t v=(uint64_t)mulpow(s[15],15)+mulpow(s[13],17)+mulpow(s[10],21)+mulpow(s[4],20)+mulpow(s[0],8)+s[0]; if(init) v+=u; uint32_t r=(uint32_t)(v%M); if(r==0) r=0x7FFFFFFF; for(int i=0;i<15;i++) s[i]=s[i+1]; s[15]=r; }
static void zinit(const uint8_t*k,const uint8_t*iv){ for(int i=0;i<16;i++) s[i]=((uint32_t)k[i]<<23)|(D[i]<<8)|iv[i]; R1=R2=0; for(int i=0;i<32;i++){ br(); uint32_t w=F(); lfsr(w>>1,1);} br(); F(); lfsr(0,0); }
static uint32_t znext(void){ br(); uint32_t z=F()^X[3]; lfsr(0,0); return z; }
int main(int argc,char**argv){ // key(hex32) count bearer dir length seed
  uint8_t k[16]; for(int i=0;i<16;i++){ unsigned v; sscanf(argv[1]+2*i,"%2x",&v); k[i]=v; }
  uint32_t count=strtoul(argv[2],0,16), bearer=strtoul(argv[3],0,16), dir=strtoul(argv[4],0,16); uint64_t length=strtoull(argv[5],0,16); uint32_t seed=strtoul(argv[6],0,16);
  uint8_t iv[16]={0}; iv[0]=count>>24; iv[1]=count>>16; iv[2]=count>>8; iv[3]=count; iv[4]=bearer<<3; iv[8]=iv[0]^(dir<<7); iv[9]=iv[1]; iv[10]=iv[2]; iv[11]=iv[3]; iv[12]=iv[4]; iv[13]=iv[5]; iv[14]=iv[6]^(dir<<7); iv[15]=iv[7];
  zinit(k,iv); uint64_t L=(length+31)/32+2; // keystream words z[0..L-1]
  uint32_t T=0, zprev=znext(), zcur=znext(); uint64_t produced=2;
  for(uint64_t i=0;i<length;i++){ uint32_t wi=(uint32_t)(0x9e3779b9u*(uint32_t)(i/32+1)+seed); int b=31-(int)(i%32); if(i%32==0 && i>0){ zprev=zcur; zcur=znext(); produced++; }
    if((wi>>b)&1){ int sh=(int)(i%32); uint32_t w= sh? ((zprev<<sh)|(zcur>>(32-sh))) : zprev; T^=w; } }
  // z_LENGTH: the 32-bit word starting at bit LENGTH; final mask: word L-1
  uint64_t wl=length/32; int sh=(int)(length%32);
  while(produced < wl+2){ zprev=zcur; zcur=znext(); produced++; }   // now zprev = z[wl], zcur = z[wl+1]
  uint32_t zl = sh? ((zprev<<sh)|(zcur>>(32-sh))) : zprev; T^=zl;
  while(produced < L){ zprev=zcur; zcur=znext(); produced++; }
  uint32_t last = (produced==L)? zcur : 0; T^=last; printf("%08x\n",T); return 0; }
