#!/usr/bin/env python3
"""wave_save_run.py <wave-dir> <wave-number> : for every <wave-dir>/<Cnn>/mutants/<mK>/ (confirmed by tools/confirm_mutant.sh; log lines in
<wave-dir>/confirm*.log) copy it to /verif/seeded/<Cnn>-w<wave>m<K>/, then apply the patch to /repo (under the lock), run ./check <Cnn> --tier quick,
undo the patch, and record the outcome in meta.json."""
import sys, os, re, json, subprocess, glob, fcntl
wdir, wave = sys.argv[1], int(sys.argv[2])
first = {}
conf = {}
for f in sorted(glob.glob(os.path.join(wdir, 'confirm*.log'))):
    for l in open(f, errors='replace'):
        m = re.match(r'CONFIRM (C\d\d)-(m\d) tests=(\S+) demo_with=(\d+) demo_without=(\d+) check=(\w+)', l)
        if m:
            key = (m.group(1), m.group(2))
            if m.group(6) in ('CAUGHT', 'MISSED') and key not in first:
                first[key] = m.group(6)
            if m.group(4) != '0' and m.group(5) == '0' and m.group(3) == '41/0':
                conf[key] = f'tests={m.group(3)} demo_with_patch_rc={m.group(4)} demo_without_patch_rc={m.group(5)}'
head = subprocess.run(['git', '-C', '/repo', 'rev-parse', '--short', 'HEAD'], capture_output=True, text=True).stdout.strip()
lock = open(os.path.join(wdir, 'repo.lock'), 'w')
for d in sorted(glob.glob(os.path.join(wdir, os.environ.get('ONLY', 'C??'), 'mutants', 'm?'))):
    pid = d.split('/')[-3]; mk = d.split('/')[-1]
    key = (pid, mk)
    if key not in conf:
        print('NOT CONFIRMED, skipped:', pid, mk); continue
    mid = f'{pid}-w{wave}{mk}'
    readme = open(os.path.join(d, 'README.md'), errors='replace').read() if os.path.exists(os.path.join(d, 'README.md')) else ''
    m = re.search(r'(?is)#+[^\n]*(trigger|needed|manifest|to show)[^\n]*\n(.*?)(\n#|\Z)', readme)
    needs = (m.group(2) if m else readme).strip().replace('\n', ' ')[:600]
    files = re.findall(r'^\+\+\+ b/(\S+)', open(os.path.join(d, 'patch.diff'), errors='replace').read(), re.M)
    fcntl.flock(lock, fcntl.LOCK_EX)
    try:
        r = subprocess.run(['git', '-C', '/repo', 'apply', os.path.join(d, 'patch.diff')], capture_output=True, text=True)
        if r.returncode:
            print('PATCH DOES NOT APPLY', mid); continue
        out = subprocess.run(['./check', pid, '--tier', 'quick'], cwd='/verif', capture_output=True, text=True).stdout.strip().splitlines()[-2:]
    finally:
        subprocess.run(['git', '-C', '/repo', 'checkout', '--', '.'])
        fcntl.flock(lock, fcntl.LOCK_UN)
    viol = [l for l in out if l.startswith('VIOLATION')]
    summ = next((l for l in out if ' quick: ' in l), '')
    mm = re.search(r'(\d+) property failures, (\d+) model disagreements', summ)
    if viol:
        res = 'caught by ./check %s --tier quick: VIOLATION %s (%s property failures, %s model disagreements)' % (
            pid, 'no-failing-input-found (purity scan / broken obligation named in the replay)' if 'no-failing-input-found' in viol[0] else 'with a concrete replay',
            mm.group(1) if mm else '?', mm.group(2) if mm else '?')
    else:
        res = 'MISSED by ./check %s --tier quick' % pid
    fr = first.get(key, '?')
    hist = ('caught on the first run (no change to the machinery)' if fr == 'CAUGHT' else
            'first run MISSED (quick, with the fingerprint-triggered thorough generator set); strengthened, see DESIGN 13.7 wave 4') if fr != '?' else ''
    meta = {'wave': wave, 'files': files, 'needs_to_manifest': needs,
            'confirmed': f'in scratch worktree {wdir}/{pid} at /repo HEAD {head}: `cargo test --workspace --offline --lib` 41 passed with the patch; {conf[key]}',
            'history': hist, 'check_result': res}
    subprocess.run(['python3', 'tools/save_mutant.py', d, mid, json.dumps(meta)], cwd='/verif', capture_output=True)
    print(mid, '|', fr, '->', 'CAUGHT' if viol else 'MISSED', '|', summ[-90:])
    sys.stdout.flush()
