#!/usr/bin/env python3
"""
Differential test: Rust harness (real gm-sm9 code)  vs  compiled Lean driver (Impl.SM9 model).

  python3 difftest.py [seed] [scale]

Generates ops of every kind of harness_sm9_ops.rs (random values and edge cases), runs both binaries, and compares
the output lines: byte-identical, except that after `ERR` only the class is compared.
Material that needs the library itself (valid points, signatures, ciphertexts, H1 values) is produced in a first
stage by the HARNESS and fed back as arguments to both sides.
"""
import os
import random
import subprocess
import sys
import time
from concurrent.futures import ThreadPoolExecutor

HERE = os.path.dirname(os.path.abspath(__file__))
HARNESS = [os.path.join(HERE, "harness-bin"), "run"]
DRIVER = [os.path.join(HERE, "lean/.lake/build/bin/driver"), "impl"]

P = 0xb640000002a3a6f1d603ab4ff58ec74521f2934b1a7aeedbe56f9b27e351457d
N = 0xb640000002a3a6f1d603ab4ff58ec74449f2934b18ea8beee56ee19cd69ecf25
R = 1 << 256
MONT_ONE = R % P
M256 = R - 1

seed = int(sys.argv[1]) if len(sys.argv) > 1 else 1
scale = float(sys.argv[2]) if len(sys.argv) > 2 else 1.0
rnd = random.Random(seed)


def cnt(n):
    return max(1, int(n * scale))


def h32(x):
    return "%064x" % x


def hb(b):
    return b.hex() if len(b) else "-"


def rbytes(n):
    return bytes(rnd.getrandbits(8) for _ in range(n))


def run_harness(ops):
    out = subprocess.run(HARNESS, input="\n".join(ops) + "\n", capture_output=True, text=True).stdout
    return out.split("\n")[:len(ops)]


def run_parallel(cmd, ops, jobs=16):
    # contiguous chunks, keep order
    n = len(ops)
    if n == 0:
        return []
    size = (n + jobs - 1) // jobs
    chunks = [ops[i:i + size] for i in range(0, n, size)]

    def work(ch):
        r = subprocess.run(cmd, input="\n".join(ch) + "\n", capture_output=True, text=True)
        lines = r.stdout.split("\n")
        if lines and lines[-1] == "":
            lines = lines[:-1]
        if len(lines) != len(ch):
            lines = lines + ["<MISSING rc=%s %s>" % (r.returncode, r.stderr[-200:].replace("\n", " "))] * (len(ch) - len(lines))
        return lines

    with ThreadPoolExecutor(max_workers=jobs) as ex:
        res = list(ex.map(work, chunks))
    return [l for ch in res for l in ch]


# ------------------------------------------------------------------ values
EDGE_P = [0, 1, 2, P - 1, P, P + 1, M256, MONT_ONE, P - 2, (P + 1) // 2, R - P, 1 << 255, (1 << 255) - 1]
EDGE_N = [0, 1, 2, N - 2, N - 1, N, N + 1, M256, R - N, 1 << 64, 1 << 128, 1 << 192, (1 << 64) - 1]


def rfp():
    """a field element (raw limbs): mostly canonical, sometimes an edge / non-canonical value"""
    c = rnd.random()
    if c < 0.70:
        return rnd.randrange(P)
    if c < 0.85:
        return rnd.choice(EDGE_P)
    return rnd.getrandbits(256)


def rscalar():
    c = rnd.random()
    if c < 0.6:
        return rnd.randrange(N)
    if c < 0.8:
        return rnd.choice(EDGE_N)
    if c < 0.9:
        return rnd.getrandbits(rnd.randrange(1, 257))
    return rnd.getrandbits(256)


def fp2s(v):
    return ",".join(h32(x) for x in v)


def rtower(n, zero_mask=None):
    v = [rfp() for _ in range(n)]
    if zero_mask is not None:
        for i in range(n):
            if zero_mask >> i & 1:
                v[i] = 0
    return v


def tower_cases(n, count):
    """vectors of n field elements: all-zero, single non-zero position, single zero position, sub-block zero, random"""
    cases = [[0] * n, [MONT_ONE] + [0] * (n - 1)]
    for i in range(n):
        v = [0] * n
        v[i] = rfp() or 1
        cases.append(v)
        cases.append(rtower(n, 1 << i))
    if n >= 4:
        for blk in range(n // 2):
            cases.append(rtower(n, 3 << (2 * blk)))           # one Fp2 component zero
            cases.append(rtower(n, ((1 << n) - 1) ^ (3 << (2 * blk))))   # only one Fp2 component non-zero
    if n == 12:
        for blk in range(3):
            cases.append(rtower(n, 15 << (4 * blk)))          # one Fp4 component zero
            cases.append(rtower(n, ((1 << n) - 1) ^ (15 << (4 * blk))))
    while len(cases) < count:
        cases.append(rtower(n))
    return cases


def g1s(p):
    return ":".join(h32(x) for x in p)


def g2s(p):
    return ":".join(fp2s(c) for c in p)


def parse_g1(s):
    return tuple(int(x, 16) for x in s.split(":"))


def parse_g2(s):
    return tuple(tuple(int(x, 16) for x in c.split(",")) for c in s.split(":"))


# Fp2 arithmetic on Montgomery values for rescaling Jacobian representatives (u^2 = -2); montgomery product = a*b/R
RINV = pow(R, -1, P)


def mm(a, b):
    return a * b * RINV % P


def f2mul(a, b):
    return ((mm(a[0], b[0]) - 2 * mm(a[1], b[1])) % P, (mm(a[0], b[1]) + mm(a[1], b[0])) % P)


def g1_rescale(p, lam):
    x, y, z = p
    return (x * lam * lam % P, y * lam * lam * lam % P, z * lam % P)


def g2_rescale(p, lam):
    l2 = f2mul(lam, lam)
    l3 = f2mul(l2, lam)
    return (f2mul(p[0], l2), f2mul(p[1], l3), f2mul(p[2], lam))


def g1_neg(p):
    return (p[0], (P - p[1]) % P, p[2])


def g2_neg(p):
    return (p[0], ((P - p[1][0]) % P, (P - p[1][1]) % P), p[2])


P1 = (0x5129787c869140b5efd0cec817a649bea946fd5e0073282c22e935e29860501b,
      0x7215717763c39828326353912824efbf15563cbdec30a576ee779649eb87f7c7, MONT_ONE)
P2 = ((0x61fcf018bc47c4d1f8f57c82b14954447ee5645edbf6c06b260226a68ce2da8f, 0x905112f2b85f3a371874032f88791d4184c6135a5121f134db6db4822750a8a6),
      (0x108495e0c0f62ece2445561e2ff77cdb92fbab45a15a3ca7c03f138f9171c24a, 0x81e448c3c76a5d531e29de93d3eef7693706f3f6a49dc12ff7b82dac4c89bfbb),
      (MONT_ONE, 0))

ANNEX = dict(
    ks=0x000130e78459d78545cb54c587e02cf480ce0b66340f319f348a1d5b1f2dc5f4, ida=b"Alice", msg_s=b"Chinese IBS standard",
    r_s=0x00033c8616b06704813203dfd00965022ed15975c662337aed648835dc4b1cbe,
    ke=0x0001edee3778f441f8dea3d9fa0acc4e07ee36c93f9a08618af4ad85cede1c22, idb=b"Bob", msg_e=b"Chinese IBE standard",
    r_e=0x0000aac0541779c8fc45e3e2cb25c12b5d2576b2129ae8bb5ee2cbe5ec9e785c,
    kx=0x0002e65b0762d042f51f0d23542b13ed8cfa2e9a0e7206361e013a283905e31f,
    ra=0x00005879dd1d51e175946f23b1b41e93ba31c584ae59a426ec1046a4d03b06c8,
    rb=0x00018b98c44bef9f8537fb7d071b2c928b3bc65bd3d69e1eee213564905634fe)


def good_cand():
    while True:
        v = rnd.randrange(1, N - 1)
        if v & ((1 << 64) - 1):
            return v


def bad_cands():
    """candidates sm9_random_u256 must skip: >= N-1, zero, low limb zero"""
    pool = [0, N - 1, N, N + 1, M256, 1 << 64, 1 << 128, 5 << 192, (N - 1) >> 64 << 64, rnd.randrange(N - 1, R)]
    return [rnd.choice(pool) for _ in range(rnd.randrange(0, 3))]


def cands(n=1):
    out = []
    for _ in range(n):
        out += bad_cands() + [good_cand()]
    return ",".join(h32(x) for x in out)


def rid():
    c = rnd.random()
    if c < 0.5:
        return rbytes(rnd.randrange(0, 20))
    if c < 0.6:
        return b""
    return rbytes(rnd.randrange(0, 301))


def rmsg(maxlen=255):
    c = rnd.random()
    if c < 0.6:
        return rbytes(rnd.randrange(0, 40))
    return rbytes(rnd.randrange(0, maxlen + 1))


# ------------------------------------------------------------------ stage 1: material from the harness
def stage1():
    mat = {}
    ops = []
    ks_list = [rnd.randrange(1, N) for _ in range(cnt(6))]
    for k in ks_list:
        ops.append("g1_raw gmul " + h32(k))
    for k in ks_list:
        ops.append("g2_raw gmul " + h32(k))
    out = run_harness(ops)
    g1_aff = [parse_g1(l[3:]) for l in out[:len(ks_list)]]
    g2_jac = [parse_g2(l[3:]) for l in out[len(ks_list):]]
    # Jacobian representatives through the library
    ops = ["g1_raw mul %s %s" % (g1s(p), h32(rnd.randrange(2, N))) for p in g1_aff]
    ops += ["g1_raw affine %s" % l for l in []]
    out = run_harness(ops)
    g1_jac = [parse_g1(l[3:]) for l in out]
    mat["g1_aff"] = g1_aff + [P1]
    mat["g1_jac"] = g1_jac
    mat["g2_jac"] = g2_jac
    # affine G2 points: rescale by z^-1 in python
    g2_aff = [P2]
    for q in g2_jac:
        z = q[2]
        # inverse in Fp2 on plain values: convert from montgomery
        a, b = z[0] * RINV % P, z[1] * RINV % P
        d = pow((a * a + 2 * b * b) % P, -1, P)
        zi = (a * d % P * R % P, (-b) * d % P * R % P)
        g2_aff.append(g2_rescale(q, zi))
    mat["g2_aff"] = g2_aff
    # signatures / ciphertexts / H1 values
    ops = []
    sig_in = []
    for _ in range(cnt(4)):
        ks = rnd.randrange(1, N)
        id_ = rid()
        m = rmsg(300)
        sig_in.append((ks, id_, m))
        ops.append("s9_sign %s %s %s %s" % (h32(ks), hb(id_), hb(m), h32(good_cand())))
    sig_in.append((ANNEX["ks"], ANNEX["ida"], ANNEX["msg_s"]))
    ops.append("s9_sign %s %s %s %s" % (h32(ANNEX["ks"]), hb(ANNEX["ida"]), hb(ANNEX["msg_s"]), h32(ANNEX["r_s"])))
    enc_in = []
    for _ in range(cnt(4)):
        ke = rnd.randrange(1, N)
        id_ = rid()
        m = rmsg(255)
        if len(m) == 0:
            m = b"x"
        enc_in.append((ke, id_, m))
        ops.append("s9_enc %s %s %s %s" % (h32(ke), hb(id_), hb(m), h32(good_cand())))
    enc_in.append((ANNEX["ke"], ANNEX["idb"], ANNEX["msg_e"]))
    ops.append("s9_enc %s %s %s %s" % (h32(ANNEX["ke"]), hb(ANNEX["idb"]), hb(ANNEX["msg_e"]), h32(ANNEX["r_e"])))
    h1_in = []
    for hid in (1, 2, 3):
        for _ in range(2):
            id_ = rid()
            h1_in.append((id_, hid))
            ops.append("s9_hash1 %s %02x" % (hb(id_), hid))
    out = run_harness(ops)
    sigs = []
    for (ks, id_, m), l in zip(sig_in, out[:len(sig_in)]):
        t = l.split()
        sigs.append((ks, id_, m, int(t[1], 16), bytes.fromhex(t[2])))
    cts = []
    for (ke, id_, m), l in zip(enc_in, out[len(sig_in):len(sig_in) + len(enc_in)]):
        t = l.split()
        cts.append((ke, id_, m, bytes.fromhex(t[1])))
    h1s = []
    for (id_, hid), l in zip(h1_in, out[len(sig_in) + len(enc_in):]):
        h1s.append((id_, hid, int(l.split()[1], 16)))
    mat["sigs"] = sigs
    mat["cts"] = cts
    mat["h1s"] = h1s
    return mat


# ------------------------------------------------------------------ stage 2: the ops under test
def gen_ops(mat):
    ops = []
    add = ops.append

    # --- mod N
    for a in EDGE_N:
        for b in EDGE_N:
            add("n_add %s %s" % (h32(a), h32(b)))
            add("n_sub %s %s" % (h32(a), h32(b)))
            add("n_mul %s %s" % (h32(a), h32(b)))
    for _ in range(cnt(300)):
        a, b = rscalar(), rscalar()
        add("n_add %s %s" % (h32(a), h32(b)))
        add("n_sub %s %s" % (h32(a), h32(b)))
        add("n_mul %s %s" % (h32(a), h32(b)))
    for _ in range(cnt(300)):
        # large non-canonical operands: where `s[4] += N[0]*h[9]` overflows (panic) or not
        a = rnd.getrandbits(256) | (rnd.randrange(8, 16) << 252)
        b = rnd.getrandbits(256) | (rnd.randrange(8, 16) << 252)
        add("n_mul %s %s" % (h32(a), h32(b)))
    for _ in range(cnt(200)):
        a, b = rnd.randrange(N), rnd.randrange(N)
        add("n_mul %s %s" % (h32(a), h32(b)))
    for a in EDGE_N[:9]:
        add("n_inv " + h32(a))
        for e in (0, 1, 2, N - 2, N - 1, M256):
            add("n_pow %s %s" % (h32(a), h32(e)))
    for _ in range(cnt(60)):
        add("n_pow %s %s" % (h32(rscalar()), h32(rscalar())))
        add("n_inv " + h32(rscalar()))
    for ln in list(range(0, 48)) + [63, 64, 65, 100]:
        add("n_from_hash " + hb(rbytes(ln)))
    for _ in range(cnt(300)):
        c = rnd.random()
        if c < 0.4:
            v = rnd.getrandbits(320)
        elif c < 0.8:
            q = rnd.randrange(0, (1 << 320) // (N - 1) + 1)
            v = (q * (N - 1) + rnd.choice([0, 1, 2, N - 3, N - 2, rnd.randrange(N - 1)])) % (1 << 320)
        else:
            v = rnd.choice([0, (1 << 320) - 1, N - 1, N - 2, N, 2 * (N - 1), 2 * (N - 1) - 1, (1 << 256) - 1, 1 << 256, (1 << 319), ((1 << 320) // (N - 1)) * (N - 1)])
        add("n_from_hash " + hb(v.to_bytes(40, "big") + rbytes(rnd.choice([0, 0, 24, 3]))))

    # --- Fp
    for op in ("mul", "add", "sub", "pow"):
        for a in EDGE_P:
            for b in EDGE_P:
                add("s9fp %s %s %s" % (op, h32(a), h32(b)))
        for _ in range(cnt(150)):
            add("s9fp %s %s %s" % (op, h32(rfp()), h32(rnd.getrandbits(256) if op == "pow" else rfp())))
    for op in ("neg", "dbl", "tri", "div2", "sqr", "inv", "to_mont", "from_mont"):
        for a in EDGE_P:
            add("s9fp %s %s" % (op, h32(a)))
        for _ in range(cnt(100)):
            add("s9fp %s %s" % (op, h32(rfp())))
    for _ in range(cnt(100)):
        add("s9fp %s %s %s" % (rnd.choice(["mul", "add", "sub", "div2", "neg", "tri"]), h32(rnd.getrandbits(256)), h32(rnd.getrandbits(256))))

    # --- Fp2 / Fp4 / Fp12
    for op in ("add", "sub", "mul", "div", "mul_u", "mul_fp"):
        cs = tower_cases(2, cnt(40))
        for a in cs:
            add("s9fp2 %s %s %s" % (op, fp2s(a), fp2s(rnd.choice(cs))))
    for op in ("sqr", "neg", "dbl", "tri", "div2", "inv", "conjugate", "a_mul_u", "sqr_u"):
        for a in tower_cases(2, cnt(30)):
            add("s9fp2 %s %s" % (op, fp2s(a)))
    add("s9fp2 bogus %s" % fp2s([1, 2]))
    add("s9fp2 div %s" % fp2s([1, 2]))
    for op in ("add", "sub", "mul", "mul_v", "mul_fp", "mul_fp2"):
        cs = tower_cases(4, cnt(40))
        for a in cs:
            add("s9fp4 %s %s %s" % (op, fp2s(a), fp2s(rnd.choice(cs))))
    for op in ("sqr", "neg", "dbl", "tri", "div2", "inv", "a_mul_v", "conjugate", "sqr_v"):
        for a in tower_cases(4, cnt(30)):
            add("s9fp4 %s %s" % (op, fp2s(a)))
    add("s9fp4 bogus %s" % fp2s([1, 2, 3, 4]))
    for op in ("add", "sub", "mul"):
        cs = tower_cases(12, cnt(60))
        for a in cs:
            add("s9fp12 %s %s %s" % (op, fp2s(a), fp2s(rnd.choice(cs))))
    for op in ("sqr", "neg", "dbl", "tri", "div2", "inv", "frobenius2", "frobenius6"):
        for a in tower_cases(12, cnt(60)):
            add("s9fp12 %s %s" % (op, fp2s(a)))
    for a in tower_cases(12, cnt(45))[::3]:
        add("s9fp12 final_exponent %s" % fp2s(a))
        add("s9fp12 final_exponent_hard_part %s" % fp2s(a))
    for e in (0, 1, 2, 9, N - 2, N - 1, N, N + 1, M256, 1 << 255):
        add("s9fp12 pow %s %s" % (fp2s(rtower(12)), h32(e)))
    for _ in range(cnt(15)):
        add("s9fp12 pow %s %s" % (fp2s(rnd.choice(tower_cases(12, 50))), h32(rscalar())))
    for a in tower_cases(12, cnt(60)):
        lw = tower_cases(6, 30)
        add("s9fp12 line_mul %s %s" % (fp2s(a), ";".join(fp2s(l[i:i + 2]) for l in [rnd.choice(lw)] for i in (0, 2, 4))))
    add("s9fp12 frobenius %s" % fp2s(rtower(12)))
    add("s9fp12 frobenius3 %s" % fp2s(rtower(12)))
    for a in tower_cases(12, cnt(40)):
        add("s9fp12_bytes %s" % fp2s(a))

    # --- G1
    g1_aff, g1_jac = mat["g1_aff"], mat["g1_jac"]
    inf1 = [(MONT_ONE, MONT_ONE, 0), (0, 0, 0), (rfp(), rfp(), 0)]
    junk1 = [(rfp(), rfp(), rfp()) for _ in range(4)] + [(rfp(), rfp(), MONT_ONE), (0, 0, MONT_ONE), (P, P + 1, M256)]

    def g1_variants(p):
        lam = rnd.randrange(2, P)
        return [p, g1_rescale(p, lam), g1_neg(p), g1_neg(g1_rescale(p, rnd.randrange(2, P)))]

    pts1 = g1_aff + g1_jac
    pairs1 = []
    for p in pts1:
        for q in g1_variants(p):
            pairs1.append((p, q))
        pairs1.append((p, rnd.choice(pts1)))
        pairs1.append((p, rnd.choice(inf1)))
        pairs1.append((rnd.choice(inf1), p))
        pairs1.append((p, rnd.choice(junk1)))
    pairs1.append((inf1[0], inf1[1]))
    pairs1.append((junk1[0], junk1[1]))
    for kind in ("g1", "g1_raw"):
        for p, q in pairs1:
            add("%s add %s %s" % (kind, g1s(p), g1s(q)))
            add("%s sub %s %s" % (kind, g1s(p), g1s(q)))
        for p in pts1 + inf1 + junk1:
            add("%s dbl %s" % (kind, g1s(p)))
            add("%s neg %s" % (kind, g1s(p)))
    for p, q in pairs1:
        add("g1 eq %s %s" % (g1s(p), g1s(q)))
    for p in pts1 + inf1 + junk1 + [g1_rescale(x, rnd.randrange(2, P)) for x in pts1]:
        add("g1 affine %s" % g1s(p))
        add("g1 oncurve %s" % g1s(p))
        add("g1 bytes %s" % g1s(p))
    for p in pts1:
        x, y, z = p
        add("g1 oncurve %s" % g1s((x, (y + 1) % P, z)))
        add("g1 oncurve %s" % g1s((x ^ 1, y, z)))
    for ln in list(range(0, 70)) + [97, 130]:
        b = rbytes(ln)
        add("g1 from_bytes " + hb(b))
    for _ in range(cnt(20)):
        vals = [rnd.choice([0, 1, P - 1, P, P + 1, M256, rnd.getrandbits(256)]) for _ in range(2)]
        add("g1 from_bytes " + hb(bytes([rnd.choice([4, 0, 2, 255])]) + vals[0].to_bytes(32, "big") + vals[1].to_bytes(32, "big")))
    scal = [0, 1, 2, 3, 15, 16, 17, 31, 32, 33, N - 2, N - 1, N, N + 1, 2 * N % R, M256, 1 << 255, (1 << 255) - 1, R - N]
    # every Booth window index, positive / negative / boundary digits
    for i in range(52):
        for d in (1, 15, 16, 17, 31):
            scal.append((d << (5 * i)) & M256)
    for i in range(37):
        for d in (1, 63, 64, 65, 127):
            scal.append((d << (7 * i)) & M256)
    scal += [int("10" * 128, 2), int("01" * 128, 2), int("1110" * 64, 2), int("0001" * 64, 2), (1 << 251) - 1, 1 << 251, (1 << 254) + 1]
    scal += [rscalar() for _ in range(cnt(60))]
    scal = list(dict.fromkeys(scal))
    for k in scal:
        add("g1 gmul " + h32(k))
        add("g1_raw gmul " + h32(k))
    base1 = [P1, g1_jac[0], g1_aff[0]]
    for k in scal:
        p = rnd.choice(base1)
        add("g1 mul %s %s" % (g1s(p), h32(k)))
        add("g1_raw mul %s %s" % (g1s(p), h32(k)))
    for p in inf1 + junk1[:3]:
        for k in (0, 1, 5, N - 1, rscalar()):
            add("g1_raw mul %s %s" % (g1s(p), h32(k)))
    add("g1 bogus 00")

    # --- booth
    for ws in (0, 1, 2, 5, 7, 8, 16, 31, 32, 33, 40, 63, 64, 65, 70):
        for i in (0, 1, 2, 3, 7, 8, 9, 12, 13, 25, 26, 31, 32, 36, 37, 50, 51, 52, 53, 60, 63, 64, 128, 255, 256, 257):
            add("booth %s %d %d" % (h32(rnd.choice([rnd.getrandbits(256), M256, 0, 1 << 255, int("10" * 128, 2)])), ws, i))
    for ws in (5, 7):
        for i in range(0, 53):
            add("booth %s %d %d" % (h32(rnd.getrandbits(256)), ws, i))
            add("booth %s %d %d" % (h32(M256), ws, i))
    add("booth %s %d %d" % (h32(5), 1, (1 << 64) - 1))
    add("booth %s %d %d" % (h32(5), 63, 1 << 60))

    # --- G2
    g2_aff, g2_jac = mat["g2_aff"], mat["g2_jac"]
    inf2 = [((MONT_ONE, 0), (MONT_ONE, 0), (0, 0)), ((0, 0), (0, 0), (0, 0)), ((rfp(), rfp()), (rfp(), rfp()), (0, 0))]
    junk2 = [((rfp(), rfp()), (rfp(), rfp()), (rfp(), rfp())) for _ in range(3)] + [((rfp(), rfp()), (rfp(), rfp()), (MONT_ONE, 0)),
             ((rfp(), 0), (0, rfp()), (0, rfp())), ((0, rfp()), (rfp(), 0), (rfp(), 0))]

    def rl2():
        return (rnd.randrange(1, P), rnd.randrange(P))

    def g2_variants(p):
        return [p, g2_rescale(p, rl2()), g2_neg(p), g2_neg(g2_rescale(p, rl2())), g2_rescale(p, (rnd.randrange(1, P), 0))]

    pts2 = g2_aff + g2_jac
    pairs2 = []
    for p in pts2:
        for q in g2_variants(p):
            pairs2.append((p, q))
        pairs2.append((p, rnd.choice(g2_aff)))
        pairs2.append((p, rnd.choice(g2_jac)))
        pairs2.append((p, rnd.choice(inf2)))
        pairs2.append((rnd.choice(inf2), p))
        pairs2.append((p, rnd.choice(junk2)))
    pairs2.append((inf2[0], inf2[2]))
    pairs2.append((junk2[0], junk2[3]))
    for kind in ("g2", "g2_raw"):
        for p, q in pairs2:
            add("%s add %s %s" % (kind, g2s(p), g2s(q)))
            add("%s addfull %s %s" % (kind, g2s(p), g2s(q)))
            add("%s sub %s %s" % (kind, g2s(p), g2s(q)))
        for p in pts2 + inf2 + junk2:
            add("%s dbl %s" % (kind, g2s(p)))
            add("%s neg %s" % (kind, g2s(p)))
            add("%s pi1 %s" % (kind, g2s(p)))
            add("%s negpi2 %s" % (kind, g2s(p)))
    for p, q in pairs2:
        add("g2eq %s %s" % (g2s(p), g2s(q)))
        add("g2eq %s %s negate" % (g2s(p), g2s(q)))
    scal2 = [0, 1, 2, 3, N - 1, N, N + 1, M256, 1 << 255, R - N] + [rscalar() for _ in range(cnt(12))]
    for k in scal2:
        add("g2 gmul " + h32(k))
        add("g2_raw gmul " + h32(k))
        p = rnd.choice(pts2)
        add("g2 mul %s %s" % (g2s(p), h32(k)))
        add("g2_raw mul %s %s" % (g2s(p), h32(k)))
    for p in inf2 + junk2[:2]:
        add("g2_raw mul %s %s" % (g2s(p), h32(rscalar())))
    add("g2 bogus 00")

    # --- pairing
    qs = g2_aff + g2_jac
    ps = g1_aff + g1_jac
    for _ in range(cnt(16)):
        add("pairing %s %s" % (g2s(rnd.choice(qs)), g1s(rnd.choice(ps))))
        add("pairing_raw %s %s" % (g2s(rnd.choice(qs)), g1s(rnd.choice(ps))))
    for q in inf2 + junk2:
        add("pairing %s %s" % (g2s(q), g1s(rnd.choice(ps))))
    for p in inf1 + junk1:
        add("pairing_raw %s %s" % (g2s(rnd.choice(qs)), g1s(p)))
    add("pairing %s %s" % (g2s(P2), g1s(P1)))

    # --- hash / kdf / mac
    for ln in list(range(0, 70)) + [100, 119, 120, 121, 128, 183, 184, 185, 255, 256, 300]:
        add("s9_hash1 %s %02x" % (hb(rbytes(ln)), rnd.choice([1, 2, 3, 0, 255])))
        add("s9_hash2 %s %s" % (hb(rbytes(ln)), hb(rbytes(rnd.choice([0, 1, 384, 384, 50])))))
    for klen in list(range(0, 70)) + [95, 96, 97, 127, 128, 129, 255, 256, 287, 288, 300, 400]:
        add("s9_kdf %s %d" % (hb(rbytes(rnd.randrange(0, 301))), klen))
    for zl in (0, 1, 55, 56, 57, 63, 64, 65, 119, 120, 300):
        add("s9_kdf %s %d" % (hb(rbytes(zl)), rnd.randrange(1, 100)))
    for kl in list(range(0, 40)) + [64, 100]:
        add("s9_mac %s %s" % (hb(rbytes(kl)), hb(rbytes(rnd.randrange(0, 301)))))
    for zl in (0, 1, 23, 24, 31, 32, 33, 300):
        add("s9_mac %s %s" % (hb(rbytes(32)), hb(rbytes(zl))))

    # --- extract
    for what in ("sign", "enc", "exch"):
        for k in (1, 2, N - 1, rnd.randrange(1, N), rnd.randrange(1, N)):
            add("s9_extract %s %s %s" % (what, h32(k), hb(rid())))
        for k in (0, N, N + 1, M256, rnd.getrandbits(256) | (1 << 255)):
            add("s9_extract %s %s %s" % (what, h32(k), hb(rid())))
    for id_, hid, h1 in mat["h1s"]:
        what = {1: "sign", 2: "exch", 3: "enc"}[hid]
        add("s9_extract %s %s %s" % (what, h32((N - h1) % N), hb(id_)))      # t = 0 -> None
        add("s9_extract %s %s %s" % (what, h32((N - h1 + 1) % N), hb(id_)))
        add("s9_sign %s %s %s %s" % (h32((N - h1) % N), hb(id_), hb(b"m"), cands())) if hid == 1 else None
        add("s9_dec %s %s %s %s" % (h32((N - h1) % N), hb(id_), hb(id_), hb(bytes([4]) + rbytes(120)))) if hid == 3 else None

    # --- keygen
    for _ in range(cnt(6)):
        add("s9_keygen sign " + cands())
        add("s9_keygen enc " + cands())
    add("s9_keygen enc %s" % ",".join(h32(x) for x in [0, N - 1, N - 2, 7]))
    add("s9_keygen sign %s" % ",".join(h32(x) for x in [1 << 64, 1 << 192, (1 << 64) + 1, 9]))
    add("s9_keygen enc %s" % ",".join(h32(x) for x in [M256, N, 1]))

    # --- sign / verify
    add("s9_sign %s %s %s %s" % (h32(ANNEX["ks"]), hb(ANNEX["ida"]), hb(ANNEX["msg_s"]), h32(ANNEX["r_s"])))
    for _ in range(cnt(10)):
        add("s9_sign %s %s %s %s" % (h32(rnd.randrange(1, N)), hb(rid()), hb(rmsg(300)), cands()))
    add("s9_sign %s %s %s %s" % (h32(rnd.randrange(1, N)), hb(b""), hb(b""), cands()))
    for ks, id_, m, hh, s in mat["sigs"]:
        add("s9_verify %s %s %s %s %s" % (h32(ks), hb(id_), hb(m), h32(hh), hb(s)))
        add("s9_verify %s %s %s %s %s" % (h32(ks), hb(id_ + b"!"), hb(m), h32(hh), hb(s)))
        add("s9_verify %s %s %s %s %s" % (h32(ks), hb(id_), hb(m + b"!"), h32(hh), hb(s)))
        add("s9_verify %s %s %s %s %s" % (h32((ks + 1) % N), hb(id_), hb(m), h32(hh), hb(s)))
        for h2 in (0, N - 1, N, N + 1, M256, (hh + 1) % N, hh ^ (1 << 200)):
            add("s9_verify %s %s %s %s %s" % (h32(ks), hb(id_), hb(m), h32(h2), hb(s)))
        sb = bytearray(s)
        sb[64] ^= 1
        add("s9_verify %s %s %s %s %s" % (h32(ks), hb(id_), hb(m), h32(hh), hb(bytes(sb))))
        sb = bytearray(s)
        sb[0] = 0
        add("s9_verify %s %s %s %s %s" % (h32(ks), hb(id_), hb(m), h32(hh), hb(bytes(sb) + b"extra")))
        add("s9_verify %s %s %s %s %s" % (h32(ks), hb(id_), hb(m), h32(hh), hb(s[:64])))
        add("s9_verify %s %s %s %s %s" % (h32(ks), hb(id_), hb(m), h32(hh), hb(bytes(65))))
        # raw: S as Jacobian representative / infinity / negated
        sx, sy = int.from_bytes(s[1:33], "big"), int.from_bytes(s[33:65], "big")
        sp = (sx * R % P, sy * R % P, MONT_ONE)
        add("s9_verify_raw %s %s %s %s %s" % (h32(ks), hb(id_), hb(m), h32(hh), g1s(sp)))
        add("s9_verify_raw %s %s %s %s %s" % (h32(ks), hb(id_), hb(m), h32(hh), g1s(g1_rescale(sp, rnd.randrange(2, P)))))
        add("s9_verify_raw %s %s %s %s %s" % (h32(ks), hb(id_), hb(m), h32(hh), g1s(g1_neg(sp))))
        add("s9_verify_raw %s %s %s %s %s" % (h32(ks), hb(id_), hb(m), h32(hh), g1s((MONT_ONE, MONT_ONE, 0))))
    for _ in range(cnt(4)):
        add("s9_sv %s %s %s %s" % (h32(rnd.randrange(1, N)), hb(rid()), hb(rmsg(300)), cands()))
    for _ in range(cnt(12)):
        add("s9_sv %s %s %s %s flip %d" % (h32(rnd.randrange(1, N)), hb(rid()), hb(rmsg(60)), cands(), rnd.choice([0, 7, 8, 255, 256, 263, 264, 519, 520, 775, rnd.randrange(776)])))
    add("s9_sv %s %s %s %s flip 776" % (h32(rnd.randrange(1, N)), hb(rid()), hb(rmsg(60)), cands()))
    for kind in ("msg", "id"):
        add("s9_sv %s %s %s %s %s" % (h32(rnd.randrange(1, N)), hb(rid()), hb(rmsg(60)), cands(), kind))
    for hv in (0, 1, N - 1, N, M256):
        add("s9_sv %s %s %s %s h %s" % (h32(rnd.randrange(1, N)), hb(rid()), hb(rmsg(60)), cands(), h32(hv)))
    add("s9_sv %s %s %s %s h %s" % (h32(5), hb(b"a"), hb(b"b"), cands(), "00" * 31))
    add("s9_sv %s %s %s %s s %s" % (h32(rnd.randrange(1, N)), hb(rid()), hb(rmsg(60)), cands(), hb(bytes([4]) + rbytes(64))))
    add("s9_sv %s %s %s %s s %s" % (h32(rnd.randrange(1, N)), hb(rid()), hb(rmsg(60)), cands(), hb(mat["sigs"][0][4])))
    add("s9_sv %s %s %s %s bogus" % (h32(5), hb(b"a"), hb(b"b"), cands()))

    # --- encrypt / decrypt
    add("s9_enc %s %s %s %s" % (h32(ANNEX["ke"]), hb(ANNEX["idb"]), hb(ANNEX["msg_e"]), h32(ANNEX["r_e"])))
    for ln in (0, 1, 2, 31, 32, 33, 64, 100, 254, 255, 256, 257, 286, 287, 288, 300):
        add("s9_enc %s %s %s %s" % (h32(rnd.randrange(1, N)), hb(rid()), hb(rbytes(ln)), cands()))
    for _ in range(cnt(6)):
        add("s9_enc %s %s %s %s" % (h32(rnd.randrange(1, N)), hb(rid()), hb(rmsg(255)), cands()))
    for ke, id_, m, ct in mat["cts"]:
        add("s9_dec %s %s %s %s" % (h32(ke), hb(id_), hb(id_), hb(ct)))
        add("s9_dec %s %s %s %s" % (h32(ke), hb(id_), hb(id_ + b"!"), hb(ct)))
        add("s9_dec %s %s %s %s" % (h32(ke), hb(id_ + b"!"), hb(id_), hb(ct)))
        add("s9_dec %s %s %s %s" % (h32((ke + 1) % N), hb(id_), hb(id_), hb(ct)))
        for pos in (0, 1, 64, 65, 96, 97, len(ct) - 1):
            c2 = bytearray(ct)
            c2[pos] ^= 0x10
            add("s9_dec %s %s %s %s" % (h32(ke), hb(id_), hb(id_), hb(bytes(c2))))
        add("s9_dec %s %s %s %s" % (h32(ke), hb(id_), hb(id_), hb(ct[:-1])))
        add("s9_dec %s %s %s %s" % (h32(ke), hb(id_), hb(id_), hb(ct + b"\x00")))
        add("s9_dec %s %s %s %s" % (h32(ke), hb(id_), hb(id_), hb(ct[:97])))
        add("s9_dec %s %s %s %s" % (h32(ke), hb(id_), hb(id_), hb(ct[:98])))
    ke0, id0, m0, ct0 = mat["cts"][0]
    for ln in list(range(0, 401, 7)) + [64, 65, 96, 97, 98, 99, 351, 352, 353, 354, 400]:
        b = bytearray(rbytes(ln))
        if ln and rnd.random() < 0.8:
            b[0] = 4
        add("s9_dec %s %s %s %s" % (h32(ke0), hb(id0), hb(id0), hb(bytes(b))))
    for ln in (98, 120, 352):
        # valid C1 with garbage C3 / C2
        add("s9_dec %s %s %s %s" % (h32(ke0), hb(id0), hb(id0), hb(ct0[:65] + rbytes(ln - 65))))
    for _ in range(cnt(3)):
        add("s9_tamper %s %s %s %s none" % (h32(rnd.randrange(1, N)), hb(rid()), hb(rmsg(255) or b"z"), cands()))
    for _ in range(cnt(10)):
        ml = rnd.randrange(1, 60)
        add("s9_tamper %s %s %s %s flip %d" % (h32(rnd.randrange(1, N)), hb(rid()), hb(rbytes(ml)), cands(),
                                               rnd.choice([0, 5, 8, 519, 520, 775, 776, (97 + ml) * 8 - 1, (97 + ml) * 8, rnd.randrange((97 + ml) * 8)])))
    for l in (0, 64, 65, 96, 97, 98, 100, 1000):
        add("s9_tamper %s %s %s %s trunc %d" % (h32(rnd.randrange(1, N)), hb(rid()), hb(rbytes(rnd.randrange(1, 50))), cands(), l))
    add("s9_tamper %s %s %s %s id" % (h32(rnd.randrange(1, N)), hb(rid()), hb(rbytes(20)), cands()))
    add("s9_tamper %s %s %s %s c1 %s" % (h32(rnd.randrange(1, N)), hb(rid()), hb(rbytes(20)), cands(), hb(ct0[:65])))
    add("s9_tamper %s %s %s %s c1 %s" % (h32(rnd.randrange(1, N)), hb(rid()), hb(rbytes(20)), cands(), hb(bytes([4]) + rbytes(64))))
    add("s9_tamper %s %s %s %s c1 %s" % (h32(rnd.randrange(1, N)), hb(rid()), hb(rbytes(20)), cands(), hb(ct0[:30])))
    add("s9_tamper %s %s %s %s bogus" % (h32(5), hb(b"a"), hb(b"b"), cands()))
    add("s9_tamper %s %s %s %s none" % (h32(5), hb(b"a"), hb(rbytes(256)), cands()))

    # --- key exchange
    add("s9_exch %s %s %s 16 %s %s -" % (h32(ANNEX["kx"]), hb(b"Alice"), hb(b"Bob"), h32(ANNEX["ra"]), h32(ANNEX["rb"])))
    for klen in (0, 1, 16, 31, 32, 33, 64, 100):
        add("s9_exch %s %s %s %d %s %s -" % (h32(rnd.randrange(1, N)), hb(rid()), hb(rid()), klen, h32(good_cand()), h32(good_cand())))
    for tam in ("ra", "rb", "ra,rb", "ra-offcurve", "rb-offcurve", "ra-offcurve,rb", "ra,rb-offcurve"):
        add("s9_exch %s %s %s %d %s %s %s" % (h32(rnd.randrange(1, N)), hb(rid()), hb(rid()), rnd.choice([16, 48]), h32(good_cand()), h32(good_cand()), tam))
    return ops


def norm(line):
    t = line.split(" ")
    if t and t[0] == "ERR":
        return "ERR"
    return line


def main():
    t0 = time.time()
    mat = stage1()
    ops = [o for o in gen_ops(mat) if o]
    with open(os.path.join(HERE, "difftest_ops.txt"), "w") as f:
        f.write("\n".join(ops) + "\n")
    print("ops: %d (seed %d)" % (len(ops), seed))
    t1 = time.time()
    a = run_parallel(HARNESS, ops)
    t2 = time.time()
    b = run_parallel(DRIVER, ops)
    t3 = time.time()
    print("harness %.1fs, driver %.1fs" % (t2 - t1, t3 - t2))
    stats = {}
    bad = 0
    for o, x, y in zip(ops, a, b):
        key = " ".join(o.split()[:2]) if o.split()[0] in ("s9fp", "s9fp2", "s9fp4", "s9fp12", "g1", "g1_raw", "g2", "g2_raw", "s9_extract", "s9_keygen") else o.split()[0]
        st = stats.setdefault(key, [0, 0, {}])
        st[0] += 1
        cls = x.split(" ")[0]
        st[2][cls] = st[2].get(cls, 0) + 1
        if norm(x) != norm(y):
            st[1] += 1
            bad += 1
            if bad <= 15:
                print("DIFF op: %s\n  rust: %s\n  lean: %s" % (o[:300], x[:300], y[:300]))
    for k in sorted(stats):
        n, d, c = stats[k]
        print("%-28s %5d cases  %d diffs   %s" % (k, n, d, " ".join("%s=%d" % kv for kv in sorted(c.items()))))
    print("TOTAL %d ops, %d differences (%.0fs)" % (len(ops), bad, time.time() - t0))
    return 1 if bad else 0


if __name__ == "__main__":
    sys.exit(main())
