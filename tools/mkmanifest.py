#!/usr/bin/env python3
"""Regenerate MANIFEST.json from vlib/props.py (checks) + the list of unclaimed properties."""
import json, os, sys, subprocess
ROOT = os.path.dirname(os.path.dirname(os.path.abspath(__file__)))
sys.path.insert(0, ROOT)
from vlib.props import PROPS, NOT_APPLICABLE, HOOK_COMMITS

ids = [json.loads(l)['id'] for l in open(os.path.join(ROOT, 'properties.jsonl'))]
checks = []
for pid in ids:
    if pid not in PROPS or 'level_text' not in PROPS[pid]:
        continue
    P = PROPS[pid]
    checks.append({
        'property_id': pid,
        'quick_cmd': f'./check {pid} --tier quick',
        'thorough_cmd': f'./check {pid} --tier thorough',
        'evidence_file': f'/verif/evidence/{pid}.json',
        'replay_cmd_template': f'./check {pid} --replay {{path}}',
        'engine': 'lean4-proof+correspondence',
        'level_claimed': {'category': P['level'], 'text': P['level_text'], 'design_ref': P.get('design_ref', 'DESIGN.md §6 ' + pid)},
        'level_note': P['level_note'],
        'technique': P['technique'],
    })
na = [{'property_id': i, 'reason': NOT_APPLICABLE.get(i, 'check under construction in this session (not yet registered); see DESIGN.md §11')}
      for i in ids if i not in PROPS or 'level_text' not in PROPS[i]]
m = {
    'version': 1,
    'setup_cmd': './setup.sh',
    'hooks': {
        'guard': 'gm_rs_verif',
        'enable': "rustc cfg: RUSTFLAGS='--cfg gm_rs_verif' (set in /verif/harness/.cargo/config.toml; the harness has path dependencies on /repo/gm-*)",
        'baseline_off_cmd': 'cd /repo && cargo test --workspace --no-fail-fast --offline --lib',
        'source_commits': HOOK_COMMITS,
        'add_only': True,
    },
    'engines': [{'name': 'lean4-proof+correspondence', 'path': '/verif/check', 'serves_properties': [c['property_id'] for c in checks],
                 'kind_free_text': 'Lean 4 theorems about a hand-written executable model (Impl) against a frozen transcription of the standards (Spec); constants dumped from the compiled crates and re-proved; three-way differential real code / Impl / Spec through a line protocol'}],
    'checks': checks,
    'not_applicable': na,
    'notes': 'See DESIGN.md (section 13 is the as-built state). Every check rebuilds the harness from /repo (hooks on), regenerates Gen/*.lean from the constant dump and — for gm-sm3, gm-zuc, gm-sm4 — the Lean translation of the Rust source (tools/rs2lean.py), rebuilds the Lean theorems, audits axioms, and runs the three-way correspondence. A changed source function (fingerprints.json) or a translation tie that is not established widens the differential to the thorough generator set; neither is an alarm by itself.',
}
json.dump(m, open(os.path.join(ROOT, 'MANIFEST.json'), 'w'), indent=1)
print('MANIFEST.json:', len(checks), 'checks,', len(na), 'unclaimed')
