#!/bin/sh
# usage: run_mutant.sh <patch.diff> <Cnn> [tier]  -- apply a seeded change to /repo, run the check, undo it straight afterwards
P="$1"; C="$2"; T="${3:-quick}"
git -C /repo apply "$P" || { echo "PATCH DOES NOT APPLY"; exit 3; }
cd /verif && ./check "$C" --tier "$T" 2>&1 | tail -3 | cut -c1-250
git -C /repo checkout -- . 
git -C /repo status --short | head -3
