#!/usr/bin/env python3
"""Generate the Pratt-certificate section of GmVerif/Proofs/Primes.lean.

Usage:  /opt/veriftools/pyvenv/bin/python tools/pratt.py lean/GmVerif/Proofs/Primes.lean

Rewrites the region between the lines `-- BEGIN GENERATED (tools/pratt.py)` and
`-- END GENERATED` in the given file.  For every prime q occurring in the recursive
factorisation of p-1 (p one of the four moduli):
  * q < 2^16      : `theorem pr_q : Nat.Prime q := by norm_num`
  * otherwise     : `theorem pr_q : Nat.Prime q := pratt q g [(q1,e1),...] (fa_cons pr_q1 ...) (by decide +kernel)`
    where g is the least primitive root mod q (found here, *checked* by the Lean kernel).
Nothing computed here is trusted: the Lean kernel re-checks the factorisation and all modular
exponentiations.
"""
import sys
from sympy import factorint, isprime

ROOTS = {
    'sm2_p': 0xFFFFFFFEFFFFFFFFFFFFFFFFFFFFFFFFFFFFFFFF00000000FFFFFFFFFFFFFFFF,
    'sm2_n': 0xFFFFFFFEFFFFFFFFFFFFFFFFFFFFFFFF7203DF6B21C6052B53BBF40939D54123,
    'sm9_p': 0xB640000002A3A6F1D603AB4FF58EC74521F2934B1A7AEEDBE56F9B27E351457D,
    'sm9_N': 0xB640000002A3A6F1D603AB4FF58EC74449F2934B18EA8BEEE56EE19CD69ECF25,
}
SMALL = 1 << 16
BEGIN = '-- BEGIN GENERATED (tools/pratt.py)'
END = '-- END GENERATED'

fact = {}    # big prime -> factorisation of p-1
small = set()

def rec(p):
    assert isprime(p)
    if p < SMALL:
        small.add(p)
        return
    if p in fact:
        return
    f = factorint(p - 1)
    fact[p] = f
    for q in f:
        rec(q)

def prim_root(p, f):
    g = 2
    while True:
        if all(pow(g, (p - 1) // q, p) != 1 for q in f):
            assert pow(g, p - 1, p) == 1
            return g
        g += 1

def main():
    path = sys.argv[1]
    for v in ROOTS.values():
        rec(v)
    out = [BEGIN]
    out.append(f'-- {len(small)} leaf primes < 2^16 (norm_num), {len(fact)} Pratt nodes (decide +kernel)')
    for q in sorted(small):
        out.append(f'theorem pr_{q} : Nat.Prime {q} := by norm_num')
    for p in sorted(fact):          # ascending order = dependency order (q | p-1 ⇒ q < p)
        f = fact[p]
        g = prim_root(p, f)
        fs = ', '.join(f'({q}, {e})' for q, e in sorted(f.items()))
        hs = 'fa_nil'
        for q in sorted(f, reverse=True):
            hs = f'(fa_cons pr_{q} {hs})'
        out.append(f'theorem pr_{p} : Nat.Prime {p} :=')
        out.append(f'  pratt {p} {g} [{fs}]')
        out.append(f'    {hs} (by decide +kernel)')
    out.append(END)
    src = open(path).read().split('\n')
    i, j = src.index(BEGIN), src.index(END)
    src[i:j + 1] = out
    open(path, 'w').write('\n'.join(src))
    print(f'{len(small)} small primes, {len(fact)} Pratt nodes written to {path}')

if __name__ == '__main__':
    main()
