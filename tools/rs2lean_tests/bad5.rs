fn f() -> usize { let a = 5; 3 }
