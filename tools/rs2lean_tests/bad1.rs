fn f(x: u32) -> u32 { x + 1 }
