pub enum Err4 { Bad }
pub enum Kind { Up, Keep }
pub struct Ctr { kind: Kind, buf: Vec<u8> }
fn bump(a: &mut [u8]) {
    let mut carry = 1;
    for i in 0..4 {
        let (t, c) = a[3 - i].overflowing_add(carry);
        a[3 - i] = t;
        if !c {
            return;
        }
        carry = c as u8;
    }
}
impl Ctr {
    pub fn new(kind: Kind) -> Result<Ctr, Err4> {
        let buf: Vec<u8> = vec![0; 4];
        Ok(Ctr { kind, buf })
    }
    fn up(&self, d: &[u8]) -> Result<Vec<u8>, Err4> {
        let mut out: Vec<u8> = Vec::new();
        let mut b: Vec<u8> = vec![0; 4];
        b.clone_from_slice(&self.buf);
        bump(&mut b[..]);
        for x in b.iter() {
            out.push(*x);
        }
        out.extend_from_slice(d);
        out.resize(6, 0);
        Ok(out)
    }
    fn keep(&self, d: &[u8]) -> Result<Vec<u8>, Err4> {
        if d.len() == 0 {
            return Err(Err4::Bad);
        }
        let mut pad = [4 - d.len() as u8; 4];
        pad[..1].copy_from_slice(&d[0..1]);
        Ok(pad.to_vec())
    }
    pub fn run(&self, d: &[u8]) -> Result<Vec<u8>, Err4> {
        match self.kind {
            Kind::Up => self.up(d),
            Kind::Keep => self.keep(d),
        }
    }
}
