// struct, impl, &self / &mut self methods, field assignment, struct literal, vec![], `for _`,
// u32 shifts by a variable, u32 `-`
struct Ctr {
    cells: [u32; 4],
    n: u32,
}

impl Ctr {
    pub fn new(seed: u32) -> Ctr {
        let cells = [seed; 4];
        Ctr { cells, n: 0 }
    }
    fn peek(&self, i: usize) -> u32 {
        self.cells[i] ^ self.n
    }
    fn step(&mut self) -> u32 {
        self.n = self.n.wrapping_add(1);
        self.cells[0] = rot(self.cells[0], 3) ^ self.n;
        self.cells[0]
    }
    fn reset(&mut self) {
        self.n = 0;
    }
    pub fn run(&mut self, k: usize) -> Vec<u32> {
        let mut out = vec![];
        for _ in 0..k {
            let z = self.step() ^ self.peek(1);
            out.push(z);
        }
        self.reset();
        out
    }
}

fn rot(a: u32, k: u32) -> u32 {
    (a << k) | (a >> (32 - k))
}

fn demo(seed: u32) -> Vec<u32> {
    let mut c = Ctr::new(seed);
    c.step();
    for _ in 0..2 {
        c.reset();
    }
    c.run(3)
}
