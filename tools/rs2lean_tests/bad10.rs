enum E { A, B } fn f(e: E) -> u32 { let x = match e { E::A => 1, E::B => 2 }; x }
