struct S { a: u32 }
impl S { fn get(self) -> u32 { self.a } }
