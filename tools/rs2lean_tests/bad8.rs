struct S { a: u32, b: u32 }
fn f(s: S) -> S { S { a: 1, ..s } }
