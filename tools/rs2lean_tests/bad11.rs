fn g() -> u32 { 1 } fn f() -> u32 { let (a, b) = g(); a }
