#![doc = include_str!("../README.md")]

use std::fmt::{Display, Formatter};
use const_oid::ObjectIdentifier;


pub const OID_SM3: ObjectIdentifier = ObjectIdentifier::new_unwrap("1.2.156.10197.1.401");

pub enum Sm3Error {
    ErrorMsgLen,
}

impl std::fmt::Debug for Sm3Error {
    fn fmt(&self, f: &mut Formatter<'_>) -> ::std::fmt::Result {
        write!(f, "{}", self)
    }
}

impl From<Sm3Error> for &str {
    fn from(e: Sm3Error) -> Self {
        match e {
            Sm3Error::ErrorMsgLen => "SM3 Pad error: error msg len",
        }
    }
}

impl Display for Sm3Error {
    fn fmt(&self, f: &mut Formatter<'_>) -> std::fmt::Result {
        let err_msg = match self {
            Sm3Error::ErrorMsgLen => "SM3 Pad error: error msg len",
        };
        write!(f, "{}", err_msg)
    }
}

// 0 ≤ j ≤ 15
pub(crate) const T00: u32 = 0x79cc4519;

// 16 ≤ j ≤ 63
pub(crate) const T16: u32 = 0x7a879d8a;

pub(crate) static IV: [u32; 8] = [
    0x7380166f, 0x4914b2b9, 0x172442d7, 0xda8a0600, 0xa96f30bc, 0x163138aa, 0xe38dee4d, 0xb0fb0e4e,
];

/// P0(X) = X ⊕ (X ≪ 9) ⊕ (X ≪ 17)
fn p0(x: u32) -> u32 {
    x ^ x.rotate_left(9) ^ x.rotate_left(17)
}

/// P1(X) = X ⊕ (X ≪ 15) ⊕ (X ≪ 23)
fn p1(x: u32) -> u32 {
    x ^ x.rotate_left(15) ^ x.rotate_left(23)
}

fn ff(x: u32, y: u32, z: u32, j: u32) -> u32 {
    if j <= 15 {
        return x ^ y ^ z;
    } else if j >= 16 && j <= 63 {
        return (x & y) | (x & z) | (y & z);
    }
    0
}

fn gg(x: u32, y: u32, z: u32, j: u32) -> u32 {
    if j <= 15 {
        return x ^ y ^ z;
    } else if j >= 16 && j <= 63 {
        return (x & y) | (!x & z);
    }
    0
}

fn t(j: usize) -> u32 {
    if j <= 15 {
        return T00;
    } else if j >= 16 && j <= 63 {
        return T16;
    }
    0
}

/// # Example
/// ```rust
/// use crate::gm_sm3::sm3_hash;
/// fn main(){
///     let hash = sm3_hash(b"abc");
///     let r = hex::encode(hash);
///     assert_eq!("66c7f0f462eeedd9d1f2d46bdc10e4e24167c4875cf2f7a2297da02b8f4ba8e0", r);
/// }
///
/// ```
///
pub fn sm3_hash(msg: &[u8]) -> [u8; 32] {
    let msg = pad(msg).unwrap();
    let len = msg.len();
    let mut b_i: [u8; 64] = [0; 64];
    let mut count_group: usize = 0;
    let mut v_i = IV;
    while count_group * 64 != len {
        b_i.copy_from_slice(&msg[count_group * 64..count_group * 64 + 64]);
        cf(&mut v_i, b_i);
        count_group += 1;
    }
    let mut output: [u8; 32] = [0; 32];
    for i in 0..8 {
        output[i * 4] = (v_i[i] >> 24) as u8;
        output[i * 4 + 1] = (v_i[i] >> 16) as u8;
        output[i * 4 + 2] = (v_i[i] >> 8) as u8;
        output[i * 4 + 3] = v_i[i] as u8;
    }
    output
}

fn cf(v_i: &mut [u32; 8], b_i: [u8; 64]) {
    // expend msg
    let mut w: [u32; 68] = [0; 68];
    let mut w1: [u32; 64] = [0; 64];

    // a. 将消息分组B(i)划分为16个字W0, W1, · · · , W15。
    let mut j = 0;
    while j <= 15 {
        w[j] = u32::from(b_i[j * 4]) << 24
            | u32::from(b_i[j * 4 + 1]) << 16
            | u32::from(b_i[j * 4 + 2]) << 8
            | u32::from(b_i[j * 4 + 3]);
        j += 1;
    }

    // b. Wj ← P1(Wj−16 ⊕ Wj−9 ⊕ (Wj−3 ≪ 15)) ⊕ (Wj−13 ≪ 7) ⊕ Wj−6
    j = 16;
    while j <= 67 {
        w[j] = p1(w[j - 16] ^ w[j - 9] ^ w[j - 3].rotate_left(15))
            ^ w[j - 13].rotate_left(7)
            ^ w[j - 6];
        j += 1;
    }

    // c. Wj′ = Wj ⊕ Wj+4
    j = 0;
    while j <= 63 {
        w1[j] = w[j] ^ w[j + 4];
        j += 1;
    }

    let mut a = v_i[0];
    let mut b = v_i[1];
    let mut c = v_i[2];
    let mut d = v_i[3];
    let mut e = v_i[4];
    let mut f = v_i[5];
    let mut g = v_i[6];
    let mut h = v_i[7];

    for j in 0..64 {
        let ss1 = (a
            .rotate_left(12)
            .wrapping_add(e)
            .wrapping_add(t(j).rotate_left(j as u32)))
        .rotate_left(7);
        let ss2 = ss1 ^ (a.rotate_left(12));
        let tt1 = ff(a, b, c, j as u32)
            .wrapping_add(d)
            .wrapping_add(ss2)
            .wrapping_add(w1[j]);
        let tt2 = gg(e, f, g, j as u32)
            .wrapping_add(h)
            .wrapping_add(ss1)
            .wrapping_add(w[j]);
        d = c;
        c = b.rotate_left(9);
        b = a;
        a = tt1;
        h = g;
        g = f.rotate_left(19);
        f = e;
        e = p0(tt2);
    }
    v_i[0] ^= a;
    v_i[1] ^= b;
    v_i[2] ^= c;
    v_i[3] ^= d;
    v_i[4] ^= e;
    v_i[5] ^= f;
    v_i[6] ^= g;
    v_i[7] ^= h;
}

fn pad(msg: &[u8]) -> Result<Vec<u8>, Sm3Error> {
    let bit_length = (msg.len() << 3) as u64;
    let mut msg = msg.to_vec();
    msg.push(0x80);
    let blocksize = 64;
    while msg.len() % blocksize != 56 {
        msg.push(0x00);
    }
    msg.push((bit_length >> 56 & 0xff) as u8);
    msg.push((bit_length >> 48 & 0xff) as u8);
    msg.push((bit_length >> 40 & 0xff) as u8);
    msg.push((bit_length >> 32 & 0xff) as u8);
    msg.push((bit_length >> 24 & 0xff) as u8);
    msg.push((bit_length >> 16 & 0xff) as u8);
    msg.push((bit_length >> 8 & 0xff) as u8);
    msg.push((bit_length & 0xff) as u8);
    if msg.len() % 64 != 0 {
        return Err(Sm3Error::ErrorMsgLen);
    }
    Ok(msg)
}

#[cfg(test)]
mod test {
    use crate::*;

    #[test]
    fn test_hash_1() {
        let hash = sm3_hash(b"abc");
        let r = hex::encode(hash);
        assert_eq!(
            "66c7f0f462eeedd9d1f2d46bdc10e4e24167c4875cf2f7a2297da02b8f4ba8e0",
            r
        );
    }

    #[test]
    fn test_hash_2() {
        let hash = sm3_hash(b"abcdabcdabcdabcdabcdabcdabcdabcdabcdabcdabcdabcdabcdabcdabcdabcd");
        let r = hex::encode(hash);
        assert_eq!(
            "debe9ff92275b8a138604889c18e5a4d6fdb70e5387e5765293dcba39c0c5732",
            r
        );
    }
}

#[cfg(gm_rs_verif)]
pub mod verif_hooks {
    //! Read-only accessors for private constants (verification builds only).
    pub fn iv() -> [u32; 8] {
        crate::IV
    }
    pub fn t00() -> u32 {
        crate::T00
    }
    pub fn t16() -> u32 {
        crate::T16
    }
}
