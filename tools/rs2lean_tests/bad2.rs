fn f(x: u32) -> u32 { match x { 0 => 1, _ => 2 } }
