struct S { a: [u32; 2] }
impl S {
    fn bump(&mut self) -> u32 { self.a[0] = self.a[0].wrapping_add(1); self.a[0] }
    fn g(&mut self) -> u32 { let z = self.a[1] ^ self.bump(); z }
}
