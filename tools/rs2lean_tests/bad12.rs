fn f(v: &[u8]) -> Vec<u8> { let mut o: Vec<u8> = Vec::new(); for x in v.iter() { o.push(x); } o }
