fn blk(msg: &[u8], k: usize) -> [u8; 4] {
    let mut b: [u8; 4] = [0; 4];
    b.copy_from_slice(&msg[k * 4..k * 4 + 4]);
    b
}
fn tail(msg: &[u8]) -> Vec<u8> {
    let t = msg[2..].to_vec();
    t
}
