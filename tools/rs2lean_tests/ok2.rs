pub enum E { Bad, Worse }
const K: [u32; 2] = [1, 0xffff_ffffu32];
fn sel(c: bool, a: u32, b: u32) -> u32 { if c { a } else { b } }
fn chk(x: u32) -> Result<u32, E> {
    if x == 0 { return Err(E::Bad); }
    if x > 10 && x != 12 { Err(E::Worse) } else { Ok(x.wrapping_mul(3)) }
}
fn twice(x: u32) -> Result<u32, E> {
    let a = chk(x)?;
    let b = chk(a)?;
    Ok(b ^ K[1])
}
fn bump(v: &mut Vec<u8>, n: usize) {
    let mut i = 0;
    while i < n { v.push(i as u8); i += 1; }
}
fn total(n: usize) -> u64 {
    let mut v: Vec<u8> = [7u8; 2].to_vec();
    bump(&mut v, n);
    let mut s: u64 = 0;
    for i in 0..v.len() { s = s.wrapping_add(u64::from(v[i])); }
    let flag = v.len() % 2 == 0 || n / 2 > 3;
    if flag { s ^= 1; } else if n >= 2 { s |= 2; }
    s >> 1
}
