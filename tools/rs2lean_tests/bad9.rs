enum E { A, B } fn f(e: E) -> u32 { match e { E::A => 1, _ => 2 } }
