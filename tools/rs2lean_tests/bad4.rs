fn f(x: u64, k: u32) -> u64 { x << k }
