fn f(x: u32, k: u32) -> u32 { x << k }
