fn f(v: &[u8]) -> u32 { let mut s = 0; for b in v.iter() { s ^= 1; } s }
