#!/usr/bin/env python3
"""CRLF-preserving exact-replace helper for editing /repo sources.
usage: redit.py FILE <<< JSON list of [old, new] pairs (LF in JSON; converted if file is CRLF).
Each `old` must occur exactly once."""
import sys, json
path = sys.argv[1]
raw = open(path, 'rb').read().decode('utf-8')
crlf = '\r\n' in raw
pairs = json.load(sys.stdin)
for old, new in pairs:
    if crlf:
        old = old.replace('\r\n', '\n').replace('\n', '\r\n')
        new = new.replace('\r\n', '\n').replace('\n', '\r\n')
    n = raw.count(old)
    if n != 1:
        sys.exit(f"pattern occurs {n} times: {old[:60]!r}")
    raw = raw.replace(old, new)
open(path, 'wb').write(raw.encode('utf-8'))
