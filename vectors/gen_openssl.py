#!/usr/bin/env python3
"""Authoring-time generator of the frozen OpenSSL corpus (NOT run by any check).

Uses the OpenSSL 3.0 CLI found in the sandbox as an implementation of SM3, SM4 (ECB/CBC/
CFB/OFB/CTR) and SM2 (keys, signatures, GM/T 0009 ciphertexts) that is independent of
gm-rs and of the Lean Spec.  Output: vectors/openssl/*.txt, one record per line,
space-separated hex fields ('-' = empty).  Message/key/iv contents are deterministic;
SM2 keys and nonces come from OpenSSL's RNG and are frozen once written.
"""
import subprocess, os, sys, tempfile, binascii, re
OUT = os.path.join(os.path.dirname(os.path.abspath(__file__)), "openssl")
os.makedirs(OUT, exist_ok=True)
def hx(b): return b.hex() if b else "-"
def pat(n, salt): return bytes(((i * 7 + salt * 13 + (i >> 8)) & 0xff) for i in range(n))
def run(args, data=b""):
    return subprocess.run(["openssl"] + args, input=data, capture_output=True, check=True).stdout

def sm3():
    with open(os.path.join(OUT, "sm3.txt"), "w") as f:
        f.write("# msg_hex digest_hex   (openssl dgst -sm3 -binary)\n")
        for n in list(range(0, 301)) + [511, 512, 513, 1000, 4095, 4096, 4097, 65537]:
            for salt in (0, 1):
                m = pat(n, salt + n)
                f.write(f"{hx(m)} {hx(run(['dgst', '-sm3', '-binary'], m))}\n")

def sm4():
    with open(os.path.join(OUT, "sm4.txt"), "w") as f:
        f.write("# mode key iv data ciphertext   (openssl enc -sm4-<mode>; ecb is -nopad single blocks; cbc has PKCS#7)\n")
        for t in range(40):
            key = pat(16, 100 + t); blk = pat(16, 200 + t)
            if t == 0: key = blk = bytes.fromhex("0123456789abcdeffedcba9876543210")
            if t == 1: key, blk = bytes(16), bytes(16)
            if t == 2: key, blk = b"\xff" * 16, b"\xff" * 16
            ct = run(["enc", "-sm4-ecb", "-nopad", "-K", key.hex()], blk)
            f.write(f"ecb {hx(key)} - {hx(blk)} {hx(ct)}\n")
        ivs = [pat(16, 7), bytes(16), b"\xff" * 16] + [bytes(16 - j) + b"\xff" * j for j in range(1, 16)]
        for mode in ("cbc", "cfb", "ofb", "ctr"):
            for n in range(0, 101):
                key = pat(16, 300 + n); iv = ivs[n % len(ivs)]; data = pat(n, 400 + n)
                ct = run(["enc", f"-sm4-{mode}", "-K", key.hex(), "-iv", iv.hex()], data)
                f.write(f"{mode} {hx(key)} {hx(iv)} {hx(data)} {hx(ct)}\n")

def der_items(der):
    """Parse SEQUENCE { item* } of definite-length primitives; returns list of (tag, content)."""
    def tlv(b, o):
        tag = b[o]; ln = b[o + 1]; o += 2
        if ln & 0x80:
            k = ln & 0x7f; ln = int.from_bytes(b[o:o + k], "big"); o += k
        return tag, b[o:o + ln], o + ln
    tag, body, end = tlv(der, 0)
    assert tag == 0x30 and end == len(der)
    items, o = [], 0
    while o < len(body):
        t, c, o = tlv(body, o); items.append((t, c))
    return items

def der_ints(der):
    items = der_items(der)
    ints = [c.lstrip(b"\x00").hex().upper() for t, c in items if t == 0x02]
    octs = [c.hex().upper() for t, c in items if t == 0x04]
    return ints, octs

def sm2():
    fk = open(os.path.join(OUT, "sm2_keys.txt"), "w")
    fs = open(os.path.join(OUT, "sm2_sigs.txt"), "w")
    fe = open(os.path.join(OUT, "sm2_enc.txt"), "w")
    fk.write("# idx d_hex pub_uncompressed_hex pkcs8_der_hex spki_der_hex sec1_der_hex pub_compressed_hex\n")
    fs.write("# idx id_hex msg_hex r_hex s_hex   (openssl pkeyutl -sign -rawin -digest sm3 -pkeyopt distid:<id>; verified by openssl)\n")
    fe.write("# idx msg_hex x_hex y_hex c3_hex c2_hex der_hex   (openssl pkeyutl -encrypt: GM/T 0009 SEQUENCE{x,y,hash,cipher}; decrypted back by openssl)\n")
    with tempfile.TemporaryDirectory() as td:
        for i in range(12):
            k = os.path.join(td, "k.pem"); p = os.path.join(td, "p.pem")
            run(["genpkey", "-algorithm", "SM2", "-out", k]); run(["pkey", "-in", k, "-pubout", "-out", p])
            txt = run(["pkey", "-in", k, "-text", "-noout"]).decode()
            d = re.search(r"priv:\s*((?:[0-9a-f]{2}:?\s*)+)", txt).group(1); d = re.sub(r"[^0-9a-f]", "", d).rjust(64, "0")
            pub = re.search(r"pub:\s*((?:[0-9a-f]{2}:?\s*)+)", txt).group(1); pub = re.sub(r"[^0-9a-f]", "", pub)
            kder = run(["pkcs8", "-topk8", "-nocrypt", "-in", k, "-outform", "DER"]); pder = run(["pkey", "-in", k, "-pubout", "-outform", "DER"])
            sec1 = run(["ec", "-in", k, "-outform", "DER"])
            assert kder[:4] != sec1[:4] or len(kder) != len(sec1)
            comp = run(["ec", "-in", k, "-pubout", "-conv_form", "compressed", "-outform", "DER"])[-33:]
            fk.write(f"{i} {d} {pub} {hx(kder)} {hx(pder)} {hx(sec1)} {hx(comp)}\n")
            for j in range(6):
                ident = b"1234567812345678" if j % 2 == 0 else pat(1 + 5 * j, j)  .replace(b"\x00", b"A")
                ident = bytes(0x21 + (c % 0x5e) for c in ident) if j % 2 else ident   # printable, no ':' issues
                ident = ident.replace(b":", b"_").replace(b",", b"_")
                msg = pat([0, 1, 14, 55, 64, 200][j], i * 10 + j)
                mf = os.path.join(td, "m.bin"); open(mf, "wb").write(msg)
                sig = run(["pkeyutl", "-sign", "-rawin", "-digest", "sm3", "-inkey", k, "-in", mf, "-pkeyopt", "distid:" + ident.decode()])
                sf = os.path.join(td, "s.der"); open(sf, "wb").write(sig)
                run(["pkeyutl", "-verify", "-rawin", "-digest", "sm3", "-pubin", "-inkey", p, "-in", mf, "-sigfile", sf, "-pkeyopt", "distid:" + ident.decode()])
                (r, s), _ = der_ints(sig)
                fs.write(f"{i} {hx(ident)} {hx(msg)} {r.rjust(64,'0').lower()} {s.rjust(64,'0').lower()}\n")
            for j in range(6):
                msg = pat([1, 5, 31, 32, 33, 117][j], i * 10 + j + 50)
                mf = os.path.join(td, "m.bin"); open(mf, "wb").write(msg)
                ct = run(["pkeyutl", "-encrypt", "-pubin", "-inkey", p, "-in", mf])
                cf = os.path.join(td, "c.der"); open(cf, "wb").write(ct)
                assert run(["pkeyutl", "-decrypt", "-inkey", k, "-in", cf]) == msg
                (x, y), (c3, c2) = der_ints(ct)
                fe.write(f"{i} {hx(msg)} {x.rjust(64,'0').lower()} {y.rjust(64,'0').lower()} {c3.lower()} {c2.lower()} {hx(ct)}\n")
    fk.close(); fs.close(); fe.close()

if __name__ == "__main__":
    sm3(); sm4(); sm2()
    print(run(["version"]).decode().strip())
