/-
Line-protocol driver.  `driver impl` runs the executable models of the code (`Impl.*`), `driver spec` the oracle
(`Spec.*`: what the property demands).  One op per input line, one result line each:
`OK <payload>` | `ERR [kind]` | `PANIC` | `ANY` (spec only: input outside the property's statement) | `BADOP`.
Imports no Mathlib (it is linked as a native executable).
-/
import GmVerif.Drv.Sym
import GmVerif.Drv.SM2
import GmVerif.Drv.SM9Impl
import GmVerif.Drv.SM9Spec
open GmVerif

def step (spec : Bool) (line : String) : String :=
  let toks := (line.trimAscii.toString.splitOn " ").filter (· ≠ "")
  let r := if spec then (Drv.Sym.specStep toks <|> Drv.SM2.specStep toks <|> Drv.SM9Spec.specStep toks)
           else (Drv.Sym.implStep toks <|> Drv.SM2.implStep toks <|> Drv.SM9Impl.implStep toks)
  r.getD "BADOP"

partial def loop (spec : Bool) (h out : IO.FS.Stream) : IO Unit := do
  let line ← h.getLine
  if line.isEmpty then return ()
  out.putStrLn (step spec line)
  loop spec h out

def main (args : List String) : IO UInt32 := do
  let stdin ← IO.getStdin
  let stdout ← IO.getStdout
  match args with
  | ["impl"] => loop false stdin stdout; return 0
  | ["spec"] => loop true stdin stdout; return 0
  | _ => IO.eprintln "usage: driver impl|spec < ops"; return 2
