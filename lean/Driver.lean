/-
Line-protocol driver.  `driver impl` runs the executable models of the code (`Impl.*`), `driver spec` the oracle
(`Spec.*`: what the property demands).  One op per input line, one result line each:
`OK <payload>` | `ERR [kind]` | `PANIC` | `ANY` (spec only: input outside the property's statement) | `BADOP`.
Imports no Mathlib (it is linked as a native executable).
-/
import GmVerif.Drv.Sym
import GmVerif.Drv.SM2
import GmVerif.Drv.SM9Impl
import GmVerif.Drv.SM9Spec
open GmVerif

/-- representation hints of the line protocol (`aff:<ke>`: hold the master public key in affine form) mean nothing to the
    specification: the oracle sees the plain value -/
def stripHints (toks : List String) : List String :=
  toks.map fun t => if t.startsWith "aff:" then (t.drop 4).toString else t

/-- `<op>_j <z> args…` (z: one or several comma-separated canonical field values): the real code is handed the public key /
    ephemeral points in the Jacobian representation (x z², y z³, z) instead of the affine one.  Every protocol function is a
    function of the POINT, not of its representation, so the standard — and the models, whose decoders produce affine points —
    answer as for `<op> args…`. -/
def stripRep (toks : List String) : List String :=
  match toks with
  | op :: _z :: rest => if op.endsWith "_j" then (op.dropEnd 2).toString :: rest else toks
  | _ => toks

def step1 (spec : Bool) (toks : List String) : String :=
  let toks := stripRep toks
  let toks := if spec then stripHints toks else toks
  let r := if spec then (Drv.Sym.specStep toks <|> Drv.SM2.specStep toks <|> Drv.SM9Spec.specStep toks)
           else (Drv.Sym.implStep toks <|> Drv.SM2.implStep toks <|> Drv.SM9Impl.implStep toks)
  r.getD "BADOP"

/-- `sm2_kexseq dA dB idA idB klen rA1,rA2,.. rB1,rB2,..`: several honest sessions run on ONE long-lived pair of
    `Exchange` objects in the real code; the models and the standard have no object state, so session i is the
    single-session op with the i-th ephemeral scalars.  Payloads joined by " | ". -/
def kexSeq (spec : Bool) (pre : List String) (rAs rBs : String) : String :=
  let outs := (List.zip (rAs.splitOn ",") (rBs.splitOn ",")).map fun (a, b) => step1 spec (["sm2_kex"] ++ pre ++ [a, b, "-"])
  if outs.all (·.startsWith "OK ") then "OK " ++ String.intercalate " | " (outs.map fun o => (o.drop 3).toString)
  else if outs.any (· == "ANY") then "ANY"
  else if outs.any (· == "BADOP") then "BADOP"
  else if outs.any (· == "PANIC") then "PANIC" else "ERR"

/-- generic "same thread, one after another" composition: `seq <op> a1 a2 ; a1 a2 ; ...` in the real code runs the calls
    in order on one thread (so any hidden per-thread / global state would show); models and oracle are pure, call by call. -/
def seqOp (spec : Bool) (op : String) (rest : List String) : String :=
  let groups := (String.intercalate " " rest).splitOn " ; "
  let outs := groups.map fun g => step1 spec (op :: (g.splitOn " ").filter (· ≠ ""))
  if outs.any (· == "BADOP") then "BADOP"
  else if outs.any (· == "ANY") then "ANY"
  else "OK " ++ String.intercalate " | " (outs.map fun o => if o.startsWith "OK " then (o.drop 3).toString else if o.startsWith "ERR" then "ERR" else o)

/-- `sm2_kexforge dA dB idA idB klen rA rB sb|sa <value>`: an honest run in which S_B (resp. S_A) is replaced in transit by
    `<value>`.  Model and standard compare the received confirmation value with the computed one by equality, so the run
    is accepted iff `<value>` is the honest value (taken from the single-session op). -/
def kexForge (spec : Bool) (pre : List String) (which val : String) : String :=
  let r := step1 spec (["sm2_kex"] ++ pre ++ ["-"])
  if r.startsWith "OK " then
    match (r.drop 3).toString.splitOn " " with
    | [_ra, _rb, sb, sa, _ka, _kb] => if (if which = "sb" then sb else sa) = val then "OK accepted" else "ERR"
    | _ => "BADOP"
  else r

/-- `sm2_kdf_block z blk` / `s9_kdf_block z blk`: block number blk (1-based) of the KDF key stream. Model and standard define
    block i as SM3(z ‖ ct) with the 32-bit big-endian counter ct = i (`Spec.SM2.kdf`, `Impl.SM2.kdf`, `kdf_refines`), so one block is
    computed directly; the real code derives the whole prefix. Defined for 1 ≤ blk < 2^32. -/
def kdfBlock (z blk : String) : String :=
  match bytesOfHex z, blk.toNat? with
  | some z, some b => if 1 ≤ b ∧ b < 2 ^ 32 then "OK " ++ hexOfBytes (Spec.SM3.hash (z ++ natBE 4 b)) else "ANY"
  | _, _ => "BADOP"

def step (spec : Bool) (line : String) : String :=
  let toks := (line.trimAscii.toString.splitOn " ").filter (· ≠ "")
  match toks with
  | ["sm2_kexseq", dA, dB, idA, idB, klen, rAs, rBs] => kexSeq spec [dA, dB, idA, idB, klen] rAs rBs
  | ["sm2_kexforge", dA, dB, idA, idB, klen, rA, rB, which, val] => kexForge spec [dA, dB, idA, idB, klen, rA, rB] which val
  | ["sm2_kdf_block", z, blk] => kdfBlock z blk
  | ["s9_kdf_block", z, blk] => kdfBlock z blk
  | "seq" :: op :: rest => seqOp spec op rest
  | _ => step1 spec toks

partial def loop (spec : Bool) (h out : IO.FS.Stream) : IO Unit := do
  let line ← h.getLine
  if line.isEmpty then return ()
  out.putStrLn (step spec line)
  loop spec h out

def main (args : List String) : IO UInt32 := do
  let stdin ← IO.getStdin
  let stdout ← IO.getStdout
  match args with
  | ["impl"] => loop false stdin stdout; return 0
  | ["spec"] => loop true stdin stdout; return 0
  | _ => IO.eprintln "usage: driver impl|spec < ops"; return 2
