/-
Model of /repo/gm-sm4/src/lib.rs: tau/el/el_prime/t/t_prime, Sm4Cipher::{new,encrypt,decrypt},
block_xor, block_add_one, Sm4CipherMode::{new,encrypt,decrypt} and the seven private mode functions.
Tables come from `Gen.SM4` (dumped from the compiled crate on every run).
-/
import GmVerif.Common
import GmVerif.Gen.SM4
namespace GmVerif.Impl.SM4
open GmVerif

def SBOXA : Array UInt8 := Gen.SM4.SBOX.toArray
def FKA : Array UInt32 := Gen.SM4.FK.toArray
def CKA : Array UInt32 := Gen.SM4.CK.toArray

/-- `fn tau`: `to_be_bytes`, four `SBOX[buf[i] as usize]`, `from_be_bytes` -/
def tau (a : UInt32) : UInt32 :=
  u32be SBOXA[(a >>> 24).toUInt8.toNat]! SBOXA[(a >>> 16).toUInt8.toNat]!
        SBOXA[(a >>> 8).toUInt8.toNat]! SBOXA[a.toUInt8.toNat]!

def el (b : UInt32) : UInt32 := b ^^^ rotl32 b 2 ^^^ rotl32 b 10 ^^^ rotl32 b 18 ^^^ rotl32 b 24
def el_prime (b : UInt32) : UInt32 := b ^^^ rotl32 b 13 ^^^ rotl32 b 23
def t (v : UInt32) : UInt32 := el (tau v)
def t_prime (v : UInt32) : UInt32 := el_prime (tau v)

/-- `u32::from_be_bytes(k[i..i+4].try_into().unwrap())`; callers check `i + 4 ≤ k.length` -/
def word (k : List UInt8) (i : Nat) : UInt32 :=
  u32be (k.getD i 0) (k.getD (i + 1) 0) (k.getD (i + 2) 0) (k.getD (i + 3) 0)

abbrev Q := UInt32 × UInt32 × UInt32 × UInt32

/-- body of `for i in 0..8` in `Sm4Cipher::new` -/
def ksRound (st : Q × List UInt32) (i : Nat) : Q × List UInt32 :=
  let ((k0, k1, k2, k3), rk) := st
  let k0 := k0 ^^^ t_prime (k1 ^^^ k2 ^^^ k3 ^^^ CKA[i * 4]!)
  let k1 := k1 ^^^ t_prime (k2 ^^^ k3 ^^^ k0 ^^^ CKA[i * 4 + 1]!)
  let k2 := k2 ^^^ t_prime (k3 ^^^ k0 ^^^ k1 ^^^ CKA[i * 4 + 2]!)
  let k3 := k3 ^^^ t_prime (k0 ^^^ k1 ^^^ k2 ^^^ CKA[i * 4 + 3]!)
  ((k0, k1, k2, k3), rk ++ [k0, k1, k2, k3])

/-- `Sm4Cipher::new`: `if k.len() != 16 { return Err(ErrorDataLen) }`, after which the slices
`k[0..4]`… are in range -/
def new (k : List UInt8) : Outcome (Array UInt32) :=
  if k.length ≠ 16 then .err "ErrorDataLen"
  else
    let k0 := word k 0 ^^^ FKA[0]!
    let k1 := word k 4 ^^^ FKA[1]!
    let k2 := word k 8 ^^^ FKA[2]!
    let k3 := word k 12 ^^^ FKA[3]!
    .ok ((List.range 8).foldl ksRound ((k0, k1, k2, k3), [])).2.toArray

def encRound (rk : Array UInt32) (x : Q) (i : Nat) : Q :=
  let (x0, x1, x2, x3) := x
  let x0 := x0 ^^^ t (x1 ^^^ x2 ^^^ x3 ^^^ rk[i * 4]!)
  let x1 := x1 ^^^ t (x2 ^^^ x3 ^^^ x0 ^^^ rk[i * 4 + 1]!)
  let x2 := x2 ^^^ t (x3 ^^^ x0 ^^^ x1 ^^^ rk[i * 4 + 2]!)
  let x3 := x3 ^^^ t (x0 ^^^ x1 ^^^ x2 ^^^ rk[i * 4 + 3]!)
  (x0, x1, x2, x3)

def decRound (rk : Array UInt32) (x : Q) (i : Nat) : Q :=
  let (x0, x1, x2, x3) := x
  let x0 := x0 ^^^ t (x1 ^^^ x2 ^^^ x3 ^^^ rk[31 - i * 4]!)
  let x1 := x1 ^^^ t (x2 ^^^ x3 ^^^ x0 ^^^ rk[31 - (i * 4 + 1)]!)
  let x2 := x2 ^^^ t (x3 ^^^ x0 ^^^ x1 ^^^ rk[31 - (i * 4 + 2)]!)
  let x3 := x3 ^^^ t (x0 ^^^ x1 ^^^ x2 ^^^ rk[31 - (i * 4 + 3)]!)
  (x0, x1, x2, x3)

def outBytes (x : Q) : List UInt8 :=
  let (x0, x1, x2, x3) := x
  be32 x3 ++ be32 x2 ++ be32 x1 ++ be32 x0

/-- the computation of `Sm4Cipher::encrypt` on a block of at least 16 bytes -/
def encB (rk : Array UInt32) (block : List UInt8) : List UInt8 :=
  outBytes ((List.range 8).foldl (encRound rk) (word block 0, word block 4, word block 8, word block 12))

def decB (rk : Array UInt32) (block : List UInt8) : List UInt8 :=
  outBytes ((List.range 8).foldl (decRound rk) (word block 0, word block 4, word block 8, word block 12))

/-- `Sm4Cipher::encrypt`: `if block.len() != 16 { return Err(ErrorBlockSize) }` -/
def encrypt (rk : Array UInt32) (block : List UInt8) : Outcome (List UInt8) :=
  if block.length ≠ 16 then .err "ErrorBlockSize" else .ok (encB rk block)

def decrypt (rk : Array UInt32) (block : List UInt8) : Outcome (List UInt8) :=
  if block.length ≠ 16 then .err "ErrorBlockSize" else .ok (decB rk block)

/-! ### modes -/

inductive Mode where
  | cfb | ofb | ctr | cbc
deriving DecidableEq, Repr

/-- `block_xor`: both arguments are 16 bytes at every call site -/
def blockXor (a b : List UInt8) : List UInt8 := List.zipWith (· ^^^ ·) (a.take 16) (b.take 16)

/-- `block_add_one`: from the last byte, add the carry, stop at the first byte that does not overflow.
`bytes` is processed least-significant first (the reversed block). -/
def addOneRev : List UInt8 → List UInt8
  | [] => []
  | b :: rest => if b = 255 then 0 :: addOneRev rest else (b + 1) :: rest

def blockAddOne (a : List UInt8) : List UInt8 := (addOneRev a.reverse).reverse

/-- `data[i*16 .. i*16+16]` (in range at every call site: i < block_num) -/
def blk (data : List UInt8) (i : Nat) : List UInt8 := (data.drop (i * 16)).take 16

/-- the "Last block" tail loop shared by CFB/OFB/CTR -/
def tailXor (data enc : List UInt8) (blockNum tailLen : Nat) : List UInt8 :=
  List.zipWith (· ^^^ ·) ((data.drop (blockNum * 16)).take tailLen) enc

def cfb_encrypt (rk : Array UInt32) (data iv : List UInt8) : List UInt8 :=
  let blockNum := data.length / 16
  let tailLen := data.length - blockNum * 16
  let (buf, out) := (List.range blockNum).foldl
    (fun (st : List UInt8 × List UInt8) i =>
      let enc := encB rk st.1
      let ct := blockXor enc (blk data i)
      (ct, st.2 ++ ct)) (iv, [])
  out ++ tailXor data (encB rk buf) blockNum tailLen

def cfb_decrypt (rk : Array UInt32) (data iv : List UInt8) : List UInt8 :=
  let blockNum := data.length / 16
  let tailLen := data.length - blockNum * 16
  let (buf, out) := (List.range blockNum).foldl
    (fun (st : List UInt8 × List UInt8) i =>
      let enc := encB rk st.1
      let ct := blk data i
      (ct, st.2 ++ blockXor enc ct)) (iv, [])
  out ++ tailXor data (encB rk buf) blockNum tailLen

def ofb_encrypt (rk : Array UInt32) (data iv : List UInt8) : List UInt8 :=
  let blockNum := data.length / 16
  let tailLen := data.length - blockNum * 16
  let (buf, out) := (List.range blockNum).foldl
    (fun (st : List UInt8 × List UInt8) i =>
      let enc := encB rk st.1
      (enc, st.2 ++ blockXor enc (blk data i))) (iv, [])
  out ++ tailXor data (encB rk buf) blockNum tailLen

def ctr_encrypt (rk : Array UInt32) (data iv : List UInt8) : List UInt8 :=
  let blockNum := data.length / 16
  let tailLen := data.length - blockNum * 16
  let (buf, out) := (List.range blockNum).foldl
    (fun (st : List UInt8 × List UInt8) i =>
      let enc := encB rk st.1
      (blockAddOne st.1, st.2 ++ blockXor enc (blk data i))) (iv, [])
  out ++ tailXor data (encB rk buf) blockNum tailLen

def cbc_encrypt (rk : Array UInt32) (data iv : List UInt8) : List UInt8 :=
  let blockNum := data.length / 16
  let remind := data.length % 16
  let (buf, out) := (List.range blockNum).foldl
    (fun (st : List UInt8 × List UInt8) i =>
      let enc := encB rk (blockXor st.1 (blk data i))
      (enc, st.2 ++ enc)) (iv, [])
  if remind ≠ 0 then
    -- `[16 - remind as u8; 16]` then `last_block[..remind].copy_from_slice(&data[block_num*16..])`
    let lastBlock := data.drop (blockNum * 16) ++ List.replicate (16 - remind) (16 - remind).toUInt8
    out ++ encB rk (blockXor buf lastBlock)
  else
    out ++ encB rk (blockXor buf (List.replicate 16 0x10))

/-- `cbc_decrypt`; `out[data_len - 1]` would panic if out of range (the model keeps that branch;
`Thm.C07.cbc_decrypt_no_panic` shows it is unreachable) -/
def cbc_decrypt (rk : Array UInt32) (data iv : List UInt8) : Outcome (List UInt8) :=
  let dataLen := data.length
  let blockNum := dataLen / 16
  if dataLen = 0 ∨ dataLen % 16 ≠ 0 then .err "ErrorDataLen"
  else
    let (_, out) := (List.range blockNum).foldl
      (fun (st : List UInt8 × List UInt8) i =>
        let enc := decB rk (blk data i)
        (blk data i, st.2 ++ blockXor st.1 enc)) (iv, [])
    match out[dataLen - 1]? with
    | none => .panic
    | some lastU8 =>
      if lastU8 > 0x10 ∨ lastU8 = 0 then .err "InvalidLastU8"
      else .ok (out.take (dataLen - lastU8.toNat))

/-- `Sm4CipherMode::new(key, mode)?.encrypt(data, iv)` -/
def mode_encrypt (mode : Mode) (key data iv : List UInt8) : Outcome (List UInt8) :=
  match new key with
  | .ok rk =>
    if iv.length ≠ 16 then .err "ErrorBlockSize"
    else match mode with
      | .cfb => .ok (cfb_encrypt rk data iv)
      | .ofb => .ok (ofb_encrypt rk data iv)
      | .ctr => .ok (ctr_encrypt rk data iv)
      | .cbc => .ok (cbc_encrypt rk data iv)
  | .err k => .err k
  | .panic => .panic

def mode_decrypt (mode : Mode) (key data iv : List UInt8) : Outcome (List UInt8) :=
  match new key with
  | .ok rk =>
    if iv.length ≠ 16 then .err "ErrorBlockSize"
    else match mode with
      | .cfb => .ok (cfb_decrypt rk data iv)
      | .ofb => .ok (ofb_encrypt rk data iv)
      | .ctr => .ok (ctr_encrypt rk data iv)
      | .cbc => cbc_decrypt rk data iv
  | .err k => .err k
  | .panic => .panic

end GmVerif.Impl.SM4
