/-
"Nat-exact" mirror of the limb-level modular routines: the same results as `Impl.Limb` for ALL 256-bit operands
(canonical or not), written on natural numbers so that the protocol models run fast and proofs can use `Nat`/`ZMod`.
`Proofs.Limb` proves `(Limb.f a b).toNat = NatField.f a.toNat b.toNat` for every function here.
-/
import GmVerif.Common
namespace GmVerif.Impl.NatField

def R : Nat := 2 ^ 256

/-- mirror of `Limb.mont_mul m mp neg` (neg = 2^256 − m): z + t·m may carry out of 512 bits -/
def montMul (m mp neg : Nat) (a b : Nat) : Nat :=
  let z := a * b
  let t1 := (z % R) * mp % R
  let s := z + t1 * m
  let r := s / R % R
  if s ≥ R * R then (r + neg) % R
  else if r ≥ m then r - m
  else r

def modAdd (m neg : Nat) (a b : Nat) : Nat :=
  let s := a + b
  if s ≥ R then (s - R + neg) % R
  else if s ≥ m then s - m
  else s

def modSub (neg : Nat) (a b : Nat) : Nat :=
  if a < b then (a + R - b + R - neg) % R else a - b

def modNeg (m : Nat) (a : Nat) : Nat := if a = 0 then 0 else (m + R - a) % R

def modDiv2 (m : Nat) (a : Nat) : Nat := if a % 2 = 1 then (a + m) / 2 else a / 2

/-- the 256 bits of e, most significant first -/
def bitsMSB (e : Nat) : List Bool := (List.range 256).map fun i => e / 2 ^ (255 - i) % 2 = 1

def powLoop (mul : Nat → Nat → Nat) (one a e : Nat) : Nat :=
  (bitsMSB e).foldl (fun r bit => let r := mul r r; if bit then mul r a else r) one

end GmVerif.Impl.NatField
