/-
Model of /repo/gm-zuc/src/eea.rs (EEA::new, EEA::encrypt) and eia.rs (EIA::new, EIA::gen_mac, find_word).
`as u8` is truncation; `msg[i]`, `m[i >> 5]`, `keys[j]` out of range panic.
-/
import GmVerif.Common
import GmVerif.Impl.ZUC
namespace GmVerif.Impl.EEA
open GmVerif

def eeaIv (count bearer direction : UInt32) : List UInt8 :=
  let iv0 := (count >>> 24).toUInt8
  let iv1 := (count >>> 16).toUInt8
  let iv2 := (count >>> 8).toUInt8
  let iv3 := count.toUInt8
  let iv4 := (((bearer <<< 1) ||| (direction &&& 1)) <<< 2).toUInt8
  [iv0, iv1, iv2, iv3, iv4, 0, 0, 0, iv0, iv1, iv2, iv3, iv4, 0, 0, 0]

/-- `EEA::new(ck, count, bearer, direction)` -/
def eeaNew (ck : List UInt8) (count bearer direction : UInt32) : Outcome ZUC.ZUC :=
  ZUC.new ck (eeaIv count bearer direction)

/-- `EEA::encrypt(&mut self, msg, ilen)`; returns the words and the advanced generator -/
def eeaEncrypt (z : ZUC.ZUC) (msg : List UInt32) (ilen : UInt32) : Outcome (List UInt32 × ZUC.ZUC) :=
  let keylength : Nat := (UInt32.ofNat ((ilen.toNat + 31) / 32)).toNat   -- `((ilen as u64 + 31) / 32) as u32`
  let (keys, z') := ZUC.generate_keystream z keylength
  if msg.length < keylength then .panic      -- `msg[i]`
  else
    let rs := List.zipWith (· ^^^ ·) (msg.take keylength) keys
    if ilen % 32 ≠ 0 then
      -- `rs[keylength - 1] &= 0xffffffff << (32 - (ilen % 32))`
      let mask : UInt32 := (0xffffffff : UInt32) <<< (32 - ilen % 32)
      .ok (rs.take (keylength - 1) ++ (rs.drop (keylength - 1)).map (· &&& mask), z')
    else .ok (rs, z')

def eiaIv (count bearer direction : UInt32) : List UInt8 :=
  let iv0 := (count >>> 24).toUInt8
  let iv1 := (count >>> 16).toUInt8
  let iv2 := (count >>> 8).toUInt8
  let iv3 := count.toUInt8
  let iv4 := (bearer <<< 3).toUInt8
  let d := (direction <<< 7).toUInt8
  [iv0, iv1, iv2, iv3, iv4, 0, 0, 0, iv0 ^^^ d, iv1, iv2, iv3, iv4, 0, 0 ^^^ d, 0]

def eiaNew (ik : List UInt8) (count bearer direction : UInt32) : Outcome ZUC.ZUC :=
  ZUC.new ik (eiaIv count bearer direction)

/-- `find_word(keys, i)` -/
def find_word (keys : List UInt32) (i : Nat) : Outcome UInt32 :=
  let j := i / 32
  let m := i % 32
  if m = 0 then
    match keys[j]? with
    | some k => .ok k
    | none => .panic
  else
    match keys[j]?, keys[j + 1]? with
    | some a, some b => .ok ((a <<< m.toUInt32) ||| (b >>> (32 - m).toUInt32))
    | _, _ => .panic

/-- the `for i in 0..ilen` loop of `gen_mac` from index `i`, `n` iterations left -/
def macLoop (m keys : List UInt32) : Nat → Nat → UInt32 → Outcome UInt32
  | _, 0, t => .ok t
  | i, n + 1, t =>
    match m[i / 32]? with
    | none => .panic
    | some w =>
      if w &&& ((1 : UInt32) <<< (31 - i % 32).toUInt32) > 0 then
        match find_word keys i with
        | .ok k => macLoop m keys (i + 1) n (t ^^^ k)
        | .err e => .err e
        | .panic => .panic
      else macLoop m keys (i + 1) n t

/-- `EIA::gen_mac(&mut self, m, ilen)` -/
def eiaGenMac (z : ZUC.ZUC) (m : List UInt32) (ilen : UInt32) : Outcome (UInt32 × ZUC.ZUC) :=
  let keylength : Nat := (UInt32.ofNat ((ilen.toNat + 31) / 32)).toNat + 2
  if keylength ≥ 2 ^ 32 then .panic else     -- `… as u32 + 2` (cannot overflow: ≤ 2^27 + 2)
  let (keys, z') := ZUC.generate_keystream z keylength
  match macLoop m keys 0 ilen.toNat 0 with
  | .ok t =>
    match find_word keys ilen.toNat, find_word keys (32 * (keylength - 1)) with
    | .ok a, .ok b => .ok ((t ^^^ a) ^^^ b, z')
    | _, _ => .panic
  | .err e => .err e
  | .panic => .panic

end GmVerif.Impl.EEA
