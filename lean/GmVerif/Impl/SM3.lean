/-
Model of /repo/gm-sm3/src/lib.rs, function by function (pad, sm3_hash, cf, p0, p1, ff, gg, t).
Constants come from `Gen.SM3` (dumped from the compiled crate on every run).
-/
import GmVerif.Common
import GmVerif.Gen.SM3
namespace GmVerif.Impl.SM3
open GmVerif

def p0 (x : UInt32) : UInt32 := x ^^^ rotl32 x 9 ^^^ rotl32 x 17
def p1 (x : UInt32) : UInt32 := x ^^^ rotl32 x 15 ^^^ rotl32 x 23

/-- `ff`: note the dead `0` fall-through for j > 63 -/
def ff (x y z : UInt32) (j : Nat) : UInt32 :=
  if j ≤ 15 then x ^^^ y ^^^ z
  else if j ≥ 16 ∧ j ≤ 63 then (x &&& y) ||| (x &&& z) ||| (y &&& z)
  else 0

def gg (x y z : UInt32) (j : Nat) : UInt32 :=
  if j ≤ 15 then x ^^^ y ^^^ z
  else if j ≥ 16 ∧ j ≤ 63 then (x &&& y) ||| (~~~x &&& z)
  else 0

def t (j : Nat) : UInt32 :=
  if j ≤ 15 then Gen.SM3.T00
  else if j ≥ 16 ∧ j ≤ 63 then Gen.SM3.T16
  else 0

/-- `while msg.len() % blocksize != 56 { msg.push(0x00) }` -/
def padZeros (msg : List UInt8) : List UInt8 :=
  if msg.length % 64 = 56 then msg else padZeros (msg ++ [0])
termination_by (56 + 64 - msg.length % 64) % 64
decreasing_by simp only [List.length_append, List.length_cons, List.length_nil]; omega

/-- `fn pad`.  `(msg.len() << 3) as u64`: `<<` on usize discards the bits shifted out (no panic). -/
def pad (msg : List UInt8) : Outcome (List UInt8) :=
  let bitLength : UInt64 := UInt64.ofNat (msg.length * 8)
  let m1 := msg ++ [0x80]
  let m2 := padZeros m1
  let m3 := m2 ++ [(bitLength >>> 56 &&& 0xff).toUInt8, (bitLength >>> 48 &&& 0xff).toUInt8,
                   (bitLength >>> 40 &&& 0xff).toUInt8, (bitLength >>> 32 &&& 0xff).toUInt8,
                   (bitLength >>> 24 &&& 0xff).toUInt8, (bitLength >>> 16 &&& 0xff).toUInt8,
                   (bitLength >>> 8 &&& 0xff).toUInt8, (bitLength &&& 0xff).toUInt8]
  if m3.length % 64 ≠ 0 then .err "ErrorMsgLen" else .ok m3

/-- `fn cf(v_i: &mut [u32; 8], b_i: [u8; 64])`; returns the new `v_i`.
`v` has 8 entries and `b` 64 at every call site (fixed-size Rust arrays). -/
def cf (v : Array UInt32) (b : Array UInt8) : Array UInt32 :=
  -- a. W_0..W_15
  let w : Array UInt32 := (List.range 16).foldl
    (fun w j => w.set! j (b[j * 4]!.toUInt32 <<< 24 ||| b[j * 4 + 1]!.toUInt32 <<< 16
                          ||| b[j * 4 + 2]!.toUInt32 <<< 8 ||| b[j * 4 + 3]!.toUInt32))
    (Array.replicate 68 0)
  -- b. W_16..W_67
  let w : Array UInt32 := (List.range' 16 52).foldl
    (fun w j => w.set! j (p1 (w[j - 16]! ^^^ w[j - 9]! ^^^ rotl32 w[j - 3]! 15)
                          ^^^ rotl32 w[j - 13]! 7 ^^^ w[j - 6]!))
    w
  -- c. W'_j
  let w1 : Array UInt32 := (List.range 64).foldl
    (fun w1 j => w1.set! j (w[j]! ^^^ w[j + 4]!)) (Array.replicate 64 0)
  let r := (List.range 64).foldl
    (fun (s : UInt32 × UInt32 × UInt32 × UInt32 × UInt32 × UInt32 × UInt32 × UInt32) j =>
      let (a, b, c, d, e, f, g, h) := s
      let ss1 := rotl32 (rotl32 a 12 + e + rotl32 (t j) j) 7
      let ss2 := ss1 ^^^ rotl32 a 12
      let tt1 := ff a b c j + d + ss2 + w1[j]!
      let tt2 := gg e f g j + h + ss1 + w[j]!
      (tt1, a, rotl32 b 9, c, p0 tt2, e, rotl32 f 19, g))
    (v[0]!, v[1]!, v[2]!, v[3]!, v[4]!, v[5]!, v[6]!, v[7]!)
  let (a, b, c, d, e, f, g, h) := r
  #[v[0]! ^^^ a, v[1]! ^^^ b, v[2]! ^^^ c, v[3]! ^^^ d, v[4]! ^^^ e, v[5]! ^^^ f, v[6]! ^^^ g, v[7]! ^^^ h]

/-- the `while count_group * 64 != len` loop of `sm3_hash`; `msg[i]` out of range panics -/
def blockLoop (msg : List UInt8) (cg : Nat) (v : Array UInt32) : Outcome (Array UInt32) :=
  if cg * 64 = msg.length then .ok v
  else if _h : cg * 64 + 64 ≤ msg.length then
    blockLoop msg (cg + 1) (cf v ((msg.drop (cg * 64)).take 64).toArray)
  else .panic
termination_by msg.length - cg * 64
decreasing_by omega

/-- `pub fn sm3_hash(msg: &[u8]) -> [u8; 32]` (`pad(msg).unwrap()` panics on `Err`) -/
def sm3_hash (msg : List UInt8) : Outcome (List UInt8) :=
  match pad msg with
  | .ok m =>
    match blockLoop m 0 Gen.SM3.IV.toArray with
    | .ok v => .ok (v.toList.flatMap fun (x : UInt32) =>
        [(x >>> 24).toUInt8, (x >>> 16).toUInt8, (x >>> 8).toUInt8, x.toUInt8])
    | .err k => .err k
    | .panic => .panic
  | _ => .panic

/-- Streaming evaluation of `sm3_hash (block^count ++ tail)` for a 64-byte `block` without
materialising the message (driver op `sm3rep`; `Proofs.SM3.sm3_hash_rep_eq` relates it to `sm3_hash`). -/
def sm3_hash_rep (block : List UInt8) (count : Nat) (tail : List UInt8) : Outcome (List UInt8) :=
  if block.length ≠ 64 then .err "sm3rep-needs-64-byte-block" else
  let b := block.toArray
  let v := (List.range count).foldl (fun v _ => cf v b) Gen.SM3.IV.toArray
  let total := 64 * count + tail.length
  let bitLength : UInt64 := UInt64.ofNat (total * 8)
  let m2 := padZeros (tail ++ [0x80])
  let m3 := m2 ++ [(bitLength >>> 56 &&& 0xff).toUInt8, (bitLength >>> 48 &&& 0xff).toUInt8,
                   (bitLength >>> 40 &&& 0xff).toUInt8, (bitLength >>> 32 &&& 0xff).toUInt8,
                   (bitLength >>> 24 &&& 0xff).toUInt8, (bitLength >>> 16 &&& 0xff).toUInt8,
                   (bitLength >>> 8 &&& 0xff).toUInt8, (bitLength &&& 0xff).toUInt8]
  match blockLoop m3 0 v with
  | .ok v => .ok (v.toList.flatMap fun (x : UInt32) =>
      [(x >>> 24).toUInt8, (x >>> 16).toUInt8, (x >>> 8).toUInt8, x.toUInt8])
  | .err e => .err e
  | .panic => .panic

end GmVerif.Impl.SM3
