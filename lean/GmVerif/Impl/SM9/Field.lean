/-
Model of gm-sm9/src/u256.rs (the parts used by the field code), fields/fp.rs (Fp = 4 Montgomery limbs) and fields.rs
(arithmetic modulo the group order N: mod_n_add/sub, the Barrett `mod_n_mul`, mod_n_pow, mod_n_inv, mod_n_from_hash)
on the Nat-exact layer (`Impl.NatField`), with the constants dumped from the crate (`Gen.SM9`).

Conventions
* a `U256` (`[u64; 4]`, limb 0 least significant) is the natural number it denotes, `< 2^256`; every function below
  gives the result of the Rust code for ALL 256-bit operands (canonical or not).
* Fp values are kept in Montgomery form exactly as the code keeps them.
* The harness (and `cargo test`) builds with overflow-checks ON: `+`, `-`, `*` on integers that overflow PANIC.
  The only reachable instance in this file is `s[4] += SM9_N[0] * h[9]` in `mod_n_mul` (see there).
-/
import GmVerif.Impl.NatField
import GmVerif.Gen.SM9
namespace GmVerif.Impl.SM9
open GmVerif GmVerif.Impl.NatField
open GmVerif.Gen.SM9 (P P_MINUS_TWO P_PRIME MODP_2E512 MODP_MONT_ONE N N_NEG N_MINUS_ONE N_MINUS_TWO
  N_BARRETT_MU N_MINUS_ONE_BARRETT_MU)

/-! ### u256.rs helpers -/

def W64 : Nat := 2 ^ 64
def R256 : Nat := 2 ^ 256

/-- limb `i` of a little-endian limb vector given as a natural number -/
@[inline] def limb (x i : Nat) : Nat := x / 2 ^ (64 * i) % W64

/-- `u256_from_be_bytes(input)`: four `read_u64::<BigEndian>().unwrap()` — panics when fewer than 32 bytes are
available, ignores anything after the first 32 -/
def u256_from_be_bytes (input : List UInt8) : Outcome Nat :=
  if input.length < 32 then .panic else .ok (beNat (input.take 32))

/-- `hex::decode(s).unwrap()`: `none` = panic (odd length or a non-hex character; both cases accepted by `hex`) -/
def hexDecode (s : String) : Option (List UInt8) := bytesOfHexAux s.toList []

/-- `u256_from_hex(hex)` = `u256_from_be_bytes(&hex::decode(hex).unwrap())` -/
def u256_from_hex (s : String) : Outcome Nat :=
  match hexDecode s with
  | none => .panic
  | some b => u256_from_be_bytes b

/-- `u256_add(a, b)` → (sum mod 2^256, carry) — the limb loop is an ordinary carry chain -/
def u256_add (a b : Nat) : Nat × Bool := ((a + b) % R256, a + b ≥ R256)
/-- `u256_sub(a, b)` → (difference mod 2^256, borrow) -/
def u256_sub (a b : Nat) : Nat × Bool := ((a + R256 - b) % R256, a < b)
/-- `u512_add` / `u512_sub`: the same on 8 limbs -/
def u512_add (a b : Nat) : Nat × Bool := ((a + b) % 2 ^ 512, a + b ≥ 2 ^ 512)
def u512_sub (a b : Nat) : Nat × Bool := ((a + 2 ^ 512 - b) % 2 ^ 512, a < b)
/-- `u256_mul(a, b)`: schoolbook product on 32-bit halves; `u = s[i+j] + a_[i]*b_[j] + u` is at most
(2^32−1) + (2^32−1)² + (2^32−1) < 2^64, so no checked-arithmetic panic: the exact 512-bit product -/
def u256_mul (a b : Nat) : Nat := a * b
/-- `fields::u320_mul(a, b)`: the same on 5 limbs: the exact 640-bit product -/
def u320_mul (a b : Nat) : Nat := a * b

/-- `u256_to_be_bytes` -/
def u256_to_be_bytes (a : Nat) : List UInt8 := natBE 32 a

/-- `u256_cmp(a, b)` as an integer in {-1, 0, 1}: limb-wise from the most significant limb = numeric comparison -/
def u256_cmp (a b : Nat) : Int := if a > b then 1 else if a < b then -1 else 0

/-! ### fields/fp.rs -/

/-- `mont_mul`: z = a·b; t = low(low(z)·p')·p; (z, c) = z + t (512 bits); r = high(z);
`if c { r + MONT_ONE (wrapping) } else if r >= p { r - p }` — this is exactly `NatField.montMul`. -/
def fp_mul (a b : Nat) : Nat := montMul P P_PRIME MODP_MONT_ONE a b
def fp_sqr (a : Nat) : Nat := fp_mul a a
/-- `fp_add`: carry → `+ MONT_ONE` (= 2^256 − p) wrapping; else conditional subtraction -/
def fp_add (a b : Nat) : Nat := modAdd P MODP_MONT_ONE a b
/-- `fp_sub`: borrow → `- MONT_ONE` wrapping -/
def fp_sub (a b : Nat) : Nat := modSub MODP_MONT_ONE a b
def fp_double (a : Nat) : Nat := fp_add a a
/-- `self.fp_double().fp_add(self)` -/
def fp_triple (a : Nat) : Nat := fp_add (fp_double a) a
/-- `fp_neg`: zero stays, otherwise `u256_sub(&SM9_P, self).0` (wrapping) -/
def fp_neg (a : Nat) : Nat := modNeg P a
/-- `fp_div2`: odd → (a + p) with its carry shifted in at bit 255; even → a >> 1 -/
def fp_div2 (a : Nat) : Nat := modDiv2 P a
def fp_is_zero (a : Nat) : Bool := a == 0
def fp_to_mont (a : Nat) : Nat := fp_mul a MODP_2E512
def fp_from_mont (a : Nat) : Nat := fp_mul a 1
/-- `fp_pow`: 256 iterations, square then conditional multiply, from the most significant bit -/
def fp_pow (a e : Nat) : Nat := powLoop fp_mul MODP_MONT_ONE a e
def fp_inv (a : Nat) : Nat := fp_pow a P_MINUS_TWO
/-- `Fp::to_bytes_be`: `u256_to_be_bytes(&fp_from_mont(self))` -/
def fp_to_bytes_be (a : Nat) : List UInt8 := natBE 32 (fp_from_mont a)
/-- `fp_from_bytes(buf)`: `fp_to_mont(u256_from_be_bytes(buf))` (no range check) -/
def fp_from_bytes (buf : List UInt8) : Outcome Nat := (u256_from_be_bytes buf).map fp_to_mont
/-- `fp_from_hex(hex)` = `fp_to_mont(u256_from_be_bytes(hex::decode(hex).unwrap()))` -/
def fp_from_hex (s : String) : Outcome Nat :=
  match hexDecode s with
  | none => .panic
  | some b => fp_from_bytes b

/-! ### fields.rs: arithmetic modulo N -/

/-- `mod_n_add`: carry → `+ N_NEG` wrapping; else `>= N` → `- N` -/
def mod_n_add (a b : Nat) : Nat := modAdd N N_NEG a b
/-- `mod_n_sub`: borrow → `- N_NEG` wrapping -/
def mod_n_sub (a b : Nat) : Nat := modSub N_NEG a b

/--
`mod_n_mul(a, b)` — Barrett reduction, limb by limb:

* `z = u256_mul(a, b)` : exact 512-bit product (`u = s[i+j] + a_[i]*b_[j] + u` never overflows u64: 32-bit halves).
* `z1 = z[3..=7]` = ⌊z / 2^192⌋ (320 bits); `h = u320_mul(z1, MU)` : exact product (< 2^577, fits the 10 limbs).
* `h1 = h[5..=8]` = ⌊h / 2^320⌋ mod 2^256, and `h[9]` = ⌊h / 2^576⌋ (0 or 1).
* `s = u256_mul(h1, N)` exact; then `s[4] += SM9_N[0] * h[9]` with CHECKED u64 arithmetic: a product or a sum
  ≥ 2^64 panics (overflow-checks on).  This is reachable for operands ≥ N (e.g. a = b = 2^256 − 1).
* `r[0..4] = z[0..4] − s[0..4]` with the borrow chain (`overflowing_sub` twice per limb; `overflow || overflow2`
  is the ordinary borrow), i.e. `(z mod 2^256 − s mod 2^256) mod 2^256` and `carry = [z mod 2^256 < s mod 2^256]`.
* `s[4] = (z[4] − carry − s[4]) mod 2^64` (`overflowing_sub` then `wrapping_sub`).
* `if s[4] > 0 || r >= N { r = (r − N) mod 2^256 }` — a single conditional subtraction.
-/
def mod_n_mul (a b : Nat) : Outcome Nat :=
  let z := a * b
  let z1 := z / 2 ^ 192
  let h := z1 * N_BARRETT_MU
  let h1 := h / 2 ^ 320 % R256
  let h9 := h / 2 ^ 576 % W64
  let s := h1 * N
  let prod := limb N 0 * h9
  if prod ≥ W64 then .panic else
  let s4 := limb s 4 + prod
  if s4 ≥ W64 then .panic else
  let zlo := z % R256
  let slo := s % R256
  let r := (zlo + R256 - slo) % R256
  let carry := if zlo < slo then 1 else 0
  let t4 := (limb z 4 + W64 - carry) % W64
  let s4' := (t4 + W64 - s4) % W64
  if s4' > 0 ∨ r ≥ N then .ok ((r + R256 - N) % R256) else .ok r

/-- `mod_n_pow`: r = 1 (not Montgomery), 256 × (square, conditional multiply); a panic of `mod_n_mul` propagates -/
def mod_n_pow (a e : Nat) : Outcome Nat :=
  (bitsMSB e).foldl (fun r bit => r.bind fun r => (mod_n_mul r r).bind fun r =>
    if bit then mod_n_mul r a else .ok r) (.ok 1)

def mod_n_inv (a : Nat) : Outcome Nat := mod_n_pow a N_MINUS_TWO

/-- one round of the final correction of `mod_n_from_hash` on the 5-limb value `t5`:
`h = t5[0..4]; if t5[4] != 0 || h >= N−1 { (d, b) = h − (N−1); t5 = [d, t5[4].wrapping_sub(b)] }` -/
def from_hash_correct (t5 : Nat) : Nat :=
  let h := t5 % R256
  let t4 := t5 / R256 % W64
  if t4 ≠ 0 ∨ h ≥ N_MINUS_ONE then
    let b := if h < N_MINUS_ONE then 1 else 0
    let d := (h + R256 - N_MINUS_ONE) % R256
    d + R256 * ((t4 + W64 - b) % W64)
  else t5

/--
`mod_n_from_hash(ha)` (the current, fixed code): (Ha mod (N−1)) + 1 for the first 40 bytes of `ha`.

* `buf` = the first 40 bytes of `ha`, or `ha` left-padded with zeros to 40 bytes when it is shorter;
  `z[4-i] = getu64(&buf[8*i..])`, i = 0..5: z = `buf` as a big-endian 320-bit number.
* `z1 = [z[3], z[4], 0, 0]` = ⌊z / 2^192⌋; `r = u256_mul(z1, MU')` exact (MU' = N_MINUS_ONE_BARRETT_MU).
* `(r[4], r[5], r[6]) = (r[4], r[5]) + (z[3], z[4])` with carries (`overflowing_add`; `r[6] = carry2 + carry_t`,
  at most one of the two is set, so no overflow) — the old `r[6]` is overwritten.
* `r = u256_mul([r[5], r[6], 0, 0], N−1)` exact; `t5 = (z − r[0..5]) mod 2^320` by the borrow chain.
* two correction rounds, then `h = mod_n_add(t5[0..4], 1)`.
-/
def mod_n_from_hash (ha : List UInt8) : Outcome Nat :=
  -- `let mut buf = [0u8; 40]; if ha.len() >= 40 { buf = ha[..40] } else { buf[40 - ha.len()..] = ha }`
  -- (the fixed code: fewer than 40 bytes used to panic in `getu64`; they are now read as the integer they encode)
  let buf := if 40 ≤ ha.length then ha.take 40 else List.replicate (40 - ha.length) 0 ++ ha
  let z := beNat buf
  let z1 := z / 2 ^ 192
  let r := z1 * N_MINUS_ONE_BARRETT_MU
  let x := (r / R256 % 2 ^ 128) + z1          -- r[4] + r[5]·2^64 + z[3] + z[4]·2^64, three limbs r[4], r[5], r[6]
  let q := x / W64                             -- [r[5], r[6]]
  let r := q * N_MINUS_ONE
  let t5 := (z + 2 ^ 320 - r % 2 ^ 320) % 2 ^ 320
  let t5 := from_hash_correct (from_hash_correct t5)
  .ok (mod_n_add (t5 % R256) 1)

end GmVerif.Impl.SM9
