/-
Model of gm-sm9/src/points.rs and `sm9_u256_get_booth` / `u256_to_bits` of u256.rs:
G1 `Point` (Jacobian, Montgomery limbs), G2 `TwistPoint` (Jacobian over Fp2), `twist_point_add_full`, the R-ate pairing
`sm9_u256_pairing` with its three line-evaluation functions.

Panics mirrored here: `Point::from_bytes` (slice ranges), `sm9_u256_get_booth` (shift amount, checked u64/i32
arithmetic, `a[n]`), the table look-ups of `Point::point_mul` / `Point::g_mul` (`(booth - 1) as usize` out of range),
`hex::decode(..).unwrap()` / `read_u64().unwrap()` in the `from_hex` constructors.
-/
import GmVerif.Impl.SM9.Tower
import GmVerif.Gen.SM9Table
namespace GmVerif.Impl.SM9
open GmVerif
open GmVerif.Gen.SM9 (MODP_MONT_ONE MODP_MONT_FIVE P1_X P1_Y P1_Z P2_X0 P2_X1 P2_Y0 P2_Y1 P2_Z0 P2_Z1)

/-! ### `sm9_u256_get_booth` -/

/-- `x as i32` for an unsigned 64-bit `x`: keep the low 32 bits, two's complement -/
def toI32 (v : Nat) : Int :=
  let w : Nat := v % 2 ^ 32
  if w ≥ 2 ^ 31 then Int.ofNat w - 2 ^ 32 else Int.ofNat w

/-- `x - y` on `i32` with overflow-checks on -/
def i32_sub (x y : Int) : Outcome Int :=
  let d := x - y
  if d < -(2 ^ 31) ∨ d > 2 ^ 31 - 1 then .panic else .ok d

/--
`sm9_u256_get_booth(a, window_size, i)` for a 4-limb `a` (`a` is the U256 as a number), `window_size`, `i` : u64.

* `mask = (1 << window_size) - 1` on u64: a shift amount ≥ 64 panics (overflow-checks);
* `i == 0`: `(((a[0] << 1) & mask) as i32) - ((a[0] & mask) as i32)` (`<<` discards the top bit);
* otherwise `j = (i * window_size - 1) as usize` (checked `*` and `-`), `n = j / 64`, `j = j % 64`,
  `wbits = a[n] >> j` (`a[n]` panics for n ≥ 4), and
  `if (64 - j) < (window_size + 1) as usize && n < 3 { wbits |= a[n + 1] << (64 - j) }` (shift amount 64 would
  panic; it cannot occur since then `64 < window_size + 1`);
* result `((wbits & mask) as i32) - (((wbits >> 1) & mask) as i32)` with checked i32 subtraction.

NOTE `n < 3` (not `n < 4`-style bound on `n + 1`): for n = 3 the window is simply truncated at bit 255.
-/
def sm9_u256_get_booth (a ws i : Nat) : Outcome Int :=
  if ws ≥ 64 then .panic else
  let mask := 2 ^ ws - 1
  if i = 0 then
    i32_sub (toI32 ((limb a 0 * 2 % W64) &&& mask)) (toI32 (limb a 0 &&& mask))
  else if i * ws ≥ W64 then .panic
  else if i * ws = 0 then .panic
  else
    let j0 := i * ws - 1
    let n := j0 / 64
    let j := j0 % 64
    if n ≥ 4 then .panic else
    let wbits := limb a n >>> j
    if (64 - j) < ws + 1 ∧ n < 3 then
      if 64 - j ≥ 64 then .panic else
      let wbits := wbits ||| (limb a (n + 1) <<< (64 - j)) % W64
      i32_sub (toI32 (wbits &&& mask)) (toI32 ((wbits >>> 1) &&& mask))
    else
      i32_sub (toI32 (wbits &&& mask)) (toI32 ((wbits >>> 1) &&& mask))

/-- `(x) as usize` for an i32 value `x` (sign extension, i.e. the value modulo 2^64) -/
def asUsize (x : Int) : Nat := (x % (2 ^ 64 : Int)).toNat

/-! ### G1 -/

structure Point where
  (x y z : Nat)
deriving DecidableEq, Repr, Inhabited

/-- `SM9_POINT_MONT_P1` -/
def POINT_MONT_P1 : Point := ⟨P1_X, P1_Y, P1_Z⟩

namespace Point

/-- `Point::from_bytes(b)`: `&b[1..33]`, `&b[33..65]` panic for `b.len() < 65`; byte 0 and bytes after 65 are ignored;
no range or curve check -/
def from_bytes (b : List UInt8) : Outcome Point :=
  if b.length < 65 then .panic else
  let x := fp_to_mont (beNat ((b.drop 1).take 32))
  let y := fp_to_mont (beNat ((b.drop 33).take 32))
  .ok ⟨x, y, MODP_MONT_ONE⟩

def from_hex (xs ys : String) : Outcome Point := do
  let x ← fp_from_hex xs
  let y ← fp_from_hex ys
  pure ⟨x, y, MODP_MONT_ONE⟩

def zero : Point := ⟨MODP_MONT_ONE, MODP_MONT_ONE, 0⟩
def is_zero (p : Point) : Bool := fp_is_zero p.z

def to_affine_point (p : Point) : Point :=
  if u256_cmp p.z MODP_MONT_ONE = 0 then ⟨p.x, p.y, MODP_MONT_ONE⟩
  else
    let z_inv := fp_inv p.z
    let y := fp_mul p.y z_inv
    let z_inv := fp_sqr z_inv
    let x := fp_mul p.x z_inv
    let y := fp_mul y z_inv
    ⟨x, y, MODP_MONT_ONE⟩

/-- 0x04 ‖ x ‖ y of the affine point (for z = 0 this is 0x04 ‖ 0 ‖ 0: the inverse of 0 is computed as 0) -/
def to_bytes_be (p : Point) : List UInt8 :=
  let a := p.to_affine_point
  0x04 :: (fp_to_bytes_be a.x ++ fp_to_bytes_be a.y)

def is_on_curve (p : Point) : Bool :=
  if u256_cmp p.z MODP_MONT_ONE = 0 then
    let t0 := fp_sqr p.y
    let t1 := fp_sqr p.x
    let t1 := fp_mul t1 p.x
    let t1 := fp_add t1 MODP_MONT_FIVE
    u256_cmp t0 t1 = 0
  else
    let t0 := fp_sqr p.x
    let t0 := fp_mul t0 p.x
    let t1 := fp_sqr p.z
    let t2 := fp_sqr t1
    let t1 := fp_mul t1 t2
    let t1 := fp_mul t1 MODP_MONT_FIVE
    let t1 := fp_add t0 t1
    let t0 := fp_sqr p.y
    u256_cmp t0 t1 = 0

def point_equals (p rhs : Point) : Bool :=
  let t1 := fp_sqr p.z
  let t2 := fp_sqr rhs.z
  let t3 := fp_mul p.x t2
  let t4 := fp_mul rhs.x t1
  if u256_cmp t3 t4 ≠ 0 then false
  else
    let t1 := fp_mul t1 p.z
    let t2 := fp_mul t2 rhs.z
    let t3 := fp_mul p.y t2
    let t4 := fp_mul rhs.y t1
    u256_cmp t3 t4 = 0

def point_double (p : Point) : Point :=
  if p.is_zero then p
  else
    let x1 := p.x; let y1 := p.y; let z1 := p.z
    let t2 := fp_sqr x1
    let t2 := fp_triple t2
    let y3 := fp_double y1
    let z3 := fp_mul y3 z1
    let y3 := fp_sqr y3
    let t3 := fp_mul y3 x1
    let y3 := fp_sqr y3
    let y3 := fp_div2 y3
    let x3 := fp_sqr t2
    let t1 := fp_double t3
    let x3 := fp_sub x3 t1
    let t1 := fp_sub t3 x3
    let t1 := fp_mul t1 t2
    let y3 := fp_sub t1 y3
    ⟨x3, y3, z3⟩

def point_add (p rhs : Point) : Point :=
  if rhs.is_zero then p
  else if p.is_zero then rhs
  else
    let x1 := p.x; let y1 := p.y; let z1 := p.z
    let x2 := rhs.x; let y2 := rhs.y; let z2 := rhs.z
    let t1 := fp_sqr z1
    let t2 := fp_sqr z2
    let u1 := fp_mul x1 t2
    let u2 := fp_mul x2 t1
    let z3 := fp_add z1 z2
    let z3 := fp_sqr z3
    let z3 := fp_sub z3 t1
    let z3 := fp_sub z3 t2
    let t1 := fp_mul t1 z1
    let t2 := fp_mul t2 z2
    let s1 := fp_mul y1 t2
    let s2 := fp_mul y2 t1
    let h := fp_sub u2 u1
    let u2 := fp_sub s2 s1
    if h = 0 then (if u2 = 0 then rhs.point_double else Point.zero)
    else
      let z3 := fp_mul z3 h
      let i := fp_double h
      let i := fp_sqr i
      let h := fp_mul h i
      let i := fp_mul u1 i
      let u2 := fp_double u2
      let x3 := fp_sqr u2
      let x3 := fp_sub h x3
      let y3 := fp_triple i
      let x3 := fp_add y3 x3
      let y3 := fp_mul u2 x3
      let s1 := fp_mul s1 h
      let s1 := fp_double s1
      let y3 := fp_sub y3 s1
      let x3 := fp_sub i x3
      ⟨x3, y3, z3⟩

def point_neg (p : Point) : Point := ⟨p.x, fp_neg p.y, p.z⟩
def point_sub (p rhs : Point) : Point := p.point_add rhs.point_neg
def point_double_x5 (p : Point) : Point :=
  p.point_double.point_double.point_double.point_double.point_double

/-- the 16-entry `pre_table` of `point_mul`: entry i is (i+1)·P, built in the code's order -/
def preTable (p : Point) : Array Point :=
  let t1 := p
  let t2 := t1.point_double
  let t4 := t2.point_double
  let t8 := t4.point_double
  let t16 := t8.point_double
  let t3 := t2.point_add p
  let t6 := t3.point_double
  let t12 := t6.point_double
  let t5 := t3.point_add t2
  let t10 := t5.point_double
  let t7 := t4.point_add t3
  let t14 := t7.point_double
  let t9 := t4.point_add t5
  let t11 := t6.point_add t5
  let t13 := t7.point_add t6
  let t15 := t8.point_add t7
  #[t1, t2, t3, t4, t5, t6, t7, t8, t9, t10, t11, t12, t13, t14, t15, t16]

/-- `pre_table[idx]` on a `Vec`: out of range panics -/
def tableGet (t : Array Point) (idx : Nat) : Outcome Point :=
  match t[idx]? with
  | some p => .ok p
  | none => .panic

/-- `point_mul(self, k)` for a 4-limb `k`: 5-bit signed (Booth) windows from the top (i = 51 … 0).
State = (r, r_infinity).  While `r_infinity`, a non-zero digit loads `pre_table[(booth - 1) as usize]` — a negative
digit there would index out of range (panic); afterwards `r = 32·r`, then `± pre_table[|booth| - 1]`.
(`booth - 1`, `-booth - 1` on i32 cannot overflow: |booth| ≤ 2^5.) -/
def point_mul (p : Point) (k : Nat) : Outcome Point :=
  let pre := preTable p
  let window_size := 5
  let n := (256 + window_size - 1) / window_size
  let step (st : Outcome (Point × Bool)) (i : Nat) : Outcome (Point × Bool) :=
    st.bind fun (r, r_infinity) =>
    (sm9_u256_get_booth k window_size i).bind fun booth =>
      if r_infinity then
        if booth ≠ 0 then (tableGet pre (asUsize (booth - 1))).map fun q => (q, false)
        else .ok (r, true)
      else
        let r := r.point_double_x5
        if booth > 0 then (tableGet pre (asUsize (booth - 1))).map fun q => (r.point_add q, false)
        else if booth < 0 then (tableGet pre (asUsize (-booth - 1))).map fun q => (r.point_sub q, false)
        else .ok (r, false)
  ((List.range n).reverse.foldl step (.ok (Point.zero, true))).map fun (r, r_infinity) =>
    if r_infinity then Point.zero else r

def to_jacobi (p : Point) : Point := ⟨p.x, p.y, MODP_MONT_ONE⟩

end Point

/-- `SM9_P256_PRECOMPUTED`: 37 rows of 128 field elements = 64 affine points (x, y) each -/
def TABLE : Array (Array Nat) := (Gen.SM9Table.rows.map List.toArray).toArray

/-- `pre_com_points[i][idx]`: both indexings panic when out of range -/
def gTableGet (i idx : Nat) : Outcome Point :=
  match TABLE[i]? with
  | none => .panic
  | some row =>
    if idx < row.size / 2 then
      match row[idx * 2]?, row[idx * 2 + 1]? with
      | some x, some y => .ok ⟨x, y, MODP_MONT_ONE⟩
      | _, _ => .panic
    else .panic

/-- `Point::g_mul(k)`: 7-bit signed windows (i = 36 … 0) over the precomputed table, row i holding j·2^(7i)·P1,
no doublings -/
def Point.g_mul (k : Nat) : Outcome Point :=
  let window_size := 7
  let n := (256 + window_size - 1) / window_size
  let step (st : Outcome (Point × Bool)) (i : Nat) : Outcome (Point × Bool) :=
    st.bind fun (r, r_infinity) =>
    (sm9_u256_get_booth k window_size i).bind fun booth =>
      if r_infinity then
        if booth ≠ 0 then (gTableGet i (asUsize (booth - 1))).map fun q => (q, false)
        else .ok (r, true)
      else
        if booth > 0 then (gTableGet i (asUsize (booth - 1))).map fun q => (r.point_add q, false)
        else if booth < 0 then (gTableGet i (asUsize (-booth - 1))).map fun q => (r.point_sub q, false)
        else .ok (r, false)
  ((List.range n).reverse.foldl step (.ok (Point.zero, true))).map fun (r, _) => r

/-! ### G2 -/

structure TwistPoint where
  (x y z : Fp2)
deriving DecidableEq, Repr, Inhabited

/-- `SM9_TWIST_POINT_MONT_P2` (lib.rs) and `SM9_U256_MONT_G2` (points.rs) — the same literal limbs;
`Gen.SM9` dumps the former -/
def TWIST_POINT_MONT_P2 : TwistPoint := ⟨⟨P2_X0, P2_X1⟩, ⟨P2_Y0, P2_Y1⟩, ⟨P2_Z0, P2_Z1⟩⟩

/-- `u256_to_bits(k)`: the 256 bits, most significant first -/
def u256_to_bits (k : Nat) : List Bool := NatField.bitsMSB k

namespace TwistPoint

/-- `TwistPoint::from_hex(x_data, y_data)` -/
def from_hex (x0 x1 y0 y1 : String) : Outcome TwistPoint := do
  let x ← Fp2.from_hex x0 x1
  let y ← Fp2.from_hex y0 y1
  pure ⟨x, y, Fp2.one⟩

def zero : TwistPoint := ⟨Fp2.one, Fp2.one, Fp2.zero⟩

/-- `point_pi1`: function-local constant copied verbatim
`c = [0x1a98dfbd4575299f, 0x9ec8547b245c54fd, 0xf51f5eac13df846c, 0x9ef74015d5a16393]` -/
def pi1_c : Nat :=
  0x1a98dfbd4575299f + 0x9ec8547b245c54fd * 2 ^ 64 + 0xf51f5eac13df846c * 2 ^ 128 + 0x9ef74015d5a16393 * 2 ^ 192

def point_pi1 (q : TwistPoint) : TwistPoint :=
  let x := q.x.conjugate
  let y := q.y.conjugate
  let z := q.z.conjugate
  let z := z.fp_mul_fp pi1_c
  ⟨x, y, z⟩

/-- `point_neg_pi2`: function-local constant copied verbatim
`c = [0xb626197dce4736ca, 0x8296b3557ed0186, 0x9c705db2fd91512a, 0x1c753e748601c992]` -/
def neg_pi2_c : Nat :=
  0xb626197dce4736ca + 0x8296b3557ed0186 * 2 ^ 64 + 0x9c705db2fd91512a * 2 ^ 128 + 0x1c753e748601c992 * 2 ^ 192

def point_neg_pi2 (q : TwistPoint) : TwistPoint :=
  let x := q.x
  let y := q.y.fp_neg
  let z := q.z.fp_mul_fp neg_pi2_c
  ⟨x, y, z⟩

/-- `point_equals`: NOTE the first test returns `true` as soon as the x-coordinates agree (the G1 version returns
`false` when they differ); P and −P therefore compare equal. -/
def point_equals (p rhs : TwistPoint) : Bool :=
  let t1 := p.z.fp_sqr
  let t2 := rhs.z.fp_sqr
  let t3 := p.x.fp_mul t2
  let t4 := rhs.x.fp_mul t1
  if t3.eq t4 then true
  else
    let t1 := t1.fp_mul p.z
    let t2 := t2.fp_mul rhs.z
    let t3 := p.y.fp_mul t2
    let t4 := rhs.y.fp_mul t1
    t3.eq t4

def point_double (p : TwistPoint) : TwistPoint :=
  if p.z.is_zero then p
  else
    let x1 := p.x; let y1 := p.y; let z1 := p.z
    let t2 := x1.fp_sqr.fp_triple
    let y3 := y1.fp_double
    let z3 := y3.fp_mul z1
    let y3 := y3.fp_sqr
    let t3 := y3.fp_mul x1
    let y3 := y3.fp_sqr
    let y3 := y3.fp_div2
    let x3 := t2.fp_sqr
    let t1 := t3.fp_double
    let x3 := x3.fp_sub t1
    let t1 := t3.fp_sub x3
    let t1 := t1.fp_mul t2
    let y3 := t1.fp_sub y3
    ⟨x3, y3, z3⟩

def point_neg (p : TwistPoint) : TwistPoint := ⟨p.x, p.y.fp_neg, p.z⟩

end TwistPoint

/-- `twist_point_add_full(p1, p2)`: general Jacobian addition -/
def twist_point_add_full (p1 p2 : TwistPoint) : TwistPoint :=
  let x1 := p1.x; let y1 := p1.y; let z1 := p1.z
  let x2 := p2.x; let y2 := p2.y; let z2 := p2.z
  if z1.is_zero then p2
  else if z2.is_zero then p1
  else
    let t1 := z1.fp_sqr
    let t2 := z2.fp_sqr
    let t3 := x2.fp_mul t1
    let t4 := x1.fp_mul t2
    let t5 := t3.fp_add t4
    let t3 := t3.fp_sub t4
    let t1 := t1.fp_mul z1
    let t1 := t1.fp_mul y2
    let t2 := t2.fp_mul z2
    let t2 := t2.fp_mul y1
    let t6 := t1.fp_add t2
    let t1 := t1.fp_sub t2
    if t1.is_zero && t3.is_zero then p1.point_double
    else if t1.is_zero && t6.is_zero then TwistPoint.zero
    else
      let t6 := t1.fp_sqr
      let t7 := t3.fp_mul z1
      let t7 := t7.fp_mul z2
      let t8 := t3.fp_sqr
      let t5 := t5.fp_mul t8
      let t3 := t3.fp_mul t8
      let t4 := t4.fp_mul t8
      let t6 := t6.fp_sub t5
      let t4 := t4.fp_sub t6
      let t1 := t1.fp_mul t4
      let t2 := t2.fp_mul t3
      let t1 := t1.fp_sub t2
      ⟨t6, t1, t7⟩

namespace TwistPoint

/-- `point_add`: mixed addition when `rhs.z == Fp2::one()`, otherwise `twist_point_add_full` -/
def point_add (p rhs : TwistPoint) : TwistPoint :=
  let x1 := p.x; let y1 := p.y; let z1 := p.z
  let x2 := rhs.x; let y2 := rhs.y; let z2 := rhs.z
  if z1.is_zero then rhs
  else if z2.is_zero then p
  else if !(z2.eq Fp2.one) then twist_point_add_full p rhs
  else
    let t1 := z1.fp_sqr
    let t2 := t1.fp_mul z1
    let t1 := t1.fp_mul x2
    let t2 := t2.fp_mul y2
    let t1 := t1.fp_sub x1
    let t2 := t2.fp_sub y1
    if t1.is_zero then (if t2.is_zero then rhs.point_double else TwistPoint.zero)
    else
      let z3 := z1.fp_mul t1
      let t3 := t1.fp_sqr
      let t4 := t3.fp_mul t1
      let t3 := t3.fp_mul x1
      let t1 := t3.fp_double
      let x3 := t2.fp_sqr
      let x3 := x3.fp_sub t1
      let x3 := x3.fp_sub t4
      let t3 := t3.fp_sub x3
      let t3 := t3.fp_mul t2
      let t4 := t4.fp_mul y1
      let y3 := t3.fp_sub t4
      ⟨x3, y3, z3⟩

def point_sub (p rhs : TwistPoint) : TwistPoint := twist_point_add_full p rhs.point_neg

/-- `point_mul`: plain double-and-add over the 256 bits from the top, starting at `zero()` -/
def point_mul (p : TwistPoint) (k : Nat) : TwistPoint :=
  (u256_to_bits k).foldl (fun r bit =>
    let r := r.point_double
    if bit then twist_point_add_full r p else r) TwistPoint.zero

def g_mul (k : Nat) : TwistPoint := TWIST_POINT_MONT_P2.point_mul k

end TwistPoint

/-! ### pairing -/

/-- `pre: [Fp2; 5]` -/
structure Pre where
  (p0 p1 p2 p3 p4 : Fp2)
deriving Repr, Inhabited

/-- `sm9_u256_eval_g_tangent(lw, p, q)`: doubles `p`, writes the line through it evaluated at `q` into `lw` -/
def sm9_u256_eval_g_tangent (p : TwistPoint) (q : Point) : TwistPoint × Line :=
  let x := p.x; let y := p.y; let z := p.z
  let t1 := z.fp_sqr
  let a := x.fp_sqr
  let b := y.fp_sqr
  let c := b.fp_sqr
  let d := x.fp_add b
  let d := d.fp_sqr
  let d := d.fp_sub a
  let d := d.fp_sub c
  let d := d.fp_double
  let z3 := y.fp_add z
  let z3 := z3.fp_sqr
  let z3 := z3.fp_sub b
  let z3 := z3.fp_sub t1
  let lw0 := b.fp_double
  let lw0 := lw0.fp_double
  let lw0 := lw0.fp_add a
  let a := a.fp_triple
  let b := a.fp_sqr
  let x3 := d.fp_double
  let x3 := b.fp_sub x3
  let lw0 := lw0.fp_add b
  let y3 := d.fp_sub x3
  let y3 := y3.fp_mul a
  let c := c.fp_double.fp_double.fp_double
  let y3 := y3.fp_sub c
  let lw2 := z3.fp_mul t1
  let lw2 := lw2.fp_double
  let lw1 := a.fp_mul t1
  let lw1 := lw1.fp_double
  let lw1 := lw1.fp_neg
  let a := x.fp_add a
  let a := a.fp_sqr
  let lw0 := a.fp_sub lw0
  let lw1 := lw1.fp_mul_fp q.x
  let lw2 := lw2.fp_mul_fp q.y
  (⟨x3, y3, z3⟩, ⟨lw0, lw1, lw2⟩)

/-- `sm9_u256_eval_g_line(lw, pre, p, t, q)`: adds `t` to `p` (no special cases), line into `lw`; `q` is unused
(its contribution is in `pre`) -/
def sm9_u256_eval_g_line (pre : Pre) (p t : TwistPoint) (_q : Point) : TwistPoint × Line :=
  let x1 := p.x; let y1 := p.y; let z1 := p.z
  let x2 := t.x; let y2 := t.y; let z2 := t.z
  let t1 := z1.fp_sqr
  let t2 := z2.fp_sqr
  let z3 := z1.fp_add z2
  let z3 := z3.fp_sqr
  let z3 := z3.fp_sub t1
  let z3 := z3.fp_sub t2
  let a := x1.fp_mul t2
  let b := x2.fp_mul t1
  let c := y1.fp_mul pre.p1
  let c := c.fp_double
  let d := y2.fp_add z1
  let d := d.fp_sqr
  let d := d.fp_sub pre.p0
  let d := d.fp_sub t1
  let d := d.fp_mul t1
  let b := b.fp_sub a
  let z3 := z3.fp_mul b
  let t1 := b.fp_double
  let t1 := t1.fp_sqr
  let x3 := b.fp_mul t1
  let y3 := c.fp_mul x3
  let a := a.fp_mul t1
  let b := d.fp_sub c
  let t2 := a.fp_double
  let x3 := x3.fp_add t2
  let t2 := b.fp_sqr
  let x3 := t2.fp_sub x3
  let t2 := a.fp_sub x3
  let t2 := t2.fp_mul b
  let y3 := t2.fp_sub y3
  let lw2 := z3.fp_mul pre.p2
  let lw1 := b.fp_mul pre.p3
  let b := b.fp_mul pre.p4
  let lw0 := y2.fp_mul z3
  let lw0 := lw0.fp_double
  let lw0 := b.fp_sub lw0
  (⟨x3, y3, z3⟩, ⟨lw0, lw1, lw2⟩)

/-- the `pre` block computed at the top of `sm9_u256_eval_g_line_no_pre` from `t` and `q` -/
def line_pre (t : TwistPoint) (q : Point) : Pre :=
  let pre0 := t.y.fp_sqr
  let pre4 := t.x.fp_mul t.z
  let pre4 := pre4.fp_double
  let pre1 := t.z.fp_sqr
  let pre1 := pre1.fp_mul t.z
  let pre2 := pre1.fp_mul_fp q.y
  let pre2 := pre2.fp_double
  let pre3 := pre1.fp_mul_fp q.x
  let pre3 := pre3.fp_double
  let pre3 := pre3.fp_neg
  ⟨pre0, pre1, pre2, pre3, pre4⟩

/-- `sm9_u256_eval_g_line_no_pre(lw, p, t, q)`: computes its own `pre`, then the same body as `sm9_u256_eval_g_line` -/
def sm9_u256_eval_g_line_no_pre (p t : TwistPoint) (q : Point) : TwistPoint × Line :=
  sm9_u256_eval_g_line (line_pre t q) p t q

/-- the loop string of `sm9_u256_pairing`, copied verbatim -/
def abits : String := "00100000000000000000000000000000000000010000101100020200101000020"

/-- `sm9_u256_pairing(q, p)` -/
def sm9_u256_pairing (q : TwistPoint) (p : Point) : Fp12 :=
  -- `if q.z.is_zero() || p.is_zero() { return Fp12::one(); }` (e(P, O) = e(O, Q) = 1)
  if q.z.is_zero || p.is_zero then Fp12.one else
  let t : TwistPoint := ⟨q.x, q.y, q.z⟩
  let p_affine := p.to_affine_point
  let q1 := q.point_neg
  -- `pre` (note `pre[1] = q.z.fp_mul(&pre[1])`: operands in the other order than in `line_pre`)
  let pre0 := q.y.fp_sqr
  let pre4 := q.x.fp_mul q.z
  let pre4 := pre4.fp_double
  let pre1 := q.z.fp_sqr
  let pre1 := q.z.fp_mul pre1
  let pre2 := pre1.fp_mul_fp p_affine.y
  let pre2 := pre2.fp_double
  let pre3 := pre1.fp_mul_fp p_affine.x
  let pre3 := pre3.fp_double
  let pre3 := pre3.fp_neg
  let pre : Pre := ⟨pre0, pre1, pre2, pre3, pre4⟩
  let (r, t) := abits.toList.foldl (fun (st : Fp12 × TwistPoint) ch =>
    let (r, t) := st
    let r := r.fp_sqr
    let (t, lw) := sm9_u256_eval_g_tangent t p_affine
    let r := r.fp_line_mul lw
    if ch = '1' then
      let (t, lw) := sm9_u256_eval_g_line pre t q p_affine
      (r.fp_line_mul lw, t)
    else if ch = '2' then
      let (t, lw) := sm9_u256_eval_g_line pre t q1 p_affine
      (r.fp_line_mul lw, t)
    else (r, t)) (Fp12.one, t)
  let q1 := q.point_pi1
  let q2 := q.point_neg_pi2
  let (t, lw) := sm9_u256_eval_g_line_no_pre t q1 p_affine
  let r := r.fp_line_mul lw
  let (_, lw) := sm9_u256_eval_g_line_no_pre t q2 p_affine
  let r := r.fp_line_mul lw
  r.final_exponent

end GmVerif.Impl.SM9
