/-
Model of gm-sm9/src/fields/fp2.rs, fp4.rs, fp12.rs, method by method, in the order of operations of the code.
Fp2 = Fp[u]/(u² + 2), Fp4 = Fp2[v]/(v² − u), Fp12 = Fp4[w]/(w³ − v); all coefficients in Montgomery form.
The only panic in these files is the `assert!` at the top of `Fp12::pow`.
-/
import GmVerif.Impl.SM9.Field
namespace GmVerif.Impl.SM9
open GmVerif
open GmVerif.Gen.SM9 (MODP_MONT_ONE N_MINUS_ONE MONT_ALPHA1 MONT_ALPHA2 MONT_ALPHA3 MONT_ALPHA4 MONT_ALPHA5
  MONT_BETA_C0 MONT_BETA_C1)

/-! ### fp2.rs -/

structure Fp2 where
  (c0 c1 : Nat)
deriving DecidableEq, Repr, Inhabited

namespace Fp2
def zero : Fp2 := ⟨0, 0⟩
def one : Fp2 := ⟨MODP_MONT_ONE, 0⟩
def is_zero (a : Fp2) : Bool := fp_is_zero a.c0 && fp_is_zero a.c1
/-- `PartialEq::eq` -/
def eq (a b : Fp2) : Bool := a.c0 == b.c0 && a.c1 == b.c1

def fp_mul_fp (a : Fp2) (k : Nat) : Fp2 := ⟨SM9.fp_mul a.c0 k, SM9.fp_mul a.c1 k⟩

def fp_sqr (a : Fp2) : Fp2 :=
  let r1 := SM9.fp_mul a.c0 a.c1
  -- r0 = (a0 + a1) * (a0 - 2a1) + a0 * a1
  let t0 := SM9.fp_add a.c0 a.c1
  let t1 := SM9.fp_double a.c1
  let t1 := SM9.fp_sub a.c0 t1
  let r0 := SM9.fp_mul t0 t1
  let r0 := SM9.fp_add r0 r1
  let r1 := SM9.fp_double r1
  ⟨r0, r1⟩

def fp_double (a : Fp2) : Fp2 := ⟨SM9.fp_double a.c0, SM9.fp_double a.c1⟩
def fp_triple (a : Fp2) : Fp2 := ⟨SM9.fp_triple a.c0, SM9.fp_triple a.c1⟩
def fp_add (a b : Fp2) : Fp2 := ⟨SM9.fp_add a.c0 b.c0, SM9.fp_add a.c1 b.c1⟩
def fp_sub (a b : Fp2) : Fp2 := ⟨SM9.fp_sub a.c0 b.c0, SM9.fp_sub a.c1 b.c1⟩

def fp_mul (a b : Fp2) : Fp2 :=
  let r0 := SM9.fp_add a.c0 a.c1
  let t := SM9.fp_add b.c0 b.c1
  let r1 := SM9.fp_mul t r0
  -- r0 = a0 * b0 - 2 * a1 * b1
  let r0 := SM9.fp_mul a.c0 b.c0
  let t := SM9.fp_mul a.c1 b.c1
  -- r1 = (a0 + a1) * (b0 + b1) - a0 * b0 - a1 * b1
  let r1 := SM9.fp_sub r1 r0
  let r1 := SM9.fp_sub r1 t
  let t := SM9.fp_double t
  let r0 := SM9.fp_sub r0 t
  ⟨r0, r1⟩

def fp_neg (a : Fp2) : Fp2 := ⟨SM9.fp_neg a.c0, SM9.fp_neg a.c1⟩
def fp_div2 (a : Fp2) : Fp2 := ⟨SM9.fp_div2 a.c0, SM9.fp_div2 a.c1⟩

/-- `fp_inv` with its three branches (c0 = 0, c1 = 0, general); the first test wins when both are zero -/
def fp_inv (a : Fp2) : Fp2 :=
  if fp_is_zero a.c0 then
    -- r0 = 0, r1 = -(2 * a1)^-1
    let r1 := SM9.fp_double a.c1
    let r1 := SM9.fp_inv r1
    let r1 := SM9.fp_neg r1
    ⟨0, r1⟩
  else if fp_is_zero a.c1 then
    -- r1 = 0, r0 = a0^-1
    ⟨SM9.fp_inv a.c0, 0⟩
  else
    -- k = (a0^2 + 2 * a1^2)^-1
    let k := SM9.fp_sqr a.c0
    let t := SM9.fp_sqr a.c1
    let t := SM9.fp_double t
    let k := SM9.fp_add k t
    let k := SM9.fp_inv k
    let r0 := SM9.fp_mul a.c0 k
    let r1 := SM9.fp_mul a.c1 k
    let r1 := SM9.fp_neg r1
    ⟨r0, r1⟩

/-- c1 first, then c0 -/
def to_bytes_be (a : Fp2) : List UInt8 := fp_to_bytes_be a.c1 ++ fp_to_bytes_be a.c0

def div (a b : Fp2) : Fp2 := a.fp_mul b.fp_inv

def conjugate (a : Fp2) : Fp2 := ⟨a.c0, SM9.fp_neg a.c1⟩

/-- a · u = (−2·a1, a0) -/
def a_mul_u (a : Fp2) : Fp2 :=
  let r0 := SM9.fp_double a.c1
  let r0 := SM9.fp_neg r0
  ⟨r0, a.c0⟩

/-- a · b · u -/
def fp_mul_u (a b : Fp2) : Fp2 :=
  -- t2 = (a0 + a1) * (b0 + b1)
  let t0 := SM9.fp_add a.c0 a.c1
  let t1 := SM9.fp_add b.c0 b.c1
  let t2 := SM9.fp_mul t0 t1
  let t0 := SM9.fp_mul a.c0 b.c0
  let t1 := SM9.fp_mul a.c1 b.c1
  -- r0 = -2 * (t2 - t0 - t1)
  let t2 := SM9.fp_sub t2 t0
  let t2 := SM9.fp_sub t2 t1
  let t2 := SM9.fp_double t2
  let t2 := SM9.fp_neg t2
  -- r1 = t0 - 2 * t1
  let t0 := SM9.fp_sub t0 (SM9.fp_double t1)
  ⟨t2, t0⟩

/-- a² · u -/
def sqr_u (a : Fp2) : Fp2 :=
  -- r0 = -4 * a0 * a1
  let r0 := SM9.fp_mul a.c0 a.c1
  let r0 := SM9.fp_double r0
  let r0 := SM9.fp_double r0
  let r0 := SM9.fp_neg r0
  -- r1 = a0^2 - 2 * a1^2
  let r1 := SM9.fp_sqr a.c0
  let t := SM9.fp_sqr a.c1
  let t := SM9.fp_double t
  let r1 := SM9.fp_sub r1 t
  ⟨r0, r1⟩
/-- `Fp2::from_hex([c0, c1])` -/
def from_hex (h0 h1 : String) : Outcome Fp2 := do
  let c0 ← SM9.fp_from_hex h0
  let c1 ← SM9.fp_from_hex h1
  pure ⟨c0, c1⟩
end Fp2

/-- `SM9_MONT_BETA` -/
def MONT_BETA : Fp2 := ⟨MONT_BETA_C0, MONT_BETA_C1⟩

/-! ### fp4.rs -/

structure Fp4 where
  (c0 c1 : Fp2)
deriving DecidableEq, Repr, Inhabited

namespace Fp4
def zero : Fp4 := ⟨Fp2.zero, Fp2.zero⟩
def one : Fp4 := ⟨Fp2.one, Fp2.zero⟩
/-- `Fp4::mont_one()` (a literal in the code; equal to `one`) -/
def mont_one : Fp4 := ⟨⟨MODP_MONT_ONE, 0⟩, Fp2.zero⟩
def is_zero (a : Fp4) : Bool := a.c0.is_zero && a.c1.is_zero
def eq (a b : Fp4) : Bool := a.c0.eq b.c0 && a.c1.eq b.c1

def fp_mul_fp (a : Fp4) (k : Nat) : Fp4 := ⟨a.c0.fp_mul_fp k, a.c1.fp_mul_fp k⟩
def fp_mul_fp2 (a : Fp4) (k : Fp2) : Fp4 := ⟨a.c0.fp_mul k, a.c1.fp_mul k⟩

def fp_sqr (a : Fp4) : Fp4 :=
  let r1 := a.c0.fp_add a.c1
  let r1 := r1.fp_sqr
  let r0 := a.c0.fp_sqr
  let t := a.c1.fp_sqr
  let r1 := r1.fp_sub r0
  let r1 := r1.fp_sub t
  let t := t.a_mul_u
  let r0 := r0.fp_add t
  ⟨r0, r1⟩

def fp_double (a : Fp4) : Fp4 := ⟨a.c0.fp_double, a.c1.fp_double⟩
def fp_triple (a : Fp4) : Fp4 := ⟨a.c0.fp_triple, a.c1.fp_triple⟩
def fp_add (a b : Fp4) : Fp4 := ⟨a.c0.fp_add b.c0, a.c1.fp_add b.c1⟩
def fp_sub (a b : Fp4) : Fp4 := ⟨a.c0.fp_sub b.c0, a.c1.fp_sub b.c1⟩

def fp_mul (a b : Fp4) : Fp4 :=
  let r0 := a.c0.fp_add a.c1
  let t := b.c0.fp_add b.c1
  let r1 := t.fp_mul r0
  let r0 := a.c0.fp_mul b.c0
  let t := a.c1.fp_mul b.c1
  let r1 := r1.fp_sub r0
  let r1 := r1.fp_sub t
  let t := t.a_mul_u
  let r0 := r0.fp_add t
  ⟨r0, r1⟩

def fp_neg (a : Fp4) : Fp4 := ⟨a.c0.fp_neg, a.c1.fp_neg⟩
def fp_div2 (a : Fp4) : Fp4 := ⟨a.c0.fp_div2, a.c1.fp_div2⟩

def fp_inv (a : Fp4) : Fp4 :=
  let k := a.c1.sqr_u
  let r0 := a.c0.fp_sqr
  let k := k.fp_sub r0
  let k := k.fp_inv
  let r0 := a.c0.fp_mul k
  let r0 := r0.fp_neg
  let r1 := a.c1.fp_mul k
  ⟨r0, r1⟩

/-- c1 first, then c0 -/
def to_bytes_be (a : Fp4) : List UInt8 := a.c1.to_bytes_be ++ a.c0.to_bytes_be

/-- a · b · v -/
def fp_mul_v (a b : Fp4) : Fp4 :=
  let r0 := a.c0.fp_mul_u b.c1
  let t := a.c1.fp_mul_u b.c0
  let r0 := r0.fp_add t
  let r1 := a.c0.fp_mul b.c0
  let t := a.c1.fp_mul_u b.c1
  let r1 := r1.fp_add t
  ⟨r0, r1⟩

/-- a · v = (a1·u, a0) -/
def a_mul_v (a : Fp4) : Fp4 := ⟨a.c1.a_mul_u, a.c0⟩

def conjugate (a : Fp4) : Fp4 := ⟨a.c0, a.c1.fp_neg⟩

/-- a² · v -/
def sqr_v (a : Fp4) : Fp4 :=
  let t := a.c0.fp_mul_u a.c1
  let r0 := t.fp_double
  let r1 := a.c0.fp_sqr
  let t := a.c1.sqr_u
  let r1 := r1.fp_add t
  ⟨r0, r1⟩
end Fp4

/-! ### fp12.rs -/

structure Fp12 where
  (c0 c1 c2 : Fp4)
deriving DecidableEq, Repr, Inhabited

/-- `[Fp2; 3]`: the sparse line value -/
structure Line where
  (l0 l1 l2 : Fp2)
deriving DecidableEq, Repr, Inhabited

namespace Fp12
def zero : Fp12 := ⟨Fp4.zero, Fp4.zero, Fp4.zero⟩
def one : Fp12 := ⟨Fp4.one, Fp4.zero, Fp4.zero⟩
def is_zero (a : Fp12) : Bool := a.c0.is_zero && a.c1.is_zero && a.c2.is_zero
def eq (a b : Fp12) : Bool := a.c0.eq b.c0 && a.c1.eq b.c1 && a.c2.eq b.c2

/-- `fp_line_mul(self, lw)`: multiplication by the sparse element built from `lw` -/
def fp_line_mul (a : Fp12) (lw : Line) : Fp12 :=
  let lw4 : Fp4 := ⟨lw.l0, lw.l2⟩
  let r0 := a.c0.fp_mul lw4
  let r1 := a.c1.fp_mul lw4
  let r2 := a.c2.fp_mul lw4
  let t := a.c0.c0.fp_mul lw.l1
  let r2 : Fp4 := ⟨r2.c0.fp_add t, r2.c1⟩
  let t := a.c0.c1.fp_mul lw.l1
  let r2 : Fp4 := ⟨r2.c0, r2.c1.fp_add t⟩
  let t := a.c1.c0.fp_mul lw.l1
  let r0 : Fp4 := ⟨r0.c0, r0.c1.fp_add t⟩
  let t := a.c1.c1.fp_mul_u lw.l1
  let r0 : Fp4 := ⟨r0.c0.fp_add t, r0.c1⟩
  let t := a.c2.c0.fp_mul lw.l1
  let r1 : Fp4 := ⟨r1.c0, r1.c1.fp_add t⟩
  let t := a.c2.c1.fp_mul_u lw.l1
  let r1 : Fp4 := ⟨r1.c0.fp_add t, r1.c1⟩
  ⟨r0, r1, r2⟩

def fp12_frobenius6 (x : Fp12) : Fp12 :=
  let a := x.c0.conjugate
  let b := x.c1.conjugate
  let b := b.fp_neg
  let c := x.c2.conjugate
  ⟨a, b, c⟩

def fp12_frobenius2 (x : Fp12) : Fp12 :=
  let a := x.c0.conjugate
  let b := x.c1.conjugate
  let b := b.fp_mul_fp MONT_ALPHA2
  let c := x.c2.conjugate
  let c := c.fp_mul_fp MONT_ALPHA4
  ⟨a, b, c⟩

def fp12_frobenius (x : Fp12) : Fp12 :=
  let a := x.c0; let b := x.c1; let c := x.c2
  let ra0 := a.c0.conjugate
  let ra1 := a.c1.conjugate
  let ra1 := ra1.fp_mul_fp MONT_ALPHA3
  let rb0 := b.c0.conjugate
  let rb0 := rb0.fp_mul_fp MONT_ALPHA1
  let rb1 := b.c1.conjugate
  let rb1 := rb1.fp_mul_fp MONT_ALPHA4
  let rc0 := c.c0.conjugate
  let rc0 := rc0.fp_mul_fp MONT_ALPHA2
  let rc1 := c.c1.conjugate
  let rc1 := rc1.fp_mul_fp MONT_ALPHA5
  ⟨⟨ra0, ra1⟩, ⟨rb0, rb1⟩, ⟨rc0, rc1⟩⟩

def fp12_frobenius3 (x : Fp12) : Fp12 :=
  let a := x.c0; let b := x.c1; let c := x.c2
  let ra0 := a.c0.conjugate
  let ra1 := a.c1.conjugate
  let ra1 := ra1.fp_mul MONT_BETA
  let ra1 := ra1.fp_neg
  let rb0 := b.c0.conjugate
  let rb0 := rb0.fp_mul MONT_BETA
  let rb1 := b.c1.conjugate
  let rc0 := c.c0.conjugate
  let rc0 := rc0.fp_neg
  let rc1 := c.c1.conjugate
  let rc1 := rc1.fp_mul MONT_BETA
  ⟨⟨ra0, ra1⟩, ⟨rb0, rb1⟩, ⟨rc0, rc1⟩⟩

def fp_sqr (a : Fp12) : Fp12 :=
  let r0 := a.c0.fp_sqr
  let r1 := a.c2.fp_sqr
  let s0 := a.c2.fp_add a.c0
  let t := s0.fp_sub a.c1
  let s1 := t.fp_sqr
  let t := s0.fp_add a.c1
  let s0 := t.fp_sqr
  let s2 := a.c1.fp_mul a.c2
  let s2 := s2.fp_double
  let s3 := s0.fp_add s1
  let s3 := s3.fp_div2
  let t := s3.fp_sub r1
  let r2 := t.fp_sub r0
  let r1 := r1.a_mul_v
  let r1 := r1.fp_add s0
  let r1 := r1.fp_sub s2
  let r1 := r1.fp_sub s3
  let s2 := s2.a_mul_v
  let r0 := r0.fp_add s2
  ⟨r0, r1, r2⟩

def fp_double (a : Fp12) : Fp12 := ⟨a.c0.fp_double, a.c1.fp_double, a.c2.fp_double⟩
def fp_add (a b : Fp12) : Fp12 := ⟨a.c0.fp_add b.c0, a.c1.fp_add b.c1, a.c2.fp_add b.c2⟩
def fp_sub (a b : Fp12) : Fp12 := ⟨a.c0.fp_sub b.c0, a.c1.fp_sub b.c1, a.c2.fp_sub b.c2⟩
/-- `let t = self.fp_double(); t.fp_add(self)` -/
def fp_triple (a : Fp12) : Fp12 := a.fp_double.fp_add a

def fp_mul (a b : Fp12) : Fp12 :=
  let m0 := a.c0.fp_mul b.c0
  let m1 := a.c1.fp_mul b.c1
  let m2 := a.c2.fp_mul b.c2
  let k0 := a.c1.fp_add a.c2
  let k1 := b.c1.fp_add b.c2
  let t := k0.fp_mul k1
  let t := t.fp_sub m1
  let t := t.fp_sub m2
  let t := t.a_mul_v
  let r0 := t.fp_add m0
  let k0 := a.c0.fp_add a.c2
  let k1 := b.c0.fp_add b.c2
  let t := k0.fp_mul k1
  let t := t.fp_sub m0
  let t := t.fp_sub m2
  let r2 := t.fp_add m1
  let k0 := a.c0.fp_add a.c1
  let k1 := b.c0.fp_add b.c1
  let t := k0.fp_mul k1
  let t := t.fp_sub m0
  let t := t.fp_sub m1
  let m2 := m2.a_mul_v
  let r1 := t.fp_add m2
  ⟨r0, r1, r2⟩

def fp_neg (a : Fp12) : Fp12 := ⟨a.c0.fp_neg, a.c1.fp_neg, a.c2.fp_neg⟩
def fp_div2 (a : Fp12) : Fp12 := ⟨a.c0.fp_div2, a.c1.fp_div2, a.c2.fp_div2⟩

/-- `fp_inv` with its two branches (c2 = 0 or not) -/
def fp_inv (a : Fp12) : Fp12 :=
  if a.c2.is_zero then
    let k := a.c0.fp_sqr
    let k := k.fp_mul a.c0
    let t := a.c1.sqr_v
    let t := t.fp_mul a.c1
    let k := k.fp_add t
    let k := k.fp_inv
    let r2 := a.c1.fp_sqr
    let r2 := r2.fp_mul k
    let r1 := a.c0.fp_mul a.c1
    let r1 := r1.fp_mul k
    let r1 := r1.fp_neg
    let r0 := a.c0.fp_sqr
    let r0 := r0.fp_mul k
    ⟨r0, r1, r2⟩
  else
    let t0 := a.c1.fp_sqr
    let t1 := a.c0.fp_mul a.c2
    let t0 := t0.fp_sub t1
    let t1 := a.c0.fp_mul a.c1
    let t2 := a.c2.sqr_v
    let t1 := t1.fp_sub t2
    let t2 := a.c0.fp_sqr
    let t3 := a.c1.fp_mul_v a.c2
    let t2 := t2.fp_sub t3
    let t3 := t1.fp_sqr
    let r0 := t0.fp_mul t2
    let t3 := t3.fp_sub r0
    let t3 := t3.fp_inv
    let t3 := a.c2.fp_mul t3
    let r0 := t2.fp_mul t3
    let r1 := t1.fp_mul t3
    let r1 := r1.fp_neg
    let r2 := t0.fp_mul t3
    ⟨r0, r1, r2⟩

/-- c2, c1, c0: 384 bytes -/
def to_bytes_be (a : Fp12) : List UInt8 := a.c2.to_bytes_be ++ a.c1.to_bytes_be ++ a.c0.to_bytes_be

/-- the loop of `pow` (after its `assert!`): t = (mont_one, 0, 0); 256 × (square; multiply when the bit is set) -/
def pow_loop (a : Fp12) (e : Nat) : Fp12 :=
  (NatField.bitsMSB e).foldl (fun t bit => let t := t.fp_sqr; if bit then t.fp_mul a else t)
    ⟨Fp4.mont_one, Fp4.zero, Fp4.zero⟩

/-- `pow(self, e)`: `assert!(u256_cmp(e, &SM9_N_MINUS_ONE) <= 0)` panics for e > N − 1 -/
def pow (a : Fp12) (e : Nat) : Outcome Fp12 :=
  if u256_cmp e N_MINUS_ONE ≤ 0 then .ok (a.pow_loop e) else .panic

/-- function-local constants of `final_exponent_hard_part`, copied verbatim:
`a2 = [0x0000b98b0cb27659, 0xd8000000019062ed, 0, 0]`, `a3 = [0x400000000215d941, 0x2, 0, 0]`, `nine = [9, 0, 0, 0]` -/
def hard_a2 : Nat := 0x0000b98b0cb27659 + 0xd8000000019062ed * 2 ^ 64
def hard_a3 : Nat := 0x400000000215d941 + 0x2 * 2 ^ 64
def hard_nine : Nat := 9

/- the three exponents satisfy the `assert!` of `pow`, so `pow_loop` is used directly below -/
example : hard_a2 ≤ N_MINUS_ONE ∧ hard_a3 ≤ N_MINUS_ONE ∧ hard_nine ≤ N_MINUS_ONE := by decide

def final_exponent_hard_part (x : Fp12) : Fp12 :=
  let t0 := x.pow_loop hard_a3
  let t0 := t0.fp_inv
  let t1 := t0.fp12_frobenius
  let t1 := t0.fp_mul t1
  let t0 := t0.fp_mul t1
  let t2 := x.fp12_frobenius
  let t3 := t2.fp_mul x
  let t3 := t3.pow_loop hard_nine
  let t0 := t0.fp_mul t3
  let t3 := x.fp_sqr
  let t3 := t3.fp_sqr
  let t0 := t0.fp_mul t3
  let t2 := t2.fp_sqr
  let t2 := t2.fp_mul t1
  let t1 := x.fp12_frobenius2
  let t1 := t1.fp_mul t2
  let t2 := t1.pow_loop hard_a2
  let t0 := t2.fp_mul t0
  let t1 := x.fp12_frobenius3
  let t1 := t1.fp_mul t0
  t1

def final_exponent (x : Fp12) : Fp12 :=
  let t0 := x.fp12_frobenius6
  let t1 := x.fp_inv
  let t0 := t0.fp_mul t1
  let t1 := t0.fp12_frobenius2
  let t0 := t0.fp_mul t1
  t0.final_exponent_hard_part
end Fp12

end GmVerif.Impl.SM9
