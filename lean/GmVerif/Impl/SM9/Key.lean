/-
Model of gm-sm9/src/key.rs (hash1/hash2, kdf, sm9_mac, sm3_hmac, master key generation, extract_key for the three
uses, sign, verify_sign, encrypt, decrypt, exch_step_1a/1b/2a) and of `sm9_random_u256`, `xor` (u256.rs).

Randomness is a parameter: a list of 32-byte candidates that replace the RNG output one by one (what the verification
hook does); the randomised functions return the scalars accepted by `sm9_random_u256` (what the hook's recorder logs)
and the unused candidates.  An exhausted list is reported as `err "rng-exhausted"` (cannot happen with a real RNG).
The retry loops get `cands.length + 1` units of fuel: every iteration consumes at least one candidate, so the fuel
never runs out before the list does.

Panics mirrored here: `xor` (indexing), `sm9_mac` (`k2[0..32]`), `encrypt` for `data.len() > 287` (`&k[0..data.len()]`)
and for 255 < `data.len()` ≤ 287 (`sm9_mac`: fewer than 32 bytes of K2 left), `Fp12::pow` (`assert!`) in
`exch_step_2a` for `ra_ > N − 1`, `mod_n_mul` (checked arithmetic) in `extract_key` for master keys ≥ N, and the
table look-ups inside `Point::point_mul` / `Point::g_mul`.
-/
import GmVerif.Impl.SM9.Points
import GmVerif.Impl.SM3
namespace GmVerif.Impl.SM9
open GmVerif
open GmVerif.Gen.SM9 (N_MINUS_ONE HID_SIGN HID_EXCH HID_ENC HASH1_PREFIX HASH2_PREFIX)

/-- SM3 through the model of gm-sm3 (never panics: `Thm.C01.sm3_total`); a panic would surface as [] -/
def sm3 (m : List UInt8) : List UInt8 :=
  match Impl.SM3.sm3_hash m with
  | .ok d => d
  | _ => []

/-! ### u256.rs: `sm9_random_u256`, `xor` -/

/-- outcome of a randomised operation: value, scalars accepted by `sm9_random_u256`, unused candidates -/
structure Rand (α : Type) where
  val : α
  used : List Nat
  rest : List (List UInt8)

/-- the four limbs of a U256, limb 0 (least significant) first -/
def limbs4 (x : Nat) : List Nat := [limb x 0, limb x 1, limb x 2, limb x 3]

/-- `a >= b` on `[u64; 4]`: the derived LEXICOGRAPHIC order starting at index 0 -/
def lexGE : List Nat → List Nat → Bool
  | [], _ => true
  | _ :: _, [] => true
  | a :: as, b :: bs => if a > b then true else if a < b then false else lexGE as bs

/-- `sm9_random_u256(range)`: candidates until `u256_cmp(&ret, range) < 0 && ret >= [1, 0, 0, 0]`.
NOTE the second test is the array order from limb 0 = the LEAST significant limb: it holds iff `ret[0] >= 1`, so
it rejects 0 but also every value whose low 64 bits are zero (e.g. 2^64). `none` = candidate list exhausted. -/
def sm9_random_u256 (range : Nat) : List (List UInt8) → Option (Nat × List (List UInt8))
  | [] => none
  | c :: cs =>
    let ret := beNat c
    if u256_cmp ret range < 0 ∧ lexGE (limbs4 ret) [1, 0, 0, 0] then some (ret, cs) else sm9_random_u256 range cs

/-- `a < b` on `[u64; 4]`: the derived lexicographic order starting at index 0 -/
def lexLT : List Nat → List Nat → Bool
  | [], [] => false
  | [], _ :: _ => true
  | _ :: _, [] => false
  | a :: as, b :: bs => if a < b then true else if a > b then false else lexLT as bs

/-- `fields::fn_random_u256()` (public, not used by key.rs, not covered by the RNG hook; the candidates stand for the
RNG outputs): accepts when `ret < SM9_N_MINUS_ONE && ret != [0, 0, 0, 0]`.  NOTE `<` is the derived ARRAY order from
limb 0 (least significant), not `u256_cmp`: e.g. 2^256 − 2^64 (limb 0 = 0) is accepted although it is ≥ N. -/
def fn_random_u256 : List (List UInt8) → Option (Nat × List (List UInt8))
  | [] => none
  | c :: cs =>
    let ret := beNat c
    if lexLT (limbs4 ret) (limbs4 N_MINUS_ONE) ∧ ret ≠ 0 then some (ret, cs) else fn_random_u256 cs

/-- `fields::fp::fp_random_u256()` (public, unused): `u256_cmp(&ret, &SM9_P_MINUS_ONE) < 0 && ret != 0`.
Candidates must be 32 bytes (the RNG fills a `[u8; 32]`). -/
def fp_random_u256 : List (List UInt8) → Option (Nat × List (List UInt8))
  | [] => none
  | c :: cs =>
    let ret := beNat c
    if u256_cmp ret Gen.SM9.P_MINUS_ONE < 0 ∧ ret ≠ 0 then some (ret, cs) else fp_random_u256 cs

/-- `xor(k, data, len)`: `k[i] ^ data[i]` for i < len; indexing out of range panics -/
def xor (k data : List UInt8) (len : Nat) : Outcome (List UInt8) :=
  if len > k.length ∨ len > data.length then .panic
  else .ok (List.zipWith (· ^^^ ·) (k.take len) (data.take len))

/-! ### helpers of key.rs -/

/-- `sm9_mac(k2, z)` = SM3(z ‖ k2[0..32]) -/
def sm9_mac (k2 z : List UInt8) : Outcome (List UInt8) :=
  if k2.length < 32 then .panic else .ok (sm3 (z ++ k2.take 32))

/-- `sm3_hmac(key, message, klen)` (private and unused in the crate; modelled for completeness).
`key_block[..klen].copy_from_slice(&key[0..klen])` panics for `klen > key.len()` (when `klen <= 64`). -/
def sm3_hmac (key message : List UInt8) (klen : Nat) : Outcome (List UInt8) :=
  let block : Outcome (List UInt8) :=
    if klen > 64 then .ok (sm3 key ++ List.replicate 32 0)
    else if klen > key.length then .panic
    else .ok (key.take klen ++ List.replicate (64 - klen) 0)
  block.map fun kb =>
    let ipad := kb.map (· ^^^ 0x36)
    let opad := kb.map (· ^^^ 0x5c)
    sm3 (opad ++ sm3 (ipad ++ message))

/-- `sm9_u256_hash1(id, hid)`: Ha1 ‖ Ha2 with counters 1, 2 over 0x01 ‖ id ‖ hid, then `mod_n_from_hash` -/
def sm9_u256_hash1 (id : List UInt8) (hid : UInt8) : Outcome Nat :=
  let ha1 := sm3 ([HASH1_PREFIX] ++ id ++ [hid] ++ [0x00, 0x00, 0x00, 0x01])
  let ha2 := sm3 ([HASH1_PREFIX] ++ id ++ [hid] ++ [0x00, 0x00, 0x00, 0x02])
  mod_n_from_hash (ha1 ++ ha2)

/-- `sm9_u256_hash2(data, wbuf)` -/
def sm9_u256_hash2 (data wbuf : List UInt8) : Outcome Nat :=
  let ha1 := sm3 ([HASH2_PREFIX] ++ data ++ wbuf ++ [0x00, 0x00, 0x00, 0x01])
  let ha2 := sm3 ([HASH2_PREFIX] ++ data ++ wbuf ++ [0x00, 0x00, 0x00, 0x02])
  mod_n_from_hash (ha1 ++ ha2)

def kdfLoop (z : List UInt8) : Nat → Nat → List UInt8 → Nat × List UInt8
  | ct, 0, acc => (ct, acc)
  | ct, n + 1, acc => kdfLoop z (ct + 1) n (acc ++ sm3 (z ++ natBE 4 ct))

/-- `kdf(z, klen)`: `bound = ((klen as f64) / 32.0).ceil() as u32` — exact for klen < 2^53 and saturating at
2^32 − 1 above (the cast saturates), so `ct += 1` (u32) never overflows; `for _i in 1..bound` then one more block
of which `klen % 32` bytes are kept (all 32 when that is 0 — also for klen = 0, which yields 32 bytes). -/
def kdf (z : List UInt8) (klen : Nat) : List UInt8 :=
  let bound := min ((klen + 31) / 32) (2 ^ 32 - 1)
  let (ct, h_a) := kdfLoop z 1 (bound - 1) []
  let last := sm3 (z ++ natBE 4 ct)
  if klen % 32 = 0 then h_a ++ last else h_a ++ last.take (klen % 32)

/-- `x.iter().all(|&byte| byte == 0)` -/
def all_zero (x : List UInt8) : Bool := x.all (· == 0)

/-! ### keys -/

structure Sm9SignMasterKey where
  ks : Nat
  ppubs : TwistPoint
deriving Repr, Inhabited

structure Sm9SignKey where
  ppubs : TwistPoint
  ds : Point
deriving Repr, Inhabited

structure Sm9EncMasterKey where
  ke : Nat
  ppube : Point
deriving Repr, Inhabited

structure Sm9EncKey where
  ppube : Point
  de : TwistPoint
deriving Repr, Inhabited

/-- `Sm9SignMasterKey::master_key_generate` / `generate_sign_master_key` -/
def sign_master_key_generate (cands : List (List UInt8)) : Outcome (Rand Sm9SignMasterKey) :=
  match sm9_random_u256 N_MINUS_ONE cands with
  | none => .err "rng-exhausted"
  | some (ks, rest) => .ok ⟨⟨ks, TwistPoint.g_mul ks⟩, [ks], rest⟩

/-- `Sm9EncMasterKey::master_key_generate` / `generate_enc_master_key` -/
def enc_master_key_generate (cands : List (List UInt8)) : Outcome (Rand Sm9EncMasterKey) :=
  match sm9_random_u256 N_MINUS_ONE cands with
  | none => .err "rng-exhausted"
  | some (ke, rest) => (Point.g_mul ke).map fun p => ⟨⟨ke, p⟩, [ke], rest⟩

/-- the scalar of the three `extract_*key` functions: `t = H1(id‖hid) + k; None if 0; t = k · t^(N−2)`;
`none` = the function returns `None` -/
def extract_scalar (k : Nat) (id : List UInt8) (hid : UInt8) : Outcome (Option Nat) := do
  let t ← sm9_u256_hash1 id hid
  let t := mod_n_add t k
  if fp_is_zero t then return none
  let t ← mod_n_inv t
  let t ← mod_n_mul t k
  return some t

/-- `Sm9SignMasterKey::extract_key(idb)`: ds = t · P1 (fixed-base) -/
def Sm9SignMasterKey.extract_key (m : Sm9SignMasterKey) (id : List UInt8) : Outcome (Option Sm9SignKey) := do
  match ← extract_scalar m.ks id HID_SIGN with
  | none => return none
  | some t =>
    let ds ← Point.g_mul t
    return some ⟨m.ppubs, ds⟩

/-- `Sm9EncMasterKey::extract_key(id)`: de = t · P2 -/
def Sm9EncMasterKey.extract_key (m : Sm9EncMasterKey) (id : List UInt8) : Outcome (Option Sm9EncKey) := do
  match ← extract_scalar m.ke id HID_ENC with
  | none => return none
  | some t => return some ⟨m.ppube, TwistPoint.g_mul t⟩

/-- `Sm9EncMasterKey::extract_exch_key(id)` -/
def Sm9EncMasterKey.extract_exch_key (m : Sm9EncMasterKey) (id : List UInt8) : Outcome (Option Sm9EncKey) := do
  match ← extract_scalar m.ke id HID_EXCH with
  | none => return none
  | some t => return some ⟨m.ppube, TwistPoint.g_mul t⟩

/-! ### signature -/

/-- the `loop` of `Sm9SignKey::sign` -/
def signLoop (g : Fp12) (data : List UInt8) :
    Nat → List (List UInt8) → List Nat → Outcome (Rand (Nat × Nat))
  | 0, _, _ => .err "rng-exhausted"
  | fuel + 1, cands, used =>
    -- A2
    match sm9_random_u256 N_MINUS_ONE cands with
    | none => .err "rng-exhausted"
    | some (r, rest) =>
      let used := used ++ [r]
      -- A3: w = g^r
      (g.pow r).bind fun w =>
      let wbuf := w.to_bytes_be
      -- A4
      (sm9_u256_hash2 data wbuf).bind fun h =>
      -- A5
      let l := mod_n_sub r h
      if !(fp_is_zero l) then .ok ⟨(h, l), used, rest⟩
      else signLoop g data fuel rest used

/-- `Sm9SignKey::sign(data)` → (h, S) -/
def Sm9SignKey.sign (key : Sm9SignKey) (data : List UInt8) (cands : List (List UInt8)) :
    Outcome (Rand (Nat × Point)) :=
  let g := sm9_u256_pairing key.ppubs POINT_MONT_P1
  (signLoop g data (cands.length + 1) cands []).bind fun ⟨(h, l), used, rest⟩ =>
    (key.ds.point_mul l).map fun s => ⟨(h, s), used, rest⟩

/-- `Sm9SignMasterKey::verify_sign(id, data, h, s)` -/
def Sm9SignMasterKey.verify_sign (m : Sm9SignMasterKey) (id data : List UInt8) (h : Nat) (s : Point) : Outcome Unit :=
  -- B1
  if fp_is_zero h ∨ u256_cmp h N_MINUS_ONE > 0 then .err "InvalidDigest" else
  let g := sm9_u256_pairing m.ppubs POINT_MONT_P1
  (g.pow h).bind fun t =>
  -- B5
  (sm9_u256_hash1 id HID_SIGN).bind fun h1 =>
  let p := TwistPoint.g_mul h1
  let p := twist_point_add_full m.ppubs p
  let u := sm9_u256_pairing p s
  let w := u.fp_mul t
  let wbuf := w.to_bytes_be
  (sm9_u256_hash2 data wbuf).bind fun h2 =>
  if u256_cmp h2 h ≠ 0 then .err "InvalidDigest" else .ok ()

/-! ### encryption -/

/-- the `loop` of `Sm9EncMasterKey::encrypt`; returns (C1, K) -/
def encLoop (m : Sm9EncMasterKey) (q : Point) (idb data : List UInt8) :
    Nat → List (List UInt8) → List Nat → Outcome (Rand (Point × List UInt8))
  | 0, _, _ => .err "rng-exhausted"
  | fuel + 1, cands, used =>
    -- A2
    match sm9_random_u256 N_MINUS_ONE cands with
    | none => .err "rng-exhausted"
    | some (r, rest) =>
      let used := used ++ [r]
      -- A3
      (q.point_mul r).bind fun c1 =>
      let cbuf := c1.to_bytes_be
      -- A4, A5
      let g := sm9_u256_pairing TWIST_POINT_MONT_P2 m.ppube
      (g.pow r).bind fun g =>
      let gbuf := g.to_bytes_be
      -- A6
      let k := kdf (cbuf.drop 1 ++ gbuf ++ idb) (255 + 32)
      if data.isEmpty then .ok ⟨(c1, k), used, rest⟩
      else if data.length > k.length then .panic                 -- `&k[0..data.len()]`
      else if !(all_zero (k.take data.length)) then .ok ⟨(c1, k), used, rest⟩
      else encLoop m q idb data fuel rest used

/-- `Sm9EncMasterKey::encrypt(idb, data)` → C1 ‖ C3 ‖ C2 -/
def Sm9EncMasterKey.encrypt (m : Sm9EncMasterKey) (idb data : List UInt8) (cands : List (List UInt8)) :
    Outcome (Rand (List UInt8)) :=
  -- A1
  (sm9_u256_hash1 idb HID_ENC).bind fun t =>
  (POINT_MONT_P1.point_mul t).bind fun q =>
  let q := q.point_add m.ppube
  (encLoop m q idb data (cands.length + 1) cands []).bind fun ⟨(c1, k), used, rest⟩ =>
    let k1 := k.take data.length
    let k2 := k.drop data.length
    (xor k1 data data.length).bind fun c2 =>
    (sm9_mac k2 c2).map fun c3 =>
    ⟨c1.to_bytes_be ++ c3 ++ c2, used, rest⟩

/-- `Sm9EncKey::decrypt(idb, data)` -/
def Sm9EncKey.decrypt (key : Sm9EncKey) (idb data : List UInt8) : Outcome (List UInt8) :=
  if data.length < 65 + 32 + 1 ∨ data.length > 65 + 32 + 255 then .err "InvalidFieldLen"
  else if data.headD 0 ≠ 0x04 then .err "InvalidPoint"
  else
    let c1_bytes := data.take 65
    let c2 := data.drop (65 + 32)
    let c3 := (data.drop 65).take 32
    -- the fixed code (5551fcc): the coordinates of C1 must be field elements; an encoding with x >= p or y >= p is not a point
    if Gen.SM9.P ≤ beNat ((c1_bytes.drop 1).take 32) ∨ Gen.SM9.P ≤ beNat ((c1_bytes.drop 33).take 32) then .err "InvalidPoint" else
    (Point.from_bytes c1_bytes).bind fun c1 =>
    -- B1
    if !c1.is_on_curve then .err "InvalidPoint" else
    let w := sm9_u256_pairing key.de c1
    let w_bytes := w.to_bytes_be
    let k := kdf (c1_bytes.drop 1 ++ w_bytes ++ idb) (255 + 32)
    -- B3
    let mlen := data.length - (65 + 32)
    if !(all_zero (k.take mlen)) then
      let k1 := k.take mlen
      let k2 := k.drop mlen
      (sm9_mac k2 c2).bind fun u =>
      if u ≠ c3 then .err "InvalidDigest"
      else xor c2 k1 k1.length
    else .err "KdfHashError"

/-! ### key exchange -/

/-- `exch_step_1a(msk, idb)` → (RA, rA) -/
def exch_step_1a (m : Sm9EncMasterKey) (idb : List UInt8) (cands : List (List UInt8)) :
    Outcome (Rand (Point × Nat)) :=
  -- A1
  (sm9_u256_hash1 idb HID_EXCH).bind fun h =>
  (POINT_MONT_P1.point_mul h).bind fun r =>
  let r := r.point_add m.ppube
  -- A2
  match sm9_random_u256 N_MINUS_ONE cands with
  | none => .err "rng-exhausted"
  | some (ra, rest) =>
    -- A3
    (r.point_mul ra).map fun r => ⟨(r, ra), [ra], rest⟩

/-- `is_zero(&sk, klen)`: `x[i]` for i < klen (kdf returns exactly klen bytes for klen > 0, 32 for klen = 0) -/
def sk_is_zero (sk : List UInt8) (klen : Nat) : Outcome Bool :=
  if klen > sk.length then .panic else .ok (all_zero (sk.take klen))

/-- the shared input of the KDF in steps 1b and 2a -/
def exch_kdf_input (ida idb : List UInt8) (ra rb : Point) (g1 g2 g3 : Fp12) : List UInt8 :=
  ida ++ idb ++ ra.to_bytes_be.drop 1 ++ rb.to_bytes_be.drop 1 ++ g1.to_bytes_be ++ g2.to_bytes_be ++ g3.to_bytes_be

/-- the `loop` of `exch_step_1b` -/
def exch1bLoop (m : Sm9EncMasterKey) (ida idb : List UInt8) (key : Sm9EncKey) (ra q : Point) (klen : Nat) :
    Nat → List (List UInt8) → List Nat → Outcome (Rand (Point × List UInt8))
  | 0, _, _ => .err "rng-exhausted"
  | fuel + 1, cands, used =>
    -- B2
    match sm9_random_u256 N_MINUS_ONE cands with
    | none => .err "rng-exhausted"
    | some (rb, rest) =>
      let used := used ++ [rb]
      -- B3
      (q.point_mul rb).bind fun r =>
      -- B4
      if !ra.is_on_curve then .err "InvalidPoint" else
      let g1 := sm9_u256_pairing key.de ra
      let g2 := sm9_u256_pairing TWIST_POINT_MONT_P2 m.ppube
      (g2.pow rb).bind fun g2 =>
      (g1.pow rb).bind fun g3 =>
      let sk := kdf (exch_kdf_input ida idb ra r g1 g2 g3) klen
      (sk_is_zero sk klen).bind fun z =>
      if !z then .ok ⟨(r, sk), used, rest⟩
      else exch1bLoop m ida idb key ra q klen fuel rest used

/-- `exch_step_1b(msk, ida, idb, key, ra, klen)` → (RB, SKB) -/
def exch_step_1b (m : Sm9EncMasterKey) (ida idb : List UInt8) (key : Sm9EncKey) (ra : Point) (klen : Nat)
    (cands : List (List UInt8)) : Outcome (Rand (Point × List UInt8)) :=
  -- B1
  (sm9_u256_hash1 ida HID_EXCH).bind fun h =>
  if klen = 0 then .err "KdfHashError" else
  (POINT_MONT_P1.point_mul h).bind fun q =>
  let q := q.point_add m.ppube
  exch1bLoop m ida idb key ra q klen (cands.length + 1) cands []

/-- `exch_step_2a(msk, ida, idb, key, ra_, ra, rb, klen)` → SKA; the `loop` body runs once -/
def exch_step_2a (m : Sm9EncMasterKey) (ida idb : List UInt8) (key : Sm9EncKey) (ra_ : Nat) (ra rb : Point)
    (klen : Nat) : Outcome (List UInt8) :=
  if !rb.is_on_curve then .err "InvalidPoint" else
  let g1 := sm9_u256_pairing TWIST_POINT_MONT_P2 m.ppube
  (g1.pow ra_).bind fun g1 =>
  let g2 := sm9_u256_pairing key.de rb
  (g2.pow ra_).bind fun g3 =>
  let sk := kdf (exch_kdf_input ida idb ra rb g1 g2 g3) klen
  (sk_is_zero sk klen).bind fun z =>
  if !z then .ok sk else .err "KdfHashError"

end GmVerif.Impl.SM9
