/-
Model of u256.rs (identical in gm-sm2 and gm-sm9): 4×u64 little-endian limbs, carry/borrow chains,
schoolbook multiplication over 32-bit halves with a 16-entry accumulator, comparison, (de)serialisation.
Every `+`/`*` that is plain (non-wrapping) in Rust is shown not to overflow in `Proofs.Limb`.
-/
import GmVerif.Common
namespace GmVerif.Impl.Limb
open GmVerif

structure U256 where
  (l0 l1 l2 l3 : UInt64)
deriving DecidableEq, Repr, Inhabited

/-- [u64; 8] as two halves (`lo` = limbs 0..3) -/
structure U512 where
  (lo hi : U256)
deriving DecidableEq, Repr, Inhabited

def U256.toNat (a : U256) : Nat :=
  a.l0.toNat + 2 ^ 64 * a.l1.toNat + 2 ^ 128 * a.l2.toNat + 2 ^ 192 * a.l3.toNat
def U256.ofNat (n : Nat) : U256 :=
  ⟨UInt64.ofNat n, UInt64.ofNat (n / 2 ^ 64), UInt64.ofNat (n / 2 ^ 128), UInt64.ofNat (n / 2 ^ 192)⟩
def U512.toNat (a : U512) : Nat := a.lo.toNat + 2 ^ 256 * a.hi.toNat
def U256.zero : U256 := ⟨0, 0, 0, 0⟩
def U256.isZero (a : U256) : Bool := a == U256.zero

/-- `a.overflowing_add(b)` then `.overflowing_add(carry as u64)`, carry = c1 || c2 -/
def adc (a b : UInt64) (c : Bool) : UInt64 × Bool :=
  let m := a + b
  let c1 := decide (m < a)
  let r := m + (if c then 1 else 0)
  let c2 := decide (r < m)
  (r, c1 || c2)

/-- `a.overflowing_sub(borrow as u64)` then `.overflowing_sub(b)` -/
def sbb (a b : UInt64) (bw : Bool) : UInt64 × Bool :=
  let bwv : UInt64 := if bw then 1 else 0
  let a' := a - bwv
  let b1 := decide (a < bwv)
  let r := a' - b
  let b2 := decide (a' < b)
  (r, b1 || b2)

def u256_adc (a b : U256) (c : Bool) : U256 × Bool :=
  let (r0, c) := adc a.l0 b.l0 c
  let (r1, c) := adc a.l1 b.l1 c
  let (r2, c) := adc a.l2 b.l2 c
  let (r3, c) := adc a.l3 b.l3 c
  (⟨r0, r1, r2, r3⟩, c)

def u256_add (a b : U256) : U256 × Bool := u256_adc a b false

def u512_add (a b : U512) : U512 × Bool :=
  let (lo, c) := u256_adc a.lo b.lo false
  let (hi, c) := u256_adc a.hi b.hi c
  (⟨lo, hi⟩, c)

def u256_sub (a b : U256) : U256 × Bool :=
  let (r0, w) := sbb a.l0 b.l0 false
  let (r1, w) := sbb a.l1 b.l1 w
  let (r2, w) := sbb a.l2 b.l2 w
  let (r3, w) := sbb a.l3 b.l3 w
  (⟨r0, r1, r2, r3⟩, w)

/-- `u256_cmp`: 1, 0, -1 as an Int -/
def u256_cmp (a b : U256) : Int :=
  if a.l3 > b.l3 then 1 else if a.l3 < b.l3 then -1
  else if a.l2 > b.l2 then 1 else if a.l2 < b.l2 then -1
  else if a.l1 > b.l1 then 1 else if a.l1 < b.l1 then -1
  else if a.l0 > b.l0 then 1 else if a.l0 < b.l0 then -1
  else 0

def M32 : UInt64 := 0xffffffff

def halves (a : U256) : Array UInt64 :=
  #[a.l0 &&& M32, a.l0 >>> 32, a.l1 &&& M32, a.l1 >>> 32, a.l2 &&& M32, a.l2 >>> 32, a.l3 &&& M32, a.l3 >>> 32]

/-- inner `for j in 0..8` of `u256_mul` for row `i`, then `s[i + 8] = u`.
`u = s[i + j] + a_[i] * b_[j] + u` is a plain (checked) u64 expression in Rust. -/
def mulRow (ah bh : Array UInt64) (s : Array UInt64) (i : Nat) : Array UInt64 :=
  let (s, u) := (List.range 8).foldl
    (fun (st : Array UInt64 × UInt64) j =>
      let u := st.1[i + j]! + ah[i]! * bh[j]! + st.2
      (st.1.set! (i + j) (u &&& M32), u >>> 32)) (s, 0)
  s.set! (i + 8) u

def u256_mul (a b : U256) : U512 :=
  let ah := halves a
  let bh := halves b
  let s := (List.range 8).foldl (mulRow ah bh) (Array.replicate 16 0)
  let w (i : Nat) : UInt64 := (s[2 * i + 1]! <<< 32) ||| s[2 * i]!
  ⟨⟨w 0, w 1, w 2, w 3⟩, ⟨w 4, w 5, w 6, w 7⟩⟩

def be64of (x : UInt64) : List UInt8 := be64 x
def u256_to_be_bytes (a : U256) : List UInt8 := be64 a.l3 ++ be64 a.l2 ++ be64 a.l1 ++ be64 a.l0

def u64be (bs : List UInt8) : UInt64 := bs.foldl (fun acc b => (acc <<< 8) ||| b.toUInt64) 0

/-- `u256_from_be_bytes`: four `read_u64::<BigEndian>().unwrap()`; fewer than 32 bytes panic, extra bytes are ignored -/
def u256_from_be_bytes (bs : List UInt8) : Outcome U256 :=
  if bs.length < 32 then .panic
  else .ok ⟨u64be ((bs.drop 24).take 8), u64be ((bs.drop 16).take 8), u64be ((bs.drop 8).take 8), u64be (bs.take 8)⟩

/-- Montgomery multiplication as written in fp64.rs / fn64.rs / fp.rs: parameters are the modulus `m`,
`mp` = −m⁻¹ mod 2^256 and `neg` = 2^256 − m (named MODP_MONT_ONE / N_NEG in the code) -/
def mont_mul (m mp neg : U256) (a b : U256) : U256 :=
  let z := u256_mul a b
  let t1 := u256_mul z.lo mp
  let t := u256_mul t1.lo m
  let (sum, c) := u512_add z t
  let r := sum.hi
  if c then (u256_add r neg).1
  else if u256_cmp r m ≥ 0 then (u256_sub r m).1
  else r

/-- `fp_add` / `fn_add` / `mod_n_add` -/
def mod_add (m neg : U256) (a b : U256) : U256 :=
  let (r, c) := u256_add a b
  if c then (u256_add r neg).1
  else if u256_cmp r m ≥ 0 then (u256_sub r m).1
  else r

/-- `fp_sub` / `fn_sub` / `mod_n_sub` -/
def mod_sub (neg : U256) (a b : U256) : U256 :=
  let (r, w) := u256_sub a b
  if w then (u256_sub r neg).1 else r

/-- `fp_neg` -/
def mod_neg (m : U256) (a : U256) : U256 := if a.isZero then a else (u256_sub m a).1

/-- `fp_div2` (after the fix: integer a + p when a is odd) -/
def mod_div2 (m : U256) (a : U256) : U256 :=
  let (r, c) := if a.l0 &&& 1 = 1 then u256_add a m else (a, false)
  let cv : UInt64 := if c then 1 else 0
  ⟨(r.l0 >>> 1) ||| ((r.l1 &&& 1) <<< 63), (r.l1 >>> 1) ||| ((r.l2 &&& 1) <<< 63),
   (r.l2 >>> 1) ||| ((r.l3 &&& 1) <<< 63), (r.l3 >>> 1) ||| ((cv &&& 1) <<< 63)⟩

/-- the 256 bits of `e`, most significant first (`w & 0x8000…` / `w <<= 1` over limbs 3..0) -/
def bitsMSB (e : U256) : List Bool :=
  [e.l3, e.l2, e.l1, e.l0].flatMap fun w => (List.range 64).map fun j => (w >>> (63 - j).toUInt64) &&& 1 = 1

/-- square-and-multiply loop shared by fp_pow / fn_pow / mod_n_pow: `r = r*r; if bit { r = r*a }` -/
def pow_loop (mul : U256 → U256 → U256) (one a : U256) (e : U256) : U256 :=
  (bitsMSB e).foldl (fun r bit => let r := mul r r; if bit then mul r a else r) one

end GmVerif.Impl.Limb
