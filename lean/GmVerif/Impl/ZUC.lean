/-
Model of /repo/gm-zuc/src/lib.rs: struct ZUC {s, r1, r2, x}, ZUC::new, bit_reconstruction, f,
lfsr_with_initialization_mode, lfsr_with_work_mode, generate_keystream, make_u31, sbox, rot31, add31, l1, l2.
Tables come from `Gen.ZUC`.
-/
import GmVerif.Common
import GmVerif.Gen.ZUC
namespace GmVerif.Impl.ZUC
open GmVerif

def S0A : Array UInt8 := Gen.ZUC.S0.toArray
def S1A : Array UInt8 := Gen.ZUC.S1.toArray
def DA : Array UInt32 := Gen.ZUC.D.toArray

structure ZUC where
  s : List UInt32     -- [u32; 16]
  r1 : UInt32
  r2 : UInt32
  x : UInt32 × UInt32 × UInt32 × UInt32
deriving DecidableEq, Repr

def make_u32 (a b c d : UInt32) : UInt32 := a <<< 24 ||| b <<< 16 ||| c <<< 8 ||| d
def make_u31 (k d iv : UInt32) : UInt32 := k <<< 23 ||| d <<< 8 ||| iv

def sbox (x : UInt32) : UInt32 :=
  make_u32 S0A[(x >>> 24).toNat]!.toUInt32 S1A[((x >>> 16) &&& 0xFF).toNat]!.toUInt32
           S0A[((x >>> 8) &&& 0xFF).toNat]!.toUInt32 S1A[(x &&& 0xFF).toNat]!.toUInt32

/-- `((a << k) | (a >> (31 - k))) & 0x7FFFFFFF` (k ∈ {8,15,17,20,21} at the call sites) -/
def rot31 (a : UInt32) (k : Nat) : UInt32 :=
  ((a <<< k.toUInt32) ||| (a >>> (31 - k).toUInt32)) &&& (0x7FFFFFFF : UInt32)

/-- `let c = a.wrapping_add(b); (c & 0x7FFFFFFF).wrapping_add(c >> 31)` -/
def add31 (a b : UInt32) : UInt32 :=
  let c := a + b
  (c &&& (0x7FFFFFFF : UInt32)) + (c >>> 31)

def l1 (x : UInt32) : UInt32 := x ^^^ rotl32 x 2 ^^^ rotl32 x 10 ^^^ rotl32 x 18 ^^^ rotl32 x 24
def l2 (x : UInt32) : UInt32 := x ^^^ rotl32 x 8 ^^^ rotl32 x 14 ^^^ rotl32 x 22 ^^^ rotl32 x 30

def sg (z : ZUC) (i : Nat) : UInt32 := z.s.getD i 0

def bit_reconstruction (z : ZUC) : ZUC :=
  { z with x := (((sg z 15 &&& 0x7FFF8000) <<< 1) ||| (sg z 14 &&& 0xFFFF),
                 ((sg z 11 &&& 0xFFFF) <<< 16) ||| (sg z 9 >>> 15),
                 ((sg z 7 &&& 0xFFFF) <<< 16) ||| (sg z 5 >>> 15),
                 ((sg z 2 &&& 0xFFFF) <<< 16) ||| (sg z 0 >>> 15)) }

/-- `fn f(&mut self) -> u32`: returns (w, updated state) -/
def f (z : ZUC) : UInt32 × ZUC :=
  let (x0, x1, x2, _) := z.x
  let w := (x0 ^^^ z.r1) + z.r2
  let w1 := z.r1 + x1
  let w2 := z.r2 ^^^ x2
  let u := l1 ((w1 <<< 16) ||| (w2 >>> 16))
  let v := l2 ((w2 <<< 16) ||| (w1 >>> 16))
  (w, { z with r1 := sbox u, r2 := sbox v })

def lfsr_with_initialization_mode (z : ZUC) (u : UInt32) : ZUC :=
  let v := sg z 0
  let v := add31 v (rot31 (sg z 0) 8)
  let v := add31 v (rot31 (sg z 4) 20)
  let v := add31 v (rot31 (sg z 10) 21)
  let v := add31 v (rot31 (sg z 13) 17)
  let v := add31 v (rot31 (sg z 15) 15)
  let s16 := add31 v u
  let s16 := if s16 = 0 then 2147483647 else s16
  { z with s := z.s.drop 1 ++ [s16] }

def lfsr_with_work_mode (z : ZUC) : ZUC :=
  let v := sg z 0
  let v := add31 v (rot31 (sg z 0) 8)
  let v := add31 v (rot31 (sg z 4) 20)
  let v := add31 v (rot31 (sg z 10) 21)
  let v := add31 v (rot31 (sg z 13) 17)
  let s16 := add31 v (rot31 (sg z 15) 15)
  let s16 := if s16 = 0 then 2147483647 else s16
  { z with s := z.s.drop 1 ++ [s16] }

/-- `generate_keystream(n)`: returns the words and the updated generator -/
def generate_keystream : ZUC → Nat → List UInt32 × ZUC
  | z, 0 => ([], z)
  | z, n + 1 =>
    let z := bit_reconstruction z
    let (w, z) := f z
    let zw := w ^^^ z.x.2.2.2
    let z := lfsr_with_work_mode z
    let (rest, z') := generate_keystream z n
    (zw :: rest, z')

def initRound (z : ZUC) : ZUC :=
  let z := bit_reconstruction z
  let (w, z) := f z
  lfsr_with_initialization_mode z (w >>> 1)

def iter {α} (g : α → α) : Nat → α → α
  | 0, a => a
  | n + 1, a => iter g n (g a)

/-- `ZUC::new(k, iv)`: `k[i]`, `iv[i]` for i < 16 panic when the slices are shorter than 16 -/
def new (k iv : List UInt8) : Outcome ZUC :=
  if k.length < 16 ∨ iv.length < 16 then .panic
  else
    let s := (List.range 16).map fun i => make_u31 (k.getD i 0).toUInt32 DA[i]! (iv.getD i 0).toUInt32
    let z : ZUC := ⟨s, 0, 0, (0, 0, 0, 0)⟩
    let z := iter initRound 32 z
    .ok (generate_keystream z 1).2

/-- a sequence of `generate_keystream(n_i)` calls on one generator -/
def requests : ZUC → List Nat → List (List UInt32)
  | _, [] => []
  | z, n :: ns => let (ws, z') := generate_keystream z n; ws :: requests z' ns

end GmVerif.Impl.ZUC
