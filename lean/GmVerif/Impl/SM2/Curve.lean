/-
Model of gm-sm2/src/p256_ecc.rs: struct Point (Jacobian, Montgomery limbs), is_zero, is_valid,
is_valid_affine_point, to_affine_point, to_byte_be, from_byte, neg, point_add, point_dbl, scalar_mul (4-bit window),
g_mul (8-bit comb over the dumped table), to_jacobi.
-/
import GmVerif.Impl.SM2.Field
import GmVerif.Gen.SM2Table
namespace GmVerif.Impl.SM2
open GmVerif
open GmVerif.Gen.SM2 (P MODP_MONT_ONE MODP_MONT_A MODP_MONT_B)

structure Point where
  (x y z : Nat)
deriving DecidableEq, Repr, Inhabited

def Point.zero : Point := ⟨MODP_MONT_ONE, MODP_MONT_ONE, 0⟩
def Point.is_zero (p : Point) : Bool := p.z == 0

def Point.is_valid (p : Point) : Bool :=
  if p.is_zero then true
  else
    let yy := fp_sqr p.y
    let xx := fp_sqr p.x
    let z2 := fp_sqr p.z
    let z4 := fp_sqr z2
    let z6 := fp_mul z4 z2
    let z6_b := fp_mul z6 MODP_MONT_B
    let a_z4 := fp_mul z4 MODP_MONT_A
    let xx_a_4z := fp_add xx a_z4
    let xxx_a_4z := fp_mul xx_a_4z p.x
    yy == fp_add xxx_a_4z z6_b

def Point.is_valid_affine_point (p : Point) : Bool :=
  let yy := fp_sqr p.y
  let xx := fp_sqr p.x
  let xx_a := fp_add xx MODP_MONT_A
  let xxx_a := fp_mul p.x xx_a
  yy == fp_add xxx_a MODP_MONT_B

def Point.to_affine_point (p : Point) : Point :=
  let z_inv := fp_inv p.z
  let z_inv2 := fp_sqr z_inv
  let z_inv3 := fp_mul z_inv2 z_inv
  ⟨fp_mul p.x z_inv2, fp_mul p.y z_inv3, MODP_MONT_ONE⟩

def bytes32 (x : Nat) : List UInt8 := natBE 32 x

def Point.to_byte_be (p : Point) (compress : Bool) : List UInt8 :=
  let a := p.to_affine_point
  let x_vec := bytes32 (fp_from_mont a.x)
  let y_vec := bytes32 (fp_from_mont a.y)
  if compress then (if fp_from_mont a.y % 2 = 0 then 0x02 else 0x03) :: x_vec
  else 0x04 :: (x_vec ++ y_vec)

/-- `Point::from_byte` (after the fix: prefix, length, range and curve checks) -/
def Point.from_byte (b : List UInt8) : Outcome Point :=
  match b with
  | [] => .err "InvalidPublic"
  | flag :: rest =>
    if flag = 0x02 ∨ flag = 0x03 then
      if b.length ≠ 33 then .err "InvalidPublic"
      else
        let y_q : Nat := if flag = 0x02 then 0 else 1
        let x_raw := beNat rest
        if x_raw ≥ P then .err "InvalidPublic"
        else
          let x := fp_to_mont x_raw
          let xxx := fp_mul (fp_mul x x) x
          let ax := fp_mul x MODP_MONT_A
          let yy := fp_add (fp_add xxx ax) MODP_MONT_B
          match fp_sqrt yy with
          | none => .err "FieldSqrtError"
          | some y =>
            let y := if fp_from_mont y % 2 ≠ y_q then fp_sub P y else y
            .ok ⟨x, y, MODP_MONT_ONE⟩
    else if flag = 0x04 then
      if b.length ≠ 65 then .err "InvalidPublic"
      else
        let x_raw := beNat (rest.take 32)
        let y_raw := beNat (rest.drop 32)
        if x_raw ≥ P ∨ y_raw ≥ P then .err "InvalidPublic"
        else
          let p : Point := ⟨fp_to_mont x_raw, fp_to_mont y_raw, MODP_MONT_ONE⟩
          if ¬ p.is_valid_affine_point then .err "NotOnCurve" else .ok p
    else .err "InvalidPublic"

def Point.neg (p : Point) : Point := ⟨p.x, fp_sub P p.y, p.z⟩

def Point.point_dbl (p : Point) : Point :=
  let x1 := p.x; let y1 := p.y; let z1 := p.z
  let z1_sqr := fp_sqr z1
  let y1_sqr := fp_sqr y1
  let alpha_m3 := fp_triple (fp_mul (fp_sub x1 z1_sqr) (fp_add x1 z1_sqr))
  let lam6_m4 := fp_double (fp_double (fp_mul x1 y1_sqr))
  let x3 := fp_sub (fp_sqr alpha_m3) (fp_double lam6_m4)
  let u1 := fp_mul alpha_m3 (fp_sub lam6_m4 x3)
  let u2 := fp_double (fp_double (fp_double (fp_sqr y1_sqr)))
  let y3 := fp_sub u1 u2
  let y1_z1 := fp_add y1 z1
  let z3 := fp_sub (fp_sub (fp_sqr y1_z1) y1_sqr) z1_sqr
  ⟨x3, y3, z3⟩

/-- `point_add` (after the fix: the `h == 0` branch) -/
def Point.point_add (self p : Point) : Point :=
  if self.is_zero then p
  else if p.is_zero then self
  else
    let x1 := self.x; let y1 := self.y; let z1 := self.z
    let x2 := p.x; let y2 := p.y; let z2 := p.z
    if x1 = x2 ∧ y1 = y2 ∧ z1 = z2 then self.point_dbl
    else
      let z1_sqr := fp_sqr z1
      let z2_sqr := fp_sqr z2
      let u1 := fp_mul x1 z2_sqr
      let u2 := fp_mul x2 z1_sqr
      let s1 := fp_mul (fp_mul y1 z2) z2_sqr
      let s2 := fp_mul (fp_mul y2 z1) z1_sqr
      let h := fp_sub u2 u1
      let r := fp_sub s2 s1
      if h = 0 then (if r = 0 then self.point_dbl else Point.zero)
      else
        let hh := fp_sqr h
        let hhh := fp_mul hh h
        let v := fp_mul u1 hh
        let r_sqr := fp_sqr r
        let x3 := fp_sub (fp_sub r_sqr hhh) (fp_double v)
        let y3 := fp_sub (fp_mul r (fp_sub v x3)) (fp_mul s1 hhh)
        let z3 := fp_mul (fp_mul z1 z2) h
        ⟨x3, y3, z3⟩

/-- the 15-entry table of `scalar_mul`: entry i is (i+1)·P, built in the code's order -/
def preTable (p : Point) : Array Point :=
  let t1 := p
  let t2 := t1.point_dbl
  let t4 := t2.point_dbl
  let t8 := t4.point_dbl
  let t3 := t1.point_add t2
  let t6 := t3.point_dbl
  let t7 := t1.point_add t6
  let t12 := t6.point_dbl
  let t5 := t1.point_add t4
  let t10 := t5.point_dbl
  let t14 := t7.point_dbl
  let t9 := t1.point_add t8
  let t11 := t1.point_add t10
  let t13 := t1.point_add t12
  let t15 := t1.point_add t14
  #[t1, t2, t3, t4, t5, t6, t7, t8, t9, t10, t11, t12, t13, t14, t15]

/-- the 64 nibbles of a 256-bit scalar, most significant first -/
def nibblesMSB (k : Nat) : List Nat := (List.range 64).map fun i => k / 16 ^ (63 - i) % 16

/-- `scalar_mul` for a 4-limb scalar: per nibble `r = pre[d-1] + r` (if d ≠ 0), then four doublings except after the last -/
def Point.scalar_mul (p : Point) (k : Nat) : Point :=
  let pre := preTable p
  let step (st : Point × Nat) (d : Nat) : Point × Nat :=
    let r := if d ≠ 0 then (pre[d - 1]!).point_add st.1 else st.1
    if st.2 = 63 then (r, st.2 + 1)
    else (r.point_dbl.point_dbl.point_dbl.point_dbl, st.2 + 1)
  ((nibblesMSB k).foldl step (Point.zero, 0)).1

def to_jacobi (x y : Nat) : Point := ⟨x, y, MODP_MONT_ONE⟩

def TABLE : Array (Array Nat) := (Gen.SM2Table.rows.map List.toArray).toArray

/-- `g_mul`: bytes of the scalar from the least significant; byte `i` with value `v ≠ 0` adds TABLE[i][2v-2 .. 2v-1] -/
def g_mul (k : Nat) : Point :=
  (List.range 32).foldl (fun r i =>
    let v := k / 256 ^ i % 256
    if v ≠ 0 then r.point_add (to_jacobi (TABLE[i]!)[v * 2 - 2]! (TABLE[i]!)[v * 2 - 1]!) else r) Point.zero

end GmVerif.Impl.SM2
