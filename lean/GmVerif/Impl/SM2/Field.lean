/-
Model of gm-sm2/src/fields/fp64.rs and fn64.rs on the Nat-exact layer, with the constants dumped from the crate.
Values of Fp are kept in Montgomery form exactly as the code keeps them.
-/
import GmVerif.Impl.NatField
import GmVerif.Impl.Limb
import GmVerif.Gen.SM2
namespace GmVerif.Impl.SM2
open GmVerif GmVerif.Impl.NatField
open GmVerif.Gen.SM2 (P P_MINUS_TWO P_PRIME MODP_2E512 SQRT_EXP MODP_MONT_ONE MODP_MONT_A MODP_MONT_B G_X G_Y
  N N_NEG N_MINUS_TWO N_PRIME MOD_N_2E512)

/-! fp64.rs -/
def fp_mul (a b : Nat) : Nat := montMul P P_PRIME MODP_MONT_ONE a b
def fp_sqr (a : Nat) : Nat := fp_mul a a
def fp_add (a b : Nat) : Nat := modAdd P MODP_MONT_ONE a b
def fp_sub (a b : Nat) : Nat := modSub MODP_MONT_ONE a b
def fp_double (a : Nat) : Nat := fp_add a a
def fp_triple (a : Nat) : Nat := fp_add a (fp_double a)
def fp_neg (a : Nat) : Nat := modNeg P a
def fp_div2 (a : Nat) : Nat := modDiv2 P a
def fp_to_mont (a : Nat) : Nat := fp_mul a MODP_2E512
def fp_from_mont (a : Nat) : Nat := fp_mul a 1
def fp_pow (a e : Nat) : Nat := powLoop fp_mul MODP_MONT_ONE a e
def fp_inv (a : Nat) : Nat := fp_pow a P_MINUS_TWO
/-- `fp_sqrt`: `Err(FieldSqrtError)` = none -/
def fp_sqrt (a : Nat) : Option Nat :=
  let r := fp_pow a SQRT_EXP
  if fp_sqr r ≠ a then none else some r

/-! fn64.rs -/
def fn_mont_mul (a b : Nat) : Nat := montMul N N_PRIME N_NEG a b
def fn_add (a b : Nat) : Nat := modAdd N N_NEG a b
def fn_sub (a b : Nat) : Nat := modSub N_NEG a b
def fn_to_mont (a : Nat) : Nat := fn_mont_mul a MOD_N_2E512
def fn_from_mont (a : Nat) : Nat := fn_mont_mul a 1
def fn_mul (a b : Nat) : Nat := fn_from_mont (fn_mont_mul (fn_to_mont a) (fn_to_mont b))
def fn_pow (a e : Nat) : Nat := fn_from_mont (powLoop fn_mont_mul N_NEG (fn_to_mont a) e)
def fn_inv (a : Nat) : Nat := fn_pow a N_MINUS_TWO

/-! limb-level instances (driver ops for the raw correspondence, and the statements of `Proofs.Limb`) -/
namespace L
open GmVerif.Impl.Limb
def uP := U256.ofNat P
def uPP := U256.ofNat P_PRIME
def uONE := U256.ofNat MODP_MONT_ONE
def uN := U256.ofNat N
def uNP := U256.ofNat N_PRIME
def uNNEG := U256.ofNat N_NEG
def fp_mul (a b : U256) : U256 := mont_mul uP uPP uONE a b
def fp_add (a b : U256) : U256 := mod_add uP uONE a b
def fp_sub (a b : U256) : U256 := mod_sub uONE a b
def fp_neg (a : U256) : U256 := mod_neg uP a
def fp_div2 (a : U256) : U256 := mod_div2 uP a
def fp_pow (a e : U256) : U256 := pow_loop fp_mul uONE a e
def fn_mont_mul (a b : U256) : U256 := mont_mul uN uNP uNNEG a b
def fn_add (a b : U256) : U256 := mod_add uN uNNEG a b
def fn_sub (a b : U256) : U256 := mod_sub uNNEG a b
def fn_to_mont (a : U256) : U256 := fn_mont_mul a (U256.ofNat MOD_N_2E512)
def fn_from_mont (a : U256) : U256 := fn_mont_mul a (U256.ofNat 1)
def fn_mul (a b : U256) : U256 := fn_from_mont (fn_mont_mul (fn_to_mont a) (fn_to_mont b))
def fn_pow (a e : U256) : U256 := fn_from_mont (pow_loop fn_mont_mul uNNEG (fn_to_mont a) e)
end L

end GmVerif.Impl.SM2
