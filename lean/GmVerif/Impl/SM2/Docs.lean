/-
Model of gm-sm2/src/pkcs.rs: SubjectPublicKeyInfo, PKCS#8 PrivateKeyInfo and SEC1 ECPrivateKey documents as the fixed
DER byte templates that the `pkcs8`/`sec1`/`der` crates produce for this curve (third-party DER parsing is modelled,
not verified: decoding accepts exactly the canonical template).
-/
import GmVerif.Impl.SM2.Key
namespace GmVerif.Impl.SM2
open GmVerif

/-- SEQUENCE(0x59){ SEQUENCE{ OID 1.2.840.10045.2.1, OID 1.2.156.10197.1.301 }, BIT STRING(0x42){ 00, 04‖x‖y } } -/
def spkiPrefix : List UInt8 :=
  [0x30,0x59,0x30,0x13,0x06,0x07,0x2a,0x86,0x48,0xce,0x3d,0x02,0x01,0x06,0x08,0x2a,0x81,0x1c,0xcf,0x55,0x01,0x82,0x2d,0x03,0x42,0x00]

def spki_encode (pk : Point) : List UInt8 := spkiPrefix ++ pk.to_byte_be false

def spki_decode (der : List UInt8) : Outcome Point :=
  if der.length = 91 ∧ der.take 26 = spkiPrefix then
    match pk_new (der.drop 26) with
    | .ok p => .ok p
    | .err _ => .err "Spki"
    | .panic => .panic
  else .err "Spki"

/-- PrivateKeyInfo{ 0, AlgId, OCTET STRING{ ECPrivateKey{ 1, OCTET STRING d, [1]{ BIT STRING 00‖04‖x‖y } } } } -/
def pkcs8Prefix : List UInt8 :=
  [0x30,0x81,0x87,0x02,0x01,0x00,0x30,0x13,0x06,0x07,0x2a,0x86,0x48,0xce,0x3d,0x02,0x01,0x06,0x08,0x2a,0x81,0x1c,0xcf,0x55,0x01,0x82,0x2d,
   0x04,0x6d,0x30,0x6b,0x02,0x01,0x01,0x04,0x20]
def pkcs8Mid : List UInt8 := [0xa1,0x44,0x03,0x42,0x00]

def pkcs8_encode (d : Nat) (pk : Point) : List UInt8 := pkcs8Prefix ++ natBE 32 d ++ pkcs8Mid ++ pk.to_byte_be false

/-- decode of the canonical template: d through `Sm2PrivateKey::new`, the embedded public key must decode
(`Point::from_byte`) but is not compared with [d]G (`validate_public_key` always succeeds) -/
def pkcs8_decode (der : List UInt8) : Outcome (Nat × Point) :=
  if der.length = 138 ∧ der.take 36 = pkcs8Prefix ∧ (der.drop 68).take 5 = pkcs8Mid then
    match sk_new ((der.drop 36).take 32) with
    | .ok (d, p) =>
      (match Point.from_byte (der.drop 73) with
       | .ok _ => .ok (d, p)
       | .err _ => .err "Pkcs8"
       | .panic => .panic)
    | .err _ => .err "Pkcs8"
    | .panic => .panic
  else .err "Pkcs8"

end GmVerif.Impl.SM2
