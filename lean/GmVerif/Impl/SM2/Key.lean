/-
Model of gm-sm2/src/util.rs (compute_za, kdf, xor_bytes), key.rs (Sm2PublicKey, Sm2PrivateKey: new, sign, verify,
encrypt, decrypt, encrypt_asn1, decrypt_asn1, hex), exchange.rs (Exchange::exchange_1..4).
Randomness is a parameter: a list of 32-byte candidates consumed by `random_u256`; the functions return the scalars
accepted (what the hook's recorder logs) and the unused candidates.
-/
import GmVerif.Impl.SM2.Curve
import GmVerif.Impl.SM3
namespace GmVerif.Impl.SM2
open GmVerif
open GmVerif.Gen.SM2 (P N N_MINUS_TWO MODP_MONT_A MODP_MONT_B G_X G_Y)

/-- SM3 through the model of gm-sm3 (never panics: `Thm.C01.sm3_total`); a panic would surface as [] -/
def sm3 (m : List UInt8) : List UInt8 :=
  match Impl.SM3.sm3_hash m with
  | .ok d => d
  | _ => []

/-- outcome of a randomised operation: value, scalars accepted by `random_u256`, unused candidates -/
structure Rand (α : Type) where
  val : α
  used : List Nat
  rest : List (List UInt8)

/-- `random_u256` (after the fix: range [1, n-1]); `none` = the candidate list ran out (cannot happen with a real RNG) -/
def random_u256 : List (List UInt8) → Option (Nat × List (List UInt8))
  | [] => none
  | c :: cs => let v := beNat c; if v < N ∧ v ≠ 0 then some (v, cs) else random_u256 cs

/-- `compute_za(id, pk)` -/
def compute_za (id : List UInt8) (pk : Point) : Outcome (List UInt8) :=
  if ¬ pk.is_valid then .err "InvalidPublic"
  else if id.length * 8 > 65535 then .err "IdTooLong"
  else
    let a := pk.to_affine_point
    .ok (sm3 (natBE 2 (id.length * 8) ++ id ++ bytes32 (fp_from_mont MODP_MONT_A) ++ bytes32 (fp_from_mont MODP_MONT_B)
              ++ bytes32 G_X ++ bytes32 G_Y ++ bytes32 (fp_from_mont a.x) ++ bytes32 (fp_from_mont a.y)))

/-- `kdf(z, klen)`: `bound = ceil(klen/32)` computed in f64 (exact for klen < 2^37, see DESIGN §4);
`for _i in 1..bound` then one more block, of which `klen % 32` bytes (all 32 when that is 0 — also for klen = 0) -/
def kdfLoop (z : List UInt8) : Nat → Nat → List UInt8 → Nat × List UInt8
  | ct, 0, acc => (ct, acc)
  | ct, n + 1, acc => kdfLoop z (ct + 1) n (acc ++ sm3 (z ++ natBE 4 ct))

def kdf (z : List UInt8) (klen : Nat) : List UInt8 :=
  let bound := (klen + 31) / 32
  let (ct, h_a) := kdfLoop z 1 (bound - 1) []
  let last := sm3 (z ++ natBE 4 ct)
  if klen % 32 = 0 then h_a ++ last else h_a ++ last.take (klen % 32)

/-- `xor_bytes`: `assert_eq!(a.len(), b.len())` -/
def xor_bytes (a b : List UInt8) : Outcome (List UInt8) :=
  if a.length ≠ b.length then .panic else .ok (List.zipWith (· ^^^ ·) a b)

def DEFAULT_ID : List UInt8 := "1234567812345678".toUTF8.toList

/-- `Sm2PublicKey::new` -/
def pk_new (b : List UInt8) : Outcome Point :=
  match Point.from_byte b with
  | .ok p => if p.is_valid then .ok p else .err "InvalidPublic"
  | .err e => .err e
  | .panic => .panic

/-- `public_from_private` -/
def public_from_private (d : Nat) : Outcome Point :=
  let p := g_mul d
  if p.is_valid then .ok p else .err "InvalidPublic"

/-- `Sm2PrivateKey::new` (after the fix: 32 bytes, d in [1, n-2]) -/
def sk_new (sk : List UInt8) : Outcome (Nat × Point) :=
  if sk.length ≠ 32 then .err "InvalidPrivate"
  else
    let d := beNat sk
    if d = 0 ∨ d > N_MINUS_TWO then .err "InvalidPrivate"
    else match public_from_private d with
      | .ok p => .ok (d, p)
      | .err e => .err e
      | .panic => .panic

def reduceN (x : Nat) : Nat := if x ≥ N then x - N else x

/-- the `loop` of `sign_raw` over the candidate list -/
def signLoop (e d s1 : Nat) : Nat → List (List UInt8) → List Nat → Outcome (Rand (List UInt8))
  | 0, _, _ => .err "rng-exhausted"
  | fuel + 1, cands, used =>
    match random_u256 cands with
    | none => .err "rng-exhausted"
    | some (k, rest) =>
      let used := used ++ [k]
      let p_x := (g_mul k).to_affine_point
      let x1 := reduceN (fp_from_mont p_x.x)
      let r := fn_add e x1
      if r = 0 ∨ (r + k) % 2 ^ 256 = N then signLoop e d s1 fuel rest used
      else
        let s := fn_mul s1 (fn_sub k (fn_mul r d))
        if s = 0 then signLoop e d s1 fuel rest used
        else .ok ⟨bytes32 r ++ bytes32 s, used, rest⟩

/-- `sign_raw(digest, sk)` -/
def sign_raw (digest : List UInt8) (d : Nat) (cands : List (List UInt8)) : Outcome (Rand (List UInt8)) :=
  if digest.length ≠ 32 then .err "InvalidDigestLen"
  else
    let e := reduceN (beNat digest)
    let s1 := fn_pow ((1 + d) % 2 ^ 256) N_MINUS_TWO
    signLoop e d s1 (cands.length + 1) cands []

/-- `Sm2PrivateKey::sign(id, msg)` -/
def sign (d : Nat) (pk : Point) (id msg : List UInt8) (cands : List (List UInt8)) : Outcome (Rand (List UInt8)) :=
  match compute_za id pk with
  | .ok za => sign_raw (sm3 (za ++ msg)) d cands
  | .err e => .err e
  | .panic => .panic

/-- `verify_raw(digest, pk, sig)` (after the fixes: length check first; the sum at infinity is rejected) -/
def verify_raw (digest : List UInt8) (pk : Point) (sig : List UInt8) : Outcome Unit :=
  if digest.length ≠ 32 then .err "InvalidDigestLen"
  else if sig.length ≠ 64 then .err "InvalidDigest"
  else
    let r := beNat (sig.take 32)
    let s := beNat (sig.drop 32)
    if r = 0 ∨ s = 0 then .err "ZeroSig"
    else if r ≥ N ∨ s ≥ N then .err "InvalidDigest"
    else
      let t := fn_add s r
      if t = 0 then .err "InvalidDigest"
      else
        let sum := (g_mul s).point_add (pk.scalar_mul t)
        -- `if sum.is_zero() { return Err(InvalidDigest) }` (B6: no x coordinate at infinity)
        if sum.is_zero then .err "InvalidDigest"
        else
        let p := sum.to_affine_point
        let x1 := reduceN (fp_from_mont p.x)
        let e := reduceN (beNat digest)
        if r = fn_add x1 e then .ok () else .err "InvalidDigest"

def verify (pk : Point) (id msg sig : List UInt8) : Outcome Unit :=
  match compute_za id pk with
  | .ok za => verify_raw (sm3 (za ++ msg)) pk sig
  | .err e => .err e
  | .panic => .panic

inductive Model where
  | c1c2c3 | c1c3c2
deriving DecidableEq, Repr

/-- the `loop` of `Sm2PublicKey::encrypt` -/
def encLoop (pk : Point) (msg : List UInt8) (compressed : Bool) (model : Model) :
    Nat → List (List UInt8) → List Nat → Outcome (Rand (List UInt8))
  | 0, _, _ => .err "rng-exhausted"
  | fuel + 1, cands, used =>
    match random_u256 cands with
    | none => .err "rng-exhausted"
    | some (k, rest) =>
      let used := used ++ [k]
      let c1_p := (g_mul k).to_affine_point
      let s_p := pk.scalar_mul 1
      if s_p.is_zero then .err "ZeroPoint"
      else
        let c2_p := (pk.scalar_mul k).to_affine_point
        let x2 := bytes32 (fp_from_mont c2_p.x)
        let y2 := bytes32 (fp_from_mont c2_p.y)
        let t := kdf (x2 ++ y2) msg.length
        if t.all (· == 0) then encLoop pk msg compressed model fuel rest used
        else
          match xor_bytes msg t with
          | .ok c2 =>
            let c3 := sm3 (x2 ++ msg ++ y2)
            let c1 := c1_p.to_byte_be compressed
            .ok ⟨match model with | .c1c2c3 => c1 ++ c2 ++ c3 | .c1c3c2 => c1 ++ c3 ++ c2, used, rest⟩
          | .err e => .err e
          | .panic => .panic

/-- `Sm2PublicKey::encrypt` (after the fix: empty message is an error) -/
def encrypt (pk : Point) (msg : List UInt8) (compressed : Bool) (model : Model) (cands : List (List UInt8)) :
    Outcome (Rand (List UInt8)) :=
  if msg.isEmpty then .err "ZeroData" else encLoop pk msg compressed model (cands.length + 1) cands []

/-- `Sm2PrivateKey::decrypt` (after the fix: length check) -/
def decrypt (d : Nat) (ct : List UInt8) (compressed : Bool) (model : Model) : Outcome (List UInt8) :=
  let c1_end := if compressed then 33 else 65
  if ct.length < c1_end + 32 + 1 then .err "InvalidFieldLen"
  else
    let c1_bytes := ct.take c1_end
    let len := ct.length
    let c2_bytes := match model with
      | .c1c2c3 => (ct.drop c1_end).take (len - 32 - c1_end)
      | .c1c3c2 => ct.drop (c1_end + 32)
    let c3_bytes := match model with
      | .c1c2c3 => ct.drop (len - 32)
      | .c1c3c2 => (ct.drop c1_end).take 32
    let kelen := c2_bytes.length
    match Point.from_byte c1_bytes with
    | .err e => .err e
    | .panic => .panic
    | .ok c1 =>
      if ¬ c1.to_affine_point.is_valid_affine_point then .err "CheckPointErr"
      else if (c1.scalar_mul 1).is_zero then .err "ZeroPoint"
      else
        let c2_point := (c1.scalar_mul d).to_affine_point
        let x2 := bytes32 (fp_from_mont c2_point.x)
        let y2 := bytes32 (fp_from_mont c2_point.y)
        let t := kdf (x2 ++ y2) kelen
        if t.all (· == 0) then .err "ZeroData"
        else
          match xor_bytes c2_bytes t with
          | .ok mb =>
            if sm3 (x2 ++ mb ++ y2) ≠ c3_bytes then .err "HashNotEqual" else .ok mb
          | .err e => .err e
          | .panic => .panic

/-! ### DER as written/read by `yasna` for the GM/T 0009 ciphertext (modelled, not verified) -/

def derLen (l : Nat) : List UInt8 :=
  if l < 128 then [l.toUInt8]
  else
    let bytes := ((List.range 8).reverse.map fun i => (l / 256 ^ i % 256).toUInt8).dropWhile (· == 0)
    (0x80 + bytes.length).toUInt8 :: bytes

/-- `write_biguint` -/
def derBiguint (x : Nat) : List UInt8 :=
  let mag := (natBE 33 x).dropWhile (· == 0)
  let mag := if mag.isEmpty then [0] else mag
  let body := if mag.headD 0 ≥ 0x80 then 0 :: mag else mag
  0x02 :: (derLen body.length ++ body)

def derBytes (bs : List UInt8) : List UInt8 := 0x04 :: (derLen bs.length ++ bs)

/-- DER length: short form, or long form with minimal number of length bytes and value ≥ 128 -/
def readLen : List UInt8 → Option (Nat × List UInt8)
  | [] => none
  | b :: rest =>
    if b < 0x80 then some (b.toNat, rest)
    else
      let n := b.toNat - 0x80
      if n = 0 ∨ n > 8 ∨ rest.length < n then none
      else
        let lb := rest.take n
        let l := beNat lb
        if lb.headD 0 = 0 ∨ l < 128 then none else some (l, rest.drop n)

/-- one TLV with the expected tag: (contents, remainder) -/
def readTLV (tag : UInt8) : List UInt8 → Option (List UInt8 × List UInt8)
  | [] => none
  | t :: rest =>
    if t ≠ tag then none
    else match readLen rest with
      | none => none
      | some (l, r2) => if r2.length < l then none else some (r2.take l, r2.drop l)

/-- `read_biguint` followed by `BigUint::to_bytes_be`: the minimal big-endian magnitude ([0] for zero) of a
non-negative, minimally encoded INTEGER -/
def readBiguint (bs : List UInt8) : Option (List UInt8 × List UInt8) :=
  match readTLV 0x02 bs with
  | none => none
  | some (c, rest) =>
    match c with
    | [] => none
    | [b] => if b ≥ 0x80 then none else some ([b], rest)
    | b0 :: b1 :: tl =>
      if b0 ≥ 0x80 then none                                   -- negative
      else if b0 = 0 ∧ b1 < 0x80 then none                      -- non-minimal
      else if b0 = 0 then some (b1 :: tl, rest)                 -- sign byte dropped
      else some (c, rest)

/-- (x magnitude, y magnitude, hash, cipher) of a GM/T 0009 ciphertext; `none` = yasna reports a parse error -/
def parseCiphertext (der : List UInt8) : Option (List UInt8 × List UInt8 × List UInt8 × List UInt8) :=
  match readTLV 0x30 der with
  | none => none
  | some (body, trailing) =>
    if ¬ trailing.isEmpty then none
    else match readBiguint body with
      | none => none
      | some (x, r1) => match readBiguint r1 with
        | none => none
        | some (y, r2) => match readTLV 0x04 r2 with
          | none => none
          | some (h, r3) => match readTLV 0x04 r3 with
            | none => none
            | some (c, r4) => if r4.isEmpty then some (x, y, h, c) else none

/-- `encrypt_asn1` (after the fix) -/
def encrypt_asn1 (pk : Point) (msg : List UInt8) (cands : List (List UInt8)) : Outcome (Rand (List UInt8)) :=
  match encrypt pk msg false .c1c3c2 cands with
  | .ok ⟨c, used, rest⟩ =>
    let x := beNat ((c.drop 1).take 32)
    let y := beNat ((c.drop 33).take 32)
    let sm3v := (c.drop 65).take 32
    let secret := c.drop 97
    let body := derBiguint x ++ derBiguint y ++ derBytes sm3v ++ derBytes secret
    .ok ⟨0x30 :: (derLen body.length ++ body), used, rest⟩
  | .err e => .err e
  | .panic => .panic

/-- `decrypt_asn1` (after the fix) -/
def decrypt_asn1 (d : Nat) (der : List UInt8) : Outcome (List UInt8) :=
  match parseCiphertext der with
  | none => .err "InvalidDer"
  | some (xb, yb, h, c) =>
    if xb.length > 32 ∨ yb.length > 32 ∨ h.length ≠ 32 then .err "InvalidDer"
    else
      decrypt d ([0x04] ++ List.replicate (32 - xb.length) 0 ++ xb ++ List.replicate (32 - yb.length) 0 ++ yb ++ h ++ c)
        false .c1c3c2

/-! ### key agreement (exchange.rs) -/

def pow127 : Nat := 2 ^ 127
/-- `u256_add(&pow, &u256_bits_and(&x, &u256_sub(&pow, &SM2_ONE).0)).0` -/
def xbar (x : Nat) : Nat := (pow127 + x % pow127) % 2 ^ 256

structure KexOut where
  ra : List UInt8
  rb : List UInt8
  sb : List UInt8
  sa : List UInt8
  ka : List UInt8
  kb : List UInt8

/-- what a tampering adversary does to a point in transit (mirrors the harness): flip the lowest bit of x, no validation -/
def flipPoint (p : Point) : Point :=
  let b := p.to_byte_be false
  let x := beNat ((b.drop 1).take 32)
  let y := beNat (b.drop 33)
  let x' := if x % 2 = 0 then x + 1 else x - 1
  to_jacobi (fp_to_mont x') (fp_to_mont y)

def flipFirst (h : List UInt8) : List UInt8 := match h with | [] => [] | b :: r => (b ^^^ 1) :: r
def flipLast (h : List UInt8) : List UInt8 := (h.take 31) ++ (h.drop 31).map (· ^^^ 0x80)

/-- honest (or tampered) run of `Exchange::new` ×2, `exchange_1`, `exchange_2`, `exchange_3`, `exchange_4` -/
def kex (dA : Nat) (pA : Point) (dB : Nat) (pB : Point) (idA idB : List UInt8) (klen : Nat)
    (cands : List (List UInt8)) (tamper : List String) : Outcome KexOut :=
  match compute_za idA pA, compute_za idB pB with
  | .ok za, .ok zb =>
    -- exchange_1 (A)
    match random_u256 cands with
    | none => .err "rng-exhausted"
    | some (rA, cands) =>
      let raPoint := g_mul rA
      let raB := if tamper.contains "ra" then flipPoint raPoint else raPoint
      -- exchange_2 (B)
      if ¬ raB.is_valid then .err "step2:CheckPointErr"
      else match random_u256 cands with
      | none => .err "rng-exhausted"
      | some (rB, _) =>
        let rbPoint := g_mul rB
        let r2a := rbPoint.to_affine_point
        let x2 := fp_from_mont r2a.x
        let y2 := fp_from_mont r2a.y
        let t2 := fn_add dB (fn_mul rB (xbar x2))
        let ra_aff := raB.to_affine_point
        let x1 := fp_from_mont ra_aff.x
        let y1 := fp_from_mont ra_aff.y
        let v := (pA.point_add (raB.scalar_mul (xbar x1))).scalar_mul t2
        if v.is_zero then .err "step2:ZeroPoint"
        else
          let va := v.to_affine_point
          let xv := bytes32 (fp_from_mont va.x)
          let yv := bytes32 (fp_from_mont va.y)
          let kb := kdf (xv ++ yv ++ za ++ zb) klen
          let innerB := sm3 (xv ++ za ++ zb ++ bytes32 x1 ++ bytes32 y1 ++ bytes32 x2 ++ bytes32 y2)
          let sb := sm3 ([0x02] ++ yv ++ innerB)
          -- in transit
          let rbA := if tamper.contains "rb" then flipPoint rbPoint else rbPoint
          let sbA := if tamper.contains "sb" then flipFirst sb else sb
          -- exchange_3 (A)
          if ¬ rbA.is_valid then .err "step3:CheckPointErr"
          else
            let ra_aff' := raPoint.to_affine_point
            let x1a := fp_from_mont ra_aff'.x
            let y1a := fp_from_mont ra_aff'.y
            let tA := fn_add dA (fn_mul rA (xbar x1a))
            let rb_aff := rbA.to_affine_point
            let x2a := fp_from_mont rb_aff.x
            let y2a := fp_from_mont rb_aff.y
            let u := (pB.point_add (rbA.scalar_mul (xbar x2a))).scalar_mul tA
            if u.is_zero then .err "step3:ZeroPoint"
            else
              let ua := u.to_affine_point
              let xu := bytes32 (fp_from_mont ua.x)
              let yu := bytes32 (fp_from_mont ua.y)
              let ka := kdf (xu ++ yu ++ za ++ zb) klen
              let innerA := sm3 (xu ++ za ++ zb ++ bytes32 x1a ++ bytes32 y1a ++ bytes32 x2a ++ bytes32 y2a)
              let s1 := sm3 ([0x02] ++ yu ++ innerA)
              if s1 ≠ sbA then .err "step3:HashNotEqual"
              else
                let sa := sm3 ([0x03] ++ yu ++ innerA)
                let saB := if tamper.contains "sa" then flipLast sa else sa
                -- exchange_4 (B)
                let s2 := sm3 ([0x03] ++ yv ++ innerB)
                if s2 ≠ saB then .err "step4:false"
                else .ok ⟨raPoint.to_byte_be false, rbPoint.to_byte_be false, sb, sa, ka, kb⟩
  | .err e, _ => .err e
  | _, .err e => .err e
  | _, _ => .panic

end GmVerif.Impl.SM2
