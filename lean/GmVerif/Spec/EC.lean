/-
Textbook short-Weierstrass arithmetic over a prime field, on natural numbers (affine, with explicit
modular inverses).  Shared by Spec.SM2 and Spec.SM9 (G1).  FROZEN.
-/
import GmVerif.Common
namespace GmVerif.Spec.EC

/-- square-and-multiply `a^e mod m` (recursion on the exponent's binary digits) -/
def powMod (a e m : Nat) : Nat :=
  if h : e = 0 then 1 % m
  else
    let t := powMod a (e / 2) m
    let t2 := t * t % m
    if e % 2 = 1 then t2 * a % m else t2
termination_by e
decreasing_by omega

/-- inverse modulo a prime `p` by Fermat: a^(p-2) -/
def invMod (a p : Nat) : Nat := powMod a (p - 2) p

structure Curve where
  p : Nat
  a : Nat
  b : Nat
deriving Repr, DecidableEq

/-- affine point; `none` is the point at infinity -/
abbrev Pt := Option (Nat × Nat)

def onCurve (c : Curve) : Pt → Bool
  | none => true
  | some (x, y) => x < c.p && y < c.p && (y * y) % c.p == (x * x % c.p * x + c.a * x + c.b) % c.p

def neg (c : Curve) : Pt → Pt
  | none => none
  | some (x, y) => some (x, (c.p - y) % c.p)

/-- the group law (GB/T 32918.1 §3.2.3.1) -/
def add (c : Curve) (P Q : Pt) : Pt :=
  match P, Q with
  | none, q => q
  | p, none => p
  | some (x1, y1), some (x2, y2) =>
    if x1 = x2 then
      if (y1 + y2) % c.p = 0 then none
      else
        let lam := (3 * x1 * x1 + c.a) % c.p * invMod (2 * y1 % c.p) c.p % c.p
        let x3 := (lam * lam + 2 * (c.p - x1)) % c.p
        let y3 := (lam * ((x1 + (c.p - x3)) % c.p) + (c.p - y1)) % c.p
        some (x3, y3)
    else
      let lam := ((y2 + (c.p - y1)) % c.p) * invMod ((x2 + (c.p - x1)) % c.p) c.p % c.p
      let x3 := (lam * lam + (c.p - x1) + (c.p - x2)) % c.p
      let y3 := (lam * ((x1 + (c.p - x3)) % c.p) + (c.p - y1)) % c.p
      some (x3, y3)

/-- [k]P by right-to-left double-and-add -/
def mul (c : Curve) (k : Nat) (P : Pt) : Pt :=
  if h : k = 0 then none
  else
    let h2 := mul c (k / 2) (add c P P)
    if k % 2 = 1 then add c P h2 else h2
termination_by k
decreasing_by omega

end GmVerif.Spec.EC
