/-
128-EEA3 and 128-EIA3 (3GPP TS 35.221 / ETSI-SAGE Document 1, v1.7 — the corrected EIA3), on bit streams.  FROZEN.
EEA3 §3: IV from COUNT‖BEARER‖DIRECTION, L = ⌈LENGTH/32⌉ keystream words, OBS[i] = IBS[i] ⊕ k[i] for i < LENGTH.
EIA3 §4: IV with DIRECTION in bits 0 of IV[8] and IV[14]; N = LENGTH+64, L = ⌈N/32⌉; z_i = k[i..i+31];
T = ⊕_{i<LENGTH, M[i]=1} z_i ⊕ z_LENGTH; MAC = T ⊕ z_{32(L−1)}.
Words are big-endian bit containers (bit 0 of the stream is the most significant bit of word 0).
-/
import GmVerif.Common
import GmVerif.Spec.ZUC
namespace GmVerif.Spec.EEA3

def bitsOfWord (w : UInt32) : List Bool := (List.range 32).map fun i => (w >>> (31 - i).toUInt32) &&& 1 = 1
def bitsOfWords (ws : List UInt32) : List Bool := ws.flatMap bitsOfWord

/-- value of up to 32 bits, first bit most significant, as the top bits of a word (zero-filled below) -/
def wordOfBits (bs : List Bool) : UInt32 :=
  (List.range 32).foldl (fun acc i => (acc <<< 1) ||| (if bs.getD i false then 1 else 0)) 0

def packWords : List Bool → Nat → List UInt32
  | _, 0 => []
  | bs, n + 1 => wordOfBits (bs.take 32) :: packWords (bs.drop 32) n

/-- EEA3 IV: COUNT[0..3], BEARER‖DIRECTION‖00, 0,0,0, repeated -/
def ivEEA (count : UInt32) (bearer direction : Nat) : List UInt8 :=
  let h := be32 count ++ [(bearer * 8 + direction * 4).toUInt8, 0, 0, 0]
  h ++ h

/-- EIA3 IV -/
def ivEIA (count : UInt32) (bearer direction : Nat) : List UInt8 :=
  let c := be32 count
  let b : UInt8 := (bearer * 8).toUInt8
  let d : UInt8 := (direction * 128).toUInt8
  c ++ [b, 0, 0, 0] ++ [c.getD 0 0 ^^^ d, c.getD 1 0, c.getD 2 0, c.getD 3 0] ++ [b, 0, d, 0]

def xorBits (a b : List Bool) : List Bool := List.zipWith (fun x y => x != y) a b

/-- 128-EEA3: the first LENGTH bits of M ⊕ keystream, zero-filled to ⌈LENGTH/32⌉ words.
Requires `bearer < 32`, `direction < 2`, `msg.length ≥ ⌈LENGTH/32⌉`. -/
def eea3 (ck : List UInt8) (count : UInt32) (bearer direction : Nat) (length : Nat) (msg : List UInt32) :
    List UInt32 :=
  let L := (length + 31) / 32
  let z := bitsOfWords (ZUC.stream ck (ivEEA count bearer direction) L)
  let m := bitsOfWords msg
  packWords (xorBits (m.take length) (z.take length)) L

/-- 128-EIA3 -/
def eia3 (ik : List UInt8) (count : UInt32) (bearer direction : Nat) (length : Nat) (msg : List UInt32) :
    UInt32 :=
  let L := (length + 64 + 31) / 32
  let z := bitsOfWords (ZUC.stream ik (ivEIA count bearer direction) L)
  let zw (i : Nat) : UInt32 := wordOfBits ((z.drop i).take 32)
  let m := bitsOfWords msg
  let t := (List.range length).foldl (fun t i => if m.getD i false then t ^^^ zw i else t) 0
  t ^^^ zw length ^^^ zw (32 * (L - 1))

end GmVerif.Spec.EEA3
