/-
SM9 (GM/T 0044.1–.5-2016), transcribed from the mathematics of the standard in the plainest possible style.  FROZEN.
Part 5: parameters (BN curve, t, p, N, P1, P2, hid).  Part 1: finite fields, the curve, its sextic twist, the R-ate
pairing (Annex: Miller algorithm with chord/tangent lines, Frobenius end steps, exponent (p¹²−1)/N).
Part 2: H1, H2, key extraction, signature.  Part 3: key exchange.  Part 4: KDF, MAC, encryption.
All randomness is a parameter.

Style: Fp12 is the DENSE quotient Fp[w]/(w¹² + 2) (lists of 12 coefficients); multiplication is the integer polynomial
product followed by reduction, inversion is the extended Euclidean algorithm in Fp[w], Frobenius is x ↦ x^p, the
Miller loop runs on affine points of E(Fp12) with generic line functions and the final exponentiation uses the
literal integer (p¹²−1)/N.  Nothing here depends on a tower, on Jacobian coordinates or on Montgomery form.
-/
import GmVerif.Spec.EC
import GmVerif.Spec.SM3
import GmVerif.Spec.SM2
namespace GmVerif.Spec.SM9
open GmVerif GmVerif.Spec.EC

/-! ### GM/T 0044.5: parameters -/

def t : Nat := 0x600000000058F98A
def p : Nat := 0xB640000002A3A6F1D603AB4FF58EC74521F2934B1A7AEEDBE56F9B27E351457D
def N : Nat := 0xB640000002A3A6F1D603AB4FF58EC74449F2934B18EA8BEEE56EE19CD69ECF25
def b : Nat := 5
/-- cofactor of G1 in E(Fp) -/
def cf : Nat := 1

example : p = 36 * t ^ 4 + 36 * t ^ 3 + 24 * t ^ 2 + 6 * t + 1 := by decide
example : N = 36 * t ^ 4 + 36 * t ^ 3 + 18 * t ^ 2 + 6 * t + 1 := by decide

/-- E : y² = x³ + 5 over Fp -/
def curve : Curve := ⟨p, 0, b⟩

def P1 : Pt := some
  (0x93DE051D62BF718FF5ED0704487D01D6E1E4086909DC3280E8C4E4817C66DDDD,
   0x21FE8DDA4F21E607631065125C395BBC1C1C00CBFA6024350C464CD70A3EA616)

/-- identifiers of the private-key generating functions -/
def hidSign : UInt8 := 0x01
def hidExch : UInt8 := 0x02
def hidEnc : UInt8 := 0x03

/-! ### Fp2 = Fp[u]/(u² + 2), as pairs (x, y) = x + y·u -/

abbrev Fp2 := Nat × Nat

namespace Fp2
def zero : Fp2 := (0, 0)
def one : Fp2 := (1, 0)
def ofPair (x y : Nat) : Fp2 := (x % p, y % p)
def add (a c : Fp2) : Fp2 := ((a.1 + c.1) % p, (a.2 + c.2) % p)
def neg (a : Fp2) : Fp2 := ((p - a.1 % p) % p, (p - a.2 % p) % p)
def sub (a c : Fp2) : Fp2 := add a (neg c)
/-- (x₁ + y₁u)(x₂ + y₂u) = (x₁x₂ − 2y₁y₂) + (x₁y₂ + y₁x₂)u -/
def mul (a c : Fp2) : Fp2 :=
  ((a.1 * c.1 + (p - 2 * (a.2 * c.2) % p)) % p, (a.1 * c.2 + a.2 * c.1) % p)
def scale (k : Nat) (a : Fp2) : Fp2 := (k * a.1 % p, k * a.2 % p)
/-- (x + yu)⁻¹ = (x − yu)/(x² + 2y²) -/
def inv (a : Fp2) : Fp2 :=
  let d := invMod ((a.1 * a.1 + 2 * (a.2 * a.2)) % p) p
  (a.1 * d % p, (p - a.2 % p) % p * d % p)
end Fp2

/-! ### the twist E' : y² = x³ + 5u over Fp2 and the group G2 -/

/-- affine point of E'(Fp2); `none` is the point at infinity -/
abbrev Pt2 := Option (Fp2 × Fp2)

/-- b' = 5u -/
def bTwist : Fp2 := (0, 5)

def P2 : Pt2 := some
  ((0x3722755292130B08D2AAB97FD34EC120EE265948D19C17ABF9B7213BAF82D65B,
    0x85AEF3D078640C98597B6027B441A01FF1DD2C190F5E93C454806C11D8806141),
   (0xA7CF28D519BE3DA65F3170153D278FF247EFBA98A71A08116215BBA5C999A7C7,
    0x17509B092E845C1266BA0D262CBEE6ED0736A96FA347C8BD856DC76B84EBEB96))

def onTwist : Pt2 → Bool
  | none => true
  | some (x, y) =>
    x.1 < p && x.2 < p && y.1 < p && y.2 < p &&
      Fp2.mul y y == Fp2.add (Fp2.mul (Fp2.mul x x) x) bTwist

def neg2 : Pt2 → Pt2
  | none => none
  | some (x, y) => some (x, Fp2.neg y)

/-- the group law on E'(Fp2) (chord and tangent, a = 0) -/
def add2 (P Q : Pt2) : Pt2 :=
  match P, Q with
  | none, q => q
  | p, none => p
  | some (x1, y1), some (x2, y2) =>
    if x1 = x2 then
      if Fp2.add y1 y2 = Fp2.zero then none
      else
        let lam := Fp2.mul (Fp2.scale 3 (Fp2.mul x1 x1)) (Fp2.inv (Fp2.scale 2 y1))
        let x3 := Fp2.sub (Fp2.mul lam lam) (Fp2.scale 2 x1)
        let y3 := Fp2.sub (Fp2.mul lam (Fp2.sub x1 x3)) y1
        some (x3, y3)
    else
      let lam := Fp2.mul (Fp2.sub y2 y1) (Fp2.inv (Fp2.sub x2 x1))
      let x3 := Fp2.sub (Fp2.sub (Fp2.mul lam lam) x1) x2
      let y3 := Fp2.sub (Fp2.mul lam (Fp2.sub x1 x3)) y1
      some (x3, y3)

/-- [k]P by right-to-left double-and-add -/
def mul2 (k : Nat) (P : Pt2) : Pt2 :=
  if _h : k = 0 then none
  else
    let h2 := mul2 (k / 2) (add2 P P)
    if k % 2 = 1 then add2 P h2 else h2
termination_by k
decreasing_by omega

/-! ### polynomials over Fp (little-endian coefficient lists) and Fp12 = Fp[w]/(w¹² + 2) -/

def padTo (n : Nat) (a : List Nat) : List Nat := a ++ List.replicate (n - a.length) 0

/-- drop the zero coefficients of highest degree: afterwards `length = degree + 1` (and `[]` is the zero polynomial) -/
def polyNorm (a : List Nat) : List Nat := (a.reverse.dropWhile (· == 0)).reverse

def polyAdd (a c : List Nat) : List Nat :=
  let n := max a.length c.length
  List.zipWith (fun x y => (x + y) % p) (padTo n a) (padTo n c)
def polyNeg (a : List Nat) : List Nat := a.map fun x => (p - x % p) % p
def polySub (a c : List Nat) : List Nat := polyAdd a (polyNeg c)
def polyScale (k : Nat) (a : List Nat) : List Nat := a.map fun x => k * x % p

/-- product in ℕ[w] (schoolbook, no reduction) -/
def rawAdd : List Nat → List Nat → List Nat
  | [], c => c
  | a, [] => a
  | x :: xs, y :: ys => (x + y) :: rawAdd xs ys
def rawMul : List Nat → List Nat → List Nat
  | [], _ => []
  | x :: xs, c => rawAdd (c.map (x * ·)) (0 :: rawMul xs c)

/-- product in Fp[w] -/
def polyMul (a c : List Nat) : List Nat := (rawMul a c).map (· % p)

/-- long division in Fp[w] by a non-zero normalised `d` with `lcInv` the inverse of its leading coefficient:
`(q, r)` with `a = q·d + r`, `deg r < deg d` -/
def polyDivModAux (d : List Nat) (lcInv : Nat) : Nat → List Nat → List Nat → List Nat × List Nat
  | 0, q, r => (q, r)
  | fuel + 1, q, r =>
    let r := polyNorm r
    if r.length < d.length then (q, r)
    else
      let m := List.replicate (r.length - d.length) 0 ++ [r.getLastD 0 * lcInv % p]
      polyDivModAux d lcInv fuel (polyAdd q m) (polySub r (polyMul m d))

def polyDivMod (a d : List Nat) : List Nat × List Nat :=
  let d := polyNorm d
  polyDivModAux d (invMod (d.getLastD 0) p) (a.length + 1) [] a

abbrev Fp12 := List Nat

/-- the defining polynomial w¹² + 2 -/
def modulus : List Nat := [2, 0, 0, 0, 0, 0, 0, 0, 0, 0, 0, 0, 1]

/-- fold w¹² = −2 until fewer than 13 coefficients remain -/
def reduceAux : Nat → List Nat → List Nat
  | 0, a => a.take 12
  | fuel + 1, a =>
    if a.length ≤ 12 then a
    else reduceAux fuel (polySub (a.take 12) (polyScale 2 (a.drop 12)))

/-- canonical representative (12 coefficients in [0, p)) of a polynomial with natural coefficients -/
def reduce (a : List Nat) : Fp12 := padTo 12 (reduceAux a.length (a.map (· % p)))

namespace Fp12
def ofNat (x : Nat) : Fp12 := reduce [x]
def zero : Fp12 := ofNat 0
def one : Fp12 := ofNat 1
/-- the generator w -/
def w : Fp12 := reduce [0, 1]
def add (a c : Fp12) : Fp12 := reduce (polyAdd a c)
def neg (a : Fp12) : Fp12 := reduce (polyNeg a)
def sub (a c : Fp12) : Fp12 := reduce (polySub a c)
def mul (a c : Fp12) : Fp12 := reduce (rawMul a c)

/-- square-and-multiply on the binary digits of a natural exponent -/
def pow (a : Fp12) (e : Nat) : Fp12 :=
  if _h : e = 0 then one
  else
    let s := pow a (e / 2)
    let s2 := mul s s
    if e % 2 = 1 then mul s2 a else s2
termination_by e
decreasing_by omega

/-- extended Euclid in Fp[w] on (w¹² + 2, a): invariant `rᵢ ≡ sᵢ·a (mod w¹² + 2)`; returns the last non-zero
remainder (a non-zero constant when a ≠ 0, the modulus being irreducible) and its cofactor -/
def egcdAux : Nat → List Nat → List Nat → List Nat → List Nat → List Nat × List Nat
  | 0, r0, s0, _, _ => (r0, s0)
  | fuel + 1, r0, s0, r1, s1 =>
    let r1 := polyNorm r1
    if r1.isEmpty then (r0, s0)
    else
      let (q, r) := polyDivMod r0 r1
      egcdAux fuel r1 s1 r (polySub s0 (polyMul q s1))

/-- a⁻¹ (and 0 for a = 0) -/
def inv (a : Fp12) : Fp12 :=
  let (g, s) := egcdAux 14 modulus [] a [1]
  if polyNorm a = [] then zero else reduce (polyScale (invMod (g.headD 0) p) s)

/-- the p-power Frobenius automorphism, literally x ↦ x^p -/
def frobenius (a : Fp12) : Fp12 := pow a p

/-- Fp ⊂ Fp12 and Fp2 ⊂ Fp12 via u = w⁶ -/
def ofFp2 (a : Fp2) : Fp12 := reduce [a.1, 0, 0, 0, 0, 0, a.2]

/-- Tower view  Fp12 = Fp4[w]/(w³ − v), Fp4 = Fp2[v]/(v² − u), Fp2 = Fp[u]/(u² + 2)  with v = w³, u = w⁶:
the component (i, j, l) of  Σ cᵢ wⁱ, cᵢ = aᵢ + bᵢ v, each x + y u  is the coefficient of w^(i + 3j + 6l).
A 12-tuple "in tower order" lists c₀ = (a₀.x, a₀.y, b₀.x, b₀.y), then c₁, then c₂: position 4i + 2j + l. -/
def ofTower (cs : List Nat) : Fp12 :=
  (List.range 12).map fun k => cs.getD (4 * (k % 3) + 2 * (k % 6 / 3) + k / 6) 0 % p

def toTower (a : Fp12) : List Nat :=
  (List.range 12).map fun n => a.getD (n / 4 + 3 * (n / 2 % 2) + 6 * (n % 2)) 0

/-- octet string of an Fp12 element (GM/T 0044.1 §6.2.8 with the 1-2-4-12 tower, as used in the part 5 Annex): c₂ ‖ c₁ ‖ c₀, each Fp4 as b ‖ a, each Fp2 as y ‖ x, each Fp as 32 big-endian
bytes — i.e. the tower order reversed.  384 bytes. -/
def toBytes (a : Fp12) : List UInt8 := (toTower a).reverse.flatMap (natBE 32)

end Fp12

/-! ### E(Fp12), the untwist, line functions and the R-ate pairing (GM/T 0044.1 Annex) -/

/-- affine point of E(Fp12) : y² = x³ + 5; `none` is the point at infinity -/
abbrev Pt12 := Option (Fp12 × Fp12)

def onCurve12 : Pt12 → Bool
  | none => true
  | some (x, y) => Fp12.mul y y == Fp12.add (Fp12.mul (Fp12.mul x x) x) (Fp12.ofNat b)

def neg12 : Pt12 → Pt12
  | none => none
  | some (x, y) => some (x, Fp12.neg y)

/-- E(Fp) ⊂ E(Fp12) -/
def embed1 : Pt → Pt12
  | none => none
  | some (x, y) => some (Fp12.ofNat x, Fp12.ofNat y)

/-- ψ : E'(Fp2) → E(Fp12), (x', y') ↦ (x'·w⁻², y'·w⁻³)   [y'² = x'³ + 5u  ⇒  (y'w⁻³)² = (x'w⁻²)³ + 5 since w⁶ = u] -/
def untwist : Pt2 → Pt12
  | none => none
  | some (x, y) =>
    let wi := Fp12.inv Fp12.w
    let wi2 := Fp12.mul wi wi
    some (Fp12.mul (Fp12.ofFp2 x) wi2, Fp12.mul (Fp12.ofFp2 y) (Fp12.mul wi2 wi))

/-- the p-power Frobenius endomorphism π_p of E(Fp12) -/
def frobPt : Pt12 → Pt12
  | none => none
  | some (x, y) => some (Fp12.frobenius x, Fp12.frobenius y)

/-- `(g_{U,V}(P), U + V)`: the value at the affine point P of the line through U and V (the tangent when U = V),
`g = λ(x_P − x_U) − (y_P − y_U)`, together with the sum.  When the line is vertical (U = −V) the value is `x_P − x_U`;
when U or V is the point at infinity it is 1. -/
def lineAdd (U V : Pt12) (P : Fp12 × Fp12) : Fp12 × Pt12 :=
  match U, V with
  | none, v => (Fp12.one, v)
  | u, none => (Fp12.one, u)
  | some (x1, y1), some (x2, y2) =>
    let finish (lam : Fp12) : Fp12 × Pt12 :=
      let x3 := Fp12.sub (Fp12.sub (Fp12.mul lam lam) x1) x2
      let y3 := Fp12.sub (Fp12.mul lam (Fp12.sub x1 x3)) y1
      (Fp12.sub (Fp12.mul lam (Fp12.sub P.1 x1)) (Fp12.sub P.2 y1), some (x3, y3))
    if x1 = x2 then
      if Fp12.add y1 y2 = Fp12.zero then (Fp12.sub P.1 x1, none)
      else finish (Fp12.mul (Fp12.mul (Fp12.ofNat 3) (Fp12.mul x1 x1)) (Fp12.inv (Fp12.add y1 y1)))
    else finish (Fp12.mul (Fp12.sub y2 y1) (Fp12.inv (Fp12.sub x2 x1)))

def add12 (U V : Pt12) : Pt12 := (lineAdd U V (Fp12.zero, Fp12.zero)).2

/-- binary digits, most significant first -/
def bitsMSB (n : Nat) : List Bool :=
  if _h : n = 0 then [] else bitsMSB (n / 2) ++ [decide (n % 2 = 1)]
termination_by n
decreasing_by omega

/-- the Miller loop parameter a = 6t + 2 -/
def ateLoop : Nat := 6 * t + 2

/-- the exponent of the final exponentiation -/
def finalExp : Nat := (p ^ 12 - 1) / N

example : (p ^ 12 - 1) % N = 0 := by decide

/-- one step of Miller's algorithm for the bit `bit`: f ← f²·g_{T,T}(P), T ← 2T, and if the bit is set
f ← f·g_{T,Q}(P), T ← T + Q -/
def millerStep (Q : Pt12) (P : Fp12 × Fp12) (st : Fp12 × Pt12) (bit : Bool) : Fp12 × Pt12 :=
  let (f, T) := st
  let (g, T2) := lineAdd T T P
  let f := Fp12.mul (Fp12.mul f f) g
  if bit then
    let (g, T3) := lineAdd T2 Q P
    (Fp12.mul f g, T3)
  else (f, T2)

/-- f_{a,Q}(P)·g_{[a]Q,π(Q)}(P)·g_{[a]Q+π(Q),−π²(Q)}(P), before the final exponentiation -/
def miller (P : Fp12 × Fp12) (Q : Pt12) : Fp12 :=
  let (f, T) := (bitsMSB ateLoop).drop 1 |>.foldl (millerStep Q P) (Fp12.one, Q)
  let Q1 := frobPt Q
  let Q2 := frobPt Q1
  let (g, T) := lineAdd T Q1 P
  let f := Fp12.mul f g
  let (g, _) := lineAdd T (neg12 Q2) P
  Fp12.mul f g

/-- the R-ate pairing e : G1 × G2 → GT  (1 when an argument is the point at infinity) -/
def pairing (P : Pt) (Q : Pt2) : Fp12 :=
  match embed1 P, untwist Q with
  | some P', some Q' => Fp12.pow (miller P' (some Q')) finalExp
  | _, _ => Fp12.one

/-! ### GM/T 0044.2 §5.4.2: H1, H2;  part 4 §5.4.3/5.4.5: KDF, MAC -/

def hash (m : List UInt8) : List UInt8 := Spec.SM3.hash m
def bytes32 (x : Nat) : List UInt8 := natBE 32 x

/-- hlen = 8·⌈5·log₂N / 32⌉ = 320 bits: Ha = the first 40 bytes of Hv(pre ‖ Z ‖ ct=1) ‖ Hv(pre ‖ Z ‖ ct=2),
h = (Ha mod (N − 1)) + 1 -/
def hashToRange (pre : UInt8) (z : List UInt8) : Nat :=
  let ha := (hash ([pre] ++ z ++ natBE 4 1) ++ hash ([pre] ++ z ++ natBE 4 2)).take 40
  beNat ha % (N - 1) + 1

def H1 (z : List UInt8) : Nat := hashToRange 0x01 z
def H2 (z : List UInt8) : Nat := hashToRange 0x02 z

/-- the key derivation function is that of SM2 (GB/T 32918.4 §5.4.3) -/
def kdf (z : List UInt8) (klen : Nat) : List UInt8 := Spec.SM2.kdf z klen

/-- MAC(K2, Z) = Hv(Z ‖ K2) -/
def mac (k2 z : List UInt8) : List UInt8 := hash (z ++ k2)

def xorBytes (x y : List UInt8) : List UInt8 := List.zipWith (· ^^^ ·) x y

/-- a point inside a hash/KDF input: x ‖ y -/
def pointBytes : Pt → List UInt8
  | none => []
  | some (x, y) => bytes32 x ++ bytes32 y

/-- a point on the wire: 04 ‖ x ‖ y -/
def encodePoint (P : Pt) : List UInt8 := 0x04 :: pointBytes P

/-- octet string to point: 65 bytes, PC = 04, coordinates < p, on the curve -/
def decodePoint (bs : List UInt8) : Option (Nat × Nat) :=
  match bs with
  | [] => none
  | pc :: rest =>
    if pc ≠ 4 ∨ rest.length ≠ 64 then none
    else
      let x := beNat (rest.take 32); let y := beNat (rest.drop 32)
      if onCurve curve (some (x, y)) then some (x, y) else none

/-! ### key generation and extraction (parts 2–4 §6 / §5) -/

def signMasterPub (ks : Nat) : Pt2 := mul2 ks P2
def encMasterPub (ke : Nat) : Pt := EC.mul curve ke P1

/-- t1 = H1(ID ‖ hid, N) + k; if t1 = 0 the master key must be regenerated (`none`); t2 = k·t1⁻¹ -/
def extractScalar (k : Nat) (id : List UInt8) (hid : UInt8) : Option Nat :=
  let t1 := (H1 (id ++ [hid]) + k) % N
  if t1 = 0 then none else some (k * invMod t1 N % N)

/-- ds_A = [t2]P1 -/
def extractSign (ks : Nat) (id : List UInt8) : Option Pt :=
  (extractScalar ks id hidSign).map fun t2 => EC.mul curve t2 P1

/-- de_B = [t2]P2 (encryption: hid = 03, key exchange: hid = 02) -/
def extractEnc (ke : Nat) (id : List UInt8) (hid : UInt8) : Option Pt2 :=
  (extractScalar ke id hid).map fun t2 => mul2 t2 P2

/-! ### part 2: signature -/

/-- §6.2 A1–A7 with the random `r ∈ [1, N−1]` given; `none` = "return to A2" (l = 0) -/
def signWith (Ppubs : Pt2) (ds : Pt) (msg : List UInt8) (r : Nat) : Option (Nat × Pt) :=
  let g := pairing P1 Ppubs
  let w := Fp12.pow g r
  let h := H2 (msg ++ Fp12.toBytes w)
  let l := (r + (N - h)) % N
  if l = 0 then none else some (h, EC.mul curve l ds)

/-- §7.2 B1–B9 -/
def verify (Ppubs : Pt2) (id msg : List UInt8) (h : Nat) (S : Pt) : Bool :=
  if h < 1 ∨ h ≥ N then false
  else if ¬ onCurve curve S then false
  else
    let g := pairing P1 Ppubs
    let tt := Fp12.pow g h
    let h1 := H1 (id ++ [hidSign])
    let P := add2 (mul2 h1 P2) Ppubs
    let u := pairing S P
    let w' := Fp12.mul u tt
    H2 (msg ++ Fp12.toBytes w') == h

/-! ### part 4: public-key encryption (KDF-based stream cipher variant, K2 of 256 bits) -/

def k2Len : Nat := 32

/-- §7.2 A1–A8 with the random `r` given; `none` = "return to A2" (K1 all zero) -/
def encryptWith (Ppube : Pt) (idB msg : List UInt8) (r : Nat) : Option (List UInt8) :=
  let QB := EC.add curve (EC.mul curve (H1 (idB ++ [hidEnc])) P1) Ppube
  let C1 := EC.mul curve r QB
  let w := Fp12.pow (pairing Ppube P2) r
  let K := kdf (pointBytes C1 ++ Fp12.toBytes w ++ idB) (msg.length + k2Len)
  let K1 := K.take msg.length
  let K2 := K.drop msg.length
  if K1.all (· == 0) then none
  else
    let C2 := xorBytes msg K1
    some (encodePoint C1 ++ mac K2 C2 ++ C2)

/-- §7.3 B1–B7; `none` = "report an error and exit".  C = C1 (65 bytes) ‖ C3 (32 bytes) ‖ C2 -/
def decrypt (de : Pt2) (idB ct : List UInt8) : Option (List UInt8) :=
  if ct.length < 65 + 32 then none
  else
    let C3 := (ct.drop 65).take 32
    let C2 := ct.drop 97
    match decodePoint (ct.take 65) with
    | none => none
    | some C1 =>
      let w' := pairing (some C1) de
      let K := kdf (pointBytes (some C1) ++ Fp12.toBytes w' ++ idB) (C2.length + k2Len)
      let K1 := K.take C2.length
      let K2 := K.drop C2.length
      if K1.all (· == 0) then none
      else if mac K2 C2 ≠ C3 then none
      else some (xorBytes C2 K1)

/-! ### part 3: key exchange -/

/-- Q_peer = [H1(ID_peer ‖ 02)]P1 + Ppub-e and R = [r]Q_peer -/
def exchEphemeral (Ppube : Pt) (idPeer : List UInt8) (r : Nat) : Pt :=
  EC.mul curve r (EC.add curve (EC.mul curve (H1 (idPeer ++ [hidExch])) P1) Ppube)

def exchKey (idA idB : List UInt8) (RA RB : Pt) (g1 g2 g3 : Fp12) (klen : Nat) : List UInt8 :=
  kdf (idA ++ idB ++ pointBytes RA ++ pointBytes RB ++ Fp12.toBytes g1 ++ Fp12.toBytes g2 ++ Fp12.toBytes g3) klen

/-- responder B (§6.2 B1–B7) on receiving `RA`, with its random `rB`: `(RB, SKB)`, or `none` when RA ∉ G1 -/
def exchResponder (Ppube : Pt) (deB : Pt2) (idA idB : List UInt8) (RA : Pt) (rB klen : Nat) :
    Option (Pt × List UInt8) :=
  match RA with
  | none => none
  | some _ =>
    if ¬ onCurve curve RA then none
    else
      let RB := exchEphemeral Ppube idA rB
      let g1 := pairing RA deB
      let g2 := Fp12.pow (pairing Ppube P2) rB
      let g3 := Fp12.pow g1 rB
      some (RB, exchKey idA idB RA RB g1 g2 g3 klen)

/-- initiator A (§6.2 A5–A8) with its random `rA`, its own `RA` and the received `RB`: SKA, or `none` when RB ∉ G1 -/
def exchInitiator (Ppube : Pt) (deA : Pt2) (idA idB : List UInt8) (rA : Nat) (RA RB : Pt) (klen : Nat) :
    Option (List UInt8) :=
  match RB with
  | none => none
  | some _ =>
    if ¬ onCurve curve RB then none
    else
      let g1 := Fp12.pow (pairing Ppube P2) rA
      let g2 := pairing RB deA
      let g3 := Fp12.pow g2 rA
      some (exchKey idA idB RA RB g1 g2 g3 klen)

end GmVerif.Spec.SM9
