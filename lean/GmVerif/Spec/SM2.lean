/-
SM2 (GB/T 32918.1–.5-2016 / GM/T 0003, GM/T 0009), transcribed from the normative text.  FROZEN.
Part 5: recommended curve parameters.  Part 2: ZA, signature generation/verification.
Part 4: KDF, encryption/decryption.  Part 3: key agreement (w = 127).  GM/T 0009 §7.2: ASN.1 ciphertext.
SEC1 / part 1 §4.2.8–4.2.10: point <-> octet string.  All randomness is a parameter.
-/
import GmVerif.Spec.EC
import GmVerif.Spec.SM3
namespace GmVerif.Spec.SM2
open GmVerif GmVerif.Spec.EC

def p  : Nat := 0xFFFFFFFEFFFFFFFFFFFFFFFFFFFFFFFFFFFFFFFF00000000FFFFFFFFFFFFFFFF
def a  : Nat := 0xFFFFFFFEFFFFFFFFFFFFFFFFFFFFFFFFFFFFFFFF00000000FFFFFFFFFFFFFFFC
def b  : Nat := 0x28E9FA9E9D9F5E344D5A9E4BCF6509A7F39789F515AB8F92DDBCBD414D940E93
def n  : Nat := 0xFFFFFFFEFFFFFFFFFFFFFFFFFFFFFFFF7203DF6B21C6052B53BBF40939D54123
def Gx : Nat := 0x32C4AE2C1F1981195F9904466A39C9948FE30BBFF2660BE1715A4589334C74C7
def Gy : Nat := 0xBC3736A2F4F6779C59BDCEE36B692153D0A9877CC62A474002DF32E52139F0A0

def curve : Curve := ⟨p, a, b⟩
def G : Pt := some (Gx, Gy)

def hash (m : List UInt8) : List UInt8 := Spec.SM3.hash m
def bytes32 (x : Nat) : List UInt8 := natBE 32 x

/-- part 2 §5.5: ZA = H256(ENTLA ‖ IDA ‖ a ‖ b ‖ xG ‖ yG ‖ xA ‖ yA), ENTLA = 16-bit bit length of IDA -/
def ZA (id : List UInt8) (xA yA : Nat) : List UInt8 :=
  hash (natBE 2 (8 * id.length) ++ id ++ bytes32 a ++ bytes32 b ++ bytes32 Gx ++ bytes32 Gy
        ++ bytes32 xA ++ bytes32 yA)

/-- e = Hv(ZA ‖ M) as an integer -/
def digestE (id : List UInt8) (xA yA : Nat) (msg : List UInt8) : Nat := beNat (hash (ZA id xA yA ++ msg))

/-- part 2 §6.1 with the nonce `k` given: `none` = the standard says "return to A3" for this k -/
def signWith (d e k : Nat) : Option (Nat × Nat) :=
  match mul curve k G with
  | none => none
  | some (x1, _) =>
    let r := (e + x1) % n
    if r = 0 ∨ r + k = n then none
    else
      let s := invMod ((1 + d) % n) n * ((k + (n - r * d % n)) % n) % n
      if s = 0 then none else some (r, s)

/-- part 2 §7.1 B1–B7 -/
def verify (P : Pt) (e r s : Nat) : Bool :=
  if r < 1 ∨ r ≥ n ∨ s < 1 ∨ s ≥ n then false
  else
    let t := (r + s) % n
    if t = 0 then false
    else
      match add curve (mul curve s G) (mul curve t P) with
      | none => false
      | some (x1, _) => (e + x1) % n == r

/-- part 4 §5.4.3: the first klen bytes of H(Z‖ct=1) ‖ H(Z‖ct=2) ‖ … (32-bit big-endian counter) -/
def kdfBlocks (z : List UInt8) : Nat → Nat → List UInt8
  | _, 0 => []
  | ct, nblk + 1 => hash (z ++ natBE 4 ct) ++ kdfBlocks z (ct + 1) nblk

def kdf (z : List UInt8) (klen : Nat) : List UInt8 := (kdfBlocks z 1 ((klen + 31) / 32)).take klen

def xorBytes (x y : List UInt8) : List UInt8 := List.zipWith (· ^^^ ·) x y

/-- part 1 §4.2.8 / SEC1 2.3.3: point to octet string -/
def encodePoint (compressed : Bool) : Pt → List UInt8
  | none => [0]
  | some (x, y) =>
    if compressed then (if y % 2 = 0 then 2 else 3) :: bytes32 x
    else 4 :: (bytes32 x ++ bytes32 y)

/-- square root modulo p ≡ 3 (mod 4): `some y` with y² = v, or `none` -/
def sqrtMod (v : Nat) : Option Nat :=
  let y := powMod v ((p + 1) / 4) p
  if y * y % p = v % p then some y else none

/-- part 1 §4.2.9–4.2.10 / SEC1 2.3.4: octet string to point, with every check the standard requires
(format byte, length, coordinates < p, curve equation).  `none` = invalid encoding. -/
def decodePoint (bs : List UInt8) : Option (Nat × Nat) :=
  match bs with
  | [] => none
  | pc :: rest =>
    if pc = 4 then
      if rest.length ≠ 64 then none
      else
        let x := beNat (rest.take 32); let y := beNat (rest.drop 32)
        if x < p ∧ y < p ∧ onCurve curve (some (x, y)) then some (x, y) else none
    else if pc = 2 ∨ pc = 3 then
      if rest.length ≠ 32 then none
      else
        let x := beNat rest
        if x ≥ p then none
        else match sqrtMod ((x * x % p * x + a * x + b) % p) with
          | none => none
          | some y => if y % 2 = (pc.toNat - 2) then some (x, y) else some (x, (p - y) % p)
    else none

inductive Order where
  | c1c2c3 | c1c3c2
deriving DecidableEq, Repr

/-- part 4 §6.1 with the nonce `k` given; `none` = the standard restarts (t all zero) or aborts (S = O) -/
def encryptWith (P : Pt) (msg : List UInt8) (k : Nat) (compressed : Bool) (order : Order) : Option (List UInt8) :=
  match mul curve k G, mul curve k P with
  | some c1, some (x2, y2) =>
    let t := kdf (bytes32 x2 ++ bytes32 y2) msg.length
    if t.all (· == 0) then none
    else
      let c2 := xorBytes msg t
      let c3 := hash (bytes32 x2 ++ msg ++ bytes32 y2)
      match order with
      | .c1c2c3 => some (encodePoint compressed (some c1) ++ c2 ++ c3)
      | .c1c3c2 => some (encodePoint compressed (some c1) ++ c3 ++ c2)
  | _, _ => none

/-- part 4 §7.1 B1–B7: `none` = "report an error and exit" -/
def decrypt (d : Nat) (ct : List UInt8) (compressed : Bool) (order : Order) : Option (List UInt8) :=
  let l1 := if compressed then 33 else 65
  if ct.length < l1 + 32 + 1 then none
  else
    let c1b := ct.take l1
    let body := ct.drop l1
    let (c2, c3) := match order with
      | .c1c2c3 => (body.take (body.length - 32), body.drop (body.length - 32))
      | .c1c3c2 => (body.drop 32, body.take 32)
    -- the format must match the caller's expectation (a 65-byte C1 must start with 04, a 33-byte one with 02/03)
    match decodePoint c1b with
    | none => none
    | some c1 =>
      match mul curve d (some c1) with
      | none => none
      | some (x2, y2) =>
        let t := kdf (bytes32 x2 ++ bytes32 y2) c2.length
        if t.all (· == 0) then none
        else
          let m := xorBytes c2 t
          if hash (bytes32 x2 ++ m ++ bytes32 y2) = c3 then some m else none

/-! ### key agreement (part 3 §6.1), w = 127 -/

def xBar (x : Nat) : Nat := 2 ^ 127 + x % 2 ^ 127

structure KexResult where
  key : List UInt8
  s1 : List UInt8     -- S_B = S_1 (tag 0x02)
  s2 : List UInt8     -- S_A = S_2 (tag 0x03)
deriving DecidableEq, Repr

/-- what a party with long-term key `dSelf`, ephemeral `rSelf` (R_self = [rSelf]G) computes from the peer's public
key and ephemeral point; `za`/`zb` are always initiator's / responder's Z values.  `none` = the standard aborts. -/
def kexCompute (dSelf rSelf : Nat) (Rself Rpeer Ppeer : Pt) (za zb : List UInt8) (klen : Nat)
    (ra rb : Pt) : Option KexResult :=
  match Rself, Rpeer, ra, rb with
  | some (xs, _), some (xp, _), some (x1, y1), some (x2, y2) =>
    if ¬ onCurve curve Rpeer then none
    else
      let t := (dSelf + xBar xs * rSelf) % n
      match mul curve t (add curve Ppeer (mul curve (xBar xp) Rpeer)) with
      | none => none
      | some (xu, yu) =>
        let key := kdf (bytes32 xu ++ bytes32 yu ++ za ++ zb) klen
        let inner := hash (bytes32 xu ++ za ++ zb ++ bytes32 x1 ++ bytes32 y1 ++ bytes32 x2 ++ bytes32 y2)
        some ⟨key, hash ([0x02] ++ bytes32 yu ++ inner), hash ([0x03] ++ bytes32 yu ++ inner)⟩
  | _, _, _, _ => none

/-! ### GM/T 0009 ASN.1 ciphertext: SEQUENCE { x INTEGER, y INTEGER, hash OCTET STRING (32), cipher OCTET STRING } (DER) -/

def derLen (l : Nat) : List UInt8 :=
  if l < 128 then [l.toUInt8]
  else
    let bytes := (List.range 8).reverse.map (fun i => (l / 256 ^ i % 256).toUInt8) |>.dropWhile (· == 0)
    (0x80 + bytes.length).toUInt8 :: bytes

/-- minimal big-endian magnitude, with a leading 00 when the top bit is set (X.690 §8.3) -/
def derInteger (x : Nat) : List UInt8 :=
  let mag := (natBE 32 x).dropWhile (· == 0)
  let mag := if mag.isEmpty then [0] else mag
  let body := if (mag.headD 0) ≥ 0x80 then 0 :: mag else mag
  0x02 :: (derLen body.length ++ body)

def derOctets (bs : List UInt8) : List UInt8 := 0x04 :: (derLen bs.length ++ bs)

def asn1Ciphertext (x y : Nat) (c3 c2 : List UInt8) : List UInt8 :=
  let body := derInteger x ++ derInteger y ++ derOctets c3 ++ derOctets c2
  0x30 :: (derLen body.length ++ body)

end GmVerif.Spec.SM2
