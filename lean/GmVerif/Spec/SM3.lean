/-
GB/T 32905-2016 (SM3), transcribed from the normative text.  FROZEN: never regenerated.
§4.1 IV, §4.2 T_j, §4.3 FF_j/GG_j, §4.4 P0/P1, §5.2 padding, §5.3.2 expansion, §5.3.3 CF, §5.4 output.
-/
import GmVerif.Common
namespace GmVerif.Spec.SM3

def IV : List UInt32 :=
  [0x7380166f, 0x4914b2b9, 0x172442d7, 0xda8a0600, 0xa96f30bc, 0x163138aa, 0xe38dee4d, 0xb0fb0e4e]

def T (j : Nat) : UInt32 := if j ≤ 15 then 0x79cc4519 else 0x7a879d8a

def FF (j : Nat) (x y z : UInt32) : UInt32 :=
  if j ≤ 15 then x ^^^ y ^^^ z else (x &&& y) ||| (x &&& z) ||| (y &&& z)

def GG (j : Nat) (x y z : UInt32) : UInt32 :=
  if j ≤ 15 then x ^^^ y ^^^ z else (x &&& y) ||| (~~~x &&& z)

def P0 (x : UInt32) : UInt32 := x ^^^ rotl32 x 9 ^^^ rotl32 x 17
def P1 (x : UInt32) : UInt32 := x ^^^ rotl32 x 15 ^^^ rotl32 x 23

/-- §5.2: m ‖ 1 ‖ 0^k ‖ len64 with k the least non-negative solution of l+1+k ≡ 448 (mod 512);
in bytes: 0x80, then (55 − |m|) mod 64 zero bytes, then the bit length as 8 big-endian bytes. -/
def pad (m : List UInt8) : List UInt8 :=
  m ++ [0x80] ++ List.replicate ((55 + 64 - m.length % 64) % 64) 0 ++ natBE 8 (8 * m.length)

/-- the 16 big-endian words of a 64-byte block -/
def words : List UInt8 → List UInt32
  | a :: b :: c :: d :: rest => u32be a b c d :: words rest
  | _ => []

/-- §5.3.2 a,b: extend `w` (which holds W_0..W_{j-1}, j ≥ 16) by `n` further words -/
def expandFrom (w : List UInt32) : Nat → List UInt32
  | 0 => w
  | n + 1 =>
    let j := w.length
    let g (i : Nat) : UInt32 := w.getD (j - i) 0
    expandFrom (w ++ [P1 (g 16 ^^^ g 9 ^^^ rotl32 (g 3) 15) ^^^ rotl32 (g 13) 7 ^^^ g 6]) n

/-- W_0 … W_67 -/
def expand (block : List UInt8) : List UInt32 := expandFrom (words block) 52

structure Reg where
  (a b c d e f g h : UInt32)
deriving DecidableEq, Repr

def Reg.ofList : List UInt32 → Reg
  | [a, b, c, d, e, f, g, h] => ⟨a, b, c, d, e, f, g, h⟩
  | _ => ⟨0, 0, 0, 0, 0, 0, 0, 0⟩
def Reg.toList (r : Reg) : List UInt32 := [r.a, r.b, r.c, r.d, r.e, r.f, r.g, r.h]

/-- §5.3.3 one round j with W_j and W'_j = W_j ⊕ W_{j+4} -/
def round (j : Nat) (wj wj' : UInt32) (r : Reg) : Reg :=
  let ss1 := rotl32 (rotl32 r.a 12 + r.e + rotl32 (T j) j) 7
  let ss2 := ss1 ^^^ rotl32 r.a 12
  let tt1 := FF j r.a r.b r.c + r.d + ss2 + wj'
  let tt2 := GG j r.e r.f r.g + r.h + ss1 + wj
  ⟨tt1, r.a, rotl32 r.b 9, r.c, P0 tt2, r.e, rotl32 r.f 19, r.g⟩

def rounds (w : List UInt32) (r : Reg) : Nat → Nat → Reg
  | _, 0 => r
  | j, n + 1 => rounds w (round j (w.getD j 0) (w.getD j 0 ^^^ w.getD (j + 4) 0) r) (j + 1) n

/-- §5.3.3 V(i+1) = CF(V(i), B(i)) -/
def CF (v : List UInt32) (block : List UInt8) : List UInt32 :=
  let w := expand block
  let r := rounds w (Reg.ofList v) 0 64
  List.zipWith (· ^^^ ·) r.toList v

/-- split into 64-byte blocks (a trailing partial block is dropped; `pad` never leaves one) -/
def blocks (m : List UInt8) : List (List UInt8) :=
  if h : m.length < 64 then [] else m.take 64 :: blocks (m.drop 64)
termination_by m.length
decreasing_by simp [List.length_drop]; omega

/-- §5.4 -/
def hash (m : List UInt8) : List UInt8 :=
  ((blocks (pad m)).foldl CF IV).flatMap be32

end GmVerif.Spec.SM3
