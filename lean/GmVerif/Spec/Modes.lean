/-
NIST SP 800-38A modes of operation (as referenced by GB/T 17964) over an arbitrary 16-byte block
function `E` (and inverse `D` for CBC), plus PKCS#7 padding (RFC 5652 §6.3).  FROZEN.
Blocks are `List UInt8`; `E`/`D` are only ever applied to 16-byte lists.
-/
import GmVerif.Common
namespace GmVerif.Spec.Modes

abbrev Block := List UInt8

def xorBytes (a b : List UInt8) : List UInt8 := List.zipWith (· ^^^ ·) a b

/-- split into 16-byte chunks; the last one may be shorter (and is absent for an exact multiple) -/
def chunks (d : List UInt8) : List (List UInt8) :=
  if h : d.length = 0 then [] else d.take 16 :: chunks (d.drop 16)
termination_by d.length
decreasing_by simp [List.length_drop]; omega

/-- 128-bit big-endian increment, wrapping at 2^128 -/
def incr (ctr : Block) : Block := natBE 16 (beNat ctr + 1)

/-- CTR: O_j = E(T_j), C_j = P_j ⊕ O_j (last block truncated) -/
def ctrStream (E : Block → Block) (ctr : Block) : List (List UInt8) → List UInt8
  | [] => []
  | c :: cs => xorBytes c (E ctr) ++ ctrStream E (incr ctr) cs
def ctr (E : Block → Block) (iv : Block) (data : List UInt8) : List UInt8 := ctrStream E iv (chunks data)

/-- OFB: O_1 = E(IV), O_j = E(O_{j-1}) -/
def ofbStream (E : Block → Block) (fb : Block) : List (List UInt8) → List UInt8
  | [] => []
  | c :: cs => let o := E fb; xorBytes c o ++ ofbStream E o cs
def ofb (E : Block → Block) (iv : Block) (data : List UInt8) : List UInt8 := ofbStream E iv (chunks data)

/-- CFB-128: C_j = P_j ⊕ E(C_{j-1}), C_0 = IV; a final partial segment uses the leading bytes -/
def cfbEncStream (E : Block → Block) (fb : Block) : List (List UInt8) → List UInt8
  | [] => []
  | p :: ps => let c := xorBytes p (E fb); c ++ cfbEncStream E c ps
def cfbEnc (E : Block → Block) (iv : Block) (data : List UInt8) : List UInt8 := cfbEncStream E iv (chunks data)
def cfbDecStream (E : Block → Block) (fb : Block) : List (List UInt8) → List UInt8
  | [] => []
  | c :: cs => xorBytes c (E fb) ++ cfbDecStream E c cs
def cfbDec (E : Block → Block) (iv : Block) (data : List UInt8) : List UInt8 := cfbDecStream E iv (chunks data)

/-- PKCS#7: append k = 16 − (|x| mod 16) bytes of value k (k ∈ 1..16) -/
def pkcs7Pad (x : List UInt8) : List UInt8 :=
  let k := 16 - x.length % 16
  x ++ List.replicate k k.toUInt8

/-- CBC: C_j = E(P_j ⊕ C_{j-1}) over the padded plaintext -/
def cbcEncBlocks (E : Block → Block) (prev : Block) : List (List UInt8) → List UInt8
  | [] => []
  | p :: ps => let c := E (xorBytes prev p); c ++ cbcEncBlocks E c ps
def cbcEnc (E : Block → Block) (iv : Block) (data : List UInt8) : List UInt8 :=
  cbcEncBlocks E iv (chunks (pkcs7Pad data))

def cbcDecBlocks (D : Block → Block) (prev : Block) : List (List UInt8) → List UInt8
  | [] => []
  | c :: cs => xorBytes prev (D c) ++ cbcDecBlocks D c cs

/-- CBC decryption with the unpadding rule of the property: the input must be a positive multiple of
16 bytes and the final plaintext byte k must be in 1..16; the last k bytes are removed. -/
def cbcDec (D : Block → Block) (iv : Block) (data : List UInt8) : Option (List UInt8) :=
  if data.length = 0 ∨ data.length % 16 ≠ 0 then none
  else
    let p := cbcDecBlocks D iv (chunks data)
    match p.getLast? with
    | none => none
    | some k => if k = 0 ∨ k > 16 then none else some (p.take (p.length - k.toNat))

end GmVerif.Spec.Modes
