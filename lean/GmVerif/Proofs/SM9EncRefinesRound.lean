/-
C10b: what the model encrypts, the model decrypts (with the key the model extracts), given `PairingRefines`, `TowerDense`
and the bilinearity hypothesis `PairingFacts` of the specification-level theorem `Thm.SpecSM9.decrypt_encrypt`.
-/
import GmVerif.Proofs.SM9EncRefines
import GmVerif.Proofs.SM9EncRefinesDec
import GmVerif.Thm.SpecSM9
set_option autoImplicit false
namespace GmVerif.Proofs.SM9EncRefinesRound
open GmVerif GmVerif.Impl.SM9
open GmVerif.Proofs.SM9Bridge (dense TowerDense PairingRefines InG2)
open GmVerif.Proofs.SM9G1 (Valid toSpec)
open GmVerif.Proofs.SM9G2Impl (Valid2 toSpec2)
open GmVerif.Proofs.SM9EncRefinesBase GmVerif.Proofs.SM9EncRefines GmVerif.Proofs.SM9EncRefinesDec
open GmVerif.Proofs.SM9Algebra (PairingFacts)
open GmVerif.Spec.SM9 (curve N)

/-- a private key extracted by the model (either `hid`) lies in G2, decodes to the standard's de, and its existence means
H1(ID ‖ hid) + ke ≢ 0 (mod N) -/
theorem extracted_key_facts (ke : Nat) (hke : ke < N) (ppube : Point) (id : List UInt8) (hid : UInt8) (key : Sm9EncKey)
    (hkey : SM9G2Impl.extractWith ⟨ke, ppube⟩ id hid = .ok (some key)) :
    InG2 key.de ∧ Spec.SM9.extractEnc ke id hid = some (toSpec2 key.de)
      ∧ (Spec.SM9.H1 (id ++ [hid]) + ke) % N ≠ 0 ∧ key.ppube = ppube := by
  obtain ⟨r, h1, h2, h3⟩ := SM9G2Impl.extractWith_refines ⟨ke, ppube⟩ hke id hid
  rw [hkey] at h1
  simp only [Outcome.ok.injEq] at h1
  subst h1
  simp only [Option.map_some] at h2
  obtain ⟨hp, hv⟩ := h3 key rfl
  obtain ⟨t2, ht, hne, _⟩ := SM9Algebra.extractEnc_some h2.symm
  refine ⟨⟨hv, ?_⟩, h2.symm, hne, hp⟩
  rw [ht, Thm.SpecSM9.mul2_mul _ _ Thm.SpecSM9.sm9_P2_onTwist, Thm.SpecSM9.sm9_mul2_eq_none_iff]
  exact Nat.dvd_mul_right _ _

/-- the finiteness hypothesis of `encrypt_refines` for an honest master public key -/
theorem hfin_of_key (ke : Nat) (ppube : Point) (hpp : toSpec ppube = Spec.SM9.encMasterPub ke) (id : List UInt8)
    (hid : UInt8) (hext : (Spec.SM9.H1 (id ++ [hid]) + ke) % N ≠ 0) :
    ∀ r, Accept r → Spec.EC.mul curve r (Qpt (toSpec ppube) id hid) ≠ none := by
  intro r hr
  rw [hpp]
  have := accept_range hr
  exact qb_finite ke id hid hext r ⟨this.1, by omega⟩

theorem encrypt_then_decrypt (PR : PairingRefines) (TD : TowerDense) (F : PairingFacts) (ke : Nat)
    (hke : 1 ≤ ke ∧ ke < N) (ppube : Point) (hv : Valid ppube) (hpp : toSpec ppube = Spec.SM9.encMasterPub ke)
    (idb data : List UInt8) (hne : data ≠ []) (hlen : data.length ≤ 255) (key : Sm9EncKey)
    (hkey : (⟨ke, ppube⟩ : Sm9EncMasterKey).extract_key idb = .ok (some key))
    (cands : List (List UInt8)) (ct : List UInt8) (used : List Nat) (rest : List (List UInt8))
    (henc : (⟨ke, ppube⟩ : Sm9EncMasterKey).encrypt idb data cands = .ok ⟨ct, used, rest⟩) :
    key.decrypt idb ct = .ok data ∧ Spec.SM9.decrypt (toSpec2 key.de) idb ct = some data := by
  rw [SM9G2Impl.extract_key_eq, SM9G2Impl.hid_enc] at hkey
  obtain ⟨hG2, hde, hext, _⟩ := extracted_key_facts ke hke.2 ppube idb _ key hkey
  have hfin := hfin_of_key ke ppube hpp idb _ hext
  have hlen' : ct.length = 65 + 32 + data.length := by
    obtain ⟨_, _, t, q0, r', c1, w, skp, _, _, _, _, _, _, _, hsh⟩ :=
      SM9Logic.encrypt_shape_full _ idb data cands ct used rest henc
    exact hsh.2.2.2
  have hl352 : ct.length ≤ 352 := by omega
  rw [encrypt_refines PR TD ⟨ke, ppube⟩ hv idb data hne hlen hfin cands] at henc
  cases hs : specEncLoop (toSpec ppube) idb data cands [] with
  | none => rw [hs] at henc; cases henc
  | some res =>
    rw [hs] at henc
    simp only [Outcome.ok.injEq] at henc
    subst henc
    obtain ⟨r, sk, _, hacc, hew, _, _⟩ := specEncLoop_some _ _ _ _ _ _ hs
    have hr := accept_range hacc
    rw [hpp] at hew
    have hsd := Thm.SpecSM9.decrypt_encrypt F ke hke idb data hne (toSpec2 key.de) hde r ⟨hr.1, by omega⟩ _ hew
    exact ⟨(decrypt_exact PR key hG2 idb _ data).2 ⟨hsd, hl352⟩, hsd⟩

end GmVerif.Proofs.SM9EncRefinesRound
