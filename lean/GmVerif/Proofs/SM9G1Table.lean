/-
C13 (point layer, G1), fixed-base table, part c: soundness of the table checker (`Proofs.SM9G1TableCheck`): the
cross-multiplied chord / tangent identities imply `Spec.EC.add`, a checked row lists the multiples 1..64 of its first
point, consecutive rows are linked by a factor 128 (tangent on entry 64), hence entry (i, v) of the dumped table is the
Montgomery form of [v·2^(7i)]P1.  Then the 7-bit Booth fixed-base multiplication `Point.g_mul` never leaves the table
and is correct for EVERY 256-bit scalar.  Mirror of `Proofs.SM2Table`.
-/
import GmVerif.Proofs.SM9G1Mul
import GmVerif.Proofs.SM9G1TableRows

namespace GmVerif.Proofs.SM9G1Table
open GmVerif
open GmVerif.Impl.SM9 (Point sm9_u256_get_booth asUsize gTableGet)
open GmVerif.Proofs.SM9G1TableCheck GmVerif.Proofs.SM9G1 GmVerif.Proofs.SM2CurveAlg GmVerif.Proofs.SM9G1Mul

theorem cast_inj_of_lt {a b : ℕ} (ha : a < Spec.SM9.p) (hb : b < Spec.SM9.p) (h : (a : Fp) = (b : Fp)) : a = b := by
  have := congrArg ZMod.val h
  rwa [ZMod.val_cast_of_lt ha, ZMod.val_cast_of_lt hb] at this

/-- the cross-multiplied chord identities with x₁ ≠ x₂ give the sum of the specification -/
theorem chord_sound (x1 y1 x2 y2 x3 y3 : ℕ) (h1 : x1 < Spec.SM9.p) (h1' : y1 < Spec.SM9.p) (h2 : x2 < Spec.SM9.p)
    (h2' : y2 < Spec.SM9.p) (h3 : x3 < Spec.SM9.p) (h3' : y3 < Spec.SM9.p)
    (h : chordOK (x1, y1) (x2, y2) (x3, y3) = true) :
    Spec.EC.add Spec.SM9.curve (some (x1, y1)) (some (x2, y2)) = some (x3, y3) := by
  simp only [chordOK, Bool.and_eq_true, bne_iff_ne, ne_eq, beq_iff_eq] at h
  obtain ⟨⟨hne, e1⟩, e2⟩ := h
  have E1 := (ZMod.natCast_eq_natCast_iff' _ _ _).mpr e1
  have E2 := (ZMod.natCast_eq_natCast_iff' _ _ _).mpr e2
  simp only [Nat.cast_mul, Nat.cast_add, Nat.cast_sub (show x1 ≤ x2 + Spec.SM9.p by omega),
    Nat.cast_sub (show y1 ≤ y2 + Spec.SM9.p by omega), Nat.cast_sub (show x3 ≤ x1 + Spec.SM9.p by omega),
    ZMod.natCast_self, add_zero] at E1 E2
  have hX : (x1 : Fp) ≠ (x2 : Fp) := fun h => hne (cast_inj_of_lt h1 h2 h)
  have hd : (x2 : Fp) - (x1 : Fp) ≠ 0 := fun h => hX (sub_eq_zero.mp h).symm
  have key := spec_add_val (x1 : Fp) (y1 : Fp) (x2 : Fp) (y2 : Fp)
  rw [ZMod.val_cast_of_lt h1, ZMod.val_cast_of_lt h1', ZMod.val_cast_of_lt h2, ZMod.val_cast_of_lt h2'] at key
  rw [key, affAdd, if_neg hX]
  simp only [specPt, Option.map_some]
  have hl : (((y2 : Fp) - y1) / ((x2 : Fp) - x1)) * ((x2 : Fp) - x1) = (y2 : Fp) - y1 := div_mul_cancel₀ _ hd
  generalize ((y2 : Fp) - y1) / ((x2 : Fp) - x1) = l at hl ⊢
  have ex : l ^ 2 - x1 - x2 = (x3 : Fp) := by
    apply mul_left_cancel₀ (pow_ne_zero 2 hd)
    linear_combination (l * ((x2 : Fp) - x1) + ((y2 : Fp) - y1)) * hl - E1
  have ey : l * ((x1 : Fp) - x3) - y1 = (y3 : Fp) := by
    apply mul_left_cancel₀ hd
    linear_combination ((x1 : Fp) - x3) * hl - E2
  rw [ex, ey, ZMod.val_cast_of_lt h3, ZMod.val_cast_of_lt h3']

/-- the cross-multiplied tangent identities (a = 0) with 2·y₁ ≠ 0 give the double of the specification -/
theorem tangent_sound (x1 y1 x3 y3 : ℕ) (h1 : x1 < Spec.SM9.p) (h1' : y1 < Spec.SM9.p)
    (h3 : x3 < Spec.SM9.p) (h3' : y3 < Spec.SM9.p)
    (h : tangentOK (x1, y1) (x3, y3) = true) :
    Spec.EC.add Spec.SM9.curve (some (x1, y1)) (some (x1, y1)) = some (x3, y3) := by
  simp only [tangentOK, Bool.and_eq_true, bne_iff_ne, ne_eq, beq_iff_eq] at h
  obtain ⟨⟨hne, e1⟩, e2⟩ := h
  have E1 := (ZMod.natCast_eq_natCast_iff' _ _ _).mpr e1
  have E2 := (ZMod.natCast_eq_natCast_iff' _ _ _).mpr e2
  simp only [Nat.cast_mul, Nat.cast_add, Nat.cast_sub (show x3 ≤ x1 + Spec.SM9.p by omega),
    ZMod.natCast_self, add_zero, Nat.cast_ofNat] at E1 E2
  have h2y : (2 : Fp) * (y1 : Fp) ≠ 0 := by
    intro h0
    apply hne
    rw [mod_eq_zero_iff_cast]
    push_cast
    exact h0
  have hyy : ¬ ((y1 : Fp) + (y1 : Fp) = 0) := fun h0 => h2y (by linear_combination h0)
  have key := spec_add_val (x1 : Fp) (y1 : Fp) (x1 : Fp) (y1 : Fp)
  rw [ZMod.val_cast_of_lt h1, ZMod.val_cast_of_lt h1'] at key
  rw [key, affAdd, if_pos rfl, if_neg hyy]
  simp only [specPt, Option.map_some]
  have hl : ((3 * (x1 : Fp) ^ 2 + ca) / (2 * (y1 : Fp))) * (2 * (y1 : Fp)) = 3 * (x1 : Fp) ^ 2 + ca :=
    div_mul_cancel₀ _ h2y
  generalize (3 * (x1 : Fp) ^ 2 + ca) / (2 * (y1 : Fp)) = l at hl ⊢
  rw [ca_eq] at hl
  have ex : l ^ 2 - 2 * (x1 : Fp) = (x3 : Fp) := by
    apply mul_left_cancel₀ (pow_ne_zero 2 h2y)
    linear_combination (l * (2 * (y1 : Fp)) + (3 * (x1 : Fp) ^ 2)) * hl - E1
  have ey : l * ((x1 : Fp) - x3) - y1 = (y3 : Fp) := by
    apply mul_left_cancel₀ h2y
    linear_combination ((x1 : Fp) - x3) * hl - E2
  rw [ex, ey, ZMod.val_cast_of_lt h3, ZMod.val_cast_of_lt h3']

theorem chord_sound' (A B C : ℕ × ℕ) (hA : A.1 < Spec.SM9.p ∧ A.2 < Spec.SM9.p)
    (hB : B.1 < Spec.SM9.p ∧ B.2 < Spec.SM9.p) (hC : C.1 < Spec.SM9.p ∧ C.2 < Spec.SM9.p)
    (h : chordOK A B C = true) : Spec.EC.add Spec.SM9.curve (some A) (some B) = some C :=
  chord_sound A.1 A.2 B.1 B.2 C.1 C.2 hA.1 hA.2 hB.1 hB.2 hC.1 hC.2 h

theorem tangent_sound' (A C : ℕ × ℕ) (hA : A.1 < Spec.SM9.p ∧ A.2 < Spec.SM9.p)
    (hC : C.1 < Spec.SM9.p ∧ C.2 < Spec.SM9.p)
    (h : tangentOK A C = true) : Spec.EC.add Spec.SM9.curve (some A) (some A) = some C :=
  tangent_sound A.1 A.2 C.1 C.2 hA.1 hA.2 hC.1 hC.2 h

theorem dpt_lt (x y : ℕ) : (dpt x y).1 < Spec.SM9.p ∧ (dpt x y).2 < Spec.SM9.p := ⟨mod_p_lt _, mod_p_lt _⟩
theorem pt_lt (row : List ℕ) (v : ℕ) : (pt row v).1 < Spec.SM9.p ∧ (pt row v).2 < Spec.SM9.p :=
  ⟨mod_p_lt _, mod_p_lt _⟩

/-! ### a checked row lists the multiples of its first point -/

theorem chain_sound (B : ℕ × ℕ) (hB : B.1 < Spec.SM9.p ∧ B.2 < Spec.SM9.p)
    (hBon : Spec.EC.onCurve Spec.SM9.curve (some B) = true) :
    ∀ (l : List ℕ) (A : ℕ × ℕ) (m : ℕ), A.1 < Spec.SM9.p ∧ A.2 < Spec.SM9.p →
      some A = Spec.EC.mul Spec.SM9.curve m (some B) → chain B A l = true →
      ∀ j, 2 * j + 1 < l.length →
        l[2 * j]! < Spec.SM9.p ∧ l[2 * j + 1]! < Spec.SM9.p
          ∧ some (dpt l[2 * j]! l[2 * j + 1]!) = Spec.EC.mul Spec.SM9.curve (m + 1 + j) (some B)
  | [], _, _, _, _, _, j, hj => by simp at hj
  | [_], _, _, _, _, _, j, hj => by simp at hj
  | x :: y :: rest, A, m, hA, hAm, h, j, hj => by
    simp only [chain, Bool.and_eq_true, decide_eq_true_eq] at h
    obtain ⟨⟨⟨hx, hy⟩, hch⟩, hrest⟩ := h
    have hC := chord_sound' A B (dpt x y) hA hB (dpt_lt x y) hch
    have hCm : some (dpt x y) = Spec.EC.mul Spec.SM9.curve (m + 1) (some B) := by
      rw [SpecEC.mul_add hc m 1 hBon, ← hAm, SpecEC.mul_one, ← hC]
    cases j with
    | zero => exact ⟨hx, hy, hCm⟩
    | succ j =>
      have ih := chain_sound B hB hBon rest (dpt x y) (m + 1) (dpt_lt x y) hCm hrest j
        (by simp only [List.length_cons] at hj; omega)
      have e1 : (x :: y :: rest)[2 * (j + 1)]! = rest[2 * j]! := rfl
      have e2 : (x :: y :: rest)[2 * (j + 1) + 1]! = rest[2 * j + 1]! := rfl
      rw [e1, e2]
      refine ⟨ih.1, ih.2.1, ?_⟩
      rw [ih.2.2]
      congr 1; omega

theorem row_sound (row : List ℕ) (h : rowOK row = true) :
    Spec.EC.onCurve Spec.SM9.curve (some (pt row 1)) = true ∧
    ∀ v, 1 ≤ v → 2 * v ≤ row.length →
      row[2 * v - 2]! < Spec.SM9.p ∧ row[2 * v - 1]! < Spec.SM9.p
        ∧ some (pt row v) = Spec.EC.mul Spec.SM9.curve v (some (pt row 1)) := by
  match row, h with
  | [], h => simp [rowOK] at h
  | [_], h => simp [rowOK] at h
  | [_, _], h => simp [rowOK] at h
  | [_, _, _], h => simp [rowOK] at h
  | x1 :: y1 :: x2 :: y2 :: rest, h =>
    simp only [rowOK, Bool.and_eq_true, decide_eq_true_eq] at h
    obtain ⟨⟨⟨⟨⟨⟨hx1, hy1⟩, hx2⟩, hy2⟩, hon⟩, htan⟩, hch⟩ := h
    have p1 : pt (x1 :: y1 :: x2 :: y2 :: rest) 1 = dpt x1 y1 := rfl
    rw [p1]
    refine ⟨hon, ?_⟩
    have h2 : some (dpt x2 y2) = Spec.EC.mul Spec.SM9.curve 2 (some (dpt x1 y1)) := by
      have ht := tangent_sound' (dpt x1 y1) (dpt x2 y2) (dpt_lt x1 y1) (dpt_lt x2 y2) htan
      rw [show (2 : ℕ) = 1 + 1 from rfl, SpecEC.mul_add hc 1 1 hon, SpecEC.mul_one]
      exact ht.symm
    intro v hv1 hv2
    match v, hv1, hv2 with
    | 1, _, _ => exact ⟨hx1, hy1, by rw [SpecEC.mul_one]; rfl⟩
    | 2, _, _ => exact ⟨hx2, hy2, h2⟩
    | j + 3, _, hv2 =>
      have ih := chain_sound (dpt x1 y1) (dpt_lt x1 y1) hon rest (dpt x2 y2) 2 (dpt_lt x2 y2) h2 hch j
        (by simp only [List.length_cons] at hv2; omega)
      have e1 : (x1 :: y1 :: x2 :: y2 :: rest)[2 * (j + 3) - 2]! = rest[2 * j]! := by
        rw [show 2 * (j + 3) - 2 = 2 * j + 1 + 1 + 1 + 1 by omega]; rfl
      have e2 : (x1 :: y1 :: x2 :: y2 :: rest)[2 * (j + 3) - 1]! = rest[2 * j + 1]! := by
        rw [show 2 * (j + 3) - 1 = 2 * j + 1 + 1 + 1 + 1 + 1 by omega]; rfl
      have e3 : pt (x1 :: y1 :: x2 :: y2 :: rest) (j + 3) = dpt rest[2 * j]! rest[2 * j + 1]! := by
        unfold pt dpt; rw [e1, e2]
      rw [e1, e2, e3]
      refine ⟨ih.1, ih.2.1, ?_⟩
      rw [ih.2.2]
      congr 1; omega

/-! ### all rows -/

open GmVerif.Gen.SM9Table (rows)
open GmVerif.Proofs.SM9G1TableRows

theorem rows_len (i : ℕ) (hi : i < 37) : (rows[i]!).length = 128 := by
  have h := rows_len_all
  rw [List.all_eq_true] at h
  have hi' : i < rows.length := by rw [rows_length]; exact hi
  have := h (rows[i]!) (by rw [getElem!_pos rows i hi']; exact List.getElem_mem hi')
  simpa using this

theorem P1_onCurve : Spec.EC.onCurve Spec.SM9.curve Spec.SM9.P1 = true := SM9Algebra.sm9_P1_onCurve

/-- the first point of row i is [128^i]P1 -/
theorem first_point : ∀ i, i < 37 → some (pt (rows[i]!) 1) = Spec.EC.mul Spec.SM9.curve (128 ^ i) Spec.SM9.P1 := by
  intro i
  induction i with
  | zero =>
    intro _
    rw [show rows[0]! = Gen.SM9Table.row0 from rfl, first_is_P1, Nat.pow_zero, SpecEC.mul_one]
  | succ i ih =>
    intro hi
    have ih := ih (by omega)
    obtain ⟨hon, hrow⟩ := row_sound (rows[i]!) (rows_ok i (by omega))
    have h64 := (hrow 64 (by decide) (by rw [rows_len i (by omega)])).2.2
    have hl := tangent_sound' _ _ (pt_lt _ _) (pt_lt _ _) (links_ok i (by omega))
    rw [← hl, h64, ← SpecEC.mul_add hc 64 64 hon, ih, SpecEC.mul_mul hc (64 + 64) (128 ^ i) P1_onCurve,
      Nat.pow_succ, Nat.mul_comm]

/-- entry (i, v) of the dumped rows: canonical, and decodes to [v·128^i]P1 -/
theorem rows_entry (i : ℕ) (hi : i < 37) (v : ℕ) (h1 : 1 ≤ v) (h2 : v ≤ 64) :
    (rows[i]!)[2 * v - 2]! < Spec.SM9.p ∧ (rows[i]!)[2 * v - 1]! < Spec.SM9.p
      ∧ some (pt (rows[i]!) v) = Spec.EC.mul Spec.SM9.curve (v * 128 ^ i) Spec.SM9.P1 := by
  obtain ⟨_, hrow⟩ := row_sound (rows[i]!) (rows_ok i hi)
  obtain ⟨a, b, c⟩ := hrow v h1 (by rw [rows_len i hi]; omega)
  refine ⟨a, b, ?_⟩
  rw [c, first_point i hi, SpecEC.mul_mul hc v (128 ^ i) P1_onCurve]

/-! ### the table of the model -/

theorem TABLE_row (i : ℕ) (hi : i < 37) : Impl.SM9.TABLE[i]? = some (rows[i]!).toArray := by
  have hi' : i < rows.length := by rw [rows_length]; exact hi
  unfold Impl.SM9.TABLE
  rw [List.getElem?_toArray, List.getElem?_map, List.getElem?_eq_getElem hi', getElem!_pos rows i hi']
  rfl

theorem TABLE_get (i : ℕ) (hi : i < 37) (j : ℕ) : (Impl.SM9.TABLE[i]!)[j]! = (rows[i]!)[j]! := by
  have e : Impl.SM9.TABLE[i]! = (rows[i]!).toArray := by
    have h := TABLE_row i hi
    rw [getElem!_def, h]
  rw [e, List.getElem!_toArray]

theorem Rinv_eq : Rinv = SM9Field.RinvP := rfl

/-- re-encoding a decoded canonical entry gives the entry back -/
theorem reencode (t : ℕ) (ht : t < Spec.SM9.p) : (t * Rinv % Spec.SM9.p) * 2 ^ 256 % Spec.SM9.p = t := by
  rw [Rinv_eq, ← SM9Field.P_eq] at *
  rw [Nat.mod_mul_mod, Nat.mul_assoc, Nat.mul_comm SM9Field.RinvP, Nat.mul_mod, SM9Field.RinvP_spec, ← Nat.mul_mod,
    Nat.mul_one, Nat.mod_eq_of_lt ht]

theorem table_correct : ∀ i, i < 37 → ∀ v, 1 ≤ v → v ≤ 64 →
    ∃ x y, Spec.EC.mul Spec.SM9.curve (v * 2 ^ (7 * i)) Spec.SM9.P1 = some (x, y) ∧
      (Impl.SM9.TABLE[i]!)[2 * v - 2]! = (x * 2 ^ 256) % Spec.SM9.p
      ∧ (Impl.SM9.TABLE[i]!)[2 * v - 1]! = (y * 2 ^ 256) % Spec.SM9.p := by
  intro i hi v h1 h2
  obtain ⟨a, b, c⟩ := rows_entry i hi v h1 h2
  rw [show (128 : ℕ) = 2 ^ 7 from rfl, ← Nat.pow_mul] at c
  refine ⟨(pt (rows[i]!) v).1, (pt (rows[i]!) v).2, c.symm, ?_, ?_⟩
  · rw [TABLE_get i hi]; exact (reencode _ a).symm
  · rw [TABLE_get i hi]; exact (reencode _ b).symm

/-! ### `g_mul` -/

theorem valid_mk_one_iff (X Y : Fp) : Valid (mk X Y 1) ↔ Y ^ 2 = X ^ 3 + ca * X + cb := by
  rw [valid_mk_iff, ca_eq]
  simp only [ne_eq, one_ne_zero, not_false_eq_true, forall_const, one_pow, mul_one, zero_mul, add_zero]

theorem toSpec_mk_one (X Y : Fp) : toSpec (mk X Y 1) = some (X.val, Y.val) := by
  rw [toSpec_mk_of_ne one_ne_zero]; simp

/-- an affine point of the curve in Montgomery form with Z = 1 is a valid representation of itself -/
theorem affine_good (X Y : ℕ) (h : Spec.EC.onCurve Spec.SM9.curve (some (X, Y)) = true) :
    Valid ⟨X * 2 ^ 256 % Spec.SM9.p, Y * 2 ^ 256 % Spec.SM9.p, Gen.SM9.MODP_MONT_ONE⟩
      ∧ toSpec ⟨X * 2 ^ 256 % Spec.SM9.p, Y * 2 ^ 256 % Spec.SM9.p, Gen.SM9.MODP_MONT_ONE⟩ = some (X, Y) := by
  have hX : X < Spec.SM9.p := by
    simp only [Spec.EC.onCurve, Spec.SM9.curve, Bool.and_eq_true] at h; exact of_decide_eq_true h.1.1
  have hY : Y < Spec.SM9.p := by
    simp only [Spec.EC.onCurve, Spec.SM9.curve, Bool.and_eq_true] at h; exact of_decide_eq_true h.1.2
  have e : (⟨X * 2 ^ 256 % Spec.SM9.p, Y * 2 ^ 256 % Spec.SM9.p, Gen.SM9.MODP_MONT_ONE⟩ : Point)
      = mk (X : Fp) (Y : Fp) 1 := by
    unfold mk
    rw [mont_one_eq, enc_natCast, enc_natCast]
  rw [e, valid_mk_one_iff, toSpec_mk_one, ← onCurve_val, ZMod.val_cast_of_lt hX, ZMod.val_cast_of_lt hY]
  exact ⟨h, rfl⟩

/-- the table look-up of `g_mul` succeeds for every row i < 37 and every index < 64 -/
theorem gTableGet_ok (i : ℕ) (hi : i < 37) (idx : ℕ) (h : idx < 64) :
    gTableGet i idx = .ok ⟨(Impl.SM9.TABLE[i]!)[2 * (idx + 1) - 2]!, (Impl.SM9.TABLE[i]!)[2 * (idx + 1) - 1]!,
      Gen.SM9.MODP_MONT_ONE⟩ := by
  have hlen := rows_len i hi
  have hs : (rows[i]!).toArray.size = 128 := by rw [List.size_toArray, hlen]
  unfold gTableGet
  rw [TABLE_row i hi]
  simp only [hs]
  rw [if_pos (by omega)]
  have h1 : idx * 2 < (rows[i]!).toArray.size := by omega
  have h2 : idx * 2 + 1 < (rows[i]!).toArray.size := by omega
  rw [Array.getElem?_eq_getElem h1, Array.getElem?_eq_getElem h2]
  simp only []
  have l1 : idx * 2 < (rows[i]!).length := by omega
  have l2 : idx * 2 + 1 < (rows[i]!).length := by omega
  rw [TABLE_get i hi, TABLE_get i hi, show 2 * (idx + 1) - 2 = idx * 2 by omega,
    show 2 * (idx + 1) - 1 = idx * 2 + 1 by omega, getElem!_pos (rows[i]!) _ l1, getElem!_pos (rows[i]!) _ l2]
  simp only [List.getElem_toArray]

theorem table_entry_good (i : ℕ) (hi : i < 37) (v : ℕ) (h1 : 1 ≤ v) (h2 : v ≤ 64) :
    Good Spec.SM9.P1 ((v * 2 ^ (7 * i) : ℕ) : Int)
      ⟨(Impl.SM9.TABLE[i]!)[2 * v - 2]!, (Impl.SM9.TABLE[i]!)[2 * v - 1]!, Gen.SM9.MODP_MONT_ONE⟩ := by
  obtain ⟨x, y, hm, hx, hy⟩ := table_correct i hi v h1 h2
  rw [hx, hy]
  have hon : Spec.EC.onCurve Spec.SM9.curve (some (x, y)) = true := by
    rw [← hm]; exact SpecEC.onCurve_mul hc _ P1_onCurve
  obtain ⟨a, b⟩ := affine_good x y hon
  exact ⟨a, by rw [b, mulZ_natCast, hm]⟩

/-- the Booth digits of the model, window 7 -/
abbrev dig (k i : ℕ) : Int := SM9Booth.boothDigit k 7 i

theorem booth7 (k : ℕ) (hk : k < 2 ^ 256) (i : ℕ) (hi : i < 37) :
    sm9_u256_get_booth k 7 i = .ok (dig k i) ∧ -64 ≤ dig k i ∧ dig k i ≤ 64 := by
  have h := SM9Booth.booth_closed k hk 7 (Or.inr rfl) i hi
  have e := SM9Booth.boothDigit_eq k hk 7 (Or.inr rfl) i hi
  have b := SM9Booth.digit_bounds 7 _ (Or.inr rfl) (SM9Booth.win_lt k 7 i)
  rw [← e] at h b
  exact ⟨h, by simpa using b.1, by simpa using b.2⟩

/-- the loop body of `Point.g_mul` -/
def gStep (k : ℕ) (st : Outcome (Point × Bool)) (i : ℕ) : Outcome (Point × Bool) :=
  st.bind fun (r, r_infinity) =>
  (sm9_u256_get_booth k 7 i).bind fun booth =>
    if r_infinity then
      if booth ≠ 0 then (gTableGet i (asUsize (booth - 1))).map fun q => (q, false)
      else .ok (r, true)
    else
      if booth > 0 then (gTableGet i (asUsize (booth - 1))).map fun q => (r.point_add q, false)
      else if booth < 0 then (gTableGet i (asUsize (-booth - 1))).map fun q => (r.point_sub q, false)
      else .ok (r, false)

theorem g_mul_eq (k : ℕ) :
    Point.g_mul k = (((List.range 37).reverse.foldl (gStep k) (.ok (Point.zero, true))).map fun (r, _) => r) := rfl

/-- the loop invariant after the windows 36 … i have been processed: the accumulator is [2^(7i)·Σ_{j≥i} d_j 2^(7(j−i))]P1 -/
def GInv (d : ℕ → Int) (i : ℕ) (st : Outcome (Point × Bool)) : Prop :=
  ∃ r inf, st = .ok (r, inf)
    ∧ (inf = true → r = Point.zero ∧ topSum d 7 i (37 - i) = 0 ∧ ∀ j, i ≤ j → j < 37 → d j = 0)
    ∧ (inf = false → Good Spec.SM9.P1 (2 ^ (7 * i) * topSum d 7 i (37 - i)) r)

theorem look (i : ℕ) (hi : i < 37) (e : Int) (h1 : 1 ≤ e) (h2 : e ≤ 64) :
    ∃ q, gTableGet i (asUsize (e - 1)) = .ok q ∧ Good Spec.SM9.P1 (e * 2 ^ (7 * i)) q := by
  rw [asUsize_of_nonneg (e - 1) (by omega) (by omega), gTableGet_ok i hi _ (by omega)]
  refine ⟨_, rfl, ?_⟩
  have hg := table_entry_good i hi e.toNat (by omega) (by omega)
  rw [show (e - 1).toNat + 1 = e.toNat by omega]
  exact hg.cast (by push_cast; rw [Int.toNat_of_nonneg (by omega)])

theorem g_step (k : ℕ) (hk : k < 2 ^ 256) (i : ℕ) (hi : i < 37)
    (st : Outcome (Point × Bool)) (hst : GInv (dig k) (i + 1) st) : GInv (dig k) i (gStep k st i) := by
  have hQ := P1_onCurve
  obtain ⟨r, inf, rfl, hinf, hfin⟩ := hst
  obtain ⟨hb, hlo, hhi⟩ := booth7 k hk i hi
  have hT := topSum_step (dig k) 7 37 i hi
  have hpow : (2 : Int) ^ (7 * (i + 1)) = 2 ^ (7 * i) * 2 ^ 7 := by rw [Nat.mul_succ, pow_add]
  unfold gStep
  simp only [Outcome.bind, hb]
  generalize hdig : dig k i = b at hlo hhi hT ⊢
  cases inf with
  | true =>
    obtain ⟨hr, hT0, hz⟩ := hinf rfl
    simp only [if_true]
    by_cases hb0 : b = 0
    · rw [if_neg (not_not.mpr hb0)]
      refine ⟨r, true, rfl, fun _ => ⟨hr, by rw [hT, hT0, hb0]; ring, ?_⟩, fun h => absurd h (by decide)⟩
      intro j hj1 hj2
      by_cases hji : j = i
      · subst hji
        rw [hdig, hb0]
      · exact hz j (by omega) hj2
    · rw [if_pos hb0]
      have hpos : 0 < b := by
        rw [← hdig]
        exact SM9Booth.booth_first_pos k hk 7 (Or.inr rfl) i hi (fun j h1 h2 => hz j (by omega) h2)
          (fun h0 => hb0 (hdig.symm.trans h0))
      obtain ⟨q, hq1, hq2⟩ := look i hi b (by omega) hhi
      rw [hq1]
      simp only [Outcome.map, Outcome.bind]
      refine ⟨_, false, rfl, fun h => absurd h (by decide), fun _ => ?_⟩
      exact hq2.cast (by rw [hT, hT0]; ring)
  | false =>
    have hg := hfin rfl
    simp only [Bool.false_eq_true, if_false]
    by_cases hbp : b > 0
    · rw [if_pos hbp]
      obtain ⟨q, hq1, hq2⟩ := look i hi b (by omega) hhi
      rw [hq1]
      simp only [Outcome.map, Outcome.bind]
      refine ⟨_, false, rfl, fun h => absurd h (by decide), fun _ => ?_⟩
      exact (good_add hQ hg hq2).cast (by rw [hT, hpow]; ring)
    · rw [if_neg hbp]
      by_cases hbn : b < 0
      · rw [if_pos hbn]
        obtain ⟨q, hq1, hq2⟩ := look i hi (-b) (by omega) (by omega)
        rw [hq1]
        simp only [Outcome.map, Outcome.bind]
        refine ⟨_, false, rfl, fun h => absurd h (by decide), fun _ => ?_⟩
        exact (good_sub hQ hg hq2).cast (by rw [hT, hpow]; ring)
      · rw [if_neg hbn]
        refine ⟨_, false, rfl, fun h => absurd h (by decide), fun _ => ?_⟩
        have hb0 : b = 0 := by omega
        exact hg.cast (by rw [hT, hb0, hpow]; ring)

theorem g_loop (k : ℕ) (hk : k < 2 ^ 256) : ∀ m, m ≤ 37 →
    ∀ st, GInv (dig k) m st → GInv (dig k) 0 ((List.range m).reverse.foldl (gStep k) st) := by
  intro m
  induction m with
  | zero => intro _ st hst; simpa using hst
  | succ m ih =>
    intro hm st hst
    rw [List.range_succ, List.reverse_append, List.reverse_cons, List.reverse_nil, List.nil_append,
      List.singleton_append, List.foldl_cons]
    exact ih (by omega) _ (g_step k hk m (by omega) st hst)

theorem dig_sum (k : ℕ) (hk : k < 2 ^ 256) : topSum (dig k) 7 0 37 = k := by
  rw [topSum_zero_eq_sum]
  exact SM9Booth.booth_sum k hk 7 (Or.inr rfl)

/-- no Booth index leaves the table and the result is [k]P1 — for EVERY k < 2^256 -/
theorem g_mul_good (k : ℕ) (hk : k < 2 ^ 256) :
    ∃ R, Point.g_mul k = .ok R ∧ Valid R ∧ toSpec R = Spec.EC.mul Spec.SM9.curve k Spec.SM9.P1 := by
  have h0 : GInv (dig k) 37 (.ok (Point.zero, true)) :=
    ⟨Point.zero, true, rfl, fun _ => ⟨rfl, rfl, fun j h1 h2 => absurd h2 (by omega)⟩, fun h => absurd h (by decide)⟩
  obtain ⟨r, inf, hst, hinf, hfin⟩ := g_loop k hk 37 (le_refl _) _ h0
  rw [g_mul_eq, hst]
  simp only [Outcome.map, Outcome.bind]
  rw [Nat.sub_zero, dig_sum k hk] at hinf hfin
  cases inf with
  | true =>
    obtain ⟨hr, hk0, _⟩ := hinf rfl
    refine ⟨r, rfl, hr ▸ zero_valid, ?_⟩
    have hk0 : k = 0 := by exact_mod_cast hk0
    rw [hr, zero_toSpec, hk0, SpecEC.mul_zero]
  | false =>
    obtain ⟨hv, hs⟩ := hfin rfl
    refine ⟨r, rfl, hv, ?_⟩
    rw [hs, Nat.mul_zero, pow_zero, one_mul, mulZ_natCast]

end GmVerif.Proofs.SM9G1Table
