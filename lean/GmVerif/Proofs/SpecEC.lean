/-
Spec.EC (affine short-Weierstrass arithmetic on Nat with Fermat inverses) is Mathlib's elliptic-curve
group `WeierstrassCurve.Affine.Point` over `ZMod p`.  Generic in the curve.
-/
import Mathlib.AlgebraicGeometry.EllipticCurve.Affine.Point
import Mathlib.FieldTheory.Finite.Basic
import Mathlib.Tactic.FieldSimp
import Mathlib.Tactic.Ring
import Mathlib.Tactic.LinearCombination
import GmVerif.Spec.EC

namespace GmVerif.Proofs.SpecEC
open GmVerif.Spec.EC
open WeierstrassCurve.Affine

/-! ### powMod / invMod -/

theorem powMod_eq (a e m : Nat) : powMod a e m = a ^ e % m := by
  induction e using Nat.strong_induction_on with
  | _ e ih =>
    rw [powMod]
    split
    · next h => subst h; simp
    · next h =>
      have ih' := ih (e / 2) (by omega)
      simp only [ih']
      have he : a ^ e = a ^ (e / 2) * a ^ (e / 2) * a ^ (e % 2) := by
        rw [← pow_add, ← pow_add]; congr 1; omega
      split
      · next h1 =>
        rw [he, h1, pow_one]
        simp [Nat.mul_mod]
      · next h0 =>
        have h00 : e % 2 = 0 := by omega
        rw [he, h00, pow_zero, Nat.mul_one]
        simp [Nat.mul_mod]

theorem powMod_lt (a e m : Nat) (hm : 0 < m) : powMod a e m < m := by
  rw [powMod_eq]; exact Nat.mod_lt _ hm

theorem cast_powMod (a e m : Nat) : ((powMod a e m : ℕ) : ZMod m) = (a : ZMod m) ^ e := by
  rw [powMod_eq, ZMod.natCast_mod, Nat.cast_pow]

theorem two_ne_zero' {p : ℕ} [Fact p.Prime] (h2 : 2 < p) : (2 : ZMod p) ≠ 0 := by
  intro h
  have : ((2 : ℕ) : ZMod p) = 0 := by exact_mod_cast h
  rw [ZMod.natCast_eq_zero_iff] at this
  exact absurd (Nat.le_of_dvd (by norm_num) this) (by omega)

/-- Fermat inverse = field inverse (also at 0, because `p - 2 ≠ 0`) -/
theorem pow_sub_two_eq_inv {p : ℕ} [Fact p.Prime] (h2 : 2 < p) (z : ZMod p) : z ^ (p - 2) = z⁻¹ := by
  by_cases hz : z = 0
  · subst hz
    rw [zero_pow (by omega), inv_zero]
  · have h1 : z ^ (p - 1) = 1 := ZMod.pow_card_sub_one_eq_one hz
    have h3 : z ^ (p - 2) * z = 1 := by
      rw [← pow_succ]
      have : p - 2 + 1 = p - 1 := by omega
      rw [this, h1]
    exact eq_inv_of_mul_eq_one_left h3

theorem cast_invMod {p : ℕ} [Fact p.Prime] (h2 : 2 < p) (a : ℕ) :
    ((invMod a p : ℕ) : ZMod p) = ((a : ℕ) : ZMod p)⁻¹ := by
  rw [invMod, cast_powMod, pow_sub_two_eq_inv h2]

/-! ### the Mathlib curve -/

/-- hypotheses on the curve parameters (besides primality of `c.p`) -/
structure Valid (c : Curve) : Prop where
  two_lt : 2 < c.p
  disc : (4 * c.a ^ 3 + 27 * c.b ^ 2) % c.p ≠ 0

/-- `y² = x³ + a x + b` over `ZMod c.p` -/
def W (c : Curve) : WeierstrassCurve.Affine (ZMod c.p) :=
  { a₁ := 0, a₂ := 0, a₃ := 0, a₄ := (c.a : ZMod c.p), a₆ := (c.b : ZMod c.p) }

@[simp] theorem W_a₁ (c : Curve) : (W c).a₁ = 0 := rfl
@[simp] theorem W_a₂ (c : Curve) : (W c).a₂ = 0 := rfl
@[simp] theorem W_a₃ (c : Curve) : (W c).a₃ = 0 := rfl
@[simp] theorem W_a₄ (c : Curve) : (W c).a₄ = (c.a : ZMod c.p) := rfl
@[simp] theorem W_a₆ (c : Curve) : (W c).a₆ = (c.b : ZMod c.p) := rfl

variable {c : Curve}

theorem W_equation_iff (x y : ZMod c.p) :
    (W c).Equation x y ↔ y ^ 2 = x ^ 3 + (c.a : ZMod c.p) * x + (c.b : ZMod c.p) := by
  rw [WeierstrassCurve.Affine.equation_iff]
  simp

theorem W_Δ (c : Curve) :
    (W c).Δ = -16 * (((4 * c.a ^ 3 + 27 * c.b ^ 2 : ℕ)) : ZMod c.p) := by
  simp only [WeierstrassCurve.Δ, WeierstrassCurve.b₂, WeierstrassCurve.b₄, WeierstrassCurve.b₆,
    WeierstrassCurve.b₈, W_a₁, W_a₂, W_a₃, W_a₄, W_a₆]
  push_cast
  ring

variable [Fact (Nat.Prime c.p)]

theorem W_Δ_ne_zero (hc : Valid c) : (W c).Δ ≠ 0 := by
  rw [W_Δ]
  have h2 := two_ne_zero' hc.two_lt
  have h16 : (-16 : ZMod c.p) ≠ 0 := by
    have : (-16 : ZMod c.p) = -(2 ^ 4) := by norm_num
    rw [this]
    exact neg_ne_zero.mpr (pow_ne_zero _ h2)
  refine mul_ne_zero h16 ?_
  intro h
  rw [ZMod.natCast_eq_zero_iff] at h
  exact hc.disc (Nat.mod_eq_zero_of_dvd h)

theorem onCurve_some_iff (x y : ℕ) :
    onCurve c (some (x, y)) = true ↔
      x < c.p ∧ y < c.p ∧ (W c).Equation (x : ZMod c.p) (y : ZMod c.p) := by
  rw [W_equation_iff]
  simp only [onCurve, Bool.and_eq_true, decide_eq_true_eq, beq_iff_eq, and_assoc]
  refine and_congr_right fun _ => and_congr_right fun _ => ?_
  rw [← ZMod.natCast_eq_natCast_iff']
  push_cast [ZMod.natCast_mod]
  constructor <;> intro h <;> linear_combination h

theorem nonsingular_of_onCurve (hc : Valid c) {x y : ℕ} (h : onCurve c (some (x, y)) = true) :
    (W c).Nonsingular (x : ZMod c.p) (y : ZMod c.p) :=
  (WeierstrassCurve.Affine.equation_iff_nonsingular_of_Δ_ne_zero (W_Δ_ne_zero hc)).mp
    ((onCurve_some_iff x y).mp h).2.2

/-- Spec point → Mathlib point -/
def toPoint (hc : Valid c) : (P : Pt) → onCurve c P = true → (W c).Point
  | none, _ => 0
  | some (x, y), h => .some (x : ZMod c.p) (y : ZMod c.p) (nonsingular_of_onCurve hc h)

/-- Mathlib point → Spec point (canonical representatives) -/
def ofPoint : (W c).Point → Pt
  | .zero => none
  | .some x y _ => some (x.val, y.val)

instance : NeZero c.p := ⟨(Fact.out : Nat.Prime c.p).ne_zero⟩

theorem onCurve_ofPoint (P : (W c).Point) : onCurve c (ofPoint P) = true := by
  rcases P with _ | ⟨x, y, h⟩
  · rfl
  · rw [ofPoint, onCurve_some_iff]
    refine ⟨ZMod.val_lt x, ZMod.val_lt y, ?_⟩
    rw [ZMod.natCast_zmod_val, ZMod.natCast_zmod_val]
    exact h.1

theorem toPoint_ofPoint (hc : Valid c) (P : (W c).Point) (h : onCurve c (ofPoint P) = true) :
    toPoint hc (ofPoint P) h = P := by
  rcases P with _ | ⟨x, y, hxy⟩
  · rfl
  · simp only [ofPoint, toPoint]
    congr 1 <;> exact ZMod.natCast_zmod_val _

theorem ofPoint_toPoint (hc : Valid c) (P : Pt) (h : onCurve c P = true) :
    ofPoint (toPoint hc P h) = P := by
  rcases P with _ | ⟨x, y⟩
  · rfl
  · obtain ⟨hx, hy, _⟩ := (onCurve_some_iff x y).mp h
    simp only [toPoint, ofPoint, ZMod.val_cast_of_lt hx, ZMod.val_cast_of_lt hy]

theorem toPoint_injective (hc : Valid c) {P Q : Pt} (hP : onCurve c P = true) (hQ : onCurve c Q = true)
    (h : toPoint hc P hP = toPoint hc Q hQ) : P = Q := by
  rw [← ofPoint_toPoint hc P hP, ← ofPoint_toPoint hc Q hQ, h]

theorem toPoint_congr (hc : Valid c) {P Q : Pt} (h : P = Q) (hP : onCurve c P = true)
    (hQ : onCurve c Q = true) : toPoint hc P hP = toPoint hc Q hQ := by
  subst h; rfl

/-! ### the group law -/

omit [Fact (Nat.Prime c.p)] in
theorem mod_eq_val_of_cast {m : ℕ} {n : ℕ} {z : ZMod m} (h : (n : ZMod m) = z) : n % m = z.val := by
  rw [← h, ZMod.val_natCast]

omit [Fact (Nat.Prime c.p)] in
theorem cast_sub_val {m : ℕ} [NeZero m] (z : ZMod m) : ((m - z.val : ℕ) : ZMod m) = -z := by
  rw [Nat.cast_sub (le_of_lt (ZMod.val_lt z)), ZMod.natCast_self, ZMod.natCast_zmod_val, zero_sub]

omit [Fact (Nat.Prime c.p)] in
theorem cast_sub_mod {m : ℕ} [NeZero m] (n : ℕ) : ((m - n % m : ℕ) : ZMod m) = -(n : ZMod m) := by
  rw [Nat.cast_sub (le_of_lt (Nat.mod_lt _ (NeZero.pos m))), ZMod.natCast_self, ZMod.natCast_mod,
    zero_sub]

omit [Fact (Nat.Prime c.p)] in
theorem cast_sub_of_le {m : ℕ} {n : ℕ} (h : n ≤ m) : ((m - n : ℕ) : ZMod m) = -(n : ZMod m) := by
  rw [Nat.cast_sub h, ZMod.natCast_self, zero_sub]

theorem val_add_mod_eq_zero_iff (y1 y2 : ZMod c.p) : (y1.val + y2.val) % c.p = 0 ↔ y1 = -y2 := by
  rw [← Nat.dvd_iff_mod_eq_zero, ← ZMod.natCast_eq_zero_iff]
  push_cast [ZMod.natCast_zmod_val]
  exact add_eq_zero_iff_eq_neg

theorem add_ofPoint (h2 : 2 < c.p) (P Q : (W c).Point) :
    add c (ofPoint P) (ofPoint Q) = ofPoint (P + Q) := by
  rcases P with _ | ⟨x1, y1, h1⟩
  · have : (Point.zero : (W c).Point) + Q = Q := zero_add Q
    rw [this]; simp [ofPoint, add]
  rcases Q with _ | ⟨x2, y2, hh2⟩
  · have : (Point.some x1 y1 h1 : (W c).Point) + Point.zero = Point.some x1 y1 h1 := add_zero _
    rw [this]; simp [ofPoint, add]
  simp only [ofPoint, add]
  by_cases hx : x1 = x2
  · subst hx
    rw [if_pos rfl]
    by_cases hy : y1 = -y2
    · rw [if_pos ((val_add_mod_eq_zero_iff y1 y2).mpr hy)]
      rw [Point.add_of_Y_eq rfl (by simp [hy])]
    · rw [if_neg (fun h => hy ((val_add_mod_eq_zero_iff y1 y2).mp h))]
      have hy' : y1 ≠ (W c).negY x1 y2 := by simpa using hy
      rw [Point.add_of_Y_ne hy']
      have hsl : (W c).slope x1 x1 y1 y2 = (3 * x1 * x1 + c.a) * (2 * y1)⁻¹ := by
        rw [slope_of_Y_ne rfl hy']
        simp only [negY, W_a₁, W_a₂, W_a₃, W_a₄, div_eq_mul_inv]
        ring
      show some (_, _) = some (ZMod.val _, ZMod.val _)
      rw [hsl]
      refine congrArg some (Prod.ext (mod_eq_val_of_cast ?_) (mod_eq_val_of_cast ?_))
      · push_cast [cast_sub_val, cast_sub_mod, cast_invMod h2, ZMod.natCast_mod, ZMod.natCast_zmod_val]
        simp only [addX, W_a₁, W_a₂]
        ring
      · push_cast [cast_sub_val, cast_sub_mod, cast_invMod h2, ZMod.natCast_mod, ZMod.natCast_zmod_val]
        simp only [addY, negAddY, negY, addX, W_a₁, W_a₂, W_a₃]
        ring
  · have hxv : x1.val ≠ x2.val := fun h => hx (ZMod.val_injective _ h)
    rw [if_neg hxv, Point.add_of_X_ne hx]
    have hsl : (W c).slope x1 x2 y1 y2 = (y2 - y1) * (x2 - x1)⁻¹ := by
      rw [slope_of_X_ne hx, div_eq_mul_inv, ← neg_sub y2 y1, ← neg_sub x2 x1, inv_neg]
      ring
    show some (_, _) = some (ZMod.val _, ZMod.val _)
    rw [hsl]
    refine congrArg some (Prod.ext (mod_eq_val_of_cast ?_) (mod_eq_val_of_cast ?_))
    · push_cast [cast_sub_val, cast_sub_mod, cast_invMod h2, ZMod.natCast_mod, ZMod.natCast_zmod_val]
      simp only [addX, W_a₁, W_a₂]
      ring
    · push_cast [cast_sub_val, cast_sub_mod, cast_invMod h2, ZMod.natCast_mod, ZMod.natCast_zmod_val]
      simp only [addY, negAddY, negY, addX, W_a₁, W_a₂, W_a₃]
      ring


theorem neg_ofPoint (P : (W c).Point) : neg c (ofPoint P) = ofPoint (-P) := by
  rcases P with _ | ⟨x, y, h⟩
  · rfl
  · show some (_, _) = some (ZMod.val _, ZMod.val _)
    refine congrArg some (Prod.ext rfl (mod_eq_val_of_cast ?_))
    rw [cast_sub_val]
    simp [negY]

theorem mul_ofPoint (h2 : 2 < c.p) (k : ℕ) (P : (W c).Point) :
    mul c k (ofPoint P) = ofPoint (k • P) := by
  induction k using Nat.strong_induction_on generalizing P with
  | _ k ih =>
    rw [mul]
    split
    · next h => subst h; rw [zero_nsmul]; rfl
    · next h =>
      simp only [add_ofPoint h2, ih (k / 2) (by omega)]
      split
      · next h1 =>
        congr 1
        have hk : k = 1 + 2 * (k / 2) := by omega
        conv_rhs => rw [hk, add_nsmul, mul_nsmul, one_nsmul, two_nsmul]
      · next h0 =>
        congr 1
        have hk : k = 2 * (k / 2) := by omega
        conv_rhs => rw [hk, mul_nsmul, two_nsmul]

theorem ofPoint_injective (P Q : (W c).Point) (h : ofPoint P = ofPoint Q) : P = Q := by
  rcases P with _ | ⟨x1, y1, h1⟩ <;> rcases Q with _ | ⟨x2, y2, h2⟩
  · rfl
  · simp [ofPoint] at h
  · simp [ofPoint] at h
  · simp only [ofPoint, Option.some.injEq, Prod.mk.injEq] at h
    obtain ⟨hx, hy⟩ := h
    have hx' := ZMod.val_injective _ hx
    have hy' := ZMod.val_injective _ hy
    subst hx' hy'
    rfl

omit [Fact (Nat.Prime c.p)] in
theorem ofPoint_eq_none_iff (P : (W c).Point) : ofPoint P = none ↔ P = 0 := by
  rcases P with _ | ⟨x, y, h⟩
  · exact ⟨fun _ => rfl, fun _ => rfl⟩
  · constructor
    · intro h'; simp [ofPoint] at h'
    · intro h'; exact absurd h' (Point.some_ne_zero h)

theorem exists_ofPoint (hc : Valid c) {P : Pt} (hP : onCurve c P = true) :
    ∃ P' : (W c).Point, P = ofPoint P' :=
  ⟨toPoint hc P hP, (ofPoint_toPoint hc P hP).symm⟩

/-! ### statements of the task: `toPoint` is a homomorphism -/

theorem onCurve_add (hc : Valid c) {P Q : Pt} (hP : onCurve c P = true) (hQ : onCurve c Q = true) :
    onCurve c (add c P Q) = true := by
  obtain ⟨P', rfl⟩ := exists_ofPoint hc hP
  obtain ⟨Q', rfl⟩ := exists_ofPoint hc hQ
  rw [add_ofPoint hc.two_lt]
  exact onCurve_ofPoint _

theorem toPoint_add (hc : Valid c) {P Q : Pt} (hP : onCurve c P = true) (hQ : onCurve c Q = true)
    (h : onCurve c (add c P Q) = true := onCurve_add hc hP hQ) :
    toPoint hc (add c P Q) h = toPoint hc P hP + toPoint hc Q hQ := by
  apply ofPoint_injective
  rw [ofPoint_toPoint, ← add_ofPoint hc.two_lt, ofPoint_toPoint, ofPoint_toPoint]

theorem onCurve_neg (hc : Valid c) {P : Pt} (hP : onCurve c P = true) : onCurve c (neg c P) = true := by
  obtain ⟨P', rfl⟩ := exists_ofPoint hc hP
  rw [neg_ofPoint]
  exact onCurve_ofPoint _

theorem toPoint_neg (hc : Valid c) {P : Pt} (hP : onCurve c P = true)
    (h : onCurve c (neg c P) = true := onCurve_neg hc hP) :
    toPoint hc (neg c P) h = - toPoint hc P hP := by
  apply ofPoint_injective
  rw [ofPoint_toPoint, ← neg_ofPoint, ofPoint_toPoint]

theorem onCurve_mul (hc : Valid c) (k : ℕ) {P : Pt} (hP : onCurve c P = true) :
    onCurve c (mul c k P) = true := by
  obtain ⟨P', rfl⟩ := exists_ofPoint hc hP
  rw [mul_ofPoint hc.two_lt]
  exact onCurve_ofPoint _

theorem toPoint_mul (hc : Valid c) (k : ℕ) {P : Pt} (hP : onCurve c P = true)
    (h : onCurve c (mul c k P) = true := onCurve_mul hc k hP) :
    toPoint hc (mul c k P) h = k • toPoint hc P hP := by
  apply ofPoint_injective
  rw [ofPoint_toPoint, ← mul_ofPoint hc.two_lt, ofPoint_toPoint]

/-! ### consequences stated on Spec.EC only -/

theorem add_comm' (hc : Valid c) {P Q : Pt} (hP : onCurve c P = true) (hQ : onCurve c Q = true) :
    add c P Q = add c Q P := by
  obtain ⟨P', rfl⟩ := exists_ofPoint hc hP
  obtain ⟨Q', rfl⟩ := exists_ofPoint hc hQ
  rw [add_ofPoint hc.two_lt, add_ofPoint hc.two_lt, add_comm]

theorem add_assoc' (hc : Valid c) {P Q R : Pt} (hP : onCurve c P = true) (hQ : onCurve c Q = true)
    (hR : onCurve c R = true) : add c (add c P Q) R = add c P (add c Q R) := by
  obtain ⟨P', rfl⟩ := exists_ofPoint hc hP
  obtain ⟨Q', rfl⟩ := exists_ofPoint hc hQ
  obtain ⟨R', rfl⟩ := exists_ofPoint hc hR
  simp only [add_ofPoint hc.two_lt, add_assoc]

theorem add_neg' (hc : Valid c) {P : Pt} (hP : onCurve c P = true) : add c P (neg c P) = none := by
  obtain ⟨P', rfl⟩ := exists_ofPoint hc hP
  rw [neg_ofPoint, add_ofPoint hc.two_lt, add_neg_cancel]
  rfl

omit [Fact (Nat.Prime c.p)] in
theorem add_none_left (P : Pt) : add c none P = P := by
  simp [add]

omit [Fact (Nat.Prime c.p)] in
theorem add_none_right (P : Pt) : add c P none = P := by
  rcases P with _ | ⟨x, y⟩ <;> simp [add]

omit [Fact (Nat.Prime c.p)] in
theorem mul_zero (P : Pt) : mul c 0 P = none := by
  rw [mul]; simp

omit [Fact (Nat.Prime c.p)] in
theorem mul_one (P : Pt) : mul c 1 P = P := by
  rw [mul]; simp [mul_zero, add_none_right]

theorem mul_none (hc : Valid c) (k : ℕ) : mul c k none = none := by
  have := mul_ofPoint hc.two_lt k (0 : (W c).Point)
  rw [nsmul_zero] at this
  exact this

theorem mul_add (hc : Valid c) (k₁ k₂ : ℕ) {P : Pt} (hP : onCurve c P = true) :
    mul c (k₁ + k₂) P = add c (mul c k₁ P) (mul c k₂ P) := by
  obtain ⟨P', rfl⟩ := exists_ofPoint hc hP
  simp only [mul_ofPoint hc.two_lt, add_ofPoint hc.two_lt, add_nsmul]

theorem mul_mul (hc : Valid c) (k₁ k₂ : ℕ) {P : Pt} (hP : onCurve c P = true) :
    mul c k₁ (mul c k₂ P) = mul c (k₁ * k₂) P := by
  obtain ⟨P', rfl⟩ := exists_ofPoint hc hP
  simp only [mul_ofPoint hc.two_lt, mul_nsmul']

theorem mul_add_distrib (hc : Valid c) (k : ℕ) {P Q : Pt} (hP : onCurve c P = true)
    (hQ : onCurve c Q = true) : mul c k (add c P Q) = add c (mul c k P) (mul c k Q) := by
  obtain ⟨P', rfl⟩ := exists_ofPoint hc hP
  obtain ⟨Q', rfl⟩ := exists_ofPoint hc hQ
  simp only [mul_ofPoint hc.two_lt, add_ofPoint hc.two_lt, nsmul_add]

/-- if `[n]P = O` for a prime `n` and `P ≠ O`, then `[k]P = O ↔ n ∣ k`, and `[k]P = [k mod n]P` -/
theorem mul_mod_of_order (hc : Valid c) {n : ℕ} {P : Pt} (hP : onCurve c P = true)
    (hn : mul c n P = none) (k : ℕ) : mul c k P = mul c (k % n) P := by
  conv_lhs => rw [← Nat.div_add_mod k n]
  rw [mul_add hc _ _ hP, Nat.mul_comm, ← mul_mul hc _ _ hP, hn, mul_none hc, add_none_left]

theorem mul_eq_none_iff_of_prime_order (hc : Valid c) {n : ℕ} (hnp : Nat.Prime n) {P : Pt}
    (hP : onCurve c P = true) (hP0 : P ≠ none) (hn : mul c n P = none) (k : ℕ) :
    mul c k P = none ↔ n ∣ k := by
  obtain ⟨P', rfl⟩ := exists_ofPoint hc hP
  rw [mul_ofPoint hc.two_lt, ofPoint_eq_none_iff] at *
  have hP0' : P' ≠ 0 := fun h => hP0 (by rw [h]; rfl)
  have hord : addOrderOf P' = n := by
    have hd : addOrderOf P' ∣ n := addOrderOf_dvd_of_nsmul_eq_zero hn
    rcases (Nat.dvd_prime hnp).mp hd with h1 | h1
    · exact absurd (AddMonoid.addOrderOf_eq_one_iff.mp h1) hP0'
    · exact h1
  rw [← hord]
  exact (addOrderOf_dvd_iff_nsmul_eq_zero).symm

end GmVerif.Proofs.SpecEC
