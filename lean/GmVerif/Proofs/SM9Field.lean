/-
Helper lemmas for C13a / C16 / C14b (SM9): the constants dumped from the crate satisfy the side conditions of the
Montgomery / modular routines, hence `Impl.SM9.fp_*` compute the base-field operations; the Barrett routine
`mod_n_mul` is exact (and never trips its checked arithmetic) for canonical operands; `mod_n_from_hash` computes
(Ha mod (N−1)) + 1; H1/H2 framing; the sampler `sm9_random_u256` is rejection sampling; Frobenius constants.
(Booth recoding: `GmVerif.Proofs.SM9Booth`.)

Technique for the Barrett routines: the limb-exact model is first rewritten (by `rfl`) as a small function of a generic
modulus (`barrettTail`, `corr`), whose case analysis is closed by `omega`; the quotient estimates are linear facts with
literal coefficients (z, ⌊z/2^192⌋, ⌊·/2^320⌋ as atoms), also closed by `omega`.
-/
import GmVerif.Proofs.Limb
import GmVerif.Proofs.Primes
import GmVerif.Proofs.SM3
import GmVerif.Impl.SM9.Key
import GmVerif.Spec.SM9
namespace GmVerif.Proofs.SM9Field
open GmVerif GmVerif.Impl GmVerif.Impl.NatField GmVerif.Proofs.Limb
open GmVerif.Gen.SM9
set_option exponentiation.threshold 700

/-! ### constants -/

theorem P_eq : P = Spec.SM9.p := by decide
theorem N_eq : N = Spec.SM9.N := by decide
theorem P_prime : (P * P_PRIME + 1) % 2 ^ 256 = 0 := by decide
theorem P_neg : MODP_MONT_ONE = 2 ^ 256 - P := by decide
theorem N_neg : N_NEG = 2 ^ 256 - N := by decide
theorem P_2e512' : MODP_2E512 = 2 ^ 256 * 2 ^ 256 % P := by decide
theorem P_2e512 : MODP_2E512 = 2 ^ 512 % P := by decide
theorem P_m1 : P_MINUS_ONE = P - 1 := by decide
theorem P_m2 : P_MINUS_TWO = P - 2 := by decide
theorem N_m1 : N_MINUS_ONE = N - 1 := by decide
theorem N_m2 : N_MINUS_TWO = N - 2 := by decide
theorem P_range : 0 < P ∧ P < 2 ^ 256 := by decide
theorem N_range : 0 < N ∧ N < 2 ^ 256 := by decide
theorem P_big : 2 ^ 255 < P ∧ P < 2 ^ 256 := by decide
theorem N_big : 2 ^ 255 < N ∧ N < 2 ^ 256 := by decide
theorem P_odd : P % 2 = 1 := by decide
theorem mont_one : MODP_MONT_ONE = 2 ^ 256 % P := by decide
theorem mont_five : MODP_MONT_FIVE = (5 * 2 ^ 256) % P := by decide
theorem N_mu : N_BARRETT_MU = 2 ^ 512 / N := by decide
theorem N_m1_mu : 2 ^ 256 + N_MINUS_ONE_BARRETT_MU = 2 ^ 512 / (N - 1) := by decide

/-- 2^(-256) mod p -/
def RinvP : Nat := 0x7d2bc576fdf597d1cda02d92d4d62924e74504e9a96b56cc0a1c7970e5df544d
theorem RinvP_spec : 2 ^ 256 * RinvP % P = 1 % P := by decide

/-- the generators in the Montgomery domain -/
theorem P1_mont : Spec.SM9.P1.map (fun q => (q.1 * 2 ^ 256 % P, q.2 * 2 ^ 256 % P)) = some (P1_X, P1_Y) := by
  decide
theorem P2_mont : Spec.SM9.P2.map (fun q => ((q.1.1 * 2 ^ 256 % P, q.1.2 * 2 ^ 256 % P),
    (q.2.1 * 2 ^ 256 % P, q.2.2 * 2 ^ 256 % P))) = some ((P2_X0, P2_X1), (P2_Y0, P2_Y1)) := by
  decide
theorem P_Z : P1_Z = MODP_MONT_ONE ∧ P2_Z0 = MODP_MONT_ONE ∧ P2_Z1 = 0 := by decide
theorem hids : HID_SIGN = 1 ∧ HID_EXCH = 2 ∧ HID_ENC = 3 ∧ HASH1_PREFIX = 1 ∧ HASH2_PREFIX = 2 := by decide
theorem hids_spec : HID_SIGN = Spec.SM9.hidSign ∧ HID_EXCH = Spec.SM9.hidExch ∧ HID_ENC = Spec.SM9.hidEnc := by
  decide

/-! ### Fp (Montgomery domain) -/

theorem lt_mul_of_lt {m a b : Nat} (hm : m < 2 ^ 256) (ha : a < m) (hb : b < m) : a * b < m * 2 ^ 256 :=
  Nat.lt_trans (Nat.mul_lt_mul'' ha hb) (Nat.mul_lt_mul_of_pos_left hm (by omega))

/-- `fp_mul` is a Montgomery product whenever a·b < p·2^256 (in particular for a < 2^256, b < p) -/
theorem fp_mul_correct' (a b : Nat) (hab : a * b < P * 2 ^ 256) :
    SM9.fp_mul a b < P ∧ (SM9.fp_mul a b * 2 ^ 256) % P = (a * b) % P :=
  montMul_correct P P_PRIME MODP_MONT_ONE a b P_range P_prime P_neg hab

theorem fp_mul_correct (a b : Nat) (ha : a < P) (hb : b < P) :
    SM9.fp_mul a b < P ∧ (SM9.fp_mul a b * 2 ^ 256) % P = (a * b) % P :=
  fp_mul_correct' a b (lt_mul_of_lt P_range.2 ha hb)

theorem fp_mul_redc (a b : Nat) (hab : a * b < P * 2 ^ 256) : SM9.fp_mul a b = a * b * RinvP % P :=
  montMul_redc P P_PRIME MODP_MONT_ONE RinvP a b P_range P_prime P_neg RinvP_spec hab

/-- product of Montgomery representatives -/
theorem fp_mul_dom (A B : Nat) : SM9.fp_mul (A * 2 ^ 256 % P) (B * 2 ^ 256 % P) = A * B * 2 ^ 256 % P :=
  mont_mul_dom P P_PRIME MODP_MONT_ONE RinvP A B P_range P_prime P_neg RinvP_spec

theorem fp_add_correct (a b : Nat) (ha : a < P) (hb : b < P) : SM9.fp_add a b = (a + b) % P :=
  modAdd_correct P MODP_MONT_ONE a b P_range P_neg ha hb
theorem fp_sub_correct (a b : Nat) (ha : a < P) (hb : b < P) : SM9.fp_sub a b = (a + P - b) % P :=
  modSub_correct P MODP_MONT_ONE a b P_range P_neg ha hb
theorem fp_neg_correct (a : Nat) (ha : a < P) : SM9.fp_neg a = (P - a) % P :=
  modNeg_correct P a P_range ha
theorem fp_div2_correct (a : Nat) (ha : a < P) : SM9.fp_div2 a < P ∧ (2 * SM9.fp_div2 a) % P = a :=
  modDiv2_correct P a P_odd ha
theorem fp_double_correct (a : Nat) (ha : a < P) : SM9.fp_double a = 2 * a % P := by
  rw [SM9.fp_double, fp_add_correct a a ha ha, Nat.two_mul]
theorem fp_triple_correct (a : Nat) (ha : a < P) : SM9.fp_triple a = 3 * a % P := by
  rw [SM9.fp_triple, fp_double_correct a ha, fp_add_correct _ a (Nat.mod_lt _ P_range.1) ha, Nat.mod_add_mod]
  congr 1; omega
theorem fp_add_noncanonical (a b : Nat) (ha : a < 2 ^ 256) (hb : b < 2 ^ 256) :
    SM9.fp_add a b = (if a + b ≥ 2 ^ 256 then (a + b - P) % 2 ^ 256 else if a + b ≥ P then a + b - P else a + b) :=
  modAdd_noncanonical P MODP_MONT_ONE a b P_big P_neg ha hb

/-- `fp_to_mont a = a·R mod p` for every a < 2^256, canonical or not -/
theorem fp_to_mont_correct (a : Nat) (ha : a < 2 ^ 256) : SM9.fp_to_mont a = a * 2 ^ 256 % P :=
  mont_to P P_PRIME MODP_MONT_ONE RinvP MODP_2E512 a P_range P_prime P_neg RinvP_spec P_2e512' ha

theorem fp_from_mont_correct (a : Nat) (ha : a < 2 ^ 256) :
    SM9.fp_from_mont a < P ∧ (SM9.fp_from_mont a * 2 ^ 256) % P = a % P := by
  have := fp_mul_correct' a 1 (by have := P_range; omega)
  rwa [Nat.mul_one] at this

theorem fp_from_mont_dom (A : Nat) : SM9.fp_from_mont (A * 2 ^ 256 % P) = A % P :=
  mont_from_dom P P_PRIME MODP_MONT_ONE RinvP A P_range P_prime P_neg RinvP_spec

theorem fp_from_to_mont (a : Nat) (ha : a < 2 ^ 256) : SM9.fp_from_mont (SM9.fp_to_mont a) = a % P := by
  rw [fp_to_mont_correct a ha, fp_from_mont_dom]

/-- `fp_pow` in the Montgomery domain: (A·R)^e ↦ A^e·R, exponent read as its low 256 bits -/
theorem fp_pow_correct (A e : Nat) : SM9.fp_pow (A * 2 ^ 256 % P) e = A ^ (e % 2 ^ 256) * 2 ^ 256 % P := by
  have := powLoop_correct SM9.fp_mul P RinvP A e P_range.1 RinvP_spec (fun x y hx hy => fp_mul_correct x y hx hy)
  rwa [← mont_one] at this

theorem P_is_prime : Nat.Prime P := Proofs.Primes.sm9_p_prime
theorem N_is_prime : Nat.Prime N := Proofs.Primes.sm9_N_prime

/-- `fp_inv (A·R mod p) = A^(p−2)·R mod p` -/
theorem fp_inv_eq (A : Nat) : SM9.fp_inv (A * 2 ^ 256 % P) = A ^ (P - 2) * 2 ^ 256 % P := by
  rw [SM9.fp_inv, fp_pow_correct, P_m2, show (P - 2) % 2 ^ 256 = P - 2 from Nat.mod_eq_of_lt (by have := P_range; omega)]

/-- `fp_inv (A·R mod p)` is the Montgomery representative of the inverse `A^(p−2) mod p` of `A`, for A ≢ 0 -/
theorem fp_inv_correct (A : Nat) (hA : A % P ≠ 0) :
    ∃ I, I < P ∧ A * I % P = 1 ∧ SM9.fp_inv (A * 2 ^ 256 % P) = I * 2 ^ 256 % P := by
  refine ⟨A ^ (P - 2) % P, Nat.mod_lt _ P_range.1, ?_, ?_⟩
  · have h := Proofs.Primes.fermat_inv P (A % P) P_is_prime ⟨Nat.pos_of_ne_zero hA, Nat.mod_lt _ P_range.1⟩
    rw [← Nat.pow_mod] at h
    rwa [Nat.mul_mod, Nat.mod_mod, ← Nat.mul_mod] at h
  · rw [fp_inv_eq, Nat.mod_mul_mod]

theorem fp_pow_zero (e : Nat) (he : 0 < e % 2 ^ 256) : SM9.fp_pow 0 e = 0 := by
  have h := fp_pow_correct 0 e
  rw [Nat.zero_mul, Nat.zero_mod] at h
  rw [h, Nat.zero_pow he, Nat.zero_mul, Nat.zero_mod]

theorem fp_inv_zero : SM9.fp_inv 0 = 0 := fp_pow_zero P_MINUS_TWO (by decide)

/-! ### arithmetic modulo N: `mod_n_add`, `mod_n_sub`, the Barrett `mod_n_mul` -/

theorem mod_n_add_correct (a b : Nat) (ha : a < N) (hb : b < N) : SM9.mod_n_add a b = (a + b) % N :=
  modAdd_correct N N_NEG a b N_range N_neg ha hb
theorem mod_n_sub_correct (a b : Nat) (ha : a < N) (hb : b < N) : SM9.mod_n_sub a b = (a + N - b) % N :=
  modSub_correct N N_NEG a b N_range N_neg ha hb

/-- the Barrett quotient estimate of `mod_n_mul` is q or q − 1 for every z < N² -/
theorem barrett_core (z : Nat) (hz : z < N * N) :
    (z / 2 ^ 192 * N_BARRETT_MU) / 2 ^ 320 * N ≤ z ∧ z < (z / 2 ^ 192 * N_BARRETT_MU) / 2 ^ 320 * N + 2 * N := by
  simp only [N, N_BARRETT_MU] at hz ⊢
  omega

/-- the tail of `mod_n_mul` as a function of the modulus n, z, s = h1·N and prod = N[0]·h[9] -/
def barrettTail (n z s prod : Nat) : Outcome Nat :=
  if prod ≥ 2 ^ 64 then .panic else
  let s4 := s / 2 ^ 256 % 2 ^ 64 + prod
  if s4 ≥ 2 ^ 64 then .panic else
  let zlo := z % 2 ^ 256
  let slo := s % 2 ^ 256
  let r := (zlo + 2 ^ 256 - slo) % 2 ^ 256
  let carry := if zlo < slo then 1 else 0
  let t4 := (z / 2 ^ 256 % 2 ^ 64 + 2 ^ 64 - carry) % 2 ^ 64
  let s4' := (t4 + 2 ^ 64 - s4) % 2 ^ 64
  if s4' > 0 ∨ r ≥ n then .ok ((r + 2 ^ 256 - n) % 2 ^ 256) else .ok r

theorem mod_n_mul_eq (a b : Nat) : SM9.mod_n_mul a b =
    barrettTail N (a * b) (a * b / 2 ^ 192 * N_BARRETT_MU / 2 ^ 320 % 2 ^ 256 * N)
      (SM9.limb N 0 * (a * b / 2 ^ 192 * N_BARRETT_MU / 2 ^ 576 % 2 ^ 64)) := by
  unfold SM9.mod_n_mul barrettTail
  rfl

theorem barrettTail_ok (n z s : Nat) (hn : 2 ^ 255 < n ∧ n < 2 ^ 256) (k1 : s ≤ z) (k2 : z < s + 2 * n)
    (hz : z < 2 ^ 512) :
    barrettTail n z s 0 = .ok (if z - s ≥ n then z - s - n else z - s) := by
  unfold barrettTail
  dsimp only
  rw [if_neg (by omega), if_neg (by omega)]
  by_cases hc : z % 2 ^ 256 < s % 2 ^ 256
  · simp only [if_pos hc]
    split
    · split
      · congr 1; omega
      · congr 1; omega
    · split
      · congr 1; omega
      · congr 1; omega
  · simp only [if_neg hc]
    split
    · split
      · congr 1; omega
      · congr 1; omega
    · split
      · congr 1; omega
      · congr 1; omega

theorem cond_sub_mod (n q z : Nat) (k1 : q * n ≤ z) (k2 : z < q * n + 2 * n) :
    (if z - q * n ≥ n then z - q * n - n else z - q * n) = z % n := by
  obtain ⟨d, rfl⟩ := Nat.exists_eq_add_of_le k1
  rw [Nat.add_sub_cancel_left, Nat.add_comm, Nat.add_mul_mod_self_right]
  split
  · rw [mod_once d n (by omega) (by omega)]
  · rw [Nat.mod_eq_of_lt (by omega)]

theorem mod_n_mul_correct (a b : Nat) (ha : a < N) (hb : b < N) : SM9.mod_n_mul a b = .ok (a * b % N) := by
  rw [mod_n_mul_eq]
  have hz : a * b < N * N := Nat.mul_lt_mul'' ha hb
  generalize a * b = z at *
  obtain ⟨k1, k2⟩ := barrett_core z hz
  have hq : z / 2 ^ 192 * N_BARRETT_MU / 2 ^ 320 < N :=
    Nat.lt_of_mul_lt_mul_right (Nat.lt_of_le_of_lt k1 hz)
  have hq' : z / 2 ^ 192 * N_BARRETT_MU / 2 ^ 320 < 2 ^ 256 := Nat.lt_trans hq N_range.2
  have h9 : z / 2 ^ 192 * N_BARRETT_MU / 2 ^ 576 = 0 := by
    rw [show (2 : Nat) ^ 576 = 2 ^ 320 * 2 ^ 256 by rw [← Nat.pow_add], ← Nat.div_div_eq_div_mul]
    exact Nat.div_eq_of_lt hq'
  have hz2 : z < 2 ^ 512 := by
    refine Nat.lt_trans hz ?_
    rw [show (2 : Nat) ^ 512 = 2 ^ 256 * 2 ^ 256 by rw [← Nat.pow_add]]
    exact Nat.mul_lt_mul'' N_range.2 N_range.2
  rw [Nat.mod_eq_of_lt hq', h9, Nat.zero_mod, Nat.mul_zero,
    barrettTail_ok N z _ N_big k1 k2 hz2, cond_sub_mod N _ z k1 k2]

/-! ### `mod_n_from_hash` -/

theorem beNat_lt (bs : List UInt8) : beNat bs < 256 ^ bs.length := by
  induction bs with
  | nil => decide
  | cons b t ih =>
    have h := beNat_append [b] t
    rw [List.singleton_append] at h
    have hb : beNat [b] = b.toNat := by simp [beNat]
    have hb2 : b.toNat < 256 := b.toNat_lt
    rw [h, hb, List.length_cons, Nat.pow_succ]
    generalize 256 ^ t.length = m at *
    have : b.toNat * m ≤ 255 * m := Nat.mul_le_mul_right m (by omega)
    omega

/-- the quotient estimate of `mod_n_from_hash` -/
def qhat (z : Nat) : Nat := ((z / 2 ^ 192 * N_MINUS_ONE_BARRETT_MU / 2 ^ 256 % 2 ^ 128) + z / 2 ^ 192) / 2 ^ 64

theorem qhat_bounds (z : Nat) (hz : z < 2 ^ 320) :
    qhat z * N_MINUS_ONE ≤ z ∧ z < qhat z * N_MINUS_ONE + 3 * N_MINUS_ONE := by
  simp only [qhat, N_MINUS_ONE, N_MINUS_ONE_BARRETT_MU]
  generalize hz1 : z / 2 ^ 192 = z1
  have h1 : z1 < 2 ^ 128 := by omega
  have hz0 : 2 ^ 192 * z1 ≤ z ∧ z < 2 ^ 192 * z1 + 2 ^ 192 := by omega
  clear hz1
  generalize hc : z1 * 0x67980e0beb5759a655f73aebdcd1312c9c95d85ec9c073b074df4fd4dfc97c31 / 2 ^ 256 = c
  have h2 : c < 2 ^ 128 := by omega
  rw [Nat.mod_eq_of_lt h2]
  constructor
  · omega
  · omega

/-- one correction round for a generic modulus -/
def corr (n t5 : Nat) : Nat :=
  let h := t5 % 2 ^ 256
  let t4 := t5 / 2 ^ 256 % 2 ^ 64
  if t4 ≠ 0 ∨ h ≥ n then
    let b := if h < n then 1 else 0
    let d := (h + 2 ^ 256 - n) % 2 ^ 256
    d + 2 ^ 256 * ((t4 + 2 ^ 64 - b) % 2 ^ 64)
  else t5

theorem from_hash_correct_eq (t5 : Nat) : SM9.from_hash_correct t5 = corr N_MINUS_ONE t5 := by
  unfold SM9.from_hash_correct corr
  rfl

theorem corr_ok (n t5 : Nat) (hn : 2 ^ 255 < n ∧ n < 2 ^ 256) (ht : t5 < 2 ^ 320) :
    corr n t5 = if t5 ≥ n then t5 - n else t5 := by
  unfold corr
  dsimp only
  by_cases hc : t5 % 2 ^ 256 < n
  · simp only [if_pos hc]
    split
    · split
      · omega
      · omega
    · split
      · omega
      · omega
  · simp only [if_neg hc]
    split
    · split
      · omega
      · omega
    · split
      · omega
      · omega

/-- the 40-byte buffer of `mod_n_from_hash` -/
def hashBuf (ha : List UInt8) : List UInt8 :=
  if 40 ≤ ha.length then ha.take 40 else List.replicate (40 - ha.length) 0 ++ ha

theorem beNat_zeros (k : Nat) (bs : List UInt8) : beNat (List.replicate k 0 ++ bs) = beNat bs := by
  rw [beNat_append]
  have : beNat (List.replicate k (0 : UInt8)) = 0 := by
    induction k with
    | zero => rfl
    | succ k ih =>
      rw [List.replicate_succ, ← List.singleton_append, beNat_append, ih]
      simp [beNat]
  rw [this, Nat.zero_mul, Nat.zero_add]

/-- the buffer denotes the integer encoded by the first 40 bytes (all bytes, when there are fewer) -/
theorem hashBuf_val (ha : List UInt8) : beNat (hashBuf ha) = beNat (ha.take 40) := by
  unfold hashBuf
  split
  · rfl
  · rw [beNat_zeros, List.take_of_length_le (by omega)]

theorem hashBuf_lt (ha : List UInt8) : beNat (hashBuf ha) < 2 ^ 320 := by
  rw [hashBuf_val]
  have := beNat_lt (ha.take 40)
  have hl : (ha.take 40).length ≤ 40 := by rw [List.length_take]; omega
  calc beNat (ha.take 40) < 256 ^ (ha.take 40).length := this
    _ ≤ 256 ^ 40 := Nat.pow_le_pow_right (by decide) hl
    _ = 2 ^ 320 := by decide

theorem mod_n_from_hash_eq (ha : List UInt8) : SM9.mod_n_from_hash ha =
      .ok (SM9.mod_n_add (SM9.from_hash_correct (SM9.from_hash_correct
        ((beNat (hashBuf ha) + 2 ^ 320 - qhat (beNat (hashBuf ha)) * N_MINUS_ONE % 2 ^ 320) % 2 ^ 320)) % 2 ^ 256) 1) := by
  unfold SM9.mod_n_from_hash qhat hashBuf
  rfl

theorem cond_sub_mod3 (n q z : Nat) (k1 : q * n ≤ z) (k2 : z < q * n + 3 * n) :
    (if (if z - q * n ≥ n then z - q * n - n else z - q * n) ≥ n
      then (if z - q * n ≥ n then z - q * n - n else z - q * n) - n
      else (if z - q * n ≥ n then z - q * n - n else z - q * n)) = z % n := by
  obtain ⟨d, rfl⟩ := Nat.exists_eq_add_of_le k1
  rw [Nat.add_sub_cancel_left, Nat.add_comm, Nat.add_mul_mod_self_right]
  by_cases h1 : d ≥ n
  · rw [if_pos h1]
    by_cases h2 : d - n ≥ n
    · rw [if_pos h2]
      have : d = (d - n - n) + 2 * n := by omega
      rw [this, Nat.add_mul_mod_self_right, Nat.mod_eq_of_lt (by omega)]
      omega
    · rw [if_neg h2, mod_once d n (by omega) (by omega)]
  · rw [if_neg h1, if_neg h1, Nat.mod_eq_of_lt (by omega)]

theorem N_m1_big : 2 ^ 255 < N_MINUS_ONE ∧ N_MINUS_ONE < 2 ^ 256 := by decide

/-- for EVERY byte string (the fixed code no longer panics on fewer than 40 bytes) -/
theorem mod_n_from_hash_correct' (ha : List UInt8) :
    SM9.mod_n_from_hash ha = .ok (beNat (ha.take 40) % (N - 1) + 1) := by
  rw [mod_n_from_hash_eq, ← hashBuf_val]
  have hz := hashBuf_lt ha
  generalize beNat (hashBuf ha) = z at *
  obtain ⟨k1, k2⟩ := qhat_bounds z hz
  have ht : (z + 2 ^ 320 - qhat z * N_MINUS_ONE % 2 ^ 320) % 2 ^ 320 = z - qhat z * N_MINUS_ONE := by
    generalize qhat z * N_MINUS_ONE = s at *
    omega
  have hb := N_m1_big
  have c1 := corr_ok N_MINUS_ONE (z - qhat z * N_MINUS_ONE) hb (by omega)
  have c2 := corr_ok N_MINUS_ONE (if z - qhat z * N_MINUS_ONE ≥ N_MINUS_ONE then z - qhat z * N_MINUS_ONE - N_MINUS_ONE
    else z - qhat z * N_MINUS_ONE) hb (by split <;> omega)
  rw [ht, from_hash_correct_eq, from_hash_correct_eq, c1, c2, cond_sub_mod3 _ _ _ k1 k2, ← N_m1]
  have hr : z % N_MINUS_ONE < N_MINUS_ONE := Nat.mod_lt _ (by omega)
  have hN := N_m1
  have hN2 := N_range
  rw [Nat.mod_eq_of_lt (by omega), mod_n_add_correct _ 1 (by omega) (by omega), Nat.mod_eq_of_lt (by omega)]

theorem mod_n_from_hash_correct (ha : List UInt8) (_h : 40 ≤ ha.length) :
    SM9.mod_n_from_hash ha = .ok (beNat (ha.take 40) % (N - 1) + 1) := mod_n_from_hash_correct' ha

theorem barrett_estimate_lit (z : Nat) (hz : z < 2 ^ 320) :
    (z / 2 ^ 192 * (2 ^ 256 + N_MINUS_ONE_BARRETT_MU)) / 2 ^ 320 ≤ z / N_MINUS_ONE ∧
    z / N_MINUS_ONE ≤ (z / 2 ^ 192 * (2 ^ 256 + N_MINUS_ONE_BARRETT_MU)) / 2 ^ 320 + 2 := by
  simp only [N_MINUS_ONE, N_MINUS_ONE_BARRETT_MU]
  omega

/-! ### `mod_n_pow`, `mod_n_inv` -/

theorem bind_ok {α β} (a : α) (f : α → Outcome β) : (Outcome.ok a).bind f = f a := rfl

theorem mod_n_pow_aux (a : Nat) (ha : a < N) (bits : List Bool) (r k : Nat) (hr : r = a ^ k % N) :
    bits.foldl (fun (r : Outcome Nat) (bit : Bool) => r.bind fun r => (SM9.mod_n_mul r r).bind fun r =>
      if bit then SM9.mod_n_mul r a else Outcome.ok r) (Outcome.ok r) = Outcome.ok (a ^ bitsVal bits k % N) := by
  induction bits generalizing r k with
  | nil => rw [hr]; rfl
  | cons bit bits ih =>
    have hrN : r < N := by rw [hr]; exact Nat.mod_lt _ N_range.1
    have hsq : r * r % N = a ^ (2 * k) % N := by
      rw [hr, ← Nat.mul_mod, ← Nat.pow_add, Nat.two_mul]
    rw [List.foldl_cons, bitsVal, List.foldl_cons, ← bitsVal]
    rw [bind_ok, mod_n_mul_correct r r hrN hrN, bind_ok]
    cases bit
    · rw [if_neg (by decide)]
      exact ih (r * r % N) (2 * k + 0) hsq
    · have h2 : r * r % N < N := Nat.mod_lt _ N_range.1
      rw [if_pos rfl, mod_n_mul_correct _ a h2 ha]
      refine ih _ (2 * k + 1) ?_
      rw [hsq, Nat.mod_mul_mod, Nat.pow_succ]

theorem mod_n_pow_correct (a e : Nat) (ha : a < N) : SM9.mod_n_pow a e = .ok (a ^ (e % 2 ^ 256) % N) := by
  have h := mod_n_pow_aux a ha (NatField.bitsMSB e) 1 0 (by rw [Nat.pow_zero, Nat.mod_eq_of_lt (by decide)])
  rw [bitsMSB_val] at h
  exact h

theorem mod_n_inv_correct (a : Nat) (ha : 0 < a ∧ a < N) :
    ∃ r, SM9.mod_n_inv a = .ok r ∧ r < N ∧ a * r % N = 1 := by
  refine ⟨a ^ (N - 2) % N, ?_, Nat.mod_lt _ N_range.1, Proofs.Primes.fermat_inv N a N_is_prime ha⟩
  rw [SM9.mod_n_inv, mod_n_pow_correct a _ ha.2, N_m2,
    show (N - 2) % 2 ^ 256 = N - 2 from Nat.mod_eq_of_lt (by have := N_range; omega)]

/-! ### H1 / H2 -/

/-- fewer than 40 bytes (used to panic): read as the integer they encode -/
theorem mod_n_from_hash_short (ha : List UInt8) (h : ha.length < 40) :
    SM9.mod_n_from_hash ha = .ok (beNat ha % (N - 1) + 1) := by
  rw [mod_n_from_hash_correct', List.take_of_length_le (by omega)]

theorem sm3_eq (m : List UInt8) : SM9.sm3 m = Spec.SM3.hash m := by
  rw [SM9.sm3, Proofs.SM3.sm3_refines m]

theorem hash1_refines (id : List UInt8) (hid : UInt8) :
    SM9.sm9_u256_hash1 id hid = .ok (Spec.SM9.H1 (id ++ [hid])) := by
  rw [SM9.sm9_u256_hash1]
  simp only [sm3_eq]
  rw [mod_n_from_hash_correct _ (by
    rw [List.length_append, Proofs.SM3.spec_hash_length, Proofs.SM3.spec_hash_length]; decide)]
  simp only [Spec.SM9.H1, Spec.SM9.hashToRange, Spec.SM9.hash, N_eq, List.append_assoc]
  rfl

theorem hash2_refines (data w : List UInt8) :
    SM9.sm9_u256_hash2 data w = .ok (Spec.SM9.H2 (data ++ w)) := by
  rw [SM9.sm9_u256_hash2]
  simp only [sm3_eq]
  rw [mod_n_from_hash_correct _ (by
    rw [List.length_append, Proofs.SM3.spec_hash_length, Proofs.SM3.spec_hash_length]; decide)]
  simp only [Spec.SM9.H2, Spec.SM9.hashToRange, Spec.SM9.hash, N_eq, List.append_assoc]
  rfl

/-! ### the sampler `sm9_random_u256` -/

theorem lexGE_1000 (x : Nat) : SM9.lexGE (SM9.limbs4 x) [1, 0, 0, 0] = decide (x % 2 ^ 64 ≠ 0) := by
  have h0 : SM9.limb x 0 = x % 2 ^ 64 := by
    rw [SM9.limb, Nat.mul_zero, Nat.pow_zero, Nat.div_one]; rfl
  rw [SM9.limbs4, h0]
  generalize x % 2 ^ 64 = l0
  generalize SM9.limb x 1 = l1
  generalize SM9.limb x 2 = l2
  generalize SM9.limb x 3 = l3
  simp only [SM9.lexGE]
  by_cases h : l0 = 0
  · subst h; simp
  · by_cases h1 : l0 = 1
    · subst h1; simp
    · have : l0 > 1 := by omega
      simp [this, h]

theorem cmp_lt (a b : Nat) : SM9.u256_cmp a b < 0 ↔ a < b := by
  unfold SM9.u256_cmp
  split
  · constructor <;> intro h <;> omega
  · split
    · constructor <;> intro _ <;> omega
    · constructor <;> intro h <;> omega

theorem sm9_random_cons (range : Nat) (c : List UInt8) (cs : List (List UInt8)) :
    SM9.sm9_random_u256 range (c :: cs) =
      if beNat c < range ∧ beNat c % 2 ^ 64 ≠ 0 then some (beNat c, cs) else SM9.sm9_random_u256 range cs := by
  rw [SM9.sm9_random_u256]
  simp only [cmp_lt, lexGE_1000, decide_eq_true_eq]

theorem sm9_random_spec (range : Nat) (cands : List (List UInt8)) :
    SM9.sm9_random_u256 range cands =
      (match cands.dropWhile (fun c => decide (¬ (beNat c < range ∧ beNat c % 2 ^ 64 ≠ 0))) with
       | [] => none
       | c :: rest => some (beNat c, rest)) := by
  induction cands with
  | nil => rfl
  | cons c cs ih =>
    rw [sm9_random_cons, List.dropWhile_cons]
    by_cases h : beNat c < range ∧ beNat c % 2 ^ 64 ≠ 0
    · rw [if_pos h, if_neg (by rw [decide_eq_true_eq]; exact fun hn => hn h)]
    · rw [if_neg h, if_pos (by rw [decide_eq_true_eq]; exact h), ih]

theorem sm9_random_in_range (range : Nat) (cands : List (List UInt8)) (k : Nat) (rest : List (List UInt8))
    (h : SM9.sm9_random_u256 range cands = some (k, rest)) :
    1 ≤ k ∧ k < range ∧ ∃ c ∈ cands, beNat c = k := by
  induction cands with
  | nil => simp [SM9.sm9_random_u256] at h
  | cons c cs ih =>
    rw [sm9_random_cons] at h
    split at h
    · next hc =>
      simp only [Option.some.injEq, Prod.mk.injEq] at h
      obtain ⟨rfl, _⟩ := h
      exact ⟨by omega, hc.1, c, List.mem_cons_self, rfl⟩
    · obtain ⟨h1, h2, c', hc', he⟩ := ih h
      exact ⟨h1, h2, c', List.mem_cons_of_mem _ hc', he⟩

theorem sm9_random_consumes_prefix (range : Nat) (cands : List (List UInt8)) (k : Nat) (rest : List (List UInt8))
    (h : SM9.sm9_random_u256 range cands = some (k, rest)) :
    ∃ pre, cands = pre ++ rest ∧ pre ≠ [] := by
  induction cands with
  | nil => simp [SM9.sm9_random_u256] at h
  | cons c cs ih =>
    rw [sm9_random_cons] at h
    split at h
    · simp only [Option.some.injEq, Prod.mk.injEq] at h
      obtain ⟨_, rfl⟩ := h
      exact ⟨[c], rfl, by simp⟩
    · obtain ⟨pre, hp, _⟩ := ih h
      exact ⟨c :: pre, by rw [hp]; rfl, by simp⟩

/-! ### Frobenius constants -/

/-- Frobenius constants (Montgomery domain): with β = −2 = p − 2 (u² = −2), ALPHA_k = β^(k(p−1)/12)·R mod p for k = 1..5
and BETA = (β^((p−1)/4)·R mod p, 0) = (ALPHA_3, 0); kernel evaluation of `Spec.EC.powMod` -/
theorem frob_powMod :
    MONT_ALPHA1 = Spec.EC.powMod (P - 2) (1 * ((P - 1) / 12)) P * 2 ^ 256 % P ∧
    MONT_ALPHA2 = Spec.EC.powMod (P - 2) (2 * ((P - 1) / 12)) P * 2 ^ 256 % P ∧
    MONT_ALPHA3 = Spec.EC.powMod (P - 2) (3 * ((P - 1) / 12)) P * 2 ^ 256 % P ∧
    MONT_ALPHA4 = Spec.EC.powMod (P - 2) (4 * ((P - 1) / 12)) P * 2 ^ 256 % P ∧
    MONT_ALPHA5 = Spec.EC.powMod (P - 2) (5 * ((P - 1) / 12)) P * 2 ^ 256 % P ∧
    MONT_BETA_C0 = Spec.EC.powMod (P - 2) ((P - 1) / 4) P * 2 ^ 256 % P ∧ MONT_BETA_C1 = 0 ∧
    (P - 1) % 12 = 0 := by
  decide +kernel

theorem frob_pow :
    MONT_ALPHA1 = (P - 2) ^ (1 * ((P - 1) / 12)) % P * 2 ^ 256 % P ∧
    MONT_ALPHA2 = (P - 2) ^ (2 * ((P - 1) / 12)) % P * 2 ^ 256 % P ∧
    MONT_ALPHA3 = (P - 2) ^ (3 * ((P - 1) / 12)) % P * 2 ^ 256 % P ∧
    MONT_ALPHA4 = (P - 2) ^ (4 * ((P - 1) / 12)) % P * 2 ^ 256 % P ∧
    MONT_ALPHA5 = (P - 2) ^ (5 * ((P - 1) / 12)) % P * 2 ^ 256 % P ∧
    MONT_BETA_C0 = (P - 2) ^ ((P - 1) / 4) % P * 2 ^ 256 % P ∧ MONT_BETA_C1 = 0 ∧ (P - 1) % 12 = 0 := by
  have h := frob_powMod
  simp only [Proofs.Primes.powMod_eq] at h
  exact h

end GmVerif.Proofs.SM9Field
