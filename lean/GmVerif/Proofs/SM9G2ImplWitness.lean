/-
Concrete witnesses for the recorded defect of `TwistPoint.point_equals` (kernel evaluation of the model):
* P2 and −P2 compare equal (same x);
* P2 and (ω·x, y) with ω a primitive cube root of unity in Fp compare equal (DIFFERENT x, same y): the second
  disjunct of the characterisation cannot be dropped.
-/
import GmVerif.Proofs.SM9G2ImplMul
set_option autoImplicit false
namespace GmVerif.Proofs.SM9G2Impl
open GmVerif
open GmVerif.Spec.SM9 (p Pt2 add2 mul2 onTwist)
open GmVerif.Proofs.SM9Tower (F2 Canon2 dec2 Ok2 ok2_dec)
open GmVerif.Proofs.SM9G2 (ofK toK)
open GmVerif.Proofs.SM9G2ImplField
open _root_.GmVerif.Impl.SM9 (Fp2 TwistPoint twist_point_add_full)

/-- the generator of G2 in the model -/
abbrev G : TwistPoint := Impl.SM9.TWIST_POINT_MONT_P2

/-- a point with Z = 1 (`Fp2.one`) decodes to its own coordinates -/
theorem toSpec2_affine (x y : Fp2) (hx : Canon2 x) (hy : Canon2 y) :
    toSpec2 ⟨x, y, Fp2.one⟩ = some (ofK (decL x), ofK (decL y)) := by
  have e : (⟨x, y, Fp2.one⟩ : TwistPoint) = mk (decL x) (decL y) 1 := by
    simp only [mk, enc2_decL hx, enc2_decL hy, one_eq]
  rw [e, toSpec2_mk_of_ne one_ne_zero]
  simp only [one_pow, div_one]

theorem decL_injective {a b : Fp2} (ha : Canon2 a) (hb : Canon2 b) (h : decL a = decL b) : a = b := by
  rw [← enc2_decL ha, ← enc2_decL hb, h]

/-! #### P2 and −P2 -/

theorem G_z : G.z = Fp2.one := by decide +kernel
theorem G_canon : Canon2 G.x ∧ Canon2 G.y ∧ Canon2 G.z := by decide +kernel
theorem G_ne_neg : G.y ≠ G.point_neg.y := by decide +kernel
theorem G_equals_neg : G.point_equals G.point_neg = true := by decide +kernel

theorem equals_defect : ∃ P Q, Valid2 P ∧ Valid2 Q ∧ toSpec2 P ≠ toSpec2 Q ∧ P.point_equals Q = true := by
  have hn := point_neg_correct G g2_correct.1
  refine ⟨G, G.point_neg, g2_correct.1, hn.1, ?_, G_equals_neg⟩
  have e1 : G = ⟨G.x, G.y, Fp2.one⟩ := by rw [← G_z]
  have e2 : G.point_neg = ⟨G.x, G.point_neg.y, Fp2.one⟩ := by
    rw [← G_z]; rfl
  have t1 := (congrArg toSpec2 e1).trans (toSpec2_affine _ _ G_canon.1 G_canon.2.1)
  have t2 := (congrArg toSpec2 e2).trans (toSpec2_affine _ _ G_canon.1 hn.1.2.1)
  rw [t1, t2]
  intro h
  simp only [Option.some.injEq, Prod.mk.injEq, true_and] at h
  exact G_ne_neg (decL_injective G_canon.2.1 hn.1.2.1 (SM9G2.ofK_injective h))

/-! #### P2 and (ω·x, y) -/

/-- ω = 2^((p−1)/3) mod p, a primitive cube root of unity in Fp -/
def omega : Nat := 0xf300000002a3a6f2780272354f8b78f4d5fc11967be65333

theorem omega_spec : omega = Spec.EC.powMod 2 ((p - 1) / 3) p ∧ omega ^ 3 % p = 1 ∧ omega ≠ 1 := by decide +kernel

/-- (ω·x, y, 1) for the generator (x, y, 1) -/
def Gω : TwistPoint := ⟨G.x.fp_mul_fp (Impl.SM9.fp_to_mont omega), G.y, G.z⟩

theorem Gω_canon : Canon2 Gω.x ∧ Canon2 Gω.y ∧ Canon2 Gω.z := by decide +kernel
theorem Gω_check : onTwistCheck Gω = true := by decide +kernel
theorem Gω_valid : Valid2 Gω := valid2_of_check Gω Gω_canon Gω_check
theorem Gω_x_ne : G.x ≠ Gω.x := by decide +kernel
theorem G_equals_Gω : G.point_equals Gω = true := by decide +kernel

/-- valid finite points with DIFFERENT affine x-coordinates that `point_equals` declares equal -/
theorem equals_defect_y : ∃ P Q, Valid2 P ∧ Valid2 Q ∧
    (∃ x1 y1 x2 y2, toSpec2 P = some (x1, y1) ∧ toSpec2 Q = some (x2, y2) ∧ x1 ≠ x2) ∧
    P.point_equals Q = true := by
  refine ⟨G, Gω, g2_correct.1, Gω_valid, ?_, G_equals_Gω⟩
  have e1 : G = ⟨G.x, G.y, Fp2.one⟩ := by rw [← G_z]
  have e2 : Gω = ⟨Gω.x, Gω.y, Fp2.one⟩ := by
    rw [← G_z]; rfl
  refine ⟨_, _, _, _, (congrArg toSpec2 e1).trans (toSpec2_affine _ _ G_canon.1 G_canon.2.1),
    (congrArg toSpec2 e2).trans (toSpec2_affine _ _ Gω_canon.1 Gω_canon.2.1), ?_⟩
  intro h
  exact Gω_x_ne (decL_injective G_canon.1 Gω_canon.1 (SM9G2.ofK_injective h))

end GmVerif.Proofs.SM9G2Impl
