/-
The square-and-multiply loop of `Impl.NatField.powLoop` (256 bits of the exponent, most significant first) computes a power:
generic statement over any carrier with a multiplicative interpretation `φ` into a monoid.  Core + `Monoid` / basic tactics from Mathlib.
-/
import Mathlib.Algebra.Group.Defs
import Mathlib.Tactic.Ring
import GmVerif.Impl.NatField

namespace GmVerif.Proofs.SM2CurvePow
open GmVerif.Impl.NatField

/-- `powLoop` for an arbitrary carrier (it is `Impl.NatField.powLoop` when `α = Nat`) -/
def powLoopG {α : Type} (mul : α → α → α) (one a : α) (e : Nat) : α :=
  (bitsMSB e).foldl (fun r bit => let r := mul r r; if bit then mul r a else r) one

theorem powLoop_eq (mul : Nat → Nat → Nat) (one a e : Nat) : powLoop mul one a e = powLoopG mul one a e := rfl

section
variable {α : Type} {M : Type} [Monoid M] (mul : α → α → α) (one a : α) (φ : α → M) (good : α → Prop)

theorem powLoopG_spec (hone : good one) (ha : good a)
    (hmul : ∀ x y, good x → good y → good (mul x y) ∧ φ (mul x y) = φ x * φ y)
    (h1 : φ one = 1) (e : ℕ) (he : e < 2 ^ 256) :
    good (powLoopG mul one a e) ∧ φ (powLoopG mul one a e) = φ a ^ e := by
  have key : ∀ k, k ≤ 256 →
      good (((List.range k).map fun i => decide (e / 2 ^ (255 - i) % 2 = 1)).foldl
        (fun r bit => let r := mul r r; if bit then mul r a else r) one)
      ∧ φ (((List.range k).map fun i => decide (e / 2 ^ (255 - i) % 2 = 1)).foldl
        (fun r bit => let r := mul r r; if bit then mul r a else r) one) = φ a ^ (e / 2 ^ (256 - k)) := by
    intro k
    induction k with
    | zero =>
      intro _
      simp only [List.range_zero, List.map_nil, List.foldl_nil]
      refine ⟨hone, ?_⟩
      rw [h1, Nat.sub_zero, Nat.div_eq_of_lt he, pow_zero]
    | succ k ih =>
      intro hk
      obtain ⟨g, hφ⟩ := ih (by omega)
      rw [List.range_succ, List.map_append, List.foldl_append]
      simp only [List.map_cons, List.map_nil, List.foldl_cons, List.foldl_nil]
      generalize (((List.range k).map fun i => decide (e / 2 ^ (255 - i) % 2 = 1)).foldl
        (fun r bit => let r := mul r r; if bit then mul r a else r) one) = acc at g hφ ⊢
      have hq : e / 2 ^ (256 - k) = e / 2 ^ (255 - k) / 2 := by
        rw [Nat.div_div_eq_div_mul, ← pow_succ]
        congr 2; omega
      have h256 : 256 - (k + 1) = 255 - k := by omega
      rw [h256]
      rw [hq] at hφ
      obtain ⟨g2, hφ2⟩ := hmul acc acc g g
      by_cases hb : e / 2 ^ (255 - k) % 2 = 1
      · simp only [hb, decide_true, if_true]
        obtain ⟨g3, hφ3⟩ := hmul _ a g2 ha
        refine ⟨g3, ?_⟩
        rw [hφ3, hφ2, hφ, ← pow_add, ← pow_succ]
        congr 1; omega
      · simp only [hb, decide_false, Bool.false_eq_true, if_false]
        refine ⟨g2, ?_⟩
        rw [hφ2, hφ, ← pow_add]
        congr 1; omega
  have := key 256 (le_refl _)
  simpa [powLoopG, bitsMSB] using this

end

end GmVerif.Proofs.SM2CurvePow
