/-
Frobenius on EVERY element (C12b, part 1b): the four Frobenius maps of the tower model (`fp12_frobenius`, `…2`, `…3`, `…6`:
conjugations on the Fp2 coefficients and multiplications by the dumped constants MONT_ALPHA1..5 / MONT_BETA) are the
p-, p²-, p³-, p⁶-power maps, on all canonical elements, in the abstract tower `F12` and in the specification's dense
Fp12 = Fp[w]/(w¹² + 2).

Route: the constants decode to α^k, α = (−2)^((p−1)/12) (`Proofs.SM9Pairing.frobenius_constants`, kernel evaluation of five
modular powers), the model's maps follow the `Ok` rules of `Proofs.SM9Tower` and land on `frobA (α^k)`, which is
x ↦ x^(p^k) by `Proofs.SM9FrobAlg.f12_pow`; `ev ∘ dense = φ12 ∘ dec12` carries the statement to the specification.
-/
import GmVerif.Proofs.SM9FrobAlg
import GmVerif.Proofs.SM9TowerDense
import GmVerif.Proofs.SM9Pairing
set_option autoImplicit false
namespace GmVerif.Proofs.SM9FrobAll
open GmVerif GmVerif.Proofs.SM9Tower GmVerif.Proofs.SM9Bridge GmVerif.Proofs.SM9TowerDense
open GmVerif.Spec.SM9 (p)
open GmVerif.Proofs.SM9FpFacts (fp_facts)
open _root_.GmVerif.Impl.SM9 (Fp2 Fp4 Fp12)

/-! ### the dumped constants are the powers of α -/

theorem cast_p_sub_two : ((p - 2 : Nat) : K) = -2 := by
  rw [Nat.cast_sub (by decide), ZMod.natCast_self]; simp

theorem cast_p_sub_one : ((p - 1 : Nat) : K) = -1 := by
  rw [Nat.cast_sub (by decide), ZMod.natCast_self]; simp

/-- a constant of the shape reported by `frobenius_constants` is α^k in Montgomery form -/
theorem ok_alpha_of (k c : Nat) (h : c = (p - 2) ^ (k * ((p - 1) / 12)) % p * 2 ^ 256 % p) : Ok c (α ^ k) := by
  refine ⟨by rw [h]; exact Nat.mod_lt _ p_pos, ?_⟩
  rw [dec, h, ZMod.natCast_mod, Nat.cast_mul, ZMod.natCast_mod, Nat.cast_pow, cast_p_sub_two, Nat.cast_pow, Nat.cast_ofNat,
    mul_assoc, R_Rinv, mul_one, α, ← pow_mul, Nat.mul_comm]

theorem ok_alpha1 : Ok Gen.SM9.MONT_ALPHA1 α := by
  have := ok_alpha_of 1 _ SM9Pairing.frobenius_constants.2.1; rwa [pow_one] at this
theorem ok_alpha2 : Ok Gen.SM9.MONT_ALPHA2 (α ^ 2) := ok_alpha_of 2 _ SM9Pairing.frobenius_constants.2.2.1
theorem ok_alpha3 : Ok Gen.SM9.MONT_ALPHA3 (α ^ 3) := ok_alpha_of 3 _ SM9Pairing.frobenius_constants.2.2.2.1
theorem ok_alpha4 : Ok Gen.SM9.MONT_ALPHA4 (α ^ 4) := ok_alpha_of 4 _ SM9Pairing.frobenius_constants.2.2.2.2.1
theorem ok_alpha5 : Ok Gen.SM9.MONT_ALPHA5 (α ^ 5) := ok_alpha_of 5 _ SM9Pairing.frobenius_constants.2.2.2.2.2.1

theorem ok_beta : Ok2 Impl.SM9.MONT_BETA (Quad.of (α ^ 3)) := by
  rw [SM9Pairing.frobenius_constants.2.2.2.2.2.2.1]
  exact ⟨ok_alpha3, ok_zero⟩

theorem neg_two_pow_of (m : Nat) (h : (p - 2) ^ m % p = p - 1) : (-2 : K) ^ m = -1 := by
  have hc := congrArg (Nat.cast : Nat → K) h
  rwa [ZMod.natCast_mod, Nat.cast_pow, cast_p_sub_two, cast_p_sub_one] at hc

/-- α⁶ = (−2)^((p−1)/2) = −1: −2 is a quadratic non-residue -/
theorem α_pow_6 : α ^ 6 = -1 := by
  have e : (p - 1) / 12 * 6 = (p - 1) / 2 := by decide
  rw [α, ← pow_mul, e]
  exact neg_two_pow_of _ SM9Pairing.frobenius_constants.2.2.2.2.2.2.2.1

/-! ### the model's maps in the abstract tower -/

/- generic in the constant (the kernel must not be tempted to evaluate α) -/
macro "frob_alg" : tactic =>
  `(tactic| (ext <;> simp only [frobA] <;> tower_simp <;> grind))

theorem frob1_alg' (e : K) (h6 : e ^ 6 = -1) (x : F12) :
    (⟨⟨x.c0.c0.conj, x.c0.c1.conj * Quad.of (e ^ 3)⟩, ⟨x.c1.c0.conj * Quad.of e, x.c1.c1.conj * Quad.of (e ^ 4)⟩,
      ⟨x.c2.c0.conj * Quad.of (e ^ 2), x.c2.c1.conj * Quad.of (e ^ 5)⟩⟩ : F12) = frobA e x := by
  frob_alg

theorem frob2_alg' (e : K) (h6 : e ^ 6 = -1) (x : F12) :
    (⟨x.c0.conj, x.c1.conj * Quad.of (Quad.of (e ^ 2)), x.c2.conj * Quad.of (Quad.of (e ^ 4))⟩ : F12)
      = frobA (e ^ 2) x := by
  frob_alg

theorem frob3_alg' (e : K) (h6 : e ^ 6 = -1) (x : F12) :
    (⟨⟨x.c0.c0.conj, -(x.c0.c1.conj * Quad.of (e ^ 3))⟩, ⟨x.c1.c0.conj * Quad.of (e ^ 3), x.c1.c1.conj⟩,
      ⟨-x.c2.c0.conj, x.c2.c1.conj * Quad.of (e ^ 3)⟩⟩ : F12) = frobA (e ^ 3) x := by
  frob_alg

theorem frob6_alg' (e : K) (h6 : e ^ 6 = -1) (x : F12) :
    (⟨x.c0.conj, -x.c1.conj, x.c2.conj⟩ : F12) = frobA (e ^ 6) x := by
  frob_alg

theorem frob1_alg (x : F12) :
    (⟨⟨x.c0.c0.conj, x.c0.c1.conj * Quad.of (α ^ 3)⟩, ⟨x.c1.c0.conj * Quad.of α, x.c1.c1.conj * Quad.of (α ^ 4)⟩,
      ⟨x.c2.c0.conj * Quad.of (α ^ 2), x.c2.c1.conj * Quad.of (α ^ 5)⟩⟩ : F12) = frobA α x :=
  frob1_alg' α α_pow_6 x
theorem frob2_alg (x : F12) :
    (⟨x.c0.conj, x.c1.conj * Quad.of (Quad.of (α ^ 2)), x.c2.conj * Quad.of (Quad.of (α ^ 4))⟩ : F12)
      = frobA (α ^ 2) x := frob2_alg' α α_pow_6 x
theorem frob3_alg (x : F12) :
    (⟨⟨x.c0.c0.conj, -(x.c0.c1.conj * Quad.of (α ^ 3))⟩, ⟨x.c1.c0.conj * Quad.of (α ^ 3), x.c1.c1.conj⟩,
      ⟨-x.c2.c0.conj, x.c2.c1.conj * Quad.of (α ^ 3)⟩⟩ : F12) = frobA (α ^ 3) x := frob3_alg' α α_pow_6 x
theorem frob6_alg (x : F12) : (⟨x.c0.conj, -x.c1.conj, x.c2.conj⟩ : F12) = frobA (α ^ 6) x :=
  frob6_alg' α α_pow_6 x

theorem frob_ok {a : Fp12} {x : F12} (h : Ok12 a x) : Ok12 a.fp12_frobenius (frobA α x) := by
  obtain ⟨⟨h00, h01⟩, ⟨h10, h11⟩, ⟨h20, h21⟩⟩ := h
  have F := fp_facts
  rw [← frob1_alg]
  exact ⟨⟨F.o2_conj h00, F.o2_mul_fp (F.o2_conj h01) ok_alpha3⟩,
    ⟨F.o2_mul_fp (F.o2_conj h10) ok_alpha1, F.o2_mul_fp (F.o2_conj h11) ok_alpha4⟩,
    ⟨F.o2_mul_fp (F.o2_conj h20) ok_alpha2, F.o2_mul_fp (F.o2_conj h21) ok_alpha5⟩⟩

theorem frob2_ok {a : Fp12} {x : F12} (h : Ok12 a x) : Ok12 a.fp12_frobenius2 (frobA (α ^ 2) x) := by
  obtain ⟨h0, h1, h2⟩ := h
  have F := fp_facts
  rw [← frob2_alg]
  exact ⟨F.o4_conj h0, F.o4_mul_fp (F.o4_conj h1) ok_alpha2, F.o4_mul_fp (F.o4_conj h2) ok_alpha4⟩

theorem frob3_ok {a : Fp12} {x : F12} (h : Ok12 a x) : Ok12 a.fp12_frobenius3 (frobA (α ^ 3) x) := by
  obtain ⟨⟨h00, h01⟩, ⟨h10, h11⟩, ⟨h20, h21⟩⟩ := h
  have F := fp_facts
  rw [← frob3_alg]
  exact ⟨⟨F.o2_conj h00, F.o2_neg (F.o2_mul (F.o2_conj h01) ok_beta)⟩,
    ⟨F.o2_mul (F.o2_conj h10) ok_beta, F.o2_conj h11⟩,
    ⟨F.o2_neg (F.o2_conj h20), F.o2_mul (F.o2_conj h21) ok_beta⟩⟩

theorem frob6_ok {a : Fp12} {x : F12} (h : Ok12 a x) : Ok12 a.fp12_frobenius6 (frobA (α ^ 6) x) := by
  obtain ⟨h0, h1, h2⟩ := h
  have F := fp_facts
  rw [← frob6_alg]
  exact ⟨F.o4_conj h0, F.o4_neg (F.o4_conj h1), F.o4_conj h2⟩

/-- the model's maps are the p^k-power maps of the abstract tower -/
theorem frob_pow {a : Fp12} {x : F12} (h : Ok12 a x) : Ok12 a.fp12_frobenius (x ^ p) := by
  rw [f12_pow_p]; exact frob_ok h
theorem frob2_pow {a : Fp12} {x : F12} (h : Ok12 a x) : Ok12 a.fp12_frobenius2 (x ^ p ^ 2) := by
  rw [f12_pow]; exact frob2_ok h
theorem frob3_pow {a : Fp12} {x : F12} (h : Ok12 a x) : Ok12 a.fp12_frobenius3 (x ^ p ^ 3) := by
  rw [f12_pow]; exact frob3_ok h
theorem frob6_pow {a : Fp12} {x : F12} (h : Ok12 a x) : Ok12 a.fp12_frobenius6 (x ^ p ^ 6) := by
  rw [f12_pow]; exact frob6_ok h

/-! ### to the specification's dense Fp12 -/

/-- a tower element that represents `(dec12 a)^e` denotes the specification's `pow (dense a) e` -/
theorem dense_of_ok_pow {a r : Fp12} {e : Nat} (ha : Canon12 a) (hr : Ok12 r (dec12 a ^ e)) :
    Canon12 r ∧ dense r = Spec.SM9.Fp12.pow (dense a) e := by
  obtain ⟨hc, hv⟩ := hr.out
  refine ⟨hc, ?_⟩
  apply SM9Fp12.ev_injective (dense_canon _) (SM9Fp12.canon_pow _ _)
  rw [ev_dense _ hc, hv, map_pow, SM9Fp12.ev_pow, ev_dense _ ha]

theorem frobenius_correct (a : Fp12) (ha : Canon12 a) :
    Canon12 a.fp12_frobenius ∧ dense a.fp12_frobenius = Spec.SM9.Fp12.pow (dense a) p :=
  dense_of_ok_pow ha (frob_pow (ok12_dec ha))
theorem frobenius2_correct (a : Fp12) (ha : Canon12 a) :
    Canon12 a.fp12_frobenius2 ∧ dense a.fp12_frobenius2 = Spec.SM9.Fp12.pow (dense a) (p ^ 2) :=
  dense_of_ok_pow ha (frob2_pow (ok12_dec ha))
theorem frobenius3_correct (a : Fp12) (ha : Canon12 a) :
    Canon12 a.fp12_frobenius3 ∧ dense a.fp12_frobenius3 = Spec.SM9.Fp12.pow (dense a) (p ^ 3) :=
  dense_of_ok_pow ha (frob3_pow (ok12_dec ha))
theorem frobenius6_correct (a : Fp12) (ha : Canon12 a) :
    Canon12 a.fp12_frobenius6 ∧ dense a.fp12_frobenius6 = Spec.SM9.Fp12.pow (dense a) (p ^ 6) :=
  dense_of_ok_pow ha (frob6_pow (ok12_dec ha))

/-- the specification's own Frobenius is `pow · p` by definition -/
theorem spec_frobenius_eq (x : Spec.SM9.Fp12) : Spec.SM9.Fp12.frobenius x = Spec.SM9.Fp12.pow x p := rfl

/-! ### π⁶ is the conjugation w ↦ −w of Fp12 over Fp6 = Fp[w²] -/

/-- negate the coefficients of the odd powers of w -/
def conj12 (x : Spec.SM9.Fp12) : Spec.SM9.Fp12 :=
  (List.range 12).map fun i => if i % 2 = 0 then x.getD i 0 else (p - x.getD i 0) % p

theorem from_mont_neg {c : Nat} (hc : c < p) :
    Impl.SM9.fp_from_mont (Impl.SM9.fp_neg c) % p = (p - Impl.SM9.fp_from_mont c % p) % p := by
  have hn := fp_facts.oneg (ok_dec hc)
  apply (ZMod.natCast_eq_natCast_iff' _ _ _).1
  rw [fm_cast hn.1, hn.2, Nat.cast_sub (Nat.le_of_lt (Nat.mod_lt _ p_pos)), ZMod.natCast_self, ZMod.natCast_mod,
    fm_cast hc]
  ring

theorem from_mont_neg_neg {c : Nat} (hc : c < p) :
    Impl.SM9.fp_from_mont (Impl.SM9.fp_neg (Impl.SM9.fp_neg c)) % p = Impl.SM9.fp_from_mont c % p := by
  have hn := fp_facts.oneg (fp_facts.oneg (ok_dec hc))
  apply (ZMod.natCast_eq_natCast_iff' _ _ _).1
  rw [fm_cast hn.1, hn.2, fm_cast hc, neg_neg]

theorem frobenius6_conj (a : Fp12) (ha : Canon12 a) : dense a.fp12_frobenius6 = conj12 (dense a) := by
  obtain ⟨⟨⟨k0, k1⟩, ⟨k2, k3⟩⟩, ⟨⟨k4, k5⟩, ⟨k6, k7⟩⟩, ⟨⟨k8, k9⟩, ⟨k10, k11⟩⟩⟩ := ha
  rw [dense_explicit, dense_explicit]
  simp only [Fp12.fp12_frobenius6, Fp4.conjugate, Fp4.fp_neg, Fp2.fp_neg, conj12]
  simp only [List.range, List.range.loop, List.map_cons, List.map_nil, List.getD_cons_zero, List.getD_cons_succ]
  simp only [from_mont_neg, from_mont_neg_neg, k2, k3, k4, k5, k6, k7, k10, k11, Nat.reduceMod, if_true,
    show ¬ (1 = 0) from by decide, if_false]

/-! ### consistency of the four maps -/

/-- `dec12` is injective on canonical tower elements -/
theorem eq_of_dec12 {x y : Fp12} (hx : Canon12 x) (hy : Canon12 y) (h : dec12 x = dec12 y) : x = y :=
  dense_inj _ _ hx hy
    (SM9Fp12.ev_injective (dense_canon _) (dense_canon _) (by rw [ev_dense _ hx, ev_dense _ hy, h]))

theorem frobA_one (x : F12) : frobA 1 x = x := by
  ext <;> simp [frobA]

/-- π² = π∘π, π³ = π∘π², π⁶ = π³∘π³, π⁶∘π⁶ = id on every canonical element -/
theorem frobenius_iterates (a : Fp12) (ha : Canon12 a) :
    a.fp12_frobenius2 = a.fp12_frobenius.fp12_frobenius
      ∧ a.fp12_frobenius3 = a.fp12_frobenius2.fp12_frobenius
      ∧ a.fp12_frobenius6 = a.fp12_frobenius3.fp12_frobenius3
      ∧ a.fp12_frobenius6.fp12_frobenius6 = a := by
  obtain ⟨c1, e1⟩ := (frob_pow (ok12_dec ha)).out
  obtain ⟨c2, e2⟩ := (frob2_pow (ok12_dec ha)).out
  obtain ⟨c3, e3⟩ := (frob3_pow (ok12_dec ha)).out
  obtain ⟨c6, e6⟩ := (frob6_pow (ok12_dec ha)).out
  obtain ⟨c11, e11⟩ := (frob_pow (ok12_dec c1)).out
  obtain ⟨c21, e21⟩ := (frob_pow (ok12_dec c2)).out
  obtain ⟨c33, e33⟩ := (frob3_pow (ok12_dec c3)).out
  obtain ⟨c66, e66⟩ := (frob6_pow (ok12_dec c6)).out
  refine ⟨eq_of_dec12 c2 c11 ?_, eq_of_dec12 c3 c21 ?_, eq_of_dec12 c6 c33 ?_, eq_of_dec12 c66 ha ?_⟩
  · rw [e2, e11, e1, ← pow_mul, pow_two]
  · rw [e3, e21, e2, ← pow_mul, ← pow_succ]
  · rw [e6, e33, e3, ← pow_mul, ← pow_add]
  · rw [e66, e6, ← pow_mul, ← pow_add, f12_pow, α_pow_12, frobA_one]

end GmVerif.Proofs.SM9FrobAll
