/-
Helper lemmas for C04, C05a, C06, C19a, C20a: control flow of the SM2 model (`Impl.SM2.Key`), KDF, DER.
Core Lean only.  Point operations stay opaque.
-/
import GmVerif.Impl.SM2.Key
import GmVerif.Spec.SM2
import GmVerif.Thm.C01

namespace GmVerif.Proofs.SM2Logic
open GmVerif GmVerif.Impl.SM2

/-! ### SM3 wrapper -/

theorem sm3_eq_hash (m : List UInt8) : Impl.SM2.sm3 m = Spec.SM2.hash m := by
  unfold Impl.SM2.sm3 Spec.SM2.hash
  rw [Thm.C01.sm3_refines_unguarded m]

theorem hash_length (m : List UInt8) : (Spec.SM2.hash m).length = 32 :=
  Thm.C01.spec_hash_length m

theorem sm3_length (m : List UInt8) : (Impl.SM2.sm3 m).length = 32 := by
  rw [sm3_eq_hash]; exact hash_length m

/-! ### KDF -/

theorem kdfBlocks_length (z : List UInt8) (ct n : Nat) : (Spec.SM2.kdfBlocks z ct n).length = 32 * n := by
  induction n generalizing ct with
  | zero => simp [Spec.SM2.kdfBlocks]
  | succ n ih => simp [Spec.SM2.kdfBlocks, ih, hash_length]; omega

theorem kdfBlocks_add (z : List UInt8) (ct n m : Nat) :
    Spec.SM2.kdfBlocks z ct (n + m) = Spec.SM2.kdfBlocks z ct n ++ Spec.SM2.kdfBlocks z (ct + n) m := by
  induction n generalizing ct with
  | zero => simp [Spec.SM2.kdfBlocks]
  | succ n ih =>
    have : n + 1 + m = (n + m) + 1 := by omega
    rw [this]
    simp only [Spec.SM2.kdfBlocks, ih, List.append_assoc]
    have : ct + 1 + n = ct + (n + 1) := by omega
    rw [this]

theorem kdfLoop_eq (z : List UInt8) (ct n : Nat) (acc : List UInt8) :
    kdfLoop z ct n acc = (ct + n, acc ++ Spec.SM2.kdfBlocks z ct n) := by
  induction n generalizing ct acc with
  | zero => simp [kdfLoop, Spec.SM2.kdfBlocks]
  | succ n ih =>
    simp only [kdfLoop, ih, Spec.SM2.kdfBlocks, sm3_eq_hash, List.append_assoc]
    have : ct + 1 + n = ct + (n + 1) := by omega
    rw [this]

/-- closed form of the model's KDF for every klen (including 0) -/
theorem kdf_closed (z : List UInt8) (klen : Nat) :
    Impl.SM2.kdf z klen =
      Spec.SM2.kdfBlocks z 1 ((klen + 31) / 32 - 1) ++
        (if klen % 32 = 0 then Spec.SM2.hash (z ++ natBE 4 (1 + ((klen + 31) / 32 - 1)))
         else (Spec.SM2.hash (z ++ natBE 4 (1 + ((klen + 31) / 32 - 1)))).take (klen % 32)) := by
  unfold Impl.SM2.kdf
  simp only [kdfLoop_eq, List.nil_append, sm3_eq_hash]
  split <;> rfl

theorem kdf_prefix (z : List UInt8) (klen : Nat) (h : 1 ≤ klen) : Impl.SM2.kdf z klen = Spec.SM2.kdf z klen := by
  rw [kdf_closed]
  unfold Spec.SM2.kdf
  have hb : (klen + 31) / 32 = ((klen + 31) / 32 - 1) + 1 := by omega
  generalize hn : (klen + 31) / 32 - 1 = n at *
  rw [hb, kdfBlocks_add]
  have hlen := kdfBlocks_length z 1 n
  simp only [Spec.SM2.kdfBlocks, List.append_nil]
  rw [List.take_append, hlen]
  have h1 : 32 * n ≤ klen := by omega
  rw [List.take_of_length_le (l := Spec.SM2.kdfBlocks z 1 n) (by omega)]
  congr 1
  split
  · rw [List.take_of_length_le]; rw [hash_length]; omega
  · congr 1; omega

theorem kdf_length (z : List UInt8) (klen : Nat) (h : 1 ≤ klen) : (Impl.SM2.kdf z klen).length = klen := by
  rw [kdf_closed]
  simp only [List.length_append, kdfBlocks_length]
  split
  · rw [hash_length]; omega
  · rw [List.length_take, hash_length]; omega

theorem kdf_zero (z : List UInt8) : (Impl.SM2.kdf z 0).length = 32 := by
  rw [kdf_closed]
  simp [hash_length, Spec.SM2.kdfBlocks]

theorem spec_kdf_prefix (z : List UInt8) (k1 k2 : Nat) (h : k1 ≤ k2) :
    Spec.SM2.kdf z k1 = (Spec.SM2.kdf z k2).take k1 := by
  unfold Spec.SM2.kdf
  rw [List.take_take, Nat.min_eq_left h]
  have hb : (k2 + 31) / 32 = (k1 + 31) / 32 + ((k2 + 31) / 32 - (k1 + 31) / 32) := by omega
  rw [hb, kdfBlocks_add, List.take_append_of_le_length]
  rw [kdfBlocks_length]; omega

/-! ### signature verification (C04) -/

theorem compute_za_total (id : List UInt8) (pk : Point) : compute_za id pk ≠ .panic := by
  unfold compute_za
  repeat' split
  all_goals simp only [ne_eq, reduceCtorEq, not_false_eq_true]

theorem verify_raw_iff (digest : List UInt8) (pk : Point) (sig : List UInt8) :
    verify_raw digest pk sig = .ok () ↔
      digest.length = 32 ∧ sig.length = 64 ∧
      1 ≤ beNat (sig.take 32) ∧ beNat (sig.take 32) < Gen.SM2.N ∧ 1 ≤ beNat (sig.drop 32) ∧ beNat (sig.drop 32) < Gen.SM2.N ∧
      fn_add (beNat (sig.drop 32)) (beNat (sig.take 32)) ≠ 0 ∧
      ((g_mul (beNat (sig.drop 32))).point_add
          (pk.scalar_mul (fn_add (beNat (sig.drop 32)) (beNat (sig.take 32))))).is_zero = false ∧
      beNat (sig.take 32) =
        fn_add (reduceN (fp_from_mont (((g_mul (beNat (sig.drop 32))).point_add
                  (pk.scalar_mul (fn_add (beNat (sig.drop 32)) (beNat (sig.take 32))))).to_affine_point).x))
               (reduceN (beNat digest)) := by
  unfold verify_raw
  dsimp only
  repeat' split
  all_goals first | (simp only [reduceCtorEq, false_iff]; omega) | skip
  · rename_i h1 h2 h3 h4 h5 h6
    simp only [reduceCtorEq, false_iff]
    intro h
    rw [h.2.2.2.2.2.2.2.1] at h6
    exact Bool.noConfusion h6
  · rename_i h1 h2 h3 h4 h5 h6 h7
    exact ⟨fun _ => ⟨by omega, by omega, by omega, by omega, by omega, by omega, h5, by simpa using h6, h7⟩,
      fun _ => rfl⟩

theorem verify_raw_total (digest : List UInt8) (pk : Point) (sig : List UInt8) : verify_raw digest pk sig ≠ .panic := by
  unfold verify_raw
  dsimp only
  repeat' split
  all_goals simp only [ne_eq, reduceCtorEq, not_false_eq_true]

theorem verify_total (pk : Point) (id msg sig : List UInt8) : verify pk id msg sig ≠ .panic := by
  unfold verify
  split
  · exact verify_raw_total _ _ _
  · simp only [ne_eq, reduceCtorEq, not_false_eq_true]
  · rename_i h; exact absurd h (compute_za_total id pk)

theorem verify_bad_length (digest : List UInt8) (pk : Point) (sig : List UInt8) (h : sig.length ≠ 64) :
    ∃ e, verify_raw digest pk sig = .err e := by
  unfold verify_raw
  split
  · exact ⟨_, rfl⟩
  · exact ⟨_, rfl⟩

theorem verify_out_of_range (digest : List UInt8) (pk : Point) (sig : List UInt8) (_h64 : sig.length = 64)
    (h : beNat (sig.take 32) = 0 ∨ beNat (sig.take 32) ≥ Gen.SM2.N ∨ beNat (sig.drop 32) = 0 ∨ beNat (sig.drop 32) ≥ Gen.SM2.N) :
    ∃ e, verify_raw digest pk sig = .err e := by
  unfold verify_raw
  dsimp only
  split
  · exact ⟨_, rfl⟩
  · split
    · exact ⟨_, rfl⟩
    · split
      · exact ⟨_, rfl⟩
      · split
        · exact ⟨_, rfl⟩
        · omega

/-- B6: a signature that passes the length, range and t ≠ 0 checks but for which [s]G + [t]P_A is the point at infinity
is rejected with the error `InvalidDigest` -/
theorem verify_sum_infinity (digest : List UInt8) (pk : Point) (sig : List UInt8)
    (hd : digest.length = 32) (hs : sig.length = 64)
    (hr : 1 ≤ beNat (sig.take 32) ∧ beNat (sig.take 32) < Gen.SM2.N)
    (hsr : 1 ≤ beNat (sig.drop 32) ∧ beNat (sig.drop 32) < Gen.SM2.N)
    (ht : fn_add (beNat (sig.drop 32)) (beNat (sig.take 32)) ≠ 0)
    (h : ((g_mul (beNat (sig.drop 32))).point_add
        (pk.scalar_mul (fn_add (beNat (sig.drop 32)) (beNat (sig.take 32))))).is_zero = true) :
    verify_raw digest pk sig = .err "InvalidDigest" := by
  unfold verify_raw
  dsimp only
  rw [if_neg (by omega), if_neg (by omega), if_neg (by omega), if_neg (by omega), if_neg ht, if_pos h]

theorem verify_unfold (pk : Point) (id msg sig : List UInt8) (za : List UInt8) (h : compute_za id pk = .ok za) :
    verify pk id msg sig = verify_raw (sm3 (za ++ msg)) pk sig := by
  unfold verify
  rw [h]

/-! ### point decoding and decryption (C06) -/

theorem from_byte_total (b : List UInt8) : Point.from_byte b ≠ .panic := by
  unfold Point.from_byte
  split
  · (intro h; cases h)
  · split
    · split
      · (intro h; cases h)
      · extract_lets yq xr x xxx ax yy
        split
        · (intro h; cases h)
        · split
          · (intro h; cases h)
          · (intro h; cases h)
    · split
      · split
        · (intro h; cases h)
        · extract_lets xr yr
          split
          · (intro h; cases h)
          · split
            · (intro h; cases h)
            · (intro h; cases h)
      · (intro h; cases h)

theorem from_byte_ok (b : List UInt8) (p : Point) (h : Point.from_byte b = .ok p) :
    (b.head? = some 0x04 ∧ b.length = 65 ∧ beNat ((b.drop 1).take 32) < Gen.SM2.P ∧ beNat (b.drop 33) < Gen.SM2.P ∧ p.is_valid_affine_point = true
        ∧ p = ⟨fp_to_mont (beNat ((b.drop 1).take 32)), fp_to_mont (beNat (b.drop 33)), Gen.SM2.MODP_MONT_ONE⟩)
    ∨ ((b.head? = some 0x02 ∨ b.head? = some 0x03) ∧ b.length = 33 ∧ beNat (b.drop 1) < Gen.SM2.P ∧ p.x = fp_to_mont (beNat (b.drop 1)) ∧ p.z = Gen.SM2.MODP_MONT_ONE) := by
  unfold Point.from_byte at h
  split at h
  · cases h
  · rename_i flag rest
    split at h
    · rename_i hflag
      split at h
      · cases h
      · rename_i hlen
        extract_lets yq xr x xxx ax yy at h
        split at h
        · cases h
        · rename_i hx
          split at h
          · cases h
          · cases h
            right
            refine ⟨?_, by omega, ?_, rfl, rfl⟩
            · simpa only [List.head?_cons, Option.some.injEq] using hflag
            · simp only [List.drop_succ_cons, List.drop_zero]; omega
    · split at h
      · rename_i hflag
        split at h
        · cases h
        · rename_i hlen
          extract_lets xr yr at h
          split at h
          · cases h
          · rename_i hxy
            split at h
            · cases h
            · rename_i hv
              injection h with h
              subst h
              left
              simp only [List.drop_succ_cons, List.drop_zero, List.head?_cons]
              refine ⟨by rw [hflag], by omega, by omega, by omega, ?_, rfl⟩
              simpa using hv
      · cases h

theorem xor_bytes_ok (a b : List UInt8) (h : a.length = b.length) :
    xor_bytes a b = .ok (List.zipWith (· ^^^ ·) a b) := by
  unfold xor_bytes
  rw [if_neg (by omega)]

def decL1 (compressed : Bool) : Nat := if compressed then 33 else 65
def decC2 (ct : List UInt8) (l1 : Nat) (model : Model) : List UInt8 :=
  match model with
  | .c1c2c3 => (ct.drop l1).take (ct.length - 32 - l1)
  | .c1c3c2 => ct.drop (l1 + 32)
def decC3 (ct : List UInt8) (l1 : Nat) (model : Model) : List UInt8 :=
  match model with
  | .c1c2c3 => ct.drop (ct.length - 32)
  | .c1c3c2 => (ct.drop l1).take 32
def decX2 (d : Nat) (c1 : Point) : List UInt8 := bytes32 (fp_from_mont ((c1.scalar_mul d).to_affine_point).x)
def decY2 (d : Nat) (c1 : Point) : List UInt8 := bytes32 (fp_from_mont ((c1.scalar_mul d).to_affine_point).y)
def decT (d : Nat) (c1 : Point) (n : Nat) : List UInt8 := kdf (decX2 d c1 ++ decY2 d c1) n

/-- the part of `decrypt` after C1 has been decoded, let-free, with xor_bytes resolved -/
def decBody (d : Nat) (c2 c3 : List UInt8) (c1 : Point) : Outcome (List UInt8) :=
  if ¬ c1.to_affine_point.is_valid_affine_point then .err "CheckPointErr"
  else if (c1.scalar_mul 1).is_zero then .err "ZeroPoint"
  else if (decT d c1 c2.length).all (· == 0) then .err "ZeroData"
  else
    match xor_bytes c2 (decT d c1 c2.length) with
    | .ok mb => if sm3 (decX2 d c1 ++ mb ++ decY2 d c1) ≠ c3 then .err "HashNotEqual" else .ok mb
    | .err e => .err e
    | .panic => .panic

theorem decrypt_eq (d : Nat) (ct : List UInt8) (compressed : Bool) (model : Model) :
    decrypt d ct compressed model =
      if ct.length < decL1 compressed + 32 + 1 then .err "InvalidFieldLen"
      else match Point.from_byte (ct.take (decL1 compressed)) with
        | .err e => .err e
        | .panic => .panic
        | .ok c1 => decBody d (decC2 ct (decL1 compressed) model) (decC3 ct (decL1 compressed) model) c1 := by
  rfl

theorem decC2_length (ct : List UInt8) (l1 : Nat) (model : Model) (h : ct.length ≥ l1 + 33) :
    (decC2 ct l1 model).length = ct.length - l1 - 32 := by
  unfold decC2
  cases model
  · simp only [List.length_take, List.length_drop]; omega
  · simp only [List.length_drop]; omega

theorem decT_length (d : Nat) (c1 : Point) (n : Nat) (h : 1 ≤ n) : (decT d c1 n).length = n :=
  kdf_length _ _ h

theorem decBody_eq (d : Nat) (c2 c3 : List UInt8) (c1 : Point) (h : 1 ≤ c2.length) :
    decBody d c2 c3 c1 =
      if ¬ c1.to_affine_point.is_valid_affine_point then .err "CheckPointErr"
      else if (c1.scalar_mul 1).is_zero then .err "ZeroPoint"
      else if (decT d c1 c2.length).all (· == 0) then .err "ZeroData"
      else if sm3 (decX2 d c1 ++ List.zipWith (· ^^^ ·) c2 (decT d c1 c2.length) ++ decY2 d c1) ≠ c3 then .err "HashNotEqual"
      else .ok (List.zipWith (· ^^^ ·) c2 (decT d c1 c2.length)) := by
  unfold decBody
  rw [xor_bytes_ok _ _ (decT_length d c1 _ h).symm]

theorem decBody_ok_iff (d : Nat) (c2 c3 : List UInt8) (c1 : Point) (h : 1 ≤ c2.length) (m : List UInt8) :
    decBody d c2 c3 c1 = .ok m ↔
      c1.to_affine_point.is_valid_affine_point = true ∧ (c1.scalar_mul 1).is_zero = false ∧
      ((decT d c1 c2.length).all (· == 0)) = false ∧ m = List.zipWith (· ^^^ ·) c2 (decT d c1 c2.length) ∧
      sm3 (decX2 d c1 ++ m ++ decY2 d c1) = c3 := by
  rw [decBody_eq d c2 c3 c1 h]
  split
  · rename_i h1
    exact ⟨(fun h => nomatch h), fun ⟨a, _⟩ => absurd a h1⟩
  · split
    · rename_i h1 h2
      exact ⟨(fun h => nomatch h), fun ⟨_, a, _⟩ => by rw [a] at h2; cases h2⟩
    · split
      · rename_i h1 h2 h3
        exact ⟨(fun h => nomatch h), fun ⟨_, _, a, _⟩ => by rw [a] at h3; cases h3⟩
      · split
        · rename_i h1 h2 h3 h4
          exact ⟨(fun h => nomatch h), fun ⟨_, _, _, a, b⟩ => by subst a; exact absurd b h4⟩
        · rename_i h1 h2 h3 h4
          constructor
          · intro h
            cases h
            exact ⟨Decidable.not_not.mp h1, Bool.eq_false_iff.mpr h2, Bool.eq_false_iff.mpr h3, rfl, Decidable.not_not.mp h4⟩
          · rintro ⟨_, _, _, a, _⟩
            rw [a]

theorem decBody_total (d : Nat) (c2 c3 : List UInt8) (c1 : Point) (h : 1 ≤ c2.length) :
    decBody d c2 c3 c1 ≠ .panic := by
  rw [decBody_eq d c2 c3 c1 h]
  repeat' split
  all_goals (intro h; cases h)

theorem decrypt_ok_iff' (d : Nat) (ct : List UInt8) (compressed : Bool) (model : Model) (m : List UInt8) :
    decrypt d ct compressed model = .ok m ↔
      ∃ c1 : Point,
        ct.length ≥ decL1 compressed + 33 ∧ Point.from_byte (ct.take (decL1 compressed)) = .ok c1 ∧
        c1.to_affine_point.is_valid_affine_point = true ∧ (c1.scalar_mul 1).is_zero = false ∧
        ((decT d c1 (decC2 ct (decL1 compressed) model).length).all (· == 0)) = false ∧
        m = List.zipWith (· ^^^ ·) (decC2 ct (decL1 compressed) model) (decT d c1 (decC2 ct (decL1 compressed) model).length) ∧
        sm3 (decX2 d c1 ++ m ++ decY2 d c1) = decC3 ct (decL1 compressed) model := by
  rw [decrypt_eq]
  split
  · rename_i hlt
    exact ⟨(fun h => nomatch h), fun ⟨_, a, _⟩ => by omega⟩
  · rename_i hge
    have hc2 : 1 ≤ (decC2 ct (decL1 compressed) model).length := by
      rw [decC2_length _ _ _ (by omega)]; omega
    split
    · rename_i e heq
      exact ⟨(fun h => nomatch h), fun ⟨_, _, a, _⟩ => by rw [a] at heq; cases heq⟩
    · rename_i heq
      exact ⟨(fun h => nomatch h), fun ⟨_, _, a, _⟩ => by rw [a] at heq; cases heq⟩
    · rename_i c1 heq
      rw [decBody_ok_iff _ _ _ _ hc2]
      constructor
      · intro h
        exact ⟨c1, by omega, heq, h⟩
      · rintro ⟨c1', _, a, h⟩
        rw [a] at heq
        cases heq
        exact h

theorem decrypt_total (d : Nat) (ct : List UInt8) (compressed : Bool) (model : Model) :
    decrypt d ct compressed model ≠ .panic := by
  rw [decrypt_eq]
  split
  · exact fun h => nomatch h
  · rename_i hge
    have hc2 : 1 ≤ (decC2 ct (decL1 compressed) model).length := by
      rw [decC2_length _ _ _ (by omega)]; omega
    split
    · exact fun h => nomatch h
    · rename_i heq; exact absurd heq (from_byte_total _)
    · exact decBody_total _ _ _ _ hc2

theorem decrypt_truncated (d : Nat) (ct : List UInt8) (compressed : Bool) (model : Model)
    (h : ct.length < (if compressed then 33 else 65) + 33) :
    ∃ e, decrypt d ct compressed model = .err e := by
  rw [decrypt_eq]
  have h' : ct.length < decL1 compressed + 32 + 1 := h
  rw [if_pos h']
  exact ⟨_, rfl⟩

theorem decrypt_length (d : Nat) (ct : List UInt8) (c : Bool) (model : Model) (m : List UInt8)
    (h : decrypt d ct c model = .ok m) : m.length = ct.length - (if c then 33 else 65) - 32 := by
  obtain ⟨c1, hlen, _, _, _, _, hm, _⟩ := (decrypt_ok_iff' d ct c model m).mp h
  have hc2 := decC2_length ct (decL1 c) model hlen
  rw [hm, List.length_zipWith, decT_length _ _ _ (by omega), Nat.min_self, hc2]
  rfl

/-- decision logic of decrypt stated outright (the statement of C06) -/
theorem decrypt_ok_iff (d : Nat) (ct : List UInt8) (compressed : Bool) (model : Model) (m : List UInt8) :
    decrypt d ct compressed model = .ok m ↔
      ∃ c1 : Point,
        let l1 := if compressed then 33 else 65
        ct.length ≥ l1 + 33 ∧ Point.from_byte (ct.take l1) = .ok c1 ∧
        c1.to_affine_point.is_valid_affine_point = true ∧ (c1.scalar_mul 1).is_zero = false ∧
        let c2 := (match model with | .c1c2c3 => (ct.drop l1).take (ct.length - 32 - l1) | .c1c3c2 => ct.drop (l1 + 32))
        let c3 := (match model with | .c1c2c3 => ct.drop (ct.length - 32) | .c1c3c2 => (ct.drop l1).take 32)
        let q := (c1.scalar_mul d).to_affine_point
        let x2 := bytes32 (fp_from_mont q.x); let y2 := bytes32 (fp_from_mont q.y)
        let t := kdf (x2 ++ y2) c2.length
        (t.all (· == 0)) = false ∧ m = List.zipWith (· ^^^ ·) c2 t ∧ sm3 (x2 ++ m ++ y2) = c3 :=
  decrypt_ok_iff' d ct compressed model m

/-! ### totality of the key / sign / encrypt entry points, termination of the retry loop, RNG (C20a) -/

theorem public_from_private_total (d : Nat) : public_from_private d ≠ .panic := by
  unfold public_from_private
  extract_lets p
  split <;> exact fun h => nomatch h

theorem sk_new_total (b : List UInt8) : sk_new b ≠ .panic := by
  unfold sk_new
  split
  · exact fun h => nomatch h
  · extract_lets d
    split
    · exact fun h => nomatch h
    · split
      · exact fun h => nomatch h
      · exact fun h => nomatch h
      · rename_i heq; exact absurd heq (public_from_private_total _)

theorem N_MINUS_TWO_eq : Gen.SM2.N_MINUS_TWO = Gen.SM2.N - 2 := by decide +kernel

theorem sk_new_ok (b : List UInt8) (d : Nat) (p : Point) (h : sk_new b = .ok (d, p)) :
    b.length = 32 ∧ 1 ≤ d ∧ d ≤ Gen.SM2.N - 2 ∧ d = beNat b := by
  unfold sk_new at h
  split at h
  · cases h
  · rename_i hlen
    extract_lets d' at h
    split at h
    · cases h
    · rename_i hd
      split at h
      · rename_i p' heq
        have h1 : (d', p') = (d, p) := Outcome.ok.inj h
        have h2 : d' = d := congrArg Prod.fst h1
        rw [← N_MINUS_TWO_eq, ← h2]
        refine ⟨by omega, by omega, by omega, rfl⟩
      · cases h
      · cases h

theorem pk_new_total (b : List UInt8) : pk_new b ≠ .panic := by
  unfold pk_new
  split
  · split <;> exact fun h => nomatch h
  · exact fun h => nomatch h
  · rename_i heq; exact absurd heq (from_byte_total _)

/-! random_u256 -/

theorem random_u256_spec (cands : List (List UInt8)) :
    random_u256 cands = (match cands.dropWhile (fun c => ¬ (beNat c < Gen.SM2.N ∧ beNat c ≠ 0)) with
      | [] => none | c :: rest => some (beNat c, rest)) := by
  induction cands with
  | nil => rfl
  | cons c cs ih =>
    unfold random_u256
    extract_lets v
    by_cases h : v < Gen.SM2.N ∧ v ≠ 0
    · rw [if_pos h, List.dropWhile_cons_of_neg (by simpa using h)]
    · rw [if_neg h, ih]
      rw [List.dropWhile_cons_of_pos (p := fun c => decide ¬ (beNat c < Gen.SM2.N ∧ beNat c ≠ 0)) (decide_eq_true h)]

theorem random_u256_some (cands : List (List UInt8)) (k : Nat) (rest : List (List UInt8))
    (h : random_u256 cands = some (k, rest)) :
    ∃ pre c, cands = pre ++ c :: rest ∧ beNat c = k ∧ 1 ≤ k ∧ k < Gen.SM2.N ∧
      ∀ x ∈ pre, ¬ (1 ≤ beNat x ∧ beNat x < Gen.SM2.N) := by
  induction cands with
  | nil => cases h
  | cons c cs ih =>
    unfold random_u256 at h
    extract_lets v at h
    split at h
    · rename_i hv
      have h1 : (v, cs) = (k, rest) := Option.some.inj h
      have hk : v = k := congrArg Prod.fst h1
      have hr : cs = rest := congrArg Prod.snd h1
      subst hr
      refine ⟨[], c, rfl, hk, by omega, by omega, by simp⟩
    · rename_i hv
      obtain ⟨pre, c', hc, hk, h1, h2, hpre⟩ := ih h
      refine ⟨c :: pre, c', by rw [hc]; rfl, hk, h1, h2, ?_⟩
      intro x hx
      rcases List.mem_cons.mp hx with rfl | hx
      · show ¬ (1 ≤ v ∧ v < Gen.SM2.N)
        omega
      · exact hpre x hx

theorem random_u256_none (cands : List (List UInt8)) (h : random_u256 cands = none) :
    ∀ x ∈ cands, ¬ (1 ≤ beNat x ∧ beNat x < Gen.SM2.N) := by
  induction cands with
  | nil => simp
  | cons c cs ih =>
    unfold random_u256 at h
    extract_lets v at h
    split at h
    · cases h
    · rename_i hv
      intro x hx
      rcases List.mem_cons.mp hx with rfl | hx
      · show ¬ (1 ≤ v ∧ v < Gen.SM2.N)
        omega
      · exact ih h x hx

theorem random_u256_in_range (cands : List (List UInt8)) (k : Nat) (rest : List (List UInt8))
    (h : random_u256 cands = some (k, rest)) : 1 ≤ k ∧ k < Gen.SM2.N ∧ ∃ c ∈ cands, beNat c = k := by
  obtain ⟨pre, c, hc, hk, h1, h2, _⟩ := random_u256_some cands k rest h
  exact ⟨h1, h2, c, by rw [hc]; simp, hk⟩

/-! loops -/

theorem signLoop_total (e d s1 fuel : Nat) (cands : List (List UInt8)) (used : List Nat) :
    signLoop e d s1 fuel cands used ≠ .panic := by
  induction fuel generalizing cands used with
  | zero => unfold signLoop; exact fun h => nomatch h
  | succ n ih =>
    unfold signLoop
    split
    · exact fun h => nomatch h
    · extract_lets used' p_x x1 r s
      split
      · exact ih _ _
      · split
        · exact ih _ _
        · exact fun h => nomatch h

theorem sign_raw_total (digest : List UInt8) (d : Nat) (cands : List (List UInt8)) :
    sign_raw digest d cands ≠ .panic := by
  unfold sign_raw
  split
  · exact fun h => nomatch h
  · exact signLoop_total _ _ _ _ _ _

theorem encLoop_total (pk : Point) (msg : List UInt8) (hmsg : 1 ≤ msg.length) (c : Bool) (model : Model)
    (fuel : Nat) (cands : List (List UInt8)) (used : List Nat) :
    encLoop pk msg c model fuel cands used ≠ .panic := by
  induction fuel generalizing cands used with
  | zero => unfold encLoop; exact fun h => nomatch h
  | succ n ih =>
    unfold encLoop
    split
    · exact fun h => nomatch h
    · extract_lets used' c1_p s_p c2_p x2 y2 t c3 c1
      split
      · exact fun h => nomatch h
      · split
        · exact ih _ _
        · have hl : msg.length = t.length := (kdf_length _ _ hmsg).symm
          rw [xor_bytes_ok _ _ hl]
          exact fun h => nomatch h

theorem encrypt_total (pk : Point) (msg : List UInt8) (c : Bool) (model : Model) (cands : List (List UInt8)) :
    encrypt pk msg c model cands ≠ .panic := by
  unfold encrypt
  split
  · exact fun h => nomatch h
  · rename_i h
    have hmsg : 1 ≤ msg.length := by
      cases msg with
      | nil => exact absurd rfl h
      | cons a l => simp
    exact encLoop_total pk msg hmsg c model _ _ _

def signR (e k : Nat) : Nat := fn_add e (reduceN (fp_from_mont (g_mul k).to_affine_point.x))
def signS (e d s1 k : Nat) : Nat := fn_mul s1 (fn_sub k (fn_mul (signR e k) d))

theorem signLoop_succ (e d s1 fuel : Nat) (cands : List (List UInt8)) (used : List Nat) (k : Nat)
    (rest : List (List UInt8)) (h : random_u256 cands = some (k, rest)) :
    signLoop e d s1 (fuel + 1) cands used =
      if signR e k = 0 ∨ (signR e k + k) % 2 ^ 256 = Gen.SM2.N then signLoop e d s1 fuel rest (used ++ [k])
      else if signS e d s1 k = 0 then signLoop e d s1 fuel rest (used ++ [k])
      else .ok ⟨bytes32 (signR e k) ++ bytes32 (signS e d s1 k), used ++ [k], rest⟩ := by
  rw [signLoop, h]
  rfl

theorem signLoop_terminates (e d s1 : Nat) (c : List UInt8)
    (hrange : 1 ≤ beNat c ∧ beNat c < Gen.SM2.N)
    (h1 : ¬ (signR e (beNat c) = 0 ∨ (signR e (beNat c) + beNat c) % 2 ^ 256 = Gen.SM2.N))
    (h2 : signS e d s1 (beNat c) ≠ 0)
    (fuel : Nat) (cands : List (List UInt8)) (used : List Nat) (hf : cands.length < fuel) (hc : c ∈ cands) :
    ∃ r, signLoop e d s1 fuel cands used = .ok r := by
  induction fuel generalizing cands used with
  | zero => omega
  | succ n ih =>
    cases hr : random_u256 cands with
    | none => exact absurd hrange (random_u256_none cands hr c hc)
    | some kr =>
      obtain ⟨k, rest⟩ := kr
      obtain ⟨pre, c0, hcands, hk, _, _, hpre⟩ := random_u256_some cands k rest hr
      rw [signLoop_succ e d s1 n cands used k rest hr]
      have hlen : rest.length < n := by
        rw [hcands] at hf
        simp only [List.length_append, List.length_cons] at hf
        omega
      have hmem : (signR e k = 0 ∨ (signR e k + k) % 2 ^ 256 = Gen.SM2.N) ∨ signS e d s1 k = 0 → c ∈ rest := by
        intro hretry
        rw [hcands] at hc
        rcases List.mem_append.mp hc with hc | hc
        · exact absurd hrange (hpre c hc)
        · rcases List.mem_cons.mp hc with hc | hc
          · subst hc
            rw [← hk] at hretry
            rcases hretry with h | h
            · exact absurd h h1
            · exact absurd h h2
          · exact hc
      split
      · rename_i h; exact ih rest _ hlen (hmem (.inl h))
      · split
        · rename_i h; exact ih rest _ hlen (hmem (.inr h))
        · exact ⟨_, rfl⟩

theorem sign_terminates_if (digest : List UInt8) (d : Nat) (cands : List (List UInt8)) (hd : digest.length = 32)
    (c : List UInt8) (hc : c ∈ cands) (hrange : 1 ≤ beNat c ∧ beNat c < Gen.SM2.N)
    (hacc :
      let e := reduceN (beNat digest)
      let s1 := fn_pow ((1 + d) % 2 ^ 256) Gen.SM2.N_MINUS_TWO
      let k := beNat c
      let r := fn_add e (reduceN (fp_from_mont (g_mul k).to_affine_point.x))
      ¬ (r = 0 ∨ (r + k) % 2 ^ 256 = Gen.SM2.N) ∧ fn_mul s1 (fn_sub k (fn_mul r d)) ≠ 0) :
    (∃ r, sign_raw digest d cands = .ok r) ∧ sign_raw digest d cands ≠ .err "rng-exhausted" := by
  have h : ∃ r, sign_raw digest d cands = .ok r := by
    unfold sign_raw
    rw [if_neg (by omega)]
    exact signLoop_terminates _ d _ c hrange hacc.1 hacc.2 _ cands [] (by omega) hc
  obtain ⟨r, hr⟩ := h
  exact ⟨⟨r, hr⟩, by rw [hr]; exact fun h => nomatch h⟩

/-! ## DER (C19a) -/

/-! ### big-endian bytes -/

theorem toUInt8_toNat (n : Nat) : (n.toUInt8).toNat = n % 256 := rfl

theorem beNat_foldl (l : List UInt8) (a : Nat) :
    l.foldl (fun acc b => acc * 256 + b.toNat) a = a * 256 ^ l.length + beNat l := by
  unfold beNat
  induction l generalizing a with
  | nil => simp
  | cons b t ih =>
    simp only [List.foldl_cons, List.length_cons]
    rw [ih, ih (0 * 256 + b.toNat)]
    rw [Nat.pow_succ, Nat.add_mul, Nat.zero_mul, Nat.zero_add, Nat.add_assoc, Nat.mul_assoc, Nat.mul_comm 256]

theorem beNat_nil : beNat [] = 0 := rfl

theorem beNat_cons (b : UInt8) (l : List UInt8) : beNat (b :: l) = b.toNat * 256 ^ l.length + beNat l := by
  have := beNat_foldl l (0 * 256 + b.toNat)
  rw [Nat.zero_mul, Nat.zero_add] at this
  show List.foldl (fun acc b => acc * 256 + b.toNat) (0 * 256 + b.toNat) l = _
  rw [Nat.zero_mul, Nat.zero_add]
  exact this

theorem beNat_lt (l : List UInt8) : beNat l < 256 ^ l.length := by
  induction l with
  | nil => simp [beNat_nil]
  | cons b t ih =>
    rw [beNat_cons, List.length_cons, Nat.pow_succ]
    have hb : b.toNat < 256 := b.toNat_lt
    have : b.toNat * 256 ^ t.length ≤ 255 * 256 ^ t.length := Nat.mul_le_mul_right _ (by omega)
    omega

theorem natBE_length (n x : Nat) : (natBE n x).length = n := by
  simp [natBE]

theorem natBE_succ (n x : Nat) : natBE (n + 1) x = (x / 256 ^ n % 256).toUInt8 :: natBE n x := by
  unfold natBE
  rw [List.range_succ_eq_map, List.map_cons, List.map_map]
  congr 1
  apply List.map_congr_left
  intro i _
  simp only [Function.comp, Nat.succ_eq_add_one]
  have : n + 1 - 1 - (i + 1) = n - 1 - i := by omega
  rw [this]

theorem beNat_natBE (n x : Nat) : beNat (natBE n x) = x % 256 ^ n := by
  induction n with
  | zero => simp [natBE, beNat_nil, Nat.mod_one]
  | succ n ih =>
    rw [natBE_succ, beNat_cons, natBE_length, ih, toUInt8_toNat, Nat.mod_mod, Nat.mod_pow_succ]
    rw [Nat.mul_comm]; omega

/-! ### stripping leading zero bytes -/

/-- `BigUint::to_bytes_be` / yasna's minimal magnitude before the `[0]` special case -/
def strip (l : List UInt8) : List UInt8 := l.dropWhile (· == 0)

theorem strip_cons_zero (l : List UInt8) : strip (0 :: l) = strip l := by
  simp [strip]

theorem strip_cons_ne (b : UInt8) (l : List UInt8) (h : b ≠ 0) : strip (b :: l) = b :: l := by
  simp [strip, h]

theorem strip_length_le (l : List UInt8) : (strip l).length ≤ l.length := by
  induction l with
  | nil => exact Nat.le_refl _
  | cons b t ih =>
    by_cases hb : b = 0
    · subst hb; rw [strip_cons_zero, List.length_cons]; omega
    · rw [strip_cons_ne b t hb]; exact Nat.le_refl _

theorem beNat_strip (l : List UInt8) : beNat (strip l) = beNat l := by
  induction l with
  | nil => rfl
  | cons b t ih =>
    by_cases hb : b = 0
    · subst hb
      rw [strip_cons_zero, ih, beNat_cons]
      simp
    · rw [strip_cons_ne b t hb]

theorem strip_head_ne (l : List UInt8) (h : UInt8) (t : List UInt8) (hs : strip l = h :: t) : h ≠ 0 := by
  induction l with
  | nil => cases hs
  | cons b t' ih =>
    by_cases hb : b = 0
    · subst hb; rw [strip_cons_zero] at hs; exact ih hs
    · rw [strip_cons_ne b t' hb] at hs
      cases hs; exact hb

theorem pad_strip (l : List UInt8) : List.replicate (l.length - (strip l).length) 0 ++ strip l = l := by
  induction l with
  | nil => rfl
  | cons b t ih =>
    by_cases hb : b = 0
    · subst hb
      rw [strip_cons_zero]
      have := strip_length_le t
      have h1 : (0 :: t).length - (strip t).length = (t.length - (strip t).length) + 1 := by
        simp only [List.length_cons]; omega
      rw [h1, List.replicate_succ, List.cons_append, ih]
    · rw [strip_cons_ne b t hb, Nat.sub_self]; rfl

theorem strip_nil_iff (l : List UInt8) (h : strip l = []) : l = List.replicate l.length 0 := by
  have := pad_strip l
  rw [h, List.length_nil, Nat.sub_zero, List.append_nil] at this
  exact this.symm

/-! ### DER length -/

theorem derLen_eq (l : Nat) : Impl.SM2.derLen l = Spec.SM2.derLen l := rfl

theorem lenBytes_eq (l : Nat) :
    ((List.range 8).reverse.map fun i => (l / 256 ^ i % 256).toUInt8) = natBE 8 l := rfl

theorem derLen_short (l : Nat) (h : l < 128) : Impl.SM2.derLen l = [l.toUInt8] := by
  unfold Impl.SM2.derLen; rw [if_pos h]

theorem derLen_long (l : Nat) (h : ¬ l < 128) :
    Impl.SM2.derLen l = (0x80 + (strip (natBE 8 l)).length).toUInt8 :: strip (natBE 8 l) := by
  unfold Impl.SM2.derLen; rw [if_neg h]; rfl

theorem short_byte : ∀ l, l < 128 → (l.toUInt8 < 0x80) ∧ l.toUInt8.toNat = l := by decide
theorem long_byte : ∀ n, n < 9 → 1 ≤ n → ¬ ((0x80 + n).toUInt8 < 0x80) ∧ (0x80 + n).toUInt8.toNat - 0x80 = n := by decide

theorem readLen_derLen (l : Nat) (hl : l < 2 ^ 64) (rest : List UInt8) :
    readLen (Impl.SM2.derLen l ++ rest) = some (l, rest) := by
  by_cases h : l < 128
  · rw [derLen_short l h]
    obtain ⟨h1, h2⟩ := short_byte l h
    simp only [List.cons_append, List.nil_append, readLen, if_pos h1, h2]
  · rw [derLen_long l h]
    have hb : beNat (strip (natBE 8 l)) = l := by
      rw [beNat_strip, beNat_natBE]; exact Nat.mod_eq_of_lt (by omega)
    have hlen : (strip (natBE 8 l)).length ≤ 8 := by
      have := strip_length_le (natBE 8 l); rw [natBE_length] at this; exact this
    generalize hs : strip (natBE 8 l) = bs at *
    cases bs with
    | nil => rw [beNat_nil] at hb; omega
    | cons b0 t =>
      have hne := strip_head_ne _ _ _ hs
      have hlen' : (b0 :: t).length < 9 := by
        have := strip_length_le (natBE 8 l); rw [natBE_length, hs] at this; omega
      obtain ⟨h1, h2⟩ := long_byte (b0 :: t).length hlen' (by simp)
      simp only [List.cons_append, readLen, if_neg h1, h2]
      have hn : ¬ ((b0 :: t).length = 0 ∨ (b0 :: t).length > 8 ∨ (b0 :: (t ++ rest)).length < (b0 :: t).length) := by
        simp only [List.length_cons, List.length_append] at hlen' ⊢; omega
      rw [if_neg hn]
      have htake : List.take (b0 :: t).length (b0 :: (t ++ rest)) = b0 :: t := by
        rw [← List.cons_append, List.take_left']; rfl
      have hdrop : List.drop (b0 :: t).length (b0 :: (t ++ rest)) = rest := by
        rw [← List.cons_append, List.drop_left']; rfl
      rw [htake, hdrop, hb]
      have : ¬ ((b0 :: t).headD 0 = 0 ∨ l < 128) := by
        simp only [List.headD_cons]; intro h'; rcases h' with h' | h'
        · exact hne h'
        · exact h h'
      rw [if_neg this]

/-! ### TLV -/

theorem readTLV_ok (tag : UInt8) (content rest : List UInt8) (hl : content.length < 2 ^ 64) :
    readTLV tag (tag :: (Impl.SM2.derLen content.length ++ content) ++ rest) = some (content, rest) := by
  rw [List.cons_append, List.append_assoc]
  rw [readTLV, if_neg (by simp)]
  simp only [readLen_derLen content.length hl]
  rw [if_neg (by simp)]
  rw [List.take_left', List.drop_left'] <;> rfl

/-! ### INTEGER -/

/-- minimal big-endian magnitude of a 256-bit value, `[0]` for zero -/
def derMag (x : Nat) : List UInt8 :=
  if (strip (natBE 32 x)).isEmpty then [0] else strip (natBE 32 x)

def derIntBody (x : Nat) : List UInt8 :=
  if (derMag x).headD 0 ≥ 0x80 then 0 :: derMag x else derMag x

theorem derInteger_eq (x : Nat) :
    Spec.SM2.derInteger x = 0x02 :: (Impl.SM2.derLen (derIntBody x).length ++ derIntBody x) := rfl

theorem derMag_length_le (x : Nat) : (derMag x).length ≤ 32 := by
  unfold derMag
  split
  · simp
  · have := strip_length_le (natBE 32 x); rw [natBE_length] at this; exact this

theorem derMag_length_pos (x : Nat) : 1 ≤ (derMag x).length := by
  unfold derMag
  split
  · simp
  · rename_i h
    cases hs : strip (natBE 32 x) with
    | nil => rw [hs] at h; simp at h
    | cons a t => simp

theorem beNat_derMag (x : Nat) (hx : x < 2 ^ 256) : beNat (derMag x) = x := by
  have h0 : beNat (strip (natBE 32 x)) = x := by
    rw [beNat_strip, beNat_natBE]; exact Nat.mod_eq_of_lt (by omega)
  unfold derMag
  split
  · rename_i h
    rw [List.isEmpty_iff.mp h, beNat_nil] at h0
    rw [← h0]; rfl
  · exact h0

theorem pad_derMag (x : Nat) : List.replicate (32 - (derMag x).length) 0 ++ derMag x = natBE 32 x := by
  unfold derMag
  split
  · rename_i h
    have := strip_nil_iff _ (List.isEmpty_iff.mp h)
    rw [natBE_length] at this
    rw [this]; rfl
  · have := pad_strip (natBE 32 x)
    rw [natBE_length] at this
    exact this

theorem derIntBody_length_le (x : Nat) : (derIntBody x).length ≤ 33 := by
  unfold derIntBody
  have := derMag_length_le x
  split
  · simp only [List.length_cons]; omega
  · omega

theorem derMag_head (x : Nat) (b : UInt8) (t : List UInt8) (h : derMag x = b :: t) : t = [] ∨ b ≠ 0 := by
  unfold derMag at h
  split at h
  · cases h; left; rfl
  · right; exact strip_head_ne _ _ _ h

/-- the INTEGER content check of `readBiguint` -/
def bigCore (c rest : List UInt8) : Option (List UInt8 × List UInt8) :=
  match c with
  | [] => none
  | [b] => if b ≥ 0x80 then none else some ([b], rest)
  | b0 :: b1 :: tl =>
    if b0 ≥ 0x80 then none
    else if b0 = 0 ∧ b1 < 0x80 then none
    else if b0 = 0 then some (b1 :: tl, rest)
    else some (c, rest)

theorem readBiguint_eq (bs : List UInt8) :
    readBiguint bs = match readTLV 0x02 bs with
      | none => none
      | some (c, rest) => bigCore c rest := by
  unfold readBiguint
  generalize readTLV 0x02 bs = r
  cases r with
  | none => rfl
  | some p => obtain ⟨c, rest⟩ := p; rfl

theorem bigCore_one (b : UInt8) (rest : List UInt8) :
    bigCore [b] rest = if b ≥ 0x80 then none else some ([b], rest) := rfl

theorem bigCore_two (b0 b1 : UInt8) (tl rest : List UInt8) :
    bigCore (b0 :: b1 :: tl) rest =
      if b0 ≥ 0x80 then none
      else if b0 = 0 ∧ b1 < 0x80 then none
      else if b0 = 0 then some (b1 :: tl, rest)
      else some (b0 :: b1 :: tl, rest) := rfl

theorem bigCore_derIntBody (x : Nat) (rest : List UInt8) : bigCore (derIntBody x) rest = some (derMag x, rest) := by
  have hpos := derMag_length_pos x
  unfold derIntBody
  cases hm : derMag x with
  | nil => rw [hm] at hpos; simp at hpos
  | cons b t =>
    have hd := derMag_head x b t hm
    rw [List.headD_cons]
    by_cases hb : b ≥ 0x80
    · rw [if_pos hb, bigCore_two]
      have h1 : ¬ ((0 : UInt8) ≥ 0x80) := by decide
      have h2 : ¬ ((0 : UInt8) = 0 ∧ b < 0x80) := by
        intro h; exact absurd hb (UInt8.not_le.mpr h.2)
      rw [if_neg h1, if_neg h2, if_pos rfl]
    · rw [if_neg hb]
      cases t with
      | nil => rw [bigCore_one, if_neg hb]
      | cons b1 tl =>
        have hne : b ≠ 0 := by
          rcases hd with hd | hd
          · cases hd
          · exact hd
        have h2 : ¬ (b = 0 ∧ b1 < 0x80) := fun h => hne h.1
        rw [bigCore_two, if_neg hb, if_neg h2, if_neg hne]

theorem readBiguint_derInteger (x : Nat) (rest : List UInt8) :
    readBiguint (Spec.SM2.derInteger x ++ rest) = some (derMag x, rest) := by
  have hl : (derIntBody x).length < 2 ^ 64 := by have := derIntBody_length_le x; omega
  rw [readBiguint_eq, derInteger_eq]
  simp only [readTLV_ok 0x02 (derIntBody x) rest hl]
  exact bigCore_derIntBody x rest

/-! ### the GM/T 0009 SEQUENCE -/

theorem derLen_length_le (l : Nat) : (Impl.SM2.derLen l).length ≤ 9 := by
  by_cases h : l < 128
  · rw [derLen_short l h]; simp
  · rw [derLen_long l h]
    have := strip_length_le (natBE 8 l); rw [natBE_length] at this
    simp only [List.length_cons]; omega

theorem derInteger_length_le (x : Nat) : (Spec.SM2.derInteger x).length ≤ 43 := by
  rw [derInteger_eq]
  have := derIntBody_length_le x
  have := derLen_length_le (derIntBody x).length
  simp only [List.length_cons, List.length_append]; omega

theorem derOctets_eq (b : List UInt8) : Spec.SM2.derOctets b = 0x04 :: (Impl.SM2.derLen b.length ++ b) := rfl

theorem derOctets_length_le (b : List UInt8) : (Spec.SM2.derOctets b).length ≤ 10 + b.length := by
  rw [derOctets_eq]
  have := derLen_length_le b.length
  simp only [List.length_cons, List.length_append]; omega

theorem parse_asn1_strong (x y : Nat) (h c : List UInt8) (hh : h.length < 2 ^ 32) (hc : c.length < 2 ^ 32) :
    parseCiphertext (Spec.SM2.asn1Ciphertext x y h c) = some (derMag x, derMag y, h, c) := by
  have hlen : (Spec.SM2.derInteger x ++ Spec.SM2.derInteger y ++ Spec.SM2.derOctets h ++ Spec.SM2.derOctets c).length
      < 2 ^ 64 := by
    have := derInteger_length_le x
    have := derInteger_length_le y
    have := derOctets_length_le h
    have := derOctets_length_le c
    simp only [List.length_append]; omega
  have e0 : Spec.SM2.asn1Ciphertext x y h c =
      0x30 :: (Impl.SM2.derLen
        (Spec.SM2.derInteger x ++ Spec.SM2.derInteger y ++ Spec.SM2.derOctets h ++ Spec.SM2.derOctets c).length ++
        (Spec.SM2.derInteger x ++ Spec.SM2.derInteger y ++ Spec.SM2.derOctets h ++ Spec.SM2.derOctets c)) ++ [] := by
    rw [List.append_nil]; rfl
  have e1 : Spec.SM2.derInteger x ++ Spec.SM2.derInteger y ++ Spec.SM2.derOctets h ++ Spec.SM2.derOctets c =
      Spec.SM2.derInteger x ++ (Spec.SM2.derInteger y ++
        (0x04 :: (Impl.SM2.derLen h.length ++ h) ++ (0x04 :: (Impl.SM2.derLen c.length ++ c) ++ []))) := by
    rw [List.append_nil, List.append_assoc, List.append_assoc]; rfl
  unfold parseCiphertext
  rw [e0]
  simp only [readTLV_ok 0x30 _ [] hlen]
  rw [e1]
  simp only [readBiguint_derInteger, readTLV_ok 0x04 h _ (by omega : h.length < 2 ^ 64),
    readTLV_ok 0x04 c [] (by omega : c.length < 2 ^ 64), List.isEmpty_nil]
  rfl

/-! ### writer = spec, decrypt_asn1 / encrypt_asn1 -/

theorem derBiguint_eq_spec (x : Nat) (h : x < 2 ^ 256) : Impl.SM2.derBiguint x = Spec.SM2.derInteger x := by
  have h33 : natBE 33 x = 0 :: natBE 32 x := by
    rw [natBE_succ]
    congr 1
    have : x / 256 ^ 32 = 0 := Nat.div_eq_of_lt (by rw [show (256 : Nat) ^ 32 = 2 ^ 256 by decide]; exact h)
    rw [this]; rfl
  have hs : (natBE 33 x).dropWhile (· == 0) = (natBE 32 x).dropWhile (· == 0) := by
    rw [h33]; exact strip_cons_zero _
  unfold Impl.SM2.derBiguint Spec.SM2.derInteger
  rw [hs]
  rfl

theorem derBytes_eq_spec (b : List UInt8) : Impl.SM2.derBytes b = Spec.SM2.derOctets b := rfl

theorem beNat_take32_lt (l : List UInt8) : beNat (l.take 32) < 2 ^ 256 := by
  have h := beNat_lt (l.take 32)
  have hl : (l.take 32).length ≤ 32 := by rw [List.length_take]; omega
  have : 256 ^ (l.take 32).length ≤ 256 ^ 32 := Nat.pow_le_pow_right (by decide) hl
  rw [show (2 : Nat) ^ 256 = 256 ^ 32 by decide]
  omega

theorem decrypt_asn1_der (d : Nat) (x y : Nat) (c3 c2 : List UInt8) (h3 : c3.length = 32) (h2 : c2.length < 2 ^ 32) :
    Impl.SM2.decrypt_asn1 d (Spec.SM2.asn1Ciphertext x y c3 c2)
      = Impl.SM2.decrypt d ([0x04] ++ natBE 32 x ++ natBE 32 y ++ c3 ++ c2) false .c1c3c2 := by
  unfold Impl.SM2.decrypt_asn1
  rw [parse_asn1_strong x y c3 c2 (by omega) h2]
  have hx := derMag_length_le x
  have hy := derMag_length_le y
  have hcond : ¬ ((derMag x).length > 32 ∨ (derMag y).length > 32 ∨ c3.length ≠ 32) := by omega
  simp only [if_neg hcond]
  congr 1
  rw [← pad_derMag x, ← pad_derMag y]
  simp only [List.append_assoc]

theorem encrypt_asn1_der (pk : Point) (msg : List UInt8) (cands : List (List UInt8)) (r : Rand (List UInt8))
    (h : Impl.SM2.encrypt pk msg false .c1c3c2 cands = .ok r) :
    ∃ r', Impl.SM2.encrypt_asn1 pk msg cands = .ok r' ∧ r'.used = r.used ∧
      r'.val = Spec.SM2.asn1Ciphertext (beNat ((r.val.drop 1).take 32)) (beNat ((r.val.drop 33).take 32))
        ((r.val.drop 65).take 32) (r.val.drop 97) := by
  obtain ⟨c, used, rest⟩ := r
  unfold Impl.SM2.encrypt_asn1
  rw [h]
  refine ⟨_, rfl, rfl, ?_⟩
  show 0x30 :: _ = _
  rw [derBiguint_eq_spec _ (beNat_take32_lt _), derBiguint_eq_spec _ (beNat_take32_lt _)]
  rfl

theorem decrypt_asn1_total (d : Nat) (der : List UInt8) : Impl.SM2.decrypt_asn1 d der ≠ .panic := by
  unfold Impl.SM2.decrypt_asn1
  split
  · exact fun h => nomatch h
  · split
    · exact fun h => nomatch h
    · exact decrypt_total _ _ _ _

theorem parse_asn1 (x y : Nat) (hx : x < 2 ^ 256) (hy : y < 2 ^ 256) (h c : List UInt8) (hh : h.length < 2 ^ 32)
    (hc : c.length < 2 ^ 32) :
    ∃ xb yb, Impl.SM2.parseCiphertext (Spec.SM2.asn1Ciphertext x y h c) = some (xb, yb, h, c) ∧ beNat xb = x ∧ beNat yb = y
      ∧ xb.length ≤ 32 ∧ yb.length ≤ 32 :=
  ⟨derMag x, derMag y, parse_asn1_strong x y h c hh hc, beNat_derMag x hx, beNat_derMag y hy,
    derMag_length_le x, derMag_length_le y⟩

/-! ## concrete data for the non-vacuity examples of the Thm files (produced by running the model) -/
namespace Ex

/-- `sign_raw` on digest 11…11, d = 5, nonce 07…07 -/
def sigEx : List UInt8 :=
  natBE 32 0xf018ed1c426a2f0c74fd9a6627f6cc5be16b1ad40fcb7e5a7df63508415110de ++
  natBE 32 0x0e6c663e1f28af4c1fadd5d6b533818979ab24ff102746d9ddfb4b01faef5410

/-- [5]G, uncompressed and compressed -/
def pk5 : List UInt8 :=
  [4, 199, 73, 6, 22, 104, 101, 46, 38, 4, 14, 0, 143, 221, 94, 183, 122, 52, 74, 65, 123, 127, 206, 25, 219, 165, 117,
   218, 87, 204, 55, 42, 158, 242, 223, 93, 178, 209, 68, 233, 69, 69, 4, 198, 34, 181, 28, 243, 143, 80, 6, 32, 110, 181,
   121, 255, 125, 166, 151, 110, 255, 95, 190, 100, 128]
def pk5c : List UInt8 := 2 :: (pk5.drop 1).take 32

/-- `encrypt` of "abc" to [5]G with nonce 07…07: uncompressed C1‖C3‖C2, compressed C1‖C2‖C3, and `encrypt_asn1` -/
def ctEx : List UInt8 :=
  [4, 223, 7, 220, 11, 49, 89, 29, 251, 99, 236, 137, 85, 22, 229, 187, 74, 208, 90, 9, 194, 254, 186, 109, 73, 108,
   229, 35, 247, 48, 63, 255, 205, 74, 221, 39, 222, 9, 38, 45, 197, 155, 175, 105, 12, 2, 134, 240, 94, 41, 148, 133,
   23, 204, 30, 6, 155, 152, 142, 19, 156, 0, 244, 73, 200, 63, 152, 119, 140, 87, 231, 176, 100, 153, 134, 102, 131,
   118, 22, 188, 51, 24, 2, 40, 95, 133, 231, 169, 245, 148, 196, 201, 175, 93, 175, 246, 69, 77, 44, 94]
def ctExC : List UInt8 :=
  [2, 223, 7, 220, 11, 49, 89, 29, 251, 99, 236, 137, 85, 22, 229, 187, 74, 208, 90, 9, 194, 254, 186, 109, 73, 108,
   229, 35, 247, 48, 63, 255, 205, 77, 44, 94, 63, 152, 119, 140, 87, 231, 176, 100, 153, 134, 102, 131, 118, 22, 188,
   51, 24, 2, 40, 95, 133, 231, 169, 245, 148, 196, 201, 175, 93, 175, 246, 69]
def derEx : List UInt8 :=
  [48, 108, 2, 33, 0, 223, 7, 220, 11, 49, 89, 29, 251, 99, 236, 137, 85, 22, 229, 187, 74, 208, 90, 9, 194, 254, 186,
   109, 73, 108, 229, 35, 247, 48, 63, 255, 205, 2, 32, 74, 221, 39, 222, 9, 38, 45, 197, 155, 175, 105, 12, 2, 134,
   240, 94, 41, 148, 133, 23, 204, 30, 6, 155, 152, 142, 19, 156, 0, 244, 73, 200, 4, 32, 63, 152, 119, 140, 87, 231,
   176, 100, 153, 134, 102, 131, 118, 22, 188, 51, 24, 2, 40, 95, 133, 231, 169, 245, 148, 196, 201, 175, 93, 175, 246,
   69, 4, 3, 77, 44, 94]

/-- kernel evaluation of the model: the raw ciphertext decrypts -/
theorem ctEx_decrypts : decrypt 5 ctEx false .c1c3c2 = .ok [0x61, 0x62, 0x63] := by decide +kernel

end Ex

end GmVerif.Proofs.SM2Logic
