/-
The SM2 instance of Spec.EC (GB/T 32918.5 recommended curve) and the algebra behind the correctness of the
textbook SM2 signature, encryption and key-agreement schemes (properties C03, C05, C15 at the Spec level).
Primality of `p` and `n` is taken as a hypothesis everywhere.
-/
import GmVerif.Proofs.SpecEC
import GmVerif.Proofs.SM3
import GmVerif.Spec.SM2

namespace GmVerif.Proofs.SM2Algebra
open GmVerif GmVerif.Spec.EC GmVerif.Spec.SM2 GmVerif.Proofs.SpecEC

/-! ### Part 2: the SM2 curve -/

theorem sm2_G_onCurve : onCurve curve G = true := by decide +kernel

theorem sm2_disc_ne_zero : (4 * a ^ 3 + 27 * b ^ 2) % p ≠ 0 := by decide +kernel

/-- kernel evaluation of the 256-step double-and-add with Fermat inverses (about 20 s) -/
theorem sm2_nG : mul curve n G = none := by decide +kernel

theorem two_lt_p : 2 < p := by decide
theorem two_lt_n : 2 < n := by decide
theorem p_pos : 0 < p := by decide
theorem n_pos : 0 < n := by decide
theorem n_lt_p : n < p := by decide
theorem p_lt : p < 2 ^ 256 := by decide
theorem n_lt : n < 2 ^ 256 := by decide
theorem p_mod_four : p % 4 = 3 := by decide
theorem a_lt_p : a < p := by decide
theorem b_lt_p : b < p := by decide

theorem sm2_valid : Valid curve := ⟨two_lt_p, sm2_disc_ne_zero⟩

instance : NeZero p := ⟨by decide⟩
instance : NeZero n := ⟨by decide⟩
instance : NeZero curve.p := ⟨by decide⟩

theorem G_ne_none : G ≠ none := by simp [G]

section
variable (hp : Nat.Prime p)
include hp

theorem sm2_onCurve_mul (k : Nat) : onCurve curve (mul curve k G) = true :=
  haveI : Fact (Nat.Prime curve.p) := ⟨hp⟩
  onCurve_mul sm2_valid k sm2_G_onCurve

theorem sm2_mul_mod (k : Nat) : mul curve k G = mul curve (k % n) G :=
  haveI : Fact (Nat.Prime curve.p) := ⟨hp⟩
  mul_mod_of_order sm2_valid sm2_G_onCurve sm2_nG k

theorem sm2_mul_add (k₁ k₂ : Nat) :
    mul curve (k₁ + k₂) G = add curve (mul curve k₁ G) (mul curve k₂ G) :=
  haveI : Fact (Nat.Prime curve.p) := ⟨hp⟩
  mul_add sm2_valid k₁ k₂ sm2_G_onCurve

theorem sm2_mul_mul (k₁ k₂ : Nat) : mul curve k₁ (mul curve k₂ G) = mul curve (k₁ * k₂) G :=
  haveI : Fact (Nat.Prime curve.p) := ⟨hp⟩
  mul_mul sm2_valid k₁ k₂ sm2_G_onCurve

theorem sm2_mul_eq_none_iff (hn : Nat.Prime n) (k : Nat) : mul curve k G = none ↔ n ∣ k :=
  haveI : Fact (Nat.Prime curve.p) := ⟨hp⟩
  mul_eq_none_iff_of_prime_order sm2_valid hn sm2_G_onCurve G_ne_none sm2_nG k

/-- the order of `G` is the prime `n` -/
theorem sm2_mul_ne_none (hn : Nat.Prime n) (k : Nat) (h : k % n ≠ 0) : mul curve k G ≠ none := by
  rw [Ne, sm2_mul_eq_none_iff hp hn, Nat.dvd_iff_mod_eq_zero]
  exact h

theorem sm2_mul_ne_none' (hn : Nat.Prime n) (k : Nat) (h1 : 1 ≤ k) (h2 : k < n) :
    mul curve k G ≠ none :=
  sm2_mul_ne_none hp hn k (by rw [Nat.mod_eq_of_lt h2]; omega)

/-- equal scalars mod n give equal multiples of G -/
theorem sm2_mul_congr {k₁ k₂ : Nat} (h : k₁ % n = k₂ % n) : mul curve k₁ G = mul curve k₂ G := by
  rw [sm2_mul_mod hp k₁, sm2_mul_mod hp k₂, h]

end

/-! ### Part 3a: signature -/

/-- the signer's `s` satisfies `s + (r + s)·d ≡ k (mod n)` -/
theorem sign_scalar_identity (hn : Nat.Prime n) (d k r : Nat) (hd : 1 ≤ d ∧ d ≤ n - 2) :
    let s := invMod ((1 + d) % n) n * ((k + (n - r * d % n)) % n) % n
    (s + (r + s) % n * d) % n = k % n := by
  intro s
  have : Fact (Nat.Prime n) := ⟨hn⟩
  rw [← ZMod.natCast_eq_natCast_iff']
  have h1d : ((1 : ZMod n) + (d : ZMod n)) ≠ 0 := by
    have : ((1 + d : ℕ) : ZMod n) ≠ 0 := by
      rw [Ne, ZMod.natCast_eq_zero_iff]
      intro hdvd
      have := Nat.le_of_dvd (by omega) hdvd
      have := two_lt_n
      omega
    simpa using this
  have hs : (s : ZMod n) = ((1 : ZMod n) + d)⁻¹ * ((k : ZMod n) - r * d) := by
    simp only [s]
    push_cast [ZMod.natCast_mod, cast_invMod two_lt_n, cast_sub_mod]
    ring
  push_cast [ZMod.natCast_mod]
  rw [hs]
  field_simp
  ring


theorem verify_iff (P : Pt) (e r s : Nat) :
    verify P e r s = true ↔ 1 ≤ r ∧ r < n ∧ 1 ≤ s ∧ s < n ∧ (r + s) % n ≠ 0 ∧
      ∃ x1 y1, add curve (mul curve s G) (mul curve ((r + s) % n) P) = some (x1, y1) ∧
        (e + x1) % n = r := by
  unfold verify
  by_cases h1 : r < 1 ∨ r ≥ n ∨ s < 1 ∨ s ≥ n
  · rw [if_pos h1]
    constructor
    · intro h; exact absurd h (by simp)
    · rintro ⟨a1, a2, a3, a4, _⟩; omega
  · rw [if_neg h1]
    have h1' : 1 ≤ r ∧ r < n ∧ 1 ≤ s ∧ s < n := by omega
    by_cases ht : (r + s) % n = 0
    · simp only [ht, if_true]
      constructor
      · intro h; exact absurd h (by simp)
      · rintro ⟨_, _, _, _, h0, _⟩; exact absurd rfl h0
    · simp only [if_neg ht]
      cases hadd : add curve (mul curve s G) (mul curve ((r + s) % n) P) with
      | none =>
        constructor
        · intro h; exact absurd h (by simp)
        · rintro ⟨_, _, _, _, _, x1, y1, h, _⟩; exact absurd h (by simp)
      | some q =>
        obtain ⟨x1, y1⟩ := q
        simp only [beq_iff_eq]
        constructor
        · intro h; exact ⟨h1'.1, h1'.2.1, h1'.2.2.1, h1'.2.2.2, ht, x1, y1, rfl, h⟩
        · rintro ⟨_, _, _, _, _, x1', y1', h, h'⟩
          simp only [Option.some.injEq, Prod.mk.injEq] at h
          rw [h.1]; exact h'

theorem sign_then_verify (hp : Nat.Prime p) (hn : Nat.Prime n) (d e k r s : Nat)
    (hd : 1 ≤ d ∧ d ≤ n - 2) (hk : 1 ≤ k ∧ k < n)
    (h : signWith d e k = some (r, s)) :
    1 ≤ r ∧ r < n ∧ 1 ≤ s ∧ s < n ∧ verify (mul curve d G) e r s = true := by
  unfold signWith at h
  cases hkG : mul curve k G with
  | none => rw [hkG] at h; exact absurd h (by simp)
  | some q =>
    obtain ⟨x1, y1⟩ := q
    rw [hkG] at h
    simp only at h
    split at h
    · exact absurd h (by simp)
    · next hr =>
      split at h
      · exact absurd h (by simp)
      · next hs0 =>
        simp only [Option.some.injEq, Prod.mk.injEq] at h
        obtain ⟨hr_eq, hs_eq⟩ := h
        have hid := sign_scalar_identity hn d k r hd
        simp only at hid
        rw [← hr_eq] at hid
        rw [hs_eq] at hid hs0
        rw [hr_eq] at hr hid
        have hrn : r < n := by rw [← hr_eq]; exact Nat.mod_lt _ n_pos
        have hsn : s < n := by rw [← hs_eq]; exact Nat.mod_lt _ n_pos
        have hr1 : 1 ≤ r := by omega
        have hs1 : 1 ≤ s := by omega
        refine ⟨hr1, hrn, hs1, hsn, ?_⟩
        rw [Nat.mod_eq_of_lt hk.2] at hid
        have ht : (r + s) % n ≠ 0 := by
          intro ht
          rw [ht, Nat.zero_mul, Nat.add_zero, Nat.mod_eq_of_lt hsn] at hid
          subst hid
          have hdvd : n ∣ r + s := Nat.dvd_of_mod_eq_zero ht
          obtain ⟨q, hq⟩ := hdvd
          have : q = 1 := by
            rcases q with _ | _ | q
            · omega
            · rfl
            · have : n * (q + 1 + 1) = n * q + n + n := by ring
              omega
          subst this
          omega
        rw [verify_iff]
        refine ⟨hr1, hrn, hs1, hsn, ht, x1, y1, ?_, hr_eq⟩
        rw [sm2_mul_mul hp, ← sm2_mul_add hp, sm2_mul_congr hp (k₂ := k), hkG]
        rw [hid, Nat.mod_eq_of_lt hk.2]

/-! ### Part 3b: octet strings -/

theorem natBE_length (len x : Nat) : (natBE len x).length = len := by
  simp [natBE]

theorem beNat_append_singleton (l : List UInt8) (b : UInt8) : beNat (l ++ [b]) = beNat l * 256 + b.toNat := by
  simp [beNat, List.foldl_append]

theorem natBE_succ (len x : Nat) : natBE (len + 1) x = natBE len (x / 256) ++ [(x % 256).toUInt8] := by
  unfold natBE
  rw [List.range_succ, List.map_append]
  congr 1
  · apply List.map_congr_left
    intro i hi
    rw [List.mem_range] at hi
    have : len + 1 - 1 - i = (len - 1 - i) + 1 := by omega
    rw [this, Nat.pow_succ, Nat.mul_comm, Nat.div_div_eq_div_mul]
  · simp

theorem beNat_natBE (len x : Nat) : beNat (natBE len x) = x % 256 ^ len := by
  induction len generalizing x with
  | zero => simp [natBE, beNat, Nat.mod_one]
  | succ len ih =>
    rw [natBE_succ, beNat_append_singleton, ih]
    have : (x % 256).toUInt8.toNat = x % 256 := by
      simp
    rw [this, Nat.pow_succ, Nat.mul_comm (256 ^ len) 256, Nat.mod_mul]
    omega

theorem bytes32_length (x : Nat) : (bytes32 x).length = 32 := natBE_length 32 x

theorem beNat_bytes32 (x : Nat) (h : x < 2 ^ 256) : beNat (bytes32 x) = x := by
  rw [bytes32, beNat_natBE]
  exact Nat.mod_eq_of_lt (by simpa using h)



/-- square root for p ≡ 3 (mod 4): on a square `y²` it returns `y` or `p - y` -/
theorem sqrt_core (hp : Nat.Prime p) (y : Nat) (hy : y < p) :
    let y' := powMod (y * y % p) ((p + 1) / 4) p
    y' * y' % p = y * y % p ∧ (y' = y ∨ (y ≠ 0 ∧ y' = p - y)) := by
  intro y'
  have : Fact (Nat.Prime p) := ⟨hp⟩
  have hy'lt : y' < p := powMod_lt _ _ _ p_pos
  have hcast : (y' : ZMod p) = (y : ZMod p) ^ ((p + 1) / 2) := by
    simp only [y']
    rw [cast_powMod, ZMod.natCast_mod, Nat.cast_mul, ← pow_two, ← pow_mul]
    congr 1
  have hsq : (y' : ZMod p) ^ 2 = (y : ZMod p) ^ 2 := by
    rw [hcast, ← pow_mul]
    have : (p + 1) / 2 * 2 = p + 1 := by decide
    rw [this, pow_succ, ZMod.pow_card, pow_two]
  constructor
  · rw [← ZMod.natCast_eq_natCast_iff']
    push_cast
    rw [← pow_two, ← pow_two, hsq]
  · rcases sq_eq_sq_iff_eq_or_eq_neg.mp hsq with h | h
    · left
      have := (ZMod.natCast_eq_natCast_iff' _ _ _).mp h
      rwa [Nat.mod_eq_of_lt hy'lt, Nat.mod_eq_of_lt hy] at this
    · by_cases hy0 : y = 0
      · left
        subst hy0
        rw [Nat.cast_zero, neg_zero] at h
        have := (ZMod.natCast_eq_natCast_iff' _ _ _).mp (h.trans Nat.cast_zero.symm)
        rwa [Nat.mod_eq_of_lt hy'lt, Nat.zero_mod] at this
      · right
        refine ⟨hy0, ?_⟩
        rw [← cast_sub_of_le (le_of_lt hy)] at h
        have := (ZMod.natCast_eq_natCast_iff' _ _ _).mp h
        rwa [Nat.mod_eq_of_lt hy'lt, Nat.mod_eq_of_lt (by omega)] at this


theorem sqrtMod_sq (hp : Nat.Prime p) (y : Nat) (hy : y < p) :
    ∃ y', sqrtMod (y * y % p) = some y' ∧ (y' = y ∨ (y ≠ 0 ∧ y' = p - y)) := by
  obtain ⟨hsq, hroot⟩ := sqrt_core hp y hy
  refine ⟨_, ?_, hroot⟩
  unfold sqrtMod
  rw [Nat.mod_mod]
  exact if_pos hsq

theorem onCurve_curve_iff (x y : Nat) : onCurve curve (some (x, y)) = true ↔
    x < p ∧ y < p ∧ y * y % p = (x * x % p * x + a * x + b) % p := by
  simp only [onCurve, Bool.and_eq_true, decide_eq_true_eq, beq_iff_eq, and_assoc]
  exact Iff.rfl

theorem decode_encode (hp : Nat.Prime p) (x y : Nat) (h : onCurve curve (some (x, y)) = true)
    (compressed : Bool) :
    decodePoint (encodePoint compressed (some (x, y))) = some (x, y) := by
  obtain ⟨hx, hy, heq⟩ := (onCurve_curve_iff x y).mp h
  have hx' : x < 2 ^ 256 := Nat.lt_trans hx p_lt
  have hy' : y < 2 ^ 256 := Nat.lt_trans hy p_lt
  cases compressed with
  | false =>
    simp only [encodePoint, Bool.false_eq_true, if_false, decodePoint, if_true]
    have hlen : (bytes32 x ++ bytes32 y).length = 64 := by simp [bytes32_length]
    have htake : (bytes32 x ++ bytes32 y).take 32 = bytes32 x := by
      rw [List.take_left' (bytes32_length x)]
    have hdrop : (bytes32 x ++ bytes32 y).drop 32 = bytes32 y := by
      rw [List.drop_left' (bytes32_length x)]
    rw [if_neg (by simp [hlen])]
    simp only [htake, hdrop, beNat_bytes32 x hx', beNat_bytes32 y hy']
    rw [if_pos ⟨hx, hy, h⟩]
  | true =>
    obtain ⟨y', hsqrt, hroot⟩ := sqrtMod_sq hp y hy
    have hpodd : p % 2 = 1 := by decide
    have key : ∀ pc : UInt8, (pc = 2 ∧ y % 2 = 0) ∨ (pc = 3 ∧ y % 2 = 1) →
        decodePoint (pc :: bytes32 x) = some (x, y) := by
      intro pc hpc
      have hpc4 : pc ≠ 4 := by rcases hpc with ⟨rfl, _⟩ | ⟨rfl, _⟩ <;> decide
      have hpc23 : pc = 2 ∨ pc = 3 := by rcases hpc with ⟨h, _⟩ | ⟨h, _⟩ <;> simp [h]
      have hpcn : pc.toNat - 2 = y % 2 := by
        rcases hpc with ⟨rfl, h⟩ | ⟨rfl, h⟩ <;> rw [h] <;> rfl
      simp only [decodePoint, if_neg hpc4, if_pos hpc23, bytes32_length, ne_eq, not_true_eq_false,
        if_false, beNat_bytes32 x hx', ge_iff_le, if_neg (Nat.not_le.mpr hx)]
      rw [← heq, hsqrt]
      simp only [hpcn]
      rcases hroot with h1 | ⟨hy0, h1⟩
      · rw [h1, if_pos rfl]
      · rw [h1, if_neg (by omega)]
        have : (p - (p - y)) % p = y := by
          rw [Nat.sub_sub_self (le_of_lt hy), Nat.mod_eq_of_lt hy]
        rw [this]
    simp only [encodePoint, if_true]
    apply key
    by_cases h0 : y % 2 = 0
    · left; exact ⟨by simp [h0], h0⟩
    · right; exact ⟨by simp [h0], by omega⟩

theorem sqrtMod_some (v y : Nat) (h : sqrtMod v = some y) : y < p ∧ y * y % p = v % p := by
  unfold sqrtMod at h
  simp only at h
  split at h
  · next hsq =>
    simp only [Option.some.injEq] at h
    subst h
    exact ⟨powMod_lt _ _ _ p_pos, hsq⟩
  · exact absurd h (by simp)

theorem neg_sq_mod (y : Nat) (hy : y < p) : (p - y) % p * ((p - y) % p) % p = y * y % p := by
  rw [← ZMod.natCast_eq_natCast_iff']
  push_cast [ZMod.natCast_mod, cast_sub_of_le (le_of_lt hy)]
  ring

theorem decode_some_onCurve (bs : List UInt8) (x y : Nat) (h : decodePoint bs = some (x, y)) :
    onCurve curve (some (x, y)) = true ∧ x < p ∧ y < p := by
  suffices hs : onCurve curve (some (x, y)) = true by
    obtain ⟨h1, h2, _⟩ := (onCurve_curve_iff x y).mp hs
    exact ⟨hs, h1, h2⟩
  unfold decodePoint at h
  split at h
  · exact absurd h (by simp)
  · next pc rest =>
    split at h
    · split at h
      · exact absurd h (by simp)
      · simp only at h
        split at h
        · next hc =>
          simp only [Option.some.injEq, Prod.mk.injEq] at h
          rw [← h.1, ← h.2]
          exact hc.2.2
        · exact absurd h (by simp)
    · split at h
      · split at h
        · exact absurd h (by simp)
        · simp only at h
          split at h
          · exact absurd h (by simp)
          · next hxp =>
            split at h
            · exact absurd h (by simp)
            · next y0 hsq =>
              obtain ⟨hy0, hy0sq⟩ := sqrtMod_some _ _ hsq
              rw [Nat.mod_mod] at hy0sq
              have hxp' : beNat rest < p := by omega
              split at h
              · simp only [Option.some.injEq, Prod.mk.injEq] at h
                rw [← h.1, ← h.2]
                exact (onCurve_curve_iff _ _).mpr ⟨hxp', hy0, hy0sq⟩
              · simp only [Option.some.injEq, Prod.mk.injEq] at h
                rw [← h.1, ← h.2]
                exact (onCurve_curve_iff _ _).mpr
                  ⟨hxp', Nat.mod_lt _ p_pos, (neg_sq_mod y0 hy0).trans hy0sq⟩
      · exact absurd h (by simp)

/-! ### Part 3c: public-key encryption -/

theorem hash_length (m : List UInt8) : (Spec.SM2.hash m).length = 32 := Proofs.SM3.spec_hash_length m

theorem kdfBlocks_length (z : List UInt8) (ct nblk : Nat) : (kdfBlocks z ct nblk).length = 32 * nblk := by
  induction nblk generalizing ct with
  | zero => simp [kdfBlocks]
  | succ k ih => simp only [kdfBlocks, List.length_append, hash_length, ih]; omega

theorem kdf_length (z : List UInt8) (klen : Nat) : (kdf z klen).length = klen := by
  simp only [kdf, List.length_take, kdfBlocks_length]
  omega

theorem xorBytes_length (x y : List UInt8) : (xorBytes x y).length = min x.length y.length := by
  simp [xorBytes]

theorem xorBytes_cancel (x t : List UInt8) (h : x.length ≤ t.length) : xorBytes (xorBytes x t) t = x := by
  induction x generalizing t with
  | nil => simp [xorBytes]
  | cons a x ih =>
    cases t with
    | nil => simp at h
    | cons b t =>
      simp only [xorBytes, List.zipWith_cons_cons, List.cons.injEq]
      refine ⟨?_, ih t (by simpa using h)⟩
      rw [UInt8.xor_assoc, UInt8.xor_self, UInt8.xor_zero]

theorem encodePoint_length (compressed : Bool) (q : Nat × Nat) :
    (encodePoint compressed (some q)).length = if compressed then 33 else 65 := by
  obtain ⟨x, y⟩ := q
  cases compressed <;> simp [encodePoint, bytes32_length]

/-- what `decrypt` computes on a well-formed concatenation -/
theorem decrypt_concat (d : Nat) (E c2 c3 : List UInt8) (compressed : Bool) (order : Order)
    (hE : E.length = if compressed then 33 else 65) (hc3 : c3.length = 32) (hc2 : c2 ≠ []) :
    decrypt d (match order with | .c1c2c3 => E ++ c2 ++ c3 | .c1c3c2 => E ++ c3 ++ c2) compressed order =
      match decodePoint E with
      | none => none
      | some c1 =>
        match mul curve d (some c1) with
        | none => none
        | some (x2, y2) =>
          let t := kdf (bytes32 x2 ++ bytes32 y2) c2.length
          if t.all (· == 0) then none
          else
            let m := xorBytes c2 t
            if Spec.SM2.hash (bytes32 x2 ++ m ++ bytes32 y2) = c3 then some m else none := by
  have hc2len : 1 ≤ c2.length := by
    cases c2 with
    | nil => exact absurd rfl hc2
    | cons _ _ => simp
  unfold decrypt
  cases order with
  | c1c2c3 =>
    simp only
    have hlen : ¬ (E ++ c2 ++ c3).length < (if compressed then 33 else 65) + 32 + 1 := by
      simp only [List.length_append, hE, hc3]; omega
    rw [if_neg hlen]
    have h1 : (E ++ c2 ++ c3).take (if compressed then 33 else 65) = E := by
      rw [List.append_assoc, List.take_left' hE]
    have h2 : (E ++ c2 ++ c3).drop (if compressed then 33 else 65) = c2 ++ c3 := by
      rw [List.append_assoc, List.drop_left' hE]
    have h3 : (c2 ++ c3).take ((c2 ++ c3).length - 32) = c2 := by
      rw [List.take_left']; simp [hc3]
    have h4 : (c2 ++ c3).drop ((c2 ++ c3).length - 32) = c3 := by
      rw [List.drop_left']; simp [hc3]
    simp only [h1, h2, h3, h4]
    rfl
  | c1c3c2 =>
    simp only
    have hlen : ¬ (E ++ c3 ++ c2).length < (if compressed then 33 else 65) + 32 + 1 := by
      simp only [List.length_append, hE, hc3]; omega
    rw [if_neg hlen]
    have h1 : (E ++ c3 ++ c2).take (if compressed then 33 else 65) = E := by
      rw [List.append_assoc, List.take_left' hE]
    have h2 : (E ++ c3 ++ c2).drop (if compressed then 33 else 65) = c3 ++ c2 := by
      rw [List.append_assoc, List.drop_left' hE]
    have h3 : (c3 ++ c2).take 32 = c3 := List.take_left' hc3
    have h4 : (c3 ++ c2).drop 32 = c2 := List.drop_left' hc3
    simp only [h1, h2, h3, h4]
    rfl


theorem decrypt_encrypt (hp : Nat.Prime p) (d k : Nat) (msg : List UInt8) (hm : msg ≠ [])
    (compressed : Bool) (order : Order) (ct : List UInt8)
    (h : encryptWith (mul curve d G) msg k compressed order = some ct) :
    decrypt d ct compressed order = some msg := by
  unfold encryptWith at h
  cases hkG : mul curve k G with
  | none => rw [hkG] at h; exact absurd h (by simp)
  | some c1 =>
    cases hkP : mul curve k (mul curve d G) with
    | none => rw [hkG, hkP] at h; exact absurd h (by simp)
    | some q =>
      obtain ⟨x2, y2⟩ := q
      obtain ⟨xc, yc⟩ := c1
      rw [hkG, hkP] at h
      simp only at h
      split at h
      · exact absurd h (by simp)
      · next ht =>
        have hmlen : 1 ≤ msg.length := by
          cases msg with
          | nil => exact absurd rfl hm
          | cons _ _ => simp
        have htlen : (kdf (bytes32 x2 ++ bytes32 y2) msg.length).length = msg.length := kdf_length _ _
        have hxlen : (xorBytes msg (kdf (bytes32 x2 ++ bytes32 y2) msg.length)).length = msg.length := by
          rw [xorBytes_length, htlen, Nat.min_self]
        have hc2 : xorBytes msg (kdf (bytes32 x2 ++ bytes32 y2) msg.length) ≠ [] := by
          intro h0; rw [h0] at hxlen; simp at hxlen; omega
        have hon : onCurve curve (some (xc, yc)) = true := by
          rw [← hkG]; exact sm2_onCurve_mul hp k
        have hmul : mul curve d (some (xc, yc)) = some (x2, y2) := by
          rw [← hkG, sm2_mul_mul hp, Nat.mul_comm, ← sm2_mul_mul hp, hkP]
        have e := decrypt_concat d (encodePoint compressed (some (xc, yc)))
          (xorBytes msg (kdf (bytes32 x2 ++ bytes32 y2) msg.length))
          (Spec.SM2.hash (bytes32 x2 ++ msg ++ bytes32 y2)) compressed order
          (encodePoint_length _ _) (hash_length _) hc2
        rw [decode_encode hp xc yc hon compressed] at e
        simp only [hmul, hxlen] at e
        rw [if_neg ht, xorBytes_cancel msg _ (le_of_eq htlen.symm), if_pos rfl] at e
        cases order <;> simp only [Option.some.injEq] at h e <;> subst h <;> exact e

/-! ### Part 3d: key agreement -/

/-- `P_peer + [x̄]R_peer = [d + x̄·r]G`, and multiplying by the own `t` gives `[t_self · t_peer]G` -/
theorem kex_point (hp : Nat.Prime p) (dS rS dP rP xs xp : Nat) :
    mul curve ((dS + xs * rS) % n) (add curve (mul curve dP G) (mul curve xp (mul curve rP G))) =
      mul curve (((dS + xs * rS) % n) * ((dP + xp * rP) % n)) G := by
  rw [sm2_mul_mul hp, ← sm2_mul_add hp, sm2_mul_mod hp (dP + xp * rP), sm2_mul_mul hp]

theorem kex_agree (hp : Nat.Prime p) (hn : Nat.Prime n) (dA dB rA rB : Nat)
    (hrA : 1 ≤ rA ∧ rA < n) (hrB : 1 ≤ rB ∧ rB < n)
    (za zb : List UInt8) (klen : Nat) :
    let PA := mul curve dA G; let PB := mul curve dB G
    let RA := mul curve rA G; let RB := mul curve rB G
    kexCompute dA rA RA RB PB za zb klen RA RB = kexCompute dB rB RB RA PA za zb klen RA RB := by
  intro PA PB RA RB
  have hRA : RA ≠ none := sm2_mul_ne_none' hp hn rA hrA.1 hrA.2
  have hRB : RB ≠ none := sm2_mul_ne_none' hp hn rB hrB.1 hrB.2
  have hRAon : onCurve curve RA = true := sm2_onCurve_mul hp rA
  have hRBon : onCurve curve RB = true := sm2_onCurve_mul hp rB
  cases hA : RA with
  | none => exact absurd hA hRA
  | some qa =>
    cases hB : RB with
    | none => exact absurd hB hRB
    | some qb =>
      obtain ⟨xa, ya⟩ := qa
      obtain ⟨xb, yb⟩ := qb
      rw [hA] at hRAon; rw [hB] at hRBon
      have hU := kex_point hp dA rA dB rB (xBar xa) (xBar xb)
      have hV := kex_point hp dB rB dA rA (xBar xb) (xBar xa)
      rw [Nat.mul_comm ((dB + xBar xb * rB) % n)] at hV
      simp only [kexCompute, hRAon, hRBon, not_true_eq_false, if_false]
      show (match mul curve ((dA + xBar xa * rA) % n) (add curve PB (mul curve (xBar xb) (some (xb, yb)))) with
          | none => none | some (xu, yu) => _) = _
      rw [← hB, hU, ← hA, hV]
      rfl

end GmVerif.Proofs.SM2Algebra
