/-
Helper lemmas for C08b: consequences of the ZUC invariant for the model of gm-zuc — the `if s16 == 0` patches are dead,
the stored cells are never 0 in any state reachable through requests, and the feedback cell is the canonical residue.
Core Lean only.
-/
import GmVerif.Proofs.ZUC
namespace GmVerif.Proofs.ZUC
open GmVerif

/-- the generator after serving the requests `ns` one after the other (`generate_keystream(n_i)` on one object) -/
def stateAfter (z : Impl.ZUC.ZUC) (ns : List Nat) : Impl.ZUC.ZUC :=
  ns.foldl (fun z n => (Impl.ZUC.generate_keystream z n).2) z

/-- `stateAfter` is the state that `Impl.ZUC.requests` threads through -/
theorem requests_append (z : Impl.ZUC.ZUC) (ns ms : List Nat) :
    Impl.ZUC.requests z (ns ++ ms) = Impl.ZUC.requests z ns ++ Impl.ZUC.requests (stateAfter z ns) ms := by
  induction ns generalizing z with
  | nil => rfl
  | cons n ns ih => rw [List.cons_append, requests_cons, requests_cons, ih, List.cons_append]; rfl

theorem stateAfter_rel (z : Impl.ZUC.ZUC) (st : Spec.ZUC.State) (h : Rel z st) (ns : List Nat) :
    ∃ st', Rel (stateAfter z ns) st' := by
  induction ns generalizing z st with
  | nil => exact ⟨st, h⟩
  | cons n ns ih =>
    obtain ⟨_, st', hrel', _⟩ := generate_refines z st h n
    exact ih _ st' hrel'

/-- cells of a state related to a spec state are canonical non-zero residues -/
theorem rel_cells (z : Impl.ZUC.ZUC) (st : Spec.ZUC.State) (h : Rel z st) :
    z.s.length = 16 ∧ ∀ c ∈ z.s, 1 ≤ c.toNat ∧ c.toNat ≤ 2 ^ 31 - 1 := by
  obtain ⟨hs, _, _, hlen, hmem⟩ := h
  refine ⟨by rw [← hlen, ← hs, List.length_map], ?_⟩
  intro c hc
  exact hmem c.toNat (hs ▸ List.mem_map_of_mem hc)

theorem cells_never_zero (k iv : List UInt8) (hk : k.length = 16) (hiv : iv.length = 16) (ns : List Nat)
    (z : Impl.ZUC.ZUC) (hz : ∃ z0, Impl.ZUC.new k iv = .ok z0 ∧ stateAfter z0 ns = z) :
    z.s.length = 16 ∧ ∀ c ∈ z.s, 1 ≤ c.toNat ∧ c.toNat ≤ 2 ^ 31 - 1 := by
  obtain ⟨z0, hz0, rfl⟩ := hz
  obtain ⟨z1, hz1, hrel⟩ := new_refines k iv hk hiv
  rw [hz0] at hz1
  cases hz1
  obtain ⟨st', hrel'⟩ := stateAfter_rel z0 _ hrel ns
  exact rel_cells _ _ hrel'

/-! ### the zero patches are dead -/

/-- the feedback word of `lfsr_with_work_mode` before the `if s16 == 0` patch -/
def rawWork (z : Impl.ZUC.ZUC) : UInt32 :=
  Impl.ZUC.add31 (Impl.ZUC.add31 (Impl.ZUC.add31 (Impl.ZUC.add31 (Impl.ZUC.add31 (Impl.ZUC.sg z 0)
      (Impl.ZUC.rot31 (Impl.ZUC.sg z 0) 8)) (Impl.ZUC.rot31 (Impl.ZUC.sg z 4) 20))
      (Impl.ZUC.rot31 (Impl.ZUC.sg z 10) 21)) (Impl.ZUC.rot31 (Impl.ZUC.sg z 13) 17))
      (Impl.ZUC.rot31 (Impl.ZUC.sg z 15) 15)

/-- the feedback word of `lfsr_with_initialization_mode` before the `if s16 == 0` patch -/
def rawInit (z : Impl.ZUC.ZUC) (u : UInt32) : UInt32 := Impl.ZUC.add31 (rawWork z) u

theorem work_mode_eq (z : Impl.ZUC.ZUC) :
    Impl.ZUC.lfsr_with_work_mode z
      = { z with s := z.s.drop 1 ++ [if rawWork z = 0 then 2147483647 else rawWork z] } := rfl

theorem init_mode_eq (z : Impl.ZUC.ZUC) (u : UInt32) :
    Impl.ZUC.lfsr_with_initialization_mode z u
      = { z with s := z.s.drop 1 ++ [if rawInit z u = 0 then 2147483647 else rawInit z u] } := rfl

theorem rawWork_ne_zero (z : Impl.ZUC.ZUC) (st : Spec.ZUC.State) (h : Rel z st) :
    rawWork z ≠ 0 ∧ (rawWork z).toNat = Spec.ZUC.lfsrNext st.s 0 := by
  obtain ⟨e, pos⟩ := s16_work z st h
  refine ⟨?_, e⟩
  intro h0
  have : (rawWork z).toNat = 0 := by rw [h0]; rfl
  rw [show (rawWork z).toNat = Spec.ZUC.lfsrNext st.s 0 from e] at this
  omega

theorem rawInit_ne_zero (z : Impl.ZUC.ZUC) (st : Spec.ZUC.State) (h : Rel z st) (u : UInt32)
    (hu : u.toNat < 2 ^ 31) :
    rawInit z u ≠ 0 ∧ (rawInit z u).toNat = Spec.ZUC.lfsrNext st.s u.toNat := by
  obtain ⟨e, pos⟩ := s16_init z st h u hu
  refine ⟨?_, e⟩
  intro h0
  have : (rawInit z u).toNat = 0 := by rw [h0]; rfl
  rw [show (rawInit z u).toNat = Spec.ZUC.lfsrNext st.s u.toNat from e] at this
  omega

/-- under the invariant the work-mode patch never fires -/
theorem work_patch_dead (z : Impl.ZUC.ZUC) (st : Spec.ZUC.State) (h : Rel z st) :
    rawWork z ≠ 0 ∧ Impl.ZUC.lfsr_with_work_mode z = { z with s := z.s.drop 1 ++ [rawWork z] } := by
  have h0 := (rawWork_ne_zero z st h).1
  exact ⟨h0, by rw [work_mode_eq, if_neg h0]⟩

/-- under the invariant the initialisation-mode patch never fires (u is a 31-bit word: `w >> 1`) -/
theorem init_patch_dead (z : Impl.ZUC.ZUC) (st : Spec.ZUC.State) (h : Rel z st) (u : UInt32)
    (hu : u.toNat < 2 ^ 31) :
    rawInit z u ≠ 0
      ∧ Impl.ZUC.lfsr_with_initialization_mode z u = { z with s := z.s.drop 1 ++ [rawInit z u] } := by
  have h0 := (rawInit_ne_zero z st h u hu).1
  exact ⟨h0, by rw [init_mode_eq, if_neg h0]⟩

/-! ### the feedback cell is the canonical residue -/

/-- the weighted sum of §3.2 over the model's cells -/
def weightedSum (z : Impl.ZUC.ZUC) : Nat :=
  2 ^ 15 * (Impl.ZUC.sg z 15).toNat + 2 ^ 17 * (Impl.ZUC.sg z 13).toNat + 2 ^ 21 * (Impl.ZUC.sg z 10).toNat
    + 2 ^ 20 * (Impl.ZUC.sg z 4).toNat + (1 + 2 ^ 8) * (Impl.ZUC.sg z 0).toNat

theorem weightedSum_eq (z : Impl.ZUC.ZUC) (st : Spec.ZUC.State) (h : Rel z st) :
    weightedSum z = 2 ^ 15 * Spec.ZUC.cell st.s 15 + 2 ^ 17 * Spec.ZUC.cell st.s 13
      + 2 ^ 21 * Spec.ZUC.cell st.s 10 + 2 ^ 20 * Spec.ZUC.cell st.s 4 + (1 + 2 ^ 8) * Spec.ZUC.cell st.s 0 := by
  unfold weightedSum
  rw [(rel_cell z st h 0 (by omega)).1, (rel_cell z st h 4 (by omega)).1, (rel_cell z st h 10 (by omega)).1,
    (rel_cell z st h 13 (by omega)).1, (rel_cell z st h 15 (by omega)).1]

theorem lfsrNext_eq_M31_iff (s : List Nat) :
    Spec.ZUC.lfsrNext s 0 = 2 ^ 31 - 1 ↔
      (2 ^ 15 * Spec.ZUC.cell s 15 + 2 ^ 17 * Spec.ZUC.cell s 13 + 2 ^ 21 * Spec.ZUC.cell s 10
        + 2 ^ 20 * Spec.ZUC.cell s 4 + (1 + 2 ^ 8) * Spec.ZUC.cell s 0) % (2 ^ 31 - 1) = 0 := by
  unfold Spec.ZUC.lfsrNext Spec.ZUC.M31
  dsimp only
  rw [Nat.add_zero]
  split <;> omega

theorem lfsr_feedback_canonical (z : Impl.ZUC.ZUC) (st : Spec.ZUC.State) (h : Rel z st) :
    ∃ c : UInt32, (Impl.ZUC.lfsr_with_work_mode z).s = z.s.drop 1 ++ [c]
      ∧ c.toNat = Spec.ZUC.lfsrNext st.s 0
      ∧ (c.toNat = 2 ^ 31 - 1 ↔ weightedSum z % (2 ^ 31 - 1) = 0)
      ∧ (c.toNat ≠ 2 ^ 31 - 1 → c.toNat = weightedSum z % (2 ^ 31 - 1)) := by
  obtain ⟨hne, he⟩ := rawWork_ne_zero z st h
  refine ⟨rawWork z, by rw [(work_patch_dead z st h).2], he, ?_, ?_⟩
  · rw [he, weightedSum_eq z st h]; exact lfsrNext_eq_M31_iff st.s
  · rw [he, weightedSum_eq z st h]
    unfold Spec.ZUC.lfsrNext Spec.ZUC.M31
    dsimp only
    rw [Nat.add_zero]
    split <;> omega

end GmVerif.Proofs.ZUC
