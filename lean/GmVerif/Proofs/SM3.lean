/-
Helper lemmas for C01: the model of gm-sm3 refines GB/T 32905-2016.
-/
import GmVerif.Common
import GmVerif.Spec.SM3
import GmVerif.Impl.SM3
import GmVerif.Gen.SM3

namespace GmVerif.Proofs.SM3
open GmVerif

/-! ### padding -/

theorem padZeros_eq (l : List UInt8) :
    Impl.SM3.padZeros l = l ++ List.replicate ((56 + 64 - l.length % 64) % 64) 0 := by
  fun_induction Impl.SM3.padZeros l with
  | case1 l h => simp [h]
  | case2 l h ih =>
    rw [ih]
    simp only [List.length_append, List.length_cons, List.length_nil, List.append_assoc]
    have : (56 + 64 - l.length % 64) % 64 = (56 + 64 - (l.length + 0 + 1) % 64) % 64 + 1 := by omega
    rw [this, List.replicate_succ]
    simp

theorem and255 (x : Nat) : x &&& 255 = x % 256 := Nat.and_two_pow_sub_one_eq_mod x 8

theorem lenBytes (n : Nat) :
    [(UInt64.ofNat n >>> 56 &&& 0xff).toUInt8, (UInt64.ofNat n >>> 48 &&& 0xff).toUInt8,
     (UInt64.ofNat n >>> 40 &&& 0xff).toUInt8, (UInt64.ofNat n >>> 32 &&& 0xff).toUInt8,
     (UInt64.ofNat n >>> 24 &&& 0xff).toUInt8, (UInt64.ofNat n >>> 16 &&& 0xff).toUInt8,
     (UInt64.ofNat n >>> 8 &&& 0xff).toUInt8, (UInt64.ofNat n &&& 0xff).toUInt8] = natBE 8 n := by
  have e : natBE 8 n = [(n / 256 ^ 7 % 256).toUInt8, (n / 256 ^ 6 % 256).toUInt8,
      (n / 256 ^ 5 % 256).toUInt8, (n / 256 ^ 4 % 256).toUInt8, (n / 256 ^ 3 % 256).toUInt8,
      (n / 256 ^ 2 % 256).toUInt8, (n / 256 ^ 1 % 256).toUInt8, (n / 256 ^ 0 % 256).toUInt8] := rfl
  rw [e]
  simp only [List.cons.injEq, and_true]
  refine ⟨?_, ?_, ?_, ?_, ?_, ?_, ?_, ?_⟩ <;>
  · apply UInt8.toNat_inj.mp
    simp only [UInt64.toNat_toUInt8, UInt64.toNat_and, UInt64.toNat_shiftRight, UInt64.toNat_ofNat',
      Nat.toUInt8, UInt8.toNat_ofNat', UInt64.toNat_ofNat, Nat.shiftRight_eq_div_pow, and255,
      Nat.reducePow, Nat.reduceMod]
    omega

theorem natBE_length (k n : Nat) : (natBE k n).length = k := by simp [natBE]

theorem spec_pad_length_mod (m : List UInt8) : (Spec.SM3.pad m).length % 64 = 0 := by
  simp only [Spec.SM3.pad, List.length_append, List.length_cons, List.length_nil,
    List.length_replicate, natBE_length]
  omega

theorem pad_refines (m : List UInt8) : Impl.SM3.pad m = .ok (Spec.SM3.pad m) := by
  have e : Impl.SM3.padZeros (m ++ [0x80]) ++ natBE 8 (m.length * 8) = Spec.SM3.pad m := by
    rw [padZeros_eq, Spec.SM3.pad, Nat.mul_comm]
    simp only [List.length_append, List.length_cons, List.length_nil]
    have : (56 + 64 - (m.length + (0 + 1)) % 64) % 64 = (55 + 64 - m.length % 64) % 64 := by omega
    rw [this]
  simp only [Impl.SM3.pad, lenBytes, e, spec_pad_length_mod]
  simp

/-! ### array-filling loops -/

/-- extend `L` by `n` entries, each computed from the list so far -/
def extend {α} (g : List α → α) (L : List α) : Nat → List α
  | 0 => L
  | n + 1 => extend g (L ++ [g L]) n

theorem extend_length {α} (g : List α → α) (L : List α) (n : Nat) :
    (extend g L n).length = L.length + n := by
  induction n generalizing L with
  | zero => rfl
  | succ n ih => rw [extend, ih]; simp; omega

theorem extend_index {α} (h : Nat → α) (L : List α) (n : Nat) :
    extend (fun L => h L.length) L n = L ++ (List.range' L.length n).map h := by
  induction n generalizing L with
  | zero => simp [extend]
  | succ n ih => rw [extend, ih]; simp [List.range'_succ]

theorem set_fill {α} (x y : α) (L R : List α) :
    (L ++ x :: R).toArray.set! L.length y = (L ++ y :: R).toArray := by
  simp

theorem get_fill32 (L R : List UInt32) (i : Nat) (h : i < L.length) :
    (L ++ R).toArray[i]! = L.getD i 0 := by
  simp [List.getElem?_append_left h]; rfl

theorem build_loop {α} (lo : Nat) (g : List α → α) (step : Array α → Nat → Array α)
    (hstep : ∀ (L : List α) x R, lo ≤ L.length →
      step (L ++ x :: R).toArray L.length = (L ++ g L :: R).toArray) :
    ∀ n (L R T : List α), R.length = n → lo ≤ L.length →
      (List.range' L.length n).foldl step (L ++ R ++ T).toArray = (extend g L n ++ T).toArray := by
  intro n
  induction n with
  | zero =>
    intro L R T hR _
    have : R = [] := List.length_eq_zero_iff.mp hR
    simp [extend, this]
  | succ n ih =>
    intro L R T hR hlo
    obtain ⟨x, R', rfl⟩ := List.exists_cons_of_length_eq_add_one hR
    rw [List.range'_succ, List.foldl_cons, List.append_assoc, List.cons_append, hstep L x _ hlo, extend]
    have := ih (L ++ [g L]) R' T (by simpa using hR) (by simp; omega)
    simpa using this


/-! ### message expansion -/

def hA (b : Array UInt8) (j : Nat) : UInt32 :=
  b[j * 4]!.toUInt32 <<< 24 ||| b[j * 4 + 1]!.toUInt32 <<< 16
                          ||| b[j * 4 + 2]!.toUInt32 <<< 8 ||| b[j * 4 + 3]!.toUInt32

theorem hA_cons (a b c d : UInt8) (rest : List UInt8) (j : Nat) :
    hA (a :: b :: c :: d :: rest).toArray (j + 1) = hA rest.toArray j := by
  simp only [hA]
  have e : ∀ k, (j + 1) * 4 + k = (j * 4 + k) + 4 := by intro k; omega
  have e0 : (j + 1) * 4 = (j * 4) + 4 := by omega
  rw [e, e, e, e0]
  simp

theorem words_eq : ∀ b : List UInt8, Spec.SM3.words b = (List.range (b.length / 4)).map (hA b.toArray)
  | [] => by simp [Spec.SM3.words]
  | [_] => by simp [Spec.SM3.words]
  | [_, _] => by simp [Spec.SM3.words]
  | [_, _, _] => by simp [Spec.SM3.words]
  | a :: b :: c :: d :: rest => by
    rw [Spec.SM3.words, words_eq rest]
    have : (a :: b :: c :: d :: rest).length / 4 = rest.length / 4 + 1 := by
      simp only [List.length_cons]; omega
    rw [this, List.range_succ_eq_map, List.map_cons, List.map_map]
    have h0 : hA (a :: b :: c :: d :: rest).toArray 0 = u32be a b c d := by
      simp [hA, u32be]
    have h1 : List.map (hA (a :: b :: c :: d :: rest).toArray ∘ Nat.succ) (List.range (rest.length / 4))
        = List.map (hA rest.toArray) (List.range (rest.length / 4)) := by
      apply List.map_congr_left
      intro j _
      simp [hA_cons]
    rw [h0, h1]

def stepA (b : Array UInt8) (w : Array UInt32) (j : Nat) : Array UInt32 := w.set! j (hA b j)

theorem loopA (b : List UInt8) (hb : b.length = 64) :
    (List.range 16).foldl (stepA b.toArray) (Array.replicate 68 0)
      = (Spec.SM3.words b ++ List.replicate 52 0).toArray := by
  have h := build_loop 0 (fun L => hA b.toArray L.length) (stepA b.toArray)
    (by intro L x R _; simp only [stepA]; rw [set_fill]) 16 [] (List.replicate 16 0)
    (List.replicate 52 0) (by simp) (by simp)
  rw [extend_index] at h
  rw [words_eq, hb, List.range_eq_range']
  have e : (Array.replicate 68 (0 : UInt32))
      = (([] : List UInt32) ++ List.replicate 16 0 ++ List.replicate 52 0).toArray := by decide
  rw [e]
  exact h

def gB (L : List UInt32) : UInt32 :=
  let j := L.length
  let g (i : Nat) : UInt32 := L.getD (j - i) 0
  Spec.SM3.P1 (g 16 ^^^ g 9 ^^^ rotl32 (g 3) 15) ^^^ rotl32 (g 13) 7 ^^^ g 6

theorem expandFrom_eq (L : List UInt32) (n : Nat) : Spec.SM3.expandFrom L n = extend gB L n := by
  induction n generalizing L with
  | zero => rfl
  | succ n ih => rw [Spec.SM3.expandFrom, extend, ih]; rfl

def stepB (w : Array UInt32) (j : Nat) : Array UInt32 :=
  w.set! j (Impl.SM3.p1 (w[j - 16]! ^^^ w[j - 9]! ^^^ rotl32 w[j - 3]! 15)
                          ^^^ rotl32 w[j - 13]! 7 ^^^ w[j - 6]!)

theorem stepB_ok (L : List UInt32) (x : UInt32) (R : List UInt32) (h : 16 ≤ L.length) :
    stepB (L ++ x :: R).toArray L.length = (L ++ gB L :: R).toArray := by
  unfold stepB
  rw [get_fill32 L _ (L.length - 16) (by omega), get_fill32 L _ (L.length - 9) (by omega),
    get_fill32 L _ (L.length - 3) (by omega), get_fill32 L _ (L.length - 13) (by omega),
    get_fill32 L _ (L.length - 6) (by omega), set_fill]
  rfl

theorem words_length (b : List UInt8) : (Spec.SM3.words b).length = b.length / 4 := by
  simp [words_eq]

theorem loopB (b : List UInt8) (hb : b.length = 64) :
    (List.range' 16 52).foldl stepB (Spec.SM3.words b ++ List.replicate 52 0).toArray
      = (Spec.SM3.expand b).toArray := by
  have hl : (Spec.SM3.words b).length = 16 := by rw [words_length, hb]
  have h := build_loop 16 gB stepB stepB_ok 52 (Spec.SM3.words b) (List.replicate 52 0) []
    (by simp) (by omega)
  rw [hl] at h
  rw [Spec.SM3.expand, expandFrom_eq]
  simpa using h

theorem expand_length (b : List UInt8) (hb : b.length = 64) : (Spec.SM3.expand b).length = 68 := by
  rw [Spec.SM3.expand, expandFrom_eq, extend_length, words_length, hb]

/-! ### compression function -/

theorem arr_get32 (l : List UInt32) (j : Nat) : l.toArray[j]! = l.getD j 0 := by
  simp; rfl

def stepC (w : Array UInt32) (w1 : Array UInt32) (j : Nat) : Array UInt32 :=
  w1.set! j (w[j]! ^^^ w[j + 4]!)

theorem loopC (w : Array UInt32) :
    (List.range 64).foldl (stepC w) (Array.replicate 64 0)
      = ((List.range' 0 64).map (fun j => w[j]! ^^^ w[j + 4]!)).toArray := by
  have h := build_loop 0 (fun L => (fun j => w[j]! ^^^ w[j + 4]!) L.length) (stepC w)
    (by intro L x R _; simp only [stepC]; rw [set_fill]) 64 [] (List.replicate 64 0)
    [] (by simp) (by simp)
  rw [extend_index (fun j => w[j]! ^^^ w[j + 4]!)] at h
  have e : (Array.replicate 64 (0 : UInt32))
      = (([] : List UInt32) ++ List.replicate 64 0 ++ []).toArray := by decide
  rw [e, List.range_eq_range']
  simpa using h

theorem loopC_get (w : Array UInt32) (j : Nat) (hj : j < 64) :
    ((List.range' 0 64).map (fun j => w[j]! ^^^ w[j + 4]!)).toArray[j]! = w[j]! ^^^ w[j + 4]! := by
  simp [hj]

abbrev St := UInt32 × UInt32 × UInt32 × UInt32 × UInt32 × UInt32 × UInt32 × UInt32

def tup (r : Spec.SM3.Reg) : St := (r.a, r.b, r.c, r.d, r.e, r.f, r.g, r.h)

def stepR (w w1 : Array UInt32) (s : St) (j : Nat) : St :=
  let (a, b, c, d, e, f, g, h) := s
  let ss1 := rotl32 (rotl32 a 12 + e + rotl32 (Impl.SM3.t j) j) 7
  let ss2 := ss1 ^^^ rotl32 a 12
  let tt1 := Impl.SM3.ff a b c j + d + ss2 + w1[j]!
  let tt2 := Impl.SM3.gg e f g j + h + ss1 + w[j]!
  (tt1, a, rotl32 b 9, c, Impl.SM3.p0 tt2, e, rotl32 f 19, g)

theorem ff_eq (x y z : UInt32) (j : Nat) (hj : j < 64) : Impl.SM3.ff x y z j = Spec.SM3.FF j x y z := by
  unfold Impl.SM3.ff Spec.SM3.FF
  split
  · rfl
  · rw [if_pos (by omega)]

theorem gg_eq (x y z : UInt32) (j : Nat) (hj : j < 64) : Impl.SM3.gg x y z j = Spec.SM3.GG j x y z := by
  unfold Impl.SM3.gg Spec.SM3.GG
  split
  · rfl
  · rw [if_pos (by omega)]

theorem t_eq (j : Nat) (hj : j < 64) : Impl.SM3.t j = Spec.SM3.T j := by
  unfold Impl.SM3.t Spec.SM3.T
  split
  · rfl
  · rw [if_pos (by omega)]; rfl

theorem stepR_ok (W : List UInt32) (w1 : Array UInt32) (r : Spec.SM3.Reg) (j : Nat) (hj : j < 64)
    (hw1 : w1[j]! = W.getD j 0 ^^^ W.getD (j + 4) 0) :
    stepR W.toArray w1 (tup r) j
      = tup (Spec.SM3.round j (W.getD j 0) (W.getD j 0 ^^^ W.getD (j + 4) 0) r) := by
  simp only [stepR, tup, Spec.SM3.round, ff_eq _ _ _ j hj, gg_eq _ _ _ j hj, t_eq j hj, hw1, arr_get32]
  rfl

theorem loopR (W : List UInt32) (w1 : Array UInt32)
    (hw1 : ∀ j, j < 64 → w1[j]! = W.getD j 0 ^^^ W.getD (j + 4) 0) :
    ∀ n j r, j + n ≤ 64 →
      (List.range' j n).foldl (stepR W.toArray w1) (tup r) = tup (Spec.SM3.rounds W r j n) := by
  intro n
  induction n with
  | zero => intro j r _; rfl
  | succ n ih =>
    intro j r h
    rw [List.range'_succ, List.foldl_cons, stepR_ok W w1 r j (by omega) (hw1 j (by omega)),
      Spec.SM3.rounds]
    exact ih (j + 1) _ (by omega)

def fin (v : Array UInt32) (s : St) : Array UInt32 :=
  let (a, b, c, d, e, f, g, h) := s
  #[v[0]! ^^^ a, v[1]! ^^^ b, v[2]! ^^^ c, v[3]! ^^^ d, v[4]! ^^^ e, v[5]! ^^^ f, v[6]! ^^^ g, v[7]! ^^^ h]

theorem cf_eq (v : Array UInt32) (b : Array UInt8) :
    Impl.SM3.cf v b =
      let w := (List.range' 16 52).foldl stepB ((List.range 16).foldl (stepA b) (Array.replicate 68 0))
      let w1 := (List.range 64).foldl (stepC w) (Array.replicate 64 0)
      fin v ((List.range 64).foldl (stepR w w1) (v[0]!, v[1]!, v[2]!, v[3]!, v[4]!, v[5]!, v[6]!, v[7]!)) := by
  unfold Impl.SM3.cf stepA stepB stepC stepR fin hA
  simp only []

theorem cf_refines (v : List UInt32) (b : List UInt8) (hv : v.length = 8) (hb : b.length = 64) :
    (Impl.SM3.cf v.toArray b.toArray).toList = Spec.SM3.CF v b := by
  rw [cf_eq]
  simp only []
  rw [loopA b hb, loopB b hb, loopC]
  match v, hv with
  | [v0, v1, v2, v3, v4, v5, v6, v7], _ =>
    have h0 : ([v0, v1, v2, v3, v4, v5, v6, v7].toArray[0]!, [v0, v1, v2, v3, v4, v5, v6, v7].toArray[1]!,
        [v0, v1, v2, v3, v4, v5, v6, v7].toArray[2]!, [v0, v1, v2, v3, v4, v5, v6, v7].toArray[3]!,
        [v0, v1, v2, v3, v4, v5, v6, v7].toArray[4]!, [v0, v1, v2, v3, v4, v5, v6, v7].toArray[5]!,
        [v0, v1, v2, v3, v4, v5, v6, v7].toArray[6]!, [v0, v1, v2, v3, v4, v5, v6, v7].toArray[7]!)
        = tup (Spec.SM3.Reg.ofList [v0, v1, v2, v3, v4, v5, v6, v7]) := rfl
    rw [h0, List.range_eq_range', loopR (Spec.SM3.expand b) _ _ 64 0 _ (by omega)]
    · simp only [Spec.SM3.CF, fin, tup, Spec.SM3.Reg.toList]
      simp [UInt32.xor_comm]
    · intro j hj
      rw [loopC_get _ j hj, arr_get32, arr_get32]


/-! ### block iteration and output -/

theorem CF_length (v : List UInt32) (b : List UInt8) (hv : v.length = 8) :
    (Spec.SM3.CF v b).length = 8 := by
  simp [Spec.SM3.CF, Spec.SM3.Reg.toList, hv]

theorem foldl_CF_length (bs : List (List UInt8)) (v : List UInt32) (hv : v.length = 8) :
    (bs.foldl Spec.SM3.CF v).length = 8 := by
  induction bs generalizing v with
  | nil => exact hv
  | cons b bs ih => exact ih _ (CF_length v b hv)

theorem blocks_nil : Spec.SM3.blocks [] = [] := by
  rw [Spec.SM3.blocks]; simp

theorem blocks_cons (m : List UInt8) (h : 64 ≤ m.length) :
    Spec.SM3.blocks m = m.take 64 :: Spec.SM3.blocks (m.drop 64) := by
  rw [Spec.SM3.blocks, dif_neg (by omega)]

theorem blockLoop_refines (msg : List UInt8) (hm : msg.length % 64 = 0) (cg : Nat) (v : List UInt32)
    (hv : v.length = 8) (hcg : cg * 64 ≤ msg.length) :
    Impl.SM3.blockLoop msg cg v.toArray
      = .ok ((Spec.SM3.blocks (msg.drop (cg * 64))).foldl Spec.SM3.CF v).toArray := by
  generalize hn : msg.length - cg * 64 = n
  induction n using Nat.strongRecOn generalizing cg v with
  | _ n ih =>
    rw [Impl.SM3.blockLoop]
    split
    · next h =>
      rw [List.drop_of_length_le (by omega), blocks_nil]; rfl
    · next h =>
      have h64 : cg * 64 + 64 ≤ msg.length := by omega
      rw [dif_pos h64]
      have hb : ((msg.drop (cg * 64)).take 64).length = 64 := by
        simp only [List.length_take, List.length_drop]; omega
      have hcf := cf_refines v _ hv hb
      have : Impl.SM3.cf v.toArray ((msg.drop (cg * 64)).take 64).toArray
          = (Spec.SM3.CF v ((msg.drop (cg * 64)).take 64)).toArray := by
        rw [← hcf]
      rw [this, ih (msg.length - (cg + 1) * 64) (by omega) (cg + 1) _ (CF_length _ _ hv) (by omega) rfl,
        blocks_cons (msg.drop (cg * 64)) (by simp only [List.length_drop]; omega), List.drop_drop,
        List.foldl_cons]
      have : (cg + 1) * 64 = cg * 64 + 64 := by omega
      rw [this]

theorem be32_flat (l : List UInt32) :
    (l.flatMap fun (x : UInt32) => [(x >>> 24).toUInt8, (x >>> 16).toUInt8, (x >>> 8).toUInt8, x.toUInt8])
      = l.flatMap be32 := rfl

theorem flatMap_be32_length (l : List UInt32) : (l.flatMap be32).length = 4 * l.length := by
  induction l with
  | nil => rfl
  | cons x l ih => simp only [List.flatMap_cons, List.length_append, ih, be32, List.length_cons, List.length_nil]; omega

theorem spec_hash_length (m : List UInt8) : (Spec.SM3.hash m).length = 32 := by
  rw [Spec.SM3.hash, flatMap_be32_length, foldl_CF_length _ _ (by rfl)]

theorem sm3_refines (m : List UInt8) : Impl.SM3.sm3_hash m = .ok (Spec.SM3.hash m) := by
  have hIV : Gen.SM3.IV = Spec.SM3.IV := rfl
  have h := blockLoop_refines (Spec.SM3.pad m) (spec_pad_length_mod m) 0 Spec.SM3.IV (by rfl) (by omega)
  simp only [Impl.SM3.sm3_hash, pad_refines, hIV, h, Nat.zero_mul, List.drop_zero]
  rfl

end GmVerif.Proofs.SM3
