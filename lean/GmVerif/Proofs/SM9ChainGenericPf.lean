/-
C12e, beyond stage 5: `ChainGeneric` itself.

With the tools of `Proofs/SM9TwistFrobUntwist.lean` (ψ = `untwist` is compatible with the chord addition, injective on
x-coordinates; π acts on ψ(G2) as [p]) plus the tangent analogue (`untwist_add_tangent`) and ψ(−R) = −ψ(R), the state of the
signed-digit Miller loop on ψ(Q), Q ∈ G2 finite, is followed exactly:

    after a prefix of the digit string the point is  T = ψ([k]Q),  k = the signed-digit value of the prefix (an INTEGER
    multiple in Mathlib's group of the twist),  0 < k < 2⁶⁶ ≪ N,

so every tangent is at a finite point with y ≠ 0 (N ∤ k, N ∤ 2k), every chord is between points with different x
(N ∤ 2k, 2k ∓ 1, 2k ± 1), the loop ends at ψ([6t+2]Q) (`loop_point`: the loop-point invariant), and the two Frobenius
chords are generic by `frobGeneric_of_loop_point`.  Result: `chainGeneric : ChainGeneric`.
-/
import GmVerif.Proofs.SM9TwistFrobUntwist
set_option autoImplicit false
namespace GmVerif.Proofs.SM9ChainGenericPf
open GmVerif GmVerif.Proofs.SM9Tower GmVerif.Proofs.SM9TowerDense GmVerif.Proofs.SM9PairingReduce
open GmVerif.Proofs.SM9SpecField GmVerif.Proofs.SM9SpecLines GmVerif.Proofs.SM9MillerSD
open GmVerif.Proofs.SM9TwistFrob GmVerif.Proofs.SM9TwistFrobUntwist
open GmVerif.Spec.SM9 (p N t ateLoop Pt2 Pt12 add2 mul2 onTwist untwist frobPt neg12 lineAdd)
open GmVerif.Proofs.SM9Fp12 (ev Canon)
open GmVerif.Proofs.SM9G2 (ofK W2 ofPoint2)
open _root_.GmVerif.Impl.SM9 (abits)
open WeierstrassCurve.Affine

/-! ### ψ and the tangent addition, ψ and negation -/

theorem two_ne_zero_L : (2 : L) ≠ 0 := SM9G2ImplField.two_ne_zero_L

theorem ne_neg_self {y : L} (hy : y ≠ 0) : y ≠ -y := by
  intro h
  have : (2 : L) * y = 0 := by linear_combination h
  rcases mul_eq_zero.1 this with h2 | h2
  · exact two_ne_zero_L h2
  · exact hy h2

theorem ev_uy_add_ne_zero {y : L} (hy : y ≠ 0) : ev (uy y) + ev (uy y) ≠ 0 := by
  rw [ev_uy, ← two_mul]
  have hΦ : Φ y ≠ 0 := fun h => hy (Φ_injective (by rw [h, map_zero]))
  have hω := inv_ne_zero ω_ne_zero
  exact mul_ne_zero two_ne_zero_A (mul_ne_zero hΦ (mul_ne_zero (mul_ne_zero hω hω) hω))

theorem untwist_add_tangent (x y : L) (hy : y ≠ 0) (P : SFp12 × SFp12) :
    (lineAdd (untwist (ofL (some (x, y)))) (untwist (ofL (some (x, y)))) P).2
      = untwist (add2 (ofL (some (x, y))) (ofL (some (x, y)))) := by
  rw [add2_ofL]
  show _ = untwist (ofL (if x = x then (if y = -y then none else some (sumL (lamD x y) x y x)) else _))
  rw [if_pos rfl, if_neg (ne_neg_self hy), untwist_ofL]
  show _ = untwist (ofL (some (_, _)))
  rw [untwist_ofL]
  obtain ⟨g, x3, y3, hl, R⟩ := lineAdd_tangent (ux x) (uy y) P (ev_uy_add_ne_zero hy)
  rw [hl]
  have hω := ω_ne_zero
  have h2 := two_ne_zero_A
  have hΦ : Φ y ≠ 0 := fun h => hy (Φ_injective (by rw [h, map_zero]))
  have ex3 : ev x3 = ev (ux (sumL (lamD x y) x y x).1) := by
    rw [R.ex, ev_ux, ev_ux, ev_uy, ← two_mul]
    simp only [sumL, lamD, map_sub, map_mul, map_inv₀, Nat.cast_ofNat, map_ofNat]
    field_simp
  have ey3 : ev y3 = ev (uy (sumL (lamD x y) x y x).2) := by
    rw [R.ey, R.ex, ev_ux, ev_uy, ev_uy, ← two_mul]
    simp only [sumL, lamD, map_sub, map_mul, map_inv₀, Nat.cast_ofNat, map_ofNat]
    field_simp
  show some (x3, y3) = _
  rw [SM9Fp12.ev_injective R.cx (canon_ux _) ex3, SM9Fp12.ev_injective R.cy (canon_uy _) ey3]
  rfl

theorem neg12_untwist (x y : L) : neg12 (untwist (ofL (some (x, y)))) = untwist (ofL (some (x, -y))) := by
  rw [untwist_ofL, untwist_ofL]
  show some (ux x, Spec.SM9.Fp12.neg (uy y)) = _
  refine congrArg some (Prod.ext rfl ?_)
  apply SM9Fp12.ev_injective (canon_neg _) (canon_uy _)
  show ev (Spec.SM9.Fp12.neg (uy y)) = ev (uy (-y))
  rw [ev_neg, ev_uy, ev_uy, map_neg]; ring

/-! ### ψ on Mathlib's group of the twist -/

/-- ψ on Mathlib points -/
def ψ (R : W2.Point) : Pt12 := untwist (ofPoint2 R)

theorem ofPoint2_some {x y : L} (h : W2.Nonsingular x y) : ofPoint2 (.some x y h) = ofL (some (x, y)) := rfl

theorem ψ_add_chord {x1 y1 x2 y2 : L} {h1 : W2.Nonsingular x1 y1} {h2 : W2.Nonsingular x2 y2} (hx : x1 ≠ x2)
    (P : SFp12 × SFp12) :
    (lineAdd (ψ (.some x1 y1 h1)) (ψ (.some x2 y2 h2)) P).2 = ψ (.some x1 y1 h1 + .some x2 y2 h2) := by
  unfold ψ
  rw [← SM9G2.add2_ofPoint, ofPoint2_some, ofPoint2_some, untwist_add_chord x1 y1 x2 y2 hx P]

theorem ψ_add_tangent {x y : L} {h : W2.Nonsingular x y} (hy : y ≠ 0) (P : SFp12 × SFp12) :
    (lineAdd (ψ (.some x y h)) (ψ (.some x y h)) P).2 = ψ (.some x y h + .some x y h) := by
  unfold ψ
  rw [← SM9G2.add2_ofPoint, ofPoint2_some, untwist_add_tangent x y hy P]

theorem ψ_add_chord' {R S : W2.Point} {x1 y1 x2 y2 : L} {h1 : W2.Nonsingular x1 y1} {h2 : W2.Nonsingular x2 y2}
    (hR : R = .some x1 y1 h1) (hS : S = .some x2 y2 h2) (hx : x1 ≠ x2) (P : SFp12 × SFp12) :
    (lineAdd (ψ R) (ψ S) P).2 = ψ (R + S) := by
  subst hR hS; exact ψ_add_chord hx P

theorem ψ_add_tangent' {R : W2.Point} {x y : L} {h : W2.Nonsingular x y} (hR : R = .some x y h) (hy : y ≠ 0)
    (P : SFp12 × SFp12) : (lineAdd (ψ R) (ψ R) P).2 = ψ (R + R) := by
  subst hR; exact ψ_add_tangent hy P

theorem negY_eq (x y : L) : W2.negY x y = -y := by
  simp [negY]

theorem ψ_neg (R : W2.Point) : neg12 (ψ R) = ψ (-R) := by
  rcases R with _ | ⟨x, y, h⟩
  · rfl
  · unfold ψ
    rw [Point.neg_some, ofPoint2_some, ofPoint2_some, neg12_untwist, negY_eq]

theorem chordOK_ψ {x1 y1 x2 y2 : L} {h1 : W2.Nonsingular x1 y1} {h2 : W2.Nonsingular x2 y2} (hx : x1 ≠ x2) :
    ChordOK (ψ (.some x1 y1 h1)) (ψ (.some x2 y2 h2)) := chordOK_untwist hx

theorem tangentOK_ψ {x y : L} {h : W2.Nonsingular x y} (hy : y ≠ 0) : TangentOK (ψ (.some x y h)) := by
  refine ⟨ux x, uy y, rfl, fun h0 => ?_⟩
  apply ev_uy_add_ne_zero hy
  rw [← ev_add, h0, ev_zero]

theorem chordOK_ψ' {R S : W2.Point} {x1 y1 x2 y2 : L} {h1 : W2.Nonsingular x1 y1} {h2 : W2.Nonsingular x2 y2}
    (hR : R = .some x1 y1 h1) (hS : S = .some x2 y2 h2) (hx : x1 ≠ x2) : ChordOK (ψ R) (ψ S) := by
  subst hR hS; exact chordOK_ψ hx

theorem tangentOK_ψ' {R : W2.Point} {x y : L} {h : W2.Nonsingular x y} (hR : R = .some x y h) (hy : y ≠ 0) :
    TangentOK (ψ R) := by
  subst hR; exact tangentOK_ψ hy

/-! ### integer multiples of a point of order N -/

section order
variable {Q' : W2.Point} (hord : addOrderOf Q' = N)
include hord

theorem zsmul_ne_zero {a : ℤ} (ha : ¬ (N : ℤ) ∣ a) : a • Q' ≠ 0 := fun h =>
  ha (hord ▸ addOrderOf_dvd_iff_zsmul_eq_zero.2 h)

/-- [a]Q' is finite with y ≠ 0 when N ∤ a, N ∤ 2a -/
theorem zsmul_y_ne {a : ℤ} (ha : ¬ (N : ℤ) ∣ a) (h2a : ¬ (N : ℤ) ∣ a + a) :
    ∃ x y h, a • Q' = .some x y h ∧ y ≠ 0 := by
  rcases hA : a • Q' with _ | ⟨x, y, h⟩
  · exact absurd hA (zsmul_ne_zero hord ha)
  refine ⟨x, y, h, rfl, ?_⟩
  rintro rfl
  apply h2a
  rw [← hord, addOrderOf_dvd_iff_zsmul_eq_zero, add_zsmul, hA]
  have hneg : (Point.some x 0 h : W2.Point) = -Point.some x 0 h := by
    rw [Point.neg_some]
    congr 1
    rw [negY_eq, neg_zero]
  conv_lhs => arg 2; rw [hneg]
  exact add_neg_cancel _

/-- [a]Q' and [b]Q' are finite with different x-coordinates when N ∤ a, b, a − b, a + b -/
theorem zsmul_x_ne {a b : ℤ} (ha : ¬ (N : ℤ) ∣ a) (hb : ¬ (N : ℤ) ∣ b) (hab : ¬ (N : ℤ) ∣ a - b)
    (hab' : ¬ (N : ℤ) ∣ a + b) :
    ∃ x1 y1 h1 x2 y2 h2, a • Q' = .some x1 y1 h1 ∧ b • Q' = .some x2 y2 h2 ∧ x1 ≠ x2 := by
  rcases hA : a • Q' with _ | ⟨x1, y1, h1⟩
  · exact absurd hA (zsmul_ne_zero hord ha)
  rcases hB : b • Q' with _ | ⟨x2, y2, h2⟩
  · exact absurd hB (zsmul_ne_zero hord hb)
  refine ⟨x1, y1, h1, x2, y2, h2, rfl, rfl, ?_⟩
  rintro rfl
  rcases Y_eq_of_X_eq h1.1 h2.1 rfl with hy | hy
  · subst hy
    apply hab
    rw [← hord, addOrderOf_dvd_iff_zsmul_eq_zero, sub_zsmul, hA, hB]
    exact sub_self (Point.some x1 y1 h1 : W2.Point)
  · apply hab'
    rw [← hord, addOrderOf_dvd_iff_zsmul_eq_zero, add_zsmul, hA, hB]
    have hneg : (Point.some x1 y1 h1 : W2.Point) = -Point.some x1 y2 h2 := by
      rw [Point.neg_some]
      congr 1
    rw [hneg]
    exact neg_add_cancel _

end order

/-! ### one step of the signed-digit loop -/

/-- the signed-digit recurrence on the scalar -/
def digit (k : ℤ) (ch : Char) : ℤ := if ch = '1' then 2 * k + 1 else if ch = '2' then 2 * k - 1 else 2 * k

theorem not_dvd_of_pos_lt {m : ℤ} (h0 : 0 < m) (h1 : m < N) : ¬ (N : ℤ) ∣ m := fun h =>
  absurd (Int.le_of_dvd h0 h) (not_le.2 h1)

theorem not_dvd_of_neg_gt {m : ℤ} (h0 : m < 0) (h1 : -(N : ℤ) < m) : ¬ (N : ℤ) ∣ m := fun h =>
  not_dvd_of_pos_lt (m := -m) (by omega) (by omega) ((Int.dvd_neg).2 h)

theorem step_ok {Q' : W2.Point} (hord : addOrderOf Q' = N) (P : SFp12 × SFp12) (st : SFp12 × Pt12) (k : ℤ)
    (hk0 : 0 < k) (hkN : 2 * k + 2 < N) (hst : st.2 = ψ (k • Q')) (ch : Char) :
    StepOK (ψ Q') P st.2 ch ∧ (sdStep (ψ Q') P st ch).2 = ψ (digit k ch • Q') := by
  obtain ⟨fs, T⟩ := st
  dsimp only at hst
  subst hst
  have nd : ∀ m : ℤ, 0 < m → m < N → ¬ (N : ℤ) ∣ m := fun m => not_dvd_of_pos_lt
  -- the tangent at [k]Q'
  obtain ⟨x, y, h, hk, hy⟩ := zsmul_y_ne hord (nd k hk0 (by omega)) (nd (k + k) (by omega) (by omega))
  have hT2 : (lineAdd (ψ (k • Q')) (ψ (k • Q')) P).2 = ψ ((2 * k) • Q') := by
    rw [ψ_add_tangent' hk hy P, ← add_zsmul, two_mul]
  have htan : TangentOK (ψ (k • Q')) := tangentOK_ψ' hk hy
  -- Q' itself and −Q'
  have h1Q : (1 : ℤ) • Q' = Q' := one_zsmul _
  have hm1Q : (-1 : ℤ) • Q' = -Q' := by rw [neg_zsmul, one_zsmul]
  obtain ⟨a1, b1, g1, a2, b2, g2, e1, e2, hx12⟩ := zsmul_x_ne hord (a := 2 * k) (b := 1)
    (nd _ (by omega) (by omega)) (nd _ (by omega) (by decide)) (nd _ (by omega) (by omega)) (nd _ (by omega) (by omega))
  obtain ⟨a3, b3, g3, a4, b4, g4, e3, e4, hx34⟩ := zsmul_x_ne hord (a := 2 * k) (b := -1)
    (nd _ (by omega) (by omega)) (not_dvd_of_neg_gt (by omega) (by decide)) (nd _ (by omega) (by omega))
    (nd _ (by omega) (by omega))
  rw [h1Q] at e2
  rw [hm1Q] at e4
  have hc1 : ChordOK (lineAdd (ψ (k • Q')) (ψ (k • Q')) P).2 (ψ Q') := by
    rw [hT2]; exact chordOK_ψ' e1 e2 hx12
  have hc2 : ChordOK (lineAdd (ψ (k • Q')) (ψ (k • Q')) P).2 (neg12 (ψ Q')) := by
    rw [hT2, ψ_neg]; exact chordOK_ψ' e3 e4 hx34
  refine ⟨⟨htan, fun _ => hc1, fun _ => hc2⟩, ?_⟩
  rw [SM9MillerAssemble.sdStep_eq]
  unfold digit
  by_cases c1 : ch = '1'
  · rw [if_pos c1, if_pos c1]
    show (lineAdd (lineAdd (ψ (k • Q')) (ψ (k • Q')) P).2 (ψ Q') P).2 = _
    rw [hT2, ψ_add_chord' e1 e2 hx12 P, add_zsmul, one_zsmul]
  · rw [if_neg c1, if_neg c1]
    by_cases c2 : ch = '2'
    · rw [if_pos c2, if_pos c2]
      show (lineAdd (lineAdd (ψ (k • Q')) (ψ (k • Q')) P).2 (neg12 (ψ Q')) P).2 = _
      rw [hT2, ψ_neg, ψ_add_chord' e3 e4 hx34 P, sub_zsmul, one_zsmul]
    · rw [if_neg c2, if_neg c2]
      exact hT2

/-- the fold: genericity of every step and the final point -/
theorem fold_ok {Q' : W2.Point} (hord : addOrderOf Q' = N) (P : SFp12 × SFp12) (cs : List Char) (st : SFp12 × Pt12)
    (k : ℤ) (hk0 : 0 < k) (hkN : (k + 1) * 2 ^ cs.length < N) (hst : st.2 = ψ (k • Q')) :
    GenericFrom (ψ Q') P cs st ∧ (cs.foldl (sdStep (ψ Q') P) st).2 = ψ (cs.foldl digit k • Q') := by
  induction cs generalizing st k with
  | nil => exact ⟨trivial, hst⟩
  | cons c cs ih =>
    have hlen : (k + 1) * 2 ^ (c :: cs).length = (2 * k + 2) * 2 ^ cs.length := by
      rw [List.length_cons, pow_succ]; ring
    rw [hlen] at hkN
    have hpow : (1 : ℤ) ≤ 2 ^ cs.length := one_le_pow₀ (by norm_num)
    have hk2 : 2 * k + 2 < N := by nlinarith
    obtain ⟨hs, hnext⟩ := step_ok hord P st k hk0 hk2 hst c
    have hd0 : 0 < digit k c := by unfold digit; split_ifs <;> omega
    have hdN : (digit k c + 1) * 2 ^ cs.length < N := by
      have : digit k c + 1 ≤ 2 * k + 2 := by unfold digit; split_ifs <;> omega
      nlinarith
    obtain ⟨hg, hf⟩ := ih (sdStep (ψ Q') P st c) (digit k c) hd0 hdN hnext
    exact ⟨⟨hs, hg⟩, by rw [List.foldl_cons, List.foldl_cons]; exact hf⟩

/-- the signed-digit value of `abits`, from 1, is 6t + 2 -/
theorem abits_value : abits.toList.foldl digit 1 = (ateLoop : ℤ) := by decide +kernel

theorem abits_bound : ((1 : ℤ) + 1) * 2 ^ abits.toList.length < N := by decide +kernel

/-! ### the result -/

/-- the loop on ψ(Q), Q ∈ G2 finite: every step is generic and the loop ends at ψ([6t+2]Q) -/
theorem loop_ok {Q : Pt2} (hQ : onTwist Q = true) (hN : mul2 N Q = none) {Q' : SFp12 × SFp12}
    (hQ' : untwist Q = some Q') (P' : SFp12 × SFp12) :
    GenericFrom (some Q') P' abits.toList (Spec.SM9.Fp12.one, some Q')
      ∧ (sdLoop P' (some Q')).2 = untwist (mul2 ateLoop Q) := by
  have hQ0 : Q ≠ none := by
    rintro rfl
    simp [untwist] at hQ'
  obtain ⟨R, rfl⟩ := SM9G2.exists_ofPoint2 hQ
  have hR0 : R ≠ 0 := fun h => hQ0 (by rw [h]; rfl)
  rw [SM9G2.mul2_ofPoint, SM9G2.ofPoint2_eq_none_iff] at hN
  have hord : addOrderOf R = N := SM9G2Cyclic.addOrderOf_eq_prime SM9Algebra.N_prime hR0 hN
  have hψ : some Q' = ψ R := hQ'.symm
  have h := fold_ok hord P' abits.toList (Spec.SM9.Fp12.one, ψ R) 1 (by norm_num) abits_bound
    (by rw [one_zsmul])
  rw [hψ]
  refine ⟨h.1, ?_⟩
  show (abits.toList.foldl (sdStep (ψ R) P') (Spec.SM9.Fp12.one, ψ R)).2 = _
  rw [h.2, abits_value, SM9G2.mul2_ofPoint, natCast_zsmul]
  rfl

/-- THE LOOP-POINT INVARIANT -/
theorem loop_point {Q : Pt2} (hQ : onTwist Q = true) (hN : mul2 N Q = none) {Q' : SFp12 × SFp12}
    (hQ' : untwist Q = some Q') (P' : SFp12 × SFp12) : (sdLoop P' (some Q')).2 = untwist (mul2 ateLoop Q) :=
  (loop_ok hQ hN hQ' P').2

/-- no exceptional case occurs along the signed-digit chain of a finite point of G2 and in the two Frobenius steps -/
theorem sdGeneric {Q : Pt2} (hQ : onTwist Q = true) (hN : mul2 N Q = none) {Q' : SFp12 × SFp12}
    (hQ' : untwist Q = some Q') (P' : SFp12 × SFp12) : SDGeneric P' (some Q') :=
  sdGeneric_of_loop_point P' Q' Q hQ hN hQ' (loop_ok hQ hN hQ' P').1 (loop_ok hQ hN hQ' P').2

/-- `ChainGeneric` holds -/
theorem chainGeneric : SM9MillerReduce.ChainGeneric :=
  ⟨fun _ _ P' _ _ _ hQ hN hQ' => sdGeneric hQ hN hQ' P'⟩

end GmVerif.Proofs.SM9ChainGenericPf
