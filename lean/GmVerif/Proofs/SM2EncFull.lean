/-
SM2 decryption, model vs standard, without the `[d]C1 ≠ O` hypothesis: the SM2 curve has prime order n
(`Proofs.SM2Order`), so `[d]C1 ≠ O` for every decoded (hence on-curve, affine) C1 and every d ∈ [1, n−1].
-/
import GmVerif.Proofs.SM2Enc
import GmVerif.Proofs.SM2Order

namespace GmVerif.Proofs.SM2EncFull
open GmVerif
open GmVerif.Proofs.SM2Enc (toModel)

theorem n_lt : Spec.SM2.n < 2 ^ 256 := by decide

/-- the hypothesis `hfin` of `SM2Enc.decrypt_refines_none`, proved -/
theorem decoded_mul_ne_none (d : Nat) (hd : 1 ≤ d ∧ d < Spec.SM2.n) (bs : List UInt8) (c1 : Nat × Nat)
    (h : Spec.SM2.decodePoint bs = some c1) : Spec.EC.mul Spec.SM2.curve d (some c1) ≠ none := by
  obtain ⟨x, y⟩ := c1
  exact SM2Order.sm2_mul_ne_none_all (SM2Algebra.decode_some_onCurve bs x y h).1 hd.1 hd.2

theorem decrypt_refines_none_full (d : Nat) (hd : 1 ≤ d ∧ d < Spec.SM2.n) (ct : List UInt8) (compressed : Bool)
    (order : Spec.SM2.Order) (h : Spec.SM2.decrypt d ct compressed order = none) :
    ∃ e, Impl.SM2.decrypt d ct compressed (toModel order) = .err e :=
  SM2Enc.decrypt_refines_none d (by have := n_lt; omega) ct compressed order h
    (fun c1 hc1 => decoded_mul_ne_none d hd _ c1 hc1)

theorem decrypt_refines_iff (d : Nat) (hd : 1 ≤ d ∧ d < Spec.SM2.n) (ct : List UInt8) (compressed : Bool)
    (order : Spec.SM2.Order) (m : List UInt8) :
    Impl.SM2.decrypt d ct compressed (toModel order) = .ok m ↔ Spec.SM2.decrypt d ct compressed order = some m := by
  have hd256 : d < 2 ^ 256 := by have := n_lt; omega
  constructor
  · intro hi
    cases hs : Spec.SM2.decrypt d ct compressed order with
    | none =>
      obtain ⟨e, he⟩ := decrypt_refines_none_full d hd ct compressed order hs
      rw [he] at hi
      cases hi
    | some m' =>
      have h2 := SM2Enc.decrypt_refines d hd256 ct compressed order m' hs
      rw [h2] at hi
      injection hi with hi
      rw [hi]
  · exact SM2Enc.decrypt_refines d hd256 ct compressed order m

/-- the error side: the model reports an error exactly when the standard does -/
theorem decrypt_refines_err_iff (d : Nat) (hd : 1 ≤ d ∧ d < Spec.SM2.n) (ct : List UInt8) (compressed : Bool)
    (order : Spec.SM2.Order) :
    (∃ e, Impl.SM2.decrypt d ct compressed (toModel order) = .err e) ↔
      Spec.SM2.decrypt d ct compressed order = none := by
  constructor
  · rintro ⟨e, he⟩
    cases hs : Spec.SM2.decrypt d ct compressed order with
    | none => rfl
    | some m' =>
      have h2 := (decrypt_refines_iff d hd ct compressed order m').mpr hs
      rw [h2] at he
      cases he
  · exact decrypt_refines_none_full d hd ct compressed order

end GmVerif.Proofs.SM2EncFull
