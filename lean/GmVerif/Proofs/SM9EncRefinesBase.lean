/-
Shared groundwork for the refinement of the SM9 encryption and key-exchange models (C10b, C17b):
* `dense_pow`: from `TowerDense`, the model's `Fp12::pow` (MSB-first square-and-multiply on the tower) is the
  specification's `Fp12.pow` on the dense value, for every canonical base and every exponent ≤ N − 1;
* the sampler `sm9_random_u256(N − 1)` in closed form (`Accept`, `firstAccepted`);
* the point Q = [H1(ID ‖ hid)]P1 + Ppub-e computed by the model and its multiples;
* the pairing values g = e(Ppub-e, P2) and e(C, de) through `PairingRefines`.
-/
import GmVerif.Proofs.SM9Bridge
import GmVerif.Proofs.SM9Logic
import GmVerif.Proofs.SM9Fp12
import GmVerif.Thm.C13c
import GmVerif.Thm.C13d
import GmVerif.Thm.C16
set_option autoImplicit false
namespace GmVerif.Proofs.SM9EncRefinesBase
open GmVerif GmVerif.Impl.SM9
open GmVerif.Proofs.SM9Bridge (dense TowerDense PairingRefines InG2)
open GmVerif.Proofs.SM9Tower (Canon12 dec12)
open GmVerif.Proofs.SM9G1 (Valid toSpec)
open GmVerif.Proofs.SM9G2Impl (Valid2 toSpec2)
open GmVerif.Proofs.SM9Logic (bind_ok bind_err bind_panic map_ok)
open GmVerif.Spec.SM9 (curve N)
open GmVerif.Gen.SM9 (N_MINUS_ONE)

/-! ### `dense` and the model's `pow` -/

theorem fp2_eq_of_eq {a b : Fp2} (h : a.eq b = true) : a = b := by
  cases a; cases b
  simp only [Fp2.eq, Bool.and_eq_true, beq_iff_eq] at h
  simp only [Fp2.mk.injEq]; exact h

theorem fp4_eq_of_eq {a b : Fp4} (h : a.eq b = true) : a = b := by
  cases a; cases b
  simp only [Fp4.eq, Bool.and_eq_true] at h
  simp only [Fp4.mk.injEq]; exact ⟨fp2_eq_of_eq h.1, fp2_eq_of_eq h.2⟩

theorem fp12_eq_of_eq {a b : Fp12} (h : a.eq b = true) : a = b := by
  cases a; cases b
  simp only [Fp12.eq, Bool.and_eq_true] at h
  simp only [Fp12.mk.injEq]; exact ⟨fp4_eq_of_eq h.1.1, fp4_eq_of_eq h.1.2, fp4_eq_of_eq h.2⟩

/-- canonical tower elements are determined by their decoded value -/
theorem fp12_eq_of_dec {a b : Fp12} (ha : Canon12 a) (hb : Canon12 b) (h : dec12 a = dec12 b) : a = b :=
  fp12_eq_of_eq (((SM9Tower.ok12_dec ha).eq_iff (SM9Tower.ok12_dec hb)).2 h)

/-- the dedicated squaring routine returns what the general multiplication returns -/
theorem fp_sqr_eq_mul (a : Fp12) (ha : Canon12 a) : a.fp_sqr = a.fp_mul a := by
  obtain ⟨c1, e1⟩ := Thm.C13d.fp12_sqr_correct a ha
  obtain ⟨c2, e2⟩ := Thm.C13d.fp12_mul_correct a a ha ha
  exact fp12_eq_of_dec c1 c2 (e1.trans e2.symm)

theorem dense_sqr (TD : TowerDense) (a : Fp12) (ha : Canon12 a) :
    Canon12 a.fp_sqr ∧ dense a.fp_sqr = Spec.SM9.Fp12.mul (dense a) (dense a) := by
  refine ⟨(Thm.C13d.fp12_sqr_correct a ha).1, ?_⟩
  rw [fp_sqr_eq_mul a ha]; exact TD.mul a a ha ha

theorem spec_pow_double (g : Spec.SM9.Fp12) (k : Nat) :
    Spec.SM9.Fp12.pow g (2 * k) = Spec.SM9.Fp12.mul (Spec.SM9.Fp12.pow g k) (Spec.SM9.Fp12.pow g k) := by
  rw [SM9Fp12.pow_mul, Nat.two_mul]

theorem spec_pow_double_succ (g : Spec.SM9.Fp12) (k : Nat) :
    Spec.SM9.Fp12.pow g (2 * k + 1) =
      Spec.SM9.Fp12.mul (Spec.SM9.Fp12.mul (Spec.SM9.Fp12.pow g k) (Spec.SM9.Fp12.pow g k)) g := by
  apply SM9Fp12.ev_injective (SM9Fp12.canon_pow _ _) (SM9Fp12.canon_mul _ _)
  rw [SM9Fp12.ev_pow, SM9Fp12.ev_mul, SM9Fp12.ev_mul, SM9Fp12.ev_pow]
  ring

theorem dense_pow_bits (TD : TowerDense) (a : Fp12) (ha : Canon12 a) (bits : List Bool) :
    ∀ (t : Fp12) (k : Nat), Canon12 t → dense t = Spec.SM9.Fp12.pow (dense a) k →
      Canon12 (bits.foldl (fun t bit => let t := t.fp_sqr; if bit then t.fp_mul a else t) t) ∧
      dense (bits.foldl (fun t bit => let t := t.fp_sqr; if bit then t.fp_mul a else t) t)
        = Spec.SM9.Fp12.pow (dense a) (Proofs.Limb.bitsVal bits k) := by
  induction bits with
  | nil => intro t k ht hk; exact ⟨ht, hk⟩
  | cons bit bits ih =>
    intro t k ht hk
    rw [List.foldl_cons, Proofs.Limb.bitsVal, List.foldl_cons, ← Proofs.Limb.bitsVal]
    obtain ⟨hs1, hs2⟩ := dense_sqr TD t ht
    cases bit
    · refine ih _ (2 * k + 0) hs1 ?_
      show dense t.fp_sqr = _
      rw [hs2, hk, Nat.add_zero, spec_pow_double]
    · obtain ⟨hm1, _⟩ := Thm.C13d.fp12_mul_correct t.fp_sqr a hs1 ha
      refine ih _ (2 * k + 1) hm1 ?_
      show dense (t.fp_sqr.fp_mul a) = _
      rw [TD.mul _ _ hs1 ha, hs2, hk, spec_pow_double_succ]

theorem one_eq : (⟨Fp4.mont_one, Fp4.zero, Fp4.zero⟩ : Fp12) = Fp12.one := rfl
theorem canon_one : Canon12 Fp12.one := by decide +kernel
theorem spec_pow_zero (g : Spec.SM9.Fp12) : Spec.SM9.Fp12.pow g 0 = Spec.SM9.Fp12.one := by
  rw [Spec.SM9.Fp12.pow]; rfl

theorem dense_pow_loop (TD : TowerDense) (a : Fp12) (ha : Canon12 a) (e : Nat) (he : e < 2 ^ 256) :
    Canon12 (a.pow_loop e) ∧ dense (a.pow_loop e) = Spec.SM9.Fp12.pow (dense a) e := by
  have h := dense_pow_bits TD a ha (Impl.NatField.bitsMSB e) ⟨Fp4.mont_one, Fp4.zero, Fp4.zero⟩ 0
    (by rw [one_eq]; exact canon_one) (by rw [one_eq, TD.one, spec_pow_zero])
  rw [Proofs.Limb.bitsMSB_val, Nat.mod_eq_of_lt he] at h
  exact h

/-- THE lemma about `Fp12::pow`: for a canonical base and e ≤ N − 1 it returns a canonical element whose dense value is
the specification's power, and whose encoding is the specification's -/
theorem dense_pow (TD : TowerDense) (a : Fp12) (ha : Canon12 a) (e : Nat) (he : e ≤ N - 1) :
    ∃ r, a.pow e = .ok r ∧ Canon12 r ∧ dense r = Spec.SM9.Fp12.pow (dense a) e
      ∧ r.to_bytes_be = Spec.SM9.Fp12.toBytes (Spec.SM9.Fp12.pow (dense a) e) := by
  have hlt : e < 2 ^ 256 := Nat.lt_of_le_of_lt he SM9Tower.n_minus_one_lt
  obtain ⟨h1, h2⟩ := dense_pow_loop TD a ha e hlt
  refine ⟨_, SM9Tower.pow_ok he, h1, h2, ?_⟩
  rw [← h2]; exact Thm.C13d.fp12_to_bytes_spec _ h1

theorem to_bytes_dense (a : Fp12) (ha : Canon12 a) : a.to_bytes_be = Spec.SM9.Fp12.toBytes (dense a) :=
  Thm.C13d.fp12_to_bytes_spec a ha

/-! ### the sampler -/

/-- the acceptance set of `sm9_random_u256(N − 1)`: `ret < N − 1` and (array order from limb 0) `ret[0] ≥ 1`, i.e. the
low 64 bits of `ret` are not all zero -/
def Accept (r : Nat) : Prop := r < N - 1 ∧ r % 2 ^ 64 ≠ 0
instance (r : Nat) : Decidable (Accept r) := by unfold Accept; infer_instance

theorem accept_range {r : Nat} (h : Accept r) : 1 ≤ r ∧ r < N - 1 := by
  refine ⟨?_, h.1⟩
  rcases Nat.eq_zero_or_pos r with h0 | h0
  · exact absurd (by rw [h0]; rfl) h.2
  · exact h0

/-- the first accepted candidate (candidates are read as big-endian numbers) and the candidates after it -/
def firstAccepted : List (List UInt8) → Option (Nat × List (List UInt8))
  | [] => none
  | c :: cs => if Accept (beNat c) then some (beNat c, cs) else firstAccepted cs

theorem lexGE_one (x : Nat) : lexGE (limbs4 x) [1, 0, 0, 0] = true ↔ x % 2 ^ 64 ≠ 0 := by
  have e0 : limb x 0 = x % 2 ^ 64 := by simp [limb, W64]
  simp only [limbs4, lexGE, e0]
  by_cases h1 : x % 2 ^ 64 > 1
  · rw [if_pos h1]; simp; omega
  · rw [if_neg h1]
    by_cases h2 : x % 2 ^ 64 < 1
    · rw [if_pos h2]; simp; omega
    · rw [if_neg h2]
      have : x % 2 ^ 64 = 1 := by omega
      simp only [this]
      have : ∀ a : Nat, (if a > 0 then true else if a < 0 then false
          else if limb x 2 > 0 then true else if limb x 2 < 0 then false
          else if limb x 3 > 0 then true else if limb x 3 < 0 then false else true) = true := by
        intro a; split <;> simp
      simp

theorem sampler_accept_iff (x : Nat) :
    (u256_cmp x N_MINUS_ONE < 0 ∧ lexGE (limbs4 x) [1, 0, 0, 0] = true) ↔ Accept x := by
  rw [SM9Logic.cmp_lt_zero, lexGE_one, SM9Tower.n_minus_one_eq]; rfl

/-- `sm9_random_u256(N − 1)` in closed form -/
theorem sampler_eq (cands : List (List UInt8)) : sm9_random_u256 N_MINUS_ONE cands = firstAccepted cands := by
  induction cands with
  | nil => rfl
  | cons c cs ih =>
    simp only [sm9_random_u256, firstAccepted]
    by_cases h : Accept (beNat c)
    · rw [if_pos ((sampler_accept_iff _).2 h), if_pos h]
    · rw [if_neg (fun h' => h ((sampler_accept_iff _).1 h')), if_neg h, ih]

theorem firstAccepted_cons_accept {c : List UInt8} {cs : List (List UInt8)} (h : Accept (beNat c)) :
    firstAccepted (c :: cs) = some (beNat c, cs) := by simp only [firstAccepted]; rw [if_pos h]
theorem firstAccepted_cons_reject {c : List UInt8} {cs : List (List UInt8)} (h : ¬ Accept (beNat c)) :
    firstAccepted (c :: cs) = firstAccepted cs := by simp only [firstAccepted]; rw [if_neg h]

/-! ### the points computed by the model -/

theorem N_lt : N < 2 ^ 256 := by decide
theorem accept_lt {r : Nat} (h : Accept r) : r < 2 ^ 256 := by have := h.1; have := N_lt; omega
theorem accept_le {r : Nat} (h : Accept r) : r ≤ N - 1 := by have := h.1; omega

/-- Q = [H1(ID ‖ hid)]P1 + Ppub-e -/
def Qpt (Ppube : Spec.EC.Pt) (id : List UInt8) (hid : UInt8) : Spec.EC.Pt :=
  Spec.EC.add curve (Spec.EC.mul curve (Spec.SM9.H1 (id ++ [hid])) Spec.SM9.P1) Ppube

/-- step A1 / B1 of the three protocols: the model computes Q (no panic, a valid representation) -/
theorem q_point (ppube : Point) (hv : Valid ppube) (id : List UInt8) (hid : UInt8) :
    ∃ q0, sm9_u256_hash1 id hid = .ok (Spec.SM9.H1 (id ++ [hid]))
      ∧ POINT_MONT_P1.point_mul (Spec.SM9.H1 (id ++ [hid])) = .ok q0
      ∧ Valid (q0.point_add ppube) ∧ toSpec (q0.point_add ppube) = Qpt (toSpec ppube) id hid := by
  have hlt : Spec.SM9.H1 (id ++ [hid]) < 2 ^ 256 := Nat.lt_trans (SM9G2Impl.H1_lt _) N_lt
  have hg : Valid POINT_MONT_P1 := Thm.C13c.G1_valid
  have hgs : toSpec POINT_MONT_P1 = Spec.SM9.P1 := Thm.C13c.G1_toSpec
  obtain ⟨q0, h1, h2, h3⟩ := Proofs.SM9G1Mul.point_mul_good POINT_MONT_P1 hg _ hlt
  obtain ⟨h4, h5⟩ := Proofs.SM9G1.point_add_correct q0 ppube h2 hv
  refine ⟨q0, Thm.C16.hash1_refines id hid, h1, h4, ?_⟩
  rw [h5, h3, hgs]; rfl

/-- a multiple of a valid point: no panic, valid, and — when finite — the standard's encoding -/
theorem q_mul (q : Point) (hq : Valid q) (r : Nat) (hr : r < 2 ^ 256) :
    ∃ c1, q.point_mul r = .ok c1 ∧ Valid c1 ∧ toSpec c1 = Spec.EC.mul curve r (toSpec q)
      ∧ (Spec.EC.mul curve r (toSpec q) ≠ none →
          c1.to_bytes_be = Spec.SM9.encodePoint (Spec.EC.mul curve r (toSpec q))
          ∧ c1.to_bytes_be.drop 1 = Spec.SM9.pointBytes (Spec.EC.mul curve r (toSpec q))) := by
  obtain ⟨c1, h1, h2, h3⟩ := Proofs.SM9G1Mul.point_mul_good q hq r hr
  refine ⟨c1, h1, h2, h3, fun hne => ?_⟩
  have hz : c1.z ≠ 0 := by
    intro h0; apply hne; rw [← h3]; simp only [toSpec, h0, if_true]
  have hb := Proofs.SM9G1.to_bytes_correct c1 h2 hz
  rw [h3] at hb
  refine ⟨hb, ?_⟩
  rw [hb]; rfl

/-- encoding of a finite valid point -/
theorem bytes_of_finite (P : Point) (hP : Valid P) (hz : P.z ≠ 0) :
    P.to_bytes_be = Spec.SM9.encodePoint (toSpec P) ∧ P.to_bytes_be.drop 1 = Spec.SM9.pointBytes (toSpec P) := by
  have hb := Proofs.SM9G1.to_bytes_correct P hP hz
  exact ⟨hb, by rw [hb]; rfl⟩

/-! ### the pairing values -/

theorem p2_inG2 : InG2 TWIST_POINT_MONT_P2 := by
  refine ⟨Thm.C13d.twist_generator_correct.1, ?_⟩
  rw [Thm.C13d.twist_generator_correct.2]; exact Thm.SpecSM9.sm9_g2_order

/-- g = e(Ppub-e, P2) -/
theorem pairing_g (PR : PairingRefines) (ppube : Point) (hv : Valid ppube) :
    Canon12 (sm9_u256_pairing TWIST_POINT_MONT_P2 ppube)
      ∧ dense (sm9_u256_pairing TWIST_POINT_MONT_P2 ppube) = Spec.SM9.pairing (toSpec ppube) Spec.SM9.P2 := by
  refine ⟨PR.canon _ _ p2_inG2 hv, ?_⟩
  rw [PR.value _ _ p2_inG2 hv, Thm.C13d.twist_generator_correct.2]

/-- g^r for r ≤ N − 1: no panic, and the octets are the standard's -/
theorem pairing_g_pow (PR : PairingRefines) (TD : TowerDense) (ppube : Point) (hv : Valid ppube) (r : Nat)
    (hr : r ≤ N - 1) :
    ∃ w, (sm9_u256_pairing TWIST_POINT_MONT_P2 ppube).pow r = .ok w
      ∧ w.to_bytes_be = Spec.SM9.Fp12.toBytes
          (Spec.SM9.Fp12.pow (Spec.SM9.pairing (toSpec ppube) Spec.SM9.P2) r) := by
  obtain ⟨hc, hd⟩ := pairing_g PR ppube hv
  obtain ⟨w, h1, _, _, h4⟩ := dense_pow TD _ hc r hr
  exact ⟨w, h1, by rw [h4, hd]⟩

/-- e(C, de) for a valid C and de ∈ G2, and its powers -/
theorem pairing_de (PR : PairingRefines) (de : TwistPoint) (hde : InG2 de) (c : Point) (hc : Valid c) :
    (sm9_u256_pairing de c).to_bytes_be = Spec.SM9.Fp12.toBytes (Spec.SM9.pairing (toSpec c) (toSpec2 de)) := by
  rw [to_bytes_dense _ (PR.canon _ _ hde hc), PR.value _ _ hde hc]

theorem pairing_de_pow (PR : PairingRefines) (TD : TowerDense) (de : TwistPoint) (hde : InG2 de) (c : Point)
    (hc : Valid c) (r : Nat) (hr : r ≤ N - 1) :
    ∃ w, (sm9_u256_pairing de c).pow r = .ok w
      ∧ w.to_bytes_be = Spec.SM9.Fp12.toBytes
          (Spec.SM9.Fp12.pow (Spec.SM9.pairing (toSpec c) (toSpec2 de)) r) := by
  obtain ⟨w, h1, _, _, h4⟩ := dense_pow TD _ (PR.canon _ _ hde hc) r hr
  exact ⟨w, h1, by rw [h4, PR.value _ _ hde hc]⟩

end GmVerif.Proofs.SM9EncRefinesBase
