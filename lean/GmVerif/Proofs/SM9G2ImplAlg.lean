/-
Generic (arbitrary field) identities behind the Jacobian point formulas of the gm-sm9 twist points
(`Impl.SM9.TwistPoint`): the a = 0 doubling (with the halving `fp_div2`) on coordinates (X, Y, Z), x = X/Z², y = Y/Z³.
The chord addition (`addX/addY/addZ`, `add_onCurve`, `add_x`, `add_y`, …) is generic in `a` and is taken from
`Proofs.SM2CurveAlg`.  No GmVerif model code here: pure algebra, used by `Proofs.SM9G2Impl`.
-/
import GmVerif.Proofs.SM2CurveAlg

namespace GmVerif.Proofs.SM9G2ImplAlg
open GmVerif.Proofs.SM2CurveAlg

variable {K : Type*} [Field K]

/-! ### the a = 0 doubling of the code (simplified form) -/

/-- `t2 = 3·X²` -/
def dblA0 (X : K) : K := 3 * X ^ 2
def dblX0 (X Y : K) : K := dblA0 X ^ 2 - 8 * (X * Y ^ 2)
def dblY0 (X Y : K) : K := dblA0 X * (4 * (X * Y ^ 2) - dblX0 X Y) - 8 * Y ^ 4

/-- the doubled point satisfies the Jacobian curve equation (a = 0), no side condition -/
theorem dbl0_onCurve (a b X Y Z : K) (ha : a = 0)
    (E : Y ^ 2 = X ^ 3 + a * X * Z ^ 4 + b * Z ^ 6) :
    dblY0 X Y ^ 2 = dblX0 X Y ^ 3 + a * dblX0 X Y * dblZ Y Z ^ 4 + b * dblZ Y Z ^ 6 := by
  subst ha
  simp only [dblY0, dblX0, dblZ, dblA0]
  linear_combination (64 * Y ^ 6) * E

theorem dbl0_x (a X Y Z : K) (ha : a = 0) (h2 : (2 : K) ≠ 0) (hZ : Z ≠ 0) (hY : Y ≠ 0) :
    dblX0 X Y / dblZ Y Z ^ 2
      = ((3 * (X / Z ^ 2) ^ 2 + a) / (2 * (Y / Z ^ 3))) ^ 2 - 2 * (X / Z ^ 2) := by
  subst ha
  simp only [dblX0, dblZ, dblA0]
  field_simp
  ring

theorem dbl0_y (a X Y Z x3 : K) (ha : a = 0) (h2 : (2 : K) ≠ 0) (hZ : Z ≠ 0) (hY : Y ≠ 0)
    (hx3 : x3 = dblX0 X Y / dblZ Y Z ^ 2) :
    dblY0 X Y / dblZ Y Z ^ 3
      = ((3 * (X / Z ^ 2) ^ 2 + a) / (2 * (Y / Z ^ 3))) * (X / Z ^ 2 - x3) - Y / Z ^ 3 := by
  subst ha hx3
  simp only [dblY0, dblX0, dblZ, dblA0]
  field_simp
  ring

/-- the halving step of the code: `y3 = (4Y²)² / 2` -/
theorem half_sq (Y : K) (_h2 : (2 : K) ≠ 0) : (2 * Y * (2 * Y)) * (2 * Y * (2 * Y)) * 2⁻¹ = 8 * Y ^ 4 := by
  field_simp
  ring

/-! ### no point of order two when −b is not a cube -/

/-- a point with Y = 0 on Y² = X³ + b·Z⁶ gives a cube root of −b -/
theorem no_two_torsion (b X Y Z : K) (hnc : ∀ t : K, t ^ 3 ≠ -b) (hZ : Z ≠ 0)
    (E : Y ^ 2 = X ^ 3 + (0 : K) * X * Z ^ 4 + b * Z ^ 6) : Y ≠ 0 := by
  intro hY
  apply hnc (X / Z ^ 2)
  rw [hY] at E
  field_simp
  linear_combination -E

/-- in the chord formulas, `S2 + S1 = 0` together with `S2 − S1 = 0` forces `Y1 = 0` (characteristic ≠ 2) -/
theorem y_zero_of_sum_diff (Y1 Z1 Y2 Z2 : K) (h2 : (2 : K) ≠ 0) (hZ2 : Z2 ≠ 0)
    (hR : addR Y1 Z1 Y2 Z2 = 0) (hS : Y2 * Z1 ^ 3 + Y1 * Z2 ^ 3 = 0) : Y1 = 0 := by
  simp only [addR] at hR
  have h : 2 * (Y1 * Z2 ^ 3) = 0 := by linear_combination hS - hR
  rcases mul_eq_zero.mp h with h | h
  · exact absurd h h2
  · rcases mul_eq_zero.mp h with h | h
    · exact h
    · exact absurd (pow_eq_zero_iff (by decide) |>.mp h) hZ2

/-! ### the opposite-point case falls through the generic formulas with Z3 = 0 -/

theorem addZ_of_H_zero (X1 Z1 X2 Z2 : K) (hH : addH X1 Z1 X2 Z2 = 0) : addZ X1 Z1 X2 Z2 = 0 := by
  simp only [addZ, hH, mul_zero]

/-! ### cross-multiplied equalities (for `point_equals`) -/

theorem cross_x_iff (X1 Z1 X2 Z2 : K) (hZ1 : Z1 ≠ 0) (hZ2 : Z2 ≠ 0) :
    X1 * Z2 ^ 2 = X2 * Z1 ^ 2 ↔ X1 / Z1 ^ 2 = X2 / Z2 ^ 2 := by
  rw [div_eq_div_iff (pow_ne_zero 2 hZ1) (pow_ne_zero 2 hZ2)]

theorem cross_y_iff (Y1 Z1 Y2 Z2 : K) (hZ1 : Z1 ≠ 0) (hZ2 : Z2 ≠ 0) :
    Y1 * Z2 ^ 3 = Y2 * Z1 ^ 3 ↔ Y1 / Z1 ^ 3 = Y2 / Z2 ^ 3 := by
  rw [div_eq_div_iff (pow_ne_zero 3 hZ1) (pow_ne_zero 3 hZ2)]

end GmVerif.Proofs.SM9G2ImplAlg
