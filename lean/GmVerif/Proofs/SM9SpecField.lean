/-
C12c, specification side, part 1: the quotient ring A = Fp[w]/(w¹² + 2) in which the specification's dense Fp12 is
interpreted (`Proofs.SM9Fp12.ev`) is a FIELD in Mathlib's sense (w¹² + 2 is irreducible: `hasInv_adjoin`), so that
`field_simp` is available; `ev` of the remaining ring operations of `Spec.SM9.Fp12` (`add`, `sub`, `neg`, `ofNat`, `zero`, `w`,
`ofFp2`); the factors killed by the final exponentiation as a multiplicative set of A.
-/
import Mathlib.Tactic.FieldSimp
import GmVerif.Proofs.SM9PairingReduce
set_option autoImplicit false
set_option linter.unnecessarySeqFocus false
namespace GmVerif.Proofs.SM9SpecField
open GmVerif GmVerif.Proofs.SM9Tower GmVerif.Proofs.SM9TowerDense GmVerif.Proofs.SM9PairingReduce
open GmVerif.Spec.SM9 (p finalExp)
open GmVerif.Proofs.SM9Fp12 (ev f Canon poly)
open Polynomial

/-- Fp[w]/(w¹² + 2) -/
abbrev A : Type := AdjoinRoot f

theorem f_ne_zero : f ≠ 0 := SM9Fp12.f_monic.ne_zero

/-- w¹² + 2 is irreducible over Fp (every non-zero class is invertible: `hasInv_adjoin`) -/
theorem f_irreducible : Irreducible f := by
  have hfield : IsField A :=
    { exists_pair_ne := ⟨0, 1, zero_ne_one⟩
      mul_comm := mul_comm
      mul_inv_cancel := fun {a} ha => hasInv_adjoin a ha }
  have hmax : (Ideal.span {f}).IsMaximal := Ideal.Quotient.maximal_of_isField _ hfield
  exact ((Ideal.span_singleton_prime f_ne_zero).1 hmax.isPrime).irreducible

instance factIrreducible : Fact (Irreducible f) := ⟨f_irreducible⟩

noncomputable instance fieldA : Field A := AdjoinRoot.instField

/-! ### `ev` of the ring operations -/

theorem ev_add (a c : Spec.SM9.Fp12) : ev (Spec.SM9.Fp12.add a c) = ev a + ev c := by
  rw [Spec.SM9.Fp12.add, SM9Fp12.ev_reduce, ev, SM9Fp12.poly_polyAdd, map_add]; rfl
theorem ev_sub (a c : Spec.SM9.Fp12) : ev (Spec.SM9.Fp12.sub a c) = ev a - ev c := by
  rw [Spec.SM9.Fp12.sub, SM9Fp12.ev_reduce, ev, SM9Fp12.poly_polySub, map_sub]; rfl
theorem ev_neg (a : Spec.SM9.Fp12) : ev (Spec.SM9.Fp12.neg a) = -ev a := by
  rw [Spec.SM9.Fp12.neg, SM9Fp12.ev_reduce, ev, SM9Fp12.poly_polyNeg, map_neg]; rfl
theorem ev_ofNat (x : Nat) : ev (Spec.SM9.Fp12.ofNat x) = ι (x : K) := by
  rw [Spec.SM9.Fp12.ofNat, SM9Fp12.ev_reduce, ev]
  simp only [SM9Fp12.poly_cons, SM9Fp12.poly_nil, mul_zero, add_zero, AdjoinRoot.mk_C]; rfl
theorem ev_w : ev Spec.SM9.Fp12.w = ω := by
  rw [Spec.SM9.Fp12.w, SM9Fp12.ev_reduce, ev]
  simp only [SM9Fp12.poly_cons, SM9Fp12.poly_nil, mul_zero, add_zero, Nat.cast_zero, Nat.cast_one, map_zero, map_one,
    zero_add, mul_one, AdjoinRoot.mk_X]; rfl
theorem ev_ofFp2 (a : Spec.SM9.Fp2) : ev (Spec.SM9.Fp12.ofFp2 a) = ι (a.1 : K) + ι (a.2 : K) * ω ^ 6 := by
  rw [Spec.SM9.Fp12.ofFp2, SM9Fp12.ev_reduce, ev]
  simp only [SM9Fp12.poly_cons, SM9Fp12.poly_nil, mul_zero, add_zero, Nat.cast_zero, map_zero, zero_add, map_add, map_mul,
    AdjoinRoot.mk_C, AdjoinRoot.mk_X, ι, ω]
  ring

theorem canon_add (a c : Spec.SM9.Fp12) : Canon (Spec.SM9.Fp12.add a c) := SM9Fp12.canon_reduce _
theorem canon_sub (a c : Spec.SM9.Fp12) : Canon (Spec.SM9.Fp12.sub a c) := SM9Fp12.canon_reduce _
theorem canon_neg (a : Spec.SM9.Fp12) : Canon (Spec.SM9.Fp12.neg a) := SM9Fp12.canon_reduce _
theorem canon_ofNat (x : Nat) : Canon (Spec.SM9.Fp12.ofNat x) := SM9Fp12.canon_reduce _
theorem canon_w : Canon Spec.SM9.Fp12.w := SM9Fp12.canon_reduce _
theorem canon_ofFp2 (a : Spec.SM9.Fp2) : Canon (Spec.SM9.Fp12.ofFp2 a) := SM9Fp12.canon_reduce _

/-- canonical representatives: equality of lists is equality in A -/
theorem eq_iff_ev {a c : Spec.SM9.Fp12} (ha : Canon a) (hc : Canon c) : a = c ↔ ev a = ev c :=
  ⟨fun h => by rw [h], SM9Fp12.ev_injective ha hc⟩

theorem eq_zero_iff_ev {a : Spec.SM9.Fp12} (ha : Canon a) : a = Spec.SM9.Fp12.zero ↔ ev a = 0 := by
  rw [eq_iff_ev ha canon_zero, ev_zero]

/-! ### the embeddings of Fp and Fp2 -/

theorem φ2_apply (x : F2) : φ2 x = ι x.c0 + ι x.c1 * ω ^ 6 := rfl

theorem φ2_of (k : K) : φ2 (Quad.of k) = ι k := by
  rw [φ2_apply]; simp

/-- `φ12` on the sparse line element l0 + l1·w² + l2·w³ -/
theorem φ12_lineElt (l0 l1 l2 : F2) : φ12 (lineElt l0 l1 l2) = φ2 l0 + φ2 l1 * ω ^ 2 + φ2 l2 * ω ^ 3 := by
  simp only [φ12, cubicLift_apply, φ4, quadLift_apply, lineElt, map_zero]
  ring

theorem ω_inv_mul : ω * ω⁻¹ = 1 := mul_inv_cancel₀ ω_ne_zero

/-! ### injectivity of the embeddings -/

theorem φ12_injective : Function.Injective φ12 := by
  intro x y h
  by_contra hne
  have hd : x - y ≠ 0 := sub_ne_zero.2 hne
  obtain ⟨z, hz⟩ := hasInvF12 (x - y) hd
  have := congrArg φ12 hz
  rw [map_mul, map_sub, h, sub_self, zero_mul, map_one] at this
  exact zero_ne_one this

theorem φ2_eq_φ12 (x : F2) : φ2 x = φ12 (Cubic.of (Quad.of x)) := by
  simp [φ12, cubicLift_apply, φ4, quadLift_apply]

theorem φ2_injective : Function.Injective φ2 := by
  intro x y h
  rw [φ2_eq_φ12, φ2_eq_φ12] at h
  have := φ12_injective h
  exact congrArg Quad.c0 (congrArg Cubic.c0 this)

theorem φ2_ne_zero {x : F2} (h : x ≠ 0) : φ2 x ≠ 0 := fun h0 => h (φ2_injective (by rw [h0, map_zero]))

/-! ### the factors killed by the final exponentiation -/

/-- non-zero and of final power one -/
def Killed (c : A) : Prop := c ≠ 0 ∧ c ^ finalExp = 1

theorem Killed.mul {a c : A} (ha : Killed a) (hc : Killed c) : Killed (a * c) :=
  ⟨mul_ne_zero ha.1 hc.1, by rw [mul_pow, ha.2, hc.2, mul_one]⟩
theorem Killed.pow {a : A} (ha : Killed a) (n : Nat) : Killed (a ^ n) :=
  ⟨pow_ne_zero _ ha.1, by rw [← pow_mul, Nat.mul_comm, pow_mul, ha.2, one_pow]⟩
theorem killed_one : Killed 1 := ⟨one_ne_zero, one_pow _⟩

/-- x^(p⁶) = x, x ≠ 0 ⟹ killed -/
theorem killed_of_fixed {x : A} (hx : x ≠ 0) (hfix : x ^ p ^ 6 = x) : Killed x := by
  refine ⟨hx, ?_⟩
  have h1 : x ^ (p ^ 6 - 1) = 1 := by
    have hf : x ^ ((p ^ 6 - 1) + 1) = x := by rw [← p6_split]; exact hfix
    exact pow_pred_eq_one hasInv_adjoin x _ hf hx
  rw [finalExp_factor, pow_mul, h1, one_pow]

theorem even_cofactor : ∃ m, (p ^ 2 + 1) * ((p ^ 4 - p ^ 2 + 1) / Spec.SM9.N) = 2 * m :=
  ⟨(p ^ 2 + 1) / 2 * ((p ^ 4 - p ^ 2 + 1) / Spec.SM9.N), by
    have h : p ^ 2 + 1 = 2 * ((p ^ 2 + 1) / 2) := by decide +kernel
    rw [← Nat.mul_assoc, ← h]⟩

/-- x^(p⁶) = −x, x ≠ 0 ⟹ killed ((p¹²−1)/N = (p⁶−1)·(even number)) -/
theorem killed_of_anti {x : A} (hx : x ≠ 0) (hanti : x ^ p ^ 6 = -x) : Killed x := by
  refine ⟨hx, ?_⟩
  have h1 : x ^ (p ^ 6 - 1) = -1 := by
    have hf : x ^ (p ^ 6 - 1) * x = -x := by rw [← pow_succ, ← p6_split]; exact hanti
    have : (x ^ (p ^ 6 - 1) + 1) * x = 0 := by linear_combination hf
    rcases mul_eq_zero.1 this with h | h
    · linear_combination h
    · exact absurd h hx
  obtain ⟨m, hm⟩ := even_cofactor
  rw [finalExp_factor, pow_mul, h1, hm, pow_mul]
  norm_num

/-- the p⁶-power map on the image of the tower is `frobA (α⁶)`, α⁶ = −1 -/
theorem φ12_pow_p6 (x : F12) : φ12 x ^ p ^ 6 = φ12 (frobA (α ^ 6) x) := by
  rw [← map_pow, f12_pow]

/-- every non-zero Fp2-scalar is killed -/
theorem killed_φ2 {s : F2} (hs : s ≠ 0) : Killed (φ2 s) := by
  apply killed_of_fixed (φ2_ne_zero hs)
  rw [φ2_eq_φ12, φ12_pow_p6, SM9FrobAll.α_pow_6]
  congr 1
  ext <;> simp [frobA] <;> ring

theorem φ12_w' : φ12 (w : F12) = ω := φ12_w

/-- ω³ is killed (it lies in Fp4 = Fp[w³], and (w³)^(p⁶) = −w³) -/
theorem killed_ω3 : Killed (ω ^ 3) := by
  apply killed_of_anti (pow_ne_zero _ ω_ne_zero)
  rw [← φ12_w', ← map_pow, φ12_pow_p6, SM9FrobAll.α_pow_6, ← map_neg]
  congr 1

/-- ω² is killed (it lies in Fp6 = Fp[w²]) -/
theorem killed_ω2 : Killed (ω ^ 2) := by
  apply killed_of_fixed (pow_ne_zero _ ω_ne_zero)
  rw [← φ12_w', ← map_pow, φ12_pow_p6, SM9FrobAll.α_pow_6]
  congr 1

end GmVerif.Proofs.SM9SpecField
