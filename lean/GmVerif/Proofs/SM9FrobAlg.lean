/-
The p^k-power maps of the abstract tower (C12b, part 1a): in `F12 = Cubic (Quad (Quad (ZMod p) (-2)) u) v` (a commutative
ring of characteristic p) the map x ↦ x^(p^k) is coefficient-wise: the coefficient of wⁱ vʲ uˡ (= w^(i+3j+6l)) is
multiplied by (α^k)^(i+3j+6l), α = (−2)^((p−1)/12) ∈ Fp.  No model code here.

Route: x ↦ x^(p^k) is additive in characteristic p (`add_pow_char_pow`), fixes Fp (`ZMod.pow_card_pow`), and
u^p = (u²)^((p−1)/2)·u = α⁶·u, v^p = (v⁴)^((p−1)/4)·v = α³·v, w^p = (w¹²)^((p−1)/12)·w = α·w.
-/
import GmVerif.Proofs.SM9TowerNonRes
set_option autoImplicit false
namespace GmVerif.Proofs.SM9Tower
open GmVerif
open GmVerif.Spec.SM9 (p)

/-! ### the embeddings as ring homomorphisms; characteristic -/

section homs
variable {L : Type} [CommRing L]

/-- `Quad.of` as a ring homomorphism -/
def Quad.ofHom (β : L) : L →+* Quad L β where
  toFun := Quad.of
  map_one' := rfl
  map_mul' := Quad.of_mul
  map_zero' := rfl
  map_add' := Quad.of_add

/-- `Cubic.of` as a ring homomorphism -/
def Cubic.ofHom (ξ : L) : L →+* Cubic L ξ where
  toFun := Cubic.of
  map_one' := rfl
  map_mul' := Cubic.of_mul
  map_zero' := rfl
  map_add' a b := by ext <;> simp

theorem Quad.ofHom_apply (β : L) (a : L) : Quad.ofHom β a = Quad.of a := rfl
theorem Cubic.ofHom_apply (ξ : L) (a : L) : Cubic.ofHom ξ a = Cubic.of a := rfl

theorem Quad.of_injective (β : L) : Function.Injective (Quad.ofHom β) := fun _ _ h => congrArg Quad.c0 h
theorem Cubic.of_injective (ξ : L) : Function.Injective (Cubic.ofHom ξ) := fun _ _ h => congrArg Cubic.c0 h

theorem Quad.of_pow {β : L} (a : L) (n : Nat) : (Quad.of (a ^ n) : Quad L β) = Quad.of a ^ n :=
  map_pow (Quad.ofHom β) a n
theorem Cubic.of_pow {ξ : L} (a : L) (n : Nat) : (Cubic.of (a ^ n) : Cubic L ξ) = Cubic.of a ^ n :=
  map_pow (Cubic.ofHom ξ) a n

theorem Quad.charP (β : L) (q : Nat) [CharP L q] : CharP (Quad L β) q :=
  charP_of_injective_ringHom (Quad.of_injective β) q
theorem Cubic.charP (ξ : L) (q : Nat) [CharP L q] : CharP (Cubic L ξ) q :=
  charP_of_injective_ringHom (Cubic.of_injective ξ) q

theorem Quad.mul_of {β : L} (x : Quad L β) (e : L) : x * Quad.of e = ⟨x.c0 * e, x.c1 * e⟩ := by
  ext <;> simp

theorem Quad.mul_of_of {β : L} {γ : Quad L β} (y : Quad (Quad L β) γ) (e : L) :
    y * Quad.of (Quad.of e) = ⟨⟨y.c0.c0 * e, y.c0.c1 * e⟩, ⟨y.c1.c0 * e, y.c1.c1 * e⟩⟩ := by
  ext <;> simp

theorem Quad.of_add_of_mul_root {β : L} (a b c : L) :
    (Quad.of a + Quad.of b * (Quad.of c * Quad.root) : Quad L β) = ⟨a, b * c⟩ := by
  ext <;> simp

theorem Cubic.of_add_of_mul_root {ξ : L} (a b d c : L) :
    (Cubic.of a + Cubic.of b * (Cubic.of c * Cubic.root)
      + Cubic.of d * (Cubic.of c * Cubic.root * (Cubic.of c * Cubic.root)) : Cubic L ξ) = ⟨a, b * c, d * (c * c)⟩ := by
  ext <;> simp

/-- x ↦ x^(q^k) on `Quad`, characteristic q, when root^(q^k) = c·root -/
theorem Quad.pow_char_pow {β : L} (q k : Nat) [Fact q.Prime] [CharP L q] (x : Quad L β) (c : L)
    (hc : (Quad.root : Quad L β) ^ q ^ k = Quad.of c * Quad.root) :
    x ^ q ^ k = ⟨x.c0 ^ q ^ k, x.c1 ^ q ^ k * c⟩ := by
  have := Quad.charP β q
  conv_lhs => rw [Quad.eq_of_add_root x]
  rw [add_pow_char_pow, mul_pow, ← Quad.of_pow, ← Quad.of_pow, hc, Quad.of_add_of_mul_root]

/-- x ↦ x^(q^k) on `Cubic`, characteristic q, when root^(q^k) = c·root -/
theorem Cubic.pow_char_pow {ξ : L} (q k : Nat) [Fact q.Prime] [CharP L q] (x : Cubic L ξ) (c : L)
    (hc : (Cubic.root : Cubic L ξ) ^ q ^ k = Cubic.of c * Cubic.root) :
    x ^ q ^ k = ⟨x.c0 ^ q ^ k, x.c1 ^ q ^ k * c, x.c2 ^ q ^ k * (c * c)⟩ := by
  have := Cubic.charP ξ q
  conv_lhs => rw [Cubic.eq_of_add_root x]
  rw [add_pow_char_pow, add_pow_char_pow, mul_pow, mul_pow, mul_pow, ← Cubic.of_pow, ← Cubic.of_pow, ← Cubic.of_pow, hc,
    Cubic.of_add_of_mul_root]

end homs

/-! ### the tower has characteristic p -/

instance factPrimeP : Fact (Nat.Prime p) := ⟨Proofs.Primes.sm9_p_prime⟩
instance charF2 : CharP F2 p := Quad.charP _ p
instance charF4 : CharP F4 p := Quad.charP _ p
instance charF12 : CharP F12 p := Cubic.charP _ p

/-- Fp → Fp2 → Fp4 → Fp12 -/
def κ2 : K →+* F2 := Quad.ofHom _
def κ4 : K →+* F4 := (Quad.ofHom _).comp κ2
def κ12 : K →+* F12 := (Cubic.ofHom _).comp κ4

theorem κ2_apply (a : K) : κ2 a = Quad.of a := rfl
theorem κ4_apply (a : K) : κ4 a = Quad.of (Quad.of a) := rfl
theorem κ12_apply (a : K) : κ12 a = Cubic.of (Quad.of (Quad.of a)) := rfl

/-- if r^p = κ(a)·r for a in the prime field then r^(p^k) = κ(a^k)·r -/
theorem root_pow_iter {R : Type} [CommRing R] (κ : K →+* R) (r : R) (a : K) (h : r ^ p = κ a * r) (k : Nat) :
    r ^ p ^ k = κ (a ^ k) * r := by
  induction k with
  | zero => simp
  | succ k ih =>
    rw [pow_succ, pow_mul, ih, mul_pow, h, ← map_pow, ZMod.pow_card, pow_succ, map_mul]
    ring

/-! ### the constant α -/

/-- α = (−2)^((p−1)/12) -/
def α : K := (-2) ^ ((p - 1) / 12)

theorem p_eq_12 : p = 12 * ((p - 1) / 12) + 1 := by decide
theorem p_eq_4 : p = 4 * (3 * ((p - 1) / 12)) + 1 := by decide
theorem p_eq_2 : p = 2 * (6 * ((p - 1) / 12)) + 1 := by decide

theorem neg_two_ne_zero : (-2 : K) ≠ 0 := neg_ne_zero.2 two_ne_zero'

theorem α_pow_12 : α ^ 12 = 1 := by
  have h := ZMod.pow_card_sub_one_eq_one neg_two_ne_zero
  rw [α, ← pow_mul, Nat.mul_comm]
  have e : 12 * ((p - 1) / 12) = p - 1 := by decide
  rw [e]; exact h

theorem pow_split {R : Type} [Monoid R] (r : R) {n m e : Nat} (he : e = n * m + 1) : r ^ e = (r ^ n) ^ m * r := by
  subst he; rw [pow_succ, pow_mul]

/-- u^p = α⁶·u in Fp2 -/
theorem u_pow_p : (u : F2) ^ p = κ2 (α ^ 6) * u := by
  have h2 : (u : F2) ^ 2 = κ2 (-2) := by rw [pow_two]; exact Quad.root_sq
  rw [pow_split u p_eq_2, h2, ← map_pow, α, ← pow_mul, Nat.mul_comm]

/-- v^p = α³·v in Fp4 -/
theorem v_pow_p : (v : F4) ^ p = κ4 (α ^ 3) * v := by
  have h4 : (v : F4) ^ 4 = κ4 (-2) := by
    have : (v : F4) ^ 4 = (v * v) * (v * v) := by ring
    rw [this, v_sq, ← Quad.of_mul, u_sq]; rfl
  rw [pow_split v p_eq_4, h4, ← map_pow, α, ← pow_mul, Nat.mul_comm]

/-- w^p = α·w in Fp12 -/
theorem w_pow_p : (w : F12) ^ p = κ12 α * w := by
  have h12 : (w : F12) ^ 12 = κ12 (-2) := by
    have : (w : F12) ^ 12 = (w * w * w) * (w * w * w) * ((w * w * w) * (w * w * w)) := by ring
    rw [this, w_cube, ← Cubic.of_mul, ← Cubic.of_mul, v_sq, ← Quad.of_mul, u_sq]; rfl
  rw [pow_split w p_eq_12, h12, ← map_pow, α]

/-! ### x ↦ x^(p^k), coefficient-wise -/

/-- multiply the coefficient of w^n by a^n (tower coordinates: n = i + 3j + 6l) -/
def frobA (a : K) (x : F12) : F12 :=
  ⟨⟨⟨x.c0.c0.c0, a ^ 6 * x.c0.c0.c1⟩, ⟨a ^ 3 * x.c0.c1.c0, a ^ 9 * x.c0.c1.c1⟩⟩,
   ⟨⟨a * x.c1.c0.c0, a ^ 7 * x.c1.c0.c1⟩, ⟨a ^ 4 * x.c1.c1.c0, a ^ 10 * x.c1.c1.c1⟩⟩,
   ⟨⟨a ^ 2 * x.c2.c0.c0, a ^ 8 * x.c2.c0.c1⟩, ⟨a ^ 5 * x.c2.c1.c0, a ^ 11 * x.c2.c1.c1⟩⟩⟩

theorem f2_pow (k : Nat) (z : F2) : z ^ p ^ k = ⟨z.c0, (α ^ k) ^ 6 * z.c1⟩ := by
  rw [Quad.pow_char_pow p k z _ (root_pow_iter κ2 u (α ^ 6) u_pow_p k), ZMod.pow_card_pow, ZMod.pow_card_pow]
  ext
  · rfl
  · show z.c1 * (α ^ 6) ^ k = (α ^ k) ^ 6 * z.c1
    ring

theorem f4_pow (k : Nat) (y : F4) :
    y ^ p ^ k = ⟨⟨y.c0.c0, (α ^ k) ^ 6 * y.c0.c1⟩, ⟨(α ^ k) ^ 3 * y.c1.c0, (α ^ k) ^ 9 * y.c1.c1⟩⟩ := by
  rw [Quad.pow_char_pow p k y _ (root_pow_iter κ4 v (α ^ 3) v_pow_p k), f2_pow, f2_pow, κ2_apply, Quad.mul_of]
  ext
  · rfl
  · rfl
  · show y.c1.c0 * (α ^ 3) ^ k = (α ^ k) ^ 3 * y.c1.c0
    ring
  · show (α ^ k) ^ 6 * y.c1.c1 * (α ^ 3) ^ k = (α ^ k) ^ 9 * y.c1.c1
    ring

/-- THE ALGEBRAIC FACT: the p^k-power map of Fp12 in tower coordinates -/
theorem f12_pow (k : Nat) (x : F12) : x ^ p ^ k = frobA (α ^ k) x := by
  rw [Cubic.pow_char_pow p k x _ (root_pow_iter κ12 w α w_pow_p k), f4_pow, f4_pow, f4_pow, κ4_apply, ← Quad.of_mul, ← Quad.of_mul,
    Quad.mul_of_of, Quad.mul_of_of, frobA]
  ext
  all_goals (simp only []; try ring)

theorem f12_pow_p (x : F12) : x ^ p = frobA α x := by
  have h := f12_pow 1 x
  rwa [pow_one, pow_one] at h

end GmVerif.Proofs.SM9Tower
