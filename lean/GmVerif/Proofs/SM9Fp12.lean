/-
GT of SM9: the dense `Spec.SM9.Fp12` (lists of 12 naturals, product of integer polynomials followed by folding
w¹² = −2) computes in Mathlib's quotient ring `AdjoinRoot (X¹² + 2)` over `ZMod p`:
`ev (Fp12.mul a c) = ev a * ev c`, `ev (Fp12.pow a e) = ev a ^ e`, every result is the canonical representative
(12 coefficients in [0, p)), and canonical representatives are unique.  Consequences on the Spec functions only:
`mul` is commutative and associative, `pow` obeys the power laws, and `pow g` is periodic once `pow g n = one`.
Irreducibility of w¹² + 2 is not needed (no inverses are involved).
-/
import Mathlib.RingTheory.AdjoinRoot
import Mathlib.Tactic.Ring
import Mathlib.Tactic.LinearCombination
import GmVerif.Proofs.SpecEC
import GmVerif.Proofs.Primes
import GmVerif.Spec.SM9

namespace GmVerif.Proofs.SM9Fp12
open GmVerif GmVerif.Spec.SM9
open Polynomial

instance : Fact (Nat.Prime p) := ⟨Proofs.Primes.sm9_p_prime⟩
instance : NeZero p := ⟨by decide⟩
theorem p_pos : 0 < p := by decide

/-- the polynomial with the given little-endian coefficient list -/
noncomputable def poly : List Nat → (ZMod p)[X]
  | [] => 0
  | x :: xs => C (x : ZMod p) + X * poly xs

@[simp] theorem poly_nil : poly [] = 0 := rfl
@[simp] theorem poly_cons (x : Nat) (xs : List Nat) : poly (x :: xs) = C (x : ZMod p) + X * poly xs := rfl

theorem poly_append (a c : List Nat) : poly (a ++ c) = poly a + X ^ a.length * poly c := by
  induction a with
  | nil => simp
  | cons x xs ih => simp only [List.cons_append, poly_cons, ih, List.length_cons]; ring

theorem poly_replicate_zero (n : Nat) : poly (List.replicate n 0) = 0 := by
  induction n with
  | zero => rfl
  | succ n ih => simp [List.replicate_succ, ih]

theorem poly_padTo (n : Nat) (a : List Nat) : poly (padTo n a) = poly a := by
  simp [padTo, poly_append, poly_replicate_zero]

theorem poly_map_mod (a : List Nat) : poly (a.map (· % p)) = poly a := by
  induction a with
  | nil => rfl
  | cons x xs ih => simp [ih, ZMod.natCast_mod]

theorem poly_rawAdd (a c : List Nat) : poly (rawAdd a c) = poly a + poly c := by
  induction a generalizing c with
  | nil => simp [rawAdd]
  | cons x xs ih =>
    cases c with
    | nil => simp [rawAdd]
    | cons y ys => simp only [rawAdd, poly_cons, ih]; push_cast; simp only [C_add]; ring

theorem poly_map_mul (x : Nat) (c : List Nat) : poly (c.map (x * ·)) = C (x : ZMod p) * poly c := by
  induction c with
  | nil => simp
  | cons y ys ih => simp only [List.map_cons, poly_cons, ih]; push_cast; simp only [C_mul]; ring

theorem poly_rawMul (a c : List Nat) : poly (rawMul a c) = poly a * poly c := by
  induction a with
  | nil => simp [rawMul]
  | cons x xs ih =>
    simp only [rawMul, poly_rawAdd, poly_map_mul, poly_cons, ih]
    simp; ring

theorem poly_polyNeg (a : List Nat) : poly (polyNeg a) = - poly a := by
  induction a with
  | nil => simp [polyNeg]
  | cons x xs ih =>
    have ih' : poly (List.map (fun x => (p - x % p) % p) xs) = - poly xs := ih
    simp only [polyNeg, List.map_cons, poly_cons, ih']
    rw [ZMod.natCast_mod, SpecEC.cast_sub_mod]
    simp only [C_neg]; ring

theorem poly_polyScale (k : Nat) (a : List Nat) : poly (polyScale k a) = C (k : ZMod p) * poly a := by
  induction a with
  | nil => simp [polyScale]
  | cons x xs ih =>
    have ih' : poly (List.map (fun x => k * x % p) xs) = C (k : ZMod p) * poly xs := ih
    simp only [polyScale, List.map_cons, poly_cons, ih']
    rw [ZMod.natCast_mod]; push_cast; simp only [C_mul]; ring

theorem poly_zipWith_add (a c : List Nat) (h : a.length = c.length) :
    poly (List.zipWith (fun x y => (x + y) % p) a c) = poly a + poly c := by
  induction a generalizing c with
  | nil => cases c with
    | nil => simp
    | cons _ _ => simp at h
  | cons x xs ih =>
    cases c with
    | nil => simp at h
    | cons y ys =>
      simp only [List.zipWith_cons_cons, poly_cons, ih ys (by simpa using h)]
      rw [ZMod.natCast_mod]; push_cast; simp only [C_add]; ring

theorem length_padTo (n : Nat) (a : List Nat) (h : a.length ≤ n) : (padTo n a).length = n := by
  simp [padTo]; omega

theorem poly_polyAdd (a c : List Nat) : poly (polyAdd a c) = poly a + poly c := by
  simp only [polyAdd]
  rw [poly_zipWith_add _ _ (by rw [length_padTo _ _ (by omega), length_padTo _ _ (by omega)]),
    poly_padTo, poly_padTo]

theorem poly_polySub (a c : List Nat) : poly (polySub a c) = poly a - poly c := by
  rw [polySub, poly_polyAdd, poly_polyNeg, sub_eq_add_neg]

/-! ### Fp12 = Fp[w]/(w¹² + 2) -/

/-- the defining polynomial -/
noncomputable def f : (ZMod p)[X] := X ^ 12 + C 2

/-- the value of a coefficient list in Fp[w]/(w¹² + 2) -/
noncomputable def ev (a : List Nat) : AdjoinRoot f := AdjoinRoot.mk f (poly a)

theorem f_monic : f.Monic := monic_X_pow_add_C 2 (by norm_num)
theorem f_degree : f.degree = 12 := by
  have := degree_X_pow_add_C (R := ZMod p) (n := 12) (by norm_num) 2
  simpa [f] using this

theorem mk_X_pow_12 : AdjoinRoot.mk f (X ^ 12) = -2 := by
  have h : AdjoinRoot.mk f (X ^ 12 + C 2) = 0 := AdjoinRoot.mk_self
  rw [map_add, AdjoinRoot.mk_C, map_ofNat] at h
  exact eq_neg_of_add_eq_zero_left h

theorem ev_fold (a : List Nat) (h : 12 ≤ a.length) :
    ev (polySub (a.take 12) (polyScale 2 (a.drop 12))) = ev a := by
  have hlen : (a.take 12).length = 12 := by simp; omega
  have hsplit := poly_append (a.take 12) (a.drop 12)
  rw [List.take_append_drop, hlen] at hsplit
  simp only [ev, poly_polySub, poly_polyScale, hsplit, map_sub, map_add, map_mul, mk_X_pow_12]
  rw [AdjoinRoot.mk_C]; push_cast; rw [map_ofNat]; ring

theorem length_polySub (a c : List Nat) : (polySub a c).length = max a.length c.length := by
  simp only [polySub, polyAdd, polyNeg, List.length_zipWith, List.length_map]
  rw [length_padTo _ _ (by omega), length_padTo _ _ (by simp)]
  simp

theorem lt_of_mem_polySub (a c : List Nat) : ∀ x ∈ polySub a c, x < p := by
  intro x hx
  simp only [polySub, polyAdd] at hx
  rw [List.mem_iff_getElem] at hx
  obtain ⟨i, hi, rfl⟩ := hx
  rw [List.getElem_zipWith]
  exact Nat.mod_lt _ p_pos

/-- with enough fuel the folding loop preserves the value, ends with at most 12 coefficients, all reduced -/
theorem reduceAux_spec (fuel : Nat) (a : List Nat) (hf : a.length ≤ fuel + 12) (ha : ∀ x ∈ a, x < p) :
    ev (reduceAux fuel a) = ev a ∧ (reduceAux fuel a).length ≤ 12 ∧ ∀ x ∈ reduceAux fuel a, x < p := by
  induction fuel generalizing a with
  | zero =>
    have : a.take 12 = a := List.take_of_length_le (by omega)
    rw [reduceAux, this]
    exact ⟨rfl, by omega, ha⟩
  | succ fuel ih =>
    rw [reduceAux]
    split
    · next h => exact ⟨rfl, h, ha⟩
    · next h =>
      have hlen : (polySub (a.take 12) (polyScale 2 (a.drop 12))).length ≤ fuel + 12 := by
        rw [length_polySub]; simp [polyScale]; omega
      obtain ⟨h1, h2, h3⟩ := ih _ hlen (lt_of_mem_polySub _ _)
      exact ⟨h1.trans (ev_fold a (by omega)), h2, h3⟩

/-- canonical representative: 12 coefficients in [0, p) -/
def Canon (a : List Nat) : Prop := a.length = 12 ∧ ∀ x ∈ a, x < p

theorem reduce_spec (a : List Nat) : ev (reduce a) = ev a ∧ Canon (reduce a) := by
  have hm : ∀ x ∈ a.map (· % p), x < p := by
    intro x hx
    rw [List.mem_map] at hx
    obtain ⟨y, _, rfl⟩ := hx
    exact Nat.mod_lt _ p_pos
  obtain ⟨h1, h2, h3⟩ := reduceAux_spec a.length (a.map (· % p)) (by simp) hm
  refine ⟨?_, ?_, ?_⟩
  · simp only [reduce, ev, poly_padTo]
    have := h1
    simp only [ev, poly_map_mod] at this
    exact this
  · rw [reduce, length_padTo _ _ h2]
  · intro x hx
    simp only [reduce, padTo, List.mem_append, List.mem_replicate] at hx
    rcases hx with hx | ⟨_, rfl⟩
    · exact h3 x hx
    · exact p_pos

theorem ev_reduce (a : List Nat) : ev (reduce a) = ev a := (reduce_spec a).1
theorem canon_reduce (a : List Nat) : Canon (reduce a) := (reduce_spec a).2

/-! ### canonical representatives are unique -/

theorem coeff_poly_of_le (a : List Nat) (m : Nat) (h : a.length ≤ m) : (poly a).coeff m = 0 := by
  induction a generalizing m with
  | nil => simp
  | cons x xs ih =>
    cases m with
    | zero => simp at h
    | succ k =>
      simp only [poly_cons, coeff_add, coeff_C_succ, coeff_X_mul, zero_add]
      exact ih k (by simpa using h)

theorem degree_poly_lt (a : List Nat) : (poly a).degree < a.length :=
  (degree_lt_iff_coeff_zero _ _).mpr (coeff_poly_of_le a)

theorem poly_injective (a c : List Nat) (hl : a.length = c.length) (ha : ∀ x ∈ a, x < p)
    (hc : ∀ x ∈ c, x < p) (h : poly a = poly c) : a = c := by
  induction a generalizing c with
  | nil => cases c with
    | nil => rfl
    | cons _ _ => simp at hl
  | cons x xs ih =>
    cases c with
    | nil => simp at hl
    | cons y ys =>
      simp only [poly_cons] at h
      have h0 := congrArg (fun q => coeff q 0) h
      simp only [coeff_add, coeff_C_zero, coeff_X_mul_zero, add_zero] at h0
      have hxy : x = y := by
        have := (ZMod.natCast_eq_natCast_iff' _ _ _).mp h0
        rwa [Nat.mod_eq_of_lt (ha x (by simp)), Nat.mod_eq_of_lt (hc y (by simp))] at this
      have ht : poly xs = poly ys := by
        ext n
        have hn := congrArg (fun q => coeff q (n + 1)) h
        simpa [coeff_C_succ, coeff_X_mul] using hn
      rw [hxy, ih ys (by simpa using hl) (fun z hz => ha z (by simp [hz]))
        (fun z hz => hc z (by simp [hz])) ht]

theorem ev_injective {a c : List Nat} (ha : Canon a) (hc : Canon c) (h : ev a = ev c) : a = c := by
  apply poly_injective a c (ha.1.trans hc.1.symm) ha.2 hc.2
  rw [ev, ev, AdjoinRoot.mk_eq_mk] at h
  have hd : (poly a - poly c).degree < f.degree := by
    rw [f_degree]
    refine lt_of_le_of_lt (degree_sub_le _ _) (max_lt ?_ ?_)
    · have := degree_poly_lt a; rw [ha.1] at this; exact_mod_cast this
    · have := degree_poly_lt c; rw [hc.1] at this; exact_mod_cast this
  exact sub_eq_zero.mp (eq_zero_of_dvd_of_degree_lt h hd)

/-! ### multiplication and powers -/

theorem ev_mul (a c : Fp12) : ev (Fp12.mul a c) = ev a * ev c := by
  rw [Fp12.mul, ev_reduce, ev, poly_rawMul, map_mul]; rfl

theorem canon_mul (a c : Fp12) : Canon (Fp12.mul a c) := canon_reduce _

theorem ev_one : ev Fp12.one = 1 := by
  rw [Fp12.one, Fp12.ofNat, ev_reduce]; simp [ev]

theorem canon_one : Canon Fp12.one := canon_reduce _

theorem pow_spec (a : Fp12) (e : Nat) : ev (Fp12.pow a e) = ev a ^ e ∧ Canon (Fp12.pow a e) := by
  induction e using Nat.strong_induction_on with
  | _ e ih =>
    rw [Fp12.pow]
    split
    · next h => subst h; exact ⟨by rw [ev_one, pow_zero], canon_one⟩
    · next h =>
      obtain ⟨ih1, _⟩ := ih (e / 2) (by omega)
      have he : ev a ^ e = ev a ^ (e / 2) * ev a ^ (e / 2) * ev a ^ (e % 2) := by
        rw [← pow_add, ← pow_add]; congr 1; omega
      split
      · next h1 =>
        refine ⟨?_, canon_mul _ _⟩
        rw [ev_mul, ev_mul, ih1, he, h1, pow_one]
      · next h0 =>
        refine ⟨?_, canon_mul _ _⟩
        have h00 : e % 2 = 0 := by omega
        rw [ev_mul, ih1, he, h00, pow_zero, _root_.mul_one]

theorem ev_pow (a : Fp12) (e : Nat) : ev (Fp12.pow a e) = ev a ^ e := (pow_spec a e).1
theorem canon_pow (a : Fp12) (e : Nat) : Canon (Fp12.pow a e) := (pow_spec a e).2

/-! ### laws on the Spec functions -/

theorem mul_comm (a c : Fp12) : Fp12.mul a c = Fp12.mul c a :=
  ev_injective (canon_mul _ _) (canon_mul _ _) (by rw [ev_mul, ev_mul, _root_.mul_comm])

theorem mul_assoc (a c d : Fp12) : Fp12.mul (Fp12.mul a c) d = Fp12.mul a (Fp12.mul c d) :=
  ev_injective (canon_mul _ _) (canon_mul _ _) (by simp only [ev_mul, _root_.mul_assoc])

theorem mul_one (a : Fp12) (ha : Canon a) : Fp12.mul a Fp12.one = a :=
  ev_injective (canon_mul _ _) ha (by rw [ev_mul, ev_one, _root_.mul_one])

theorem pow_pow (g : Fp12) (a b : Nat) : Fp12.pow (Fp12.pow g a) b = Fp12.pow g (a * b) :=
  ev_injective (canon_pow _ _) (canon_pow _ _) (by simp only [ev_pow, ← _root_.pow_mul])

theorem pow_mul (g : Fp12) (a b : Nat) :
    Fp12.mul (Fp12.pow g a) (Fp12.pow g b) = Fp12.pow g (a + b) :=
  ev_injective (canon_mul _ _) (canon_pow _ _) (by simp only [ev_mul, ev_pow, ← _root_.pow_add])

/-- `pow g` has period `n` as soon as `pow g n = one` -/
theorem pow_mod_of_order (g : Fp12) (n : Nat) (h : Fp12.pow g n = Fp12.one) (k : Nat) :
    Fp12.pow g k = Fp12.pow g (k % n) := by
  apply ev_injective (canon_pow _ _) (canon_pow _ _)
  have hn : ev g ^ n = 1 := by rw [← ev_pow, h, ev_one]
  rw [ev_pow, ev_pow]
  conv_lhs => rw [← Nat.div_add_mod k n, _root_.pow_add, _root_.pow_mul, hn, one_pow, _root_.one_mul]

end GmVerif.Proofs.SM9Fp12
