/-
C11 (level L3), part 1: the hypothesis bundle `Proofs.SM2Curve.FieldFacts` is discharged (from the limb/Montgomery
proofs of C11a and the primality certificate), the L2 point theorems are restated without it, and the 4-bit window
scalar multiplication `Point.scalar_mul` is correct for every valid representation and EVERY 256-bit scalar.
-/
import GmVerif.Proofs.SM2Curve
import GmVerif.Proofs.SM2CurveTors
import GmVerif.Proofs.SM2Field
import GmVerif.Proofs.Primes
import GmVerif.Proofs.SM2Algebra
import Mathlib.Tactic.IntervalCases

namespace GmVerif.Proofs.SM2Scalar
open GmVerif
open GmVerif.Impl.SM2 (Point fp_mul fp_add fp_sub fp_inv fp_pow fp_to_mont fp_from_mont preTable nibblesMSB)
open GmVerif.Proofs.SM2Curve

/-! ### Step 1: the field facts -/

theorem p_prime : Nat.Prime Spec.SM2.p := Proofs.Primes.sm2_p_prime
theorem n_prime : Nat.Prime Spec.SM2.n := Proofs.Primes.sm2_n_prime

instance factP : Fact (Nat.Prime Spec.SM2.p) := ⟨p_prime⟩
instance factCurveP : Fact (Nat.Prime Spec.SM2.curve.p) := ⟨p_prime⟩

open GmVerif.Gen.SM2 (P P_MINUS_TWO MODP_MONT_ONE) in
/-- `fp_inv` on a canonical operand: Fermat inverse in the Montgomery domain -/
theorem fp_inv_correct (a : Nat) (ha : a < P) :
    fp_inv a < P ∧ (a ≠ 0 → fp_mul a (fp_inv a) = MODP_MONT_ONE) ∧ (a = 0 → fp_inv a = 0) := by
  have hP : Nat.Prime P := by rw [SM2Field.P_eq]; exact p_prime
  have hpos : 0 < P := SM2Field.P_range.1
  -- a is the Montgomery representative of A
  have hA : (a * SM2Field.RinvP % P) * 2 ^ 256 % P = a := by
    have h1 : a * SM2Field.RinvP % P * 2 ^ 256 % P = a * (2 ^ 256 * SM2Field.RinvP) % P := by
      rw [Nat.mod_mul_mod, Nat.mul_assoc, Nat.mul_comm SM2Field.RinvP]
    rw [h1, Nat.mul_mod, SM2Field.RinvP_spec, ← Nat.mul_mod, Nat.mul_one, Nat.mod_eq_of_lt ha]
  generalize a * SM2Field.RinvP % P = A at hA
  have hm2 : P_MINUS_TWO % 2 ^ 256 = P - 2 := by
    rw [SM2Field.P_m2]; exact Nat.mod_eq_of_lt (by have := SM2Field.P_range; omega)
  have hinv : fp_inv a = A ^ (P - 2) * 2 ^ 256 % P := by
    rw [Impl.SM2.fp_inv, ← hA, SM2Field.fp_pow_correct, hm2]
  refine ⟨by rw [hinv]; exact Nat.mod_lt _ hpos, ?_, ?_⟩
  · intro hne
    have hA0 : A % P ≠ 0 := by
      intro h0
      apply hne
      rw [← hA, Nat.mul_mod, h0, Nat.zero_mul, Nat.zero_mod]
    have hf := Proofs.Primes.fermat_inv P (A % P) hP ⟨Nat.pos_of_ne_zero hA0, Nat.mod_lt _ hpos⟩
    have hf' : A * A ^ (P - 2) % P = 1 := by
      rw [Nat.mul_mod, Nat.pow_mod]; exact hf
    rw [hinv]
    conv_lhs => rw [← hA]
    rw [SM2Field.fp_mul_dom, Nat.mul_mod, hf', Nat.one_mul, Nat.mod_mod, SM2Field.mont_one]
  · intro h0
    subst h0
    have hA0 : A % P = 0 := by
      have h := congrArg (fun t => t * SM2Field.RinvP % P) hA
      simp only [Nat.zero_mul, Nat.zero_mod] at h
      rw [Nat.mod_mul_mod, Nat.mul_assoc, Nat.mul_mod, SM2Field.RinvP_spec, ← Nat.mul_mod, Nat.mul_one] at h
      exact h
    rw [hinv, Nat.mul_mod, Nat.pow_mod, hA0, Nat.zero_pow (by decide), Nat.zero_mod, Nat.zero_mul, Nat.zero_mod]

/-- Step 1: the hypothesis bundle of the L2 theorems holds -/
theorem field_facts : FieldFacts where
  prime := p_prime
  mul := fun a b ha hb => by rw [← SM2Field.P_eq] at *; exact SM2Field.fp_mul_correct a b ha hb
  add := fun a b ha hb => by rw [← SM2Field.P_eq] at *; exact SM2Field.fp_add_correct a b ha hb
  sub := fun a b ha hb => by rw [← SM2Field.P_eq] at *; exact SM2Field.fp_sub_correct a b ha hb
  subP := fun b hb => by
    unfold Impl.SM2.fp_sub Impl.NatField.modSub
    rw [if_neg (by omega)]
  inv := fun a ha => by rw [← SM2Field.P_eq] at *; exact fp_inv_correct a ha
  toMont := fun a ha => by rw [← SM2Field.P_eq]; exact SM2Field.fp_to_mont_correct a ha
  fromMont := fun a ha => by
    rw [← SM2Field.P_eq] at *
    have h := SM2Field.fp_from_mont_correct a (by have := SM2Field.P_range; omega)
    rw [Nat.mod_eq_of_lt ha] at h
    exact h
  consts := ⟨SM2Field.P_eq, by rw [← SM2Field.P_eq]; exact SM2Field.mont_one,
    by rw [← SM2Field.P_eq]; exact SM2Field.mont_a, by rw [← SM2Field.P_eq]; exact SM2Field.mont_b⟩


/-! ### the L2 theorems without the bundle -/

theorem hc : SpecEC.Valid Spec.SM2.curve := SM2Algebra.sm2_valid

theorem add_ok (P Q : Point) (hP : Valid P) (hQ : Valid Q) :
    Valid (P.point_add Q) ∧ toSpec (P.point_add Q) = Spec.EC.add Spec.SM2.curve (toSpec P) (toSpec Q) :=
  point_add_correct field_facts P Q hP hQ

theorem dbl_ok (P : Point) (h : Valid P) :
    Valid P.point_dbl ∧ toSpec P.point_dbl = Spec.EC.add Spec.SM2.curve (toSpec P) (toSpec P) :=
  point_dbl_correct field_facts P h

theorem oc (P : Point) (h : Valid P) : Spec.EC.onCurve Spec.SM2.curve (toSpec P) = true := toSpec_onCurve P h

theorem zero_valid : Valid Point.zero := by
  rw [point_zero_eq field_facts, valid_mk_iff]; exact fun h => absurd rfl h

theorem zero_toSpec : toSpec Point.zero = none := by
  rw [point_zero_eq field_facts, toSpec_mk_zero]

/-! ### Step 2: scalar multiplication, 4-bit window -/

/-- `T` is a valid representation of `[d]Q` -/
def Good (Q : Spec.EC.Pt) (d : Nat) (T : Point) : Prop := Valid T ∧ toSpec T = Spec.EC.mul Spec.SM2.curve d Q

theorem Good.cast {Q : Spec.EC.Pt} {d e : Nat} {T : Point} (h : Good Q d T) (he : d = e) : Good Q e T := he ▸ h

theorem good_zero (Q : Spec.EC.Pt) : Good Q 0 Point.zero :=
  ⟨zero_valid, by rw [zero_toSpec, SpecEC.mul_zero]⟩

theorem good_dbl {Q : Spec.EC.Pt} (hQ : Spec.EC.onCurve Spec.SM2.curve Q = true) {d : Nat} {T : Point}
    (h : Good Q d T) : Good Q (d + d) T.point_dbl :=
  ⟨(dbl_ok T h.1).1, by rw [(dbl_ok T h.1).2, h.2, ← SpecEC.mul_add hc d d hQ]⟩

theorem good_add {Q : Spec.EC.Pt} (hQ : Spec.EC.onCurve Spec.SM2.curve Q = true) {d e : Nat} {T U : Point}
    (hT : Good Q d T) (hU : Good Q e U) : Good Q (d + e) (T.point_add U) :=
  ⟨(add_ok T U hT.1 hU.1).1, by rw [(add_ok T U hT.1 hU.1).2, hT.2, hU.2, ← SpecEC.mul_add hc d e hQ]⟩

theorem preTable_good (P : Point) (h : Valid P) :
    ∀ d, 1 ≤ d → d ≤ 15 → Good (toSpec P) d ((preTable P)[d - 1]!) := by
  have hQ := oc P h
  have t1 : Good (toSpec P) 1 P := ⟨h, (SpecEC.mul_one _).symm⟩
  have t2 := good_dbl hQ t1
  have t4 := good_dbl hQ t2
  have t8 := good_dbl hQ t4
  have t3 := good_add hQ t1 t2
  have t6 := good_dbl hQ t3
  have t7 := good_add hQ t1 t6
  have t12 := good_dbl hQ t6
  have t5 := good_add hQ t1 t4
  have t10 := good_dbl hQ t5
  have t14 := good_dbl hQ t7
  have t9 := good_add hQ t1 t8
  have t11 := good_add hQ t1 t10
  have t13 := good_add hQ t1 t12
  have t15 := good_add hQ t1 t14
  intro d h1 h15
  interval_cases d
  · exact t1
  · exact t2
  · exact t3
  · exact t4
  · exact t5
  · exact t6
  · exact t7
  · exact t8
  · exact t9
  · exact t10
  · exact t11
  · exact t12
  · exact t13
  · exact t14
  · exact t15

/-- the loop body of `Point.scalar_mul` -/
def smStep (pre : Array Point) (st : Point × Nat) (d : Nat) : Point × Nat :=
  let r := if d ≠ 0 then (pre[d - 1]!).point_add st.1 else st.1
  if st.2 = 63 then (r, st.2 + 1)
  else (r.point_dbl.point_dbl.point_dbl.point_dbl, st.2 + 1)

theorem scalar_mul_eq (P : Point) (k : Nat) :
    P.scalar_mul k = ((nibblesMSB k).foldl (smStep (preTable P)) (Point.zero, 0)).1 := rfl

theorem nibble_split (k j : Nat) (hj : j < 64) :
    k / 16 ^ (63 - j) = k / 16 ^ (63 - j) % 16 + 16 * (k / 16 ^ (64 - j)) := by
  have h : 64 - j = (63 - j) + 1 := by omega
  rw [h, Nat.pow_succ, ← Nat.div_div_eq_div_mul]
  omega

theorem scalar_loop (P : Point) (h : Valid P) (k : Nat) (hk : k < 2 ^ 256) : ∀ j, j ≤ 64 →
    (((List.range j).map fun i => k / 16 ^ (63 - i) % 16).foldl (smStep (preTable P)) (Point.zero, 0)).2 = j
    ∧ Good (toSpec P) (if j = 64 then k else 16 * (k / 16 ^ (64 - j)))
        (((List.range j).map fun i => k / 16 ^ (63 - i) % 16).foldl (smStep (preTable P)) (Point.zero, 0)).1 := by
  have hQ := oc P h
  intro j
  induction j with
  | zero =>
    intro _
    refine ⟨rfl, ?_⟩
    have h0 : k / 16 ^ 64 = 0 := Nat.div_eq_of_lt (by have : (16 : Nat) ^ 64 = 2 ^ 256 := by decide
                                                      omega)
    simp only [List.range_zero, List.map_nil, List.foldl_nil]
    exact (good_zero _).cast (by rw [if_neg (by decide), Nat.sub_zero, h0])
  | succ j ih =>
    intro hj
    obtain ⟨i1, i2⟩ := ih (by omega)
    rw [List.range_succ, List.map_append, List.foldl_append]
    simp only [List.map_cons, List.map_nil, List.foldl_cons, List.foldl_nil]
    generalize ((List.range j).map fun i => k / 16 ^ (63 - i) % 16).foldl (smStep (preTable P)) (Point.zero, 0)
      = st at i1 i2 ⊢
    rw [if_neg (by omega)] at i2
    have hd : k / 16 ^ (63 - j) % 16 < 16 := Nat.mod_lt _ (by decide)
    have hsplit := nibble_split k j (by omega)
    generalize k / 16 ^ (63 - j) % 16 = d at hd hsplit ⊢
    -- the accumulator after the table addition
    have hr : Good (toSpec P) (k / 16 ^ (63 - j)) (if d ≠ 0 then ((preTable P)[d - 1]!).point_add st.1 else st.1) := by
      by_cases hd0 : d = 0
      · rw [if_neg (not_not.mpr hd0)]
        exact i2.cast (by omega)
      · rw [if_pos hd0]
        exact (good_add hQ (preTable_good P h d (by omega) (by omega)) i2).cast hsplit.symm
    unfold smStep
    simp only []
    generalize (if d ≠ 0 then ((preTable P)[d - 1]!).point_add st.1 else st.1) = r at hr
    by_cases h63 : j = 63
    · subst h63
      rw [if_pos i1, i1]
      refine ⟨rfl, ?_⟩
      exact hr.cast (by simp)
    · rw [if_neg (by omega), i1]
      refine ⟨rfl, ?_⟩
      rw [if_neg (by omega)]
      have h64 : 64 - (j + 1) = 63 - j := by omega
      rw [h64]
      exact (good_dbl hQ (good_dbl hQ (good_dbl hQ (good_dbl hQ hr)))).cast (by omega)

theorem scalar_mul_good (P : Point) (h : Valid P) (k : Nat) (hk : k < 2 ^ 256) :
    Good (toSpec P) k (P.scalar_mul k) := by
  have := (scalar_loop P h k hk 64 (le_refl _)).2
  rw [if_pos rfl] at this
  exact this

end GmVerif.Proofs.SM2Scalar
