/-
C11 (level L2): the Jacobian / Montgomery-domain point formulas of the gm-sm2 model (`Impl.SM2.Curve`) compute the
group law of the specification (`Spec.EC`, `Spec.SM2`), for ALL representations.
The facts about the Nat-level field functions (and primality of p) are the hypothesis bundle `FieldFacts`.
Pure algebra (arbitrary field) is in `Proofs.SM2CurveAlg`.
-/
import Mathlib.Data.ZMod.Basic
import Mathlib.FieldTheory.Finite.Basic
import GmVerif.Proofs.SM2CurveAlg
import GmVerif.Proofs.SM2CurvePow
import GmVerif.Impl.SM2.Curve
import GmVerif.Spec.SM2

namespace GmVerif.Proofs.SM2Curve
open GmVerif
open GmVerif.Impl.SM2 (Point fp_mul fp_sqr fp_add fp_sub fp_double fp_triple fp_inv fp_to_mont fp_from_mont
  fp_pow fp_sqrt)
open GmVerif.Proofs.SM2CurveAlg

/-- canonical Montgomery representative of a field element: value v is stored as v·R mod p, R = 2^256 -/
structure FieldFacts : Prop where
  prime : Nat.Prime Spec.SM2.p
  mul : ∀ a b, a < Spec.SM2.p → b < Spec.SM2.p → Impl.SM2.fp_mul a b < Spec.SM2.p ∧ (Impl.SM2.fp_mul a b * 2^256) % Spec.SM2.p = (a * b) % Spec.SM2.p
  add : ∀ a b, a < Spec.SM2.p → b < Spec.SM2.p → Impl.SM2.fp_add a b = (a + b) % Spec.SM2.p
  sub : ∀ a b, a < Spec.SM2.p → b < Spec.SM2.p → Impl.SM2.fp_sub a b = (a + Spec.SM2.p - b) % Spec.SM2.p
  /-- `SM2_P.fp_sub(&y)` as used by `neg` and `from_byte`: the first operand is p itself (not canonical) -/
  subP : ∀ b, b < Spec.SM2.p → Impl.SM2.fp_sub Spec.SM2.p b = Spec.SM2.p - b      -- NOTE: equals p (not 0) for b = 0
  inv : ∀ a, a < Spec.SM2.p → Impl.SM2.fp_inv a < Spec.SM2.p ∧ (a ≠ 0 → (Impl.SM2.fp_mul a (Impl.SM2.fp_inv a)) = Gen.SM2.MODP_MONT_ONE) ∧ (a = 0 → Impl.SM2.fp_inv a = 0)
  toMont : ∀ a, a < 2^256 → Impl.SM2.fp_to_mont a = (a * 2^256) % Spec.SM2.p
  fromMont : ∀ a, a < Spec.SM2.p → Impl.SM2.fp_from_mont a < Spec.SM2.p ∧ (Impl.SM2.fp_from_mont a * 2^256) % Spec.SM2.p = a
  consts : Gen.SM2.P = Spec.SM2.p ∧ Gen.SM2.MODP_MONT_ONE = 2^256 % Spec.SM2.p ∧ Gen.SM2.MODP_MONT_A = (Spec.SM2.a * 2^256) % Spec.SM2.p
            ∧ Gen.SM2.MODP_MONT_B = (Spec.SM2.b * 2^256) % Spec.SM2.p

/-- the base field -/
abbrev Fp : Type := ZMod Spec.SM2.p

/-- decoding of a Montgomery representative -/
def dec (x : Nat) : Fp := (x : Fp) * ((2 : Fp) ^ 256)⁻¹

/-- canonical Montgomery representative of a field element -/
def enc (v : Fp) : Nat := (v * (2 : Fp) ^ 256).val

/-- the curve coefficients in the field -/
def ca : Fp := (Spec.SM2.a : Fp)
def cb : Fp := (Spec.SM2.b : Fp)

def Valid (P : Point) : Prop :=
  P.x < Spec.SM2.p ∧ P.y < Spec.SM2.p ∧ P.z < Spec.SM2.p ∧
    (P.z ≠ 0 → dec P.y ^ 2 = dec P.x ^ 3 + ca * dec P.x * dec P.z ^ 4 + cb * dec P.z ^ 6)

def toSpec (P : Point) : Spec.EC.Pt :=
  if P.z = 0 then none
  else some (ZMod.val (dec P.x * (dec P.z ^ 2)⁻¹), ZMod.val (dec P.y * (dec P.z ^ 3)⁻¹))

theorem p_gt_two : 2 < Spec.SM2.p := by decide
theorem p_lt : Spec.SM2.p < 2 ^ 256 := by decide
theorem p_pos : 0 < Spec.SM2.p := by decide
theorem mod_p_lt (n : ℕ) : n % Spec.SM2.p < Spec.SM2.p := Nat.mod_lt _ p_pos
theorem a_add_three : Spec.SM2.a + 3 = Spec.SM2.p := by decide

theorem cast_mul_R (x : ℕ) : ((x * 2 ^ 256 : ℕ) : Fp) = (x : Fp) * (2 : Fp) ^ 256 := by
  rw [Nat.cast_mul, Nat.cast_pow, Nat.cast_ofNat]

theorem cast_R : ((2 ^ 256 : ℕ) : Fp) = (2 : Fp) ^ 256 := by
  rw [Nat.cast_pow, Nat.cast_ofNat]

section Field
variable [hp : Fact (Nat.Prime Spec.SM2.p)]

theorem two_ne_zero' : (2 : Fp) ≠ 0 := by
  intro h
  have h2 : ((2 : ℕ) : Fp) = 0 := by exact_mod_cast h
  rw [ZMod.natCast_eq_zero_iff] at h2
  have := Nat.le_of_dvd (by decide) h2
  have := p_gt_two
  omega

theorem R_ne_zero : ((2 : Fp) ^ 256) ≠ 0 := pow_ne_zero _ two_ne_zero'

theorem ca_eq : ca = -3 := by
  have h : ((Spec.SM2.a + 3 : ℕ) : Fp) = 0 := by rw [a_add_three]; exact ZMod.natCast_self _
  have h' : ca + 3 = 0 := by unfold ca; exact_mod_cast h
  linear_combination h'

theorem dec_enc (v : Fp) : dec (enc v) = v := by
  unfold dec enc
  rw [ZMod.natCast_zmod_val, mul_inv_cancel_right₀ R_ne_zero]

theorem enc_lt (v : Fp) : enc v < Spec.SM2.p := ZMod.val_lt _

theorem natCast_enc (v : Fp) : ((enc v : ℕ) : Fp) = v * (2 : Fp) ^ 256 := ZMod.natCast_zmod_val _

theorem enc_dec (a : ℕ) (h : a < Spec.SM2.p) : enc (dec a) = a := by
  unfold dec enc
  rw [inv_mul_cancel_right₀ R_ne_zero, ZMod.val_cast_of_lt h]

theorem enc_injective : Function.Injective enc := fun u v h => by
  rw [← dec_enc u, ← dec_enc v, h]

theorem enc_zero : enc 0 = 0 := by simp [enc]

theorem enc_eq_zero_iff (v : Fp) : enc v = 0 ↔ v = 0 :=
  ⟨fun h => enc_injective (h.trans enc_zero.symm), fun h => h ▸ enc_zero⟩

/-- a canonical natural number is `enc v` as soon as its cast is `v·R` -/
theorem eq_enc_of_cast {m : ℕ} {v : Fp} (hm : m < Spec.SM2.p) (h : (m : Fp) = v * (2 : Fp) ^ 256) :
    m = enc v := by
  unfold enc; rw [← h, ZMod.val_cast_of_lt hm]

theorem dec_zero : dec 0 = 0 := by simp [dec]

theorem dec_eq_zero_iff (a : ℕ) (h : a < Spec.SM2.p) : dec a = 0 ↔ a = 0 := by
  constructor
  · intro h0
    have := enc_dec a h
    rw [h0, enc_zero] at this
    exact this.symm
  · intro h0; rw [h0, dec_zero]

variable (F : FieldFacts)
include F

theorem fp_mul_enc (u v : Fp) : fp_mul (enc u) (enc v) = enc (u * v) := by
  obtain ⟨hlt, hm⟩ := F.mul _ _ (enc_lt u) (enc_lt v)
  apply eq_enc_of_cast hlt
  have h := congrArg (Nat.cast : ℕ → Fp) hm
  rw [ZMod.natCast_mod, ZMod.natCast_mod, cast_mul_R, Nat.cast_mul, natCast_enc, natCast_enc] at h
  have h2 : (fp_mul (enc u) (enc v) : Fp) * (2 : Fp) ^ 256 = (u * v * (2 : Fp) ^ 256) * (2 : Fp) ^ 256 := by
    rw [h]; ring
  exact mul_right_cancel₀ R_ne_zero h2

theorem fp_add_enc (u v : Fp) : fp_add (enc u) (enc v) = enc (u + v) := by
  have hlt : fp_add (enc u) (enc v) < Spec.SM2.p := by
    rw [F.add _ _ (enc_lt u) (enc_lt v)]; exact mod_p_lt _
  apply eq_enc_of_cast hlt
  rw [F.add _ _ (enc_lt u) (enc_lt v), ZMod.natCast_mod]
  push_cast
  rw [natCast_enc, natCast_enc]; ring

theorem fp_sub_enc (u v : Fp) : fp_sub (enc u) (enc v) = enc (u - v) := by
  have hlt : fp_sub (enc u) (enc v) < Spec.SM2.p := by
    rw [F.sub _ _ (enc_lt u) (enc_lt v)]; exact mod_p_lt _
  apply eq_enc_of_cast hlt
  rw [F.sub _ _ (enc_lt u) (enc_lt v), ZMod.natCast_mod]
  have hle : enc v ≤ enc u + Spec.SM2.p := by have := enc_lt v; omega
  rw [Nat.cast_sub hle]
  push_cast
  rw [natCast_enc, natCast_enc, ZMod.natCast_self]; ring

theorem fp_subP_enc (v : Fp) : fp_sub Gen.SM2.P (enc v) = Spec.SM2.p - enc v := by
  rw [F.consts.1]; exact F.subP _ (enc_lt v)

omit F in
theorem dec_p_sub (v : Fp) : dec (Spec.SM2.p - enc v) = -v := by
  have hle : enc v ≤ Spec.SM2.p := (enc_lt v).le
  unfold dec
  rw [Nat.cast_sub hle, natCast_enc, ZMod.natCast_self, zero_sub, neg_mul,
    mul_inv_cancel_right₀ R_ne_zero]

theorem mont_one_eq : Gen.SM2.MODP_MONT_ONE = enc 1 := by
  rw [F.consts.2.1]
  apply eq_enc_of_cast (mod_p_lt _)
  rw [ZMod.natCast_mod, cast_R, one_mul]

theorem mont_a_eq : Gen.SM2.MODP_MONT_A = enc ca := by
  rw [F.consts.2.2.1]
  apply eq_enc_of_cast (mod_p_lt _)
  rw [ZMod.natCast_mod, cast_mul_R]; rfl

theorem mont_b_eq : Gen.SM2.MODP_MONT_B = enc cb := by
  rw [F.consts.2.2.2]
  apply eq_enc_of_cast (mod_p_lt _)
  rw [ZMod.natCast_mod, cast_mul_R]; rfl

theorem fp_inv_enc (u : Fp) : fp_inv (enc u) = enc u⁻¹ := by
  obtain ⟨hlt, h1, h0⟩ := F.inv _ (enc_lt u)
  by_cases hu : u = 0
  · subst hu
    rw [inv_zero]; exact (h0 enc_zero).trans enc_zero.symm
  · have hne : enc u ≠ 0 := fun h => hu ((enc_eq_zero_iff u).mp h)
    have h := h1 hne
    rw [← enc_dec _ hlt, fp_mul_enc F, mont_one_eq F] at h
    have h' := enc_injective h
    exact (enc_dec _ hlt).symm.trans (congrArg enc (eq_inv_of_mul_eq_one_right h'))

theorem fp_to_mont_eq (a : ℕ) (h : a < 2 ^ 256) : fp_to_mont a = enc (a : Fp) := by
  rw [F.toMont a h]
  apply eq_enc_of_cast (mod_p_lt _)
  rw [ZMod.natCast_mod, cast_mul_R]

theorem fp_from_mont_enc (v : Fp) : fp_from_mont (enc v) = v.val := by
  obtain ⟨hlt, hm⟩ := F.fromMont _ (enc_lt v)
  have h := congrArg (Nat.cast : ℕ → Fp) hm
  rw [ZMod.natCast_mod, natCast_enc, cast_mul_R] at h
  have h' := mul_right_cancel₀ R_ne_zero h
  exact (ZMod.val_cast_of_lt hlt).symm.trans (congrArg ZMod.val h')

end Field

/-! ### the specification side: `Spec.EC` on `ZMod.val`s -/

theorem cast_powMod (a : ℕ) (e : ℕ) :
    ((Spec.EC.powMod a e Spec.SM2.p : ℕ) : Fp) = (a : Fp) ^ e := by
  induction e using Nat.strong_induction_on with
  | _ e ih =>
    rw [Spec.EC.powMod]
    split
    · next h => subst h; rw [ZMod.natCast_mod]; simp
    · next h =>
      have ih' := ih (e / 2) (by omega)
      simp only []
      split
      · next ho =>
        rw [ZMod.natCast_mod, Nat.cast_mul, ZMod.natCast_mod, Nat.cast_mul, ih', ← pow_add, ← pow_succ]
        congr 1; omega
      · next he =>
        rw [ZMod.natCast_mod, Nat.cast_mul, ih', ← pow_add]
        congr 1; omega

theorem cast_p_sub_mod (n : ℕ) : ((Spec.SM2.p - n % Spec.SM2.p : ℕ) : Fp) = -(n : Fp) := by
  rw [Nat.cast_sub (mod_p_lt n).le, ZMod.natCast_self, ZMod.natCast_mod, zero_sub]

theorem mod_eq_val {n : ℕ} {v : Fp} (h : (n : Fp) = v) : n % Spec.SM2.p = v.val := by
  rw [← h, ZMod.val_natCast]

section Field
variable [hp : Fact (Nat.Prime Spec.SM2.p)]

theorem pow_p_sub_two (v : Fp) : v ^ (Spec.SM2.p - 2) = v⁻¹ := by
  by_cases hv : v = 0
  · subst hv
    rw [inv_zero, zero_pow]
    have := p_gt_two; omega
  · apply eq_inv_of_mul_eq_one_left
    rw [← pow_succ]
    have h : Spec.SM2.p - 2 + 1 = Spec.SM2.p - 1 := by have := p_gt_two; omega
    rw [h]
    exact ZMod.pow_card_sub_one_eq_one hv

theorem cast_invMod (a : ℕ) : ((Spec.EC.invMod a Spec.SM2.p : ℕ) : Fp) = (a : Fp)⁻¹ := by
  unfold Spec.EC.invMod
  rw [cast_powMod, pow_p_sub_two]

theorem cast_p_sub_val (x : Fp) : ((Spec.SM2.p - x.val : ℕ) : Fp) = -x := by
  rw [Nat.cast_sub (ZMod.val_lt x).le, ZMod.natCast_self, ZMod.natCast_zmod_val, zero_sub]

theorem mod_eq_zero_iff_cast (n : ℕ) : n % Spec.SM2.p = 0 ↔ (n : Fp) = 0 := by
  rw [ZMod.natCast_eq_zero_iff, Nat.dvd_iff_mod_eq_zero]

/-- a pair of field elements as a specification point -/
def specPt (q : Option (Fp × Fp)) : Spec.EC.Pt := q.map fun q => (q.1.val, q.2.val)

theorem spec_add_val (x1 y1 x2 y2 : Fp) :
    Spec.EC.add Spec.SM2.curve (some (x1.val, y1.val)) (some (x2.val, y2.val))
      = specPt (affAdd ca x1 y1 x2 y2) := by
  simp only [Spec.EC.add, Spec.SM2.curve, affAdd]
  by_cases hx : x1 = x2
  · have hxv : x1.val = x2.val := congrArg _ hx
    rw [if_pos hxv, if_pos hx]
    have hy : (y1.val + y2.val) % Spec.SM2.p = 0 ↔ y1 + y2 = 0 := by
      rw [mod_eq_zero_iff_cast, Nat.cast_add, ZMod.natCast_zmod_val, ZMod.natCast_zmod_val]
    by_cases hy0 : y1 + y2 = 0
    · simp only [hy, hy0, ↓reduceIte]; rfl
    · simp only [hy, hy0, ↓reduceIte]
      simp only [specPt, Option.map_some]
      congr 1
      refine Prod.ext ?_ ?_
      · apply mod_eq_val
        simp only [Nat.cast_add, Nat.cast_mul, ZMod.natCast_mod, cast_invMod, cast_p_sub_val,
          ZMod.natCast_zmod_val, Nat.cast_ofNat]
        unfold ca; ring
      · apply mod_eq_val
        simp only [Nat.cast_add, Nat.cast_mul, ZMod.natCast_mod, cast_invMod, cast_p_sub_val, cast_p_sub_mod,
          ZMod.natCast_zmod_val, Nat.cast_ofNat]
        unfold ca; ring
  · have hxv : ¬ x1.val = x2.val := fun h => hx (ZMod.val_injective _ h)
    rw [if_neg hxv, if_neg hx]
    simp only [specPt, Option.map_some]
    congr 1
    refine Prod.ext ?_ ?_
    · apply mod_eq_val
      simp only [Nat.cast_add, Nat.cast_mul, ZMod.natCast_mod, cast_invMod, cast_p_sub_val,
        ZMod.natCast_zmod_val]
      ring
    · apply mod_eq_val
      simp only [Nat.cast_add, Nat.cast_mul, ZMod.natCast_mod, cast_invMod, cast_p_sub_val, cast_p_sub_mod,
        ZMod.natCast_zmod_val]
      ring

end Field

/-! ### points with canonical coordinates are `mk X Y Z` -/

/-- the point with decoded Jacobian coordinates (X, Y, Z) -/
def mk (X Y Z : Fp) : Point := ⟨enc X, enc Y, enc Z⟩

section Field
variable [hp : Fact (Nat.Prime Spec.SM2.p)]

theorem eq_mk (P : Point) (hx : P.x < Spec.SM2.p) (hy : P.y < Spec.SM2.p) (hz : P.z < Spec.SM2.p) :
    P = mk (dec P.x) (dec P.y) (dec P.z) := by
  cases P with
  | mk x y z => simp only [mk] at *; rw [enc_dec x hx, enc_dec y hy, enc_dec z hz]

theorem valid_mk_iff (X Y Z : Fp) :
    Valid (mk X Y Z) ↔ (Z ≠ 0 → Y ^ 2 = X ^ 3 + ca * X * Z ^ 4 + cb * Z ^ 6) := by
  simp only [Valid, mk, enc_lt, true_and, dec_enc, ne_eq, enc_eq_zero_iff]

theorem toSpec_mk (X Y Z : Fp) :
    toSpec (mk X Y Z) = if Z = 0 then none else some ((X / Z ^ 2).val, (Y / Z ^ 3).val) := by
  simp only [toSpec, mk, dec_enc, enc_eq_zero_iff, div_eq_mul_inv]

theorem toSpec_mk_of_ne {X Y Z : Fp} (hZ : Z ≠ 0) :
    toSpec (mk X Y Z) = some ((X / Z ^ 2).val, (Y / Z ^ 3).val) := by
  rw [toSpec_mk, if_neg hZ]

theorem toSpec_mk_zero (X Y : Fp) : toSpec (mk X Y 0) = none := by
  rw [toSpec_mk, if_pos rfl]

variable (F : FieldFacts)
include F

theorem point_dbl_mk (X Y Z : Fp) :
    (mk X Y Z).point_dbl = mk (dblX X Y Z) (dblY X Y Z) (dblZ Y Z) := by
  simp only [Point.point_dbl, mk, fp_sqr, fp_double, fp_triple, fp_mul_enc F, fp_add_enc F, fp_sub_enc F]
  congr 2 <;> (simp only [dblX, dblY, dblZ, dblA]; ring)

theorem point_dbl_mk_correct (X Y Z : Fp) (h : Valid (mk X Y Z)) :
    Valid (mk X Y Z).point_dbl
      ∧ toSpec (mk X Y Z).point_dbl = Spec.EC.add Spec.SM2.curve (toSpec (mk X Y Z)) (toSpec (mk X Y Z)) := by
  rw [point_dbl_mk F]
  rw [valid_mk_iff] at h
  by_cases hZ : Z = 0
  · subst hZ
    have hz3 : dblZ Y (0 : Fp) = 0 := by simp [dblZ]
    rw [hz3, toSpec_mk_zero, toSpec_mk_zero]
    exact ⟨(valid_mk_iff _ _ _).mpr (fun h => absurd rfl h), rfl⟩
  · have E := h hZ
    refine ⟨(valid_mk_iff _ _ _).mpr (fun _ => dbl_onCurve ca cb X Y Z ca_eq E), ?_⟩
    rw [toSpec_mk_of_ne hZ, spec_add_val, affAdd, if_pos rfl]
    by_cases hY : Y = 0
    · subst hY
      have hz3 : dblZ (0 : Fp) Z = 0 := by simp [dblZ]
      rw [hz3, toSpec_mk_zero, if_pos (by simp)]; rfl
    · have hz3 : dblZ Y Z ≠ 0 := fun h => hY ((dblZ_eq_zero_iff Y Z two_ne_zero' hZ).mp h)
      have hyy : ¬ (Y / Z ^ 3 + Y / Z ^ 3 = 0) := by
        intro h
        have h' : 2 * (Y / Z ^ 3) = 0 := by linear_combination h
        rcases mul_eq_zero.mp h' with h2 | h2
        · exact two_ne_zero' h2
        · rcases div_eq_zero_iff.mp h2 with h3 | h3
          · exact hY h3
          · exact hZ (pow_eq_zero_iff (by decide) |>.mp h3)
      rw [toSpec_mk_of_ne hz3, if_neg hyy]
      simp only [specPt, Option.map_some]
      rw [dbl_y ca X Y Z _ ca_eq two_ne_zero' hZ hY rfl, dbl_x ca X Y Z ca_eq two_ne_zero' hZ hY]

end Field

/-! ### point addition, branch by branch -/

section Field
variable [hp : Fact (Nat.Prime Spec.SM2.p)]

omit hp in
theorem spec_add_none_left (q : Spec.EC.Pt) : Spec.EC.add Spec.SM2.curve none q = q := by
  simp [Spec.EC.add]

omit hp in
theorem spec_add_none_right (q : Spec.EC.Pt) : Spec.EC.add Spec.SM2.curve q none = q := by
  cases q <;> simp [Spec.EC.add]

variable (F : FieldFacts)
include F

theorem point_zero_eq : Point.zero = mk 1 1 0 := by
  simp only [Point.zero, mk, mont_one_eq F, enc_zero]

theorem point_add_mk (X1 Y1 Z1 X2 Y2 Z2 : Fp) :
    (mk X1 Y1 Z1).point_add (mk X2 Y2 Z2) =
      if Z1 = 0 then mk X2 Y2 Z2
      else if Z2 = 0 then mk X1 Y1 Z1
      else if X1 = X2 ∧ Y1 = Y2 ∧ Z1 = Z2 then (mk X1 Y1 Z1).point_dbl
      else if addH X1 Z1 X2 Z2 = 0 then
        (if addR Y1 Z1 Y2 Z2 = 0 then (mk X1 Y1 Z1).point_dbl else Point.zero)
      else mk (addX X1 Y1 Z1 X2 Y2 Z2) (addY X1 Y1 Z1 X2 Y2 Z2) (addZ X1 Z1 X2 Z2) := by
  have eH : X2 * (Z1 * Z1) - X1 * (Z2 * Z2) = addH X1 Z1 X2 Z2 := by simp only [addH]; ring
  have eR : Y2 * Z1 * (Z1 * Z1) - Y1 * Z2 * (Z2 * Z2) = addR Y1 Z1 Y2 Z2 := by simp only [addR]; ring
  simp only [Point.point_add, Point.is_zero, mk, beq_iff_eq, enc_eq_zero_iff, enc_injective.eq_iff,
    fp_sqr, fp_double, fp_mul_enc F, fp_add_enc F, fp_sub_enc F, eH, eR]
  split_ifs <;> first
    | with_reducible rfl
    | (congr 2 <;> (simp only [addX, addY]; ring))

/-- either operand at infinity -/
theorem add_inf_left (X1 Y1 X2 Y2 Z2 : Fp) (hQ : Valid (mk X2 Y2 Z2)) :
    Valid ((mk X1 Y1 0).point_add (mk X2 Y2 Z2))
      ∧ toSpec ((mk X1 Y1 0).point_add (mk X2 Y2 Z2))
          = Spec.EC.add Spec.SM2.curve (toSpec (mk X1 Y1 0)) (toSpec (mk X2 Y2 Z2)) := by
  rw [point_add_mk F, if_pos rfl, toSpec_mk_zero, spec_add_none_left]
  exact ⟨hQ, rfl⟩

theorem add_inf_right (X1 Y1 Z1 X2 Y2 : Fp) (hP : Valid (mk X1 Y1 Z1)) :
    Valid ((mk X1 Y1 Z1).point_add (mk X2 Y2 0))
      ∧ toSpec ((mk X1 Y1 Z1).point_add (mk X2 Y2 0))
          = Spec.EC.add Spec.SM2.curve (toSpec (mk X1 Y1 Z1)) (toSpec (mk X2 Y2 0)) := by
  rw [point_add_mk F]
  by_cases hZ1 : Z1 = 0
  · subst hZ1
    rw [if_pos rfl, toSpec_mk_zero, toSpec_mk_zero]
    exact ⟨(valid_mk_iff _ _ _).mpr (fun h => absurd rfl h), rfl⟩
  · rw [if_neg hZ1, if_pos rfl, toSpec_mk_zero, spec_add_none_right]
    exact ⟨hP, rfl⟩

/-- bit-identical operands -/
theorem add_identical (X Y Z : Fp) (hZ : Z ≠ 0) (hP : Valid (mk X Y Z)) :
    Valid ((mk X Y Z).point_add (mk X Y Z))
      ∧ toSpec ((mk X Y Z).point_add (mk X Y Z))
          = Spec.EC.add Spec.SM2.curve (toSpec (mk X Y Z)) (toSpec (mk X Y Z)) := by
  rw [point_add_mk F, if_neg hZ, if_neg hZ, if_pos ⟨rfl, rfl, rfl⟩]
  exact point_dbl_mk_correct F X Y Z hP

/-- P = Q with different Z (the h = 0, r = 0 branch) -/
theorem add_same_point_other_Z (X1 Y1 Z1 X2 Y2 Z2 : Fp) (hZ1 : Z1 ≠ 0) (hZ2 : Z2 ≠ 0)
    (hne : ¬ (X1 = X2 ∧ Y1 = Y2 ∧ Z1 = Z2))
    (hH : addH X1 Z1 X2 Z2 = 0) (hR : addR Y1 Z1 Y2 Z2 = 0) (hP : Valid (mk X1 Y1 Z1)) :
    Valid ((mk X1 Y1 Z1).point_add (mk X2 Y2 Z2))
      ∧ toSpec ((mk X1 Y1 Z1).point_add (mk X2 Y2 Z2))
          = Spec.EC.add Spec.SM2.curve (toSpec (mk X1 Y1 Z1)) (toSpec (mk X2 Y2 Z2)) := by
  rw [point_add_mk F, if_neg hZ1, if_neg hZ2, if_neg hne, if_pos hH, if_pos hR]
  have hx := (addH_eq_zero_iff X1 Z1 X2 Z2 hZ1 hZ2).mp hH
  have hy := (addR_eq_zero_iff Y1 Z1 Y2 Z2 hZ1 hZ2).mp hR
  have hQP : toSpec (mk X2 Y2 Z2) = toSpec (mk X1 Y1 Z1) := by
    rw [toSpec_mk_of_ne hZ1, toSpec_mk_of_ne hZ2, hx, hy]
  rw [hQP]
  exact point_dbl_mk_correct F X1 Y1 Z1 hP

/-- P = −Q (h = 0, r ≠ 0) -/
theorem add_opposite (X1 Y1 Z1 X2 Y2 Z2 : Fp) (hZ1 : Z1 ≠ 0) (hZ2 : Z2 ≠ 0)
    (hne : ¬ (X1 = X2 ∧ Y1 = Y2 ∧ Z1 = Z2))
    (hH : addH X1 Z1 X2 Z2 = 0) (hR : addR Y1 Z1 Y2 Z2 ≠ 0)
    (hP : Valid (mk X1 Y1 Z1)) (hQ : Valid (mk X2 Y2 Z2)) :
    Valid ((mk X1 Y1 Z1).point_add (mk X2 Y2 Z2))
      ∧ toSpec ((mk X1 Y1 Z1).point_add (mk X2 Y2 Z2))
          = Spec.EC.add Spec.SM2.curve (toSpec (mk X1 Y1 Z1)) (toSpec (mk X2 Y2 Z2)) := by
  rw [point_add_mk F, if_neg hZ1, if_neg hZ2, if_neg hne, if_pos hH, if_neg hR, point_zero_eq F]
  refine ⟨(valid_mk_iff _ _ _).mpr (fun h => absurd rfl h), ?_⟩
  have hx := (addH_eq_zero_iff X1 Z1 X2 Z2 hZ1 hZ2).mp hH
  have hy : ¬ (Y1 / Z1 ^ 3 = Y2 / Z2 ^ 3) := fun h => hR ((addR_eq_zero_iff Y1 Z1 Y2 Z2 hZ1 hZ2).mpr h)
  have E1 := (jac_iff_aff ca cb X1 Y1 Z1 hZ1).mp ((valid_mk_iff _ _ _).mp hP hZ1)
  have E2 := (jac_iff_aff ca cb X2 Y2 Z2 hZ2).mp ((valid_mk_iff _ _ _).mp hQ hZ2)
  rw [← hx] at E2
  have hsum : Y1 / Z1 ^ 3 + Y2 / Z2 ^ 3 = 0 := (aff_same_x ca cb _ _ _ E1 E2).resolve_left hy
  rw [toSpec_mk_zero, toSpec_mk_of_ne hZ1, toSpec_mk_of_ne hZ2, spec_add_val, affAdd, if_pos hx, if_pos hsum]
  rfl

/-- the generic case (h ≠ 0) -/
theorem add_generic (X1 Y1 Z1 X2 Y2 Z2 : Fp) (hZ1 : Z1 ≠ 0) (hZ2 : Z2 ≠ 0)
    (hH : addH X1 Z1 X2 Z2 ≠ 0)
    (hP : Valid (mk X1 Y1 Z1)) (hQ : Valid (mk X2 Y2 Z2)) :
    Valid ((mk X1 Y1 Z1).point_add (mk X2 Y2 Z2))
      ∧ toSpec ((mk X1 Y1 Z1).point_add (mk X2 Y2 Z2))
          = Spec.EC.add Spec.SM2.curve (toSpec (mk X1 Y1 Z1)) (toSpec (mk X2 Y2 Z2)) := by
  have hne : ¬ (X1 = X2 ∧ Y1 = Y2 ∧ Z1 = Z2) := by
    rintro ⟨rfl, rfl, rfl⟩
    exact hH (by simp [addH])
  rw [point_add_mk F, if_neg hZ1, if_neg hZ2, if_neg hne, if_neg hH]
  have E1 := (valid_mk_iff _ _ _).mp hP hZ1
  have E2 := (valid_mk_iff _ _ _).mp hQ hZ2
  refine ⟨(valid_mk_iff _ _ _).mpr (fun _ => add_onCurve ca cb X1 Y1 Z1 X2 Y2 Z2 E1 E2), ?_⟩
  have hx : ¬ (X1 / Z1 ^ 2 = X2 / Z2 ^ 2) := fun h => hH ((addH_eq_zero_iff X1 Z1 X2 Z2 hZ1 hZ2).mpr h)
  have hZ3 : addZ X1 Z1 X2 Z2 ≠ 0 := mul_ne_zero (mul_ne_zero hZ1 hZ2) hH
  rw [toSpec_mk_of_ne hZ3, toSpec_mk_of_ne hZ1, toSpec_mk_of_ne hZ2, spec_add_val, affAdd, if_neg hx]
  simp only [specPt, Option.map_some]
  rw [add_y X1 Y1 Z1 X2 Y2 Z2 _ hZ1 hZ2 hH rfl, add_x X1 Y1 Z1 X2 Y2 Z2 hZ1 hZ2 hH]

theorem point_add_mk_correct (X1 Y1 Z1 X2 Y2 Z2 : Fp) (hP : Valid (mk X1 Y1 Z1)) (hQ : Valid (mk X2 Y2 Z2)) :
    Valid ((mk X1 Y1 Z1).point_add (mk X2 Y2 Z2))
      ∧ toSpec ((mk X1 Y1 Z1).point_add (mk X2 Y2 Z2))
          = Spec.EC.add Spec.SM2.curve (toSpec (mk X1 Y1 Z1)) (toSpec (mk X2 Y2 Z2)) := by
  by_cases hZ1 : Z1 = 0
  · subst hZ1; exact add_inf_left F X1 Y1 X2 Y2 Z2 hQ
  by_cases hZ2 : Z2 = 0
  · subst hZ2; exact add_inf_right F X1 Y1 Z1 X2 Y2 hP
  by_cases hid : X1 = X2 ∧ Y1 = Y2 ∧ Z1 = Z2
  · obtain ⟨rfl, rfl, rfl⟩ := hid
    exact add_identical F X1 Y1 Z1 hZ1 hP
  by_cases hH : addH X1 Z1 X2 Z2 = 0
  · by_cases hR : addR Y1 Z1 Y2 Z2 = 0
    · exact add_same_point_other_Z F X1 Y1 Z1 X2 Y2 Z2 hZ1 hZ2 hid hH hR hP
    · exact add_opposite F X1 Y1 Z1 X2 Y2 Z2 hZ1 hZ2 hid hH hR hP hQ
  · exact add_generic F X1 Y1 Z1 X2 Y2 Z2 hZ1 hZ2 hH hP hQ

end Field

/-! ### validity checks, negation, affine conversion, encoding (on `mk`) -/

section Field
variable [hp : Fact (Nat.Prime Spec.SM2.p)]

theorem onCurve_val (x y : Fp) :
    Spec.EC.onCurve Spec.SM2.curve (some (x.val, y.val)) = true ↔ y ^ 2 = x ^ 3 + ca * x + cb := by
  simp only [Spec.EC.onCurve, Spec.SM2.curve, ZMod.val_lt, decide_true, Bool.true_and, beq_iff_eq]
  rw [← ZMod.natCast_eq_natCast_iff']
  simp only [Nat.cast_add, Nat.cast_mul, ZMod.natCast_mod, ZMod.natCast_zmod_val]
  unfold ca cb
  constructor <;> (intro h; linear_combination h)

theorem toSpec_mk_onCurve (X Y Z : Fp) (h : Valid (mk X Y Z)) :
    Spec.EC.onCurve Spec.SM2.curve (toSpec (mk X Y Z)) = true := by
  by_cases hZ : Z = 0
  · subst hZ; rw [toSpec_mk_zero]; rfl
  · rw [toSpec_mk_of_ne hZ, onCurve_val]
    exact (jac_iff_aff ca cb X Y Z hZ).mp ((valid_mk_iff _ _ _).mp h hZ)

/-- `Spec.EC.neg` on `ZMod.val`s -/
theorem spec_neg_val (x y : Fp) :
    Spec.EC.neg Spec.SM2.curve (some (x.val, y.val)) = some (x.val, (-y).val) := by
  simp only [Spec.EC.neg, Spec.SM2.curve]
  rw [mod_eq_val (cast_p_sub_val y)]

variable (F : FieldFacts)
include F

theorem is_valid_mk (X Y Z : Fp) : (mk X Y Z).is_valid = true ↔ Valid (mk X Y Z) := by
  rw [valid_mk_iff]
  simp only [Point.is_valid, Point.is_zero, mk, fp_sqr, mont_a_eq F, mont_b_eq F, fp_mul_enc F, fp_add_enc F,
    beq_iff_eq, enc_eq_zero_iff]
  by_cases hZ : Z = 0
  · simp [hZ]
  · simp only [hZ, if_false, beq_iff_eq, enc_injective.eq_iff, ne_eq, not_false_eq_true, forall_const]
    constructor <;> (intro h; linear_combination h)

theorem is_valid_affine_mk (X Y : Fp) : (mk X Y 1).is_valid_affine_point = true ↔ Valid (mk X Y 1) := by
  rw [valid_mk_iff]
  simp only [Point.is_valid_affine_point, mk, fp_sqr, mont_a_eq F, mont_b_eq F, fp_mul_enc F, fp_add_enc F,
    beq_iff_eq, enc_injective.eq_iff, ne_eq, one_ne_zero, not_false_eq_true, forall_const]
  constructor <;> (intro h; linear_combination h)

theorem neg_mk (X Y Z : Fp) : (mk X Y Z).neg = ⟨enc X, Spec.SM2.p - enc Y, enc Z⟩ := by
  simp only [Point.neg, mk, fp_subP_enc F]

theorem to_affine_mk (X Y Z : Fp) :
    (mk X Y Z).to_affine_point = mk (X / Z ^ 2) (Y / Z ^ 3) 1 := by
  simp only [Point.to_affine_point, mk, fp_sqr, fp_inv_enc F, mont_one_eq F, fp_mul_enc F]
  congr 2 <;> (rw [div_eq_mul_inv]; congr 1; rw [← inv_pow]; ring)

end Field

/-! ### the property theorems for arbitrary (valid) points -/

section Field
variable [hp : Fact (Nat.Prime Spec.SM2.p)]
variable (F : FieldFacts)
include F

theorem is_valid_iff (P : Point) (hc : P.x < Spec.SM2.p ∧ P.y < Spec.SM2.p ∧ P.z < Spec.SM2.p) :
    P.is_valid = true ↔ Valid P := by
  rw [eq_mk P hc.1 hc.2.1 hc.2.2]
  exact is_valid_mk F _ _ _

omit F in
theorem toSpec_onCurve (P : Point) (h : Valid P) : Spec.EC.onCurve Spec.SM2.curve (toSpec P) = true := by
  have e := eq_mk P h.1 h.2.1 h.2.2.1
  rw [e] at h ⊢
  exact toSpec_mk_onCurve _ _ _ h

theorem point_dbl_correct (P : Point) (h : Valid P) :
    Valid P.point_dbl ∧ toSpec P.point_dbl = Spec.EC.add Spec.SM2.curve (toSpec P) (toSpec P) := by
  have e := eq_mk P h.1 h.2.1 h.2.2.1
  rw [e] at h ⊢
  exact point_dbl_mk_correct F _ _ _ h

theorem point_add_correct (P Q : Point) (hP : Valid P) (hQ : Valid Q) :
    Valid (P.point_add Q) ∧ toSpec (P.point_add Q) = Spec.EC.add Spec.SM2.curve (toSpec P) (toSpec Q) := by
  have eP := eq_mk P hP.1 hP.2.1 hP.2.2.1
  have eQ := eq_mk Q hQ.1 hQ.2.1 hQ.2.2.1
  rw [eP] at hP ⊢
  rw [eQ] at hQ ⊢
  exact point_add_mk_correct F _ _ _ _ _ _ hP hQ

theorem neg_mk_correct (X Y Z : Fp) (h : Valid (mk X Y Z)) :
    toSpec (mk X Y Z).neg = Spec.EC.neg Spec.SM2.curve (toSpec (mk X Y Z))
      ∧ (mk X Y Z).neg.x = enc X ∧ (mk X Y Z).neg.z = enc Z ∧ (mk X Y Z).neg.y = Spec.SM2.p - enc Y
      ∧ dec (mk X Y Z).neg.y = -Y
      ∧ (Y ≠ 0 → (mk X Y Z).neg = mk X (-Y) Z ∧ Valid (mk X Y Z).neg)
      ∧ (Y = 0 → (mk X Y Z).neg.y = Spec.SM2.p) := by
  rw [neg_mk F]
  refine ⟨?_, by dsimp only, by dsimp only, by dsimp only, dec_p_sub Y, ?_, ?_⟩
  · simp only [toSpec, dec_enc, dec_p_sub, enc_eq_zero_iff, mk]
    by_cases hZ : Z = 0
    · simp only [hZ, if_true]; rfl
    · simp only [hZ, if_false]
      rw [spec_neg_val, neg_mul]
  · intro hY
    have hne : enc Y ≠ 0 := fun h0 => hY ((enc_eq_zero_iff Y).mp h0)
    have e : Spec.SM2.p - enc Y = enc (-Y) := by
      apply eq_enc_of_cast (by have := enc_lt Y; omega)
      rw [Nat.cast_sub (enc_lt Y).le, natCast_enc, ZMod.natCast_self]; ring
    rw [e]
    refine ⟨rfl, ?_⟩
    rw [show (⟨enc X, enc (-Y), enc Z⟩ : Point) = mk X (-Y) Z from rfl, valid_mk_iff]
    intro hZ
    have E := (valid_mk_iff _ _ _).mp h hZ
    linear_combination E
  · intro hY
    rw [hY, enc_zero]
    exact Nat.sub_zero _

theorem neg_correct (P : Point) (h : Valid P) :
    toSpec P.neg = Spec.EC.neg Spec.SM2.curve (toSpec P)
      ∧ P.neg.x = P.x ∧ P.neg.z = P.z ∧ P.neg.y = Spec.SM2.p - P.y ∧ P.neg.y ≤ Spec.SM2.p
      ∧ dec P.neg.y = -dec P.y
      ∧ (P.y ≠ 0 → Valid P.neg)
      ∧ (P.y = 0 → P.neg.y = Spec.SM2.p ∧ ¬ Valid P.neg) := by
  obtain ⟨hx, hy, hz, _⟩ := id h
  have e := eq_mk P hx hy hz
  have hm : Valid (mk (dec P.x) (dec P.y) (dec P.z)) := e ▸ h
  obtain ⟨h1, h2, h3, h4, h5, h6, h7⟩ := neg_mk_correct F _ _ _ hm
  rw [← e, enc_dec _ hx] at h2
  rw [← e, enc_dec _ hz] at h3
  rw [← e, enc_dec _ hy] at h4
  rw [← e] at h1 h5 h6 h7
  refine ⟨h1, h2, h3, h4, by rw [h4]; omega, h5, ?_, ?_⟩
  · intro hy0
    exact (h6 (fun h0 => hy0 ((dec_eq_zero_iff _ hy).mp h0))).2
  · intro hy0
    have := h7 ((dec_eq_zero_iff _ hy).mpr hy0)
    exact ⟨this, fun hv => by have := hv.2.1; omega⟩

theorem to_affine_mk_correct (X Y Z : Fp) (h : Valid (mk X Y Z)) (hZ : Z ≠ 0) :
    Valid (mk X Y Z).to_affine_point ∧ (mk X Y Z).to_affine_point.z = Gen.SM2.MODP_MONT_ONE
      ∧ toSpec (mk X Y Z).to_affine_point = toSpec (mk X Y Z)
      ∧ toSpec (mk X Y Z) = some (fp_from_mont (mk X Y Z).to_affine_point.x,
          fp_from_mont (mk X Y Z).to_affine_point.y) := by
  rw [to_affine_mk F]
  have E := (jac_iff_aff ca cb X Y Z hZ).mp ((valid_mk_iff _ _ _).mp h hZ)
  refine ⟨?_, ?_, ?_, ?_⟩
  · rw [valid_mk_iff]; intro _; rw [E]; ring
  · simp only [mk, mont_one_eq F]
  · rw [toSpec_mk_of_ne one_ne_zero, toSpec_mk_of_ne hZ]; simp
  · rw [toSpec_mk_of_ne hZ]; simp only [mk, fp_from_mont_enc F]

theorem to_affine_correct (P : Point) (h : Valid P) (hz : P.z ≠ 0) :
    Valid P.to_affine_point ∧ P.to_affine_point.z = Gen.SM2.MODP_MONT_ONE
      ∧ toSpec P.to_affine_point = toSpec P
      ∧ toSpec P = some (fp_from_mont P.to_affine_point.x, fp_from_mont P.to_affine_point.y) := by
  have e := eq_mk P h.1 h.2.1 h.2.2.1
  have hZ : dec P.z ≠ 0 := fun h0 => hz ((dec_eq_zero_iff _ h.2.2.1).mp h0)
  rw [e] at h ⊢
  exact to_affine_mk_correct F _ _ _ h hZ

theorem is_valid_affine_iff (P : Point) (hc : P.x < Spec.SM2.p ∧ P.y < Spec.SM2.p ∧ P.z < Spec.SM2.p)
    (hz : P.z = Gen.SM2.MODP_MONT_ONE) : P.is_valid_affine_point = true ↔ Valid P := by
  have e := eq_mk P hc.1 hc.2.1 hc.2.2
  have h1 : dec P.z = 1 := by rw [hz, mont_one_eq F, dec_enc]
  rw [h1] at e
  rw [e]
  exact is_valid_affine_mk F _ _

theorem to_byte_correct (P : Point) (h : Valid P) (hz : P.z ≠ 0) (c : Bool) :
    P.to_byte_be c = Spec.SM2.encodePoint c (toSpec P) := by
  obtain ⟨_, _, _, h4⟩ := to_affine_correct F P h hz
  rw [h4]
  simp only [Point.to_byte_be, Spec.SM2.encodePoint, Impl.SM2.bytes32, Spec.SM2.bytes32]

end Field

/-! ### exponentiation, square roots, `from_byte` -/

theorem sqrt_exp_eq : Gen.SM2.SQRT_EXP = (Spec.SM2.p + 1) / 4 := by decide
theorem sqrt_exp_lt : Gen.SM2.SQRT_EXP < 2 ^ 256 := by decide

theorem powMod_lt (a e : ℕ) : Spec.EC.powMod a e Spec.SM2.p < Spec.SM2.p := by
  rw [Spec.EC.powMod]
  split
  · exact mod_p_lt _
  · simp only []
    split <;> exact mod_p_lt _

theorem powMod_eq_val (a e : ℕ) : Spec.EC.powMod a e Spec.SM2.p = ((a : Fp) ^ e).val := by
  rw [← cast_powMod, ZMod.val_cast_of_lt (powMod_lt a e)]

section Field
variable [hp : Fact (Nat.Prime Spec.SM2.p)]

theorem sqrtMod_eq (v : ℕ) :
    Spec.SM2.sqrtMod v
      = if ((v : Fp) ^ Gen.SM2.SQRT_EXP) ^ 2 = (v : Fp) then some ((v : Fp) ^ Gen.SM2.SQRT_EXP).val else none := by
  simp only [Spec.SM2.sqrtMod, ← sqrt_exp_eq, powMod_eq_val]
  simp only [← ZMod.natCast_eq_natCast_iff', ← pow_two, Nat.cast_pow, ZMod.natCast_zmod_val]

variable (F : FieldFacts)
include F

theorem fp_pow_enc (V : Fp) (e : ℕ) (he : e < 2 ^ 256) : fp_pow (enc V) e = enc (V ^ e) := by
  unfold fp_pow
  rw [SM2CurvePow.powLoop_eq]
  have h := SM2CurvePow.powLoopG_spec fp_mul Gen.SM2.MODP_MONT_ONE (enc V) dec (fun x => x < Spec.SM2.p)
    (by rw [mont_one_eq F]; exact enc_lt _) (enc_lt V)
    (by
      intro x y hx hy
      rw [← enc_dec x hx, ← enc_dec y hy, fp_mul_enc F, dec_enc, dec_enc, dec_enc]
      exact ⟨enc_lt _, rfl⟩)
    (by rw [mont_one_eq F, dec_enc]) e he
  rw [dec_enc] at h
  rw [← h.2, enc_dec _ h.1]

theorem fp_sqrt_enc (V : Fp) :
    fp_sqrt (enc V)
      = if (V ^ Gen.SM2.SQRT_EXP) ^ 2 = V then some (enc (V ^ Gen.SM2.SQRT_EXP)) else none := by
  simp only [fp_sqrt, fp_sqr, fp_pow_enc F V _ sqrt_exp_lt, fp_mul_enc F, ne_eq, enc_injective.eq_iff, ← pow_two]
  split_ifs <;> rfl

end Field

/-! #### `from_byte` / `decodePoint`: the statement and the three shapes of the input -/

/-- `Point.from_byte` agrees with `Spec.SM2.decodePoint` on the byte string `b` -/
def FromByteOK (b : List UInt8) : Prop :=
  (∀ x y, Spec.SM2.decodePoint b = some (x, y) → ∃ P, Point.from_byte b = .ok P ∧ Valid P ∧ toSpec P = some (x, y))
    ∧ (Spec.SM2.decodePoint b = none → ∃ e, Point.from_byte b = .err e)

theorem fromByteOK_none {b : List UInt8} {e : String} (hs : Spec.SM2.decodePoint b = none)
    (hi : Point.from_byte b = .err e) : FromByteOK b := by
  refine ⟨fun x y h => ?_, fun _ => ⟨e, hi⟩⟩
  rw [hs] at h; cases h

theorem fromByteOK_some {b : List UInt8} {x y : ℕ} {P : Point} (hs : Spec.SM2.decodePoint b = some (x, y))
    (hi : Point.from_byte b = .ok P) (hv : Valid P) (ht : toSpec P = some (x, y)) : FromByteOK b := by
  refine ⟨fun x' y' h => ?_, fun h => ?_⟩
  · rw [hs] at h
    cases h
    exact ⟨P, hi, hv, ht⟩
  · rw [hs] at h; cases h

/-- the rest of the compressed branch of `decodePoint` after the square root -/
def specComp (flag : UInt8) (x : ℕ) : Option ℕ → Option (ℕ × ℕ)
  | none => none
  | some y => if y % 2 = flag.toNat - 2 then some (x, y) else some (x, (Spec.SM2.p - y) % Spec.SM2.p)

/-- the rest of the compressed branch of `from_byte` after the square root -/
def implComp (flag : UInt8) (xm : ℕ) : Option ℕ → Outcome Point
  | none => .err "FieldSqrtError"
  | some y => .ok ⟨xm, if fp_from_mont y % 2 ≠ (if flag = 2 then 0 else 1) then fp_sub Gen.SM2.P y else y,
      Gen.SM2.MODP_MONT_ONE⟩

theorem decode_comp (flag : UInt8) (hf : flag = 2 ∨ flag = 3) (rest : List UInt8) :
    Spec.SM2.decodePoint (flag :: rest) =
      if rest.length ≠ 32 then none
      else if beNat rest ≥ Spec.SM2.p then none
      else specComp flag (beNat rest)
        (Spec.SM2.sqrtMod ((beNat rest * beNat rest % Spec.SM2.p * beNat rest + Spec.SM2.a * beNat rest
              + Spec.SM2.b) % Spec.SM2.p)) := by
  have h4 : flag ≠ 4 := by rcases hf with h | h <;> subst h <;> decide
  rw [Spec.SM2.decodePoint, if_neg h4, if_pos hf]
  by_cases hl : rest.length ≠ 32
  · rw [if_pos hl, if_pos hl]
  · rw [if_neg hl, if_neg hl]
    dsimp only
    by_cases hx : beNat rest ≥ Spec.SM2.p
    · rw [if_pos hx, if_pos hx]
    · rw [if_neg hx, if_neg hx]
      cases Spec.SM2.sqrtMod _ <;> rfl

theorem decode_other (flag : UInt8) (hf : ¬ (flag = 2 ∨ flag = 3)) (h4 : flag ≠ 4) (rest : List UInt8) :
    Spec.SM2.decodePoint (flag :: rest) = none := by
  rw [Spec.SM2.decodePoint, if_neg h4, if_neg hf]

theorem from_byte_other (flag : UInt8) (hf : ¬ (flag = 2 ∨ flag = 3)) (h4 : flag ≠ 4) (rest : List UInt8) :
    Point.from_byte (flag :: rest) = .err "InvalidPublic" := by
  rw [Point.from_byte, if_neg hf, if_neg h4]

set_option linter.auxLemma false in
open GmVerif.Gen.SM2 (P MODP_MONT_ONE MODP_MONT_A MODP_MONT_B) in
/-- the compressed branch of `Point.from_byte`, verbatim, with the square-root routine abstracted (so that the kernel
never tries to evaluate `fp_sqrt` when the `let`s are unfolded; the matcher is the one of `Point.from_byte`) -/
def compBody (sq : Nat → Option Nat) (flag : UInt8) (rest : List UInt8) : Outcome Point :=
  if (flag :: rest).length ≠ 33 then .err "InvalidPublic"
  else
    let y_q : Nat := if flag = 0x02 then 0 else 1
    let x_raw := beNat rest
    if x_raw ≥ P then .err "InvalidPublic"
    else
      let x := fp_to_mont x_raw
      let xxx := fp_mul (fp_mul x x) x
      let ax := fp_mul x MODP_MONT_A
      let yy := fp_add (fp_add xxx ax) MODP_MONT_B
      Impl.SM2.Point.from_byte.match_1 (fun _ => Outcome Point) (sq yy) (fun _ => .err "FieldSqrtError")
        (fun y =>
          let y := if fp_from_mont y % 2 ≠ y_q then fp_sub P y else y
          .ok ⟨x, y, MODP_MONT_ONE⟩)

theorem from_byte_comp_eq (flag : UInt8) (hf : flag = 2 ∨ flag = 3) (rest : List UInt8) :
    Point.from_byte (flag :: rest) = compBody fp_sqrt flag rest := by
  rw [Point.from_byte, if_pos hf]
  rfl

theorem compBody_eq (sq : Nat → Option Nat) (flag : UInt8) (rest : List UInt8) :
    compBody sq flag rest =
      if rest.length ≠ 32 then .err "InvalidPublic"
      else if beNat rest ≥ Gen.SM2.P then .err "InvalidPublic"
      else implComp flag (fp_to_mont (beNat rest))
        (sq (fp_add (fp_add (fp_mul (fp_mul (fp_to_mont (beNat rest)) (fp_to_mont (beNat rest)))
            (fp_to_mont (beNat rest))) (fp_mul (fp_to_mont (beNat rest)) Gen.SM2.MODP_MONT_A)) Gen.SM2.MODP_MONT_B)) := by
  unfold compBody
  by_cases hl : rest.length = 32
  · have hl' : ¬ ((flag :: rest).length ≠ 33) := by rw [List.length_cons, hl]; decide
    rw [if_neg hl', if_neg (not_not.mpr hl)]
    dsimp only
    by_cases hx : beNat rest ≥ Gen.SM2.P
    · rw [if_pos hx, if_pos hx]
    · rw [if_neg hx, if_neg hx]
      cases sq _ <;> rfl
  · have hl' : (flag :: rest).length ≠ 33 := by rw [List.length_cons]; omega
    rw [if_pos hl', if_pos hl]

theorem from_byte_comp (flag : UInt8) (hf : flag = 2 ∨ flag = 3) (rest : List UInt8) :
    Point.from_byte (flag :: rest) =
      if rest.length ≠ 32 then .err "InvalidPublic"
      else if beNat rest ≥ Gen.SM2.P then .err "InvalidPublic"
      else implComp flag (fp_to_mont (beNat rest))
        (fp_sqrt (fp_add (fp_add (fp_mul (fp_mul (fp_to_mont (beNat rest)) (fp_to_mont (beNat rest)))
            (fp_to_mont (beNat rest))) (fp_mul (fp_to_mont (beNat rest)) Gen.SM2.MODP_MONT_A)) Gen.SM2.MODP_MONT_B)) :=
  (from_byte_comp_eq flag hf rest).trans (compBody_eq fp_sqrt flag rest)


theorem decode_unc (rest : List UInt8) :
    Spec.SM2.decodePoint (4 :: rest) =
      if rest.length ≠ 64 then none
      else if beNat (rest.take 32) < Spec.SM2.p ∧ beNat (rest.drop 32) < Spec.SM2.p
          ∧ Spec.EC.onCurve Spec.SM2.curve (some (beNat (rest.take 32), beNat (rest.drop 32))) = true
        then some (beNat (rest.take 32), beNat (rest.drop 32)) else none := by
  rw [Spec.SM2.decodePoint, if_pos rfl]

theorem from_byte_unc (rest : List UInt8) :
    Point.from_byte (4 :: rest) =
      if rest.length ≠ 64 then .err "InvalidPublic"
      else if beNat (rest.take 32) ≥ Gen.SM2.P ∨ beNat (rest.drop 32) ≥ Gen.SM2.P then .err "InvalidPublic"
      else if ¬ (Point.mk (fp_to_mont (beNat (rest.take 32))) (fp_to_mont (beNat (rest.drop 32)))
                  Gen.SM2.MODP_MONT_ONE).is_valid_affine_point = true then .err "NotOnCurve"
      else .ok ⟨fp_to_mont (beNat (rest.take 32)), fp_to_mont (beNat (rest.drop 32)), Gen.SM2.MODP_MONT_ONE⟩ := by
  have h42 : ¬ ((4 : UInt8) = 2 ∨ (4 : UInt8) = 3) := by decide
  rw [Point.from_byte, if_neg h42, if_pos rfl]
  by_cases hl : rest.length = 64
  · have hl' : ¬ ((4 :: rest).length ≠ 65) := by rw [List.length_cons, hl]; decide
    rw [if_neg hl', if_neg (not_not.mpr hl)]
  · have hl' : (4 :: rest).length ≠ 65 := by rw [List.length_cons]; omega
    rw [if_pos hl', if_pos hl]

/-- no point of order two: the cubic x³ + a·x + b has no root in the field -/
def NoTwoTorsion : Prop := ∀ x : Fp, x ^ 3 + ca * x + cb ≠ 0

theorem flag_parity (flag : UInt8) (hf : flag = 2 ∨ flag = 3) :
    flag.toNat - 2 = if flag = 2 then 0 else 1 := by
  rcases hf with h | h <;> subst h <;> decide

section Field
variable [hp : Fact (Nat.Prime Spec.SM2.p)]

theorem toSpec_mk_one (X Y : Fp) : toSpec (mk X Y 1) = some (X.val, Y.val) := by
  rw [toSpec_mk_of_ne one_ne_zero]; simp

theorem valid_mk_one_iff (X Y : Fp) : Valid (mk X Y 1) ↔ Y ^ 2 = X ^ 3 + ca * X + cb := by
  rw [valid_mk_iff]
  simp only [ne_eq, one_ne_zero, not_false_eq_true, forall_const, one_pow, mul_one]

theorem p_sub_enc {Y : Fp} (hY : Y ≠ 0) : Spec.SM2.p - enc Y = enc (-Y) := by
  have hne : enc Y ≠ 0 := fun h0 => hY ((enc_eq_zero_iff Y).mp h0)
  apply eq_enc_of_cast (by have := enc_lt Y; omega)
  rw [Nat.cast_sub (enc_lt Y).le, natCast_enc, ZMod.natCast_self]; ring

variable (F : FieldFacts)
include F

theorem from_byte_compressed (hNo : NoTwoTorsion) (flag : UInt8) (hf : flag = 2 ∨ flag = 3) (rest : List UInt8) :
    FromByteOK (flag :: rest) := by
  have hs := decode_comp flag hf rest
  have hi := from_byte_comp flag hf rest
  rw [F.consts.1] at hi
  by_cases hl : rest.length = 32
  · rw [if_neg (not_not.mpr hl)] at hs hi
    generalize beNat rest = x at hs hi
    by_cases hx : x < Spec.SM2.p
    · rw [if_neg (by omega)] at hs hi
      -- the right-hand side of the curve equation, in the field
      have hV : (((x * x % Spec.SM2.p * x + Spec.SM2.a * x + Spec.SM2.b) % Spec.SM2.p : ℕ) : Fp)
          = (x : Fp) ^ 3 + ca * (x : Fp) + cb := by
        rw [ZMod.natCast_mod]
        simp only [Nat.cast_add, Nat.cast_mul, ZMod.natCast_mod]
        unfold ca cb; ring
      rw [sqrtMod_eq, hV] at hs
      rw [fp_to_mont_eq F x (by have := p_lt; omega), mont_a_eq F, mont_b_eq F,
        fp_mul_enc F, fp_mul_enc F, fp_mul_enc F, fp_add_enc F, fp_add_enc F,
        show (x : Fp) * (x : Fp) * (x : Fp) + (x : Fp) * ca + cb = (x : Fp) ^ 3 + ca * (x : Fp) + cb from by ring,
        fp_sqrt_enc F] at hi
      generalize hVdef : (x : Fp) ^ 3 + ca * (x : Fp) + cb = V at hs hi
      generalize hYdef : V ^ Gen.SM2.SQRT_EXP = Y at hs hi
      by_cases hsq : Y ^ 2 = V
      · rw [if_pos hsq] at hs hi
        simp only [specComp, implComp, fp_from_mont_enc F, flag_parity flag hf, mont_one_eq F] at hs hi
        by_cases hpar : Y.val % 2 = if flag = 2 then 0 else 1
        · rw [if_pos hpar] at hs
          rw [if_neg (not_not.mpr hpar)] at hi
          refine fromByteOK_some hs hi ?_ ?_
          · exact (valid_mk_one_iff _ _).mpr (by rw [hsq, hVdef])
          · rw [show (⟨enc (x : Fp), enc Y, enc 1⟩ : Point) = mk x Y 1 from rfl, toSpec_mk_one,
              ZMod.val_cast_of_lt hx]
        · rw [if_neg hpar] at hs
          rw [if_pos hpar, fp_subP_enc F] at hi
          have hY0 : Y ≠ 0 := by
            intro h0
            apply hNo (x : Fp)
            rw [hVdef, ← hsq, h0]; ring
          rw [p_sub_enc hY0] at hi
          rw [mod_eq_val (cast_p_sub_val Y)] at hs
          refine fromByteOK_some hs hi ?_ ?_
          · exact (valid_mk_one_iff _ _).mpr (by rw [neg_sq, hsq, hVdef])
          · rw [show (⟨enc (x : Fp), enc (-Y), enc 1⟩ : Point) = mk x (-Y) 1 from rfl, toSpec_mk_one,
              ZMod.val_cast_of_lt hx]
      · rw [if_neg hsq] at hs hi
        exact fromByteOK_none hs hi
    · rw [if_pos (by omega)] at hs hi
      exact fromByteOK_none hs hi
  · rw [if_pos hl] at hs hi
    exact fromByteOK_none hs hi

theorem from_byte_uncompressed (rest : List UInt8) : FromByteOK (4 :: rest) := by
  have hs := decode_unc rest
  have hi := from_byte_unc rest
  rw [F.consts.1] at hi
  by_cases hl : rest.length = 64
  · rw [if_neg (not_not.mpr hl)] at hs hi
    generalize beNat (List.take 32 rest) = x at hs hi
    generalize beNat (List.drop 32 rest) = y at hs hi
    by_cases hx : x < Spec.SM2.p
    · by_cases hy : y < Spec.SM2.p
      · rw [if_neg (by omega), fp_to_mont_eq F x (by have := p_lt; omega),
          fp_to_mont_eq F y (by have := p_lt; omega), mont_one_eq F] at hi
        have hv : (⟨enc (x : Fp), enc (y : Fp), enc 1⟩ : Point).is_valid_affine_point = true
            ↔ Spec.EC.onCurve Spec.SM2.curve (some (x, y)) = true := by
          rw [show (⟨enc (x : Fp), enc (y : Fp), enc 1⟩ : Point) = mk x y 1 from rfl, is_valid_affine_mk F,
            valid_mk_one_iff, ← onCurve_val, ZMod.val_cast_of_lt hx, ZMod.val_cast_of_lt hy]
        by_cases hc : Spec.EC.onCurve Spec.SM2.curve (some (x, y)) = true
        · rw [if_pos ⟨hx, hy, hc⟩] at hs
          rw [if_neg (not_not.mpr (hv.mpr hc))] at hi
          refine fromByteOK_some hs hi ((is_valid_affine_mk F _ _).mp (hv.mpr hc)) ?_
          rw [show (⟨enc (x : Fp), enc (y : Fp), enc 1⟩ : Point) = mk x y 1 from rfl, toSpec_mk_one,
            ZMod.val_cast_of_lt hx, ZMod.val_cast_of_lt hy]
        · rw [if_neg (fun h => hc h.2.2)] at hs
          rw [if_pos (fun h => hc (hv.mp h))] at hi
          exact fromByteOK_none hs hi
      · rw [if_neg (fun h => hy h.2.1)] at hs
        rw [if_pos (Or.inr (by omega))] at hi
        exact fromByteOK_none hs hi
    · rw [if_neg (fun h => hx h.1)] at hs
      rw [if_pos (Or.inl (by omega))] at hi
      exact fromByteOK_none hs hi
  · rw [if_pos hl] at hs hi
    exact fromByteOK_none hs hi

/-- `from_byte` against `decodePoint`, for every byte string, given that the curve has no point of order two -/
theorem from_byte_correct_of (hNo : NoTwoTorsion) (b : List UInt8) : FromByteOK b := by
  cases b with
  | nil => exact fromByteOK_none (e := "InvalidPublic") rfl rfl
  | cons flag rest =>
    by_cases hf : flag = 2 ∨ flag = 3
    · exact from_byte_compressed F hNo flag hf rest
    · by_cases h4 : flag = 4
      · subst h4; exact from_byte_uncompressed F rest
      · exact fromByteOK_none (decode_other flag hf h4 rest) (from_byte_other flag hf h4 rest)

end Field

end GmVerif.Proofs.SM2Curve
