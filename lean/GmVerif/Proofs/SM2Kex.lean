/-
C15 (link Impl → Spec): an honest run of the key-agreement model `Impl.SM2.kex` (exchange_1 … exchange_4) computes, for
both parties, exactly what GB/T 32918.3 (`Spec.SM2.kexCompute`) says.
-/
import GmVerif.Proofs.SM2Enc

namespace GmVerif.Proofs.SM2Kex
open GmVerif
open GmVerif.Proofs.SM2Curve GmVerif.Proofs.SM2Scalar GmVerif.Proofs.SM2Protocol GmVerif.Proofs.SM2Enc
open GmVerif.Impl.SM2 (Point fp_from_mont fn_add fn_mul)
open GmVerif.Spec.SM2 (n p G curve)

theorem xbar_eq (x : ℕ) : Impl.SM2.xbar x = Spec.SM2.xBar x := by
  unfold Impl.SM2.xbar Spec.SM2.xBar Impl.SM2.pow127
  apply Nat.mod_eq_of_lt
  omega

theorem xBar_lt (x : ℕ) : Spec.SM2.xBar x < 2 ^ 256 := by
  unfold Spec.SM2.xBar; omega

theorem bytes32_eq (x : ℕ) : Impl.SM2.bytes32 x = Spec.SM2.bytes32 x := rfl

/-- t = (d + x̄·r) mod n as the model computes it -/
theorem t_eq (dS rS xb : ℕ) (hd : dS < n) (hr : rS < 2 ^ 256) (hxb : xb < 2 ^ 256) :
    fn_add dS (fn_mul rS xb) = (dS + xb * rS) % n := by
  rw [fn_mul_n rS xb hr hxb, fn_add_n dS _ hd (Nat.mod_lt _ n_pos), Nat.add_mod_mod, Nat.mul_comm]

/-- the shared point as one party computes it -/
theorem party (pPeer rPeer : Point) (hP : Valid pPeer) (hR : Valid rPeer) (xb t : ℕ) (hxb : xb < 2 ^ 256)
    (ht : t < 2 ^ 256) :
    Valid ((pPeer.point_add (rPeer.scalar_mul xb)).scalar_mul t)
      ∧ toSpec ((pPeer.point_add (rPeer.scalar_mul xb)).scalar_mul t)
          = Spec.EC.mul curve t (Spec.EC.add curve (toSpec pPeer) (Spec.EC.mul curve xb (toSpec rPeer))) := by
  have h1 := scalar_mul_good rPeer hR xb hxb
  have h2 := add_ok pPeer _ hP h1.1
  have h3 := scalar_mul_good _ h2.1 t ht
  exact ⟨h3.1, by rw [h3.2, h2.2, h1.2]⟩

/-- reading a finite valid point -/
theorem read_point (W : Point) (hW : Valid W) (x y : ℕ) (h : toSpec W = some (x, y)) :
    W.is_zero = false ∧ fp_from_mont W.to_affine_point.x = x ∧ fp_from_mont W.to_affine_point.y = y := by
  have hxy := affine_xy W hW
  rw [h] at hxy
  exact ⟨is_zero_false_of_toSpec h, hxy.1, hxy.2⟩

theorem is_valid_of_valid (W : Point) (hW : Valid W) : W.is_valid = true :=
  (is_valid_iff field_facts W ⟨hW.1, hW.2.1, hW.2.2.1⟩).mpr hW

/-- an honest run: both parties' outputs are the standard's -/
theorem kex_refines (dA dB : ℕ) (hdA : dA < n) (hdB : dB < n) (pA pB : Point) (hpA : Valid pA) (hpB : Valid pB)
    (xA yA xB yB : ℕ) (hA : toSpec pA = some (xA, yA)) (hB : toSpec pB = some (xB, yB))
    (idA idB : List UInt8) (hidA : idA.length * 8 ≤ 65535) (hidB : idB.length * 8 ≤ 65535)
    (klen : ℕ) (hklen : 1 ≤ klen) (kA kB : List UInt8) (rest : List (List UInt8))
    (hkA : 1 ≤ beNat kA ∧ beNat kA < n) (hkB : 1 ≤ beNat kB ∧ beNat kB < n)
    (a b : Spec.SM2.KexResult)
    (ha : Spec.SM2.kexCompute dA (beNat kA) (Spec.EC.mul curve (beNat kA) G) (Spec.EC.mul curve (beNat kB) G)
      (some (xB, yB)) (Spec.SM2.ZA idA xA yA) (Spec.SM2.ZA idB xB yB) klen
      (Spec.EC.mul curve (beNat kA) G) (Spec.EC.mul curve (beNat kB) G) = some a)
    (hb : Spec.SM2.kexCompute dB (beNat kB) (Spec.EC.mul curve (beNat kB) G) (Spec.EC.mul curve (beNat kA) G)
      (some (xA, yA)) (Spec.SM2.ZA idA xA yA) (Spec.SM2.ZA idB xB yB) klen
      (Spec.EC.mul curve (beNat kA) G) (Spec.EC.mul curve (beNat kB) G) = some b)
    (h1 : a.s1 = b.s1) (h2 : a.s2 = b.s2) :
    ∃ out, Impl.SM2.kex dA pA dB pB idA idB klen (kA :: kB :: rest) [] = .ok out
      ∧ out.ra = Spec.SM2.encodePoint false (Spec.EC.mul curve (beNat kA) G)
      ∧ out.rb = Spec.SM2.encodePoint false (Spec.EC.mul curve (beNat kB) G)
      ∧ out.sb = b.s1 ∧ out.sa = a.s2 ∧ out.ka = a.key ∧ out.kb = b.key := by
  have hn := n_lt
  have eza := compute_za_refines idA pA hpA (z_ne_zero_of_toSpec hA) hidA xA yA hA
  have ezb := compute_za_refines idB pB hpB (z_ne_zero_of_toSpec hB) hidB xB yB hB
  have er1 := random_u256_cons kA (kB :: rest) hkA
  have er2 := random_u256_cons kB rest hkB
  generalize beNat kA = rA at *
  generalize beNat kB = rB at *
  generalize Spec.SM2.ZA idA xA yA = za at *
  generalize Spec.SM2.ZA idB xB yB = zb at *
  -- the ephemeral points
  have gA := SM2Table.g_mul_good rA (by omega)
  have gB := SM2Table.g_mul_good rB (by omega)
  obtain ⟨⟨x1, y1⟩, hRA⟩ := Option.ne_none_iff_exists'.mp (SM2Algebra.sm2_mul_ne_none' p_prime n_prime rA hkA.1 hkA.2)
  obtain ⟨⟨x2, y2⟩, hRB⟩ := Option.ne_none_iff_exists'.mp (SM2Algebra.sm2_mul_ne_none' p_prime n_prime rB hkB.1 hkB.2)
  have onA : Spec.EC.onCurve curve (some (x1, y1)) = true := hRA ▸ SpecEC.onCurve_mul hc rA SM2Table.G_onCurve
  have onB : Spec.EC.onCurve curve (some (x2, y2)) = true := hRB ▸ SpecEC.onCurve_mul hc rB SM2Table.G_onCurve
  rw [hRA, hRB] at ha hb ⊢
  obtain ⟨zA, xa1, ya1⟩ := read_point _ gA.1 x1 y1 (gA.2.trans hRA)
  obtain ⟨zB, xb2, yb2⟩ := read_point _ gB.1 x2 y2 (gB.2.trans hRB)
  have vA := is_valid_of_valid _ gA.1
  have vB := is_valid_of_valid _ gB.1
  have encA := to_byte_correct field_facts _ gA.1 (z_ne_zero_of_toSpec (gA.2.trans hRA)) false
  have encB := to_byte_correct field_facts _ gB.1 (z_ne_zero_of_toSpec (gB.2.trans hRB)) false
  rw [gA.2, hRA] at encA
  rw [gB.2, hRB] at encB
  -- the two scalars t
  have etB := t_eq dB rB (Spec.SM2.xBar x2) hdB (by omega) (xBar_lt x2)
  have etA := t_eq dA rA (Spec.SM2.xBar x1) hdA (by omega) (xBar_lt x1)
  have htB : (dB + Spec.SM2.xBar x2 * rB) % n < 2 ^ 256 := Nat.lt_trans (Nat.mod_lt _ n_pos) hn
  have htA : (dA + Spec.SM2.xBar x1 * rA) % n < 2 ^ 256 := Nat.lt_trans (Nat.mod_lt _ n_pos) hn
  -- the shared points
  have pV := party pA (Impl.SM2.g_mul rA) hpA gA.1 (Spec.SM2.xBar x1) _ (xBar_lt x1) htB
  have pU := party pB (Impl.SM2.g_mul rB) hpB gB.1 (Spec.SM2.xBar x2) _ (xBar_lt x2) htA
  rw [hA, gA.2, hRA] at pV
  rw [hB, gB.2, hRB] at pU
  -- unfold the standard's computation
  simp only [Spec.SM2.kexCompute, onA, onB, not_true_eq_false, if_false] at ha hb
  cases hV : Spec.EC.mul curve ((dB + Spec.SM2.xBar x2 * rB) % n)
      (Spec.EC.add curve (some (xA, yA)) (Spec.EC.mul curve (Spec.SM2.xBar x1) (some (x1, y1)))) with
  | none => rw [hV] at hb; cases hb
  | some qv =>
    obtain ⟨xv, yv⟩ := qv
    cases hU : Spec.EC.mul curve ((dA + Spec.SM2.xBar x1 * rA) % n)
        (Spec.EC.add curve (some (xB, yB)) (Spec.EC.mul curve (Spec.SM2.xBar x2) (some (x2, y2)))) with
    | none => rw [hU] at ha; cases ha
    | some qu =>
      obtain ⟨xu, yu⟩ := qu
      rw [hV] at hb
      rw [hU] at ha
      simp only [Option.some.injEq] at ha hb
      subst ha hb
      dsimp only at h1 h2
      obtain ⟨zV, xvE, yvE⟩ := read_point _ pV.1 xv yv (pV.2.trans hV)
      obtain ⟨zU, xuE, yuE⟩ := read_point _ pU.1 xu yu (pU.2.trans hU)
      refine ⟨⟨Spec.SM2.encodePoint false (some (x1, y1)), Spec.SM2.encodePoint false (some (x2, y2)), _, _, _, _⟩,
        ?_, rfl, rfl, rfl, rfl, rfl, rfl⟩
      · simp only [Impl.SM2.kex, eza, ezb, er1, er2, List.contains_nil, Bool.false_eq_true, if_false, vA, vB,
          not_true_eq_false, xa1, ya1, xb2, yb2, xbar_eq, etA, etB, zV, zU, xvE, yvE, xuE, yuE, bytes32_eq, sm3_eq,
          kdf_eq _ _ hklen, h1, h2, ne_eq, encA, encB]


/-- honest run with honest keys (P_A = [d_A]G, P_B = [d_B]G): the model returns the standard's key and confirmation
values, the same for both parties -/
theorem kex_refines_honest (dA dB : ℕ) (hdA : dA < n) (hdB : dB < n) (pA pB : Point) (hpA : Valid pA) (hpB : Valid pB)
    (xA yA xB yB : ℕ) (hA : toSpec pA = some (xA, yA)) (hB : toSpec pB = some (xB, yB))
    (hPA : Spec.EC.mul curve dA G = some (xA, yA)) (hPB : Spec.EC.mul curve dB G = some (xB, yB))
    (idA idB : List UInt8) (hidA : idA.length * 8 ≤ 65535) (hidB : idB.length * 8 ≤ 65535)
    (klen : ℕ) (hklen : 1 ≤ klen) (kA kB : List UInt8) (rest : List (List UInt8))
    (hkA : 1 ≤ beNat kA ∧ beNat kA < n) (hkB : 1 ≤ beNat kB ∧ beNat kB < n)
    (a : Spec.SM2.KexResult)
    (ha : Spec.SM2.kexCompute dA (beNat kA) (Spec.EC.mul curve (beNat kA) G) (Spec.EC.mul curve (beNat kB) G)
      (Spec.EC.mul curve dB G) (Spec.SM2.ZA idA xA yA) (Spec.SM2.ZA idB xB yB) klen
      (Spec.EC.mul curve (beNat kA) G) (Spec.EC.mul curve (beNat kB) G) = some a) :
    ∃ out, Impl.SM2.kex dA pA dB pB idA idB klen (kA :: kB :: rest) [] = .ok out
      ∧ out.ra = Spec.SM2.encodePoint false (Spec.EC.mul curve (beNat kA) G)
      ∧ out.rb = Spec.SM2.encodePoint false (Spec.EC.mul curve (beNat kB) G)
      ∧ out.sb = a.s1 ∧ out.sa = a.s2 ∧ out.ka = a.key ∧ out.kb = a.key := by
  have hag := SM2Algebra.kex_agree p_prime n_prime dA dB (beNat kA) (beNat kB) hkA hkB
    (Spec.SM2.ZA idA xA yA) (Spec.SM2.ZA idB xB yB) klen
  dsimp only at hag
  have hb := hag ▸ ha
  rw [hPB] at ha
  rw [hPA] at hb
  exact kex_refines dA dB hdA hdB pA pB hpA hpB xA yA xB yB hA hB idA idB hidA hidB klen hklen kA kB rest hkA hkB
    a a ha hb rfl rfl

end GmVerif.Proofs.SM2Kex
