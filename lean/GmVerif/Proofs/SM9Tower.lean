/-
Helper lemmas for C13b: the SM9 field tower of the model (`Impl.SM9.Fp2/Fp4/Fp12`, Montgomery limbs as Nat) computes in
Fp2 = Fp[u]/(u²+2), Fp4 = Fp2[v]/(v²−u), Fp12 = Fp4[w]/(w³−v).

Method: `dec x = x·R⁻¹ ∈ ZMod p`; `Ok a x` = "the canonical limb value `a` represents `x`"; the relation is lifted to
`Ok2/Ok4/Ok12` against the abstract rings `F2/F4/F12` (`Quad`, `Cubic` of `SM9TowerAlg`), and every method of the model
is followed line by line with the `Ok` rules of the level below; the remaining goal is a `ring` identity.
The base-field facts are the hypothesis bundle `FpFacts`.
-/
import Mathlib.Algebra.Field.ZMod
import Mathlib.Tactic.Ring
import Mathlib.Tactic.LinearCombination
import GmVerif.Proofs.SM9TowerAlg
import GmVerif.Proofs.Limb
import GmVerif.Impl.SM9.Tower
import GmVerif.Spec.SM9
set_option autoImplicit false
namespace GmVerif.Proofs.SM9Tower
open GmVerif
open GmVerif.Spec.SM9 (p)

/-- the base-field facts (proved elsewhere) -/
structure FpFacts : Prop where
  prime : Nat.Prime p
  mul : ∀ a b, a < p → b < p → Impl.SM9.fp_mul a b < p ∧ (Impl.SM9.fp_mul a b * 2^256) % p = (a * b) % p
  add : ∀ a b, a < p → b < p → Impl.SM9.fp_add a b = (a + b) % p
  sub : ∀ a b, a < p → b < p → Impl.SM9.fp_sub a b = (a + p - b) % p
  neg : ∀ a, a < p → Impl.SM9.fp_neg a = (p - a) % p
  div2 : ∀ a, a < p → Impl.SM9.fp_div2 a < p ∧ (2 * Impl.SM9.fp_div2 a) % p = a
  inv : ∀ a, a < p → Impl.SM9.fp_inv a < p ∧ (a ≠ 0 → Impl.SM9.fp_mul a (Impl.SM9.fp_inv a) = 2^256 % p) ∧ (a = 0 → Impl.SM9.fp_inv a = 0)
  consts : Gen.SM9.P = Spec.SM9.p

/-! ### the abstract tower -/

abbrev K : Type := ZMod p
/-- Fp2 = Fp[u]/(u² + 2) -/
abbrev F2 : Type := Quad K (-2)
/-- Fp4 = Fp2[v]/(v² − u) -/
abbrev F4 : Type := Quad F2 Quad.root
/-- Fp12 = Fp4[w]/(w³ − v) -/
abbrev F12 : Type := Cubic F4 Quad.root

/-- u ∈ Fp2, v ∈ Fp4, w ∈ Fp12 -/
abbrev u : F2 := Quad.root
abbrev v : F4 := Quad.root
abbrev w : F12 := Cubic.root

theorem u_sq : u * u = -2 := by ext <;> simp [Quad.two_eq]
theorem v_sq : v * v = Quad.of u := Quad.root_sq
theorem w_cube : w * w * w = Cubic.of v := Cubic.root_cube

/-! ### decoding -/

/-- R⁻¹ for R = 2^256 (`ZMod`'s total inverse; R is a unit because p is odd) -/
def Rinv : K := ((2 : K) ^ 256)⁻¹
/-- the Montgomery decoding x ↦ x·R⁻¹ -/
def dec (x : Nat) : K := (x : K) * Rinv
/-- 1/2 -/
def half : K := ((2 : Nat) : K)⁻¹

theorem p_odd : p % 2 = 1 := by decide
theorem p_pos : 0 < p := by decide
theorem one_lt_p : 1 < p := by unfold Spec.SM9.p; omega

theorem R_Rinv : (2 : K) ^ 256 * Rinv = 1 := by
  have h : Nat.Coprime (2 ^ 256) p := Nat.Coprime.pow_left _ (Nat.coprime_two_left.2 (Nat.odd_iff.2 p_odd))
  have := ZMod.coe_mul_inv_eq_one (n := p) (2 ^ 256) h
  rw [Rinv]; simp only [Nat.cast_pow, Nat.cast_ofNat] at this; exact this

theorem two_half : (2 : K) * half = 1 := by
  have h : Nat.Coprime 2 p := Nat.coprime_two_left.2 (Nat.odd_iff.2 p_odd)
  have := ZMod.coe_mul_inv_eq_one (n := p) 2 h
  rw [half]; push_cast at this ⊢; exact this

theorem two_ne_zero' : (2 : K) ≠ 0 := by
  intro h; have := two_half; rw [h, zero_mul] at this
  have hp : Fact (1 < p) := ⟨one_lt_p⟩
  exact zero_ne_one this

theorem dec_zero : dec 0 = 0 := by simp [dec]

theorem dec_eq_zero {a : Nat} (ha : a < p) (h : dec a = 0) : a = 0 := by
  have h1 : (a : K) = 0 := by
    have : (a : K) = (a : K) * ((2 : K) ^ 256 * Rinv) := by rw [R_Rinv, mul_one]
    rw [this]; unfold dec at h; linear_combination (2 : K) ^ 256 * h
  have := (ZMod.natCast_eq_zero_iff a p).1 h1
  exact Nat.eq_zero_of_dvd_of_lt this ha

/-- `a` is canonical and represents `x` -/
@[reducible] def Ok (a : Nat) (x : K) : Prop := a < p ∧ dec a = x

theorem Ok.cast {a : Nat} {x y : K} (h : Ok a x) (e : x = y) : Ok a y := e ▸ h
theorem ok_dec {a : Nat} (h : a < p) : Ok a (dec a) := ⟨h, rfl⟩
theorem ok_zero : Ok 0 0 := ⟨p_pos, dec_zero⟩
theorem Ok.eq_zero_iff {a : Nat} {x : K} (h : Ok a x) : a = 0 ↔ x = 0 := by
  constructor
  · rintro rfl; rw [← h.2, dec_zero]
  · intro hx; exact dec_eq_zero h.1 (h.2.trans hx)
theorem dec_inj {a b : Nat} (ha : a < p) (hb : b < p) (h : dec a = dec b) : a = b := by
  have h1 : (a : K) = (b : K) := by
    have e : ∀ t : K, t = t * Rinv * (2 : K) ^ 256 := fun t => by linear_combination (-t) * R_Rinv
    rw [e a, e b]; unfold dec at h; rw [h]
  have := (ZMod.natCast_eq_natCast_iff' a b p).1 h1
  rwa [Nat.mod_eq_of_lt ha, Nat.mod_eq_of_lt hb] at this
theorem Ok.eq_iff {a b : Nat} {x y : K} (ha : Ok a x) (hb : Ok b y) : a = b ↔ x = y := by
  constructor
  · intro h; rw [← ha.2, ← hb.2, h]
  · intro h; exact dec_inj ha.1 hb.1 (ha.2.trans (h.trans hb.2.symm))
theorem Ok.is_zero_iff {a : Nat} {x : K} (h : Ok a x) : Impl.SM9.fp_is_zero a = true ↔ x = 0 := by
  rw [← h.eq_zero_iff]; simp [Impl.SM9.fp_is_zero]

theorem mont_one_eq : Gen.SM9.MODP_MONT_ONE = 2 ^ 256 % p := by decide
theorem ok_one : Ok Gen.SM9.MODP_MONT_ONE 1 := by
  refine ⟨by unfold Gen.SM9.MODP_MONT_ONE Spec.SM9.p; omega, ?_⟩
  rw [mont_one_eq, dec, ZMod.natCast_mod]; simp only [Nat.cast_pow, Nat.cast_ofNat]; exact R_Rinv

theorem hasInvK (hp : Nat.Prime p) : HasInv K := by
  have : Fact (Nat.Prime p) := ⟨hp⟩
  exact HasInv.of_field

namespace FpFacts
variable (F : FpFacts) {a b : Nat} {x y : K}
include F

theorem omul (ha : Ok a x) (hb : Ok b y) : Ok (Impl.SM9.fp_mul a b) (x * y) := by
  obtain ⟨ha, rfl⟩ := ha; obtain ⟨hb, rfl⟩ := hb
  obtain ⟨h1, h2⟩ := F.mul a b ha hb
  refine ⟨h1, ?_⟩
  have h3 : ((Impl.SM9.fp_mul a b * 2 ^ 256 : Nat) : K) = ((a * b : Nat) : K) :=
    (ZMod.natCast_eq_natCast_iff' _ _ _).2 h2
  simp only [Nat.cast_mul, Nat.cast_pow, Nat.cast_ofNat] at h3
  unfold dec
  linear_combination Rinv ^ 2 * h3 - (Impl.SM9.fp_mul a b : K) * Rinv * R_Rinv

theorem osqr (ha : Ok a x) : Ok (Impl.SM9.fp_sqr a) (x * x) := F.omul ha ha

theorem oadd (ha : Ok a x) (hb : Ok b y) : Ok (Impl.SM9.fp_add a b) (x + y) := by
  obtain ⟨ha, rfl⟩ := ha; obtain ⟨hb, rfl⟩ := hb
  rw [F.add a b ha hb]
  refine ⟨Nat.mod_lt _ p_pos, ?_⟩
  rw [dec, ZMod.natCast_mod]; push_cast; unfold dec; ring

theorem odbl (ha : Ok a x) : Ok (Impl.SM9.fp_double a) (x + x) := F.oadd ha ha
theorem otriple (ha : Ok a x) : Ok (Impl.SM9.fp_triple a) (x + x + x) := F.oadd (F.odbl ha) ha

theorem osub (ha : Ok a x) (hb : Ok b y) : Ok (Impl.SM9.fp_sub a b) (x - y) := by
  obtain ⟨ha, rfl⟩ := ha; obtain ⟨hb, rfl⟩ := hb
  rw [F.sub a b ha hb]
  refine ⟨Nat.mod_lt _ p_pos, ?_⟩
  rw [dec, ZMod.natCast_mod, Nat.cast_sub (by omega)]; push_cast
  rw [ZMod.natCast_self]; unfold dec; ring

theorem oneg (ha : Ok a x) : Ok (Impl.SM9.fp_neg a) (-x) := by
  obtain ⟨ha, rfl⟩ := ha
  rw [F.neg a ha]
  refine ⟨Nat.mod_lt _ p_pos, ?_⟩
  rw [dec, ZMod.natCast_mod, Nat.cast_sub (by omega)]
  rw [ZMod.natCast_self]; unfold dec; ring

theorem odiv2 (ha : Ok a x) : Ok (Impl.SM9.fp_div2 a) (x * half) := by
  obtain ⟨ha, rfl⟩ := ha
  obtain ⟨h1, h2⟩ := F.div2 a ha
  refine ⟨h1, ?_⟩
  have h3 : ((2 * Impl.SM9.fp_div2 a % p : Nat) : K) = (a : K) := by rw [h2]
  rw [ZMod.natCast_mod] at h3; push_cast at h3
  unfold dec
  linear_combination half * Rinv * h3 - (Impl.SM9.fp_div2 a : K) * Rinv * two_half

/-- the inverse, relationally: for x ≠ 0 the result represents some y with x·y = 1 -/
theorem oinv (ha : Ok a x) (hx : x ≠ 0) : ∃ y, Ok (Impl.SM9.fp_inv a) y ∧ x * y = 1 := by
  obtain ⟨h1, h2, _⟩ := F.inv a ha.1
  have hne : a ≠ 0 := fun h => hx (ha.eq_zero_iff.1 h)
  have hm := F.omul ha (ok_dec h1)
  rw [h2 hne, ← mont_one_eq] at hm
  exact ⟨_, ok_dec h1, hm.2.symm.trans ok_one.2⟩

theorem oinv_zero (ha : Ok a 0) : Ok (Impl.SM9.fp_inv a) 0 := by
  obtain ⟨_, _, h3⟩ := F.inv a ha.1
  rw [h3 (ha.eq_zero_iff.2 rfl)]; exact ok_zero

end FpFacts

/-! ### Fp2 -/

/- from here on the base-field operations are opaque to the unifier: only the `Ok` rules above are used -/
attribute [local irreducible] Impl.SM9.fp_mul Impl.SM9.fp_sqr Impl.SM9.fp_add Impl.SM9.fp_sub Impl.SM9.fp_double
  Impl.SM9.fp_triple Impl.SM9.fp_neg Impl.SM9.fp_div2 Impl.SM9.fp_inv

open _root_.GmVerif.Impl.SM9 (Fp2 Fp4 Fp12 Line)

/-- projections of the abstract operations, then `ring` -/
macro "tower_simp" : tactic => `(tactic| try simp only [Quad.zero_c0, Quad.zero_c1, Quad.one_c0, Quad.one_c1,
  Quad.add_c0, Quad.add_c1, Quad.neg_c0, Quad.neg_c1, Quad.sub_c0, Quad.sub_c1, Quad.mul_c0, Quad.mul_c1,
  Quad.of_c0, Quad.of_c1, Quad.root_c0, Quad.root_c1, Quad.conj_c0, Quad.conj_c1,
  Cubic.zero_c0, Cubic.zero_c1, Cubic.zero_c2, Cubic.one_c0, Cubic.one_c1, Cubic.one_c2,
  Cubic.add_c0, Cubic.add_c1, Cubic.add_c2, Cubic.neg_c0, Cubic.neg_c1, Cubic.neg_c2,
  Cubic.sub_c0, Cubic.sub_c1, Cubic.sub_c2, Cubic.mul_c0, Cubic.mul_c1, Cubic.mul_c2,
  Cubic.of_c0, Cubic.of_c1, Cubic.of_c2, Cubic.root_c0, Cubic.root_c1, Cubic.root_c2])
macro "tower_ring" : tactic => `(tactic| (tower_simp; ring))

def dec2 (a : Fp2) : F2 := ⟨dec a.c0, dec a.c1⟩
@[reducible] def Canon2 (a : Fp2) : Prop := a.c0 < p ∧ a.c1 < p
@[reducible] def Ok2 (a : Fp2) (x : F2) : Prop := Ok a.c0 x.c0 ∧ Ok a.c1 x.c1

theorem ok2_iff {a : Fp2} {x : F2} : Ok2 a x ↔ Canon2 a ∧ dec2 a = x := by
  constructor
  · rintro ⟨⟨h0, e0⟩, ⟨h1, e1⟩⟩; exact ⟨⟨h0, h1⟩, Quad.ext e0 e1⟩
  · rintro ⟨⟨h0, h1⟩, rfl⟩; exact ⟨⟨h0, rfl⟩, ⟨h1, rfl⟩⟩
theorem ok2_dec {a : Fp2} (h : Canon2 a) : Ok2 a (dec2 a) := ok2_iff.2 ⟨h, rfl⟩
theorem Ok2.cast {a : Fp2} {x y : F2} (h : Ok2 a x) (e : x = y) : Ok2 a y := e ▸ h
theorem Ok2.out {a : Fp2} {x : F2} (h : Ok2 a x) : Canon2 a ∧ dec2 a = x := ok2_iff.1 h
theorem ok2_zero : Ok2 Fp2.zero 0 := ⟨ok_zero, ok_zero⟩
theorem ok2_one : Ok2 Fp2.one 1 := ⟨ok_one, ok_zero⟩
theorem Ok2.eq_zero_iff {a : Fp2} {x : F2} (h : Ok2 a x) : a = Fp2.zero ↔ x = 0 := by
  rw [Quad.ext_iff, Quad.zero_c0, Quad.zero_c1, ← h.1.eq_zero_iff, ← h.2.eq_zero_iff]
  cases a; simp [Fp2.zero]
theorem Ok2.is_zero_iff {a : Fp2} {x : F2} (h : Ok2 a x) : a.is_zero = true ↔ x = 0 := by
  rw [Quad.ext_iff, Quad.zero_c0, Quad.zero_c1, ← h.1.is_zero_iff, ← h.2.is_zero_iff]
  simp [Fp2.is_zero]
/-- `PartialEq::eq` decides equality of the represented elements -/
theorem Ok2.eq_iff {a b : Fp2} {x y : F2} (ha : Ok2 a x) (hb : Ok2 b y) : a.eq b = true ↔ x = y := by
  rw [Quad.ext_iff, ← ha.1.eq_iff hb.1, ← ha.2.eq_iff hb.2]; simp [Fp2.eq]

namespace FpFacts
variable (F : FpFacts) {a b : Fp2} {x y : F2}
include F

theorem o2_mul_fp (ha : Ok2 a x) {k : Nat} {z : K} (hk : Ok k z) : Ok2 (a.fp_mul_fp k) (x * Quad.of z) :=
  ⟨(F.omul ha.1 hk).cast (by tower_ring), (F.omul ha.2 hk).cast (by tower_ring)⟩

theorem o2_sqr (ha : Ok2 a x) : Ok2 a.fp_sqr (x * x) := by
  have r1 := F.omul ha.1 ha.2
  have t0 := F.oadd ha.1 ha.2
  have t1 := F.osub ha.1 (F.odbl ha.2)
  have r0 := F.oadd (F.omul t0 t1) r1
  exact ⟨r0.cast (by tower_ring), (F.odbl r1).cast (by tower_ring)⟩

theorem o2_double (ha : Ok2 a x) : Ok2 a.fp_double (x + x) := ⟨F.odbl ha.1, F.odbl ha.2⟩
theorem o2_triple (ha : Ok2 a x) : Ok2 a.fp_triple (x + x + x) := ⟨F.otriple ha.1, F.otriple ha.2⟩
theorem o2_add (ha : Ok2 a x) (hb : Ok2 b y) : Ok2 (a.fp_add b) (x + y) := ⟨F.oadd ha.1 hb.1, F.oadd ha.2 hb.2⟩
theorem o2_sub (ha : Ok2 a x) (hb : Ok2 b y) : Ok2 (a.fp_sub b) (x - y) := ⟨F.osub ha.1 hb.1, F.osub ha.2 hb.2⟩
theorem o2_neg (ha : Ok2 a x) : Ok2 a.fp_neg (-x) := ⟨F.oneg ha.1, F.oneg ha.2⟩

theorem o2_mul (ha : Ok2 a x) (hb : Ok2 b y) : Ok2 (a.fp_mul b) (x * y) := by
  have r0 := F.oadd ha.1 ha.2
  have t := F.oadd hb.1 hb.2
  have r1 := F.omul t r0
  have r0 := F.omul ha.1 hb.1
  have t := F.omul ha.2 hb.2
  have r1 := F.osub (F.osub r1 r0) t
  have r0 := F.osub r0 (F.odbl t)
  exact ⟨r0.cast (by tower_ring), r1.cast (by tower_ring)⟩

theorem o2_div2 (ha : Ok2 a x) : Ok2 a.fp_div2 (x * Quad.of half) :=
  ⟨(F.odiv2 ha.1).cast (by tower_ring), (F.odiv2 ha.2).cast (by tower_ring)⟩

theorem o2_conj (ha : Ok2 a x) : Ok2 a.conjugate x.conj := ⟨ha.1, F.oneg ha.2⟩

theorem o2_a_mul_u (ha : Ok2 a x) : Ok2 a.a_mul_u (x * u) :=
  ⟨(F.oneg (F.odbl ha.2)).cast (by tower_ring), ha.1.cast (by tower_ring)⟩

theorem o2_mul_u (ha : Ok2 a x) (hb : Ok2 b y) : Ok2 (a.fp_mul_u b) (x * y * u) := by
  have t0 := F.oadd ha.1 ha.2
  have t1 := F.oadd hb.1 hb.2
  have t2 := F.omul t0 t1
  have t0 := F.omul ha.1 hb.1
  have t1 := F.omul ha.2 hb.2
  have t2 := F.oneg (F.odbl (F.osub (F.osub t2 t0) t1))
  have t0 := F.osub t0 (F.odbl t1)
  exact ⟨t2.cast (by tower_ring), t0.cast (by tower_ring)⟩

theorem o2_sqr_u (ha : Ok2 a x) : Ok2 a.sqr_u (x * x * u) := by
  have r0 := F.oneg (F.odbl (F.odbl (F.omul ha.1 ha.2)))
  have r1 := F.osub (F.osqr ha.1) (F.odbl (F.osqr ha.2))
  exact ⟨r0.cast (by tower_ring), r1.cast (by tower_ring)⟩

/-- inversion, all three branches; −2 a non-residue makes the norm of a non-zero element non-zero -/
theorem o2_inv (hnr : ∀ t : K, t ^ 2 ≠ -2) (ha : Ok2 a x) (hx : x ≠ 0) : ∃ y, Ok2 a.fp_inv y ∧ x * y = 1 := by
  unfold Fp2.fp_inv
  split
  · next h0 =>
    have hx0 : x.c0 = 0 := ha.1.is_zero_iff.1 h0
    have hx1 : x.c1 ≠ 0 := fun h => hx (Quad.ext hx0 h)
    have hd : x.c1 + x.c1 ≠ 0 := by
      intro h; apply hx1
      linear_combination half * h - x.c1 * two_half
    obtain ⟨k, hk, ek⟩ := F.oinv (F.odbl ha.2) hd
    refine ⟨⟨0, -k⟩, ⟨ok_zero, F.oneg hk⟩, ?_⟩
    ext
    · tower_simp; rw [hx0]; linear_combination ek
    · tower_simp; rw [hx0]; ring
  · split
    · next h0 h1 =>
      have hx1 : x.c1 = 0 := ha.2.is_zero_iff.1 h1
      have hx0 : x.c0 ≠ 0 := fun h => hx (Quad.ext h hx1)
      obtain ⟨k, hk, ek⟩ := F.oinv ha.1 hx0
      refine ⟨⟨k, 0⟩, ⟨hk, ok_zero⟩, ?_⟩
      ext
      · tower_simp; rw [hx1]; linear_combination ek
      · tower_simp; rw [hx1]; ring
    · have hn : x.c0 * x.c0 + (x.c1 * x.c1 + x.c1 * x.c1) ≠ 0 := by
        have := Quad.norm_ne_zero (hasInvK F.prime) hnr hx
        intro h; apply this; unfold Quad.norm; linear_combination h
      obtain ⟨k, hk, ek⟩ := F.oinv (F.oadd (F.osqr ha.1) (F.odbl (F.osqr ha.2))) hn
      refine ⟨⟨x.c0 * k, -(x.c1 * k)⟩, ⟨F.omul ha.1 hk, F.oneg (F.omul ha.2 hk)⟩, ?_⟩
      ext
      · tower_simp; linear_combination ek
      · tower_simp; ring

/-- `div` = multiplication by the inverse -/
theorem o2_div (hnr : ∀ t : K, t ^ 2 ≠ -2) (ha : Ok2 a x) (hb : Ok2 b y) (hy : y ≠ 0) :
    ∃ z, Ok2 (a.div b) z ∧ z * y = x := by
  obtain ⟨y', hy', e⟩ := F.o2_inv hnr hb hy
  exact ⟨x * y', F.o2_mul ha hy', by linear_combination x * e⟩

end FpFacts

/-- F2 is a field when −2 is a non-residue -/
theorem hasInvF2 (hp : Nat.Prime p) (hnr : ∀ t : K, t ^ 2 ≠ -2) : HasInv F2 := Quad.hasInv (hasInvK hp) hnr


/-! ### Fp4 -/

attribute [local irreducible] Fp2.fp_mul_fp Fp2.fp_sqr Fp2.fp_double Fp2.fp_triple Fp2.fp_add Fp2.fp_sub Fp2.fp_mul
  Fp2.fp_neg Fp2.fp_div2 Fp2.fp_inv Fp2.conjugate Fp2.a_mul_u Fp2.fp_mul_u Fp2.sqr_u

def dec4 (a : Fp4) : F4 := ⟨dec2 a.c0, dec2 a.c1⟩
@[reducible] def Canon4 (a : Fp4) : Prop := Canon2 a.c0 ∧ Canon2 a.c1
@[reducible] def Ok4 (a : Fp4) (x : F4) : Prop := Ok2 a.c0 x.c0 ∧ Ok2 a.c1 x.c1

theorem ok4_iff {a : Fp4} {x : F4} : Ok4 a x ↔ Canon4 a ∧ dec4 a = x := by
  constructor
  · rintro ⟨h0, h1⟩; exact ⟨⟨h0.out.1, h1.out.1⟩, Quad.ext h0.out.2 h1.out.2⟩
  · rintro ⟨⟨h0, h1⟩, rfl⟩; exact ⟨ok2_dec h0, ok2_dec h1⟩
theorem ok4_dec {a : Fp4} (h : Canon4 a) : Ok4 a (dec4 a) := ok4_iff.2 ⟨h, rfl⟩
theorem Ok4.cast {a : Fp4} {x y : F4} (h : Ok4 a x) (e : x = y) : Ok4 a y := e ▸ h
theorem Ok4.out {a : Fp4} {x : F4} (h : Ok4 a x) : Canon4 a ∧ dec4 a = x := ok4_iff.1 h
theorem ok4_zero : Ok4 Fp4.zero 0 := ⟨ok2_zero, ok2_zero⟩
theorem ok4_one : Ok4 Fp4.one 1 := ⟨ok2_one, ok2_zero⟩
theorem ok4_mont_one : Ok4 Fp4.mont_one 1 := ⟨ok2_one, ok2_zero⟩
theorem Ok4.is_zero_iff {a : Fp4} {x : F4} (h : Ok4 a x) : a.is_zero = true ↔ x = 0 := by
  rw [Quad.ext_iff, Quad.zero_c0, Quad.zero_c1, ← h.1.is_zero_iff, ← h.2.is_zero_iff]
  simp [Fp4.is_zero]
theorem Ok4.eq_iff {a b : Fp4} {x y : F4} (ha : Ok4 a x) (hb : Ok4 b y) : a.eq b = true ↔ x = y := by
  rw [Quad.ext_iff, ← ha.1.eq_iff hb.1, ← ha.2.eq_iff hb.2]; simp [Fp4.eq]

/-- 1/2 in Fp2 and Fp4 -/
def half2 : F2 := Quad.of half
def half4 : F4 := Quad.of half2
theorem two_half2 : (2 : F2) * half2 = 1 := by rw [half2, Quad.two_eq, ← Quad.of_mul, two_half, Quad.of_one]
theorem two_half4 : (2 : F4) * half4 = 1 := by rw [half4, Quad.two_eq, ← Quad.of_mul, two_half2, Quad.of_one]

namespace FpFacts
variable (F : FpFacts) {a b : Fp4} {x y : F4}
include F

theorem o4_mul_fp (ha : Ok4 a x) {k : Nat} {z : K} (hk : Ok k z) : Ok4 (a.fp_mul_fp k) (x * Quad.of (Quad.of z)) :=
  ⟨(F.o2_mul_fp ha.1 hk).cast (by tower_ring), (F.o2_mul_fp ha.2 hk).cast (by tower_ring)⟩

theorem o4_mul_fp2 (ha : Ok4 a x) {k : Fp2} {z : F2} (hk : Ok2 k z) : Ok4 (a.fp_mul_fp2 k) (x * Quad.of z) :=
  ⟨(F.o2_mul ha.1 hk).cast (by tower_ring), (F.o2_mul ha.2 hk).cast (by tower_ring)⟩

theorem o4_sqr (ha : Ok4 a x) : Ok4 a.fp_sqr (x * x) := by
  have r1 := F.o2_sqr (F.o2_add ha.1 ha.2)
  have r0 := F.o2_sqr ha.1
  have t := F.o2_sqr ha.2
  have r1 := F.o2_sub (F.o2_sub r1 r0) t
  have r0 := F.o2_add r0 (F.o2_a_mul_u t)
  exact ⟨r0.cast (by tower_ring), r1.cast (by tower_ring)⟩

theorem o4_double (ha : Ok4 a x) : Ok4 a.fp_double (x + x) := ⟨F.o2_double ha.1, F.o2_double ha.2⟩
theorem o4_triple (ha : Ok4 a x) : Ok4 a.fp_triple (x + x + x) := ⟨F.o2_triple ha.1, F.o2_triple ha.2⟩
theorem o4_add (ha : Ok4 a x) (hb : Ok4 b y) : Ok4 (a.fp_add b) (x + y) := ⟨F.o2_add ha.1 hb.1, F.o2_add ha.2 hb.2⟩
theorem o4_sub (ha : Ok4 a x) (hb : Ok4 b y) : Ok4 (a.fp_sub b) (x - y) := ⟨F.o2_sub ha.1 hb.1, F.o2_sub ha.2 hb.2⟩
theorem o4_neg (ha : Ok4 a x) : Ok4 a.fp_neg (-x) := ⟨F.o2_neg ha.1, F.o2_neg ha.2⟩

theorem o4_mul (ha : Ok4 a x) (hb : Ok4 b y) : Ok4 (a.fp_mul b) (x * y) := by
  have r0 := F.o2_add ha.1 ha.2
  have t := F.o2_add hb.1 hb.2
  have r1 := F.o2_mul t r0
  have r0 := F.o2_mul ha.1 hb.1
  have t := F.o2_mul ha.2 hb.2
  have r1 := F.o2_sub (F.o2_sub r1 r0) t
  have r0 := F.o2_add r0 (F.o2_a_mul_u t)
  exact ⟨r0.cast (by tower_ring), r1.cast (by tower_ring)⟩

theorem o4_div2 (ha : Ok4 a x) : Ok4 a.fp_div2 (x * half4) :=
  ⟨(F.o2_div2 ha.1).cast (by rw [half4]; tower_simp; rw [half2]; ring),
   (F.o2_div2 ha.2).cast (by rw [half4]; tower_simp; rw [half2]; ring)⟩

theorem o4_mul_v (ha : Ok4 a x) (hb : Ok4 b y) : Ok4 (a.fp_mul_v b) (x * y * v) := by
  have r0 := F.o2_add (F.o2_mul_u ha.1 hb.2) (F.o2_mul_u ha.2 hb.1)
  have r1 := F.o2_add (F.o2_mul ha.1 hb.1) (F.o2_mul_u ha.2 hb.2)
  exact ⟨r0.cast (by tower_ring), r1.cast (by tower_ring)⟩

theorem o4_a_mul_v (ha : Ok4 a x) : Ok4 a.a_mul_v (x * v) :=
  ⟨(F.o2_a_mul_u ha.2).cast (by tower_ring), ha.1.cast (by tower_ring)⟩

theorem o4_conj (ha : Ok4 a x) : Ok4 a.conjugate x.conj := ⟨ha.1, F.o2_neg ha.2⟩

theorem o4_sqr_v (ha : Ok4 a x) : Ok4 a.sqr_v (x * x * v) := by
  have r0 := F.o2_double (F.o2_mul_u ha.1 ha.2)
  have r1 := F.o2_add (F.o2_sqr ha.1) (F.o2_sqr_u ha.2)
  exact ⟨r0.cast (by tower_ring), r1.cast (by tower_ring)⟩

/-- inversion: k = a1²·u − a0² = −norm(a) is non-zero because u is a non-square in Fp2 -/
theorem o4_inv (hnr : ∀ t : K, t ^ 2 ≠ -2) (hnr2 : ∀ t : F2, t ^ 2 ≠ u) (ha : Ok4 a x) (hx : x ≠ 0) :
    ∃ y, Ok4 a.fp_inv y ∧ x * y = 1 := by
  have hk : x.c1 * x.c1 * u - x.c0 * x.c0 ≠ 0 := by
    have := Quad.norm_ne_zero (hasInvF2 F.prime hnr) hnr2 hx
    intro h; apply this; unfold Quad.norm; linear_combination -h
  obtain ⟨k, hk', ek⟩ := F.o2_inv hnr (F.o2_sub (F.o2_sqr_u ha.2) (F.o2_sqr ha.1)) hk
  refine ⟨⟨-(x.c0 * k), x.c1 * k⟩, ⟨F.o2_neg (F.o2_mul ha.1 hk'), F.o2_mul ha.2 hk'⟩, ?_⟩
  ext : 1
  · tower_simp; linear_combination ek
  · tower_simp; ring

end FpFacts

/-- F4 is a field when −2 is a non-residue in Fp and u a non-square in Fp2 -/
theorem hasInvF4 (hp : Nat.Prime p) (hnr : ∀ t : K, t ^ 2 ≠ -2) (hnr2 : ∀ t : F2, t ^ 2 ≠ u) : HasInv F4 :=
  Quad.hasInv (hasInvF2 hp hnr) hnr2


/-! ### Fp12 -/

attribute [local irreducible] Fp4.fp_mul_fp Fp4.fp_mul_fp2 Fp4.fp_sqr Fp4.fp_double Fp4.fp_triple Fp4.fp_add Fp4.fp_sub
  Fp4.fp_mul Fp4.fp_neg Fp4.fp_div2 Fp4.fp_inv Fp4.fp_mul_v Fp4.a_mul_v Fp4.conjugate Fp4.sqr_v

def dec12 (a : Fp12) : F12 := ⟨dec4 a.c0, dec4 a.c1, dec4 a.c2⟩
@[reducible] def Canon12 (a : Fp12) : Prop := Canon4 a.c0 ∧ Canon4 a.c1 ∧ Canon4 a.c2
@[reducible] def Ok12 (a : Fp12) (x : F12) : Prop := Ok4 a.c0 x.c0 ∧ Ok4 a.c1 x.c1 ∧ Ok4 a.c2 x.c2

theorem ok12_iff {a : Fp12} {x : F12} : Ok12 a x ↔ Canon12 a ∧ dec12 a = x := by
  constructor
  · rintro ⟨h0, h1, h2⟩; exact ⟨⟨h0.out.1, h1.out.1, h2.out.1⟩, Cubic.ext h0.out.2 h1.out.2 h2.out.2⟩
  · rintro ⟨⟨h0, h1, h2⟩, rfl⟩; exact ⟨ok4_dec h0, ok4_dec h1, ok4_dec h2⟩
theorem ok12_dec {a : Fp12} (h : Canon12 a) : Ok12 a (dec12 a) := ok12_iff.2 ⟨h, rfl⟩
theorem Ok12.cast {a : Fp12} {x y : F12} (h : Ok12 a x) (e : x = y) : Ok12 a y := e ▸ h
theorem Ok12.out {a : Fp12} {x : F12} (h : Ok12 a x) : Canon12 a ∧ dec12 a = x := ok12_iff.1 h
theorem ok12_zero : Ok12 Fp12.zero 0 := ⟨ok4_zero, ok4_zero, ok4_zero⟩
theorem ok12_one : Ok12 Fp12.one 1 := ⟨ok4_one, ok4_zero, ok4_zero⟩
theorem Ok12.is_zero_iff {a : Fp12} {x : F12} (h : Ok12 a x) : a.is_zero = true ↔ x = 0 := by
  rw [Cubic.ext_iff, Cubic.zero_c0, Cubic.zero_c1, Cubic.zero_c2, ← h.1.is_zero_iff, ← h.2.1.is_zero_iff,
    ← h.2.2.is_zero_iff]
  simp [Fp12.is_zero, and_assoc]
theorem Ok12.eq_iff {a b : Fp12} {x y : F12} (ha : Ok12 a x) (hb : Ok12 b y) : a.eq b = true ↔ x = y := by
  rw [Cubic.ext_iff, ← ha.1.eq_iff hb.1, ← ha.2.1.eq_iff hb.2.1, ← ha.2.2.eq_iff hb.2.2]; simp [Fp12.eq, and_assoc]

/-- 1/2 in Fp12 -/
def half12 : F12 := Cubic.of half4

/-- the sparse element of `fp_line_mul`: l0 + l1·w² + l2·w³ (w³ = v), i.e. coefficients (l0 + l2·v, 0, l1) -/
def lineElt (l0 l1 l2 : F2) : F12 := ⟨⟨l0, l2⟩, 0, ⟨l1, 0⟩⟩

theorem lineElt_eq (l0 l1 l2 : F2) :
    lineElt l0 l1 l2 = Cubic.of (Quad.of l0) + Cubic.of (Quad.of l1) * (w * w) + Cubic.of (Quad.of l2) * (w * w * w) := by
  rw [w_cube]
  ext <;> simp [lineElt]

namespace FpFacts
variable (F : FpFacts) {a b : Fp12} {x y : F12}
include F

theorem o12_double (ha : Ok12 a x) : Ok12 a.fp_double (x + x) :=
  ⟨F.o4_double ha.1, F.o4_double ha.2.1, F.o4_double ha.2.2⟩
theorem o12_add (ha : Ok12 a x) (hb : Ok12 b y) : Ok12 (a.fp_add b) (x + y) :=
  ⟨F.o4_add ha.1 hb.1, F.o4_add ha.2.1 hb.2.1, F.o4_add ha.2.2 hb.2.2⟩
theorem o12_sub (ha : Ok12 a x) (hb : Ok12 b y) : Ok12 (a.fp_sub b) (x - y) :=
  ⟨F.o4_sub ha.1 hb.1, F.o4_sub ha.2.1 hb.2.1, F.o4_sub ha.2.2 hb.2.2⟩
theorem o12_neg (ha : Ok12 a x) : Ok12 a.fp_neg (-x) := ⟨F.o4_neg ha.1, F.o4_neg ha.2.1, F.o4_neg ha.2.2⟩
theorem o12_triple (ha : Ok12 a x) : Ok12 a.fp_triple (x + x + x) := F.o12_add (F.o12_double ha) ha
theorem o12_div2 (ha : Ok12 a x) : Ok12 a.fp_div2 (x * half12) :=
  ⟨(F.o4_div2 ha.1).cast (by rw [half12]; tower_ring), (F.o4_div2 ha.2.1).cast (by rw [half12]; tower_ring),
   (F.o4_div2 ha.2.2).cast (by rw [half12]; tower_ring)⟩

theorem o12_mul (ha : Ok12 a x) (hb : Ok12 b y) : Ok12 (a.fp_mul b) (x * y) := by
  obtain ⟨a0, a1, a2⟩ := ha; obtain ⟨b0, b1, b2⟩ := hb
  have m0 := F.o4_mul a0 b0
  have m1 := F.o4_mul a1 b1
  have m2 := F.o4_mul a2 b2
  have t := F.o4_mul (F.o4_add a1 a2) (F.o4_add b1 b2)
  have r0 := F.o4_add (F.o4_a_mul_v (F.o4_sub (F.o4_sub t m1) m2)) m0
  have t := F.o4_mul (F.o4_add a0 a2) (F.o4_add b0 b2)
  have r2 := F.o4_add (F.o4_sub (F.o4_sub t m0) m2) m1
  have t := F.o4_mul (F.o4_add a0 a1) (F.o4_add b0 b1)
  have r1 := F.o4_add (F.o4_sub (F.o4_sub t m0) m1) (F.o4_a_mul_v m2)
  exact ⟨r0.cast (by tower_ring), r1.cast (by tower_ring), r2.cast (by tower_ring)⟩

theorem o12_sqr (ha : Ok12 a x) : Ok12 a.fp_sqr (x * x) := by
  obtain ⟨a0, a1, a2⟩ := ha
  have r0 := F.o4_sqr a0
  have r1 := F.o4_sqr a2
  have s0 := F.o4_add a2 a0
  have s1 := F.o4_sqr (F.o4_sub s0 a1)
  have s0 := F.o4_sqr (F.o4_add s0 a1)
  have s2 := F.o4_double (F.o4_mul a1 a2)
  have s3 := F.o4_div2 (F.o4_add s0 s1)
  have r2 := F.o4_sub (F.o4_sub s3 r1) r0
  have r1 := F.o4_sub (F.o4_sub (F.o4_add (F.o4_a_mul_v r1) s0) s2) s3
  have r0 := F.o4_add r0 (F.o4_a_mul_v s2)
  refine ⟨r0.cast (by tower_ring), r1.cast ?_, r2.cast ?_⟩
  · tower_simp; linear_combination (-((x.c0 + x.c2) ^ 2 + x.c1 ^ 2)) * two_half4
  · tower_simp; linear_combination ((x.c0 + x.c2) ^ 2 + x.c1 ^ 2) * two_half4

/-- multiplication by the sparse line value l0 + l1·w² + l2·w³ -/
theorem o12_line_mul (ha : Ok12 a x) {lw : Line} {l0 l1 l2 : F2} (h0 : Ok2 lw.l0 l0) (h1 : Ok2 lw.l1 l1)
    (h2 : Ok2 lw.l2 l2) : Ok12 (a.fp_line_mul lw) (x * lineElt l0 l1 l2) := by
  obtain ⟨a0, a1, a2⟩ := ha
  have lw4 : Ok4 (⟨lw.l0, lw.l2⟩ : Fp4) (⟨l0, l2⟩ : F4) := ⟨h0, h2⟩
  have r0 := F.o4_mul a0 lw4
  have r1 := F.o4_mul a1 lw4
  have r2 := F.o4_mul a2 lw4
  have r2c0 := F.o2_add r2.1 (F.o2_mul a0.1 h1)
  have r2c1 := F.o2_add r2.2 (F.o2_mul a0.2 h1)
  have r0c1 := F.o2_add r0.2 (F.o2_mul a1.1 h1)
  have r0c0 := F.o2_add r0.1 (F.o2_mul_u a1.2 h1)
  have r1c1 := F.o2_add r1.2 (F.o2_mul a2.1 h1)
  have r1c0 := F.o2_add r1.1 (F.o2_mul_u a2.2 h1)
  refine ⟨⟨r0c0.cast ?_, r0c1.cast ?_⟩, ⟨r1c0.cast ?_, r1c1.cast ?_⟩, ⟨r2c0.cast ?_, r2c1.cast ?_⟩⟩ <;>
    (rw [lineElt]; tower_ring)


/-- inversion, both branches (c2 = 0 and c2 ≠ 0): the inverted quantities are norm(a) resp. c2·norm(a), and the norm
of a non-zero element is non-zero because v is a non-cube in Fp4 -/
theorem o12_inv (hnr : ∀ t : K, t ^ 2 ≠ -2) (hnr2 : ∀ t : F2, t ^ 2 ≠ u) (hnc : ∀ t : F4, t ^ 3 ≠ v)
    (ha : Ok12 a x) (hx : x ≠ 0) : ∃ y, Ok12 a.fp_inv y ∧ x * y = 1 := by
  obtain ⟨a0, a1, a2⟩ := ha
  have h4 := hasInvF4 F.prime hnr hnr2
  have hN := Cubic.norm_ne_zero h4 hnc hx
  unfold Fp12.fp_inv
  split
  · next hz =>
    have hx2 : x.c2 = 0 := a2.is_zero_iff.1 hz
    have hk : x.c0 * x.c0 * x.c0 + x.c1 * x.c1 * v * x.c1 ≠ 0 := by
      intro h; apply hN; unfold Cubic.norm; rw [hx2]; linear_combination h
    obtain ⟨k, hk', ek⟩ :=
      F.o4_inv hnr hnr2 (F.o4_add (F.o4_mul (F.o4_sqr a0) a0) (F.o4_mul (F.o4_sqr_v a1) a1)) hk
    refine ⟨⟨x.c0 * x.c0 * k, -(x.c0 * x.c1 * k), x.c1 * x.c1 * k⟩,
      ⟨F.o4_mul (F.o4_sqr a0) hk', F.o4_neg (F.o4_mul (F.o4_mul a0 a1) hk'), F.o4_mul (F.o4_sqr a1) hk'⟩, ?_⟩
    ext : 1
    · tower_simp; rw [hx2]; linear_combination ek
    · tower_simp; rw [hx2]; ring
    · tower_simp; rw [hx2]; ring
  · next hz =>
    have hx2 : x.c2 ≠ 0 := fun h => hz (a2.is_zero_iff.2 h)
    have t0 := F.o4_sub (F.o4_sqr a1) (F.o4_mul a0 a2)
    have t1 := F.o4_sub (F.o4_mul a0 a1) (F.o4_sqr_v a2)
    have t2 := F.o4_sub (F.o4_sqr a0) (F.o4_mul_v a1 a2)
    have t3 := F.o4_sub (F.o4_sqr t1) (F.o4_mul t0 t2)
    have hk : (x.c0 * x.c1 - x.c2 * x.c2 * v) * (x.c0 * x.c1 - x.c2 * x.c2 * v)
        - (x.c1 * x.c1 - x.c0 * x.c2) * (x.c0 * x.c0 - x.c1 * x.c2 * v) ≠ 0 := by
      intro h
      refine h4.mul_ne_zero hx2 hN ?_
      unfold Cubic.norm; linear_combination h
    obtain ⟨k, hk', ek⟩ := F.o4_inv hnr hnr2 t3 hk
    have t3 := F.o4_mul a2 hk'
    refine ⟨⟨(x.c0 * x.c0 - x.c1 * x.c2 * v) * (x.c2 * k), -((x.c0 * x.c1 - x.c2 * x.c2 * v) * (x.c2 * k)),
      (x.c1 * x.c1 - x.c0 * x.c2) * (x.c2 * k)⟩, ⟨F.o4_mul t2 t3, F.o4_neg (F.o4_mul t1 t3), F.o4_mul t0 t3⟩, ?_⟩
    ext : 1
    · tower_simp; linear_combination ek
    · tower_simp; ring
    · tower_simp; ring

/-- the loop of `pow` on a list of bits, most significant first -/
theorem o12_pow_bits (ha : Ok12 a x) (bits : List Bool) (t : Fp12) (k : Nat) (ht : Ok12 t (x ^ k)) :
    Ok12 (bits.foldl (fun t bit => let t := t.fp_sqr; if bit then t.fp_mul a else t) t)
      (x ^ Proofs.Limb.bitsVal bits k) := by
  induction bits generalizing t k with
  | nil => exact ht
  | cons bit bits ih =>
    rw [List.foldl_cons, Proofs.Limb.bitsVal, List.foldl_cons, ← Proofs.Limb.bitsVal]
    have hs := F.o12_sqr ht
    cases bit
    · exact ih _ (2 * k + 0) (hs.cast (by ring))
    · exact ih _ (2 * k + 1) ((F.o12_mul hs ha).cast (by ring))

theorem o12_pow_loop (ha : Ok12 a x) (e : Nat) : Ok12 (a.pow_loop e) (x ^ (e % 2 ^ 256)) := by
  have := F.o12_pow_bits ha (Impl.NatField.bitsMSB e) ⟨Fp4.mont_one, Fp4.zero, Fp4.zero⟩ 0
    (by rw [pow_zero]; exact ⟨ok4_mont_one, ok4_zero, ok4_zero⟩)
  rwa [Proofs.Limb.bitsMSB_val] at this

end FpFacts

theorem n_minus_one_eq : Gen.SM9.N_MINUS_ONE = Spec.SM9.N - 1 := by decide
theorem n_minus_one_lt : Spec.SM9.N - 1 < 2 ^ 256 := by unfold Spec.SM9.N; omega

/-- the `assert!` of `pow`: passes exactly for e ≤ N − 1 -/
theorem pow_ok {a : Fp12} {e : Nat} (he : e ≤ Spec.SM9.N - 1) : a.pow e = .ok (a.pow_loop e) := by
  unfold Fp12.pow Impl.SM9.u256_cmp
  rw [n_minus_one_eq]
  have : ¬ e > Spec.SM9.N - 1 := by omega
  rw [if_neg this]
  split <;> simp
theorem pow_panic {a : Fp12} {e : Nat} (he : Spec.SM9.N - 1 < e) : a.pow e = .panic := by
  unfold Fp12.pow Impl.SM9.u256_cmp
  rw [n_minus_one_eq, if_pos he]; simp


/-! ### serialisation -/

/-- `fp_from_mont a` is the canonical representative of the decoded value -/
theorem from_mont_correct (F : FpFacts) {a : Nat} (ha : a < p) :
    Impl.SM9.fp_from_mont a < p ∧ ((Impl.SM9.fp_from_mont a : Nat) : K) = dec a := by
  obtain ⟨h1, h2⟩ := F.mul a 1 ha one_lt_p
  refine ⟨h1, ?_⟩
  have h3 : ((Impl.SM9.fp_mul a 1 * 2 ^ 256 : Nat) : K) = ((a * 1 : Nat) : K) :=
    (ZMod.natCast_eq_natCast_iff' _ _ _).2 h2
  simp only [Nat.cast_mul, Nat.cast_pow, Nat.cast_ofNat, Nat.cast_one, mul_one] at h3
  show ((Impl.SM9.fp_mul a 1 : Nat) : K) = dec a
  unfold dec
  linear_combination Rinv * h3 - (Impl.SM9.fp_mul a 1 : K) * R_Rinv

/-- the 12 coefficients out of Montgomery form, in tower order (position 4i + 2j + l) -/
def towerList (a : Fp12) : List Nat :=
  [a.c0.c0.c0, a.c0.c0.c1, a.c0.c1.c0, a.c0.c1.c1, a.c1.c0.c0, a.c1.c0.c1, a.c1.c1.c0, a.c1.c1.c1,
   a.c2.c0.c0, a.c2.c0.c1, a.c2.c1.c0, a.c2.c1.c1].map Impl.SM9.fp_from_mont

/-- `to_bytes_be` writes the 12 coefficients (out of Montgomery form, 32 big-endian bytes each) in the order
c2‖c1‖c0 / c1‖c0 / c1‖c0, i.e. the tower list reversed -/
theorem to_bytes_eq (a : Fp12) : a.to_bytes_be = (towerList a).reverse.flatMap (natBE 32) := by
  simp [Fp12.to_bytes_be, Fp4.to_bytes_be, Fp2.to_bytes_be, Impl.SM9.fp_to_bytes_be, towerList, List.flatMap_cons]

theorem to_bytes_explicit (a : Fp12) :
    a.to_bytes_be =
      [a.c2.c1.c1, a.c2.c1.c0, a.c2.c0.c1, a.c2.c0.c0, a.c1.c1.c1, a.c1.c1.c0, a.c1.c0.c1, a.c1.c0.c0,
       a.c0.c1.c1, a.c0.c1.c0, a.c0.c0.c1, a.c0.c0.c0].flatMap fun c => natBE 32 (Impl.SM9.fp_from_mont c) := by
  simp [Fp12.to_bytes_be, Fp4.to_bytes_be, Fp2.to_bytes_be, Impl.SM9.fp_to_bytes_be, List.flatMap_cons]

theorem towerList_eq (a : Fp12) :
    towerList a = [a.c0.c0.c0, a.c0.c0.c1, a.c0.c1.c0, a.c0.c1.c1, a.c1.c0.c0, a.c1.c0.c1, a.c1.c1.c0, a.c1.c1.c1,
      a.c2.c0.c0, a.c2.c0.c1, a.c2.c1.c0, a.c2.c1.c1].map Impl.SM9.fp_from_mont := by
  unfold towerList; rfl

theorem tower_roundtrip (n0 n1 n2 n3 n4 n5 n6 n7 n8 n9 n10 n11 : Nat) :
    Spec.SM9.Fp12.toTower (Spec.SM9.Fp12.ofTower [n0, n1, n2, n3, n4, n5, n6, n7, n8, n9, n10, n11])
      = [n0 % p, n1 % p, n2 % p, n3 % p, n4 % p, n5 % p, n6 % p, n7 % p, n8 % p, n9 % p, n10 % p, n11 % p] := by
  rfl

theorem towerList_canon (F : FpFacts) {a : Fp12} (ha : Canon12 a) : ∀ n ∈ towerList a, n < p := by
  obtain ⟨⟨⟨h0, h1⟩, ⟨h2, h3⟩⟩, ⟨⟨h4, h5⟩, ⟨h6, h7⟩⟩, ⟨⟨h8, h9⟩, ⟨h10, h11⟩⟩⟩ := ha
  intro n hn
  simp only [towerList, List.map_cons, List.map_nil, List.mem_cons, List.not_mem_nil, or_false] at hn
  rcases hn with rfl | rfl | rfl | rfl | rfl | rfl | rfl | rfl | rfl | rfl | rfl | rfl <;>
    exact (from_mont_correct F (by assumption)).1

/-- against the Spec: the bytes are `Spec.SM9.Fp12.toBytes` of the dense element with these tower coefficients -/
theorem to_bytes_spec (F : FpFacts) {a : Fp12} (ha : Canon12 a) :
    a.to_bytes_be = Spec.SM9.Fp12.toBytes (Spec.SM9.Fp12.ofTower (towerList a)) := by
  rw [to_bytes_eq, Spec.SM9.Fp12.toBytes]
  congr 2
  have hc := towerList_canon F ha
  unfold towerList at hc ⊢
  simp only [List.map_cons, List.map_nil] at hc ⊢
  rw [tower_roundtrip]
  simp only [List.mem_cons, List.not_mem_nil, or_false, forall_eq_or_imp, forall_eq] at hc
  obtain ⟨h0, h1, h2, h3, h4, h5, h6, h7, h8, h9, h10, h11⟩ := hc
  simp only [Nat.mod_eq_of_lt, h0, h1, h2, h3, h4, h5, h6, h7, h8, h9, h10, h11]


/-! ### from the relational form to `Canon ∧ dec = …` -/

theorem two_half12 : (2 : F12) * half12 = 1 := by
  rw [half12, Cubic.two_eq, ← Cubic.of_mul, two_half4, Cubic.of_one]

theorem Ok2.out_div2 {a : Fp2} {x : F2} (h : Ok2 a (x * Quad.of half)) : Canon2 a ∧ 2 * dec2 a = x := by
  refine ⟨h.out.1, ?_⟩; rw [h.out.2]
  have := two_half2; rw [half2] at this; linear_combination x * this
theorem Ok4.out_div2 {a : Fp4} {x : F4} (h : Ok4 a (x * half4)) : Canon4 a ∧ 2 * dec4 a = x := by
  refine ⟨h.out.1, ?_⟩; rw [h.out.2]; linear_combination x * two_half4
theorem Ok12.out_div2 {a : Fp12} {x : F12} (h : Ok12 a (x * half12)) : Canon12 a ∧ 2 * dec12 a = x := by
  refine ⟨h.out.1, ?_⟩; rw [h.out.2]; linear_combination x * two_half12

theorem out_inv2 {a : Fp2} {x : F2} (h : ∃ y, Ok2 a y ∧ x * y = 1) : Canon2 a ∧ x * dec2 a = 1 := by
  obtain ⟨y, hy, e⟩ := h; exact ⟨hy.out.1, by rw [hy.out.2]; exact e⟩
theorem out_inv4 {a : Fp4} {x : F4} (h : ∃ y, Ok4 a y ∧ x * y = 1) : Canon4 a ∧ x * dec4 a = 1 := by
  obtain ⟨y, hy, e⟩ := h; exact ⟨hy.out.1, by rw [hy.out.2]; exact e⟩
theorem out_inv12 {a : Fp12} {x : F12} (h : ∃ y, Ok12 a y ∧ x * y = 1) : Canon12 a ∧ x * dec12 a = 1 := by
  obtain ⟨y, hy, e⟩ := h; exact ⟨hy.out.1, by rw [hy.out.2]; exact e⟩


theorem FpFacts.pow_correct (F : FpFacts) {a : Fp12} (ha : Canon12 a) {e : Nat} (he : e ≤ Spec.SM9.N - 1) :
    ∃ r, a.pow e = .ok r ∧ Canon12 r ∧ dec12 r = dec12 a ^ e := by
  have h := (F.o12_pow_loop (ok12_dec ha) e).out
  rw [Nat.mod_eq_of_lt (Nat.lt_of_le_of_lt he n_minus_one_lt)] at h
  exact ⟨_, pow_ok he, h⟩

end GmVerif.Proofs.SM9Tower
