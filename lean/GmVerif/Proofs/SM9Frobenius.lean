/-
The p-power Frobenius of the tower model against the specification's x ↦ x^p on the Fp-basis 1, w, …, w¹¹ of Fp12:
assembly of the twelve kernel evaluations (`SM9Frobenius/A,B,C`), and one dense sample.
Definitions and the cheap (model-side) evaluations are in `SM9Frobenius/Defs`.
-/
import GmVerif.Proofs.SM9Frobenius.A
import GmVerif.Proofs.SM9Frobenius.B
import GmVerif.Proofs.SM9Frobenius.C
namespace GmVerif.Proofs.SM9Frobenius
open GmVerif

theorem frob_basis : ∀ n < 12, FrobOK n := by
  intro n hn
  match n, hn with
  | 0, _ => exact frob_0
  | 1, _ => exact frob_1
  | 2, _ => exact frob_2
  | 3, _ => exact frob_3
  | 4, _ => exact frob_4
  | 5, _ => exact frob_5
  | 6, _ => exact frob_6
  | 7, _ => exact frob_7
  | 8, _ => exact frob_8
  | 9, _ => exact frob_9
  | 10, _ => exact frob_10
  | 11, _ => exact frob_11
  | n + 12, h => omega

/-- in particular conjugation on Fp2 is the p-power map: u^p = −u (u = w⁶), in the specification's Fp12 -/
theorem u_pow_p :
    Spec.SM9.Fp12.frobenius (Spec.SM9.Fp12.pow Spec.SM9.Fp12.w 6)
      = Spec.SM9.Fp12.neg (Spec.SM9.Fp12.pow Spec.SM9.Fp12.w 6) := by
  have h := frob_6
  unfold FrobOK at h
  rw [← h]
  decide +kernel

theorem frob_sample :
    decode sample = Spec.SM9.Fp12.ofTower ((List.range 12).map (· + 2))
      ∧ decode sample.fp12_frobenius = Spec.SM9.Fp12.frobenius (decode sample) := by
  decide +kernel

end GmVerif.Proofs.SM9Frobenius
