/-
C09b, verification and the end-to-end statement: `Sm9SignMasterKey::verify_sign` accepts exactly what the standard's
verifier (`Spec.SM9.verify`, GM/T 0044.2 §7.2 B1–B9) accepts, for a master public key in G2 and a valid representation of S,
given the pairing hypothesis; a signature made by the model with a key extracted by the model verifies in the model.
-/
import GmVerif.Proofs.SM9SignRefines
import GmVerif.Proofs.SM9G1Extract
set_option autoImplicit false
namespace GmVerif.Proofs.SM9SignRefines
open GmVerif GmVerif.Impl.SM9 GmVerif.Proofs.SM9Bridge
open GmVerif.Proofs.SM9Tower (Canon12)
open GmVerif.Proofs.SM9G2Impl (Valid2 toSpec2)
open GmVerif.Spec.SM9 (N Pt2)
open GmVerif.Spec.EC (Pt)

/-- the value w' = e(S, [h1]P2 + Ppub-s) · e(P1, Ppub-s)^h of B3–B7 -/
def specW (Ppubs : Pt2) (id : List UInt8) (h : Nat) (S : Pt) : Spec.SM9.Fp12 :=
  Spec.SM9.Fp12.mul
    (Spec.SM9.pairing S (Spec.SM9.add2 (Spec.SM9.mul2 (Spec.SM9.H1 (id ++ [Spec.SM9.hidSign])) Spec.SM9.P2) Ppubs))
    (Spec.SM9.Fp12.pow (Spec.SM9.pairing Spec.SM9.P1 Ppubs) h)

/-- the standard's verifier once B1 and B2 have passed -/
theorem spec_verify_eq (Ppubs : Pt2) (id msg : List UInt8) (h : Nat) (S : Pt) (hh : 1 ≤ h ∧ h < N)
    (hS : Spec.EC.onCurve Spec.SM9.curve S = true) :
    Spec.SM9.verify Ppubs id msg h S =
      (Spec.SM9.H2 (msg ++ Spec.SM9.Fp12.toBytes (specW Ppubs id h S)) == h) := by
  unfold Spec.SM9.verify specW
  rw [if_neg (by omega), if_neg (by simp [hS])]

theorem spec_verify_range (Ppubs : Pt2) (id msg : List UInt8) (h : Nat) (S : Pt) (hh : h = 0 ∨ N ≤ h) :
    Spec.SM9.verify Ppubs id msg h S = false := by
  unfold Spec.SM9.verify
  rw [if_pos (by omega)]

theorem H1_lt (z : List UInt8) : Spec.SM9.H1 z < 2 ^ 256 := Nat.lt_trans (SM9G1Extract.H1_lt z) N_lt

/-- what the model computes in B3–B8 for an exponent h ≤ N − 1 -/
theorem verify_values (PR : PairingRefines) (m : Sm9SignMasterKey) (hpp : InG2 m.ppubs) (s : Point)
    (hs : SM9G1.Valid s) (id data : List UInt8) (h : Nat) (hh : h ≤ N - 1) :
    ∃ t, (sm9_u256_pairing m.ppubs POINT_MONT_P1).pow h = .ok t ∧
      sm9_u256_hash1 id Gen.SM9.HID_SIGN = .ok (Spec.SM9.H1 (id ++ [Spec.SM9.hidSign])) ∧
      sm9_u256_hash2 data ((sm9_u256_pairing (twist_point_add_full m.ppubs
          (TwistPoint.g_mul (Spec.SM9.H1 (id ++ [Spec.SM9.hidSign])))) s).fp_mul t).to_bytes_be =
        .ok (Spec.SM9.H2 (data ++ Spec.SM9.Fp12.toBytes (specW (toSpec2 m.ppubs) id h (SM9G1.toSpec s)))) := by
  obtain ⟨hgc, hgv⟩ := pairing_g PR hpp
  obtain ⟨t, ht1, ht2, ht3⟩ := SM9TowerDense.dense_pow _ h hgc hh
  refine ⟨t, ht1, ?_, ?_⟩
  · rw [SM9G1Extract.hid_sign]; exact SM9Field.hash1_refines id _
  · have hq := inG2_g_mul _ (H1_lt (id ++ [Spec.SM9.hidSign]))
    obtain ⟨hp', hsp'⟩ := inG2_add_full hpp hq
    have huc := PR.canon _ s hp' hs
    have huv := PR.value _ s hp' hs
    rw [SM9Field.hash2_refines, SM9TowerDense.dense_bytes _ (SM9TowerDense.canon_mul _ _ huc ht2),
      SM9TowerDense.dense_mul _ _ huc ht2, huv, ht3, hgv, hsp',
      (SM9G2Impl.g_mul_correct _ (H1_lt (id ++ [Spec.SM9.hidSign]))).2,
      SM9G2.add2_comm (inG2_onTwist hpp) (SM9G2.onTwist_mul2 _ SM9Algebra.sm9_P2_onTwist)]
    rfl

/-- `verify_sign` = the standard's verifier -/
theorem verify_refines (PR : PairingRefines) (m : Sm9SignMasterKey) (hpp : InG2 m.ppubs) (id data : List UInt8)
    (h : Nat) (s : Point) (hs : SM9G1.Valid s) :
    m.verify_sign id data h s = .ok () ↔
      Spec.SM9.verify (toSpec2 m.ppubs) id data h (SM9G1.toSpec s) = true := by
  by_cases hr : h = 0 ∨ N ≤ h
  · rw [SM9Logic.verify_h_out_of_range m id data h s (by rw [N_eq]; exact hr), spec_verify_range _ _ _ _ _ hr]
    constructor <;> intro hc <;> cases hc
  · have hlo : 1 ≤ h := by omega
    have hhi : h ≤ N - 1 := by omega
    obtain ⟨t, ht, hh1, hh2⟩ := verify_values PR m hpp s hs id data h hhi
    rw [spec_verify_eq _ _ _ _ _ ⟨hlo, by omega⟩ (SM9G1.toSpec_onCurve s hs), beq_iff_eq, SM9Logic.verify_ok_iff]
    constructor
    · rintro ⟨_, _, t', h1', h2', ht', hh1', hh2', he⟩
      rw [ht] at ht'; cases ht'
      rw [hh1] at hh1'; cases hh1'
      rw [hh2] at hh2'; cases hh2'
      exact he
    · intro he
      exact ⟨hlo, by rw [N_eq]; exact hhi, t, _, _, ht, hh1, hh2, he⟩

/-! ### S as decoded from the wire -/

theorem beNat_take32_lt (l : List UInt8) : beNat (l.take 32) < 2 ^ 256 := by
  have h := SM9Field.beNat_lt (l.take 32)
  have hl : (l.take 32).length ≤ 32 := by rw [List.length_take]; omega
  have : 256 ^ (l.take 32).length ≤ 256 ^ 32 := Nat.pow_le_pow_right (by decide) hl
  have e : (256 : Nat) ^ 32 = 2 ^ 256 := by decide
  omega

theorem fp_to_mont_lt (a : Nat) (ha : a < 2 ^ 256) : fp_to_mont a < Spec.SM9.p := by
  rw [SM9Field.fp_to_mont_correct a ha, SM9Field.P_eq]
  exact Nat.mod_lt _ (by decide)

/-- the point `Point::from_bytes` returns (on ≥ 65 bytes) has canonical coordinates and Z = 1: for it the model's own
`is_on_curve` test is exactly validity -/
theorem from_bytes_valid_iff (b : List UInt8) (hb : 65 ≤ b.length) :
    ∃ s, Point.from_bytes b = .ok s ∧ s.z ≠ 0 ∧ (s.is_on_curve = true ↔ SM9G1.Valid s) := by
  have hz : (SM9Logic.fromBytesPt b).z ≠ 0 := show Gen.SM9.MODP_MONT_ONE ≠ 0 by decide
  have hzc : (SM9Logic.fromBytesPt b).z < Spec.SM9.p := show Gen.SM9.MODP_MONT_ONE < Spec.SM9.p by decide
  refine ⟨_, SM9Logic.from_bytes_ok b hb, hz, ?_⟩
  exact SM9G1.is_on_curve_iff_valid _
    ⟨fp_to_mont_lt _ (beNat_take32_lt _), fp_to_mont_lt _ (beNat_take32_lt _), hzc⟩ hz

/-! ### end to end -/

/-- sign with the model, verify with the model: from the Spec-level correctness (`Proofs.SM9Algebra.sign_then_verify`,
under bilinearity `PairingFacts`) through `sign_refines`, `verify_refines`, the extraction theorem and [ks]P2 -/
theorem sign_then_verify_impl (PR : PairingRefines) (F : SM9Algebra.PairingFacts) (m : Sm9SignMasterKey)
    (hks : 1 ≤ m.ks ∧ m.ks < N) (hm : m.ppubs = TwistPoint.g_mul m.ks) (id data : List UInt8)
    (cands : List (List UInt8)) (key : Sm9SignKey) (hkey : m.extract_key id = .ok (some key))
    (h : Nat) (S : Point) (used : List Nat) (rest : List (List UInt8))
    (hsig : key.sign data cands = .ok ⟨(h, S), used, rest⟩) :
    m.verify_sign id data h S = .ok ()
      ∧ Spec.SM9.verify (Spec.SM9.signMasterPub m.ks) id data h (SM9G1.toSpec S) = true
      ∧ SM9G1.Valid S ∧ 1 ≤ h ∧ h < N := by
  have hks256 : m.ks < 2 ^ 256 := Nat.lt_trans hks.2 N_lt
  have hpp : InG2 m.ppubs := by rw [hm]; exact inG2_g_mul m.ks hks256
  have hpub : toSpec2 m.ppubs = Spec.SM9.signMasterPub m.ks := by
    rw [hm]; exact (SM9G2Impl.g_mul_correct m.ks hks256).2
  -- the extracted key
  have hex := SM9G1Extract.extract_sign_refines m hks.2 id
  cases hds : Spec.SM9.extractSign m.ks id with
  | none =>
    simp only [hds] at hex
    rw [hex] at hkey; cases hkey
  | some ds =>
    simp only [hds] at hex
    obtain ⟨key', hk1, hk2, hk3, hk4⟩ := hex
    rw [hk1] at hkey
    simp only [Outcome.ok.injEq, Option.some.injEq] at hkey
    subst hkey
    -- the signature
    have hsr := sign_refines PR key' hk3 (by rw [hk2]; exact hpp) data cands
    cases hloop : specSignLoop (toSpec2 key'.ppubs) (SM9G1.toSpec key'.ds) data cands [] with
    | none =>
      simp only [hloop] at hsr
      rw [hsr] at hsig; cases hsig
    | some x =>
      obtain ⟨⟨h', S'⟩, used', rest'⟩ := x
      simp only [hloop] at hsr
      obtain ⟨s, hs1, hs2, hs3, _⟩ := hsr
      rw [hs1] at hsig
      simp only [Outcome.ok.injEq, Rand.mk.injEq, Prod.mk.injEq] at hsig
      obtain ⟨⟨rfl, rfl⟩, rfl, rfl⟩ := hsig
      obtain ⟨r, _, hacc, hsw, _, _⟩ := specSignLoop_some hloop
      rw [hk2, hpub, hk4] at hsw
      obtain ⟨hv, hh1, hh2⟩ := SM9Algebra.sign_then_verify F m.ks id data ds hds r h' S' hsw
      rw [← hs3] at hv
      refine ⟨?_, hv, hs2, hh1, hh2⟩
      rw [verify_refines PR m hpp id data h' s hs2, hpub]; exact hv

end GmVerif.Proofs.SM9SignRefines
