/-
Helper lemmas for property C02 (SM4 block cipher): byte/word round trips, Feistel involution,
refinement of the unrolled key schedule and round loops of `Impl.SM4` to `Spec.SM4`.
Core Lean only.
-/
import GmVerif.Spec.SM4
import GmVerif.Impl.SM4
namespace GmVerif.Proofs.SM4
open GmVerif GmVerif.Spec.SM4

/-! ### big-endian bytes ↔ words -/

theorem getLsbD8_of_ge (v : BitVec 8) (j : Nat) (h : 8 ≤ j) : v.getLsbD j = false :=
  BitVec.getLsbD_of_ge v j h

theorem u32be_be32 (x : UInt32) :
    u32be (x >>> 24).toUInt8 (x >>> 16).toUInt8 (x >>> 8).toUInt8 x.toUInt8 = x := by
  unfold u32be
  apply UInt32.eq_of_toBitVec_eq
  ext i hi
  simp [-UInt32.toUInt32_toUInt8, BitVec.getElem_setWidth, BitVec.getLsbD_setWidth]
  rw [← BitVec.getLsbD_eq_getElem]
  by_cases h1 : i < 8
  · simp [h1, show i < 24 by omega, show i < 16 by omega]
  · by_cases h2 : i < 16
    · simp [h1, h2, show i < 24 by omega, show i - 8 < 8 by omega, show 8 + (i - 8) = i by omega]
    · by_cases h3 : i < 24
      · simp [h1, h2, h3, show i - 16 < 8 by omega, show 16 + (i - 16) = i by omega,
          show ¬ (i - 8 < 8) by omega]
      · simp [h1, h2, h3, show i - 24 < 8 by omega, show 24 + (i - 24) = i by omega,
          show ¬ (i - 8 < 8) by omega, show ¬ (i - 16 < 8) by omega]

theorem be32_u32be (a b c d : UInt8) : be32 (u32be a b c d) = [a, b, c, d] := by
  unfold be32 u32be
  simp only [List.cons.injEq, and_true]
  refine ⟨?_, ?_, ?_, ?_⟩ <;> apply UInt8.eq_of_toBitVec_eq <;> ext i hi <;>
    simp [BitVec.getElem_setWidth, BitVec.getLsbD_setWidth] <;> rw [← BitVec.getLsbD_eq_getElem]
  · simp [show 24 + i < 32 by omega, show ¬ (24 + i < 24) by omega, show i < 32 by omega,
      show ¬ (24 + i < 16) by omega, show ¬ (24 + i < 8) by omega,
      getLsbD8_of_ge _ (24+i-16) (by omega), getLsbD8_of_ge _ (24+i-8) (by omega),
      getLsbD8_of_ge _ (24+i) (by omega)]
  · simp [show 16 + i < 32 by omega, show (16 + i < 24) by omega, show i < 32 by omega,
      show ¬ (16 + i < 16) by omega, show ¬ (16 + i < 8) by omega,
      getLsbD8_of_ge _ (16+i-8) (by omega), getLsbD8_of_ge _ (16+i) (by omega)]
  · simp [show 8 + i < 32 by omega, show (8 + i < 24) by omega, show i < 32 by omega,
      show (8 + i < 16) by omega, show ¬ (8 + i < 8) by omega]

theorem be32_length (x : UInt32) : (be32 x).length = 4 := rfl

theorem toBytes_length (w : W4) : w.toBytes.length = 16 := by
  simp [W4.toBytes, be32_length]

/-- a list of length 16 is a literal 16-element list -/
theorem list16 {α : Type} (b : List α) (h : b.length = 16) :
    ∃ a0 a1 a2 a3 a4 a5 a6 a7 a8 a9 a10 a11 a12 a13 a14 a15,
      b = [a0, a1, a2, a3, a4, a5, a6, a7, a8, a9, a10, a11, a12, a13, a14, a15] := by
  match b, h with
  | [a0, a1, a2, a3, a4, a5, a6, a7, a8, a9, a10, a11, a12, a13, a14, a15], _ =>
    exact ⟨a0, a1, a2, a3, a4, a5, a6, a7, a8, a9, a10, a11, a12, a13, a14, a15, rfl⟩

theorem w4_bytes_roundtrip (w : W4) : W4.ofBytes w.toBytes = w := by
  cases w
  simp [W4.toBytes, be32, W4.ofBytes, u32be_be32]

theorem bytes_w4_roundtrip (b : List UInt8) (h : b.length = 16) : (W4.ofBytes b).toBytes = b := by
  obtain ⟨a0, a1, a2, a3, a4, a5, a6, a7, a8, a9, a10, a11, a12, a13, a14, a15, rfl⟩ := list16 b h
  simp [W4.toBytes, W4.ofBytes, be32_u32be]

/-! ### Feistel involution -/

def R (s : W4) : W4 := ⟨s.x3, s.x2, s.x1, s.x0⟩

theorem R_R (s : W4) : R (R s) = s := rfl

theorem step_R_step (f : UInt32 → UInt32) (s : W4) (c : UInt32) :
    step f (R (step f s c)) c = R s := by
  cases s with
  | mk x0 x1 x2 x3 =>
    simp only [step, R, W4.mk.injEq, true_and]
    have : x3 ^^^ x2 ^^^ x1 ^^^ c = x1 ^^^ x2 ^^^ x3 ^^^ c := by ac_rfl
    rw [this, UInt32.xor_assoc, UInt32.xor_self, UInt32.xor_zero]

theorem foldl_step_involution (f : UInt32 → UInt32) (rks : List UInt32) (x : W4) :
    rks.reverse.foldl (step f) (R (rks.foldl (step f) x)) = R x := by
  induction rks generalizing x with
  | nil => rfl
  | cons c cs ih =>
    simp only [List.foldl_cons, List.reverse_cons, List.foldl_append, List.foldl_nil]
    rw [ih, step_R_step]

theorem crypt_eq (rks : List UInt32) (x : W4) : crypt rks x = R (rks.foldl (step T) x) := rfl

theorem crypt_involution (rks : List UInt32) (x : W4) : crypt rks.reverse (crypt rks x) = x := by
  rw [crypt_eq, crypt_eq, foldl_step_involution, R_R]

/-! ### tables -/

theorem gen_sbox : Gen.SM4.SBOX = SBOX := rfl
theorem gen_fk : Gen.SM4.FK = FK := rfl
theorem gen_ck : Gen.SM4.CK = CK := rfl

theorem sbox_nodup : SBOX.Nodup := by decide +kernel

set_option maxRecDepth 10000 in
theorem sbox_length : SBOX.length = 256 := by decide

theorem S_injective (a b : UInt8) (h : S a = S b) : a = b := by
  unfold S at h
  have ha : a.toNat < SBOX.length := by rw [sbox_length]; exact a.toNat_lt
  have hb : b.toNat < SBOX.length := by rw [sbox_length]; exact b.toNat_lt
  rw [← List.getElem_eq_getD (h := ha) 0, ← List.getElem_eq_getD (h := hb) 0] at h
  have := (List.getElem_inj sbox_nodup).mp h
  exact UInt8.toNat_inj.1 this

/-! ### Impl primitives = Spec primitives -/

theorem sboxa_get (n : Nat) : Impl.SM4.SBOXA[n]! = SBOX.getD n 0 := by
  simp [Impl.SM4.SBOXA, gen_sbox]
  rfl

theorem tau_eq (a : UInt32) : Impl.SM4.tau a = tau a := by
  simp only [Impl.SM4.tau, tau, S, sboxa_get]

theorem t_eq : Impl.SM4.t = T := by
  funext v; simp only [Impl.SM4.t, Impl.SM4.el, T, L, tau_eq]

theorem t_prime_eq : Impl.SM4.t_prime = T' := by
  funext v; simp only [Impl.SM4.t_prime, Impl.SM4.el_prime, T', L', tau_eq]

theorem take_succ_getD (l : List UInt32) (i : Nat) (hi : i < l.length) :
    l.take (i + 1) = l.take i ++ [l.getD i 0] := by
  rw [List.take_add_one]; simp [hi]

theorem take_four (l : List UInt32) (n : Nat) (h : 4 * n + 4 ≤ l.length) :
    l.take (4 * (n + 1)) =
      l.take (4 * n) ++ [l.getD (4 * n) 0, l.getD (4 * n + 1) 0, l.getD (4 * n + 2) 0, l.getD (4 * n + 3) 0] := by
  rw [show 4 * (n + 1) = 4 * n + 3 + 1 by omega, take_succ_getD _ _ (by omega),
    take_succ_getD _ _ (by omega), take_succ_getD _ _ (by omega), take_succ_getD _ _ (by omega)]
  simp

theorem array_get (a : Array UInt32) (n : Nat) : a[n]! = a.toList.getD n 0 := by
  rw [getElem!_def]
  simp
  cases a[n]? <;> rfl

def toQ (w : W4) : Impl.SM4.Q := (w.x0, w.x1, w.x2, w.x3)

theorem roundKeysFrom_append (k : W4) (a b : List UInt32) :
    roundKeysFrom k (a ++ b) = roundKeysFrom k a ++ roundKeysFrom (a.foldl (step T') k) b := by
  induction a generalizing k with
  | nil => rfl
  | cons c cs ih => simp [roundKeysFrom, ih]

theorem ksRound_eq (k : W4) (rk : List UInt32) (i : Nat) :
    Impl.SM4.ksRound (toQ k, rk) i =
      (toQ ([Impl.SM4.CKA[i * 4]!, Impl.SM4.CKA[i * 4 + 1]!, Impl.SM4.CKA[i * 4 + 2]!,
              Impl.SM4.CKA[i * 4 + 3]!].foldl (step T') k),
       rk ++ roundKeysFrom k [Impl.SM4.CKA[i * 4]!, Impl.SM4.CKA[i * 4 + 1]!,
              Impl.SM4.CKA[i * 4 + 2]!, Impl.SM4.CKA[i * 4 + 3]!]) := by
  simp only [Impl.SM4.ksRound, t_prime_eq]
  rfl

theorem encRound_eq (rk : Array UInt32) (x : W4) (i : Nat) :
    Impl.SM4.encRound rk (toQ x) i =
      toQ ([rk[i * 4]!, rk[i * 4 + 1]!, rk[i * 4 + 2]!, rk[i * 4 + 3]!].foldl (step T) x) := by
  simp only [Impl.SM4.encRound, t_eq]
  rfl

theorem ks_fold (k : W4) (n : Nat) (hn : n ≤ 8) :
    (List.range n).foldl Impl.SM4.ksRound (toQ k, []) =
      (toQ ((CK.take (4 * n)).foldl (step T') k), roundKeysFrom k (CK.take (4 * n))) := by
  induction n with
  | zero => rfl
  | succ n ih =>
    have hlen : 4 * n + 4 ≤ CK.length := by
      have : CK.length = 32 := by decide
      omega
    rw [List.range_succ, List.foldl_append, ih (by omega), List.foldl_cons, List.foldl_nil,
      ksRound_eq, take_four _ _ hlen, roundKeysFrom_append, List.foldl_append]
    simp only [array_get, Impl.SM4.CKA, gen_ck, Nat.mul_comm n 4]

theorem enc_fold (rk : Array UInt32) (x : W4) (n : Nat) (hn : 4 * n ≤ rk.size) :
    (List.range n).foldl (Impl.SM4.encRound rk) (toQ x) =
      toQ ((rk.toList.take (4 * n)).foldl (step T) x) := by
  induction n with
  | zero => rfl
  | succ n ih =>
    have hlen : 4 * n + 4 ≤ rk.toList.length := by simp; omega
    rw [List.range_succ, List.foldl_append, ih (by omega), List.foldl_cons, List.foldl_nil,
      encRound_eq, take_four _ _ hlen, List.foldl_append]
    simp only [array_get, Nat.mul_comm n 4]


theorem ck_length : CK.length = 32 := by decide

theorem roundKeysFrom_length (k : W4) (cs : List UInt32) : (roundKeysFrom k cs).length = cs.length := by
  induction cs generalizing k with
  | nil => rfl
  | cons c cs ih => simp [roundKeysFrom, ih]

theorem roundKeys_length (mk : W4) : (roundKeys mk).length = 32 := by
  simp [roundKeys, roundKeysFrom_length, ck_length]

theorem words_eq (b : List UInt8) (h : b.length = 16) :
    (Impl.SM4.word b 0, Impl.SM4.word b 4, Impl.SM4.word b 8, Impl.SM4.word b 12) = toQ (W4.ofBytes b) := by
  obtain ⟨a0, a1, a2, a3, a4, a5, a6, a7, a8, a9, a10, a11, a12, a13, a14, a15, rfl⟩ := list16 b h
  rfl

theorem fka_get : Impl.SM4.FKA[0]! = FK.getD 0 0 ∧ Impl.SM4.FKA[1]! = FK.getD 1 0 ∧
    Impl.SM4.FKA[2]! = FK.getD 2 0 ∧ Impl.SM4.FKA[3]! = FK.getD 3 0 := by
  simp only [array_get, Impl.SM4.FKA, gen_fk, and_self]

theorem new_refines (k : List UInt8) (hk : k.length = 16) :
    Impl.SM4.new k = .ok (roundKeys (W4.ofBytes k)).toArray := by
  have hw := words_eq k hk
  simp only [toQ, Prod.mk.injEq] at hw
  obtain ⟨h0, h1, h2, h3⟩ := hw
  obtain ⟨f0, f1, f2, f3⟩ := fka_get
  unfold Impl.SM4.new
  rw [if_neg (by simp [hk])]
  simp only [h0, h1, h2, h3, f0, f1, f2, f3]
  have := ks_fold ⟨(W4.ofBytes k).x0 ^^^ FK.getD 0 0, (W4.ofBytes k).x1 ^^^ FK.getD 1 0,
    (W4.ofBytes k).x2 ^^^ FK.getD 2 0, (W4.ofBytes k).x3 ^^^ FK.getD 3 0⟩ 8 (Nat.le_refl _)
  simp only [toQ] at this
  rw [this]
  have h32 : List.take (4 * 8) CK = CK := List.take_of_length_le (by rw [ck_length]; omega)
  rw [h32]
  rfl

theorem encB_eq (rk : Array UInt32) (b : List UInt8) (hrk : rk.size = 32) (hb : b.length = 16) :
    Impl.SM4.encB rk b = (crypt rk.toList (W4.ofBytes b)).toBytes := by
  unfold Impl.SM4.encB
  rw [words_eq b hb, enc_fold rk _ 8 (by omega),
    List.take_of_length_le (by simp [hrk])]
  rfl

theorem foldl_ext_mem {α β : Type} (f g : α → β → α) (a : α) (l : List β)
    (H : ∀ a b, b ∈ l → f a b = g a b) : l.foldl f a = l.foldl g a := by
  induction l generalizing a with
  | nil => rfl
  | cons b bs ih =>
    simp only [List.foldl_cons]
    rw [H a b (by simp), ih _ (fun a b hb => H a b (by simp [hb]))]

theorem reverse_getD (l : List UInt32) (hl : l.length = 32) (j : Nat) (hj : j < 32) :
    l.reverse.getD j 0 = l.getD (31 - j) 0 := by
  rw [List.getD_eq_getElem?_getD, List.getD_eq_getElem?_getD, List.getElem?_reverse (by omega), hl]

theorem decRound_eq (rk : Array UInt32) (hrk : rk.size = 32) (x : Impl.SM4.Q) (i : Nat) (hi : i < 8) :
    Impl.SM4.decRound rk x i = Impl.SM4.encRound rk.reverse x i := by
  have key : ∀ j, j < 32 → rk[31 - j]! = rk.reverse[j]! := by
    intro j hj
    rw [array_get, array_get, Array.toList_reverse, reverse_getD _ (by simp [hrk]) _ hj]
  unfold Impl.SM4.decRound Impl.SM4.encRound
  rw [key (i * 4) (by omega), key (i * 4 + 1) (by omega), key (i * 4 + 2) (by omega),
    key (i * 4 + 3) (by omega)]

theorem decB_eq (rk : Array UInt32) (b : List UInt8) (hrk : rk.size = 32) (hb : b.length = 16) :
    Impl.SM4.decB rk b = (crypt rk.toList.reverse (W4.ofBytes b)).toBytes := by
  have : Impl.SM4.decB rk b = Impl.SM4.encB rk.reverse b := by
    unfold Impl.SM4.decB Impl.SM4.encB
    rw [foldl_ext_mem (Impl.SM4.decRound rk) (Impl.SM4.encRound rk.reverse) _ _
      (fun a i hi => decRound_eq rk hrk a i (by simpa using hi))]
  rw [this, encB_eq _ _ (by simp [hrk]) hb, Array.toList_reverse]

/-! ### corollaries used by `Thm.C02` -/

theorem fk_length : FK.length = 4 := by decide

theorem ck_rule : ∀ i, i < 32 → CK.getD i 0 =
    u32be ((4*i*7) % 256).toUInt8 (((4*i+1)*7) % 256).toUInt8 (((4*i+2)*7) % 256).toUInt8
      (((4*i+3)*7) % 256).toUInt8 := by decide +kernel

theorem dec_enc (k x : W4) : dec k (enc k x) = x := crypt_involution _ _

theorem enc_dec (k x : W4) : enc k (dec k x) = x := by
  have := crypt_involution (roundKeys k).reverse x
  rwa [List.reverse_reverse] at this

theorem dec_enc_bytes (k x : List UInt8) (hx : x.length = 16) : decBytes k (encBytes k x) = x := by
  unfold decBytes encBytes
  rw [w4_bytes_roundtrip, dec_enc, bytes_w4_roundtrip x hx]

theorem enc_dec_bytes (k x : List UInt8) (hx : x.length = 16) : encBytes k (decBytes k x) = x := by
  unfold decBytes encBytes
  rw [w4_bytes_roundtrip, enc_dec, bytes_w4_roundtrip x hx]

theorem encBytes_length (k x : List UInt8) : (encBytes k x).length = 16 := toBytes_length _
theorem decBytes_length (k x : List UInt8) : (decBytes k x).length = 16 := toBytes_length _

/-- the round-key array produced by `new` has 32 entries -/
theorem roundKeys_toArray_size (mk : W4) : (roundKeys mk).toArray.size = 32 := by
  simp [roundKeys_length]

theorem encB_roundKeys (k x : List UInt8) (hx : x.length = 16) :
    Impl.SM4.encB (roundKeys (W4.ofBytes k)).toArray x = encBytes k x := by
  rw [encB_eq _ _ (roundKeys_toArray_size _) hx]; rfl

theorem decB_roundKeys (k x : List UInt8) (hx : x.length = 16) :
    Impl.SM4.decB (roundKeys (W4.ofBytes k)).toArray x = decBytes k x := by
  rw [decB_eq _ _ (roundKeys_toArray_size _) hx]; rfl

theorem enc_refines (k x : List UInt8) (hk : k.length = 16) (hx : x.length = 16) :
    (Impl.SM4.new k).bind (fun rk => Impl.SM4.encrypt rk x) = .ok (encBytes k x) := by
  rw [new_refines k hk]
  simp only [Outcome.bind, Impl.SM4.encrypt]
  rw [if_neg (by simp [hx]), encB_roundKeys k x hx]

theorem dec_refines (k x : List UInt8) (hk : k.length = 16) (hx : x.length = 16) :
    (Impl.SM4.new k).bind (fun rk => Impl.SM4.decrypt rk x) = .ok (decBytes k x) := by
  rw [new_refines k hk]
  simp only [Outcome.bind, Impl.SM4.decrypt]
  rw [if_neg (by simp [hx]), decB_roundKeys k x hx]

theorem new_total (k : List UInt8) :
    Impl.SM4.new k ≠ .panic ∧ ((∃ e, Impl.SM4.new k = .err e) ↔ k.length ≠ 16) := by
  unfold Impl.SM4.new
  split <;> simp [*]

theorem encrypt_total (rk : Array UInt32) (b : List UInt8) :
    Impl.SM4.encrypt rk b ≠ .panic ∧ ((∃ e, Impl.SM4.encrypt rk b = .err e) ↔ b.length ≠ 16) := by
  unfold Impl.SM4.encrypt
  split <;> simp [*]

theorem decrypt_total (rk : Array UInt32) (b : List UInt8) :
    Impl.SM4.decrypt rk b ≠ .panic ∧ ((∃ e, Impl.SM4.decrypt rk b = .err e) ↔ b.length ≠ 16) := by
  unfold Impl.SM4.decrypt
  split <;> simp [*]

/-! ### algebraic description of the S-box: S(x) = A(inv(A(x))) -/

/-- parity of the low 8 bits -/
def parity8 (n : Nat) : Nat :=
  (n ^^^ (n >>> 1) ^^^ (n >>> 2) ^^^ (n >>> 3) ^^^ (n >>> 4) ^^^ (n >>> 5) ^^^ (n >>> 6) ^^^
    (n >>> 7)) % 2

/-- 8-bit rotate left (`x < 256`, `k ≤ 8`) -/
def rotl8 (x k : Nat) : Nat := ((x <<< k) ||| (x >>> (8 - k))) % 256

/-- affine map over GF(2): bit (7-i) of A(x) = parity(rotl8(0xD3, (8-i)%8) AND x) for i = 0..7,
then XOR 0xD3 -/
def affine (x : Nat) : Nat :=
  ((List.range 8).foldl
    (fun acc i => acc ||| (parity8 (rotl8 0xD3 ((8 - i) % 8) &&& x) <<< (7 - i))) 0) ^^^ 0xD3

/-- multiplication in GF(2^8) = GF(2)[x]/(x^8+x^7+x^6+x^5+x^4+x^2+1) (0x1F5), shift-and-add,
for `a, b < 256`; written branch-free so that the kernel evaluates it with GMP arithmetic -/
def gfMul (a b : Nat) : Nat :=
  ((List.range 8).foldl (fun (st : Nat × Nat) i =>
      (st.1 ^^^ (st.2 * ((b >>> i) % 2)), (st.2 <<< 1) ^^^ (0x1F5 * (st.2 / 128)))) (0, a)).1

/-- a^254: the inverse of `a ≠ 0` in GF(2^8), and 0 for `a = 0` (see `gfInv_spec`) -/
def gfInv (a : Nat) : Nat :=
  let a2 := gfMul a a; let a4 := gfMul a2 a2; let a8 := gfMul a4 a4; let a16 := gfMul a8 a8
  let a32 := gfMul a16 a16; let a64 := gfMul a32 a32; let a128 := gfMul a64 a64
  gfMul a2 (gfMul a4 (gfMul a8 (gfMul a16 (gfMul a32 (gfMul a64 a128)))))

/-- the S-box generator -/
def sboxGen (x : Nat) : Nat := affine (gfInv (affine x))

theorem gfInv_spec : ∀ x, x < 256 → gfMul x (gfInv x) = if x = 0 then 0 else 1 := by
  decide +kernel

theorem sbox_algebraic_lt : ∀ x, x < 256 → (SBOX.getD x 0).toNat = sboxGen x := by
  decide +kernel

theorem sbox_algebraic (b : UInt8) : (S b).toNat = affine (gfInv (affine b.toNat)) :=
  sbox_algebraic_lt b.toNat b.toNat_lt

end GmVerif.Proofs.SM4
