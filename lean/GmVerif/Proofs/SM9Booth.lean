/-
Helper lemmas for C13a (Booth recoding): closed form of `Impl.SM9.sm9_u256_get_booth` for the window sizes 5 and 7
(no panic, signed digit of the (w+1)-bit window), digit bounds, reconstruction of the scalar, sign of the leading digit.
-/
import GmVerif.Proofs.SM9Field
open GmVerif GmVerif.Impl GmVerif.Gen.SM9

namespace GmVerif.Proofs.SM9Booth

/-- the (w+1)-bit window of `2k` starting at bit `w·i` (i.e. bits `w·i − 1 … w·i + w − 1` of k, bit −1 being 0) -/
def win (k w i : Nat) : Nat := 2 * k / 2 ^ (w * i) % 2 ^ (w + 1)

/-- the signed digit read off a window -/
def digit (w W : Nat) : Int := ((W % 2 ^ w : Nat) : Int) - ((W / 2 : Nat) : Int)

theorem toI32_small (v : Nat) (h : v < 2 ^ 31) : SM9.toI32 v = (v : Int) := by
  unfold SM9.toI32
  have : v % 2 ^ 32 = v := Nat.mod_eq_of_lt (by omega)
  simp only [this]
  rw [if_neg (by omega)]
  rfl

theorem i32_sub_small (x y : Nat) (hx : x < 2 ^ 30) (hy : y < 2 ^ 30) :
    SM9.i32_sub (x : Int) (y : Int) = .ok ((x : Int) - (y : Int)) := by
  unfold SM9.i32_sub
  simp only
  rw [if_neg (by omega)]

/-- the last line of `sm9_u256_get_booth` only depends on the low w+1 bits of `wbits` -/
theorem booth_tail (wbits w : Nat) (hw : w ≤ 29) :
    SM9.i32_sub (SM9.toI32 (wbits &&& (2 ^ w - 1))) (SM9.toI32 ((wbits >>> 1) &&& (2 ^ w - 1)))
      = .ok (digit w (wbits % 2 ^ (w + 1))) := by
  have hp : (2 : Nat) ^ w < 2 ^ 30 := Nat.pow_lt_pow_right (by decide) (by omega)
  have e1 : wbits &&& (2 ^ w - 1) = wbits % 2 ^ (w + 1) % 2 ^ w := by
    rw [Nat.and_two_pow_sub_one_eq_mod, Nat.mod_mod_of_dvd _ (Nat.pow_dvd_pow 2 (by omega))]
  have e2 : (wbits >>> 1) &&& (2 ^ w - 1) = wbits % 2 ^ (w + 1) / 2 := by
    rw [Nat.and_two_pow_sub_one_eq_mod, Nat.shiftRight_eq_div_pow, Nat.pow_one, Nat.pow_succ, Nat.mul_comm,
      Nat.mod_mul_right_div_self]
  have b1 : wbits % 2 ^ (w + 1) % 2 ^ w < 2 ^ 30 := Nat.lt_trans (Nat.mod_lt _ (by omega)) hp
  have b2 : wbits % 2 ^ (w + 1) / 2 < 2 ^ 30 := by
    have : wbits % 2 ^ (w + 1) < 2 ^ (w + 1) := Nat.mod_lt _ (Nat.two_pow_pos _)
    rw [Nat.pow_succ] at this
    omega
  rw [e1, e2, toI32_small _ (by omega), toI32_small _ (by omega), i32_sub_small _ _ b1 b2]
  rfl


/-- `a[n] >> j` -/
theorem wb1 (a n j : Nat) (hj : j < 64) :
    SM9.limb a n >>> j = a / 2 ^ (64 * n + j) % 2 ^ (64 - j) := by
  have h64 : (2 : Nat) ^ 64 = 2 ^ j * 2 ^ (64 - j) := by rw [← Nat.pow_add]; congr 1; omega
  rw [SM9.limb, SM9.W64, Nat.shiftRight_eq_div_pow, h64, Nat.mod_mul_right_div_self, Nat.div_div_eq_div_mul,
    ← Nat.pow_add]

/-- `a[n+1] << (64 − j)` (wrapping) -/
theorem wb2 (a n j : Nat) (hj : j < 64) :
    (SM9.limb a (n + 1) <<< (64 - j)) % SM9.W64 = 2 ^ (64 - j) * (a / 2 ^ (64 * n + j) / 2 ^ (64 - j) % 2 ^ j) := by
  have h64 : (2 : Nat) ^ 64 = 2 ^ (64 - j) * 2 ^ j := by rw [← Nat.pow_add]; congr 1; omega
  have e : a / 2 ^ (64 * n + j) / 2 ^ (64 - j) = a / 2 ^ (64 * (n + 1)) := by
    rw [Nat.div_div_eq_div_mul, ← Nat.pow_add]; congr 2; omega
  rw [e, SM9.limb, SM9.W64, Nat.shiftLeft_eq, Nat.mul_comm _ (2 ^ (64 - j)), h64, Nat.mul_mod_mul_left,
    Nat.mod_mod_of_dvd _ (Dvd.intro_left _ rfl)]

/-- the two limbs joined: 64 bits of `a` starting at bit 64n + j -/
theorem wb3 (a n j : Nat) (hj : j < 64) :
    (SM9.limb a n >>> j ||| (SM9.limb a (n + 1) <<< (64 - j)) % SM9.W64) = a / 2 ^ (64 * n + j) % 2 ^ 64 := by
  have h64 : (2 : Nat) ^ 64 = 2 ^ (64 - j) * 2 ^ j := by rw [← Nat.pow_add]; congr 1; omega
  rw [wb1 a n j hj, wb2 a n j hj, Nat.or_comm, ← Nat.two_pow_add_eq_or_of_lt (Nat.mod_lt _ (Nat.two_pow_pos _)),
    h64, Nat.mod_mul, Nat.add_comm]


theorem win_pos (k w i : Nat) (hi : 1 ≤ i * w) : win k w i = k / 2 ^ (i * w - 1) % 2 ^ (w + 1) := by
  have e : w * i = (i * w - 1) + 1 := by rw [Nat.mul_comm]; omega
  rw [win, e, Nat.pow_succ, Nat.mul_comm _ 2, Nat.mul_div_mul_left _ _ (by decide)]

/-- closed form of `sm9_u256_get_booth` for i ≥ 1 -/
theorem booth_pos (k w i : Nat) (hk : k < 2 ^ 256) (hw : 1 ≤ w ∧ w ≤ 7) (hi : 1 ≤ i) (hiw : i * w ≤ 256) :
    SM9.sm9_u256_get_booth k w i = .ok (digit w (win k w i)) := by
  have hiw1 : 1 ≤ i * w := Nat.mul_le_mul hi hw.1
  have hW : ¬ (i * w ≥ SM9.W64) := by simp only [SM9.W64]; omega
  rw [win_pos k w i hiw1]
  unfold SM9.sm9_u256_get_booth
  rw [if_neg (by omega), if_neg (by omega), if_neg hW, if_neg (by omega)]
  dsimp only
  have hj0 : 64 * ((i * w - 1) / 64) + (i * w - 1) % 64 = i * w - 1 := Nat.div_add_mod _ _
  have hj0le : i * w - 1 ≤ 255 := by omega
  generalize i * w - 1 = j0 at *
  have hj : j0 % 64 < 64 := Nat.mod_lt _ (by decide)
  rw [if_neg (by omega)]
  split
  · next hc =>
    rw [if_neg (by omega), booth_tail _ _ (by omega), wb3 k _ _ hj, hj0,
      Nat.mod_mod_of_dvd _ (Nat.pow_dvd_pow 2 (by omega))]
  · next hc =>
    rw [booth_tail _ _ (by omega), wb1 k _ _ hj, hj0]
    by_cases h1 : 64 - j0 % 64 < w + 1
    · have hn : j0 / 64 = 3 := by omega
      have : k / 2 ^ j0 < 2 ^ (64 - j0 % 64) := by
        apply Nat.div_lt_of_lt_mul
        rw [← Nat.pow_add]
        have : j0 + (64 - j0 % 64) = 256 := by omega
        rw [this]; exact hk
      rw [Nat.mod_eq_of_lt this]
    · rw [Nat.mod_mod_of_dvd _ (Nat.pow_dvd_pow 2 (by omega))]

/-- closed form of `sm9_u256_get_booth` for i = 0 -/
theorem booth_zero (k w : Nat) (hw : 1 ≤ w ∧ w ≤ 7) :
    SM9.sm9_u256_get_booth k w 0 = .ok (digit w (win k w 0)) := by
  unfold SM9.sm9_u256_get_booth
  rw [if_neg (by omega)]
  dsimp only
  rw [if_pos rfl]
  have hp : (2 : Nat) ^ w < 2 ^ 30 := Nat.pow_lt_pow_right (by decide) (by omega)
  have hd : (2 : Nat) ^ w ∣ 2 ^ 64 := Nat.pow_dvd_pow 2 (by omega)
  have h0 : SM9.limb k 0 = k % 2 ^ 64 := by
    rw [SM9.limb, Nat.mul_zero, Nat.pow_zero, Nat.div_one]; rfl
  have e1 : (SM9.limb k 0 * 2 % SM9.W64) &&& (2 ^ w - 1) = win k w 0 % 2 ^ w := by
    rw [h0, SM9.W64, Nat.and_two_pow_sub_one_eq_mod, Nat.mod_mod_of_dvd _ hd, win, Nat.mul_zero, Nat.pow_zero,
      Nat.div_one, Nat.mod_mod_of_dvd _ (Nat.pow_dvd_pow 2 (by omega)), Nat.mul_mod, Nat.mod_mod_of_dvd _ hd,
      ← Nat.mul_mod, Nat.mul_comm]
  have e2 : SM9.limb k 0 &&& (2 ^ w - 1) = win k w 0 / 2 := by
    rw [h0, Nat.and_two_pow_sub_one_eq_mod, Nat.mod_mod_of_dvd _ hd, win, Nat.mul_zero, Nat.pow_zero,
      Nat.div_one, Nat.pow_succ, Nat.mul_comm (2 ^ w), Nat.mod_mul_right_div_self,
      Nat.mul_div_cancel_left _ (by decide)]
  have b1 : win k w 0 % 2 ^ w < 2 ^ 30 := Nat.lt_trans (Nat.mod_lt _ (Nat.two_pow_pos _)) hp
  have b2 : win k w 0 / 2 < 2 ^ 30 := by
    have : win k w 0 < 2 ^ (w + 1) := Nat.mod_lt _ (Nat.two_pow_pos _)
    rw [Nat.pow_succ] at this
    omega
  rw [e1, e2, toI32_small _ (by omega), toI32_small _ (by omega), i32_sub_small _ _ b1 b2]
  rfl


/-- number of windows -/
def nw (w : Nat) : Nat := (256 + w - 1) / w

/-- closed form for every window index used by `point_mul` / `g_mul` -/
theorem booth_closed (k : Nat) (hk : k < 2 ^ 256) (w : Nat) (hw : w = 5 ∨ w = 7) (i : Nat) (hi : i < nw w) :
    SM9.sm9_u256_get_booth k w i = .ok (digit w (win k w i)) := by
  rcases Nat.eq_zero_or_pos i with rfl | hpos
  · exact booth_zero k w (by omega)
  · refine booth_pos k w i hk (by omega) hpos ?_
    rcases hw with rfl | rfl
    · have : i < 52 := hi
      omega
    · have : i < 37 := hi
      omega

theorem win_lt (k w i : Nat) : win k w i < 2 ^ (w + 1) := Nat.mod_lt _ (Nat.two_pow_pos _)

theorem digit_bounds (w W : Nat) (hw : w = 5 ∨ w = 7) (hW : W < 2 ^ (w + 1)) :
    -(2 ^ (w - 1) : Int) ≤ digit w W ∧ digit w W ≤ 2 ^ (w - 1) := by
  rcases hw with rfl | rfl
  · simp only [digit]; norm_num at hW ⊢; omega
  · simp only [digit]; norm_num at hW ⊢; omega

/-- the digit as a difference of two "floor" sequences: U i − 2^w · U (i+1) with U i = ⌊2k/2^(wi)⌋ − ⌊k/2^(wi)⌋ -/
def U (k w i : Nat) : Int := ((2 * k / 2 ^ (w * i) : Nat) : Int) - ((k / 2 ^ (w * i) : Nat) : Int)

theorem digit_eq_U (k w i : Nat) : digit w (win k w i) = U k w i - 2 ^ w * U k w (i + 1) := by
  have hT : 2 * k / 2 ^ (w * (i + 1)) = 2 * k / 2 ^ (w * i) / 2 ^ w := by
    rw [Nat.div_div_eq_div_mul, ← Nat.pow_add, Nat.mul_succ]
  have hS : k / 2 ^ (w * (i + 1)) = k / 2 ^ (w * i) / 2 ^ w := by
    rw [Nat.div_div_eq_div_mul, ← Nat.pow_add, Nat.mul_succ]
  have hS2 : 2 * k / 2 ^ (w * i) / 2 = k / 2 ^ (w * i) := by
    rw [Nat.div_div_eq_div_mul, Nat.mul_comm _ 2, Nat.mul_div_mul_left _ _ (by decide)]
  have e1 : win k w i % 2 ^ w = 2 * k / 2 ^ (w * i) % 2 ^ w := by
    rw [win, Nat.mod_mod_of_dvd _ (Nat.pow_dvd_pow 2 (by omega))]
  have e2 : win k w i / 2 = k / 2 ^ (w * i) % 2 ^ w := by
    rw [win, Nat.pow_succ, Nat.mul_comm (2 ^ w), Nat.mod_mul_right_div_self, hS2]
  unfold digit U
  rw [e1, e2, hT, hS]
  generalize 2 * k / 2 ^ (w * i) = T
  generalize k / 2 ^ (w * i) = S
  have h1 := Nat.div_add_mod T (2 ^ w)
  have h2 := Nat.div_add_mod S (2 ^ w)
  have h1' : (T : Int) = 2 ^ w * ((T / 2 ^ w : Nat) : Int) + ((T % 2 ^ w : Nat) : Int) := by
    exact_mod_cast h1.symm
  have h2' : (S : Int) = 2 ^ w * ((S / 2 ^ w : Nat) : Int) + ((S % 2 ^ w : Nat) : Int) := by
    exact_mod_cast h2.symm
  linear_combination h2' - h1'


theorem telescope (V : Nat → Int) (w n : Nat) :
    ((List.range n).map fun i => (V i - 2 ^ w * V (i + 1)) * 2 ^ (w * i)).sum = V 0 - V n * 2 ^ (w * n) := by
  induction n with
  | zero => simp
  | succ n ih =>
    rw [List.range_succ, List.map_append, List.sum_append, ih]
    simp only [List.map_cons, List.map_nil, List.sum_cons, List.sum_nil, Nat.mul_succ, pow_add]
    ring

theorem U_zero (k w : Nat) : U k w 0 = k := by
  simp only [U, Nat.mul_zero, Nat.pow_zero, Nat.div_one]
  push_cast; ring

theorem U_big (k w n : Nat) (h : 2 * k < 2 ^ (w * n)) : U k w n = 0 := by
  simp only [U]
  rw [Nat.div_eq_of_lt h, Nat.div_eq_of_lt (by omega)]
  rfl

/-- the digits reconstruct k -/
theorem digit_sum (k w n : Nat) (h : 2 * k < 2 ^ (w * n)) :
    ((List.range n).map fun i => digit w (win k w i) * 2 ^ (w * i)).sum = k := by
  simp only [digit_eq_U]
  rw [telescope (U k w) w n, U_zero, U_big k w n h]
  simp

theorem two_k_lt (k w : Nat) (hk : k < 2 ^ 256) (hw : w = 5 ∨ w = 7) : 2 * k < 2 ^ (w * nw w) := by
  have : (2 : Nat) ^ 257 ≤ 2 ^ (w * nw w) := by
    apply Nat.pow_le_pow_right (by decide)
    rcases hw with rfl | rfl <;> decide
  have : (2 : Nat) ^ 257 = 2 * 2 ^ 256 := by rw [Nat.pow_succ, Nat.mul_comm]
  omega

/-- when 2k < 2^(w(j+1)) the window is just ⌊2k / 2^(wj)⌋, the digit is non-negative and vanishes only if 2k < 2^(wj) -/
theorem digit_top (k w j : Nat) (h : 2 * k < 2 ^ (w * (j + 1))) :
    0 ≤ digit w (win k w j) ∧ (digit w (win k w j) = 0 → 2 * k < 2 ^ (w * j)) := by
  have hT : 2 * k / 2 ^ (w * j) < 2 ^ w := by
    apply Nat.div_lt_of_lt_mul
    rwa [← Nat.pow_add, ← Nat.mul_succ]
  have hw1 : win k w j = 2 * k / 2 ^ (w * j) := by
    rw [win, Nat.mod_eq_of_lt (Nat.lt_trans hT (Nat.pow_lt_pow_right (by decide) (by omega)))]
  rw [hw1, digit, Nat.mod_eq_of_lt hT]
  constructor
  · omega
  · intro h0
    have : 2 * k / 2 ^ (w * j) = 0 := by omega
    rcases Nat.div_eq_zero_iff.mp this with h' | h'
    · exact absurd h' (Nat.ne_of_gt (Nat.two_pow_pos _))
    · exact h'

/-- the first non-zero digit from the top is positive -/
theorem digit_first_pos (k w n i : Nat) (hn : 2 * k < 2 ^ (w * n)) (hi : i < n)
    (hz : ∀ j, i < j → j < n → digit w (win k w j) = 0) (hne : digit w (win k w i) ≠ 0) :
    0 < digit w (win k w i) := by
  have key : ∀ t, t ≤ n - (i + 1) → 2 * k < 2 ^ (w * (n - t)) := by
    intro t
    induction t with
    | zero => intro _; exact hn
    | succ t ih =>
      intro ht
      have h1 := ih (by omega)
      have e : n - t = (n - (t + 1)) + 1 := by omega
      rw [e] at h1
      exact (digit_top k w (n - (t + 1)) h1).2 (hz _ (by omega) (by omega))
  have h := key (n - (i + 1)) (Nat.le_refl _)
  have e : n - (n - (i + 1)) = i + 1 := by omega
  rw [e] at h
  have := (digit_top k w i h).1
  omega


/-! ### the statements on the model's digits -/

/-- digit i of the model (0 when the model panics — which it does not for i < nw w, see `booth_closed`) -/
def boothDigit (k w i : Nat) : Int :=
  match SM9.sm9_u256_get_booth k w i with
  | .ok d => d
  | _ => 0

theorem boothDigit_eq (k : Nat) (hk : k < 2 ^ 256) (w : Nat) (hw : w = 5 ∨ w = 7) (i : Nat) (hi : i < nw w) :
    boothDigit k w i = digit w (win k w i) := by
  rw [boothDigit, booth_closed k hk w hw i hi]

theorem booth_sum (k : Nat) (hk : k < 2 ^ 256) (w : Nat) (hw : w = 5 ∨ w = 7) :
    ((List.range (nw w)).map fun i => boothDigit k w i * 2 ^ (w * i)).sum = k := by
  rw [← digit_sum k w (nw w) (two_k_lt k w hk hw)]
  congr 1
  apply List.map_congr_left
  intro i hi
  rw [boothDigit_eq k hk w hw i (List.mem_range.mp hi)]

theorem booth_first_pos (k : Nat) (hk : k < 2 ^ 256) (w : Nat) (hw : w = 5 ∨ w = 7) (i : Nat) (hi : i < nw w)
    (hz : ∀ j, i < j → j < nw w → boothDigit k w j = 0) (hne : boothDigit k w i ≠ 0) : 0 < boothDigit k w i := by
  rw [boothDigit_eq k hk w hw i hi] at hne ⊢
  refine digit_first_pos k w (nw w) i (two_k_lt k w hk hw) hi ?_ hne
  intro j h1 h2
  rw [← boothDigit_eq k hk w hw j h2]
  exact hz j h1 h2

end GmVerif.Proofs.SM9Booth
