/-
C12c, Stage A: the value `millerPart Q P` of the model's pairing routine before the final exponentiation is a canonical
tower element, for ALL twist points and G1 points with canonical coordinates (no curve equation, no order condition, no
"off infinity" condition is needed: the loop contains no data-dependent branch and every operation preserves canonicity).
Hence the `canon` field of `MillerRefines` holds and `MillerRefines` is equivalent to its `value` field.
-/
import GmVerif.Proofs.SM9MillerLines
set_option autoImplicit false
namespace GmVerif.Proofs.SM9MillerCanon
open GmVerif GmVerif.Proofs.SM9Tower GmVerif.Proofs.SM9Bridge GmVerif.Proofs.SM9MillerLines
open GmVerif.Proofs.SM9PairingReduce
open GmVerif.Spec.SM9 (p finalExp)
open _root_.GmVerif.Impl.SM9 (Fp2 Fp4 Fp12 Line TwistPoint Point Pre abits sm9_u256_eval_g_tangent sm9_u256_eval_g_line
  sm9_u256_eval_g_line_no_pre line_pre)

attribute [local irreducible] Impl.SM9.fp_mul Impl.SM9.fp_sqr Impl.SM9.fp_add Impl.SM9.fp_sub Impl.SM9.fp_double
  Impl.SM9.fp_triple Impl.SM9.fp_neg Impl.SM9.fp_div2 Impl.SM9.fp_inv

/-- canonical coordinates of a G1 point (only x and y are read by the line functions) -/
@[reducible] def CanonP (P : Point) : Prop := P.x < p ∧ P.y < p

/-! ### the pieces -/

theorem mont_one_lt : Gen.SM9.MODP_MONT_ONE < p := ok_one.1

/-- `to_affine_point` of canonical coordinates is canonical (whatever z is: `fp_inv 0 = 0`) -/
theorem to_affine_canon (P : Point) (hx : P.x < p) (hy : P.y < p) (hz : P.z < p) : CanonP P.to_affine_point := by
  have zi := ok_dec (F.inv P.z hz).1
  have y1 := F.omul (ok_dec hy) zi
  have zi2 := F.osqr zi
  have h2 : CanonP ⟨Impl.SM9.fp_mul P.x (Impl.SM9.fp_sqr (Impl.SM9.fp_inv P.z)),
      Impl.SM9.fp_mul (Impl.SM9.fp_mul P.y (Impl.SM9.fp_inv P.z)) (Impl.SM9.fp_sqr (Impl.SM9.fp_inv P.z)),
      Gen.SM9.MODP_MONT_ONE⟩ := ⟨(F.omul (ok_dec hx) zi2).1, (F.omul y1 zi2).1⟩
  by_cases h : Impl.SM9.u256_cmp P.z Gen.SM9.MODP_MONT_ONE = 0
  · rw [Point.to_affine_point, if_pos h]; exact ⟨hx, hy⟩
  · rw [Point.to_affine_point, if_neg h]; exact h2

theorem neg_canon {Q : TwistPoint} (hQ : CanonPt Q) : CanonPt Q.point_neg :=
  ⟨hQ.1, (F.o2_neg (ok2_dec hQ.2.1)).out.1, hQ.2.2⟩

theorem pi_consts_lt : TwistPoint.pi1_c < p ∧ TwistPoint.neg_pi2_c < p := by decide +kernel

theorem pi1_canon {Q : TwistPoint} (hQ : CanonPt Q) : CanonPt Q.point_pi1 :=
  ⟨(F.o2_conj (ok2_dec hQ.1)).out.1, (F.o2_conj (ok2_dec hQ.2.1)).out.1,
    (F.o2_mul_fp (F.o2_conj (ok2_dec hQ.2.2)) (ok_dec pi_consts_lt.1)).out.1⟩

theorem neg_pi2_canon {Q : TwistPoint} (hQ : CanonPt Q) : CanonPt Q.point_neg_pi2 :=
  ⟨hQ.1, (F.o2_neg (ok2_dec hQ.2.1)).out.1, (F.o2_mul_fp (ok2_dec hQ.2.2) (ok_dec pi_consts_lt.2)).out.1⟩

theorem tangent_canon {T : TwistPoint} {P : Point} (hT : CanonPt T) (hP : CanonP P) :
    CanonPt (sm9_u256_eval_g_tangent T P).1 ∧ CanonLine (sm9_u256_eval_g_tangent T P).2 := by
  obtain ⟨h1, h2⟩ := o_tangent (okPt_dec hT) (ok_dec hP.1) (ok_dec hP.2)
  exact ⟨h1.canon, h2.canon⟩

theorem line_no_pre_canon {T Q : TwistPoint} {P : Point} (hT : CanonPt T) (hQ : CanonPt Q) (hP : CanonP P) :
    CanonPt (sm9_u256_eval_g_line_no_pre T Q P).1 ∧ CanonLine (sm9_u256_eval_g_line_no_pre T Q P).2 := by
  obtain ⟨h1, h2⟩ := o_line_no_pre (okPt_dec hT) (okPt_dec hQ) (ok_dec hP.1) (ok_dec hP.2)
  exact ⟨h1.canon, h2.canon⟩

theorem line_mul_canon {r : Fp12} {lw : Line} (hr : Canon12 r) (hl : CanonLine lw) : Canon12 (r.fp_line_mul lw) :=
  (F.o12_line_mul (ok12_dec hr) (ok2_dec hl.1) (ok2_dec hl.2.1) (ok2_dec hl.2.2)).out.1

theorem sqr_canon {r : Fp12} (hr : Canon12 r) : Canon12 r.fp_sqr := (F.o12_sqr (ok12_dec hr)).out.1

/-! ### the loop -/

/-- the body of the loop of `sm9_u256_pairing`, with its free variables as parameters -/
def loopStep (pre : Pre) (q q1 : TwistPoint) (pa : Point) (st : Fp12 × TwistPoint) (ch : Char) : Fp12 × TwistPoint :=
  let (r, t) := st
  let r := r.fp_sqr
  let (t, lw) := sm9_u256_eval_g_tangent t pa
  let r := r.fp_line_mul lw
  if ch = '1' then
    let (t, lw) := sm9_u256_eval_g_line pre t q pa
    (r.fp_line_mul lw, t)
  else if ch = '2' then
    let (t, lw) := sm9_u256_eval_g_line pre t q1 pa
    (r.fp_line_mul lw, t)
  else (r, t)

/-- the `pre` block computed at the top of `sm9_u256_pairing` (`pre[1] = q.z.fp_mul(&pre[1])`) -/
def pairingPre (q : TwistPoint) (pa : Point) : Pre :=
  let pre0 := q.y.fp_sqr
  let pre4 := q.x.fp_mul q.z
  let pre4 := pre4.fp_double
  let pre1 := q.z.fp_sqr
  let pre1 := q.z.fp_mul pre1
  let pre2 := pre1.fp_mul_fp pa.y
  let pre2 := pre2.fp_double
  let pre3 := pre1.fp_mul_fp pa.x
  let pre3 := pre3.fp_double
  let pre3 := pre3.fp_neg
  ⟨pre0, pre1, pre2, pre3, pre4⟩

/-- the state after the signed-digit loop -/
def loopResult (q : TwistPoint) (pa : Point) : Fp12 × TwistPoint :=
  abits.toList.foldl (loopStep (pairingPre q pa) q q.point_neg pa) (Fp12.one, q)

/-- the two Frobenius line steps after the loop -/
def frobSteps (q : TwistPoint) (pa : Point) (st : Fp12 × TwistPoint) : Fp12 :=
  let s1 := sm9_u256_eval_g_line_no_pre st.2 q.point_pi1 pa
  let r := st.1.fp_line_mul s1.2
  let s2 := sm9_u256_eval_g_line_no_pre s1.1 q.point_neg_pi2 pa
  r.fp_line_mul s2.2

/-- `millerPart` = precomputation, fold of `loopStep` over `abits`, `frobSteps` (by unfolding; the fold itself is never
evaluated) -/
theorem millerPart_eq (q : TwistPoint) (P : Point) :
    millerPart q P = frobSteps q P.to_affine_point (loopResult q P.to_affine_point) := by
  unfold millerPart frobSteps loopResult
  have hf : loopStep (pairingPre q P.to_affine_point) q q.point_neg P.to_affine_point
      = fun st ch => loopStep (pairingPre q P.to_affine_point) q q.point_neg P.to_affine_point st ch := rfl
  rw [hf]
  unfold loopStep pairingPre
  dsimp only

theorem o_pairingPre {Q : TwistPoint} {P : Point} {X2 Y2 Z2 : F2} {xP yP : K} (hQ : OkPt Q X2 Y2 Z2) (hx : Ok P.x xP)
    (hy : Ok P.y yP) : PreFor (pairingPre Q P) X2 Y2 Z2 xP yP := by
  obtain ⟨x2, y2, z2⟩ := hQ
  have pre0 := F.o2_sqr y2
  have pre4 := F.o2_double (F.o2_mul x2 z2)
  have pre1 := F.o2_mul z2 (F.o2_sqr z2)
  have pre2 := F.o2_double (F.o2_mul_fp pre1 hy)
  have pre3 := F.o2_neg (F.o2_double (F.o2_mul_fp pre1 hx))
  exact ⟨pre0.cast (by ring), pre1.cast (by ring), pre2.cast (by ring), pre3.cast (by ring), pre4.cast (by ring)⟩

theorem pairingPre_canon {Q : TwistPoint} {P : Point} (hQ : CanonPt Q) (hP : CanonP P) : CanonPre (pairingPre Q P) :=
  OkPre.canon (o_pairingPre (okPt_dec hQ) (ok_dec hP.1) (ok_dec hP.2))

theorem loopStep_canon {pre : Pre} {q q1 : TwistPoint} {pa : Point} (hpre : CanonPre pre) (hq : CanonPt q)
    (hq1 : CanonPt q1) (hpa : CanonP pa) (st : Fp12 × TwistPoint) (ch : Char) (hr : Canon12 st.1) (ht : CanonPt st.2) :
    Canon12 (loopStep pre q q1 pa st ch).1 ∧ CanonPt (loopStep pre q q1 pa st ch).2 := by
  obtain ⟨r, t⟩ := st
  obtain ⟨ht2, hlw⟩ := tangent_canon (T := t) ht hpa
  have hr2 := line_mul_canon (sqr_canon hr) hlw
  unfold loopStep
  dsimp only
  split
  · obtain ⟨h1, h2⟩ := line_canon pa hpre ht2 hq
    exact ⟨line_mul_canon hr2 h2, h1⟩
  · split
    · obtain ⟨h1, h2⟩ := line_canon pa hpre ht2 hq1
      exact ⟨line_mul_canon hr2 h2, h1⟩
    · exact ⟨hr2, ht2⟩

theorem foldl_canon {pre : Pre} {q q1 : TwistPoint} {pa : Point} (hpre : CanonPre pre) (hq : CanonPt q)
    (hq1 : CanonPt q1) (hpa : CanonP pa) (cs : List Char) (st : Fp12 × TwistPoint) (hr : Canon12 st.1)
    (ht : CanonPt st.2) :
    Canon12 (cs.foldl (loopStep pre q q1 pa) st).1 ∧ CanonPt (cs.foldl (loopStep pre q q1 pa) st).2 := by
  induction cs generalizing st with
  | nil => exact ⟨hr, ht⟩
  | cons c cs ih =>
    rw [List.foldl_cons]
    obtain ⟨h1, h2⟩ := loopStep_canon hpre hq hq1 hpa st c hr ht
    exact ih _ h1 h2

theorem loopResult_canon {q : TwistPoint} {pa : Point} (hq : CanonPt q) (hpa : CanonP pa) :
    Canon12 (loopResult q pa).1 ∧ CanonPt (loopResult q pa).2 :=
  foldl_canon (pairingPre_canon hq hpa) hq (neg_canon hq) hpa _ _ ok12_one.out.1 hq

theorem frobSteps_canon {q : TwistPoint} {pa : Point} (hq : CanonPt q) (hpa : CanonP pa) (st : Fp12 × TwistPoint)
    (hr : Canon12 st.1) (ht : CanonPt st.2) : Canon12 (frobSteps q pa st) := by
  obtain ⟨h1, l1⟩ := line_no_pre_canon ht (pi1_canon hq) hpa
  obtain ⟨_, l2⟩ := line_no_pre_canon h1 (neg_pi2_canon hq) hpa
  exact line_mul_canon (line_mul_canon hr l1) l2

/-- STAGE A, general form: canonical coordinates suffice -/
theorem millerPart_canon (Q : TwistPoint) (P : Point) (hQ : CanonPt Q) (hx : P.x < p) (hy : P.y < p) (hz : P.z < p) :
    Canon12 (millerPart Q P) := by
  rw [millerPart_eq]
  have hpa := to_affine_canon P hx hy hz
  obtain ⟨hr, ht⟩ := loopResult_canon hQ hpa
  exact frobSteps_canon hQ hpa _ hr ht

/-- STAGE A as asked: the `canon` field of `MillerRefines` -/
theorem miller_canon (Q : TwistPoint) (P : Point) (hQ : InG2 Q) (hP : SM9G1.Valid P) (_hq : Q.z.is_zero = false)
    (_hp : P.z ≠ 0) : Canon12 (millerPart Q P) :=
  millerPart_canon Q P ⟨hQ.1.1, hQ.1.2.1, hQ.1.2.2.1⟩ hP.1 hP.2.1 hP.2.2.1

/-- the `value` field of `MillerRefines`, as a proposition of its own -/
def MillerValue : Prop :=
  ∀ Q P, InG2 Q → SM9G1.Valid P → Q.z.is_zero = false → P.z ≠ 0 →
    ∀ P' Q', Spec.SM9.embed1 (SM9G1.toSpec P) = some P' → Spec.SM9.untwist (SM9G2Impl.toSpec2 Q) = some Q' →
      ∃ c, Spec.SM9.Fp12.pow c finalExp = Spec.SM9.Fp12.one ∧
        dense (millerPart Q P) = Spec.SM9.Fp12.mul c (Spec.SM9.miller P' (some Q'))

/-- consequence: `MillerRefines` is its value part -/
theorem millerRefines_iff_value : MillerRefines ↔ MillerValue :=
  ⟨fun h => h.value, fun h => ⟨miller_canon, h⟩⟩

/-- consequence: with the canonicity proved, `MillerRefines` is EQUIVALENT to `PairingRefines` -/
theorem millerRefines_iff_pairingRefines : MillerRefines ↔ PairingRefines :=
  ⟨pairingRefines_of_miller, fun h => miller_of_pairingRefines h miller_canon⟩

end GmVerif.Proofs.SM9MillerCanon
