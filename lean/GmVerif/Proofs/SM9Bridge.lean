/-
The bridge between the model of gm-sm9 (`Impl.SM9`, Montgomery tower arithmetic, Jacobian points) and the specification
(`Spec.SM9`, dense Fp12 = Fp[w]/(w¹²+2), affine points) that the protocol refinement theorems (C09, C10, C17) are stated
through.  Definitions only.

`PairingRefines` is THE hypothesis of those theorems: "the model's R-ate pairing routine computes the specification's
pairing".  It is NOT proved (C12 is partial by nature: DESIGN §10); what is proved about the pairing is in Thm/C12 and
Thm/C13d (exponent decompositions, line/tower operations, Frobenius on the basis), and the equality itself is exercised by
the three-way differential of C12 (real code = model = textbook oracle on sampled and crafted points).
-/
import GmVerif.Proofs.SM9Tower
import GmVerif.Proofs.SM9G1
import GmVerif.Proofs.SM9G2Impl
namespace GmVerif.Proofs.SM9Bridge
open GmVerif

/-- the element of the specification's dense Fp12 denoted by a tower element of the model
(coefficients out of Montgomery form, v = w³, u = w⁶); the same map `fp12_to_bytes_spec` is stated through -/
def dense (a : Impl.SM9.Fp12) : Spec.SM9.Fp12 := Spec.SM9.Fp12.ofTower (SM9Tower.towerList a)

/-- tower multiplication is dense multiplication (pure algebra: to be PROVED, not assumed, wherever possible) -/
structure TowerDense : Prop where
  one : dense Impl.SM9.Fp12.one = Spec.SM9.Fp12.one
  mul : ∀ a b, SM9Tower.Canon12 a → SM9Tower.Canon12 b →
    dense (a.fp_mul b) = Spec.SM9.Fp12.mul (dense a) (dense b)

/-- a valid twist point of the order-N subgroup G2 -/
def InG2 (Q : Impl.SM9.TwistPoint) : Prop :=
  SM9G2Impl.Valid2 Q ∧ Spec.SM9.mul2 Spec.SM9.N (SM9G2Impl.toSpec2 Q) = none

/-- the single unproved link: on G1 × G2 the model's pairing routine returns a canonical tower element denoting the
specification's pairing value -/
structure PairingRefines : Prop where
  canon : ∀ Q P, InG2 Q → SM9G1.Valid P → SM9Tower.Canon12 (Impl.SM9.sm9_u256_pairing Q P)
  value : ∀ Q P, InG2 Q → SM9G1.Valid P →
    dense (Impl.SM9.sm9_u256_pairing Q P) = Spec.SM9.pairing (SM9G1.toSpec P) (SM9G2Impl.toSpec2 Q)

end GmVerif.Proofs.SM9Bridge
