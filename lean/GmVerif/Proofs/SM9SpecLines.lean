/-
C12c, specification side, part 2: the line function `Spec.SM9.lineAdd` of the textbook Miller loop, read in the field
A = Fp[w]/(w¹² + 2): in the generic chord case (different x-coordinates) and in the generic tangent case (y + y ≠ 0) it
returns canonical elements whose values are the textbook formulas with the slope λ (division of the field A; the
specification inverts by extended Euclid, `Proofs.SM9Fp12Inv.ev_inv`).
-/
import GmVerif.Proofs.SM9SpecField
import GmVerif.Proofs.SM9Fp12Inv
set_option autoImplicit false
namespace GmVerif.Proofs.SM9SpecLines
open GmVerif GmVerif.Proofs.SM9Tower GmVerif.Proofs.SM9TowerDense GmVerif.Proofs.SM9PairingReduce
open GmVerif.Proofs.SM9SpecField
open GmVerif.Spec.SM9 (p finalExp lineAdd Pt12 neg12 frobPt)
open GmVerif.Proofs.SM9Fp12 (ev f Canon)

abbrev SFp12 := Spec.SM9.Fp12

theorem ev_inv' {a : SFp12} (ha : Canon a) (hne : ev a ≠ 0) : ev (Spec.SM9.Fp12.inv a) = (ev a)⁻¹ :=
  eq_inv_of_mul_eq_one_right (SM9Fp12Inv.ev_inv a ha hne)

theorem ev_three : ev (Spec.SM9.Fp12.ofNat 3) = 3 := by
  rw [ev_ofNat, Nat.cast_ofNat, map_ofNat]

/-- what `lineAdd` returns in a generic case, with slope `lam`, through (X1, Y1), second x-coordinate X2, at (P1, P2) -/
structure LineRes (lam X1 Y1 X2 P1 P2 : A) (g x3 y3 : SFp12) : Prop where
  cg : Canon g
  cx : Canon x3
  cy : Canon y3
  eg : ev g = lam * (P1 - X1) - (P2 - Y1)
  ex : ev x3 = lam * lam - X1 - X2
  ey : ev y3 = lam * (X1 - ev x3) - Y1

/-- the chord: different x-coordinates -/
theorem lineAdd_chord (x1 y1 x2 y2 : SFp12) (P : SFp12 × SFp12) (hx : ev x1 ≠ ev x2) :
    ∃ g x3 y3, lineAdd (some (x1, y1)) (some (x2, y2)) P = (g, some (x3, y3)) ∧
      LineRes ((ev y2 - ev y1) / (ev x2 - ev x1)) (ev x1) (ev y1) (ev x2) (ev P.1) (ev P.2) g x3 y3 := by
  have hne : x1 ≠ x2 := fun h => hx (by rw [h])
  have hd : ev (Spec.SM9.Fp12.sub x2 x1) ≠ 0 := by rw [ev_sub]; exact sub_ne_zero.2 (Ne.symm hx)
  have hlam : ev (Spec.SM9.Fp12.mul (Spec.SM9.Fp12.sub y2 y1) (Spec.SM9.Fp12.inv (Spec.SM9.Fp12.sub x2 x1)))
      = (ev y2 - ev y1) / (ev x2 - ev x1) := by
    rw [SM9Fp12.ev_mul, ev_inv' (canon_sub _ _) hd, ev_sub, ev_sub, div_eq_mul_inv]
  simp only [lineAdd, if_neg hne]
  refine ⟨_, _, _, rfl, canon_sub _ _, canon_sub _ _, canon_sub _ _, ?_, ?_, ?_⟩
  · rw [ev_sub, SM9Fp12.ev_mul, ev_sub, ev_sub, hlam]
  · rw [ev_sub, ev_sub, SM9Fp12.ev_mul, hlam]
  · rw [ev_sub, SM9Fp12.ev_mul, ev_sub, hlam]

/-- the tangent: y + y ≠ 0 -/
theorem lineAdd_tangent (x y : SFp12) (P : SFp12 × SFp12) (hy : ev y + ev y ≠ 0) :
    ∃ g x3 y3, lineAdd (some (x, y)) (some (x, y)) P = (g, some (x3, y3)) ∧
      LineRes (3 * (ev x * ev x) / (ev y + ev y)) (ev x) (ev y) (ev x) (ev P.1) (ev P.2) g x3 y3 := by
  have hd : ev (Spec.SM9.Fp12.add y y) ≠ 0 := by rw [ev_add]; exact hy
  have hnz : Spec.SM9.Fp12.add y y ≠ Spec.SM9.Fp12.zero := fun h => hd (by rw [h, ev_zero])
  have hlam : ev (Spec.SM9.Fp12.mul (Spec.SM9.Fp12.mul (Spec.SM9.Fp12.ofNat 3) (Spec.SM9.Fp12.mul x x))
      (Spec.SM9.Fp12.inv (Spec.SM9.Fp12.add y y))) = 3 * (ev x * ev x) / (ev y + ev y) := by
    rw [SM9Fp12.ev_mul, SM9Fp12.ev_mul, SM9Fp12.ev_mul, ev_three, ev_inv' (canon_add _ _) hd, ev_add, div_eq_mul_inv]
  simp only [lineAdd, if_true, if_neg hnz]
  refine ⟨_, _, _, rfl, canon_sub _ _, canon_sub _ _, canon_sub _ _, ?_, ?_, ?_⟩
  · rw [ev_sub, SM9Fp12.ev_mul, ev_sub, ev_sub, hlam]
  · rw [ev_sub, ev_sub, SM9Fp12.ev_mul, hlam]
  · rw [ev_sub, SM9Fp12.ev_mul, ev_sub, hlam]

/-- the point returned by `lineAdd` does not depend on the evaluation point -/
theorem lineAdd_snd (U V : Pt12) (P P' : SFp12 × SFp12) : (lineAdd U V P).2 = (lineAdd U V P').2 := by
  rcases U with _ | ⟨x1, y1⟩
  · rfl
  rcases V with _ | ⟨x2, y2⟩
  · rfl
  simp only [lineAdd]
  split
  · split <;> rfl
  · rfl

end GmVerif.Proofs.SM9SpecLines
