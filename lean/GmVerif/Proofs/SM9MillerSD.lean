/-
C12c, Stages B and C: the specification-side SIGNED-DIGIT Miller value `millerSD` (same line functions and the same two
Frobenius steps as `Spec.SM9.miller`, but folding over the digit string `abits` of the model, digit 1 ↦ add Q, digit 2 ↦ add
−Q, starting from f = 1, T = Q and processing ALL 65 characters), and the step lemmas relating the model's Jacobian /
sparse / Fp2-scaled line functions to `Spec.SM9.lineAdd` on the untwisted points:

  model line value = c · (affine line value),   c = (non-zero Fp2 scalar) · w³   — killed by the final exponentiation,
  model point      = a Jacobian representation of the specification's point (`Rep`).

The steps are proved in the GENERIC cases of `lineAdd` (tangent at a point with y + y ≠ 0, chord through points with
different x-coordinates); the genericity of the whole chain is the specification-side predicate `SDGeneric`.
-/
import GmVerif.Proofs.SM9SpecLines
import GmVerif.Proofs.SM9MillerCanon
set_option autoImplicit false
namespace GmVerif.Proofs.SM9MillerSD
open GmVerif GmVerif.Proofs.SM9Tower GmVerif.Proofs.SM9TowerDense GmVerif.Proofs.SM9PairingReduce
open GmVerif.Proofs.SM9SpecField GmVerif.Proofs.SM9SpecLines GmVerif.Proofs.SM9MillerLines GmVerif.Proofs.SM9MillerCanon
open GmVerif.Spec.SM9 (p finalExp lineAdd Pt12 neg12 frobPt)
open GmVerif.Proofs.SM9Fp12 (ev f Canon)
open _root_.GmVerif.Impl.SM9 (Fp2 Fp4 Fp12 Line TwistPoint Point Pre abits sm9_u256_eval_g_tangent sm9_u256_eval_g_line
  sm9_u256_eval_g_line_no_pre line_pre)

attribute [local irreducible] Impl.SM9.fp_mul Impl.SM9.fp_sqr Impl.SM9.fp_add Impl.SM9.fp_sub Impl.SM9.fp_double
  Impl.SM9.fp_triple Impl.SM9.fp_neg Impl.SM9.fp_div2 Impl.SM9.fp_inv

/-! ## the specification-side signed-digit Miller value -/

/-- one step for the digit character `ch`: f ← f²·g_{T,T}(P), T ← 2T, then for '1' f ← f·g_{T,Q}(P), T ← T + Q and for
'2' f ← f·g_{T,−Q}(P), T ← T − Q -/
def sdStep (Q : Pt12) (P : SFp12 × SFp12) (st : SFp12 × Pt12) (ch : Char) : SFp12 × Pt12 :=
  let (f, T) := st
  let (g, T2) := lineAdd T T P
  let f := Spec.SM9.Fp12.mul (Spec.SM9.Fp12.mul f f) g
  if ch = '1' then
    let (g, T3) := lineAdd T2 Q P
    (Spec.SM9.Fp12.mul f g, T3)
  else if ch = '2' then
    let (g, T3) := lineAdd T2 (neg12 Q) P
    (Spec.SM9.Fp12.mul f g, T3)
  else (f, T2)

/-- the state after the 65 digits of `abits`, from (1, Q) -/
def sdLoop (P : SFp12 × SFp12) (Q : Pt12) : SFp12 × Pt12 :=
  abits.toList.foldl (sdStep Q P) (Spec.SM9.Fp12.one, Q)

/-- the two Frobenius line steps, exactly as in `Spec.SM9.miller` -/
def sdFinish (P : SFp12 × SFp12) (Q : Pt12) (st : SFp12 × Pt12) : SFp12 :=
  let (f, T) := st
  let Q1 := frobPt Q
  let Q2 := frobPt Q1
  let (g, T) := lineAdd T Q1 P
  let f := Spec.SM9.Fp12.mul f g
  let (g, _) := lineAdd T (neg12 Q2) P
  Spec.SM9.Fp12.mul f g

/-- THE SIGNED-DIGIT MILLER VALUE of the specification -/
def millerSD (P : SFp12 × SFp12) (Q : Pt12) : SFp12 := sdFinish P Q (sdLoop P Q)

/-! ### genericity of the chain (a statement about the specification only) -/

/-- the tangent at T is not vertical and T is finite -/
def TangentOK (T : Pt12) : Prop := ∃ x y, T = some (x, y) ∧ Spec.SM9.Fp12.add y y ≠ Spec.SM9.Fp12.zero
/-- T and Q are finite with different x-coordinates -/
def ChordOK (T Q : Pt12) : Prop := ∃ x1 y1 x2 y2, T = some (x1, y1) ∧ Q = some (x2, y2) ∧ x1 ≠ x2

def StepOK (Q : Pt12) (P : SFp12 × SFp12) (T : Pt12) (ch : Char) : Prop :=
  TangentOK T ∧ (ch = '1' → ChordOK (lineAdd T T P).2 Q) ∧ (ch = '2' → ChordOK (lineAdd T T P).2 (neg12 Q))

/-- every step of the fold from `st` over `cs` is generic -/
def GenericFrom (Q : Pt12) (P : SFp12 × SFp12) : List Char → SFp12 × Pt12 → Prop
  | [], _ => True
  | ch :: cs, st => StepOK Q P st.2 ch ∧ GenericFrom Q P cs (sdStep Q P st ch)

/-- no exceptional case (point at infinity, vertical line, T = ±Q at an addition) occurs along the signed-digit chain and
in the two Frobenius steps -/
def SDGeneric (P : SFp12 × SFp12) (Q : Pt12) : Prop :=
  GenericFrom Q P abits.toList (Spec.SM9.Fp12.one, Q)
    ∧ ChordOK (sdLoop P Q).2 (frobPt Q)
    ∧ ChordOK (lineAdd (sdLoop P Q).2 (frobPt Q) P).2 (neg12 (frobPt (frobPt Q)))

/-! ## representation of points -/

/-- the affine G1 point `pa` of the model (only x, y are read) denotes the evaluation point P' ∈ E(Fp) ⊂ E(Fp12) -/
def RepP (pa : Point) (P' : SFp12 × SFp12) : Prop :=
  pa.x < p ∧ pa.y < p ∧ Canon P'.1 ∧ Canon P'.2 ∧ ev P'.1 = ι (dec pa.x) ∧ ev P'.2 = ι (dec pa.y)

/-- the Jacobian twist point T = (X, Y, Z), Z ≠ 0, denotes T' = (X/Z²·w⁻², Y/Z³·w⁻³) ∈ E(Fp12): the untwist of its
affine form.  No curve equation is required. -/
def Rep (T : TwistPoint) (T' : Pt12) : Prop :=
  CanonPt T ∧ dec2 T.z ≠ 0 ∧ ∃ x y, T' = some (x, y) ∧ Canon x ∧ Canon y ∧
    ev x * (φ2 (dec2 T.z) ^ 2 * ω ^ 2) = φ2 (dec2 T.x) ∧ ev y * (φ2 (dec2 T.z) ^ 3 * ω ^ 3) = φ2 (dec2 T.y)

theorem two_ne_zero_A : (2 : A) ≠ 0 := by
  have h : (2 : A) = ι (2 : K) := (map_ofNat ι 2).symm
  rw [h]
  exact fun h0 => two_ne_zero' ((map_eq_zero ι).1 h0)

theorem four_ne_zero_A : (4 : A) ≠ 0 := by
  have : (4 : A) = 2 * 2 := by norm_num
  rw [this]; exact mul_ne_zero two_ne_zero_A two_ne_zero_A
theorem eight_ne_zero_A : (8 : A) ≠ 0 := by
  have : (8 : A) = 2 * 4 := by norm_num
  rw [this]; exact mul_ne_zero two_ne_zero_A four_ne_zero_A
theorem sixteen_ne_zero_A : (16 : A) ≠ 0 := by
  have : (16 : A) = 4 * 4 := by norm_num
  rw [this]; exact mul_ne_zero four_ne_zero_A four_ne_zero_A

theorem killed_φ2' {s : F2} (h : φ2 s ≠ 0) : Killed (φ2 s) := killed_φ2 (fun h0 => h (by rw [h0, map_zero]))

/-- the scalar in front of every line value: (Fp2 scalar)·w³ -/
theorem killed_scalar_ω3 {s : F2} (h : φ2 s ≠ 0) : Killed (φ2 s * ω ^ 3) := (killed_φ2' h).mul killed_ω3

/-! ## Stage B — the tangent step -/

theorem tangent_rep {T : TwistPoint} {T' : Pt12} {pa : Point} {P' : SFp12 × SFp12} (hT : Rep T T') (hP : RepP pa P')
    (hok : TangentOK T') :
    ∃ g T2', lineAdd T' T' P' = (g, T2') ∧ Canon g ∧ Rep (sm9_u256_eval_g_tangent T pa).1 T2'
      ∧ CanonLine (sm9_u256_eval_g_tangent T pa).2
      ∧ ∃ c, Killed c ∧ φ12 (lineElt (dec2 (sm9_u256_eval_g_tangent T pa).2.l0) (dec2 (sm9_u256_eval_g_tangent T pa).2.l1)
          (dec2 (sm9_u256_eval_g_tangent T pa).2.l2)) = c * ev g := by
  obtain ⟨hc, hz, x, y, rfl, cx, cy, ex, ey⟩ := hT
  obtain ⟨x', y', h, hyy⟩ := hok
  obtain ⟨rfl, rfl⟩ : x = x' ∧ y = y' := by simpa using h
  obtain ⟨hpx, hpy, cp1, cp2, ep1, ep2⟩ := hP
  have hy2 : ev y + ev y ≠ 0 := by
    rw [← ev_add]; exact fun h0 => hyy ((eq_zero_iff_ev (canon_add _ _)).2 h0)
  obtain ⟨g, x3, y3, hl, R⟩ := lineAdd_tangent x y P' hy2
  -- the numeral 2 of the denominator as an atom (the field has characteristic p: `ring` cannot invert numerals)
  obtain ⟨d, hd, hd0⟩ : ∃ d : A, d = 2 ∧ d ≠ 0 := ⟨2, rfl, two_ne_zero_A⟩
  have hyd : ev y + ev y = d * ev y := by rw [hd]; ring
  rw [hyd] at R
  obtain ⟨oT, oL⟩ := o_tangent (okPt_dec hc) (ok_dec hpx) (ok_dec hpy)
  have hc0 : φ2 (dec2 T.z) ≠ 0 := φ2_ne_zero hz
  have hω := ω_ne_zero
  have h2 := two_ne_zero_A
  have h4 := four_ne_zero_A
  have h8 := eight_ne_zero_A
  have h16 := sixteen_ne_zero_A
  have hx : ev x = φ2 (dec2 T.x) / (φ2 (dec2 T.z) ^ 2 * ω ^ 2) := by rw [← ex]; field_simp
  have hy : ev y = φ2 (dec2 T.y) / (φ2 (dec2 T.z) ^ 3 * ω ^ 3) := by rw [← ey]; field_simp
  have hb : φ2 (dec2 T.y) ≠ 0 := by
    intro hb0; rw [hb0, zero_div] at hy; rw [hy, add_zero] at hy2; exact hy2 rfl
  have eZ : φ2 (dblZ (dec2 T.y) (dec2 T.z)) = 2 * φ2 (dec2 T.y) * φ2 (dec2 T.z) := by
    unfold dblZ; simp only [map_mul, map_ofNat]
  refine ⟨g, some (x3, y3), hl, R.cg, ⟨oT.canon, ?_, x3, y3, rfl, R.cx, R.cy, ?_, ?_⟩, oL.canon,
    φ2 (-(4 * dec2 T.y * dec2 T.z ^ 3)) * ω ^ 3, killed_scalar_ω3 ?_, ?_⟩
  · rw [oT.z.out.2]
    intro h0
    have := congrArg φ2 h0
    rw [eZ, map_zero] at this
    exact mul_ne_zero (mul_ne_zero h2 hb) hc0 this
  · rw [oT.z.out.2, oT.x.out.2, eZ, R.ex, hx, hy]
    unfold dblX
    simp only [map_sub, map_mul, map_pow, map_ofNat]
    field_simp
    subst hd
    ring
  · rw [oT.z.out.2, oT.y.out.2, eZ, R.ey, R.ex, hx, hy]
    unfold dblY dblX
    simp only [map_sub, map_mul, map_pow, map_ofNat]
    field_simp
    subst hd
    ring
  · simp only [map_neg, map_mul, map_pow, map_ofNat]
    exact neg_ne_zero.2 (mul_ne_zero (mul_ne_zero h4 hb) (pow_ne_zero _ hc0))
  · rw [φ12_lineElt, oL.l0.out.2, oL.l1.out.2, oL.l2.out.2, R.eg, ep1, ep2, hx, hy]
    unfold tan0 tan1 tan2
    simp only [map_sub, map_neg, map_mul, map_pow, map_ofNat, φ2_of]
    field_simp
    subst hd
    ring


/-! ## Stage B — the chord step -/

theorem chord_rep {pre : Pre} {T Q : TwistPoint} {T' Q' : Pt12} {pa : Point} {P' : SFp12 × SFp12}
    (hpre : PreFor pre (dec2 Q.x) (dec2 Q.y) (dec2 Q.z) (dec pa.x) (dec pa.y))
    (hT : Rep T T') (hQ : Rep Q Q') (hP : RepP pa P') (hok : ChordOK T' Q') :
    ∃ g T3', lineAdd T' Q' P' = (g, T3') ∧ Canon g ∧ Rep (sm9_u256_eval_g_line pre T Q pa).1 T3'
      ∧ CanonLine (sm9_u256_eval_g_line pre T Q pa).2
      ∧ ∃ c, Killed c ∧ φ12 (lineElt (dec2 (sm9_u256_eval_g_line pre T Q pa).2.l0)
          (dec2 (sm9_u256_eval_g_line pre T Q pa).2.l1) (dec2 (sm9_u256_eval_g_line pre T Q pa).2.l2)) = c * ev g := by
  obtain ⟨hc1, hz1, x1, y1, rfl, cx1, cy1, ex1, ey1⟩ := hT
  obtain ⟨hc2, hz2, x2, y2, rfl, cx2, cy2, ex2, ey2⟩ := hQ
  obtain ⟨a1, b1, a2, b2, h1, h2', hne⟩ := hok
  obtain ⟨rfl, rfl⟩ : x1 = a1 ∧ y1 = b1 := by simpa using h1
  obtain ⟨rfl, rfl⟩ : x2 = a2 ∧ y2 = b2 := by simpa using h2'
  obtain ⟨hpx, hpy, cp1, cp2, ep1, ep2⟩ := hP
  have hxne : ev x1 ≠ ev x2 := fun h => hne (SM9Fp12.ev_injective cx1 cx2 h)
  obtain ⟨g, x3, y3, hl, R⟩ := lineAdd_chord x1 y1 x2 y2 P' hxne
  obtain ⟨oT, oL⟩ := o_line pa hpre (okPt_dec hc1) (okPt_dec hc2)
  have hc1' : φ2 (dec2 T.z) ≠ 0 := φ2_ne_zero hz1
  have hc2' : φ2 (dec2 Q.z) ≠ 0 := φ2_ne_zero hz2
  have hω := ω_ne_zero
  have h2 := two_ne_zero_A
  have h4 := four_ne_zero_A
  have h8 := eight_ne_zero_A
  have h16 := sixteen_ne_zero_A
  have hx1 : ev x1 = φ2 (dec2 T.x) / (φ2 (dec2 T.z) ^ 2 * ω ^ 2) := by rw [← ex1]; field_simp
  have hy1 : ev y1 = φ2 (dec2 T.y) / (φ2 (dec2 T.z) ^ 3 * ω ^ 3) := by rw [← ey1]; field_simp
  have hy2 : ev y2 = φ2 (dec2 Q.y) / (φ2 (dec2 Q.z) ^ 3 * ω ^ 3) := by rw [← ey2]; field_simp
  -- H, kept folded
  have hHval : φ2 (addH (dec2 T.x) (dec2 T.z) (dec2 Q.x) (dec2 Q.z))
      = φ2 (dec2 Q.x) * φ2 (dec2 T.z) ^ 2 - φ2 (dec2 T.x) * φ2 (dec2 Q.z) ^ 2 := by
    unfold addH; simp only [map_sub, map_mul, map_pow]
  have hHx : φ2 (addH (dec2 T.x) (dec2 T.z) (dec2 Q.x) (dec2 Q.z))
      = (ev x2 - ev x1) * (φ2 (dec2 T.z) ^ 2 * φ2 (dec2 Q.z) ^ 2 * ω ^ 2) := by
    rw [hHval, ← ex1, ← ex2]; ring
  have hH : φ2 (addH (dec2 T.x) (dec2 T.z) (dec2 Q.x) (dec2 Q.z)) ≠ 0 := by
    rw [hHx]
    exact mul_ne_zero (sub_ne_zero.2 (Ne.symm hxne))
      (mul_ne_zero (mul_ne_zero (pow_ne_zero _ hc1') (pow_ne_zero _ hc2')) (pow_ne_zero _ hω))
  have ha2 : φ2 (dec2 Q.x) = (φ2 (addH (dec2 T.x) (dec2 T.z) (dec2 Q.x) (dec2 Q.z))
      + φ2 (dec2 T.x) * φ2 (dec2 Q.z) ^ 2) / φ2 (dec2 T.z) ^ 2 := by
    rw [hHval]; field_simp; ring
  have hx2 : ev x2 = (φ2 (addH (dec2 T.x) (dec2 T.z) (dec2 Q.x) (dec2 Q.z))
      + φ2 (dec2 T.x) * φ2 (dec2 Q.z) ^ 2) / (φ2 (dec2 T.z) ^ 2 * φ2 (dec2 Q.z) ^ 2 * ω ^ 2) := by
    have : ev x2 = φ2 (dec2 Q.x) / (φ2 (dec2 Q.z) ^ 2 * ω ^ 2) := by rw [← ex2]; field_simp
    rw [this, ha2]; field_simp
  have eZ : φ2 (addZ (dec2 T.x) (dec2 T.z) (dec2 Q.x) (dec2 Q.z))
      = 2 * φ2 (dec2 T.z) * φ2 (dec2 Q.z) * φ2 (addH (dec2 T.x) (dec2 T.z) (dec2 Q.x) (dec2 Q.z)) := by
    unfold addZ; simp only [map_mul, map_ofNat]
  have hdx : ev x2 - ev x1 = φ2 (addH (dec2 T.x) (dec2 T.z) (dec2 Q.x) (dec2 Q.z))
      / (φ2 (dec2 T.z) ^ 2 * φ2 (dec2 Q.z) ^ 2 * ω ^ 2) := by
    rw [hHx]; field_simp
  rw [hdx] at R
  generalize hhdef : φ2 (addH (dec2 T.x) (dec2 T.z) (dec2 Q.x) (dec2 Q.z)) = hh at *
  refine ⟨g, some (x3, y3), hl, R.cg, ⟨oT.canon, ?_, x3, y3, rfl, R.cx, R.cy, ?_, ?_⟩, oL.canon,
    φ2 (-(4 * dec2 T.z * dec2 Q.z ^ 4 * addH (dec2 T.x) (dec2 T.z) (dec2 Q.x) (dec2 Q.z))) * ω ^ 3,
    killed_scalar_ω3 ?_, ?_⟩
  · rw [oT.z.out.2]
    intro h0
    have := congrArg φ2 h0
    rw [eZ, map_zero] at this
    exact mul_ne_zero (mul_ne_zero (mul_ne_zero h2 hc1') hc2') hH this
  · rw [oT.z.out.2, oT.x.out.2, eZ, R.ex, hx1, hx2, hy1, hy2]
    unfold addX addR2
    simp only [map_sub, map_mul, map_pow, map_ofNat, hhdef]
    field_simp
    ring
  · rw [oT.z.out.2, oT.y.out.2, eZ, R.ey, R.ex, hx1, hx2, hy1, hy2]
    unfold addY addX addR2
    simp only [map_sub, map_mul, map_pow, map_ofNat, hhdef]
    field_simp
    ring
  · simp only [map_neg, map_mul, map_pow, map_ofNat, hhdef]
    exact neg_ne_zero.2 (mul_ne_zero (mul_ne_zero (mul_ne_zero h4 hc1') (pow_ne_zero _ hc2')) hH)
  · rw [φ12_lineElt, oL.l0.out.2, oL.l1.out.2, oL.l2.out.2, R.eg, ep1, ep2, hx1, hy1, hy2]
    unfold chord0 chord1 chord2 addR2
    simp only [map_sub, map_neg, map_mul, map_pow, map_ofNat, φ2_of, hhdef, ha2]
    field_simp
    ring

end GmVerif.Proofs.SM9MillerSD
