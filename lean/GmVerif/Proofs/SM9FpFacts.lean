/-
The bundle of base-field facts `Proofs.SM9Tower.FpFacts` (hypothesis of every C13b theorem) is discharged here from
the C13a property theorems (`Thm.C13a.sm9_fp_*_correct`, `sm9_consts`) and the primality of p (`Thm.Primes.sm9_p_prime`).
-/
import GmVerif.Thm.C13a
import GmVerif.Thm.Primes
import GmVerif.Proofs.SM9Tower
namespace GmVerif.Proofs.SM9FpFacts
open GmVerif
open GmVerif.Spec.SM9 (p)

theorem p_eq : Thm.Primes.sm9_p = p := rfl

theorem p_pos : 0 < p := by decide
theorem p_lt : p < 2 ^ 256 := by decide

/-- the inverse in the shape of the bundle: for canonical a ≠ 0, a ⊗ a⁻¹ = R mod p (Montgomery one); `fp_inv 0 = 0` -/
theorem fp_inv_facts (a : Nat) (ha : a < p) :
    Impl.SM9.fp_inv a < p ∧ (a ≠ 0 → Impl.SM9.fp_mul a (Impl.SM9.fp_inv a) = 2 ^ 256 % p)
      ∧ (a = 0 → Impl.SM9.fp_inv a = 0) := by
  by_cases h0 : a = 0
  · subst h0
    rw [Thm.C13a.sm9_fp_inv_zero]
    exact ⟨p_pos, fun h => absurd rfl h, fun _ => rfl⟩
  · -- a = A·R mod p with A = fp_from_mont a
    obtain ⟨hA, hAR⟩ := Thm.C13a.sm9_fp_from_mont_correct a (Nat.lt_trans ha p_lt)
    rw [Nat.mod_eq_of_lt ha] at hAR
    have hA0 : Impl.SM9.fp_from_mont a % p ≠ 0 := by
      intro h
      rw [Nat.mod_eq_of_lt hA] at h
      rw [h, Nat.zero_mul, Nat.zero_mod] at hAR
      exact h0 hAR.symm
    obtain ⟨I, hI, hAI, hinv⟩ := Thm.C13a.sm9_fp_inv_correct (Impl.SM9.fp_from_mont a) hA0
    rw [hAR] at hinv
    refine ⟨by rw [hinv]; exact Nat.mod_lt _ p_pos, fun _ => ?_, fun h => absurd h h0⟩
    have hm := Thm.C13a.sm9_fp_mul_dom (Impl.SM9.fp_from_mont a) I
    rw [hAR, ← hinv] at hm
    rw [hm, Nat.mul_mod, hAI, Nat.one_mul, Nat.mod_mod]

/-- THE BUNDLE -/
theorem fp_facts : Proofs.SM9Tower.FpFacts where
  prime := p_eq ▸ Thm.Primes.sm9_p_prime
  mul := Thm.C13a.sm9_fp_mul_correct
  add := Thm.C13a.sm9_fp_add_correct
  sub := Thm.C13a.sm9_fp_sub_correct
  neg := Thm.C13a.sm9_fp_neg_correct
  div2 := Thm.C13a.sm9_fp_div2_correct
  inv := fp_inv_facts
  consts := Thm.C13a.sm9_consts.1

end GmVerif.Proofs.SM9FpFacts
