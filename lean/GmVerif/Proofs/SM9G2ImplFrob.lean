/-
The two Frobenius-twist maps of the gm-sm9 twist points used by the final steps of the pairing,
`TwistPoint.point_pi1` : (X, Y, Z) ↦ (X̄, Ȳ, Z̄·c₁) and `TwistPoint.point_neg_pi2` : (X, Y, Z) ↦ (X, −Y, Z·c₂), with the
function-local constants c₁ = β^((p−1)/12), c₂ = β^((p−1)/6) (β = −2, Montgomery form; c₁⁶ = −1, c₂⁶ = 1):
both map valid points to valid points (the conjugate of 5u is −5u = 5u·c₁⁶).
-/
import GmVerif.Proofs.SM9G2Impl
set_option autoImplicit false
namespace GmVerif.Proofs.SM9G2Impl
open GmVerif
open GmVerif.Spec.SM9 (p)
open GmVerif.Proofs.SM9Tower
open GmVerif.Proofs.SM9FpFacts (fp_facts)
open GmVerif.Proofs.SM9G2ImplField (b2)
open _root_.GmVerif.Impl.SM9 (Fp2 TwistPoint)

/-! ### conjugation of F2 is a ring homomorphism -/

theorem conj_mul (a b : F2) : (a * b).conj = a.conj * b.conj := by
  ext <;> simp only [Quad.conj_c0, Quad.conj_c1, Quad.mul_c0, Quad.mul_c1] <;> ring
theorem conj_add (a b : F2) : (a + b).conj = a.conj + b.conj := by
  ext <;> simp only [Quad.conj_c0, Quad.conj_c1, Quad.add_c0, Quad.add_c1]; ring
theorem conj_pow (a : F2) (n : Nat) : (a ^ n).conj = a.conj ^ n := by
  induction n with
  | zero => ext <;> simp
  | succ n ih => rw [pow_succ, pow_succ, conj_mul, ih]
theorem conj_b2 : b2.conj = -b2 := by ext <;> simp [b2]
theorem conj_eq_zero {a : F2} (h : a = 0) : a.conj = 0 := by subst h; ext <;> simp

/-! ### the constants -/

theorem pi_consts : TwistPoint.pi1_c = Gen.SM9.MONT_ALPHA1 ∧ TwistPoint.neg_pi2_c = Gen.SM9.MONT_ALPHA2
    ∧ TwistPoint.pi1_c < p ∧ TwistPoint.neg_pi2_c < p := by decide +kernel

theorem pi1_c_pow6_model : Impl.SM9.fp_sqr (Impl.SM9.fp_mul (Impl.SM9.fp_sqr TwistPoint.pi1_c) TwistPoint.pi1_c)
    = Impl.SM9.fp_neg Gen.SM9.MODP_MONT_ONE := by decide +kernel
theorem neg_pi2_c_pow6_model :
    Impl.SM9.fp_sqr (Impl.SM9.fp_mul (Impl.SM9.fp_sqr TwistPoint.neg_pi2_c) TwistPoint.neg_pi2_c)
      = Gen.SM9.MODP_MONT_ONE := by decide +kernel

/-- c₁⁶ = −1 -/
theorem pi1_c_pow6 : dec TwistPoint.pi1_c ^ 6 = -1 := by
  have hc := ok_dec pi_consts.2.2.1
  have h6 := fp_facts.osqr (fp_facts.omul (fp_facts.osqr hc) hc)
  rw [pi1_c_pow6_model] at h6
  have := (h6.eq_iff (fp_facts.oneg ok_one)).1 rfl
  rw [← this]; ring

/-- c₂⁶ = 1 -/
theorem neg_pi2_c_pow6 : dec TwistPoint.neg_pi2_c ^ 6 = 1 := by
  have hc := ok_dec pi_consts.2.2.2
  have h6 := fp_facts.osqr (fp_facts.omul (fp_facts.osqr hc) hc)
  rw [neg_pi2_c_pow6_model] at h6
  have := (h6.eq_iff ok_one).1 rfl
  rw [← this]; ring

theorem of_pow (k : K) (n : Nat) : (Quad.of k : F2) ^ n = Quad.of (k ^ n) := by
  induction n with
  | zero => rfl
  | succ n ih => rw [pow_succ, pow_succ, ih, Quad.of_mul]

/-! ### the maps -/

theorem point_pi1_correct (Q : TwistPoint) (h : Valid2 Q) :
    Valid2 Q.point_pi1 ∧ dec2 Q.point_pi1.x = (dec2 Q.x).conj ∧ dec2 Q.point_pi1.y = (dec2 Q.y).conj
      ∧ dec2 Q.point_pi1.z = (dec2 Q.z).conj * Quad.of (dec TwistPoint.pi1_c) := by
  obtain ⟨hx, hy, hz, hE⟩ := h
  have ox := (fp_facts.o2_conj (ok2_dec hx)).out
  have oy := (fp_facts.o2_conj (ok2_dec hy)).out
  have oz := (fp_facts.o2_mul_fp (fp_facts.o2_conj (ok2_dec hz)) (ok_dec pi_consts.2.2.1)).out
  refine ⟨⟨ox.1, oy.1, oz.1, fun hne => ?_⟩, ox.2, oy.2, oz.2⟩
  show dec2 Q.y.conjugate ^ 2 = dec2 Q.x.conjugate ^ 3
    + b2 * dec2 (Q.z.conjugate.fp_mul_fp TwistPoint.pi1_c) ^ 6
  have hz0 : dec2 Q.z ≠ 0 := by
    intro h0
    apply hne
    show dec2 (Q.z.conjugate.fp_mul_fp TwistPoint.pi1_c) = 0
    rw [oz.2, conj_eq_zero h0, zero_mul]
  have E := congrArg Quad.conj (hE hz0)
  rw [conj_add, conj_mul, conj_pow, conj_pow, conj_pow, conj_b2] at E
  have h6 : (Quad.of (dec TwistPoint.pi1_c) : F2) ^ 6 = -1 := by
    rw [of_pow, pi1_c_pow6]; ext <;> simp
  rw [ox.2, oy.2, oz.2, mul_pow, h6]
  linear_combination E

theorem point_neg_pi2_correct (Q : TwistPoint) (h : Valid2 Q) :
    Valid2 Q.point_neg_pi2 ∧ Q.point_neg_pi2.x = Q.x ∧ dec2 Q.point_neg_pi2.y = -dec2 Q.y
      ∧ dec2 Q.point_neg_pi2.z = dec2 Q.z * Quad.of (dec TwistPoint.neg_pi2_c) := by
  obtain ⟨hx, hy, hz, hE⟩ := h
  have oy := (fp_facts.o2_neg (ok2_dec hy)).out
  have oz := (fp_facts.o2_mul_fp (ok2_dec hz) (ok_dec pi_consts.2.2.2)).out
  refine ⟨⟨hx, oy.1, oz.1, fun hne => ?_⟩, rfl, oy.2, oz.2⟩
  show dec2 Q.y.fp_neg ^ 2 = dec2 Q.x ^ 3 + b2 * dec2 (Q.z.fp_mul_fp TwistPoint.neg_pi2_c) ^ 6
  have hz0 : dec2 Q.z ≠ 0 := by
    intro h0
    apply hne
    show dec2 (Q.z.fp_mul_fp TwistPoint.neg_pi2_c) = 0
    rw [oz.2, h0, zero_mul]
  have E := hE hz0
  have h6 : (Quad.of (dec TwistPoint.neg_pi2_c) : F2) ^ 6 = 1 := by
    rw [of_pow, neg_pi2_c_pow6]; rfl
  rw [oy.2, oz.2, mul_pow, h6]
  linear_combination E

end GmVerif.Proofs.SM9G2Impl
