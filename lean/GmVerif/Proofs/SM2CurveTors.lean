/-
The SM2 curve has no point of order two: the cubic x³ + a·x + b has no root modulo p.
Certificate: x^p mod (x³ + a·x + b) = C0 + C1·x + C2·x² (computed by the kernel with the same square-and-multiply
loop as `powLoop`), and a Bézout identity  U·f + V·(x^p − x mod f) = 1  checked coefficient-wise.  A root r of f
would satisfy r^p = r (Fermat), hence 0 = 1.  (Constants computed outside Lean; everything is re-checked here.)
-/
import GmVerif.Proofs.SM2Curve

namespace GmVerif.Proofs.SM2CurveTors
open GmVerif GmVerif.Proofs.SM2Curve

/-- product of two polynomials of degree ≤ 2 (coefficients low to high) modulo f = x³ + a·x + b and modulo p -/
def polyMul (s t : ℕ × ℕ × ℕ) : ℕ × ℕ × ℕ :=
  let A := Spec.SM2.p - Spec.SM2.a
  let B := Spec.SM2.p - Spec.SM2.b
  let d0 := s.1 * t.1
  let d1 := s.1 * t.2.1 + s.2.1 * t.1
  let d2 := s.1 * t.2.2 + s.2.1 * t.2.1 + s.2.2 * t.1
  let d3 := s.2.1 * t.2.2 + s.2.2 * t.2.1
  let d4 := s.2.2 * t.2.2
  ((d0 + B * d3) % Spec.SM2.p, (d1 + A * d3 + B * d4) % Spec.SM2.p, (d2 + A * d4) % Spec.SM2.p)

def C0 : Nat := 0x359865aceb51b6bdbb593b2ef47adcfc3f45e863340cf767d4064d47e8c104f3
def C1 : Nat := 0x1a5d31e005823ce76ebd68c618616c3b124e72376ab0f34ef26c933456e8cc28
def C2 : Nat := 0x6533cd290a5724a12253626885c29181e05d0bcde5f9844c95fcd95c0b9f7d86
def U0 : Nat := 0x4917f432249badbcf54b21b41af8c280ab08cc7ea1b75ab3c9f9eb90fd77a6b4
def U1 : Nat := 0x3e9189e4cef372aefe3a81ad506c3f8352cf6d44b72776c828fa4557b6aefe5b
def V0 : Nat := 0xeb9539fb12a69fa8a00429afc717f1319f0c8d5b6b742939772c4ea8ae886749
def V1 : Nat := 0xbbea3c6e4f9890bc31aef1ce9abbeaf4847d5c84bfa4437849cb29256264e8b1
def V2 : Nat := 0x4eacc0d01f9e2a10d4f0056c0628ef26e06a3759ce9c5557561509c6fc21376f

/-- x^p mod f, by the 256-step square-and-multiply loop -/
theorem xp_mod : SM2CurvePow.powLoopG polyMul (1, 0, 0) (0, 1, 0) Spec.SM2.p = (C0, C1, C2) := by
  decide +kernel

/-! the Bézout identity U·f + V·g = 1 with g = C0 + (C1 − 1)·x + C2·x², coefficient by coefficient
(the subtraction is moved to the right-hand side) -/
theorem bez4 : (U1 + V2 * C2) % Spec.SM2.p = 0 := by decide +kernel
theorem bez3 : (U0 + V1 * C2 + V2 * C1) % Spec.SM2.p = V2 % Spec.SM2.p := by decide +kernel
theorem bez2 : (U1 * Spec.SM2.a + V0 * C2 + V1 * C1 + V2 * C0) % Spec.SM2.p = V1 % Spec.SM2.p := by decide +kernel
theorem bez1 : (U0 * Spec.SM2.a + U1 * Spec.SM2.b + V0 * C1 + V1 * C0) % Spec.SM2.p = V0 % Spec.SM2.p := by
  decide +kernel
theorem bez0 : (U0 * Spec.SM2.b + V0 * C0) % Spec.SM2.p = 1 % Spec.SM2.p := by decide +kernel

/-- evaluation of a triple at `r` -/
def ev (r : Fp) (t : ℕ × ℕ × ℕ) : Fp := (t.1 : Fp) + (t.2.1 : Fp) * r + (t.2.2 : Fp) * r ^ 2

theorem cast_p_sub_a : ((Spec.SM2.p - Spec.SM2.a : ℕ) : Fp) = -ca := by
  rw [Nat.cast_sub (by decide), ZMod.natCast_self, zero_sub]; rfl

theorem cast_p_sub_b : ((Spec.SM2.p - Spec.SM2.b : ℕ) : Fp) = -cb := by
  rw [Nat.cast_sub (by decide), ZMod.natCast_self, zero_sub]; rfl

theorem ev_polyMul (r : Fp) (hr : r ^ 3 + ca * r + cb = 0) (s t : ℕ × ℕ × ℕ) :
    ev r (polyMul s t) = ev r s * ev r t := by
  obtain ⟨a0, a1, a2⟩ := s
  obtain ⟨b0, b1, b2⟩ := t
  simp only [ev, polyMul, ZMod.natCast_mod, Nat.cast_add, Nat.cast_mul, cast_p_sub_a, cast_p_sub_b]
  linear_combination (-((a1 : Fp) * b2 + a2 * b1) - (a2 : Fp) * b2 * r) * hr

theorem no_two_torsion [Fact (Nat.Prime Spec.SM2.p)] : NoTwoTorsion := by
  intro r hr
  have h := SM2CurvePow.powLoopG_spec polyMul (1, 0, 0) (0, 1, 0) (ev r) (fun _ => True) trivial trivial
    (fun s t _ _ => ⟨trivial, ev_polyMul r hr s t⟩) (by simp [ev]) Spec.SM2.p p_lt
  rw [xp_mod] at h
  have hx : ev r (0, 1, 0) = r := by simp [ev]
  have hg : (C0 : Fp) + (C1 : Fp) * r + (C2 : Fp) * r ^ 2 = r := by
    have := h.2
    rw [hx, ZMod.pow_card] at this
    exact this
  have e4 : ((U1 : Fp) + V2 * C2) = 0 := by
    have := (ZMod.natCast_eq_natCast_iff' _ _ _).mpr (bez4.trans (Nat.zero_mod _).symm)
    exact_mod_cast this
  have e3 : ((U0 : Fp) + V1 * C2 + V2 * C1) = V2 := by
    have := (ZMod.natCast_eq_natCast_iff' _ _ _).mpr bez3
    exact_mod_cast this
  have e2 : ((U1 : Fp) * ca + V0 * C2 + V1 * C1 + V2 * C0) = V1 := by
    have := (ZMod.natCast_eq_natCast_iff' _ _ _).mpr bez2
    unfold ca; exact_mod_cast this
  have e1 : ((U0 : Fp) * ca + U1 * cb + V0 * C1 + V1 * C0) = V0 := by
    have := (ZMod.natCast_eq_natCast_iff' _ _ _).mpr bez1
    unfold ca cb; exact_mod_cast this
  have e0 : ((U0 : Fp) * cb + V0 * C0) = 1 := by
    have := (ZMod.natCast_eq_natCast_iff' _ _ _).mpr bez0
    unfold cb; exact_mod_cast this
  have : (1 : Fp) = 0 := by
    linear_combination ((U0 : Fp) + U1 * r) * hr + ((V0 : Fp) + V1 * r + V2 * r ^ 2) * (hg)
      - r ^ 4 * e4 - r ^ 3 * e3 - r ^ 2 * e2 - r * e1 - e0
  exact one_ne_zero this

end GmVerif.Proofs.SM2CurveTors
