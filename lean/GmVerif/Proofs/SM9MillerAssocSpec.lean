/-
C12f, Stage 2: the vertical values are killed by the final exponentiation, and the identities of Stage 1 for the values and
points returned by `Spec.SM9.lineAdd` (through `ev`, `lineAdd_chord`, `lineAdd_tangent`).

σ = the p⁶-power map of A = Fp[w]/(w¹² + 2) (a ring endomorphism: characteristic p).  A point of E(Fp12) is "of twist type"
(`OnTw`) when σ x = x and σ y = −y — as for ψ(x', y') = (x'·w⁻², y'·w⁻³) — and of "base type" when σ fixes both coordinates (as
for P ∈ E(Fp)).  Twist type is closed under chord, tangent and negation; for U of twist type and P of base type the vertical
value x_P − x_U is fixed by σ, hence killed when it is non-zero (`killed_vertical`).
-/
import GmVerif.Proofs.SM9MillerAssocSteps
import GmVerif.Proofs.SM9MillerSD
import Mathlib.Algebra.CharP.Frobenius
set_option autoImplicit false
namespace GmVerif.Proofs.SM9MillerAssocSpec
open GmVerif GmVerif.Proofs.SM9Tower GmVerif.Proofs.SM9TowerDense GmVerif.Proofs.SM9PairingReduce
open GmVerif.Proofs.SM9SpecField GmVerif.Proofs.SM9SpecLines GmVerif.Proofs.SM9MillerAssoc
open GmVerif.Spec.SM9 (p finalExp lineAdd Pt12 neg12 frobPt)
open GmVerif.Proofs.SM9Fp12 (ev f Canon)
open GmVerif.Proofs.SM9MillerSD (TangentOK ChordOK)

/-! ### the p⁶-power endomorphism -/

instance charA : CharP A p := charP_of_injective_ringHom ι.injective p

/-- σ : x ↦ x^(p⁶) -/
noncomputable def σ : A →+* A := iterateFrobenius A p 6

theorem σ_apply (x : A) : σ x = x ^ p ^ 6 := rfl

/-- KILLED VERTICAL (algebraic form): a non-zero difference of two elements fixed by x ↦ x^(p⁶) is killed -/
theorem killed_vertical {xP xU : A} (hP : xP ^ p ^ 6 = xP) (hU : xU ^ p ^ 6 = xU) (hne : xP ≠ xU) : Killed (xP - xU) := by
  apply killed_of_fixed (sub_ne_zero.2 hne)
  rw [← σ_apply, map_sub, σ_apply, σ_apply, hP, hU]

/-- twist type: σ x = x, σ y = −y -/
def OnTw (x y : A) : Prop := σ x = x ∧ σ y = -y

theorem OnTw.neg {x y : A} (h : OnTw x y) : OnTw x (-y) := ⟨h.1, by rw [map_neg, h.2]⟩

theorem OnTw.chord {x1 y1 x2 y2 : A} (h1 : OnTw x1 y1) (h2 : OnTw x2 y2) :
    OnTw ((y2 - y1) / (x2 - x1) * ((y2 - y1) / (x2 - x1)) - x1 - x2)
      ((y2 - y1) / (x2 - x1) * (x1 - ((y2 - y1) / (x2 - x1) * ((y2 - y1) / (x2 - x1)) - x1 - x2)) - y1) := by
  have hl : σ ((y2 - y1) / (x2 - x1)) = -((y2 - y1) / (x2 - x1)) := by
    rw [map_div₀, map_sub, map_sub, h1.1, h1.2, h2.1, h2.2]; ring
  constructor
  · rw [map_sub, map_sub, map_mul, hl, h1.1, h2.1]; ring
  · rw [map_sub, map_mul, map_sub, map_sub, map_sub, map_mul, hl, h1.1, h1.2, h2.1]; ring

theorem OnTw.tangent {x y : A} (h : OnTw x y) :
    OnTw (3 * (x * x) / (y + y) * (3 * (x * x) / (y + y)) - x - x)
      (3 * (x * x) / (y + y) * (x - (3 * (x * x) / (y + y) * (3 * (x * x) / (y + y)) - x - x)) - y) := by
  have hl : σ (3 * (x * x) / (y + y)) = -(3 * (x * x) / (y + y)) := by
    rw [map_div₀, map_mul, map_mul, map_add, map_ofNat, h.1, h.2]
    rw [show -y + -y = -(y + y) by ring, div_neg]
  constructor
  · rw [map_sub, map_sub, map_mul, hl, h.1]; ring
  · rw [map_sub, map_mul, map_sub, map_sub, map_sub, map_mul, hl, h.1, h.2]; ring

/-! ### points of the specification with coordinates in A -/

/-- T is the finite point with canonical coordinates of values (x, y) -/
def Aff (T : Pt12) (x y : A) : Prop := ∃ tx ty, T = some (tx, ty) ∧ Canon tx ∧ Canon ty ∧ ev tx = x ∧ ev ty = y

theorem Aff.unique {T T' : Pt12} {x y : A} (h : Aff T x y) (h' : Aff T' x y) : T = T' := by
  obtain ⟨a, b, rfl, ca, cb, ea, eb⟩ := h
  obtain ⟨a', b', rfl, ca', cb', ea', eb'⟩ := h'
  rw [SM9Fp12.ev_injective ca ca' (ea.trans ea'.symm), SM9Fp12.ev_injective cb cb' (eb.trans eb'.symm)]

theorem Aff.neg {T : Pt12} {x y : A} (h : Aff T x y) : Aff (neg12 T) x (-y) := by
  obtain ⟨a, b, rfl, ca, cb, ea, eb⟩ := h
  exact ⟨a, _, rfl, ca, canon_neg _, ea, by rw [ev_neg, eb]⟩

/-- the chord case of `lineAdd` -/
theorem Aff.chord {T Q : Pt12} {x1 y1 x2 y2 : A} (hT : Aff T x1 y1) (hQ : Aff Q x2 y2) (hx : x1 ≠ x2)
    (P : SFp12 × SFp12) :
    ∃ g W, lineAdd T Q P = (g, W) ∧ Canon g
      ∧ ev g = (y2 - y1) / (x2 - x1) * (ev P.1 - x1) - (ev P.2 - y1)
      ∧ Aff W ((y2 - y1) / (x2 - x1) * ((y2 - y1) / (x2 - x1)) - x1 - x2)
          ((y2 - y1) / (x2 - x1) * (x1 - ((y2 - y1) / (x2 - x1) * ((y2 - y1) / (x2 - x1)) - x1 - x2)) - y1) := by
  obtain ⟨a, b, rfl, ca, cb, rfl, rfl⟩ := hT
  obtain ⟨a', b', rfl, ca', cb', rfl, rfl⟩ := hQ
  obtain ⟨g, x3, y3, hl, R⟩ := lineAdd_chord a b a' b' P hx
  refine ⟨g, _, hl, R.cg, R.eg, x3, y3, rfl, R.cx, R.cy, R.ex, ?_⟩
  rw [R.ey, R.ex]

/-- the tangent case of `lineAdd` -/
theorem Aff.tangent {T : Pt12} {x y : A} (hT : Aff T x y) (hy : y + y ≠ 0) (P : SFp12 × SFp12) :
    ∃ g W, lineAdd T T P = (g, W) ∧ Canon g
      ∧ ev g = 3 * (x * x) / (y + y) * (ev P.1 - x) - (ev P.2 - y)
      ∧ Aff W (3 * (x * x) / (y + y) * (3 * (x * x) / (y + y)) - x - x)
          (3 * (x * x) / (y + y) * (x - (3 * (x * x) / (y + y) * (3 * (x * x) / (y + y)) - x - x)) - y) := by
  obtain ⟨a, b, rfl, ca, cb, rfl, rfl⟩ := hT
  obtain ⟨g, x3, y3, hl, R⟩ := lineAdd_tangent a b P hy
  refine ⟨g, _, hl, R.cg, R.eg, x3, y3, rfl, R.cx, R.cy, R.ex, ?_⟩
  rw [R.ey, R.ex]

theorem two_ne_zero_A : (2 : A) ≠ 0 := SM9MillerSD.two_ne_zero_A

theorem add_self_ne_zero {y : A} (hy : y ≠ 0) : y + y ≠ 0 := by
  rw [show y + y = 2 * y by ring]; exact mul_ne_zero two_ne_zero_A hy

theorem Aff.ne_of_chordOK {T Q : Pt12} {x1 y1 x2 y2 : A} (hT : Aff T x1 y1) (hQ : Aff Q x2 y2) (h : ChordOK T Q) :
    x1 ≠ x2 := by
  obtain ⟨a, b, rfl, ca, cb, rfl, rfl⟩ := hT
  obtain ⟨a', b', rfl, ca', cb', rfl, rfl⟩ := hQ
  obtain ⟨u1, v1, u2, v2, e1, e2, hne⟩ := h
  obtain ⟨rfl, rfl⟩ : a = u1 ∧ b = v1 := by simpa using e1
  obtain ⟨rfl, rfl⟩ : a' = u2 ∧ b' = v2 := by simpa using e2
  exact fun h => hne (SM9Fp12.ev_injective ca ca' h)

theorem Aff.ne_of_tangentOK {T : Pt12} {x y : A} (hT : Aff T x y) (h : TangentOK T) : y ≠ 0 := by
  obtain ⟨a, b, rfl, ca, cb, rfl, rfl⟩ := hT
  obtain ⟨u, v, e, hne⟩ := h
  obtain ⟨rfl, rfl⟩ : a = u ∧ b = v := by simpa using e
  intro h0
  apply hne
  rw [eq_zero_iff_ev (canon_add _ _), ev_add, h0, add_zero]

/-! ### Stage 1 for the values of `lineAdd` -/

/-- the curve y² = x³ + 5 in A -/
def OnE (x y : A) : Prop := y ^ 2 = x ^ 3 + 5

/-- KEY IDENTITY for `lineAdd` (doubling step with pending carry): with D = 2T, S = T + Q, U = D + Q (all computed by
`lineAdd`, generic cases),   g_{T,Q}²·g_{S,S}·v_D·v_U = g_{T,T}·g_{D,Q}·g_{U,Q}·v_S²   at P,  and  U + Q = 2S  as points -/
theorem lineAdd_step {T Q : Pt12} {P : SFp12 × SFp12} {x1 y1 x2 y2 : A} (hT : Aff T x1 y1) (hQ : Aff Q x2 y2)
    (c1 : OnE x1 y1) (c2 : OnE x2 y2) (cP : OnE (ev P.1) (ev P.2))
    (g1 : TangentOK T) (g2 : ChordOK T Q) (g3 : ChordOK (lineAdd T T P).2 Q) (g4 : ChordOK (lineAdd T Q P).2 T)
    (g5 : TangentOK (lineAdd T Q P).2) (g6 : ChordOK (lineAdd (lineAdd T T P).2 Q P).2 Q) :
    ∃ xD yD xS yS xU yU, Aff (lineAdd T T P).2 xD yD ∧ Aff (lineAdd T Q P).2 xS yS
      ∧ Aff (lineAdd (lineAdd T T P).2 Q P).2 xU yU ∧ OnE xD yD ∧ OnE xS yS ∧ OnE xU yU
      ∧ (OnTw x1 y1 → OnTw x2 y2 → OnTw xD yD ∧ OnTw xS yS ∧ OnTw xU yU)
      ∧ ev (lineAdd T Q P).1 ^ 2 * ev (lineAdd (lineAdd T Q P).2 (lineAdd T Q P).2 P).1 * (ev P.1 - xD) * (ev P.1 - xU)
          = ev (lineAdd T T P).1 * ev (lineAdd (lineAdd T T P).2 Q P).1
              * ev (lineAdd (lineAdd (lineAdd T T P).2 Q P).2 Q P).1 * (ev P.1 - xS) ^ 2
      ∧ (lineAdd (lineAdd (lineAdd T T P).2 Q P).2 Q P).2 = (lineAdd (lineAdd T Q P).2 (lineAdd T Q P).2 P).2 := by
  have ny1 := hT.ne_of_tangentOK g1
  have nTQ := hT.ne_of_chordOK hQ g2
  obtain ⟨gTT, D, eTT, -, vTT, aD⟩ := hT.tangent (add_self_ne_zero ny1) P
  obtain ⟨gTQ, S, eTQ, -, vTQ, aS⟩ := hT.chord hQ nTQ P
  rw [eTT] at g3 g6 ⊢
  rw [eTQ] at g4 g5 ⊢
  simp only at g3 g4 g5 g6 ⊢
  have nDQ := aD.ne_of_chordOK hQ g3
  obtain ⟨gDQ, U, eDQ, -, vDQ, aU⟩ := aD.chord hQ nDQ P
  rw [eDQ] at g6 ⊢
  simp only at g6 ⊢
  have nST := aS.ne_of_chordOK hT g4
  have nyS := aS.ne_of_tangentOK g5
  have nUQ := aU.ne_of_chordOK hQ g6
  obtain ⟨gSS, S2, eSS, -, vSS, aS2⟩ := aS.tangent (add_self_ne_zero nyS) P
  obtain ⟨gUQ, V, eUQ, -, vUQ, aV⟩ := aU.chord hQ nUQ P
  rw [eSS, eUQ]
  simp only
  have cD := tangent_on_curve two_ne_zero_A c1 ny1 rfl rfl rfl
  have cS := chord_on_curve c1 c2 nTQ rfl rfl rfl
  have cU := chord_on_curve cD c2 nDQ rfl rfl rfl
  obtain ⟨I2, ex, ey⟩ := step_value (mS := 3 * (_ * _) / (_ + _)) (lUQ := (y2 - _) / (x2 - _)) two_ne_zero_A c1 c2 cP
    rfl rfl rfl rfl rfl rfl rfl rfl rfl rfl rfl ny1 nTQ nDQ nST nyS nUQ
  refine ⟨_, _, _, _, _, _, aD, aS, aU, cD, cS, cU, fun t1 t2 => ⟨t1.tangent, t1.chord t2, t1.tangent.chord t2⟩, ?_, ?_⟩
  · rw [vTQ, vSS, vTT, vDQ, vUQ]; exact I2
  · apply Aff.unique aV
    rw [ey, ex]; exact aS2

/-- the digit −1: with W = U + Q (generic chord), W + (−Q) = U and g_{U,Q}·g_{W,−Q} = v_Q·v_W·v_U at P -/
theorem lineAdd_minus {U Q : Pt12} {P : SFp12 × SFp12} {xU yU x2 y2 : A} (hU : Aff U xU yU) (hQ : Aff Q x2 y2)
    (cU : OnE xU yU) (c2 : OnE x2 y2) (cP : OnE (ev P.1) (ev P.2))
    (g1 : ChordOK U Q) (g2 : ChordOK (lineAdd U Q P).2 (neg12 Q)) :
    ∃ xW yW, Aff (lineAdd U Q P).2 xW yW ∧ OnE xW yW ∧ (OnTw xU yU → OnTw x2 y2 → OnTw xW yW)
      ∧ ev (lineAdd U Q P).1 * ev (lineAdd (lineAdd U Q P).2 (neg12 Q) P).1 = (ev P.1 - x2) * (ev P.1 - xW) * (ev P.1 - xU)
      ∧ (lineAdd (lineAdd U Q P).2 (neg12 Q) P).2 = U := by
  have nUQ := hU.ne_of_chordOK hQ g1
  obtain ⟨gUQ, W, eUQ, -, vUQ, aW⟩ := hU.chord hQ nUQ P
  rw [eUQ] at g2 ⊢
  simp only at g2 ⊢
  have nWQ := aW.ne_of_chordOK hQ.neg g2
  obtain ⟨gWQ, R, eWQ, -, vWQ, aR⟩ := aW.chord hQ.neg nWQ P
  rw [eWQ]
  simp only
  have cW := chord_on_curve cU c2 nUQ rfl rfl rfl
  obtain ⟨J, ex, ey⟩ := minus_step (a' := (-y2 - _) / (x2 - _)) cU c2 cP rfl rfl rfl rfl nUQ nWQ
  refine ⟨_, _, aW, cW, fun t1 t2 => t1.chord t2, ?_, ?_⟩
  · rw [vUQ, vWQ]; exact J
  · apply Aff.unique aR
    rw [ey, ex]; exact hU

end GmVerif.Proofs.SM9MillerAssocSpec
