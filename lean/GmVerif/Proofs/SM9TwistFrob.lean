/-
C12e, stages 2–4 (group side): the TWISTED FROBENIUS on E'(Fp2),

  twFrob (x, y) = (c₁·x̄, c₂·ȳ),   c₁ = α⁻² = α¹⁰,  c₂ = α⁻³ = α⁹,  α = (−2)^((p−1)/12) ∈ Fp,

is additive for the chord-and-tangent formulas of `Spec.SM9.add2` (conjugation is a field automorphism of Fp2 and
c₂² = c₁³: the slope is multiplied by κ = c₂/c₁, κ² = c₁, κ·c₁ = c₂) — on ALL pairs with canonical coordinates, no curve
equation is needed — hence commutes with `mul2 k`; the kernel checks `mul2 p P2 = twFrob P2`; with the cyclicity of G2
(`Proofs.SM9G2Cyclic.g2_cyclic`) this gives, for every Q ∈ G2 = E'(Fp2)[N],   twFrob Q = [p]Q.
(The identity `untwist ∘ twFrob = frobPt ∘ untwist` is in `Proofs/SM9TwistFrobUntwist.lean`.)
-/
import Mathlib.Tactic.FieldSimp
import GmVerif.Proofs.SM9G2Cyclic
set_option autoImplicit false
namespace GmVerif.Proofs.SM9TwistFrob
open GmVerif GmVerif.Spec.SM9 GmVerif.Proofs.SpecEC
open GmVerif.Proofs.SM9G2 (ofK toK ofK_toK ofK_injective add_ofK neg_ofK sub_ofK mul_ofK scale_ofK inv_ofK zero_ofK
  ofK_eq_zero_iff natCast_ne_zero)

/-- Mathlib's Fp2 -/
abbrev L : Type := Proofs.SM9G2.K

/-! ### the definition (executable, in the style of `Spec.SM9`) -/

/-- conjugation x + y·u ↦ x − y·u of Fp2 (the p-power map) -/
def conj2 (a : Fp2) : Fp2 := (a.1 % p, (p - a.2 % p) % p)

/-- α⁻² = α¹⁰ -/
def c1 : Nat := 0xb640000002a3a6f0e303ab4ff2eb2052a9f02115caef75e70f738991676af24a
/-- α⁻³ = α⁹ -/
def c2 : Nat := 0x49db721a269967c4e0a8debc0783182f82555233139e9d63efbd7b54092c756c

/-- the twisted Frobenius ψ⁻¹ ∘ π ∘ ψ on E'(Fp2) -/
def twFrob : Pt2 → Pt2
  | none => none
  | some (x, y) => some (Fp2.scale c1 (conj2 x), Fp2.scale c2 (conj2 y))

/-- kernel evaluation of a 256-step double-and-add on the twist: π acts on P2 as multiplication by p -/
theorem mul2_p_P2 : mul2 p P2 = twFrob P2 := by decide +kernel

/-! ### the constants in the field -/

theorem natCast_eq_of_mod {a b : ℕ} (h : a % p = b % p) : ((a : ℕ) : L) = ((b : ℕ) : L) := by
  have h' : ((a : ℕ) : ZMod p) = ((b : ℕ) : ZMod p) := (ZMod.natCast_eq_natCast_iff' a b p).2 h
  have := congrArg (algebraMap (ZMod p) L) h'
  rwa [map_natCast, map_natCast] at this

theorem c1_ne_zero : ((c1 : ℕ) : L) ≠ 0 := natCast_ne_zero c1 (by decide)
theorem c2_ne_zero : ((c2 : ℕ) : L) ≠ 0 := natCast_ne_zero c2 (by decide)

theorem c2_sq : ((c2 : ℕ) : L) ^ 2 = ((c1 : ℕ) : L) ^ 3 := by
  have := natCast_eq_of_mod (a := c2 ^ 2) (b := c1 ^ 3) (by decide)
  rwa [Nat.cast_pow, Nat.cast_pow] at this

/-- κ = c₂/c₁, the factor of the slopes -/
noncomputable def κ : L := ((c2 : ℕ) : L) * ((c1 : ℕ) : L)⁻¹

theorem κ_sq : κ * κ = ((c1 : ℕ) : L) := by
  have h1 := c1_ne_zero
  have h := c2_sq
  unfold κ
  field_simp
  linear_combination h

theorem κ_c1 : κ * ((c1 : ℕ) : L) = ((c2 : ℕ) : L) := by
  have h1 := c1_ne_zero
  unfold κ
  field_simp

theorem κ_alt : ((c1 : ℕ) : L) * ((c1 : ℕ) : L) * ((c2 : ℕ) : L)⁻¹ = κ := by
  have h1 := c1_ne_zero
  have h2 := c2_ne_zero
  have h := c2_sq
  unfold κ
  field_simp
  linear_combination -h

/-! ### the formulas of `add2` on field elements -/

/-- conjugation of the field -/
noncomputable def σ : L →+* L := starRingEnd L

theorem σ_apply (z : L) : σ z = star z := rfl

theorem σ_injective : Function.Injective σ := star_injective

theorem conj2_ofK (z : L) : conj2 (ofK z) = ofK (σ z) := by
  refine Prod.ext (mod_eq_val_of_cast ?_) (mod_eq_val_of_cast ?_)
  · simp [ofK, σ_apply]
  · simp [ofK, σ_apply, cast_sub_mod]

/-- affine points with coordinates in the field -/
abbrev PtL := Option (L × L)

/-- the pairs of canonical representatives -/
def ofL : PtL → Pt2
  | none => none
  | some (x, y) => some (ofK x, ofK y)

noncomputable def lamD (x1 y1 : L) : L := ((3 : ℕ) : L) * (x1 * x1) * (((2 : ℕ) : L) * y1)⁻¹
noncomputable def lamA (x1 y1 x2 y2 : L) : L := (y2 - y1) * (x2 - x1)⁻¹
/-- the sum with slope `lam` -/
noncomputable def sumL (lam x1 y1 x2 : L) : L × L :=
  (lam * lam - x1 - x2, lam * (x1 - (lam * lam - x1 - x2)) - y1)

/-- `Spec.SM9.add2`, on field elements -/
noncomputable def addL : PtL → PtL → PtL
  | none, q => q
  | some a, none => some a
  | some (x1, y1), some (x2, y2) =>
    if x1 = x2 then
      if y1 = -y2 then none else some (sumL (lamD x1 y1) x1 y1 x1)
    else some (sumL (lamA x1 y1 x2 y2) x1 y1 x2)

theorem add2_ofL (A B : PtL) : add2 (ofL A) (ofL B) = ofL (addL A B) := by
  rcases A with _ | ⟨x1, y1⟩
  · rcases B with _ | ⟨x2, y2⟩ <;> rfl
  rcases B with _ | ⟨x2, y2⟩
  · rfl
  simp only [ofL, addL, add2]
  by_cases hx : x1 = x2
  · subst hx
    rw [if_pos rfl, if_pos rfl]
    by_cases hy : y1 = -y2
    · rw [if_pos ((ofK_eq_zero_iff y1 y2).mpr hy), if_pos hy]
    · rw [if_neg (fun h => hy ((ofK_eq_zero_iff y1 y2).mp h)), if_neg hy]
      simp only [scale_ofK, mul_ofK, inv_ofK, sub_ofK, sumL, lamD]
      refine congrArg some (Prod.ext (congrArg ofK ?_) (congrArg ofK ?_))
      · push_cast; ring
      · push_cast; ring
  · have hxv : ofK x1 ≠ ofK x2 := fun h => hx (ofK_injective h)
    rw [if_neg hxv, if_neg hx]
    simp only [mul_ofK, inv_ofK, sub_ofK, sumL, lamA]

/-- the twisted Frobenius on field elements -/
noncomputable def twL : PtL → PtL
  | none => none
  | some (x, y) => some (((c1 : ℕ) : L) * σ x, ((c2 : ℕ) : L) * σ y)

theorem twFrob_ofL (A : PtL) : twFrob (ofL A) = ofL (twL A) := by
  rcases A with _ | ⟨x, y⟩
  · rfl
  · simp only [ofL, twL, twFrob, conj2_ofK, scale_ofK]

/-- transport of a sum with slope `lam` when the slope is multiplied by κ -/
theorem sumL_tw (lam x1 y1 x2 : L) :
    sumL (κ * σ lam) (((c1 : ℕ) : L) * σ x1) (((c2 : ℕ) : L) * σ y1) (((c1 : ℕ) : L) * σ x2)
      = (((c1 : ℕ) : L) * σ (sumL lam x1 y1 x2).1, ((c2 : ℕ) : L) * σ (sumL lam x1 y1 x2).2) := by
  have hk := κ_sq
  have hc := κ_c1
  simp only [sumL, map_sub, map_mul]
  refine Prod.ext ?_ ?_
  · show κ * σ lam * (κ * σ lam) - (c1 : L) * σ x1 - (c1 : L) * σ x2 = (c1 : L) * (σ lam * σ lam - σ x1 - σ x2)
    linear_combination (σ lam * σ lam) * hk
  · show κ * σ lam * ((c1 : L) * σ x1 - (κ * σ lam * (κ * σ lam) - (c1 : L) * σ x1 - (c1 : L) * σ x2)) - (c2 : L) * σ y1
      = (c2 : L) * (σ lam * (σ x1 - (σ lam * σ lam - σ x1 - σ x2)) - σ y1)
    linear_combination (σ lam * (σ x1 - (σ lam * σ lam - σ x1 - σ x2))) * hc
      - (κ * σ lam * (σ lam * σ lam)) * hk

theorem lamA_tw (x1 y1 x2 y2 : L) :
    lamA (((c1 : ℕ) : L) * σ x1) (((c2 : ℕ) : L) * σ y1) (((c1 : ℕ) : L) * σ x2) (((c2 : ℕ) : L) * σ y2)
      = κ * σ (lamA x1 y1 x2 y2) := by
  simp only [lamA, map_mul, map_sub, map_inv₀, κ]
  rw [← mul_sub, ← mul_sub, mul_inv]
  ring

theorem lamD_tw (x1 y1 : L) :
    lamD (((c1 : ℕ) : L) * σ x1) (((c2 : ℕ) : L) * σ y1) = κ * σ (lamD x1 y1) := by
  rw [← κ_alt]
  simp only [lamD, map_mul, map_inv₀, map_natCast]
  rw [← mul_assoc ((2 : ℕ) : L), mul_comm ((2 : ℕ) : L) ((c2 : ℕ) : L), mul_assoc ((c2 : ℕ) : L), mul_inv]
  ring

/-- STAGE 3: the twisted Frobenius is additive for the formulas of `add2` -/
theorem twL_addL (A B : PtL) : twL (addL A B) = addL (twL A) (twL B) := by
  rcases A with _ | ⟨x1, y1⟩
  · rcases B with _ | ⟨x2, y2⟩ <;> rfl
  rcases B with _ | ⟨x2, y2⟩
  · rfl
  simp only [twL, addL]
  have hxiff : ((c1 : ℕ) : L) * σ x1 = ((c1 : ℕ) : L) * σ x2 ↔ x1 = x2 :=
    ⟨fun h => σ_injective (mul_left_cancel₀ c1_ne_zero h), fun h => by rw [h]⟩
  have hyiff : ((c2 : ℕ) : L) * σ y1 = -(((c2 : ℕ) : L) * σ y2) ↔ y1 = -y2 := by
    rw [← mul_neg, ← map_neg]
    exact ⟨fun h => σ_injective (mul_left_cancel₀ c2_ne_zero h), fun h => by rw [h]⟩
  by_cases hx : x1 = x2
  · rw [if_pos hx, if_pos (hxiff.2 hx)]
    by_cases hy : y1 = -y2
    · rw [if_pos hy, if_pos (hyiff.2 hy)]
    · rw [if_neg hy, if_neg (fun h => hy (hyiff.1 h))]
      dsimp only
      rw [lamD_tw, sumL_tw]
  · rw [if_neg hx, if_neg (fun h => hx (hxiff.1 h))]
    dsimp only
    rw [lamA_tw, sumL_tw]

/-! ### on the Spec functions -/

/-- all four coordinates reduced -/
def Canon2 : Pt2 → Prop
  | none => True
  | some (x, y) => x.1 < p ∧ x.2 < p ∧ y.1 < p ∧ y.2 < p

theorem exists_ofL {Q : Pt2} (h : Canon2 Q) : ∃ A, Q = ofL A := by
  rcases Q with _ | ⟨x, y⟩
  · exact ⟨none, rfl⟩
  · obtain ⟨h1, h2, h3, h4⟩ := h
    exact ⟨some (toK x, toK y), by simp only [ofL, ofK_toK x h1 h2, ofK_toK y h3 h4]⟩

theorem canon2_of_onTwist {Q : Pt2} (h : onTwist Q = true) : Canon2 Q := by
  rcases Q with _ | ⟨x, y⟩
  · trivial
  · simp only [onTwist, Bool.and_eq_true, decide_eq_true_eq] at h
    exact ⟨h.1.1.1.1, h.1.1.1.2, h.1.1.2, h.1.2⟩

/-- STAGE 3 on `Spec.SM9.add2`: additivity for all pairs of points with reduced coordinates -/
theorem twFrob_add2 {A B : Pt2} (hA : Canon2 A) (hB : Canon2 B) :
    twFrob (add2 A B) = add2 (twFrob A) (twFrob B) := by
  obtain ⟨A', rfl⟩ := exists_ofL hA
  obtain ⟨B', rfl⟩ := exists_ofL hB
  rw [add2_ofL, twFrob_ofL, twFrob_ofL, twFrob_ofL, add2_ofL, twL_addL]

theorem mul2_twL (k : ℕ) (A : PtL) :
    ∃ B, mul2 k (ofL A) = ofL B ∧ mul2 k (ofL (twL A)) = ofL (twL B) := by
  induction k using Nat.strong_induction_on generalizing A with
  | _ k ih =>
    by_cases hk : k = 0
    · subst hk
      exact ⟨none, by rw [mul2]; simp [ofL], by rw [mul2]; simp [ofL, twL]⟩
    · obtain ⟨B', h1, h2⟩ := ih (k / 2) (by omega) (addL A A)
      rw [twL_addL] at h2
      by_cases hodd : k % 2 = 1
      · refine ⟨addL A B', ?_, ?_⟩
        · rw [mul2, dif_neg hk]; simp only [if_pos hodd]; rw [add2_ofL, h1, add2_ofL]
        · rw [mul2, dif_neg hk]; simp only [if_pos hodd]; rw [add2_ofL, h2, add2_ofL, twL_addL]
      · refine ⟨B', ?_, ?_⟩
        · rw [mul2, dif_neg hk]; simp only [if_neg hodd]; rw [add2_ofL, h1]
        · rw [mul2, dif_neg hk]; simp only [if_neg hodd]; rw [add2_ofL, h2]

/-- the twisted Frobenius commutes with scalar multiplication -/
theorem twFrob_mul2 (k : ℕ) {Q : Pt2} (hQ : Canon2 Q) : twFrob (mul2 k Q) = mul2 k (twFrob Q) := by
  obtain ⟨A, rfl⟩ := exists_ofL hQ
  obtain ⟨B, h1, h2⟩ := mul2_twL k A
  rw [h1, twFrob_ofL, twFrob_ofL, h2]

/-- STAGE 4 (first half): on G2 = E'(Fp2)[N] the twisted Frobenius is multiplication by p -/
theorem frob_eigen {Q : Pt2} (hQ : onTwist Q = true) (hN : mul2 N Q = none) : twFrob Q = mul2 p Q := by
  obtain ⟨k, _, rfl⟩ := SM9G2Cyclic.g2_cyclic hQ hN
  have hP := SM9Algebra.sm9_P2_onTwist
  rw [twFrob_mul2 k (canon2_of_onTwist hP), ← mul2_p_P2, SM9G2.mul2_mul _ _ hP, SM9G2.mul2_mul _ _ hP, Nat.mul_comm]

/-- the twisted Frobenius maps G2 to G2 -/
theorem twFrob_mem {Q : Pt2} (hQ : onTwist Q = true) (hN : mul2 N Q = none) :
    onTwist (twFrob Q) = true ∧ mul2 N (twFrob Q) = none := by
  rw [frob_eigen hQ hN]
  refine ⟨SM9G2.onTwist_mul2 p hQ, ?_⟩
  rw [SM9G2.mul2_mul _ _ hQ, Nat.mul_comm, ← SM9G2.mul2_mul _ _ hQ, hN, SM9G2.mul2_none]

end GmVerif.Proofs.SM9TwistFrob
