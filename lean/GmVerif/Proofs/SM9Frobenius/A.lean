/- kernel evaluations of (wⁿ)^p in the specification's dense Fp12 against the model's `fp12_frobenius`, n = 0..3
(split over three files so that they build in parallel; ≈ 10–15 s per evaluation) -/
import GmVerif.Proofs.SM9Frobenius.Defs
namespace GmVerif.Proofs.SM9Frobenius
theorem frob_0 : FrobOK 0 := by decide +kernel
theorem frob_1 : FrobOK 1 := by decide +kernel
theorem frob_2 : FrobOK 2 := by decide +kernel
theorem frob_3 : FrobOK 3 := by decide +kernel
end GmVerif.Proofs.SM9Frobenius
