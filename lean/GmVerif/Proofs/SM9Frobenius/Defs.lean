/-
The p-power Frobenius of the tower model against the specification's x ↦ x^p, on the Fp-basis 1, w, …, w¹¹ of Fp12
(kernel evaluation of `Spec.SM9.Fp12.pow · p` on the dense representation: 256 squarings per element, ≈ 10 s each),
and the relations between the four Frobenius maps of the model on that basis.
What is NOT proved here: Fp-linearity of `fp12_frobenius` / of x ↦ x^p, which would extend the statements from the
basis to all of Fp12.
-/
import GmVerif.Impl.SM9.Tower
import GmVerif.Spec.SM9
namespace GmVerif.Proofs.SM9Frobenius
open GmVerif

/-- the twelve Fp coefficients of a tower element in tower order: position 4i + 2j + l holds the coefficient of
wⁱ vʲ uˡ (`c_i`, then `.c_j`, then `.c_l`) -/
def coeffs (x : Impl.SM9.Fp12) : List Nat :=
  [x.c0.c0.c0, x.c0.c0.c1, x.c0.c1.c0, x.c0.c1.c1,
   x.c1.c0.c0, x.c1.c0.c1, x.c1.c1.c0, x.c1.c1.c1,
   x.c2.c0.c0, x.c2.c0.c1, x.c2.c1.c0, x.c2.c1.c1]

/-- inverse of `coeffs` (missing entries are 0) -/
def ofCoeffs (l : List Nat) : Impl.SM9.Fp12 :=
  let g (i : Nat) : Nat := l.getD i 0
  ⟨⟨⟨g 0, g 1⟩, ⟨g 2, g 3⟩⟩, ⟨⟨g 4, g 5⟩, ⟨g 6, g 7⟩⟩, ⟨⟨g 8, g 9⟩, ⟨g 10, g 11⟩⟩⟩

/-- the element of the specification's Fp12 = Fp[w]/(w¹² + 2) denoted by a tower element of the model: leave Montgomery
form coefficient-wise (`fp_from_mont`, the model's own conversion), then the specification's `ofTower` (v = w³, u = w⁶) -/
def decode (x : Impl.SM9.Fp12) : Spec.SM9.Fp12 := Spec.SM9.Fp12.ofTower ((coeffs x).map Impl.SM9.fp_from_mont)

/-- the exponent n of w at tower position `pos`: n = i + 3j + 6l for pos = 4i + 2j + l -/
def wExp (pos : Nat) : Nat := pos / 4 + 3 * (pos / 2 % 2) + 6 * (pos % 2)

/-- tower position of wⁿ -/
def towerPos (n : Nat) : Nat := 4 * (n % 3) + 2 * (n % 6 / 3) + n / 6

/-- the model's representation of wⁿ (n < 12): Montgomery one at tower position `towerPos n` -/
def implBasis (n : Nat) : Impl.SM9.Fp12 :=
  ofCoeffs ((List.range 12).map fun i => if i = towerPos n then Gen.SM9.MODP_MONT_ONE else 0)

theorem pos_bij : ∀ n < 12, towerPos n < 12 ∧ wExp (towerPos n) = n := by decide

/-- `implBasis n` denotes wⁿ -/
theorem decode_basis : ∀ n < 12, decode (implBasis n) = Spec.SM9.Fp12.pow Spec.SM9.Fp12.w n := by
  decide +kernel

/-- the statement checked for each n: the model's Frobenius of wⁿ denotes (wⁿ)^p -/
def FrobOK (n : Nat) : Prop :=
  decode (implBasis n).fp12_frobenius = Spec.SM9.Fp12.frobenius (Spec.SM9.Fp12.pow Spec.SM9.Fp12.w n)

instance (n : Nat) : Decidable (FrobOK n) := by unfold FrobOK; infer_instance

/-- the value: (wⁿ)^p = αⁿ·wⁿ with α = (−2)^((p−1)/12) mod p  (w^p = w·(w¹²)^((p−1)/12)) -/
theorem spec_frob_value : ∀ n < 12,
    decode (implBasis n).fp12_frobenius
      = (List.range 12).map fun i =>
          if i = n then Spec.EC.powMod (Spec.SM9.p - 2) (n * ((Spec.SM9.p - 1) / 12)) Spec.SM9.p else 0 := by
  decide +kernel

/-- the other Frobenius maps of the model are iterates of `fp12_frobenius` on the basis (Impl-side evaluation):
π² = π∘π, π³ = π∘π², π⁶ = π³∘π³ -/
theorem frob_iterates : ∀ n < 12,
    (implBasis n).fp12_frobenius2 = (implBasis n).fp12_frobenius.fp12_frobenius
      ∧ (implBasis n).fp12_frobenius3 = (implBasis n).fp12_frobenius2.fp12_frobenius
      ∧ (implBasis n).fp12_frobenius6 = (implBasis n).fp12_frobenius3.fp12_frobenius3
      ∧ (implBasis n).fp12_frobenius6.fp12_frobenius6 = implBasis n := by
  decide +kernel

/-- a dense sample (coefficients 2, 3, …, 13 in Montgomery form): the model's Frobenius denotes the p-th power -/
def sample : Impl.SM9.Fp12 := ofCoeffs ((List.range 12).map fun i => Impl.SM9.fp_to_mont (i + 2))

end GmVerif.Proofs.SM9Frobenius
