/- kernel evaluations of (wⁿ)^p in the specification's dense Fp12 against the model's `fp12_frobenius`, n = 8..11
(split over three files so that they build in parallel; ≈ 10–15 s per evaluation) -/
import GmVerif.Proofs.SM9Frobenius.Defs
namespace GmVerif.Proofs.SM9Frobenius
theorem frob_8 : FrobOK 8 := by decide +kernel
theorem frob_9 : FrobOK 9 := by decide +kernel
theorem frob_10 : FrobOK 10 := by decide +kernel
theorem frob_11 : FrobOK 11 := by decide +kernel
end GmVerif.Proofs.SM9Frobenius
