/- kernel evaluations of (wⁿ)^p in the specification's dense Fp12 against the model's `fp12_frobenius`, n = 4..7
(split over three files so that they build in parallel; ≈ 10–15 s per evaluation) -/
import GmVerif.Proofs.SM9Frobenius.Defs
namespace GmVerif.Proofs.SM9Frobenius
theorem frob_4 : FrobOK 4 := by decide +kernel
theorem frob_5 : FrobOK 5 := by decide +kernel
theorem frob_6 : FrobOK 6 := by decide +kernel
theorem frob_7 : FrobOK 7 := by decide +kernel
end GmVerif.Proofs.SM9Frobenius
