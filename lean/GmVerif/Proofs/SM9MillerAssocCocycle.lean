/-
C12f, Stage 3: equality up to a killed factor (`Approx`, ≈), its closure properties, and the two cocycle relations that one
step of the comparison "binary chain vs signed-digit chain" needs, for the values of `Spec.SM9.lineAdd`:

  * `carry_double` :  g_{T,Q}² · g_{T+Q,T+Q}  ≈  g_{T,T} · g_{2T,Q} · g_{2T+Q,Q}       and  (2T+Q) + Q = 2(T+Q)
        (if f' ≈ f·g_{T,Q}, i.e. f' is the Miller value of m+1 when f is that of m, then f'²·g_{T+Q,T+Q} ≈ (f²·g_{T,T}·g_{2T,Q})·g_{2T+Q,Q}:
         the value of 2m+2 computed by doubling m+1 is the value computed by doubling m and adding Q twice)
  * `carry_minus`  :  g_{U,Q} · g_{U+Q,−Q} ≈ 1                                        and  (U+Q) + (−Q) = U
        (adding Q and then −Q changes the Miller value by a killed factor)
for Q (and T, U) of twist type, P of base type, in the generic cases of `lineAdd`, the vertical values being non-zero.
-/
import GmVerif.Proofs.SM9MillerAssocSpec
set_option autoImplicit false
namespace GmVerif.Proofs.SM9MillerAssocSpec
open GmVerif GmVerif.Proofs.SM9Tower GmVerif.Proofs.SM9TowerDense GmVerif.Proofs.SM9PairingReduce
open GmVerif.Proofs.SM9SpecField GmVerif.Proofs.SM9SpecLines GmVerif.Proofs.SM9MillerAssoc
open GmVerif.Spec.SM9 (p finalExp lineAdd Pt12 neg12 frobPt)
open GmVerif.Proofs.SM9Fp12 (ev f Canon)
open GmVerif.Proofs.SM9MillerSD (TangentOK ChordOK)

/-! ### equality up to a killed factor -/

theorem killed_inv {c : A} (h : Killed c) : Killed c⁻¹ :=
  ⟨inv_ne_zero h.1, by rw [inv_pow, h.2, inv_one]⟩

/-- x = c·y with c ≠ 0 and c^((p¹²−1)/N) = 1 -/
def Approx (x y : A) : Prop := ∃ c, Killed c ∧ x = c * y

theorem Approx.refl (x : A) : Approx x x := ⟨1, killed_one, (one_mul x).symm⟩
theorem Approx.of_eq {x y : A} (h : x = y) : Approx x y := h ▸ Approx.refl x
theorem Approx.symm {x y : A} (h : Approx x y) : Approx y x := by
  obtain ⟨c, hc, rfl⟩ := h
  exact ⟨c⁻¹, killed_inv hc, by rw [← mul_assoc, inv_mul_cancel₀ hc.1, one_mul]⟩
theorem Approx.trans {x y z : A} (h1 : Approx x y) (h2 : Approx y z) : Approx x z := by
  obtain ⟨c, hc, rfl⟩ := h1
  obtain ⟨d, hd, rfl⟩ := h2
  exact ⟨c * d, hc.mul hd, by ring⟩
theorem Approx.mul {x y x' y' : A} (h1 : Approx x y) (h2 : Approx x' y') : Approx (x * x') (y * y') := by
  obtain ⟨c, hc, rfl⟩ := h1
  obtain ⟨d, hd, rfl⟩ := h2
  exact ⟨c * d, hc.mul hd, by ring⟩
theorem Approx.pow {x y : A} (h : Approx x y) (n : Nat) : Approx (x ^ n) (y ^ n) := by
  obtain ⟨c, hc, rfl⟩ := h
  exact ⟨c ^ n, hc.pow n, by ring⟩
theorem Approx.of_killed {c : A} (h : Killed c) : Approx c 1 := ⟨c, h, (mul_one c).symm⟩
/-- the final powers agree -/
theorem Approx.pow_finalExp {x y : A} (h : Approx x y) : x ^ finalExp = y ^ finalExp := by
  obtain ⟨c, hc, rfl⟩ := h
  rw [mul_pow, hc.2, one_mul]

/-- from a·u = b·w with u, w killed -/
theorem Approx.of_mul_eq {a b u w : A} (hu : Killed u) (hw : Killed w) (h : a * u = b * w) : Approx a b := by
  refine ⟨w * u⁻¹, hw.mul (killed_inv hu), ?_⟩
  have : a = a * u * u⁻¹ := by rw [mul_assoc, mul_inv_cancel₀ hu.1, mul_one]
  rw [this, h]; ring

/-- base type: both coordinates fixed by σ (a point of E(Fp)) -/
def OnBase (x y : A) : Prop := σ x = x ∧ σ y = y

/-- KILLED VERTICAL: P of base type, U of twist type, different x-coordinates -/
theorem killed_vertical' {xP yP xU yU : A} (hP : OnBase xP yP) (hU : OnTw xU yU) (hne : xP ≠ xU) : Killed (xP - xU) :=
  killed_vertical hP.1 hU.1 hne

/-! ### the cocycle relations for the values of `lineAdd` -/

/-- DOUBLING WITH A PENDING CARRY -/
theorem carry_double {T Q : Pt12} {P : SFp12 × SFp12} {x1 y1 x2 y2 : A} (hT : Aff T x1 y1) (hQ : Aff Q x2 y2)
    (c1 : OnE x1 y1) (c2 : OnE x2 y2) (cP : OnE (ev P.1) (ev P.2)) (t1 : OnTw x1 y1) (t2 : OnTw x2 y2)
    (bP : OnBase (ev P.1) (ev P.2))
    (g1 : TangentOK T) (g2 : ChordOK T Q) (g3 : ChordOK (lineAdd T T P).2 Q) (g4 : ChordOK (lineAdd T Q P).2 T)
    (g5 : TangentOK (lineAdd T Q P).2) (g6 : ChordOK (lineAdd (lineAdd T T P).2 Q P).2 Q)
    (v1 : ∀ x y, Aff (lineAdd T T P).2 x y → ev P.1 ≠ x) (v2 : ∀ x y, Aff (lineAdd T Q P).2 x y → ev P.1 ≠ x)
    (v3 : ∀ x y, Aff (lineAdd (lineAdd T T P).2 Q P).2 x y → ev P.1 ≠ x) :
    Approx (ev (lineAdd T Q P).1 ^ 2 * ev (lineAdd (lineAdd T Q P).2 (lineAdd T Q P).2 P).1)
        (ev (lineAdd T T P).1 * ev (lineAdd (lineAdd T T P).2 Q P).1
          * ev (lineAdd (lineAdd (lineAdd T T P).2 Q P).2 Q P).1)
      ∧ (lineAdd (lineAdd (lineAdd T T P).2 Q P).2 Q P).2 = (lineAdd (lineAdd T Q P).2 (lineAdd T Q P).2 P).2 := by
  obtain ⟨xD, yD, xS, yS, xU, yU, aD, aS, aU, -, -, -, tw, I2, ePt⟩ :=
    lineAdd_step hT hQ c1 c2 cP g1 g2 g3 g4 g5 g6
  obtain ⟨tD, tS, tU⟩ := tw t1 t2
  have kD := killed_vertical' bP tD (v1 _ _ aD)
  have kS := killed_vertical' bP tS (v2 _ _ aS)
  have kU := killed_vertical' bP tU (v3 _ _ aU)
  refine ⟨Approx.of_mul_eq (kD.mul kU) (kS.pow 2) ?_, ePt⟩
  linear_combination I2

/-- ADDING Q AND THEN −Q -/
theorem carry_minus {U Q : Pt12} {P : SFp12 × SFp12} {xU yU x2 y2 : A} (hU : Aff U xU yU) (hQ : Aff Q x2 y2)
    (cU : OnE xU yU) (c2 : OnE x2 y2) (cP : OnE (ev P.1) (ev P.2)) (tU : OnTw xU yU) (t2 : OnTw x2 y2)
    (bP : OnBase (ev P.1) (ev P.2))
    (g1 : ChordOK U Q) (g2 : ChordOK (lineAdd U Q P).2 (neg12 Q))
    (v1 : ev P.1 ≠ xU) (v2 : ev P.1 ≠ x2) (v3 : ∀ x y, Aff (lineAdd U Q P).2 x y → ev P.1 ≠ x) :
    Approx (ev (lineAdd U Q P).1 * ev (lineAdd (lineAdd U Q P).2 (neg12 Q) P).1) 1
      ∧ (lineAdd (lineAdd U Q P).2 (neg12 Q) P).2 = U := by
  obtain ⟨xW, yW, aW, -, tw, J, ePt⟩ := lineAdd_minus hU hQ cU c2 cP g1 g2
  have kU := killed_vertical' bP tU v1
  have kQ := killed_vertical' bP t2 v2
  have kW := killed_vertical' bP (tw tU t2) (v3 _ _ aW)
  refine ⟨?_, ePt⟩
  rw [J]
  exact Approx.of_killed ((kQ.mul kW).mul kU)

end GmVerif.Proofs.SM9MillerAssocSpec
