/-
C12c, Stage C: assembly.  The loop invariant (model accumulator = killed factor · specification accumulator, model point =
Jacobian representation of the specification point) is carried through the 65 digits of `abits` and the two Frobenius line
steps; the Frobenius endpoints `point_pi1 Q`, `point_neg_pi2 Q` of the model are Jacobian representations (on the twist) of
π(Q') and −π²(Q'); result: `model_miller_sd`.
-/
import GmVerif.Proofs.SM9MillerSD
import GmVerif.Proofs.SM9G2ImplFrob
set_option autoImplicit false
namespace GmVerif.Proofs.SM9MillerAssemble
open GmVerif GmVerif.Proofs.SM9Tower GmVerif.Proofs.SM9TowerDense GmVerif.Proofs.SM9PairingReduce GmVerif.Proofs.SM9Bridge
open GmVerif.Proofs.SM9SpecField GmVerif.Proofs.SM9SpecLines GmVerif.Proofs.SM9MillerLines GmVerif.Proofs.SM9MillerCanon
open GmVerif.Proofs.SM9MillerSD
open GmVerif.Spec.SM9 (p finalExp lineAdd Pt12 neg12 frobPt)
open GmVerif.Proofs.SM9Fp12 (ev f Canon)
open _root_.GmVerif.Impl.SM9 (Fp2 Fp4 Fp12 Line TwistPoint Point Pre abits sm9_u256_eval_g_tangent sm9_u256_eval_g_line
  sm9_u256_eval_g_line_no_pre line_pre)

attribute [local irreducible] Impl.SM9.fp_mul Impl.SM9.fp_sqr Impl.SM9.fp_add Impl.SM9.fp_sub Impl.SM9.fp_double
  Impl.SM9.fp_triple Impl.SM9.fp_neg Impl.SM9.fp_div2 Impl.SM9.fp_inv

/-! ### projection forms of the step lemmas -/

theorem tangent_rep' {T : TwistPoint} {T' : Pt12} {pa : Point} {P' : SFp12 × SFp12} (hT : Rep T T') (hP : RepP pa P')
    (hok : TangentOK T') :
    Canon (lineAdd T' T' P').1 ∧ Rep (sm9_u256_eval_g_tangent T pa).1 (lineAdd T' T' P').2
      ∧ CanonLine (sm9_u256_eval_g_tangent T pa).2
      ∧ ∃ c, Killed c ∧ φ12 (lineElt (dec2 (sm9_u256_eval_g_tangent T pa).2.l0) (dec2 (sm9_u256_eval_g_tangent T pa).2.l1)
          (dec2 (sm9_u256_eval_g_tangent T pa).2.l2)) = c * ev (lineAdd T' T' P').1 := by
  obtain ⟨g, T2', hl, h⟩ := tangent_rep hT hP hok
  rw [hl]; exact h

theorem chord_rep' {pre : Pre} {T Q : TwistPoint} {T' Q' : Pt12} {pa : Point} {P' : SFp12 × SFp12}
    (hpre : PreFor pre (dec2 Q.x) (dec2 Q.y) (dec2 Q.z) (dec pa.x) (dec pa.y))
    (hT : Rep T T') (hQ : Rep Q Q') (hP : RepP pa P') (hok : ChordOK T' Q') :
    Canon (lineAdd T' Q' P').1 ∧ Rep (sm9_u256_eval_g_line pre T Q pa).1 (lineAdd T' Q' P').2
      ∧ CanonLine (sm9_u256_eval_g_line pre T Q pa).2
      ∧ ∃ c, Killed c ∧ φ12 (lineElt (dec2 (sm9_u256_eval_g_line pre T Q pa).2.l0)
          (dec2 (sm9_u256_eval_g_line pre T Q pa).2.l1) (dec2 (sm9_u256_eval_g_line pre T Q pa).2.l2))
            = c * ev (lineAdd T' Q' P').1 := by
  obtain ⟨g, T3', hl, h⟩ := chord_rep hpre hT hQ hP hok
  rw [hl]; exact h

/-! ### the accumulator -/

/-- the model accumulator `r` denotes (killed factor) · (specification accumulator `fs`) -/
def AccRel (r : Fp12) (fs : SFp12) : Prop :=
  Canon12 r ∧ Canon fs ∧ ∃ c, Killed c ∧ φ12 (dec12 r) = c * ev fs

theorem acc_one : AccRel Fp12.one Spec.SM9.Fp12.one :=
  ⟨ok12_one.out.1, SM9Fp12.canon_one, 1, killed_one, by rw [ok12_one.out.2, map_one, SM9Fp12.ev_one, one_mul]⟩

theorem acc_sqr_line {r : Fp12} {fs g : SFp12} {lw : Line} (h : AccRel r fs) (hl : CanonLine lw)
    (hv : ∃ c, Killed c ∧ φ12 (lineElt (dec2 lw.l0) (dec2 lw.l1) (dec2 lw.l2)) = c * ev g) :
    AccRel (r.fp_sqr.fp_line_mul lw) (Spec.SM9.Fp12.mul (Spec.SM9.Fp12.mul fs fs) g) := by
  obtain ⟨cr, _, c, kc, e⟩ := h
  obtain ⟨c1, k1, e1⟩ := hv
  have o := F.o12_line_mul (F.o12_sqr (ok12_dec cr)) (ok2_dec hl.1) (ok2_dec hl.2.1) (ok2_dec hl.2.2)
  refine ⟨o.out.1, SM9Fp12.canon_mul _ _, c * c * c1, (kc.mul kc).mul k1, ?_⟩
  rw [o.out.2, map_mul, map_mul, e, e1, SM9Fp12.ev_mul, SM9Fp12.ev_mul]; ring

theorem acc_line {r : Fp12} {fs g : SFp12} {lw : Line} (h : AccRel r fs) (hl : CanonLine lw)
    (hv : ∃ c, Killed c ∧ φ12 (lineElt (dec2 lw.l0) (dec2 lw.l1) (dec2 lw.l2)) = c * ev g) :
    AccRel (r.fp_line_mul lw) (Spec.SM9.Fp12.mul fs g) := by
  obtain ⟨cr, _, c, kc, e⟩ := h
  obtain ⟨c1, k1, e1⟩ := hv
  have o := F.o12_line_mul (ok12_dec cr) (ok2_dec hl.1) (ok2_dec hl.2.1) (ok2_dec hl.2.2)
  refine ⟨o.out.1, SM9Fp12.canon_mul _ _, c * c1, kc.mul k1, ?_⟩
  rw [o.out.2, map_mul, e, e1, SM9Fp12.ev_mul]; ring

/-! ### negation -/

theorem neg_rep {q : TwistPoint} {Q' : Pt12} (h : Rep q Q') : Rep q.point_neg (neg12 Q') := by
  obtain ⟨hc, hz, x, y, rfl, cx, cy, ex, ey⟩ := h
  have oy := (F.o2_neg (ok2_dec hc.2.1)).out
  refine ⟨neg_canon hc, hz, x, Spec.SM9.Fp12.neg y, rfl, cx, canon_neg _, ex, ?_⟩
  show ev (Spec.SM9.Fp12.neg y) * (φ2 (dec2 q.z) ^ 3 * ω ^ 3) = φ2 (dec2 q.y.fp_neg)
  rw [oy.2, ev_neg, map_neg, ← ey]; ring

theorem neg_pre {pre : Pre} {q : TwistPoint} {xP yP : K} (hc : CanonPt q)
    (h : PreFor pre (dec2 q.x) (dec2 q.y) (dec2 q.z) xP yP) :
    PreFor pre (dec2 q.point_neg.x) (dec2 q.point_neg.y) (dec2 q.point_neg.z) xP yP := by
  have oy := (F.o2_neg (ok2_dec hc.2.1)).out
  show OkPre pre (dec2 q.y.fp_neg ^ 2) _ _ _ _
  rw [oy.2]
  exact ⟨h.p0.cast (by ring), h.p1, h.p2, h.p3, h.p4⟩

/-! ### one step of the loop -/

theorem loopStep_eq (pre : Pre) (q q1 : TwistPoint) (pa : Point) (r : Fp12) (t : TwistPoint) (ch : Char) :
    loopStep pre q q1 pa (r, t) ch =
      if ch = '1' then
        ((r.fp_sqr.fp_line_mul (sm9_u256_eval_g_tangent t pa).2).fp_line_mul
            (sm9_u256_eval_g_line pre (sm9_u256_eval_g_tangent t pa).1 q pa).2,
          (sm9_u256_eval_g_line pre (sm9_u256_eval_g_tangent t pa).1 q pa).1)
      else if ch = '2' then
        ((r.fp_sqr.fp_line_mul (sm9_u256_eval_g_tangent t pa).2).fp_line_mul
            (sm9_u256_eval_g_line pre (sm9_u256_eval_g_tangent t pa).1 q1 pa).2,
          (sm9_u256_eval_g_line pre (sm9_u256_eval_g_tangent t pa).1 q1 pa).1)
      else (r.fp_sqr.fp_line_mul (sm9_u256_eval_g_tangent t pa).2, (sm9_u256_eval_g_tangent t pa).1) := rfl

theorem sdStep_eq (Q : Pt12) (P : SFp12 × SFp12) (fs : SFp12) (T : Pt12) (ch : Char) :
    sdStep Q P (fs, T) ch =
      if ch = '1' then
        (Spec.SM9.Fp12.mul (Spec.SM9.Fp12.mul (Spec.SM9.Fp12.mul fs fs) (lineAdd T T P).1)
            (lineAdd (lineAdd T T P).2 Q P).1, (lineAdd (lineAdd T T P).2 Q P).2)
      else if ch = '2' then
        (Spec.SM9.Fp12.mul (Spec.SM9.Fp12.mul (Spec.SM9.Fp12.mul fs fs) (lineAdd T T P).1)
            (lineAdd (lineAdd T T P).2 (neg12 Q) P).1, (lineAdd (lineAdd T T P).2 (neg12 Q) P).2)
      else (Spec.SM9.Fp12.mul (Spec.SM9.Fp12.mul fs fs) (lineAdd T T P).1, (lineAdd T T P).2) := rfl

/-- the loop invariant -/
structure Inv (m : Fp12 × TwistPoint) (s : SFp12 × Pt12) : Prop where
  acc : AccRel m.1 s.1
  rep : Rep m.2 s.2

theorem step_inv {pre : Pre} {q : TwistPoint} {Q' : Pt12} {pa : Point} {P' : SFp12 × SFp12}
    (hpre : PreFor pre (dec2 q.x) (dec2 q.y) (dec2 q.z) (dec pa.x) (dec pa.y)) (hq : Rep q Q') (hP : RepP pa P')
    (m : Fp12 × TwistPoint) (s : SFp12 × Pt12) (ch : Char) (hI : Inv m s) (hok : StepOK Q' P' s.2 ch) :
    Inv (loopStep pre q q.point_neg pa m ch) (sdStep Q' P' s ch) := by
  obtain ⟨r, t⟩ := m
  obtain ⟨fs, T'⟩ := s
  obtain ⟨hacc, hrep⟩ := hI
  obtain ⟨hto, h1, h2⟩ := hok
  obtain ⟨_, rep2, cl, hv⟩ := tangent_rep' (pa := pa) (P' := P') hrep hP hto
  have acc2 := acc_sqr_line hacc cl hv
  rw [loopStep_eq, sdStep_eq]
  by_cases c1 : ch = '1'
  · rw [if_pos c1, if_pos c1]
    obtain ⟨_, rep3, cl3, hv3⟩ := chord_rep' hpre rep2 hq hP (h1 c1)
    exact ⟨acc_line acc2 cl3 hv3, rep3⟩
  · rw [if_neg c1, if_neg c1]
    by_cases c2 : ch = '2'
    · rw [if_pos c2, if_pos c2]
      obtain ⟨_, rep3, cl3, hv3⟩ := chord_rep' (neg_pre hq.1 hpre) rep2 (neg_rep hq) hP (h2 c2)
      exact ⟨acc_line acc2 cl3 hv3, rep3⟩
    · rw [if_neg c2, if_neg c2]
      exact ⟨acc2, rep2⟩

theorem fold_inv {pre : Pre} {q : TwistPoint} {Q' : Pt12} {pa : Point} {P' : SFp12 × SFp12}
    (hpre : PreFor pre (dec2 q.x) (dec2 q.y) (dec2 q.z) (dec pa.x) (dec pa.y)) (hq : Rep q Q') (hP : RepP pa P')
    (cs : List Char) (m : Fp12 × TwistPoint) (s : SFp12 × Pt12) (hI : Inv m s) (hg : GenericFrom Q' P' cs s) :
    Inv (cs.foldl (loopStep pre q q.point_neg pa) m) (cs.foldl (sdStep Q' P') s) := by
  induction cs generalizing m s with
  | nil => exact hI
  | cons c cs ih =>
    rw [List.foldl_cons, List.foldl_cons]
    obtain ⟨h1, h2⟩ := hg
    exact ih _ _ (step_inv hpre hq hP m s c hI h1) h2

theorem loop_inv' {q : TwistPoint} {Q' : Pt12} {pa : Point} {P' : SFp12 × SFp12} (hq : Rep q Q') (hP : RepP pa P')
    (cs : List Char) (hg : GenericFrom Q' P' cs (Spec.SM9.Fp12.one, Q')) :
    Inv (cs.foldl (loopStep (pairingPre q pa) q q.point_neg pa) (Fp12.one, q))
      (cs.foldl (sdStep Q' P') (Spec.SM9.Fp12.one, Q')) := by
  have h1 := o_pairingPre (P := pa) (okPt_dec hq.1) (ok_dec hP.1) (ok_dec hP.2.1)
  have h0 : Inv (Fp12.one, q) (Spec.SM9.Fp12.one, Q') := by
    constructor
    · dsimp only; exact acc_one
    · dsimp only; exact hq
  exact fold_inv h1 hq hP cs (Fp12.one, q) (Spec.SM9.Fp12.one, Q') h0 hg

theorem loop_inv {q : TwistPoint} {Q' : Pt12} {pa : Point} {P' : SFp12 × SFp12} (hq : Rep q Q') (hP : RepP pa P')
    (hg : GenericFrom Q' P' abits.toList (Spec.SM9.Fp12.one, Q')) : Inv (loopResult q pa) (sdLoop P' Q') :=
  loop_inv' hq hP abits.toList hg

/-! ### the Frobenius endpoints -/

theorem φ2_pow_p (X : F2) : φ2 X ^ p = φ2 X.conj := by
  rw [φ2_eq_φ12, ← map_pow, f12_pow_p, φ2_eq_φ12]
  refine congrArg φ12 ?_
  ext <;> simp [frobA, SM9FrobAll.α_pow_6]

theorem ω_pow_p : ω ^ p = ι α * ω := by
  rw [← φ12_w', ← map_pow, w_pow_p, map_mul, φ12_κ12]

theorem α_ne_zero : α ≠ 0 := by
  intro h
  have := α_pow_12
  rw [h, zero_pow (by decide)] at this
  exact zero_ne_one this

theorem ια_ne_zero : ι α ≠ 0 := fun h => α_ne_zero ((map_eq_zero ι).1 h)

/-- how the relation "e·(Zⁿ wⁿ) = X" is transported by the p-power map: conjugate X and Z, multiply Z by α -/
theorem frob_rel (n : Nat) {e : A} {a c : F2} (h : e * (φ2 c ^ n * ω ^ n) = φ2 a) :
    e ^ p * (φ2 (c.conj * Quad.of α) ^ n * ω ^ n) = φ2 a.conj := by
  have h' : (e * (φ2 c ^ n * ω ^ n)) ^ p = φ2 a.conj := by rw [h, φ2_pow_p]
  rw [← h', map_mul, φ2_of]
  have e1 : (e * (φ2 c ^ n * ω ^ n)) ^ p = e ^ p * ((φ2 c ^ p) ^ n * (ω ^ p) ^ n) := by ring
  rw [e1, φ2_pow_p, ω_pow_p]; ring

theorem conj_conj (a : F2) : a.conj.conj = a := by ext <;> simp
theorem conj_step (c : F2) : (c.conj * Quad.of α).conj * Quad.of α = c * Quad.of (α ^ 2) := by
  ext <;> simp <;> ring

theorem ok_pi1_c : Ok TwistPoint.pi1_c α := SM9G2Impl.pi_consts.1 ▸ SM9FrobAll.ok_alpha1
theorem ok_neg_pi2_c : Ok TwistPoint.neg_pi2_c (α ^ 2) := SM9G2Impl.pi_consts.2.1 ▸ SM9FrobAll.ok_alpha2

/-- `point_pi1 Q` = (X̄, Ȳ, Z̄·α) is a Jacobian representation of π(Q') -/
theorem pi1_rep {q : TwistPoint} {Q' : Pt12} (h : Rep q Q') : Rep q.point_pi1 (frobPt Q') := by
  obtain ⟨hc, hz, x, y, rfl, cx, cy, ex, ey⟩ := h
  have ox := (F.o2_conj (ok2_dec hc.1)).out
  have oy := (F.o2_conj (ok2_dec hc.2.1)).out
  have oz := (F.o2_mul_fp (F.o2_conj (ok2_dec hc.2.2)) ok_pi1_c).out
  have ezc : φ2 ((dec2 q.z).conj * Quad.of α) = φ2 (dec2 q.z) ^ p * ι α := by
    rw [map_mul, φ2_of, φ2_pow_p]
  refine ⟨pi1_canon hc, ?_, Spec.SM9.Fp12.frobenius x, Spec.SM9.Fp12.frobenius y, rfl, SM9Fp12.canon_pow _ _,
    SM9Fp12.canon_pow _ _, ?_, ?_⟩
  · show dec2 (q.z.conjugate.fp_mul_fp TwistPoint.pi1_c) ≠ 0
    rw [oz.2]
    intro h0
    have := congrArg φ2 h0
    rw [ezc, map_zero] at this
    exact mul_ne_zero (pow_ne_zero _ (φ2_ne_zero hz)) ια_ne_zero this
  · show ev (Spec.SM9.Fp12.pow x p) * (φ2 (dec2 (q.z.conjugate.fp_mul_fp TwistPoint.pi1_c)) ^ 2 * ω ^ 2)
      = φ2 (dec2 q.x.conjugate)
    rw [oz.2, ox.2, SM9Fp12.ev_pow]
    exact frob_rel 2 ex
  · show ev (Spec.SM9.Fp12.pow y p) * (φ2 (dec2 (q.z.conjugate.fp_mul_fp TwistPoint.pi1_c)) ^ 3 * ω ^ 3)
      = φ2 (dec2 q.y.conjugate)
    rw [oz.2, oy.2, SM9Fp12.ev_pow]
    exact frob_rel 3 ey

/-- `point_neg_pi2 Q` = (X, −Y, Z·α²) is a Jacobian representation of −π²(Q') -/
theorem neg_pi2_rep {q : TwistPoint} {Q' : Pt12} (h : Rep q Q') : Rep q.point_neg_pi2 (neg12 (frobPt (frobPt Q'))) := by
  obtain ⟨hc, hz, x, y, rfl, cx, cy, ex, ey⟩ := h
  have oy := (F.o2_neg (ok2_dec hc.2.1)).out
  have oz := (F.o2_mul_fp (ok2_dec hc.2.2) ok_neg_pi2_c).out
  have ex2 := frob_rel 2 (frob_rel 2 ex)
  have ey2 := frob_rel 3 (frob_rel 3 ey)
  rw [conj_step, conj_conj] at ex2 ey2
  refine ⟨neg_pi2_canon hc, ?_, Spec.SM9.Fp12.frobenius (Spec.SM9.Fp12.frobenius x),
    Spec.SM9.Fp12.neg (Spec.SM9.Fp12.frobenius (Spec.SM9.Fp12.frobenius y)), rfl, SM9Fp12.canon_pow _ _,
    canon_neg _, ?_, ?_⟩
  · show dec2 (q.z.fp_mul_fp TwistPoint.neg_pi2_c) ≠ 0
    rw [oz.2]
    intro h0
    have := congrArg φ2 h0
    rw [map_mul, φ2_of, map_zero, map_pow] at this
    exact mul_ne_zero (φ2_ne_zero hz) (pow_ne_zero _ ια_ne_zero) this
  · show ev (Spec.SM9.Fp12.pow (Spec.SM9.Fp12.pow x p) p) * (φ2 (dec2 (q.z.fp_mul_fp TwistPoint.neg_pi2_c)) ^ 2 * ω ^ 2)
      = φ2 (dec2 q.x)
    rw [oz.2, SM9Fp12.ev_pow, SM9Fp12.ev_pow]
    exact ex2
  · show ev (Spec.SM9.Fp12.neg (Spec.SM9.Fp12.pow (Spec.SM9.Fp12.pow y p) p))
        * (φ2 (dec2 (q.z.fp_mul_fp TwistPoint.neg_pi2_c)) ^ 3 * ω ^ 3) = φ2 (dec2 q.y.fp_neg)
    rw [oz.2, oy.2, ev_neg, SM9Fp12.ev_pow, SM9Fp12.ev_pow, map_neg, ← ey2]; ring

/-! ### the two Frobenius line steps -/

theorem sdFinish_eq (P : SFp12 × SFp12) (Q : Pt12) (fs : SFp12) (T : Pt12) :
    sdFinish P Q (fs, T) =
      Spec.SM9.Fp12.mul (Spec.SM9.Fp12.mul fs (lineAdd T (frobPt Q) P).1)
        (lineAdd (lineAdd T (frobPt Q) P).2 (neg12 (frobPt (frobPt Q))) P).1 := rfl

theorem finish_acc {q : TwistPoint} {Q' : Pt12} {pa : Point} {P' : SFp12 × SFp12} (hq : Rep q Q') (hP : RepP pa P')
    (m : Fp12 × TwistPoint) (s : SFp12 × Pt12) (hI : Inv m s) (h1 : ChordOK s.2 (frobPt Q'))
    (h2 : ChordOK (lineAdd s.2 (frobPt Q') P').2 (neg12 (frobPt (frobPt Q')))) :
    AccRel (frobSteps q pa m) (sdFinish P' Q' s) := by
  obtain ⟨r, t⟩ := m
  obtain ⟨fs, T'⟩ := s
  obtain ⟨hacc, hrep⟩ := hI
  have r1 := pi1_rep hq
  have r2 := neg_pi2_rep hq
  obtain ⟨_, rep3, cl3, hv3⟩ :=
    chord_rep' (o_line_pre (okPt_dec r1.1) (ok_dec hP.1) (ok_dec hP.2.1)) hrep r1 hP h1
  obtain ⟨_, _, cl4, hv4⟩ :=
    chord_rep' (o_line_pre (okPt_dec r2.1) (ok_dec hP.1) (ok_dec hP.2.1)) rep3 r2 hP h2
  rw [sdFinish_eq]
  exact acc_line (acc_line hacc cl3 hv3) cl4 hv4

/-- STAGE C in the field A: the model's Miller value is a killed factor times the signed-digit Miller value -/
theorem model_miller_sd_acc {q : TwistPoint} {Q' : Pt12} {pa : Point} {P' : SFp12 × SFp12} (hq : Rep q Q')
    (hP : RepP pa P') (hgen : SDGeneric P' Q') : AccRel (frobSteps q pa (loopResult q pa)) (millerSD P' Q') :=
  finish_acc hq hP _ _ (loop_inv hq hP hgen.1) hgen.2.1 hgen.2.2

end GmVerif.Proofs.SM9MillerAssemble
