/-
C16 (extraction): the scalar of the three `extract_*key` functions of the model is the standard's t2 = k·(H1(ID‖hid)+k)⁻¹
mod N (no panic of the Barrett routine, `None` exactly when t1 = 0), and the extracted SIGNING key ds = [t2]P1 is the
standard's (`Spec.SM9.extractSign`), through the fixed-base multiplication `Point.g_mul` (`Proofs.SM9G1Table`).
-/
import GmVerif.Proofs.SM9G1Table

namespace GmVerif.Proofs.SM9G1Extract
open GmVerif
open GmVerif.Impl.SM9 (Point)
open GmVerif.Proofs.SM9G1

theorem N_eq : Gen.SM9.N = Spec.SM9.N := SM9Field.N_eq

theorem N_pos : 0 < Spec.SM9.N := by decide
theorem N_m1_pos : 0 < Spec.SM9.N - 1 := by decide
theorem N_lt : Spec.SM9.N < 2 ^ 256 := by decide
theorem N_m2_lt : Spec.SM9.N - 2 < 2 ^ 256 := by decide

theorem H1_lt (z : List UInt8) : Spec.SM9.H1 z < Spec.SM9.N := (SM9Algebra.hashToRange_range _ z).2

theorem mbind_ok {α β} (a : α) (f : α → Outcome β) : (Outcome.ok a >>= f) = f a := rfl
theorem mpure {α} (a : α) : (pure a : Outcome α) = .ok a := rfl

/-- `extract_scalar` = `Spec.SM9.extractScalar`, for every canonical master key
(rewriting only: unfolding the monadic `bind` around the symbolic `sm9_u256_hash1 id hid` by definitional unfolding sends
the kernel into the SM3 model) -/
theorem extract_scalar_refines (k : ℕ) (hk : k < Spec.SM9.N) (id : List UInt8) (hid : UInt8) :
    Impl.SM9.extract_scalar k id hid = .ok (Spec.SM9.extractScalar k id hid) := by
  have hH := H1_lt (id ++ [hid])
  have hadd : Impl.SM9.mod_n_add (Spec.SM9.H1 (id ++ [hid])) k = (Spec.SM9.H1 (id ++ [hid]) + k) % Spec.SM9.N := by
    have h := SM9Field.mod_n_add_correct (Spec.SM9.H1 (id ++ [hid])) k (by rw [N_eq]; exact hH) (by rw [N_eq]; exact hk)
    rwa [N_eq] at h
  have ht1 : (Spec.SM9.H1 (id ++ [hid]) + k) % Spec.SM9.N < Spec.SM9.N := Nat.mod_lt _ N_pos
  unfold Impl.SM9.extract_scalar Spec.SM9.extractScalar
  rw [SM9Field.hash1_refines, mbind_ok]
  simp only []
  rw [hadd]
  generalize (Spec.SM9.H1 (id ++ [hid]) + k) % Spec.SM9.N = t1 at ht1 ⊢
  by_cases h0 : t1 = 0
  · subst h0
    rw [if_pos (show Impl.SM9.fp_is_zero 0 = true from rfl), mpure]
    rfl
  · have hz : Impl.SM9.fp_is_zero t1 = false := by simp [Impl.SM9.fp_is_zero, h0]
    rw [if_neg (by rw [hz]; decide), if_neg h0]
    have hinv : Impl.SM9.mod_n_inv t1 = .ok (Spec.EC.invMod t1 Spec.SM9.N) := by
      unfold Impl.SM9.mod_n_inv Spec.EC.invMod
      rw [SM9Field.mod_n_pow_correct t1 _ (by rw [N_eq]; exact ht1), Proofs.Primes.powMod_eq, SM9Field.N_m2, N_eq,
        Nat.mod_eq_of_lt N_m2_lt]
    have hlt : Spec.EC.invMod t1 Spec.SM9.N < Spec.SM9.N := by
      unfold Spec.EC.invMod; rw [Proofs.Primes.powMod_eq]; exact Nat.mod_lt _ N_pos
    have hmul := SM9Field.mod_n_mul_correct (Spec.EC.invMod t1 Spec.SM9.N) k (by rw [N_eq]; exact hlt)
      (by rw [N_eq]; exact hk)
    rw [hinv, mbind_ok, hmul, mbind_ok, mpure, N_eq, Nat.mul_comm]

theorem hid_sign : Gen.SM9.HID_SIGN = Spec.SM9.hidSign := SM9Field.hids_spec.1

/-- the scalar produced by `extractScalar` is canonical -/
theorem extractScalar_lt {k : ℕ} {id : List UInt8} {hid : UInt8} {t : ℕ}
    (h : Spec.SM9.extractScalar k id hid = some t) : t < Spec.SM9.N := by
  unfold Spec.SM9.extractScalar at h
  simp only [] at h
  split at h
  · cases h
  · injection h with h; rw [← h]; exact Nat.mod_lt _ N_pos

/-- C16: the extracted signing key is the standard's.  `None` (regenerate the master key) exactly when the standard says
so; otherwise the public part is copied and `ds` is a valid representation of the standard's ds = [t2]P1. -/
theorem extract_sign_refines (m : Impl.SM9.Sm9SignMasterKey) (hks : m.ks < Spec.SM9.N) (id : List UInt8) :
    match Spec.SM9.extractSign m.ks id with
    | none => m.extract_key id = .ok none
    | some ds => ∃ key, m.extract_key id = .ok (some key) ∧ key.ppubs = m.ppubs ∧ Valid key.ds ∧ toSpec key.ds = ds := by
  unfold Impl.SM9.Sm9SignMasterKey.extract_key Spec.SM9.extractSign
  rw [hid_sign, extract_scalar_refines m.ks hks id Spec.SM9.hidSign, mbind_ok]
  cases hsc : Spec.SM9.extractScalar m.ks id Spec.SM9.hidSign with
  | none =>
    simp only [Option.map_none]
    rw [mpure]
  | some t =>
    have ht := extractScalar_lt hsc
    obtain ⟨R, hR, hv, hs⟩ := SM9G1Table.g_mul_good t (Nat.lt_trans ht N_lt)
    simp only [Option.map_some]
    rw [hR, mbind_ok, mpure]
    exact ⟨⟨m.ppubs, R⟩, rfl, rfl, hv, hs⟩

end GmVerif.Proofs.SM9G1Extract
