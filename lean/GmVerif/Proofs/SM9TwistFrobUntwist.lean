/-
C12e, stages 2, 4 and 5 (Fp12 side):

* `untwist_twFrob` : ψ ∘ twFrob = π ∘ ψ, i.e. `untwist (twFrob Q) = frobPt (untwist Q)` for every pair Q with reduced
  coordinates (ψ(x, y) = (x·w⁻², y·w⁻³), w^p = α·w, x^p = x̄ on Fp2, c₁ = α⁻², c₂ = α⁻³);
* `frob_eigen_untwist` : for Q ∈ G2 = E'(Fp2)[N],  `untwist (mul2 p Q) = frobPt (untwist Q)`: π acts on ψ(G2) as [p];
* ψ is compatible with the chord addition (`untwist_add_chord`) and injective on x-coordinates;
* the two Frobenius chords of the Miller loop are generic as soon as the loop ends at T = ψ([6t+2]Q):
  6t+2 ≢ ±p, 6t+2+p ≢ ±p², and 6t+2, p, 6t+2+p, p² ≢ 0 (mod N)  (`frobGeneric_of_loop_point`).
-/
import GmVerif.Proofs.SM9MillerReduce
import GmVerif.Proofs.SM9TwistFrob
set_option autoImplicit false
namespace GmVerif.Proofs.SM9TwistFrobUntwist
open GmVerif GmVerif.Proofs.SM9Tower GmVerif.Proofs.SM9TowerDense GmVerif.Proofs.SM9PairingReduce
open GmVerif.Proofs.SM9SpecField GmVerif.Proofs.SM9SpecLines GmVerif.Proofs.SM9MillerSD
open GmVerif.Proofs.SM9TwistFrob
open GmVerif.Spec.SM9 (p N t ateLoop Pt2 Pt12 add2 mul2 onTwist untwist frobPt neg12 lineAdd)
open GmVerif.Proofs.SM9Fp12 (ev Canon)
open GmVerif.Proofs.SM9G2ImplField (φ)
open GmVerif.Proofs.SM9G2 (ofK)

/-! ### Fp2 inside A = Fp[w]/(w¹² + 2) -/

/-- Mathlib's Fp2 → A, u ↦ ω⁶ -/
noncomputable def Φ : L →+* A := φ2.comp φ.symm.toRingHom

theorem Φ_apply (z : L) : Φ z = φ2 (φ.symm z) := rfl

theorem Φ_injective : Function.Injective Φ := fun _ _ h => φ.symm.injective (φ2_injective h)

theorem ev_ofFp2_ofK (z : L) : ev (Spec.SM9.Fp12.ofFp2 (ofK z)) = Φ z := SM9MillerReduce.ev_ofFp2_ofK z

/-- the coordinates of ψ(x, y) -/
def ux (x : L) : SFp12 :=
  Spec.SM9.Fp12.mul (Spec.SM9.Fp12.ofFp2 (ofK x))
    (Spec.SM9.Fp12.mul (Spec.SM9.Fp12.inv Spec.SM9.Fp12.w) (Spec.SM9.Fp12.inv Spec.SM9.Fp12.w))
def uy (y : L) : SFp12 :=
  Spec.SM9.Fp12.mul (Spec.SM9.Fp12.ofFp2 (ofK y))
    (Spec.SM9.Fp12.mul (Spec.SM9.Fp12.mul (Spec.SM9.Fp12.inv Spec.SM9.Fp12.w) (Spec.SM9.Fp12.inv Spec.SM9.Fp12.w))
      (Spec.SM9.Fp12.inv Spec.SM9.Fp12.w))

theorem untwist_ofL (x y : L) : untwist (ofL (some (x, y))) = some (ux x, uy y) := rfl

theorem canon_ux (x : L) : Canon (ux x) := SM9Fp12.canon_mul _ _
theorem canon_uy (y : L) : Canon (uy y) := SM9Fp12.canon_mul _ _

theorem ev_ux (x : L) : ev (ux x) = Φ x * (ω⁻¹ * ω⁻¹) := by
  rw [ux, SM9Fp12.ev_mul, SM9Fp12.ev_mul, ev_ofFp2_ofK, SM9MillerReduce.ev_wi]

theorem ev_uy (y : L) : ev (uy y) = Φ y * (ω⁻¹ * ω⁻¹ * ω⁻¹) := by
  rw [uy, SM9Fp12.ev_mul, SM9Fp12.ev_mul, SM9Fp12.ev_mul, ev_ofFp2_ofK, SM9MillerReduce.ev_wi]

theorem ux_injective {x1 x2 : L} (h : ux x1 = ux x2) : x1 = x2 := by
  have h' := congrArg ev h
  rw [ev_ux, ev_ux] at h'
  have hω : ω⁻¹ * ω⁻¹ ≠ 0 := mul_ne_zero (inv_ne_zero ω_ne_zero) (inv_ne_zero ω_ne_zero)
  exact Φ_injective (mul_right_cancel₀ hω h')

theorem uy_injective {y1 y2 : L} (h : uy y1 = uy y2) : y1 = y2 := by
  have h' := congrArg ev h
  rw [ev_uy, ev_uy] at h'
  have hω : ω⁻¹ * ω⁻¹ * ω⁻¹ ≠ 0 :=
    mul_ne_zero (mul_ne_zero (inv_ne_zero ω_ne_zero) (inv_ne_zero ω_ne_zero)) (inv_ne_zero ω_ne_zero)
  exact Φ_injective (mul_right_cancel₀ hω h')

/-! ### the constants c₁ = α⁻², c₂ = α⁻³ -/

theorem c1_powMod : c1 = Spec.EC.powMod (p - 2) (10 * ((p - 1) / 12)) p := by decide +kernel
theorem c2_powMod : c2 = Spec.EC.powMod (p - 2) (9 * ((p - 1) / 12)) p := by decide +kernel

theorem cast_c1 : ((c1 : ℕ) : K) = α ^ 10 := by
  rw [c1_powMod, SpecEC.cast_powMod, SM9FrobAll.cast_p_sub_two, α, ← pow_mul, Nat.mul_comm]
theorem cast_c2 : ((c2 : ℕ) : K) = α ^ 9 := by
  rw [c2_powMod, SpecEC.cast_powMod, SM9FrobAll.cast_p_sub_two, α, ← pow_mul, Nat.mul_comm]

theorem ι_c1 : ι ((c1 : ℕ) : K) * (ι α * ι α) = 1 := by
  rw [cast_c1, ← map_mul, ← map_mul]
  have : α ^ 10 * (α * α) = α ^ 12 := by ring
  rw [this, α_pow_12, map_one]
theorem ι_c2 : ι ((c2 : ℕ) : K) * (ι α * ι α * ι α) = 1 := by
  rw [cast_c2, ← map_mul, ← map_mul, ← map_mul]
  have : α ^ 9 * (α * α * α) = α ^ 12 := by ring
  rw [this, α_pow_12, map_one]

/-- Φ(c·x̄) = ι(c)·Φ(x)^p -/
theorem Φ_tw (c : ℕ) (x : L) : Φ (((c : ℕ) : L) * σ x) = ι ((c : ℕ) : K) * Φ x ^ p := by
  rw [Φ_apply, Φ_apply, SM9MillerAssemble.φ2_pow_p, ← φ2_of, ← map_mul]
  congr 1
  ext
  · simp only [SM9G2ImplField.φ_symm_c0, Quad.mul_c0, Quad.of_c0, Quad.of_c1, Quad.conj_c0, Quad.conj_c1,
      QuadraticAlgebra.re_mul, QuadraticAlgebra.re_natCast, QuadraticAlgebra.im_natCast, σ_apply,
      QuadraticAlgebra.re_star, QuadraticAlgebra.im_star, SM9G2ImplField.φ_symm_c1]
    ring
  · simp only [SM9G2ImplField.φ_symm_c0, Quad.mul_c1, Quad.of_c0, Quad.of_c1, Quad.conj_c0, Quad.conj_c1,
      QuadraticAlgebra.im_mul, QuadraticAlgebra.re_natCast, QuadraticAlgebra.im_natCast, σ_apply,
      QuadraticAlgebra.re_star, QuadraticAlgebra.im_star, SM9G2ImplField.φ_symm_c1]
    ring

/-! ### STAGE 2: ψ ∘ twFrob = π ∘ ψ -/

theorem untwist_twL (A : PtL) : untwist (ofL (twL A)) = frobPt (untwist (ofL A)) := by
  rcases A with _ | ⟨x, y⟩
  · rfl
  show untwist (ofL (some (_, _))) = frobPt (untwist (ofL (some (x, y))))
  rw [untwist_ofL, untwist_ofL]
  have hω := ω_ne_zero
  have hα := SM9MillerAssemble.ια_ne_zero
  refine congrArg some (Prod.ext ?_ ?_)
  · apply SM9Fp12.ev_injective (canon_ux _) (SM9Fp12.canon_pow _ _)
    show ev (ux _) = ev (Spec.SM9.Fp12.pow (ux x) p)
    rw [SM9Fp12.ev_pow, ev_ux, ev_ux, Φ_tw, mul_pow, mul_pow, inv_pow, SM9MillerAssemble.ω_pow_p]
    have h := ι_c1
    field_simp
    linear_combination (Φ x ^ p) * h
  · apply SM9Fp12.ev_injective (canon_uy _) (SM9Fp12.canon_pow _ _)
    show ev (uy _) = ev (Spec.SM9.Fp12.pow (uy y) p)
    rw [SM9Fp12.ev_pow, ev_uy, ev_uy, Φ_tw, mul_pow, mul_pow, mul_pow, inv_pow, SM9MillerAssemble.ω_pow_p]
    have h := ι_c2
    field_simp
    linear_combination (Φ y ^ p) * h

/-- STAGE 2: the twisted Frobenius is the Frobenius of E(Fp12) seen through the untwist -/
theorem untwist_twFrob {Q : Pt2} (hQ : Canon2 Q) : untwist (twFrob Q) = frobPt (untwist Q) := by
  obtain ⟨A, rfl⟩ := exists_ofL hQ
  rw [twFrob_ofL, untwist_twL]

/-- STAGE 4: π acts on ψ(G2) as multiplication by p -/
theorem frob_eigen_untwist {Q : Pt2} (hQ : onTwist Q = true) (hN : mul2 N Q = none) :
    untwist (mul2 p Q) = frobPt (untwist Q) := by
  rw [← frob_eigen hQ hN, untwist_twFrob (canon2_of_onTwist hQ)]

/-- π² acts on ψ(G2) as multiplication by p² -/
theorem frob2_eigen_untwist {Q : Pt2} (hQ : onTwist Q = true) (hN : mul2 N Q = none) :
    untwist (mul2 (p * p) Q) = frobPt (frobPt (untwist Q)) := by
  have hm := twFrob_mem hQ hN
  rw [frob_eigen hQ hN] at hm
  rw [← frob_eigen_untwist hQ hN, ← frob_eigen_untwist hm.1 hm.2, SM9G2.mul2_mul _ _ hQ]

/-! ### ψ and the chord addition -/

theorem untwist_add_chord (x1 y1 x2 y2 : L) (hx : x1 ≠ x2) (P : SFp12 × SFp12) :
    (lineAdd (untwist (ofL (some (x1, y1)))) (untwist (ofL (some (x2, y2)))) P).2
      = untwist (add2 (ofL (some (x1, y1))) (ofL (some (x2, y2)))) := by
  rw [add2_ofL]
  show _ = untwist (ofL (if x1 = x2 then _ else some (sumL (lamA x1 y1 x2 y2) x1 y1 x2)))
  rw [if_neg hx, untwist_ofL, untwist_ofL]
  show _ = untwist (ofL (some (_, _)))
  rw [untwist_ofL]
  have hxe : ev (ux x1) ≠ ev (ux x2) := fun h =>
    hx (ux_injective (SM9Fp12.ev_injective (canon_ux _) (canon_ux _) h))
  obtain ⟨g, x3, y3, hl, R⟩ := lineAdd_chord (ux x1) (uy y1) (ux x2) (uy y2) P hxe
  rw [hl]
  have hω := ω_ne_zero
  have hd : Φ x2 - Φ x1 ≠ 0 := sub_ne_zero.2 (fun h => hx (Φ_injective h).symm)
  have ex3 : ev x3 = ev (ux (sumL (lamA x1 y1 x2 y2) x1 y1 x2).1) := by
    rw [R.ex, ev_ux, ev_ux, ev_ux, ev_uy, ev_uy]
    simp only [sumL, lamA, map_sub, map_mul, map_inv₀]
    field_simp
  have ey3 : ev y3 = ev (uy (sumL (lamA x1 y1 x2 y2) x1 y1 x2).2) := by
    rw [R.ey, R.ex, ev_ux, ev_ux, ev_uy, ev_uy, ev_uy]
    simp only [sumL, lamA, map_sub, map_mul, map_inv₀]
    field_simp
  show some (x3, y3) = _
  rw [SM9Fp12.ev_injective R.cx (canon_ux _) ex3, SM9Fp12.ev_injective R.cy (canon_uy _) ey3]
  rfl

/-- the same on pairs of naturals: ψ(A) + ψ(B) = ψ(A + B) in the generic chord case of `lineAdd` -/
theorem untwist_add2_chord {x1 y1 x2 y2 : Spec.SM9.Fp2} (hA : Canon2 (some (x1, y1))) (hB : Canon2 (some (x2, y2)))
    (hx : x1 ≠ x2) (P : SFp12 × SFp12) :
    (lineAdd (untwist (some (x1, y1))) (untwist (some (x2, y2))) P).2 = untwist (add2 (some (x1, y1)) (some (x2, y2))) := by
  obtain ⟨h1, h2, h3, h4⟩ := hA
  obtain ⟨h5, h6, h7, h8⟩ := hB
  have e1 := SM9G2.ofK_toK x1 h1 h2
  have e2 := SM9G2.ofK_toK y1 h3 h4
  have e3 := SM9G2.ofK_toK x2 h5 h6
  have e4 := SM9G2.ofK_toK y2 h7 h8
  have hne : SM9G2.toK x1 ≠ SM9G2.toK x2 := fun h => hx (by rw [← e1, ← e3, h])
  have := untwist_add_chord (SM9G2.toK x1) (SM9G2.toK y1) (SM9G2.toK x2) (SM9G2.toK y2) hne P
  simp only [ofL, e1, e2, e3, e4] at this
  exact this

/-! ### different multiples of a point of order N have different x-coordinates -/

open WeierstrassCurve.Affine in
/-- for Q of prime order N on the twist and a, b, a ± b not divisible by N: [a]Q and [b]Q are finite with different
x-coordinates -/
theorem mul2_x_ne {Q : Pt2} (hQ : onTwist Q = true) (hN : mul2 N Q = none) (hQ0 : Q ≠ none) {a b : ℕ}
    (ha : ¬ N ∣ a) (hb : ¬ N ∣ b) (hab : a % N ≠ b % N) (hab' : ¬ N ∣ a + b) :
    ∃ x1 y1 x2 y2 : L, mul2 a Q = ofL (some (x1, y1)) ∧ mul2 b Q = ofL (some (x2, y2)) ∧ x1 ≠ x2 := by
  obtain ⟨Q', rfl⟩ := SM9G2.exists_ofPoint2 hQ
  have hQ0' : Q' ≠ 0 := fun h => hQ0 (by rw [h]; rfl)
  rw [SM9G2.mul2_ofPoint, SM9G2.ofPoint2_eq_none_iff] at hN
  have hord : addOrderOf Q' = N := SM9G2Cyclic.addOrderOf_eq_prime SM9Algebra.N_prime hQ0' hN
  have hane : a • Q' ≠ 0 := fun h => ha (hord ▸ addOrderOf_dvd_of_nsmul_eq_zero h)
  have hbne : b • Q' ≠ 0 := fun h => hb (hord ▸ addOrderOf_dvd_of_nsmul_eq_zero h)
  rw [SM9G2.mul2_ofPoint, SM9G2.mul2_ofPoint]
  rcases hA : a • Q' with _ | ⟨x1, y1, h1⟩
  · exact absurd hA hane
  rcases hB : b • Q' with _ | ⟨x2, y2, h2⟩
  · exact absurd hB hbne
  refine ⟨x1, y1, x2, y2, rfl, rfl, ?_⟩
  rintro rfl
  rcases Y_eq_of_X_eq h1.1 h2.1 rfl with hy | hy
  · subst hy
    have : a • Q' = b • Q' := by rw [hA, hB]
    rw [nsmul_eq_nsmul_iff_modEq, hord] at this
    exact hab this
  · have hneg : a • Q' = -(b • Q') := by
      rw [hA, hB, Point.neg_some]
      congr 1
    have : (a + b) • Q' = 0 := by rw [add_nsmul, hneg, neg_add_cancel]
    exact hab' (hord ▸ addOrderOf_dvd_of_nsmul_eq_zero this)

theorem chordOK_untwist {x1 y1 x2 y2 : L} (hx : x1 ≠ x2) :
    ChordOK (untwist (ofL (some (x1, y1)))) (untwist (ofL (some (x2, y2)))) :=
  ⟨ux x1, uy y1, ux x2, uy y2, rfl, rfl, fun h => hx (ux_injective h)⟩

theorem chordOK_neg12 {T U : Pt12} (h : ChordOK T U) : ChordOK T (neg12 U) := by
  obtain ⟨x1, y1, x2, y2, rfl, rfl, hne⟩ := h
  exact ⟨x1, y1, x2, Spec.SM9.Fp12.neg y2, rfl, rfl, hne⟩

/-! ### STAGE 5: the two Frobenius chords -/

theorem ate_ne_zero : ¬ N ∣ ateLoop := by decide
theorem p_ne_zero : ¬ N ∣ p := by decide
theorem ate_ne_p : ateLoop % N ≠ p % N := by decide
theorem ate_ne_neg_p : ¬ N ∣ ateLoop + p := by decide
theorem pp_ne_zero : ¬ N ∣ p * p := by decide
theorem atep_ne_pp : (ateLoop + p) % N ≠ (p * p) % N := by decide
theorem atep_ne_neg_pp : ¬ N ∣ ateLoop + p + p * p := by decide

/-- the two Frobenius line steps from T = ψ([6t+2]Q), Q ∈ G2 finite: both chords are generic -/
theorem frobChords_of_point {Q : Pt2} (hQ : onTwist Q = true) (hN : mul2 N Q = none) (hQ0 : Q ≠ none)
    (P : SFp12 × SFp12) :
    ChordOK (untwist (mul2 ateLoop Q)) (frobPt (untwist Q)) ∧
      ChordOK (lineAdd (untwist (mul2 ateLoop Q)) (frobPt (untwist Q)) P).2 (neg12 (frobPt (frobPt (untwist Q)))) := by
  rw [← frob2_eigen_untwist hQ hN, ← frob_eigen_untwist hQ hN]
  obtain ⟨x1, y1, x2, y2, e1, e2, hx⟩ := mul2_x_ne hQ hN hQ0 ate_ne_zero p_ne_zero ate_ne_p ate_ne_neg_p
  refine ⟨by rw [e1, e2]; exact chordOK_untwist hx, ?_⟩
  have hsum : (lineAdd (untwist (mul2 ateLoop Q)) (untwist (mul2 p Q)) P).2 = untwist (mul2 (ateLoop + p) Q) := by
    rw [e1, e2, untwist_add_chord x1 y1 x2 y2 hx P, ← e1, ← e2, ← SM9G2.mul2_add _ _ hQ]
  rw [hsum]
  obtain ⟨x3, y3, x4, y4, e3, e4, hx'⟩ := mul2_x_ne hQ hN hQ0 ate_ne_neg_p pp_ne_zero atep_ne_pp atep_ne_neg_pp
  rw [e3, e4]
  exact chordOK_neg12 (chordOK_untwist hx')

/-- STAGE 5: if the signed-digit loop on ψ(Q), Q ∈ G2, ends at the point ψ([6t+2]Q), the two Frobenius chord conditions of
`SDGeneric` hold -/
theorem frobGeneric_of_loop_point (P' Q' : SFp12 × SFp12) (Q : Pt2) (hQ : onTwist Q = true) (hN : mul2 N Q = none)
    (hQ' : untwist Q = some Q') (hloop : (sdLoop P' (some Q')).2 = untwist (mul2 ateLoop Q)) :
    ChordOK (sdLoop P' (some Q')).2 (frobPt (some Q'))
      ∧ ChordOK (lineAdd (sdLoop P' (some Q')).2 (frobPt (some Q')) P').2 (neg12 (frobPt (frobPt (some Q')))) := by
  have hQ0 : Q ≠ none := by
    rintro rfl
    simp [untwist] at hQ'
  rw [hloop, ← hQ']
  exact frobChords_of_point hQ hN hQ0 P'

/-- the whole `SDGeneric` from the genericity of the 65 loop steps and the loop-point invariant -/
theorem sdGeneric_of_loop_point (P' Q' : SFp12 × SFp12) (Q : Pt2) (hQ : onTwist Q = true) (hN : mul2 N Q = none)
    (hQ' : untwist Q = some Q')
    (hsteps : GenericFrom (some Q') P' Impl.SM9.abits.toList (Spec.SM9.Fp12.one, some Q'))
    (hloop : (sdLoop P' (some Q')).2 = untwist (mul2 ateLoop Q)) : SDGeneric P' (some Q') :=
  ⟨hsteps, frobGeneric_of_loop_point P' Q' Q hQ hN hQ' hloop⟩

end GmVerif.Proofs.SM9TwistFrobUntwist
