/-
Helper lemmas for C09, C10, C17, C20b: control flow of the model of gm-sm9/src/key.rs (decision logic, totality,
KDF/MAC).  Pairing, point and tower operations stay opaque.
-/
import GmVerif.Impl.SM9.Key
import GmVerif.Spec.SM9
import GmVerif.Proofs.SM3

set_option exponentiation.threshold 600

namespace GmVerif.Proofs.SM9Logic
open GmVerif GmVerif.Impl.SM9
open GmVerif.Gen.SM9 (N N_MINUS_ONE HID_SIGN HID_EXCH HID_ENC)

/-! ### SM3 wrapper -/

theorem sm3_eq (m : List UInt8) : sm3 m = Spec.SM3.hash m := by
  unfold sm3; rw [Proofs.SM3.sm3_refines]

theorem sm3_length (m : List UInt8) : (sm3 m).length = 32 := by
  rw [sm3_eq]; exact Proofs.SM3.spec_hash_length m

/-! ### KDF -/

theorem kdfBlocks_length (z : List UInt8) (ct n : Nat) : (Spec.SM2.kdfBlocks z ct n).length = 32 * n := by
  induction n generalizing ct with
  | zero => simp [Spec.SM2.kdfBlocks]
  | succ n ih =>
    simp only [Spec.SM2.kdfBlocks, List.length_append, ih, Spec.SM2.hash, Proofs.SM3.spec_hash_length]
    omega

theorem kdfBlocks_add (z : List UInt8) (ct a b : Nat) :
    Spec.SM2.kdfBlocks z ct (a + b) = Spec.SM2.kdfBlocks z ct a ++ Spec.SM2.kdfBlocks z (ct + a) b := by
  induction a generalizing ct with
  | zero => simp [Spec.SM2.kdfBlocks]
  | succ a ih =>
    have : a + 1 + b = (a + b) + 1 := by omega
    rw [this]
    simp only [Spec.SM2.kdfBlocks, ih, List.append_assoc]
    have : ct + 1 + a = ct + (a + 1) := by omega
    rw [this]

theorem kdfLoop_eq (z : List UInt8) (ct n : Nat) (acc : List UInt8) :
    kdfLoop z ct n acc = (ct + n, acc ++ Spec.SM2.kdfBlocks z ct n) := by
  induction n generalizing ct acc with
  | zero => simp [kdfLoop, Spec.SM2.kdfBlocks]
  | succ n ih =>
    simp only [kdfLoop, ih, Spec.SM2.kdfBlocks, Spec.SM2.hash, sm3_eq, List.append_assoc]
    have : ct + 1 + n = ct + (n + 1) := by omega
    rw [this]

/-- closed form of the model's KDF -/
theorem kdf_closed (z : List UInt8) (klen : Nat) :
    kdf z klen =
      let b := min ((klen + 31) / 32) (2 ^ 32 - 1)
      Spec.SM2.kdfBlocks z 1 (b - 1) ++
        (Spec.SM3.hash (z ++ natBE 4 (1 + (b - 1)))).take (if klen % 32 = 0 then 32 else klen % 32) := by
  simp only [kdf, kdfLoop_eq, List.nil_append, sm3_eq]
  split
  · rw [List.take_of_length_le (by rw [Proofs.SM3.spec_hash_length]; omega)]
  · rfl

/-- length of the model's KDF output for every `klen` -/
theorem kdf_length_gen (z : List UInt8) (klen : Nat) :
    (kdf z klen).length =
      32 * (min ((klen + 31) / 32) (2 ^ 32 - 1) - 1) + (if klen % 32 = 0 then 32 else klen % 32) := by
  rw [kdf_closed]
  simp only [List.length_append, kdfBlocks_length, List.length_take, Proofs.SM3.spec_hash_length]
  split <;> omega

theorem kdf_length_le (z : List UInt8) (klen : Nat) (h : 1 ≤ klen) : (kdf z klen).length ≤ klen := by
  rw [kdf_length_gen]; split <;> omega

theorem kdf_length (z : List UInt8) (klen : Nat) (h : 1 ≤ klen) (h2 : klen ≤ 32 * (2 ^ 32 - 1)) :
    (kdf z klen).length = klen := by
  rw [kdf_length_gen]; split <;> omega

theorem kdf_length_zero (z : List UInt8) : (kdf z 0).length = 32 := by
  rw [kdf_length_gen]; simp

theorem spec_kdf_length (z : List UInt8) (klen : Nat) : (Spec.SM9.kdf z klen).length = klen := by
  simp only [Spec.SM9.kdf, Spec.SM2.kdf, List.length_take, kdfBlocks_length]; omega

theorem kdf_refines (z : List UInt8) (klen : Nat) (h : 1 ≤ klen) (h2 : klen ≤ 32 * (2 ^ 32 - 1)) :
    kdf z klen = Spec.SM9.kdf z klen := by
  rw [kdf_closed]
  simp only [Spec.SM9.kdf, Spec.SM2.kdf]
  have hb : min ((klen + 31) / 32) (2 ^ 32 - 1) = (klen + 31) / 32 := by omega
  simp only [hb]
  have hn : (klen + 31) / 32 = ((klen + 31) / 32 - 1) + 1 := by omega
  have hs : Spec.SM2.kdfBlocks z 1 ((klen + 31) / 32) =
      Spec.SM2.kdfBlocks z 1 ((klen + 31) / 32 - 1) ++ Spec.SM3.hash (z ++ natBE 4 (1 + ((klen + 31) / 32 - 1))) := by
    conv => lhs; rw [hn, kdfBlocks_add]
    simp only [Spec.SM2.kdfBlocks, Spec.SM2.hash, List.append_nil]
  rw [hs, List.take_append, kdfBlocks_length]
  have ht : List.take klen (Spec.SM2.kdfBlocks z 1 ((klen + 31) / 32 - 1)) =
      Spec.SM2.kdfBlocks z 1 ((klen + 31) / 32 - 1) :=
    List.take_of_length_le (by rw [kdfBlocks_length]; omega)
  rw [ht]
  congr 2
  split <;> omega

/-- the statement of `kdf_prefix` without the upper bound on `klen` is false: the `u32` block count saturates -/
theorem kdf_refines_unbounded_false :
    ¬ ∀ (z : List UInt8) (klen : Nat), 1 ≤ klen → kdf z klen = Spec.SM9.kdf z klen := by
  intro h
  have h1 := congrArg List.length (h [] (2 ^ 38) (by omega))
  rw [kdf_length_gen, spec_kdf_length] at h1
  simp at h1

/-- the standard's KDF is prefix-closed -/
theorem spec_kdf_take (z : List UInt8) (k k' : Nat) (h : k ≤ k') :
    (Spec.SM9.kdf z k').take k = Spec.SM9.kdf z k := by
  simp only [Spec.SM9.kdf, Spec.SM2.kdf, List.take_take, Nat.min_eq_left h]
  have hn : (k' + 31) / 32 = (k + 31) / 32 + ((k' + 31) / 32 - (k + 31) / 32) := by omega
  rw [hn, kdfBlocks_add, List.take_append_of_le_length (by rw [kdfBlocks_length]; omega)]

theorem kdf_287_take (z : List UInt8) (mlen : Nat) (h : mlen ≤ 255) :
    (kdf z 287).take (mlen + 32) = Spec.SM9.kdf z (mlen + 32) := by
  rw [kdf_refines z 287 (by omega) (by omega), spec_kdf_take z _ _ (by omega)]

theorem kdf_287_split (z : List UInt8) (mlen : Nat) (h : mlen ≤ 255) :
    (kdf z 287).take mlen = (Spec.SM9.kdf z (mlen + 32)).take mlen
    ∧ ((kdf z 287).drop mlen).take 32 = (Spec.SM9.kdf z (mlen + 32)).drop mlen := by
  rw [← kdf_287_take z mlen h]
  constructor
  · rw [List.take_take]; congr 1; omega
  · rw [List.drop_take]; congr 1; omega

/-! ### MAC, hashes to the range, outcome plumbing -/

/- NOTE these are deliberately NOT proved by `rfl`: a `rfl` proof makes `simp` use them definitionally, and the kernel
then has to decide `(ok a).bind f ≡ <reduced body>`, which it does by unfolding `ite` on both sides and evaluating
`Decidable` instances over field arithmetic on open terms (does not terminate in practice). -/
theorem bind_ok {α β} (a : α) (f : α → Outcome β) : (Outcome.ok a).bind f = f a := by
  simp only [Outcome.bind]
theorem bind_err {α β} (e : String) (f : α → Outcome β) : (Outcome.err e : Outcome α).bind f = .err e := by
  simp only [Outcome.bind]
theorem bind_panic {α β} (f : α → Outcome β) : (Outcome.panic : Outcome α).bind f = .panic := by
  simp only [Outcome.bind]
theorem map_ok {α β} (a : α) (f : α → β) : (Outcome.ok a).map f = .ok (f a) := by
  simp only [Outcome.map, Outcome.bind]
theorem map_err {α β} (e : String) (f : α → β) : (Outcome.err e : Outcome α).map f = .err e := by
  simp only [Outcome.map, Outcome.bind]
theorem map_panic {α β} (f : α → β) : (Outcome.panic : Outcome α).map f = .panic := by
  simp only [Outcome.map, Outcome.bind]

theorem mac_refines (k2 z : List UInt8) (h : 32 ≤ k2.length) :
    sm9_mac k2 z = .ok (Spec.SM9.mac (k2.take 32) z) := by
  simp only [sm9_mac, Spec.SM9.mac, Spec.SM9.hash, sm3_eq]
  rw [if_neg (by omega)]

theorem mac_panic_iff (k2 z : List UInt8) : sm9_mac k2 z = .panic ↔ k2.length < 32 := by
  simp only [sm9_mac]; split <;> simp_all

theorem cmp_le_zero (a b : Nat) : u256_cmp a b ≤ 0 ↔ a ≤ b := by
  unfold u256_cmp
  by_cases h1 : a > b
  · rw [if_pos h1]; constructor <;> intro h <;> omega
  · rw [if_neg h1]
    by_cases h2 : a < b
    · rw [if_pos h2]; constructor <;> intro h <;> omega
    · rw [if_neg h2]; constructor <;> intro h <;> omega

theorem cmp_lt_zero (a b : Nat) : u256_cmp a b < 0 ↔ a < b := by
  unfold u256_cmp
  by_cases h1 : a > b
  · rw [if_pos h1]; constructor <;> intro h <;> omega
  · rw [if_neg h1]
    by_cases h2 : a < b
    · rw [if_pos h2]; constructor <;> intro h <;> omega
    · rw [if_neg h2]; constructor <;> intro h <;> omega

theorem cmp_gt_zero (a b : Nat) : u256_cmp a b > 0 ↔ a > b := by
  unfold u256_cmp
  by_cases h1 : a > b
  · rw [if_pos h1]; constructor <;> intro h <;> omega
  · rw [if_neg h1]
    by_cases h2 : a < b
    · rw [if_pos h2]; constructor <;> intro h <;> omega
    · rw [if_neg h2]; constructor <;> intro h <;> omega

theorem cmp_ne_zero (a b : Nat) : u256_cmp a b ≠ 0 ↔ a ≠ b := by
  unfold u256_cmp
  by_cases h1 : a > b
  · rw [if_pos h1]; constructor <;> intro h <;> omega
  · rw [if_neg h1]
    by_cases h2 : a < b
    · rw [if_pos h2]; constructor <;> intro h <;> omega
    · rw [if_neg h2]; constructor <;> intro h <;> omega

theorem fp_is_zero_iff (a : Nat) : fp_is_zero a = true ↔ a = 0 := by simp [fp_is_zero]

theorem n_minus_one_eq : N_MINUS_ONE = N - 1 := by decide

theorem mod_n_add_lt (a b : Nat) : mod_n_add a b < 2 ^ 256 := by
  unfold mod_n_add Impl.NatField.modAdd Impl.NatField.R
  by_cases h1 : a + b ≥ 2 ^ 256
  · simp only [if_pos h1]; exact Nat.mod_lt _ (by decide)
  · by_cases h2 : a + b ≥ N
    · simp only [if_neg h1, if_pos h2]; omega
    · simp only [if_neg h1, if_neg h2]; omega

theorem mod_n_sub_lt (a b : Nat) (h : a < 2 ^ 256) : mod_n_sub a b < 2 ^ 256 := by
  unfold mod_n_sub Impl.NatField.modSub Impl.NatField.R
  by_cases h1 : a < b
  · simp only [if_pos h1]; exact Nat.mod_lt _ (by decide)
  · simp only [if_neg h1]; omega

/-- on canonical operands `mod_n_sub` is subtraction modulo N -/
theorem mod_n_sub_eq (a b : Nat) (ha : a < N) (hb : b ≤ N) : mod_n_sub a b = (a + N - b) % N := by
  unfold mod_n_sub Impl.NatField.modSub Impl.NatField.R Gen.SM9.N_NEG
  unfold Gen.SM9.N at *
  by_cases h1 : a < b
  · simp only [if_pos h1]; omega
  · simp only [if_neg h1]; omega

/-- the fixed code: no input length panics any more -/
theorem mod_n_from_hash_total (ha : List UInt8) : ∃ r, mod_n_from_hash ha = .ok r ∧ r < 2 ^ 256 := by
  simp only [mod_n_from_hash]
  exact ⟨_, rfl, mod_n_add_lt _ _⟩

theorem mod_n_from_hash_ok (ha : List UInt8) (_h : 40 ≤ ha.length) :
    ∃ r, mod_n_from_hash ha = .ok r ∧ r < 2 ^ 256 := mod_n_from_hash_total ha

theorem mod_n_from_hash_not_panic (ha : List UInt8) : mod_n_from_hash ha ≠ .panic := by
  obtain ⟨r, h, _⟩ := mod_n_from_hash_total ha
  rw [h]; exact fun h => nomatch h

theorem mod_n_from_hash_not_err (ha : List UInt8) (e : String) : mod_n_from_hash ha ≠ .err e := by
  obtain ⟨r, h, _⟩ := mod_n_from_hash_total ha
  rw [h]; exact fun h => nomatch h

theorem hash1_ok (id : List UInt8) (hid : UInt8) : ∃ r, sm9_u256_hash1 id hid = .ok r ∧ r < 2 ^ 256 := by
  simp only [sm9_u256_hash1]
  exact mod_n_from_hash_ok _ (by simp only [List.length_append, sm3_length]; omega)

theorem hash2_ok (data wbuf : List UInt8) : ∃ r, sm9_u256_hash2 data wbuf = .ok r ∧ r < 2 ^ 256 := by
  simp only [sm9_u256_hash2]
  exact mod_n_from_hash_ok _ (by simp only [List.length_append, sm3_length]; omega)

/-- what `Point::from_bytes` returns on at least 65 bytes -/
def fromBytesPt (b : List UInt8) : Point :=
  ⟨fp_to_mont (beNat ((b.drop 1).take 32)), fp_to_mont (beNat ((b.drop 33).take 32)), Gen.SM9.MODP_MONT_ONE⟩

theorem from_bytes_ok (b : List UInt8) (h : 65 ≤ b.length) : Point.from_bytes b = .ok (fromBytesPt b) := by
  simp only [Point.from_bytes, fromBytesPt]; rw [if_neg (by omega)]

theorem from_bytes_panic_iff (b : List UInt8) : Point.from_bytes b = .panic ↔ b.length < 65 := by
  simp only [Point.from_bytes]; split <;> simp_all

theorem from_bytes_not_err (b : List UInt8) (e : String) : Point.from_bytes b ≠ .err e := by
  simp only [Point.from_bytes]; split <;> simp

theorem pow_ok (a : Fp12) (e : Nat) (h : e ≤ N_MINUS_ONE) : a.pow e = .ok (a.pow_loop e) := by
  unfold Fp12.pow; rw [if_pos ((cmp_le_zero _ _).2 h)]

theorem pow_panic_iff (a : Fp12) (e : Nat) : a.pow e = .panic ↔ N_MINUS_ONE < e := by
  unfold Fp12.pow
  by_cases h : u256_cmp e N_MINUS_ONE ≤ 0
  · rw [if_pos h]; have := (cmp_le_zero _ _).1 h
    constructor
    · intro h; cases h
    · intro h; omega
  · rw [if_neg h]; have := mt (cmp_le_zero _ _).2 h
    constructor
    · intro _; omega
    · intro _; rfl

theorem pow_not_err (a : Fp12) (e : Nat) (s : String) : a.pow e ≠ .err s := by
  simp only [Fp12.pow]; split <;> simp

theorem xor_ok (k data : List UInt8) (len : Nat) (h1 : len ≤ k.length) (h2 : len ≤ data.length) :
    Impl.SM9.xor k data len = .ok (List.zipWith (· ^^^ ·) (k.take len) (data.take len)) := by
  simp only [Impl.SM9.xor]; rw [if_neg (by omega)]


/-! ### decrypt -/

/-- the KDF output used by `decrypt` for the decoded C1 -/
def decK (key : Sm9EncKey) (idb data : List UInt8) (c1 : Point) : List UInt8 :=
  kdf ((data.take 65).drop 1 ++ (sm9_u256_pairing key.de c1).to_bytes_be ++ idb) 287

theorem decrypt_bad_length (key : Sm9EncKey) (idb data : List UInt8) (h : data.length < 98 ∨ 352 < data.length) :
    key.decrypt idb data = .err "InvalidFieldLen" := by
  unfold Sm9EncKey.decrypt
  rw [if_pos (by omega)]

theorem decrypt_bad_prefix (key : Sm9EncKey) (idb data : List UInt8) (h1 : 98 ≤ data.length) (h2 : data.length ≤ 352)
    (h : data.head? ≠ some 0x04) : key.decrypt idb data = .err "InvalidPoint" := by
  unfold Sm9EncKey.decrypt
  rw [if_neg (by omega), if_pos]
  cases data with
  | nil => simp at h1
  | cons a t => simpa using h


/-- the part of `decrypt` after decoding C1, over atoms (keeps field arithmetic away from the kernel) -/
theorem dec_tail (on : Bool) (k c2 c3 : List UInt8) (mlen : Nat) (hk : mlen + 32 ≤ k.length) (hc2 : c2.length = mlen) :
    (if (!on) = true then Outcome.err "InvalidPoint"
     else if (!all_zero (k.take mlen)) = true then
        (sm9_mac (k.drop mlen) c2).bind fun u =>
          if u ≠ c3 then Outcome.err "InvalidDigest" else Impl.SM9.xor c2 (k.take mlen) (k.take mlen).length
      else Outcome.err "KdfHashError") =
    if on = false then Outcome.err "InvalidPoint"
    else if all_zero (k.take mlen) = true then Outcome.err "KdfHashError"
    else if sm3 (c2 ++ (k.drop mlen).take 32) ≠ c3 then Outcome.err "InvalidDigest"
    else Outcome.ok (List.zipWith (· ^^^ ·) c2 (k.take mlen)) := by
  cases on with
  | false => rfl
  | true =>
    simp only [Bool.not_true, Bool.false_eq_true, if_false, Bool.true_eq_false]
    cases all_zero (k.take mlen) with
    | true => rfl
    | false =>
      simp only [Bool.not_false, if_true, Bool.false_eq_true, if_false]
      rw [mac_refines _ _ (by rw [List.length_drop]; omega)]
      simp only [bind_ok, Spec.SM9.mac, Spec.SM9.hash, ← sm3_eq]
      by_cases hm : sm3 (c2 ++ (k.drop mlen).take 32) ≠ c3
      · rw [if_pos hm, if_pos hm]
      · rw [if_neg hm, if_neg hm]
        have hl : (k.take mlen).length = mlen := by rw [List.length_take]; omega
        rw [xor_ok _ _ _ (by omega) (by omega), hl, List.take_of_length_le (by omega),
          List.take_of_length_le (by omega)]

theorem take65_X (ct : List UInt8) : (List.drop 1 (ct.take 65)).take 32 = (ct.drop 1).take 32 := by
  rw [List.drop_take, List.take_take]; rfl
theorem take65_Y (ct : List UInt8) : (List.drop 33 (ct.take 65)).take 32 = (ct.drop 33).take 32 := by
  rw [List.drop_take, List.take_take]; rfl
theorem P_eq : Gen.SM9.P = Spec.SM9.p := by decide

/-- the fixed code: a C1 coordinate that is not a field element (≥ p) is `InvalidPoint`, before anything is computed -/
theorem decrypt_noncanonical (key : Sm9EncKey) (idb data : List UInt8) (h1 : 98 ≤ data.length) (h2 : data.length ≤ 352)
    (h : data.head? = some 0x04)
    (hnc : Spec.SM9.p ≤ beNat ((data.drop 1).take 32) ∨ Spec.SM9.p ≤ beNat ((data.drop 33).take 32)) :
    key.decrypt idb data = .err "InvalidPoint" := by
  have hhead : ¬ data.headD 0 ≠ 0x04 := by
    cases data with
    | nil => simp at h1
    | cons a t => simpa using h
  unfold Sm9EncKey.decrypt
  rw [if_neg (by omega), if_neg hhead]
  simp only [take65_X, take65_Y, P_eq]
  rw [if_pos hnc]

theorem decrypt_eq (key : Sm9EncKey) (idb data : List UInt8) (h1 : 98 ≤ data.length) (h2 : data.length ≤ 352)
    (h : data.head? = some 0x04)
    (hcan : beNat ((data.drop 1).take 32) < Spec.SM9.p ∧ beNat ((data.drop 33).take 32) < Spec.SM9.p) :
    key.decrypt idb data =
      let c1 := fromBytesPt (data.take 65)
      let k := decK key idb data c1
      let mlen := data.length - 97
      if c1.is_on_curve = false then .err "InvalidPoint"
      else if all_zero (k.take mlen) = true then .err "KdfHashError"
      else if sm3 (data.drop 97 ++ (k.drop mlen).take 32) ≠ (data.drop 65).take 32 then .err "InvalidDigest"
      else .ok (List.zipWith (· ^^^ ·) (data.drop 97) (k.take mlen)) := by
  have hhead : ¬ data.headD 0 ≠ 0x04 := by
    cases data with
    | nil => simp at h1
    | cons a t => simpa using h
  unfold Sm9EncKey.decrypt
  rw [if_neg (by omega), if_neg hhead]
  have e97 : 65 + 32 = 97 := rfl
  have e287 : 255 + 32 = 287 := rfl
  have hnc : ¬ (Gen.SM9.P ≤ beNat ((List.drop 1 (data.take 65)).take 32)
      ∨ Gen.SM9.P ≤ beNat ((List.drop 33 (data.take 65)).take 32)) := by
    rw [take65_X, take65_Y, P_eq]; omega
  simp only []
  rw [if_neg hnc]
  simp only [from_bytes_ok (data.take 65) (by rw [List.length_take]; omega), bind_ok, decK, e97, e287]
  exact dec_tail _ _ _ _ _ (by rw [kdf_length _ _ (by omega) (by omega)]; omega) (by rw [List.length_drop])

theorem ite3_ok_iff {α : Type} (p1 p2 p3 : Prop) [Decidable p1] [Decidable p2] [Decidable p3] (e1 e2 e3 : String)
    (v m : α) :
    (if p1 then Outcome.err e1 else if p2 then Outcome.err e2 else if p3 then Outcome.err e3 else Outcome.ok v)
      = Outcome.ok m ↔ ¬ p1 ∧ ¬ p2 ∧ ¬ p3 ∧ m = v := by
  by_cases h1 : p1
  · simp [h1]
  · by_cases h2 : p2
    · simp [h1, h2]
    · by_cases h3 : p3
      · simp [h1, h2, h3]
      · simp only [h1, h2, h3, if_false, not_false_eq_true, true_and, Outcome.ok.injEq]
        exact eq_comm

theorem ite3_ne_panic {α : Type} (p1 p2 p3 : Prop) [Decidable p1] [Decidable p2] [Decidable p3] (e1 e2 e3 : String)
    (v : α) :
    (if p1 then Outcome.err e1 else if p2 then Outcome.err e2 else if p3 then Outcome.err e3 else Outcome.ok v)
      ≠ Outcome.panic := by
  by_cases h1 : p1
  · simp [h1]
  · by_cases h2 : p2
    · simp [h1, h2]
    · by_cases h3 : p3
      · simp [h1, h2, h3]
      · simp [h1, h2, h3]

theorem decrypt_ok_iff (key : Sm9EncKey) (idb data m : List UInt8) :
    key.decrypt idb data = .ok m ↔
      98 ≤ data.length ∧ data.length ≤ 352 ∧ data.head? = some 0x04 ∧
      beNat ((data.drop 1).take 32) < Spec.SM9.p ∧ beNat ((data.drop 33).take 32) < Spec.SM9.p ∧
      ∃ c1, Point.from_bytes (data.take 65) = .ok c1 ∧ c1.is_on_curve = true ∧
        let k := kdf ((data.take 65).drop 1 ++ (sm9_u256_pairing key.de c1).to_bytes_be ++ idb) 287
        let mlen := data.length - 97
        all_zero (k.take mlen) = false ∧ sm3 (data.drop 97 ++ ((k.drop mlen).take 32)) = (data.drop 65).take 32 ∧
        m = List.zipWith (· ^^^ ·) (data.drop 97) (k.take mlen) := by
  constructor
  · intro h
    by_cases hw : data.length < 98 ∨ 352 < data.length
    · rw [decrypt_bad_length key idb data hw] at h; cases h
    · by_cases hh : data.head? = some 0x04
      · by_cases hcan : beNat ((data.drop 1).take 32) < Spec.SM9.p ∧ beNat ((data.drop 33).take 32) < Spec.SM9.p
        · rw [decrypt_eq key idb data (by omega) (by omega) hh hcan] at h
          have h' := (ite3_ok_iff _ _ _ _ _ _ _ _).1 h
          simp only [decK] at h'
          refine ⟨by omega, by omega, hh, hcan.1, hcan.2, fromBytesPt (data.take 65),
            from_bytes_ok _ (by rw [List.length_take]; omega), ?_, ?_, ?_, ?_⟩
          · exact (Bool.not_eq_false _).mp h'.1
          · exact (Bool.not_eq_true _).mp h'.2.1
          · exact Decidable.of_not_not h'.2.2.1
          · exact h'.2.2.2
        · rw [decrypt_noncanonical key idb data (by omega) (by omega) hh (by omega)] at h; cases h
      · rw [decrypt_bad_prefix key idb data (by omega) (by omega) hh] at h; cases h
  · rintro ⟨h1, h2, hh, hx, hy, c1, hc1, hon, hz, hm, hx'⟩
    have hfb := from_bytes_ok (data.take 65) (by rw [List.length_take]; omega)
    rw [hfb] at hc1
    cases hc1
    rw [decrypt_eq key idb data h1 h2 hh ⟨hx, hy⟩]
    refine (ite3_ok_iff _ _ _ _ _ _ _ _).2 ⟨?_, ?_, ?_, hx'⟩
    · rw [hon]; simp
    · simp only [decK]; rw [hz]; simp
    · simp only [decK]; exact fun hne => hne hm

theorem decrypt_total (key : Sm9EncKey) (idb data : List UInt8) : key.decrypt idb data ≠ .panic := by
  by_cases hw : data.length < 98 ∨ 352 < data.length
  · rw [decrypt_bad_length key idb data hw]; intro h; cases h
  · by_cases hh : data.head? = some 0x04
    · by_cases hcan : beNat ((data.drop 1).take 32) < Spec.SM9.p ∧ beNat ((data.drop 33).take 32) < Spec.SM9.p
      · rw [decrypt_eq key idb data (by omega) (by omega) hh hcan]
        exact ite3_ne_panic _ _ _ _ _ _ _
      · rw [decrypt_noncanonical key idb data (by omega) (by omega) hh (by omega)]; intro h; cases h
    · rw [decrypt_bad_prefix key idb data (by omega) (by omega) hh]; intro h; cases h

theorem decrypt_off_curve (key : Sm9EncKey) (idb data : List UInt8) (c1 : Point)
    (hc1 : Point.from_bytes (data.take 65) = .ok c1) (hoff : c1.is_on_curve = false) :
    ∃ e, key.decrypt idb data = .err e := by
  by_cases hw : data.length < 98 ∨ 352 < data.length
  · exact ⟨_, decrypt_bad_length key idb data hw⟩
  · by_cases hh : data.head? = some 0x04
    · by_cases hcan : beNat ((data.drop 1).take 32) < Spec.SM9.p ∧ beNat ((data.drop 33).take 32) < Spec.SM9.p
      · have hfb := from_bytes_ok (data.take 65) (by rw [List.length_take]; omega)
        rw [hfb] at hc1
        cases hc1
        rw [decrypt_eq key idb data (by omega) (by omega) hh hcan]
        exact ⟨"InvalidPoint", if_pos hoff⟩
      · exact ⟨_, decrypt_noncanonical key idb data (by omega) (by omega) hh (by omega)⟩
    · exact ⟨_, decrypt_bad_prefix key idb data (by omega) (by omega) hh⟩

/-- inside the window and with prefix 04, a C1 off the curve is reported as `InvalidPoint` -/
theorem decrypt_off_curve_kind (key : Sm9EncKey) (idb data : List UInt8) (h1 : 98 ≤ data.length)
    (h2 : data.length ≤ 352) (hh : data.head? = some 0x04)
    (hoff : (fromBytesPt (data.take 65)).is_on_curve = false) :
    key.decrypt idb data = .err "InvalidPoint" := by
  by_cases hcan : beNat ((data.drop 1).take 32) < Spec.SM9.p ∧ beNat ((data.drop 33).take 32) < Spec.SM9.p
  · rw [decrypt_eq key idb data h1 h2 hh hcan]
    exact if_pos hoff
  · exact decrypt_noncanonical key idb data h1 h2 hh (by omega)


/-! ### the RNG filter and the loop of `encrypt` -/

/-- what `sm9_random_u256` accepts -/
theorem random_some (range : Nat) (cands : List (List UInt8)) (r : Nat) (rest : List (List UInt8))
    (h : sm9_random_u256 range cands = some (r, rest)) :
    r < range ∧ r ≠ 0 ∧ rest.length < cands.length := by
  induction cands with
  | nil => simp [sm9_random_u256] at h
  | cons c cs ih =>
    simp only [sm9_random_u256] at h
    split at h
    · rename_i hc
      simp only [Option.some.injEq, Prod.mk.injEq] at h
      obtain ⟨rfl, rfl⟩ := h
      refine ⟨(cmp_lt_zero _ _).1 hc.1, ?_, by simp⟩
      intro h0
      rw [h0] at hc
      exact absurd hc.2 (by decide)
    · have := ih h
      simp only [List.length_cons]
      omega

/-- the accepted state of the `loop` of `encrypt` -/
def EncAccept (m : Sm9EncMasterKey) (q : Point) (idb data : List UInt8) (used : List Nat) (c1 : Point) (k : List UInt8)
    (used' : List Nat) : Prop :=
  ∃ r w skipped, 1 ≤ r ∧ r < N_MINUS_ONE ∧ used' = used ++ skipped ++ [r] ∧
    q.point_mul r = .ok c1 ∧ (sm9_u256_pairing TWIST_POINT_MONT_P2 m.ppube).pow r = .ok w ∧
    k = kdf (c1.to_bytes_be.drop 1 ++ w.to_bytes_be ++ idb) 287 ∧
    (data ≠ [] → all_zero (k.take data.length) = false)

theorem encLoop_ok (m : Sm9EncMasterKey) (q : Point) (idb data : List UInt8) (fuel : Nat) :
    ∀ (cands : List (List UInt8)) (used : List Nat) (c1 : Point) (k : List UInt8) (used' : List Nat)
      (rest : List (List UInt8)),
      encLoop m q idb data fuel cands used = .ok ⟨(c1, k), used', rest⟩ →
      EncAccept m q idb data used c1 k used' ∧ rest.length < cands.length := by
  induction fuel with
  | zero => intro cands used c1 k used' rest h; simp [encLoop] at h
  | succ fuel ih =>
    intro cands used c1 k used' rest h
    simp only [encLoop] at h
    generalize hr : sm9_random_u256 N_MINUS_ONE cands = rr at h
    cases rr with
    | none => simp only [reduceCtorEq] at h
    | some p =>
      obtain ⟨r, rest'⟩ := p
      obtain ⟨hr1, hr2, hr3⟩ := random_some _ _ _ _ hr
      simp only [] at h
      generalize hq : q.point_mul r = pm at h
      cases pm with
      | err e => simp only [bind_err, reduceCtorEq] at h
      | panic => simp only [bind_panic, reduceCtorEq] at h
      | ok c1' =>
        generalize hg : (sm9_u256_pairing TWIST_POINT_MONT_P2 m.ppube).pow r = pw at h
        cases pw with
        | err e => simp only [bind_ok, bind_err, reduceCtorEq] at h
        | panic => simp only [bind_ok, bind_panic, reduceCtorEq] at h
        | ok w =>
          have e287 : 255 + 32 = 287 := rfl
          simp only [bind_ok, e287] at h
          generalize hk : kdf (List.drop 1 c1'.to_bytes_be ++ w.to_bytes_be ++ idb) 287 = k' at h
          by_cases he : data.isEmpty = true
          · rw [if_pos he] at h
            simp only [Outcome.ok.injEq, Rand.mk.injEq, Prod.mk.injEq] at h
            obtain ⟨⟨rfl, rfl⟩, rfl, rfl⟩ := h
            refine ⟨⟨r, w, [], by omega, hr1, by simp, hq, hg, hk.symm, ?_⟩, hr3⟩
            intro hne; simp [List.isEmpty_iff] at he; exact absurd he hne
          · rw [if_neg he] at h
            by_cases hl : data.length > k'.length
            · rw [if_pos hl] at h; cases h
            · rw [if_neg hl] at h
              by_cases hz : (!all_zero (List.take data.length k')) = true
              · rw [if_pos hz] at h
                simp only [Outcome.ok.injEq, Rand.mk.injEq, Prod.mk.injEq] at h
                obtain ⟨⟨rfl, rfl⟩, rfl, rfl⟩ := h
                refine ⟨⟨r, w, [], by omega, hr1, by simp, hq, hg, hk.symm, ?_⟩, hr3⟩
                intro _; simpa using hz
              · rw [if_neg hz] at h
                obtain ⟨⟨r2, w2, sk, h1, h2, h3, h4, h5, h6, h7⟩, h8⟩ := ih _ _ _ _ _ _ h
                refine ⟨⟨r2, w2, r :: sk, h1, h2, ?_, h4, h5, h6, h7⟩, by omega⟩
                rw [h3]; simp

theorem encLoop_no_panic (m : Sm9EncMasterKey) (q : Point) (idb data : List UInt8)
    (hq : ∀ r, 1 ≤ r → r < N_MINUS_ONE → q.point_mul r ≠ .panic) (hlen : data.length ≤ 287) (fuel : Nat) :
    ∀ (cands : List (List UInt8)) (used : List Nat), encLoop m q idb data fuel cands used ≠ .panic := by
  induction fuel with
  | zero => intro cands used h; simp [encLoop] at h
  | succ fuel ih =>
    intro cands used h
    simp only [encLoop] at h
    generalize hr : sm9_random_u256 N_MINUS_ONE cands = rr at h
    cases rr with
    | none => simp only [reduceCtorEq] at h
    | some p =>
      obtain ⟨r, rest'⟩ := p
      obtain ⟨hr1, hr2, hr3⟩ := random_some _ _ _ _ hr
      simp only [] at h
      have hq' := hq r (by omega) hr1
      generalize q.point_mul r = pm at h hq'
      cases pm with
      | err e => simp only [bind_err, reduceCtorEq] at h
      | panic => exact hq' rfl
      | ok c1' =>
        rw [pow_ok _ _ (by omega)] at h
        have e287 : 255 + 32 = 287 := rfl
        simp only [bind_ok, e287] at h
        have hkl := kdf_length (List.drop 1 c1'.to_bytes_be ++
          ((sm9_u256_pairing TWIST_POINT_MONT_P2 m.ppube).pow_loop r).to_bytes_be ++ idb) 287 (by omega) (by omega)
        generalize kdf (List.drop 1 c1'.to_bytes_be ++
          ((sm9_u256_pairing TWIST_POINT_MONT_P2 m.ppube).pow_loop r).to_bytes_be ++ idb) 287 = k' at h hkl
        by_cases he : data.isEmpty = true
        · rw [if_pos he] at h; cases h
        · rw [if_neg he, if_neg (by omega)] at h
          by_cases hz : (!all_zero (List.take data.length k')) = true
          · rw [if_pos hz] at h; cases h
          · rw [if_neg hz] at h
            exact ih _ _ h

/-- the part of `encrypt` after the loop, over atoms -/
theorem enc_tail {β : Type} (k data : List UInt8) (hk : k.length = 287) (F : List UInt8 → List UInt8 → β) :
    ((Impl.SM9.xor (k.take data.length) data data.length).bind fun c2 =>
      (sm9_mac (k.drop data.length) c2).map fun c3 => F c3 c2) =
    if data.length ≤ 255 then
      .ok (F (sm3 (List.zipWith (· ^^^ ·) data (k.take data.length) ++ (k.drop data.length).take 32))
        (List.zipWith (· ^^^ ·) data (k.take data.length)))
    else .panic := by
  have hcomm : List.zipWith (· ^^^ ·) (k.take data.length) data = List.zipWith (· ^^^ ·) data (k.take data.length) :=
    List.zipWith_comm_of_comm (fun x y => UInt8.xor_comm x y)
  by_cases h287 : data.length ≤ 287
  · have hl : (k.take data.length).length = data.length := by rw [List.length_take]; omega
    rw [xor_ok _ _ _ (by omega) (by omega), bind_ok, List.take_of_length_le (by omega),
      List.take_of_length_le (Nat.le_refl _), hcomm]
    by_cases h255 : data.length ≤ 255
    · rw [if_pos h255, mac_refines _ _ (by rw [List.length_drop]; omega), map_ok]
      simp only [Spec.SM9.mac, Spec.SM9.hash, ← sm3_eq]
    · rw [if_neg h255]
      have : sm9_mac (k.drop data.length) (List.zipWith (· ^^^ ·) data (k.take data.length)) = .panic :=
        (mac_panic_iff _ _).2 (by rw [List.length_drop]; omega)
      rw [this, map_panic]
  · rw [if_neg (by omega)]
    have : Impl.SM9.xor (k.take data.length) data data.length = .panic := by
      simp only [Impl.SM9.xor]; rw [if_pos]; left; rw [List.length_take]; omega
    rw [this, bind_panic]

theorem encAccept_length {m : Sm9EncMasterKey} {q : Point} {idb data : List UInt8} {used : List Nat} {c1 : Point}
    {k : List UInt8} {used' : List Nat} (h : EncAccept m q idb data used c1 k used') : k.length = 287 := by
  obtain ⟨r, w, sk, _, _, _, _, _, hk, _⟩ := h
  rw [hk]; exact kdf_length _ _ (by omega) (by omega)

/-- shape of a successful `encrypt` -/
theorem encrypt_shape (m : Sm9EncMasterKey) (idb data : List UInt8) (cands : List (List UInt8))
    (ct : List UInt8) (used : List Nat) (rest : List (List UInt8))
    (h : m.encrypt idb data cands = .ok ⟨ct, used, rest⟩) :
    data.length ≤ 255 ∧
    ∃ t q0 c1 k, sm9_u256_hash1 idb HID_ENC = .ok t ∧ POINT_MONT_P1.point_mul t = .ok q0 ∧
      EncAccept m (q0.point_add m.ppube) idb data [] c1 k used ∧ rest.length < cands.length ∧
      ct = c1.to_bytes_be
        ++ sm3 (List.zipWith (· ^^^ ·) data (k.take data.length) ++ (k.drop data.length).take 32)
        ++ List.zipWith (· ^^^ ·) data (k.take data.length) := by
  unfold Sm9EncMasterKey.encrypt at h
  obtain ⟨t, ht, _⟩ := hash1_ok idb HID_ENC
  rw [ht, bind_ok] at h
  generalize hq : POINT_MONT_P1.point_mul t = pm at h
  cases pm with
  | err e => simp only [bind_err, reduceCtorEq] at h
  | panic => simp only [bind_panic, reduceCtorEq] at h
  | ok q0 =>
    simp only [bind_ok] at h
    generalize hl : encLoop m (q0.point_add m.ppube) idb data (cands.length + 1) cands [] = lr at h
    cases lr with
    | err e => simp only [bind_err, reduceCtorEq] at h
    | panic => simp only [bind_panic, reduceCtorEq] at h
    | ok res =>
      obtain ⟨⟨c1, k⟩, used', rest'⟩ := res
      obtain ⟨hacc, hrest⟩ := encLoop_ok _ _ _ _ _ _ _ _ _ _ _ hl
      have hkl := encAccept_length hacc
      simp only [bind_ok] at h
      rw [enc_tail k data hkl (fun c3 c2 => (⟨c1.to_bytes_be ++ c3 ++ c2, used', rest'⟩ : Rand (List UInt8)))] at h
      by_cases h255 : data.length ≤ 255
      · rw [if_pos h255] at h
        simp only [Outcome.ok.injEq, Rand.mk.injEq] at h
        obtain ⟨rfl, rfl, rfl⟩ := h
        exact ⟨h255, t, q0, c1, k, ht, hq, hacc, hrest, rfl⟩
      · rw [if_neg h255] at h; cases h

theorem encrypt_no_panic (m : Sm9EncMasterKey) (idb data : List UInt8) (cands : List (List UInt8))
    (hpm : ∀ (P : Point) (k : Nat), k < 2 ^ 256 → P.point_mul k ≠ .panic) (hlen : data.length ≤ 255) :
    m.encrypt idb data cands ≠ .panic := by
  intro h
  unfold Sm9EncMasterKey.encrypt at h
  obtain ⟨t, ht, htlt⟩ := hash1_ok idb HID_ENC
  rw [ht, bind_ok] at h
  have hq' := hpm POINT_MONT_P1 t htlt
  generalize POINT_MONT_P1.point_mul t = pm at h hq'
  cases pm with
  | err e => simp only [bind_err, reduceCtorEq] at h
  | panic => exact hq' rfl
  | ok q0 =>
    simp only [bind_ok] at h
    have hnp := encLoop_no_panic m (q0.point_add m.ppube) idb data
      (fun r _ hr => hpm _ r (by have : N_MINUS_ONE < 2 ^ 256 := by decide
                                 omega)) (by omega) (cands.length + 1) cands []
    generalize hl : encLoop m (q0.point_add m.ppube) idb data (cands.length + 1) cands [] = lr at h hnp
    cases lr with
    | err e => simp only [bind_err, reduceCtorEq] at h
    | panic => exact hnp rfl
    | ok res =>
      obtain ⟨⟨c1, k⟩, used', rest'⟩ := res
      obtain ⟨hacc, hrest⟩ := encLoop_ok _ _ _ _ _ _ _ _ _ _ _ hl
      have hkl := encAccept_length hacc
      simp only [bind_ok] at h
      rw [enc_tail k data hkl (fun c3 c2 => (⟨c1.to_bytes_be ++ c3 ++ c2, used', rest'⟩ : Rand (List UInt8))),
        if_pos hlen] at h
      cases h

theorem natBE_length (len n : Nat) : (natBE len n).length = len := by simp [natBE]

theorem point_bytes_length (p : Point) : p.to_bytes_be.length = 65 := by
  simp only [Point.to_bytes_be, fp_to_bytes_be, List.length_cons, List.length_append, natBE_length]

/-- shape of a successful `encrypt`, every component explicit -/
theorem encrypt_shape_full (m : Sm9EncMasterKey) (idb data : List UInt8) (cands : List (List UInt8))
    (ct : List UInt8) (used : List Nat) (rest : List (List UInt8))
    (h : m.encrypt idb data cands = .ok ⟨ct, used, rest⟩) :
    data.length ≤ 255 ∧ rest.length < cands.length ∧
    ∃ t q0 r c1 w skipped,
      sm9_u256_hash1 idb HID_ENC = .ok t ∧ POINT_MONT_P1.point_mul t = .ok q0 ∧
      1 ≤ r ∧ r < N_MINUS_ONE ∧ used = skipped ++ [r] ∧
      (q0.point_add m.ppube).point_mul r = .ok c1 ∧
      (sm9_u256_pairing TWIST_POINT_MONT_P2 m.ppube).pow r = .ok w ∧
      let k := kdf (c1.to_bytes_be.drop 1 ++ w.to_bytes_be ++ idb) 287
      let c2 := List.zipWith (· ^^^ ·) data (k.take data.length)
      (data ≠ [] → all_zero (k.take data.length) = false) ∧
      ct = c1.to_bytes_be ++ sm3 (c2 ++ (k.drop data.length).take 32) ++ c2 ∧
      c2.length = data.length ∧ ct.length = 65 + 32 + data.length := by
  obtain ⟨h255, t, q0, c1, k, ht, hq, hacc, hrest, hct⟩ := encrypt_shape m idb data cands ct used rest h
  have hkl := encAccept_length hacc
  obtain ⟨r, w, sk, hr1, hr2, hu, hpm, hpw, hk, hz⟩ := hacc
  refine ⟨h255, hrest, t, q0, r, c1, w, sk, ht, hq, hr1, hr2, by simpa using hu, hpm, hpw, ?_⟩
  subst hk
  have hc2 : (List.zipWith (· ^^^ ·) data
      ((kdf (c1.to_bytes_be.drop 1 ++ w.to_bytes_be ++ idb) 287).take data.length)).length = data.length := by
    rw [List.length_zipWith, List.length_take, hkl]; omega
  refine ⟨hz, hct, hc2, ?_⟩
  rw [hct, List.length_append, List.length_append, point_bytes_length, sm3_length, hc2]

/-- the same ciphertext in the standard's terms: K = KDF(C1 ‖ w ‖ ID, |M| + 32), C3 = MAC(K2, C2) -/
theorem enc_spec_form (z data : List UInt8) (h : data.length ≤ 255) :
    let k := kdf z 287
    let K := Spec.SM9.kdf z (data.length + 32)
    k.take data.length = K.take data.length ∧
    sm3 (List.zipWith (· ^^^ ·) data (k.take data.length) ++ (k.drop data.length).take 32)
      = Spec.SM9.mac (K.drop data.length) (Spec.SM9.xorBytes data (K.take data.length)) := by
  obtain ⟨h1, h2⟩ := kdf_287_split z data.length h
  refine ⟨h1, ?_⟩
  simp only [Spec.SM9.mac, Spec.SM9.hash, Spec.SM9.xorBytes, sm3_eq, h1, h2]

/-! ### signature verification -/

theorem verify_h_out_of_range (m : Sm9SignMasterKey) (id data : List UInt8) (h : Nat) (s : Point)
    (hh : h = 0 ∨ N ≤ h) : m.verify_sign id data h s = .err "InvalidDigest" := by
  unfold Sm9SignMasterKey.verify_sign
  rw [if_pos]
  rcases hh with rfl | hh
  · left; rfl
  · right; apply (cmp_gt_zero _ _).2; rw [n_minus_one_eq]; unfold N at *; omega

/-- the values `verify_sign` computes for an in-range `h` -/
def verifyH2 (m : Sm9SignMasterKey) (data : List UInt8) (h : Nat) (s : Point) (h1 : Nat) : Outcome Nat :=
  sm9_u256_hash2 data ((sm9_u256_pairing (twist_point_add_full m.ppubs (TwistPoint.g_mul h1)) s).fp_mul
    ((sm9_u256_pairing m.ppubs POINT_MONT_P1).pow_loop h)).to_bytes_be

/-- closed form of `verify_sign` for 1 ≤ h ≤ N − 1 -/
theorem verify_eq (m : Sm9SignMasterKey) (id data : List UInt8) (h : Nat) (s : Point) (h1 h2 : Nat)
    (hlo : 1 ≤ h) (hhi : h ≤ N - 1) (hh1 : sm9_u256_hash1 id HID_SIGN = .ok h1)
    (hh2 : verifyH2 m data h s h1 = .ok h2) :
    m.verify_sign id data h s = if h2 ≠ h then .err "InvalidDigest" else .ok () := by
  unfold Sm9SignMasterKey.verify_sign
  have hr : ¬ (fp_is_zero h = true ∨ u256_cmp h N_MINUS_ONE > 0) := by
    intro hc
    rcases hc with hc | hc
    · have := (fp_is_zero_iff h).1 hc; omega
    · have := (cmp_gt_zero _ _).1 hc; rw [n_minus_one_eq] at this; omega
  rw [if_neg hr]
  simp only []
  rw [pow_ok _ _ (by rw [n_minus_one_eq]; exact hhi), bind_ok, hh1, bind_ok]
  unfold verifyH2 at hh2
  rw [hh2, bind_ok]
  by_cases he : h2 ≠ h
  · rw [if_pos he, if_pos ((cmp_ne_zero _ _).2 he)]
  · rw [if_neg he, if_neg (fun hc => he ((cmp_ne_zero _ _).1 hc))]

theorem verify_ok_iff (m : Sm9SignMasterKey) (id data : List UInt8) (h : Nat) (s : Point) :
    m.verify_sign id data h s = .ok () ↔
      1 ≤ h ∧ h ≤ N - 1 ∧ ∃ t h1 h2, (sm9_u256_pairing m.ppubs POINT_MONT_P1).pow h = .ok t ∧
        sm9_u256_hash1 id HID_SIGN = .ok h1 ∧
        sm9_u256_hash2 data ((sm9_u256_pairing (twist_point_add_full m.ppubs (TwistPoint.g_mul h1)) s).fp_mul t).to_bytes_be
          = .ok h2 ∧ h2 = h := by
  by_cases hr : h = 0 ∨ N ≤ h
  · rw [verify_h_out_of_range m id data h s hr]
    constructor
    · intro hc; cases hc
    · rintro ⟨h1, h2, _⟩; unfold N at *; omega
  · have hlo : 1 ≤ h := by omega
    have hhi : h ≤ N - 1 := by unfold N at *; omega
    obtain ⟨h1, hh1, _⟩ := hash1_ok id HID_SIGN
    obtain ⟨h2, hh2, _⟩ := hash2_ok data ((sm9_u256_pairing (twist_point_add_full m.ppubs (TwistPoint.g_mul h1)) s).fp_mul
      ((sm9_u256_pairing m.ppubs POINT_MONT_P1).pow_loop h)).to_bytes_be
    have hp := pow_ok (sm9_u256_pairing m.ppubs POINT_MONT_P1) h (by rw [n_minus_one_eq]; exact hhi)
    rw [verify_eq m id data h s h1 h2 hlo hhi hh1 hh2]
    constructor
    · intro hc
      by_cases he : h2 ≠ h
      · rw [if_pos he] at hc; cases hc
      · exact ⟨hlo, hhi, _, h1, h2, hp, hh1, hh2, Decidable.of_not_not he⟩
    · rintro ⟨_, _, t, h1', h2', hp', hh1', hh2', he⟩
      rw [hp] at hp'; cases hp'
      rw [hh1] at hh1'; cases hh1'
      rw [hh2] at hh2'; cases hh2'
      rw [if_neg (fun hc => hc he)]

theorem verify_total (m : Sm9SignMasterKey) (id data : List UInt8) (h : Nat) (s : Point) :
    m.verify_sign id data h s ≠ .panic := by
  by_cases hr : h = 0 ∨ N ≤ h
  · rw [verify_h_out_of_range m id data h s hr]; intro hc; cases hc
  · have hlo : 1 ≤ h := by omega
    have hhi : h ≤ N - 1 := by unfold N at *; omega
    obtain ⟨h1, hh1, _⟩ := hash1_ok id HID_SIGN
    obtain ⟨h2, hh2, _⟩ := hash2_ok data ((sm9_u256_pairing (twist_point_add_full m.ppubs (TwistPoint.g_mul h1)) s).fp_mul
      ((sm9_u256_pairing m.ppubs POINT_MONT_P1).pow_loop h)).to_bytes_be
    rw [verify_eq m id data h s h1 h2 hlo hhi hh1 hh2]
    by_cases he : h2 ≠ h
    · rw [if_pos he]; intro hc; cases hc
    · rw [if_neg he]; intro hc; cases hc

/-! ### signing -/

/-- the accepted state of the `loop` of `sign` -/
def SignAccept (g : Fp12) (data : List UInt8) (used : List Nat) (h l : Nat) (used' : List Nat) : Prop :=
  ∃ r w skipped, 1 ≤ r ∧ r < N_MINUS_ONE ∧ used' = used ++ skipped ++ [r] ∧
    g.pow r = .ok w ∧ sm9_u256_hash2 data w.to_bytes_be = .ok h ∧ l = mod_n_sub r h ∧ l ≠ 0 ∧ l < 2 ^ 256

theorem signLoop_ok (g : Fp12) (data : List UInt8) (fuel : Nat) :
    ∀ (cands : List (List UInt8)) (used : List Nat) (h l : Nat) (used' : List Nat) (rest : List (List UInt8)),
      signLoop g data fuel cands used = .ok ⟨(h, l), used', rest⟩ →
      SignAccept g data used h l used' ∧ rest.length < cands.length := by
  induction fuel with
  | zero => intro cands used h l used' rest hh; simp [signLoop] at hh
  | succ fuel ih =>
    intro cands used h l used' rest hh
    simp only [signLoop] at hh
    generalize hr : sm9_random_u256 N_MINUS_ONE cands = rr at hh
    cases rr with
    | none => simp only [reduceCtorEq] at hh
    | some p =>
      obtain ⟨r, rest'⟩ := p
      obtain ⟨hr1, hr2, hr3⟩ := random_some _ _ _ _ hr
      simp only [] at hh
      have hp := pow_ok g r (by omega)
      rw [hp, bind_ok] at hh
      obtain ⟨h', hh2, _⟩ := hash2_ok data (g.pow_loop r).to_bytes_be
      rw [hh2, bind_ok] at hh
      by_cases hz : (!fp_is_zero (mod_n_sub r h')) = true
      · rw [if_pos hz] at hh
        simp only [Outcome.ok.injEq, Rand.mk.injEq, Prod.mk.injEq] at hh
        obtain ⟨⟨rfl, rfl⟩, rfl, rfl⟩ := hh
        have hr256 : r < 2 ^ 256 := by
          have : N_MINUS_ONE < 2 ^ 256 := by decide
          omega
        refine ⟨⟨r, _, [], by omega, hr1, by simp, hp, hh2, rfl, ?_, mod_n_sub_lt _ _ hr256⟩, hr3⟩
        intro h0
        rw [h0] at hz
        exact absurd hz (by decide)
      · rw [if_neg hz] at hh
        obtain ⟨⟨r2, w2, sk, h1, h2, h3, h4, h5, h6, h7⟩, h8⟩ := ih _ _ _ _ _ _ hh
        refine ⟨⟨r2, w2, r :: sk, h1, h2, ?_, h4, h5, h6, h7⟩, by omega⟩
        rw [h3]; simp

theorem signLoop_no_panic (g : Fp12) (data : List UInt8) (fuel : Nat) :
    ∀ (cands : List (List UInt8)) (used : List Nat), signLoop g data fuel cands used ≠ .panic := by
  induction fuel with
  | zero => intro cands used hh; simp [signLoop] at hh
  | succ fuel ih =>
    intro cands used hh
    simp only [signLoop] at hh
    generalize hr : sm9_random_u256 N_MINUS_ONE cands = rr at hh
    cases rr with
    | none => simp only [reduceCtorEq] at hh
    | some p =>
      obtain ⟨r, rest'⟩ := p
      obtain ⟨hr1, hr2, hr3⟩ := random_some _ _ _ _ hr
      simp only [] at hh
      rw [pow_ok g r (by omega), bind_ok] at hh
      obtain ⟨h', hh2, _⟩ := hash2_ok data (g.pow_loop r).to_bytes_be
      rw [hh2, bind_ok] at hh
      by_cases hz : (!fp_is_zero (mod_n_sub r h')) = true
      · rw [if_pos hz] at hh; cases hh
      · rw [if_neg hz] at hh; exact ih _ _ hh

/-- shape of a successful `sign` -/
theorem sign_shape (key : Sm9SignKey) (data : List UInt8) (cands : List (List UInt8)) (h : Nat) (s : Point)
    (used : List Nat) (rest : List (List UInt8))
    (hs : key.sign data cands = .ok ⟨(h, s), used, rest⟩) :
    ∃ l, SignAccept (sm9_u256_pairing key.ppubs POINT_MONT_P1) data [] h l used ∧ key.ds.point_mul l = .ok s ∧
      rest.length < cands.length := by
  unfold Sm9SignKey.sign at hs
  simp only [] at hs
  generalize hl : signLoop (sm9_u256_pairing key.ppubs POINT_MONT_P1) data (cands.length + 1) cands [] = lr at hs
  cases lr with
  | err e => simp only [bind_err, reduceCtorEq] at hs
  | panic => simp only [bind_panic, reduceCtorEq] at hs
  | ok res =>
    obtain ⟨⟨h', l⟩, used', rest'⟩ := res
    obtain ⟨hacc, hrest⟩ := signLoop_ok _ _ _ _ _ _ _ _ _ hl
    simp only [bind_ok] at hs
    generalize hq : key.ds.point_mul l = pm at hs
    cases pm with
    | err e => simp only [map_err, reduceCtorEq] at hs
    | panic => simp only [map_panic, reduceCtorEq] at hs
    | ok s' =>
      simp only [map_ok, Outcome.ok.injEq, Rand.mk.injEq, Prod.mk.injEq] at hs
      obtain ⟨⟨rfl, rfl⟩, rfl, rfl⟩ := hs
      exact ⟨l, hacc, hq, hrest⟩

theorem sign_no_panic (key : Sm9SignKey) (data : List UInt8) (cands : List (List UInt8))
    (hds : ∀ l, l < 2 ^ 256 → key.ds.point_mul l ≠ .panic) : key.sign data cands ≠ .panic := by
  intro hs
  unfold Sm9SignKey.sign at hs
  simp only [] at hs
  have hnp := signLoop_no_panic (sm9_u256_pairing key.ppubs POINT_MONT_P1) data (cands.length + 1) cands []
  generalize hl : signLoop (sm9_u256_pairing key.ppubs POINT_MONT_P1) data (cands.length + 1) cands [] = lr at hs hnp
  cases lr with
  | err e => simp only [bind_err, reduceCtorEq] at hs
  | panic => exact hnp rfl
  | ok res =>
    obtain ⟨⟨h', l⟩, used', rest'⟩ := res
    obtain ⟨⟨r, w, sk, _, _, _, _, _, _, _, hl256⟩, hrest⟩ := signLoop_ok _ _ _ _ _ _ _ _ _ hl
    simp only [bind_ok] at hs
    have hq := hds l hl256
    generalize key.ds.point_mul l = pm at hs hq
    cases pm with
    | err e => simp only [map_err, reduceCtorEq] at hs
    | panic => exact hq rfl
    | ok s' => simp only [map_ok, reduceCtorEq] at hs

/-! ### further panic conditions (C20b) -/

theorem xor_panic_iff (k data : List UInt8) (len : Nat) :
    Impl.SM9.xor k data len = .panic ↔ k.length < len ∨ data.length < len := by
  unfold Impl.SM9.xor
  by_cases h : len > k.length ∨ len > data.length
  · rw [if_pos h]; exact ⟨fun _ => h, fun _ => rfl⟩
  · rw [if_neg h]; exact ⟨fun hc => (by cases hc), fun hc => absurd hc h⟩

theorem u256_from_be_bytes_panic_iff (b : List UInt8) : u256_from_be_bytes b = .panic ↔ b.length < 32 := by
  unfold u256_from_be_bytes
  by_cases h : b.length < 32
  · rw [if_pos h]; exact ⟨fun _ => h, fun _ => rfl⟩
  · rw [if_neg h]; exact ⟨fun hc => (by cases hc), fun hc => absurd hc h⟩

theorem sk_is_zero_panic_iff (sk : List UInt8) (klen : Nat) : sk_is_zero sk klen = .panic ↔ sk.length < klen := by
  unfold sk_is_zero
  by_cases h : klen > sk.length
  · rw [if_pos h]; exact ⟨fun _ => h, fun _ => rfl⟩
  · rw [if_neg h]; exact ⟨fun hc => (by cases hc), fun hc => absurd hc h⟩

/-! ### key exchange -/

/-- the final test of steps 1b / 2a over atoms: `is_zero(&sk, klen)` then accept or not -/
theorem sk_tail {β : Type} (sk : List UInt8) (klen : Nat) (a b : Outcome β) :
    ((sk_is_zero sk klen).bind fun z => if (!z) = true then a else b) =
      if sk.length < klen then .panic else if all_zero (sk.take klen) = false then a else b := by
  unfold sk_is_zero
  by_cases h : klen > sk.length
  · rw [if_pos h, bind_panic, if_pos h]
  · rw [if_neg h, bind_ok, if_neg h]
    cases all_zero (sk.take klen) <;> rfl

/-- the accepted state of the `loop` of `exch_step_1b` -/
def Exch1bAccept (m : Sm9EncMasterKey) (ida idb : List UInt8) (key : Sm9EncKey) (ra q : Point) (klen : Nat)
    (used : List Nat) (rbp : Point) (sk : List UInt8) (used' : List Nat) : Prop :=
  ra.is_on_curve = true ∧
  ∃ rb g2 g3 skipped, 1 ≤ rb ∧ rb < N_MINUS_ONE ∧ used' = used ++ skipped ++ [rb] ∧
    q.point_mul rb = .ok rbp ∧
    (sm9_u256_pairing TWIST_POINT_MONT_P2 m.ppube).pow rb = .ok g2 ∧
    (sm9_u256_pairing key.de ra).pow rb = .ok g3 ∧
    sk = kdf (exch_kdf_input ida idb ra rbp (sm9_u256_pairing key.de ra) g2 g3) klen ∧
    klen ≤ sk.length ∧ all_zero (sk.take klen) = false

theorem exch1bLoop_ok (m : Sm9EncMasterKey) (ida idb : List UInt8) (key : Sm9EncKey) (ra q : Point) (klen : Nat)
    (fuel : Nat) :
    ∀ (cands : List (List UInt8)) (used : List Nat) (rbp : Point) (sk : List UInt8) (used' : List Nat)
      (rest : List (List UInt8)),
      exch1bLoop m ida idb key ra q klen fuel cands used = .ok ⟨(rbp, sk), used', rest⟩ →
      Exch1bAccept m ida idb key ra q klen used rbp sk used' ∧
        (used'.length - used.length) + rest.length ≤ cands.length := by
  induction fuel with
  | zero => intro cands used rbp sk used' rest h; simp [exch1bLoop] at h
  | succ fuel ih =>
    intro cands used rbp sk used' rest h
    simp only [exch1bLoop] at h
    generalize hr : sm9_random_u256 N_MINUS_ONE cands = rr at h
    cases rr with
    | none => simp only [reduceCtorEq] at h
    | some p =>
      obtain ⟨rb, rest'⟩ := p
      obtain ⟨hr1, hr2, hr3⟩ := random_some _ _ _ _ hr
      simp only [] at h
      generalize hq : q.point_mul rb = pm at h
      cases pm with
      | err e => simp only [bind_err, reduceCtorEq] at h
      | panic => simp only [bind_panic, reduceCtorEq] at h
      | ok r =>
        rw [bind_ok] at h
        by_cases hon : (!ra.is_on_curve) = true
        · rw [if_pos hon] at h; cases h
        · rw [if_neg hon] at h
          have hon' : ra.is_on_curve = true := by simpa using hon
          have hp2 := pow_ok (sm9_u256_pairing TWIST_POINT_MONT_P2 m.ppube) rb (by omega)
          have hp3 := pow_ok (sm9_u256_pairing key.de ra) rb (by omega)
          rw [hp2, bind_ok, hp3, bind_ok, sk_tail] at h
          generalize hk : kdf (exch_kdf_input ida idb ra r (sm9_u256_pairing key.de ra)
            ((sm9_u256_pairing TWIST_POINT_MONT_P2 m.ppube).pow_loop rb)
            ((sm9_u256_pairing key.de ra).pow_loop rb)) klen = sk' at h
          by_cases hlen : sk'.length < klen
          · rw [if_pos hlen] at h; cases h
          · rw [if_neg hlen] at h
            by_cases hz : all_zero (sk'.take klen) = false
            · rw [if_pos hz] at h
              simp only [Outcome.ok.injEq, Rand.mk.injEq, Prod.mk.injEq] at h
              obtain ⟨⟨rfl, rfl⟩, rfl, rfl⟩ := h
              refine ⟨⟨hon', rb, _, _, [], by omega, hr1, by simp, hq, hp2, hp3, hk.symm, by omega, hz⟩, ?_⟩
              simp only [List.length_append, List.length_cons, List.length_nil]; omega
            · rw [if_neg hz] at h
              obtain ⟨⟨h0, r2, g2, g3, sk2, h1, h2, h3, h4, h5, h6, h7, h8, h9⟩, h10⟩ := ih _ _ _ _ _ _ h
              refine ⟨⟨h0, r2, g2, g3, rb :: sk2, h1, h2, ?_, h4, h5, h6, h7, h8, h9⟩, ?_⟩
              · rw [h3]; simp
              · simp only [List.length_append, List.length_cons, List.length_nil] at h10 ⊢; omega

/-- the result of the loop does not depend on the fuel once it exceeds the number of candidates: the
`fuel = 0` exit is never taken from `exch_step_1b` -/
theorem exch1bLoop_fuel (m : Sm9EncMasterKey) (ida idb : List UInt8) (key : Sm9EncKey) (ra q : Point) (klen : Nat)
    (fuel1 : Nat) :
    ∀ (fuel2 : Nat) (cands : List (List UInt8)) (used : List Nat), cands.length < fuel1 → cands.length < fuel2 →
      exch1bLoop m ida idb key ra q klen fuel1 cands used = exch1bLoop m ida idb key ra q klen fuel2 cands used := by
  induction fuel1 with
  | zero => intro fuel2 cands used h1 _; omega
  | succ fuel1 ih =>
    intro fuel2 cands used h1 h2
    cases fuel2 with
    | zero => omega
    | succ fuel2 =>
      simp only [exch1bLoop]
      generalize hr : sm9_random_u256 N_MINUS_ONE cands = rr
      cases rr with
      | none => rfl
      | some p =>
        obtain ⟨rb, rest'⟩ := p
        obtain ⟨_, _, hr3⟩ := random_some _ _ _ _ hr
        simp only []
        rw [ih fuel2 rest' (used ++ [rb]) (by omega) (by omega)]

theorem n_minus_one_lt : N_MINUS_ONE < 2 ^ 256 := by decide

theorem exch1bLoop_off_curve (m : Sm9EncMasterKey) (ida idb : List UInt8) (key : Sm9EncKey) (ra q : Point) (klen : Nat)
    (hq : ∀ r, 1 ≤ r → r < N_MINUS_ONE → ∃ R, q.point_mul r = .ok R) (hoff : ra.is_on_curve = false)
    (fuel : Nat) (cands : List (List UInt8)) (used : List Nat) :
    exch1bLoop m ida idb key ra q klen (fuel + 1) cands used =
      match sm9_random_u256 N_MINUS_ONE cands with
      | none => .err "rng-exhausted"
      | some _ => .err "InvalidPoint" := by
  simp only [exch1bLoop]
  generalize hr : sm9_random_u256 N_MINUS_ONE cands = rr
  cases rr with
  | none => rfl
  | some p =>
    obtain ⟨rb, rest'⟩ := p
    obtain ⟨hr1, hr2, hr3⟩ := random_some _ _ _ _ hr
    simp only []
    obtain ⟨R, hR⟩ := hq rb (by omega) hr1
    rw [hR, bind_ok, hoff]
    rfl

/-- `exch_step_1b` with RA off the curve: `KdfHashError` for klen = 0 (tested first), otherwise `InvalidPoint` as soon
as the RNG delivers a usable scalar -/
theorem exch_1b_off_curve (m : Sm9EncMasterKey) (ida idb : List UInt8) (key : Sm9EncKey) (ra : Point) (klen : Nat)
    (cands : List (List UInt8))
    (hpm : ∀ (P : Point) (k : Nat), k < 2 ^ 256 → ∃ R, P.point_mul k = .ok R) (hoff : ra.is_on_curve = false) :
    exch_step_1b m ida idb key ra klen cands =
      if klen = 0 then .err "KdfHashError" else
      match sm9_random_u256 N_MINUS_ONE cands with
      | none => .err "rng-exhausted"
      | some _ => .err "InvalidPoint" := by
  unfold exch_step_1b
  obtain ⟨h, hh, hlt⟩ := hash1_ok ida HID_EXCH
  rw [hh, bind_ok]
  by_cases hk : klen = 0
  · rw [if_pos hk, if_pos hk]
  · rw [if_neg hk, if_neg hk]
    obtain ⟨q0, hq0⟩ := hpm POINT_MONT_P1 h hlt
    rw [hq0, bind_ok]
    exact exch1bLoop_off_curve m ida idb key ra _ klen
      (fun r _ hr => hpm _ r (by have := n_minus_one_lt; omega)) hoff _ _ _

/-- shape of a successful `exch_step_1b` -/
theorem exch_1b_shape (m : Sm9EncMasterKey) (ida idb : List UInt8) (key : Sm9EncKey) (ra : Point) (klen : Nat)
    (cands : List (List UInt8)) (rbp : Point) (sk : List UInt8) (used : List Nat) (rest : List (List UInt8))
    (hs : exch_step_1b m ida idb key ra klen cands = .ok ⟨(rbp, sk), used, rest⟩) :
    klen ≠ 0 ∧ ∃ h q0, sm9_u256_hash1 ida HID_EXCH = .ok h ∧ POINT_MONT_P1.point_mul h = .ok q0 ∧
      Exch1bAccept m ida idb key ra (q0.point_add m.ppube) klen [] rbp sk used ∧
      used.length + rest.length ≤ cands.length := by
  unfold exch_step_1b at hs
  obtain ⟨h, hh, hlt⟩ := hash1_ok ida HID_EXCH
  rw [hh, bind_ok] at hs
  by_cases hk : klen = 0
  · rw [if_pos hk] at hs; cases hs
  · rw [if_neg hk] at hs
    generalize hq : POINT_MONT_P1.point_mul h = pm at hs
    cases pm with
    | err e => simp only [bind_err, reduceCtorEq] at hs
    | panic => simp only [bind_panic, reduceCtorEq] at hs
    | ok q0 =>
      rw [bind_ok] at hs
      obtain ⟨hacc, hcnt⟩ := exch1bLoop_ok _ _ _ _ _ _ _ _ _ _ _ _ _ _ hs
      exact ⟨hk, h, q0, hh, hq, hacc, by simpa using hcnt⟩

theorem exch1bLoop_no_panic (m : Sm9EncMasterKey) (ida idb : List UInt8) (key : Sm9EncKey) (ra q : Point) (klen : Nat)
    (hq : ∀ r, 1 ≤ r → r < N_MINUS_ONE → q.point_mul r ≠ .panic) (hk1 : 1 ≤ klen) (hk2 : klen ≤ 32 * (2 ^ 32 - 1))
    (fuel : Nat) :
    ∀ (cands : List (List UInt8)) (used : List Nat), exch1bLoop m ida idb key ra q klen fuel cands used ≠ .panic := by
  induction fuel with
  | zero => intro cands used h; simp [exch1bLoop] at h
  | succ fuel ih =>
    intro cands used h
    simp only [exch1bLoop] at h
    generalize hr : sm9_random_u256 N_MINUS_ONE cands = rr at h
    cases rr with
    | none => simp only [reduceCtorEq] at h
    | some p =>
      obtain ⟨rb, rest'⟩ := p
      obtain ⟨hr1, hr2, hr3⟩ := random_some _ _ _ _ hr
      simp only [] at h
      have hq' := hq rb (by omega) hr1
      generalize q.point_mul rb = pm at h hq'
      cases pm with
      | err e => simp only [bind_err, reduceCtorEq] at h
      | panic => exact hq' rfl
      | ok r =>
        rw [bind_ok] at h
        by_cases hon : (!ra.is_on_curve) = true
        · rw [if_pos hon] at h; cases h
        · rw [if_neg hon, pow_ok _ _ (by omega), bind_ok, pow_ok _ _ (by omega), bind_ok, sk_tail,
            if_neg (by rw [kdf_length _ _ hk1 hk2]; omega)] at h
          by_cases hz : all_zero ((kdf (exch_kdf_input ida idb ra r (sm9_u256_pairing key.de ra)
            ((sm9_u256_pairing TWIST_POINT_MONT_P2 m.ppube).pow_loop rb)
            ((sm9_u256_pairing key.de ra).pow_loop rb)) klen).take klen) = false
          · rw [if_pos hz] at h; cases h
          · rw [if_neg hz] at h; exact ih _ _ h

theorem exch_1b_no_panic (m : Sm9EncMasterKey) (ida idb : List UInt8) (key : Sm9EncKey) (ra : Point) (klen : Nat)
    (cands : List (List UInt8))
    (hpm : ∀ (P : Point) (k : Nat), k < 2 ^ 256 → P.point_mul k ≠ .panic) (hk2 : klen ≤ 32 * (2 ^ 32 - 1)) :
    exch_step_1b m ida idb key ra klen cands ≠ .panic := by
  intro hs
  unfold exch_step_1b at hs
  obtain ⟨h, hh, hlt⟩ := hash1_ok ida HID_EXCH
  rw [hh, bind_ok] at hs
  by_cases hk : klen = 0
  · rw [if_pos hk] at hs; cases hs
  · rw [if_neg hk] at hs
    have hq' := hpm POINT_MONT_P1 h hlt
    generalize POINT_MONT_P1.point_mul h = pm at hs hq'
    cases pm with
    | err e => simp only [bind_err, reduceCtorEq] at hs
    | panic => exact hq' rfl
    | ok q0 =>
      rw [bind_ok] at hs
      exact exch1bLoop_no_panic m ida idb key ra _ klen
        (fun r _ hr => hpm _ r (by have := n_minus_one_lt; omega)) (by omega) hk2 _ _ _ hs

/-! #### step 2a: a single pass -/

/-- closed form of `exch_step_2a`: the `loop` of the Rust code runs its body exactly once -/
theorem exch_2a_eq (m : Sm9EncMasterKey) (ida idb : List UInt8) (key : Sm9EncKey) (ra_ : Nat) (ra rb : Point)
    (klen : Nat) :
    exch_step_2a m ida idb key ra_ ra rb klen =
      if rb.is_on_curve = false then .err "InvalidPoint"
      else if N_MINUS_ONE < ra_ then .panic
      else
        let sk := kdf (exch_kdf_input ida idb ra rb ((sm9_u256_pairing TWIST_POINT_MONT_P2 m.ppube).pow_loop ra_)
          (sm9_u256_pairing key.de rb) ((sm9_u256_pairing key.de rb).pow_loop ra_)) klen
        if sk.length < klen then .panic
        else if all_zero (sk.take klen) = false then .ok sk else .err "KdfHashError" := by
  unfold exch_step_2a
  cases hon : rb.is_on_curve with
  | false => rfl
  | true =>
    simp only [Bool.not_true, Bool.false_eq_true, if_false, Bool.true_eq_false]
    by_cases hra : N_MINUS_ONE < ra_
    · rw [if_pos hra, (pow_panic_iff _ _).2 hra, bind_panic]
    · rw [if_neg hra, pow_ok _ _ (by omega), bind_ok, pow_ok _ _ (by omega), bind_ok, sk_tail]

theorem sk_final_ok_iff (sk' sk : List UInt8) (klen : Nat) :
    (if sk'.length < klen then Outcome.panic
      else if all_zero (sk'.take klen) = false then Outcome.ok sk' else Outcome.err "KdfHashError") = Outcome.ok sk ↔
    sk = sk' ∧ klen ≤ sk'.length ∧ all_zero (sk'.take klen) = false := by
  by_cases hl : sk'.length < klen
  · rw [if_pos hl]
    constructor
    · intro h; cases h
    · rintro ⟨_, h, _⟩; omega
  · rw [if_neg hl]
    by_cases hz : all_zero (sk'.take klen) = false
    · rw [if_pos hz]
      constructor
      · intro h; cases h; exact ⟨rfl, by omega, hz⟩
      · rintro ⟨rfl, _, _⟩; rfl
    · rw [if_neg hz]
      constructor
      · intro h; cases h
      · rintro ⟨_, _, h⟩; exact absurd h hz

theorem exch_2a_ok_iff (m : Sm9EncMasterKey) (ida idb : List UInt8) (key : Sm9EncKey) (ra_ : Nat) (ra rb : Point)
    (klen : Nat) (sk : List UInt8) :
    exch_step_2a m ida idb key ra_ ra rb klen = .ok sk ↔
      rb.is_on_curve = true ∧ ∃ g1 g3,
        (sm9_u256_pairing TWIST_POINT_MONT_P2 m.ppube).pow ra_ = .ok g1 ∧
        (sm9_u256_pairing key.de rb).pow ra_ = .ok g3 ∧
        sk = kdf (exch_kdf_input ida idb ra rb g1 (sm9_u256_pairing key.de rb) g3) klen ∧
        klen ≤ sk.length ∧ all_zero (sk.take klen) = false := by
  rw [exch_2a_eq]
  simp only []
  by_cases hon : rb.is_on_curve = false
  · rw [if_pos hon]
    constructor
    · intro h; cases h
    · rintro ⟨h, _⟩; rw [hon] at h; cases h
  · rw [if_neg hon]
    have hon' : rb.is_on_curve = true := by simpa using hon
    by_cases hra : N_MINUS_ONE < ra_
    · rw [if_pos hra]
      constructor
      · intro h; cases h
      · rintro ⟨_, g1, _, h, _⟩
        rw [(pow_panic_iff _ _).2 hra] at h; cases h
    · rw [if_neg hra, sk_final_ok_iff]
      have hp1 := pow_ok (sm9_u256_pairing TWIST_POINT_MONT_P2 m.ppube) ra_ (by omega)
      have hp3 := pow_ok (sm9_u256_pairing key.de rb) ra_ (by omega)
      constructor
      · rintro ⟨h1, h2, h3⟩
        refine ⟨hon', _, _, hp1, hp3, h1, ?_, ?_⟩
        · rw [h1]; exact h2
        · rw [h1]; exact h3
      · rintro ⟨_, g1, g3, h1, h3, hsk, hl, hz⟩
        rw [hp1] at h1; cases h1
        rw [hp3] at h3; cases h3
        refine ⟨hsk, ?_, ?_⟩
        · rw [← hsk]; exact hl
        · rw [← hsk]; exact hz

theorem exch_2a_key_length (m : Sm9EncMasterKey) (ida idb : List UInt8) (key : Sm9EncKey) (ra_ : Nat) (ra rb : Point)
    (klen : Nat) (sk : List UInt8) (hk : 1 ≤ klen) (hs : exch_step_2a m ida idb key ra_ ra rb klen = .ok sk) :
    sk.length = klen := by
  obtain ⟨_, g1, g3, _, _, hsk, hl, _⟩ := (exch_2a_ok_iff m ida idb key ra_ ra rb klen sk).1 hs
  have := kdf_length_le (exch_kdf_input ida idb ra rb g1 (sm9_u256_pairing key.de rb) g3) klen hk
  rw [← hsk] at this
  omega

theorem exch_1b_key_length (m : Sm9EncMasterKey) (ida idb : List UInt8) (key : Sm9EncKey) (ra : Point) (klen : Nat)
    (cands : List (List UInt8)) (rbp : Point) (sk : List UInt8) (used : List Nat) (rest : List (List UInt8))
    (hk : 1 ≤ klen) (hs : exch_step_1b m ida idb key ra klen cands = .ok ⟨(rbp, sk), used, rest⟩) :
    sk.length = klen := by
  obtain ⟨_, h, q0, _, _, ⟨_, rb, g2, g3, skp, _, _, _, _, _, _, hsk, hl, _⟩, _⟩ :=
    exch_1b_shape m ida idb key ra klen cands rbp sk used rest hs
  have := kdf_length_le (exch_kdf_input ida idb ra rbp (sm9_u256_pairing key.de ra) g2 g3) klen hk
  rw [← hsk] at this
  omega

theorem exch_1b_klen_zero (m : Sm9EncMasterKey) (ida idb : List UInt8) (key : Sm9EncKey) (ra : Point)
    (cands : List (List UInt8)) : exch_step_1b m ida idb key ra 0 cands = .err "KdfHashError" := by
  unfold exch_step_1b
  obtain ⟨h, hh, _⟩ := hash1_ok ida HID_EXCH
  rw [hh, bind_ok, if_pos rfl]

theorem all_zero_nil : all_zero [] = true := rfl

theorem exch_2a_klen_zero (m : Sm9EncMasterKey) (ida idb : List UInt8) (key : Sm9EncKey) (ra_ : Nat) (ra rb : Point)
    (hon : rb.is_on_curve = true) (hra : ra_ ≤ N_MINUS_ONE) :
    exch_step_2a m ida idb key ra_ ra rb 0 = .err "KdfHashError" := by
  rw [exch_2a_eq, if_neg (by rw [hon]; decide), if_neg (by omega)]
  simp only []
  rw [if_neg (Nat.not_lt_zero _), List.take_zero, all_zero_nil]
  exact if_neg (by decide)

theorem exch_2a_no_panic (m : Sm9EncMasterKey) (ida idb : List UInt8) (key : Sm9EncKey) (ra_ : Nat) (ra rb : Point)
    (klen : Nat) (hra : ra_ ≤ N_MINUS_ONE) (hk : klen ≤ 32 * (2 ^ 32 - 1)) :
    exch_step_2a m ida idb key ra_ ra rb klen ≠ .panic := by
  rw [exch_2a_eq]
  by_cases hon : rb.is_on_curve = false
  · rw [if_pos hon]; intro h; cases h
  · rw [if_neg hon, if_neg (by omega)]
    simp only []
    generalize hsk : kdf (exch_kdf_input ida idb ra rb ((sm9_u256_pairing TWIST_POINT_MONT_P2 m.ppube).pow_loop ra_)
          (sm9_u256_pairing key.de rb) ((sm9_u256_pairing key.de rb).pow_loop ra_)) klen = sk
    have hl : ¬ sk.length < klen := by
      by_cases h0 : klen = 0
      · omega
      · rw [← hsk, kdf_length _ _ (by omega) hk]; omega
    rw [if_neg hl]
    by_cases hz : all_zero (sk.take klen) = false
    · rw [if_pos hz]; intro h; cases h
    · rw [if_neg hz]; intro h; cases h

/-- step 1a: the accepted rA is in [1, N − 2] (so the `assert!` of `Fp12::pow` in step 2a holds for it) -/
theorem exch_1a_shape (m : Sm9EncMasterKey) (idb : List UInt8) (cands : List (List UInt8)) (rap : Point) (ra_ : Nat)
    (used : List Nat) (rest : List (List UInt8))
    (hs : exch_step_1a m idb cands = .ok ⟨(rap, ra_), used, rest⟩) :
    1 ≤ ra_ ∧ ra_ < N_MINUS_ONE ∧ used = [ra_] ∧ rest.length < cands.length ∧
    ∃ h q0, sm9_u256_hash1 idb HID_EXCH = .ok h ∧ POINT_MONT_P1.point_mul h = .ok q0 ∧
      (q0.point_add m.ppube).point_mul ra_ = .ok rap := by
  unfold exch_step_1a at hs
  obtain ⟨h, hh, _⟩ := hash1_ok idb HID_EXCH
  rw [hh, bind_ok] at hs
  generalize hq : POINT_MONT_P1.point_mul h = pm at hs
  cases pm with
  | err e => simp only [bind_err, reduceCtorEq] at hs
  | panic => simp only [bind_panic, reduceCtorEq] at hs
  | ok q0 =>
    rw [bind_ok] at hs
    simp only [] at hs
    generalize hr : sm9_random_u256 N_MINUS_ONE cands = rr at hs
    cases rr with
    | none => simp only [reduceCtorEq] at hs
    | some p =>
      obtain ⟨r, rest'⟩ := p
      obtain ⟨hr1, hr2, hr3⟩ := random_some _ _ _ _ hr
      simp only [] at hs
      generalize hq2 : (q0.point_add m.ppube).point_mul r = pm2 at hs
      cases pm2 with
      | err e => simp only [map_err, reduceCtorEq] at hs
      | panic => simp only [map_panic, reduceCtorEq] at hs
      | ok R =>
        simp only [map_ok, Outcome.ok.injEq, Rand.mk.injEq, Prod.mk.injEq] at hs
        obtain ⟨⟨rfl, rfl⟩, rfl, rfl⟩ := hs
        exact ⟨by omega, hr1, rfl, hr3, h, q0, hh, hq, hq2⟩

/-! ### `encrypt` on a message longer than 255 bytes -/

theorem encLoop_err (m : Sm9EncMasterKey) (q : Point) (idb data : List UInt8)
    (hq : ∀ r, 1 ≤ r → r < N_MINUS_ONE → ∃ R, q.point_mul r = .ok R) (fuel : Nat) :
    ∀ (cands : List (List UInt8)) (used : List Nat) (e : String),
      encLoop m q idb data fuel cands used = .err e → e = "rng-exhausted" := by
  induction fuel with
  | zero => intro cands used e h; simp only [encLoop, Outcome.err.injEq] at h; exact h.symm
  | succ fuel ih =>
    intro cands used e h
    simp only [encLoop] at h
    generalize hr : sm9_random_u256 N_MINUS_ONE cands = rr at h
    cases rr with
    | none => simp only [Outcome.err.injEq] at h; exact h.symm
    | some p =>
      obtain ⟨r, rest'⟩ := p
      obtain ⟨hr1, hr2, hr3⟩ := random_some _ _ _ _ hr
      simp only [] at h
      obtain ⟨R, hR⟩ := hq r (by omega) hr1
      rw [hR, bind_ok, pow_ok _ _ (by omega), bind_ok] at h
      by_cases he : data.isEmpty = true
      · rw [if_pos he] at h; cases h
      · rw [if_neg he] at h
        by_cases hl : data.length > (kdf (List.drop 1 R.to_bytes_be ++
            ((sm9_u256_pairing TWIST_POINT_MONT_P2 m.ppube).pow_loop r).to_bytes_be ++ idb) (255 + 32)).length
        · rw [if_pos hl] at h; cases h
        · rw [if_neg hl] at h
          by_cases hz : (!all_zero (List.take data.length (kdf (List.drop 1 R.to_bytes_be ++
            ((sm9_u256_pairing TWIST_POINT_MONT_P2 m.ppube).pow_loop r).to_bytes_be ++ idb) (255 + 32)))) = true
          · rw [if_pos hz] at h; cases h
          · rw [if_neg hz] at h; exact ih _ _ _ h

/-- a message longer than 255 bytes makes `encrypt` panic (`&k[0..data.len()]` for |M| > 287, `k2[0..32]` in `sm9_mac`
for 255 < |M| ≤ 287) unless the RNG stub runs dry first -/
theorem encrypt_long (m : Sm9EncMasterKey) (idb data : List UInt8) (cands : List (List UInt8))
    (hpm : ∀ (P : Point) (k : Nat), k < 2 ^ 256 → ∃ R, P.point_mul k = .ok R) (hlen : 255 < data.length) :
    m.encrypt idb data cands = .panic ∨ m.encrypt idb data cands = .err "rng-exhausted" := by
  unfold Sm9EncMasterKey.encrypt
  obtain ⟨t, ht, htlt⟩ := hash1_ok idb HID_ENC
  obtain ⟨q0, hq0⟩ := hpm POINT_MONT_P1 t htlt
  rw [ht, bind_ok, hq0, bind_ok]
  simp only []
  have hq : ∀ r, 1 ≤ r → r < N_MINUS_ONE → ∃ R, (q0.point_add m.ppube).point_mul r = .ok R :=
    fun r _ hr => hpm _ r (by have := n_minus_one_lt; omega)
  have herr := encLoop_err m (q0.point_add m.ppube) idb data hq (cands.length + 1) cands []
  generalize hl : encLoop m (q0.point_add m.ppube) idb data (cands.length + 1) cands [] = lr at herr
  cases lr with
  | err e => rw [herr e rfl, bind_err]; right; rfl
  | panic => rw [bind_panic]; left; rfl
  | ok res =>
    obtain ⟨⟨c1, k⟩, used', rest'⟩ := res
    obtain ⟨hacc, _⟩ := encLoop_ok _ _ _ _ _ _ _ _ _ _ _ hl
    have hkl := encAccept_length hacc
    left
    simp only [bind_ok]
    rw [enc_tail k data hkl (fun c3 c2 => (⟨c1.to_bytes_be ++ c3 ++ c2, used', rest'⟩ : Rand (List UInt8))),
      if_neg (by omega)]

end GmVerif.Proofs.SM9Logic
