/-
C13 (point layer, G1), scalar multiplication: signed multiples `mulZ` of the specification group, the `Good` invariant
(a model point is a valid representation of [d]Q, d an INTEGER), the top-down partial sums of the Booth digits, and the
5-bit Booth variable-base multiplication `Point.point_mul`: for EVERY valid representation and EVERY k < 2^256 no table
index leaves the 16-entry table and the result is [k]P.
-/
import GmVerif.Proofs.SM9G1
import GmVerif.Proofs.SM9Booth
import GmVerif.Proofs.SM9Algebra
import GmVerif.Proofs.SpecEC
import Mathlib.Tactic.IntervalCases

namespace GmVerif.Proofs.SM9G1Mul
open GmVerif
open GmVerif.Impl.SM9 (Point sm9_u256_get_booth asUsize)
open GmVerif.Impl.SM9.Point (preTable tableGet)
open GmVerif.Proofs.SM9G1
open GmVerif.Spec.EC (Curve Pt)

/-! ### signed multiples in the specification group -/

section MulZ
open GmVerif.Spec.EC GmVerif.Proofs.SpecEC

/-- [d]Q for an integer d -/
def mulZ (c : Curve) (d : Int) (Q : Pt) : Pt :=
  if 0 ≤ d then mul c d.toNat Q else neg c (mul c (-d).toNat Q)

variable {c : Curve} [Fact (Nat.Prime c.p)]

theorem mulZ_ofPoint (h2 : 2 < c.p) (d : Int) (Q : (W c).Point) : mulZ c d (ofPoint Q) = ofPoint (d • Q) := by
  unfold mulZ
  split
  · next h =>
    rw [mul_ofPoint h2]
    congr 1
    rw [← natCast_zsmul, Int.toNat_of_nonneg h]
  · next h =>
    rw [mul_ofPoint h2, neg_ofPoint]
    congr 1
    rw [← natCast_zsmul, Int.toNat_of_nonneg (by omega), neg_zsmul, neg_neg]

omit [Fact (Nat.Prime c.p)] in
theorem mulZ_natCast (k : ℕ) (Q : Pt) : mulZ c (k : Int) Q = mul c k Q := by
  unfold mulZ
  rw [if_pos (Int.natCast_nonneg k), Int.toNat_natCast]

omit [Fact (Nat.Prime c.p)] in
theorem mulZ_neg_natCast (k : ℕ) (hk : 0 < k) (Q : Pt) : mulZ c (-(k : Int)) Q = neg c (mul c k Q) := by
  unfold mulZ
  rw [if_neg (by omega), neg_neg, Int.toNat_natCast]

omit [Fact (Nat.Prime c.p)] in
theorem mulZ_zero (Q : Pt) : mulZ c 0 Q = none := by
  have := mulZ_natCast (c := c) 0 Q
  rwa [SpecEC.mul_zero] at this

theorem mulZ_add (hc : Valid c) (a b : Int) {Q : Pt} (hQ : onCurve c Q = true) :
    mulZ c (a + b) Q = add c (mulZ c a Q) (mulZ c b Q) := by
  obtain ⟨Q', rfl⟩ := exists_ofPoint hc hQ
  simp only [mulZ_ofPoint hc.two_lt, add_ofPoint hc.two_lt, add_zsmul]

theorem mulZ_sub (hc : Valid c) (a b : Int) {Q : Pt} (hQ : onCurve c Q = true) :
    mulZ c (a - b) Q = add c (mulZ c a Q) (neg c (mulZ c b Q)) := by
  obtain ⟨Q', rfl⟩ := exists_ofPoint hc hQ
  simp only [mulZ_ofPoint hc.two_lt, add_ofPoint hc.two_lt, neg_ofPoint, sub_eq_add_neg, add_zsmul, neg_zsmul]

end MulZ

/-! ### the invariant -/

theorem hc : SpecEC.Valid Spec.SM9.curve := SM9Algebra.sm9_valid

/-- `T` is a valid representation of `[d]Q` -/
def Good (Q : Pt) (d : Int) (T : Point) : Prop := Valid T ∧ toSpec T = mulZ Spec.SM9.curve d Q

theorem Good.cast {Q : Pt} {d e : Int} {T : Point} (h : Good Q d T) (he : d = e) : Good Q e T := he ▸ h

theorem good_zero (Q : Pt) : Good Q 0 Point.zero := ⟨zero_valid, by rw [zero_toSpec, mulZ_zero]⟩

theorem good_dbl {Q : Pt} (hQ : Spec.EC.onCurve Spec.SM9.curve Q = true) {d : Int} {T : Point}
    (h : Good Q d T) : Good Q (d + d) T.point_double :=
  ⟨(point_double_correct T h.1).1, by rw [(point_double_correct T h.1).2, h.2, ← mulZ_add hc d d hQ]⟩

theorem good_add {Q : Pt} (hQ : Spec.EC.onCurve Spec.SM9.curve Q = true) {d e : Int} {T U : Point}
    (hT : Good Q d T) (hU : Good Q e U) : Good Q (d + e) (T.point_add U) :=
  ⟨(point_add_correct T U hT.1 hU.1).1, by
    rw [(point_add_correct T U hT.1 hU.1).2, hT.2, hU.2, ← mulZ_add hc d e hQ]⟩

theorem good_sub {Q : Pt} (hQ : Spec.EC.onCurve Spec.SM9.curve Q = true) {d e : Int} {T U : Point}
    (hT : Good Q d T) (hU : Good Q e U) : Good Q (d - e) (T.point_sub U) :=
  ⟨(point_sub_correct T U hT.1 hU.1).1, by
    rw [(point_sub_correct T U hT.1 hU.1).2, hT.2, hU.2, ← mulZ_sub hc d e hQ]⟩

theorem good_dbl_x5 {Q : Pt} (hQ : Spec.EC.onCurve Spec.SM9.curve Q = true) {d : Int} {T : Point}
    (h : Good Q d T) : Good Q (32 * d) T.point_double_x5 :=
  (good_dbl hQ (good_dbl hQ (good_dbl hQ (good_dbl hQ (good_dbl hQ h))))).cast (by ring)

/-! ### the 16-entry table of `point_mul` -/

theorem preTable_good (P : Point) (h : Valid P) :
    ∀ d : ℕ, 1 ≤ d → d ≤ 16 → Good (toSpec P) (d : Int) ((preTable P)[d - 1]!) := by
  have hQ := toSpec_onCurve P h
  have t1 : Good (toSpec P) 1 P := ⟨h, by rw [show (1 : Int) = ((1 : ℕ) : Int) from rfl, mulZ_natCast, SpecEC.mul_one]⟩
  have t2 := good_dbl hQ t1
  have t4 := good_dbl hQ t2
  have t8 := good_dbl hQ t4
  have t16 := good_dbl hQ t8
  have t3 := good_add hQ t2 t1
  have t6 := good_dbl hQ t3
  have t12 := good_dbl hQ t6
  have t5 := good_add hQ t3 t2
  have t10 := good_dbl hQ t5
  have t7 := good_add hQ t4 t3
  have t14 := good_dbl hQ t7
  have t9 := good_add hQ t4 t5
  have t11 := good_add hQ t6 t5
  have t13 := good_add hQ t7 t6
  have t15 := good_add hQ t8 t7
  intro d h1 h16
  interval_cases d
  · exact t1
  · exact t2
  · exact t3
  · exact t4
  · exact t5
  · exact t6
  · exact t7
  · exact t8
  · exact t9
  · exact t10
  · exact t11
  · exact t12
  · exact t13
  · exact t14
  · exact t15
  · exact t16

theorem preTable_size (P : Point) : (preTable P).size = 16 := rfl

theorem tableGet_pre (P : Point) (idx : ℕ) (h : idx < 16) : tableGet (preTable P) idx = .ok ((preTable P)[idx]!) := by
  have hs : idx < (preTable P).size := by rw [preTable_size]; exact h
  unfold tableGet
  rw [Array.getElem?_eq_getElem hs, getElem!_pos (preTable P) idx hs]

theorem asUsize_of_nonneg (x : Int) (h0 : 0 ≤ x) (h1 : x < 2 ^ 64) : asUsize x = x.toNat := by
  unfold asUsize
  rw [Int.emod_eq_of_lt h0 h1]

/-! ### top-down partial sums of signed digits -/

/-- `topSum d w i m` = Σ_{j < m} d (i + j) · 2^(w·j): the value of the `m` digits from position `i` upwards -/
def topSum (d : ℕ → Int) (w : ℕ) : ℕ → ℕ → Int
  | _, 0 => 0
  | i, m + 1 => d i + 2 ^ w * topSum d w (i + 1) m

theorem topSum_succ_top (d : ℕ → Int) (w : ℕ) : ∀ m i,
    topSum d w i (m + 1) = topSum d w i m + 2 ^ (w * m) * d (i + m)
  | 0, i => by simp [topSum]
  | m + 1, i => by
    have ih := topSum_succ_top d w m (i + 1)
    rw [topSum, ih, topSum, show i + 1 + m = i + (m + 1) by omega, Nat.mul_succ, pow_add]
    ring

theorem topSum_zero_eq_sum (d : ℕ → Int) (w : ℕ) (n : ℕ) :
    topSum d w 0 n = ((List.range n).map fun i => d i * 2 ^ (w * i)).sum := by
  induction n with
  | zero => rfl
  | succ n ih =>
    rw [topSum_succ_top, ih, List.range_succ, List.map_append, List.sum_append]
    simp only [List.map_cons, List.map_nil, List.sum_cons, List.sum_nil, Nat.zero_add, add_zero]
    ring

/-- one more digit below: the recursion used by the top-down loops -/
theorem topSum_step (d : ℕ → Int) (w n i : ℕ) (hi : i < n) :
    topSum d w i (n - i) = d i + 2 ^ w * topSum d w (i + 1) (n - (i + 1)) := by
  rw [show n - i = (n - (i + 1)) + 1 by omega, topSum]

/-! ### `point_mul` -/

/-- the Booth digits of the model, window 5 -/
abbrev dig (k i : ℕ) : Int := SM9Booth.boothDigit k 5 i

theorem booth5 (k : ℕ) (hk : k < 2 ^ 256) (i : ℕ) (hi : i < 52) :
    sm9_u256_get_booth k 5 i = .ok (dig k i) ∧ -16 ≤ dig k i ∧ dig k i ≤ 16 := by
  have h := SM9Booth.booth_closed k hk 5 (Or.inl rfl) i hi
  have e := SM9Booth.boothDigit_eq k hk 5 (Or.inl rfl) i hi
  have b := SM9Booth.digit_bounds 5 _ (Or.inl rfl) (SM9Booth.win_lt k 5 i)
  rw [← e] at h b
  exact ⟨h, by simpa using b.1, by simpa using b.2⟩

/-- the loop body of `Point.point_mul` -/
def pmStep (pre : Array Point) (k : ℕ) (st : Outcome (Point × Bool)) (i : ℕ) : Outcome (Point × Bool) :=
  st.bind fun (r, r_infinity) =>
  (sm9_u256_get_booth k 5 i).bind fun booth =>
    if r_infinity then
      if booth ≠ 0 then (tableGet pre (asUsize (booth - 1))).map fun q => (q, false)
      else .ok (r, true)
    else
      let r := r.point_double_x5
      if booth > 0 then (tableGet pre (asUsize (booth - 1))).map fun q => (r.point_add q, false)
      else if booth < 0 then (tableGet pre (asUsize (-booth - 1))).map fun q => (r.point_sub q, false)
      else .ok (r, false)

theorem point_mul_eq (P : Point) (k : ℕ) :
    P.point_mul k = (((List.range 52).reverse.foldl (pmStep (preTable P) k) (.ok (Point.zero, true))).map
      fun (r, r_infinity) => if r_infinity then Point.zero else r) := rfl

/-- the loop invariant after the windows 51 … i have been processed -/
def Inv (Q : Pt) (d : ℕ → Int) (w n i : ℕ) (st : Outcome (Point × Bool)) : Prop :=
  ∃ r inf, st = .ok (r, inf)
    ∧ (inf = true → topSum d w i (n - i) = 0 ∧ ∀ j, i ≤ j → j < n → d j = 0)
    ∧ (inf = false → Good Q (topSum d w i (n - i)) r)

theorem pm_step (P : Point) (h : Valid P) (k : ℕ) (hk : k < 2 ^ 256) (i : ℕ) (hi : i < 52)
    (st : Outcome (Point × Bool)) (hst : Inv (toSpec P) (dig k) 5 52 (i + 1) st) :
    Inv (toSpec P) (dig k) 5 52 i (pmStep (preTable P) k st i) := by
  have hQ := toSpec_onCurve P h
  obtain ⟨r, inf, rfl, hinf, hfin⟩ := hst
  obtain ⟨hb, hlo, hhi⟩ := booth5 k hk i hi
  have hT := topSum_step (dig k) 5 52 i hi
  unfold pmStep
  simp only [Outcome.bind, hb]
  generalize hdig : dig k i = b at hlo hhi hT ⊢
  cases inf with
  | true =>
    obtain ⟨hT0, hz⟩ := hinf rfl
    simp only [if_true]
    by_cases hb0 : b = 0
    · rw [if_neg (not_not.mpr hb0)]
      refine ⟨r, true, rfl, fun _ => ⟨by rw [hT, hT0, hb0]; ring, ?_⟩, fun h => absurd h (by decide)⟩
      intro j hj1 hj2
      by_cases hji : j = i
      · subst hji
        rw [hdig, hb0]
      · exact hz j (by omega) hj2
    · rw [if_pos hb0]
      have hpos : 0 < b := by
        rw [← hdig]
        exact SM9Booth.booth_first_pos k hk 5 (Or.inl rfl) i hi (fun j h1 h2 => hz j (by omega) h2)
          (fun h0 => hb0 (hdig.symm.trans h0))
      rw [asUsize_of_nonneg (b - 1) (by omega) (by omega), tableGet_pre P _ (by omega)]
      simp only [Outcome.map, Outcome.bind]
      refine ⟨_, false, rfl, fun h => absurd h (by decide), fun _ => ?_⟩
      have hg := preTable_good P h b.toNat (by omega) (by omega)
      rw [show (b - 1).toNat = b.toNat - 1 by omega]
      exact hg.cast (by rw [hT, hT0, Int.toNat_of_nonneg (by omega)]; ring)
  | false =>
    have hg := good_dbl_x5 hQ (hfin rfl)
    simp only [Bool.false_eq_true, if_false]
    by_cases hbp : b > 0
    · rw [if_pos hbp, asUsize_of_nonneg (b - 1) (by omega) (by omega), tableGet_pre P _ (by omega)]
      simp only [Outcome.map, Outcome.bind]
      refine ⟨_, false, rfl, fun h => absurd h (by decide), fun _ => ?_⟩
      have hq := preTable_good P h b.toNat (by omega) (by omega)
      rw [show (b - 1).toNat = b.toNat - 1 by omega]
      exact (good_add hQ hg hq).cast (by rw [hT, Int.toNat_of_nonneg (by omega)]; ring)
    · rw [if_neg hbp]
      by_cases hbn : b < 0
      · rw [if_pos hbn, asUsize_of_nonneg (-b - 1) (by omega) (by omega), tableGet_pre P _ (by omega)]
        simp only [Outcome.map, Outcome.bind]
        refine ⟨_, false, rfl, fun h => absurd h (by decide), fun _ => ?_⟩
        have hq := preTable_good P h (-b).toNat (by omega) (by omega)
        rw [show (-b - 1).toNat = (-b).toNat - 1 by omega]
        exact (good_sub hQ hg hq).cast (by rw [hT, Int.toNat_of_nonneg (by omega)]; ring)
      · rw [if_neg hbn]
        refine ⟨_, false, rfl, fun h => absurd h (by decide), fun _ => ?_⟩
        have hb0 : b = 0 := by omega
        exact hg.cast (by rw [hT, hb0]; ring)

theorem pm_loop (P : Point) (h : Valid P) (k : ℕ) (hk : k < 2 ^ 256) : ∀ m, m ≤ 52 →
    ∀ st, Inv (toSpec P) (dig k) 5 52 m st →
      Inv (toSpec P) (dig k) 5 52 0 ((List.range m).reverse.foldl (pmStep (preTable P) k) st) := by
  intro m
  induction m with
  | zero => intro _ st hst; simpa using hst
  | succ m ih =>
    intro hm st hst
    rw [List.range_succ, List.reverse_append, List.reverse_cons, List.reverse_nil, List.nil_append,
      List.singleton_append, List.foldl_cons]
    exact ih (by omega) _ (pm_step P h k hk m (by omega) st hst)

theorem dig_sum (k : ℕ) (hk : k < 2 ^ 256) : topSum (dig k) 5 0 52 = k := by
  rw [topSum_zero_eq_sum]
  exact SM9Booth.booth_sum k hk 5 (Or.inl rfl)

/-- no Booth index leaves the table and the result is [k]P — for EVERY valid P and EVERY k < 2^256 -/
theorem point_mul_good (P : Point) (h : Valid P) (k : ℕ) (hk : k < 2 ^ 256) :
    ∃ R, P.point_mul k = .ok R ∧ Valid R ∧ toSpec R = Spec.EC.mul Spec.SM9.curve k (toSpec P) := by
  have h0 : Inv (toSpec P) (dig k) 5 52 52 (.ok (Point.zero, true)) :=
    ⟨Point.zero, true, rfl, fun _ => ⟨rfl, fun j h1 h2 => absurd h2 (by omega)⟩, fun h => absurd h (by decide)⟩
  obtain ⟨r, inf, hst, hinf, hfin⟩ := pm_loop P h k hk 52 (le_refl _) _ h0
  rw [point_mul_eq, hst]
  simp only [Outcome.map, Outcome.bind]
  rw [Nat.sub_zero, dig_sum k hk] at hinf hfin
  cases inf with
  | true =>
    refine ⟨Point.zero, rfl, zero_valid, ?_⟩
    have hk0 : k = 0 := by exact_mod_cast (hinf rfl).1
    rw [zero_toSpec, hk0, SpecEC.mul_zero]
  | false =>
    obtain ⟨hv, hs⟩ := hfin rfl
    exact ⟨r, rfl, hv, by rw [hs, mulZ_natCast]⟩

/-! ### totality of `point_mul` for ARBITRARY points (no validity needed: the table indices depend on the digits only) -/

/-- the part of the invariant that does not look at the point -/
def TInv (d : ℕ → Int) (n i : ℕ) (st : Outcome (Point × Bool)) : Prop :=
  ∃ r inf, st = .ok (r, inf) ∧ (inf = true → ∀ j, i ≤ j → j < n → d j = 0)

theorem pm_step_total (P : Point) (k : ℕ) (hk : k < 2 ^ 256) (i : ℕ) (hi : i < 52)
    (st : Outcome (Point × Bool)) (hst : TInv (dig k) 52 (i + 1) st) :
    TInv (dig k) 52 i (pmStep (preTable P) k st i) := by
  obtain ⟨r, inf, rfl, hinf⟩ := hst
  obtain ⟨hb, hlo, hhi⟩ := booth5 k hk i hi
  unfold pmStep
  simp only [Outcome.bind, hb]
  generalize hdig : dig k i = b at hlo hhi ⊢
  cases inf with
  | true =>
    have hz := hinf rfl
    simp only [if_true]
    by_cases hb0 : b = 0
    · rw [if_neg (not_not.mpr hb0)]
      refine ⟨r, true, rfl, fun _ j hj1 hj2 => ?_⟩
      by_cases hji : j = i
      · subst hji; rw [hdig, hb0]
      · exact hz j (by omega) hj2
    · rw [if_pos hb0]
      have hpos : 0 < b := by
        rw [← hdig]
        exact SM9Booth.booth_first_pos k hk 5 (Or.inl rfl) i hi (fun j h1 h2 => hz j (by omega) h2)
          (fun h0 => hb0 (hdig.symm.trans h0))
      rw [asUsize_of_nonneg (b - 1) (by omega) (by omega), tableGet_pre P _ (by omega)]
      exact ⟨_, false, rfl, fun h => absurd h (by decide)⟩
  | false =>
    simp only [Bool.false_eq_true, if_false]
    by_cases hbp : b > 0
    · rw [if_pos hbp, asUsize_of_nonneg (b - 1) (by omega) (by omega), tableGet_pre P _ (by omega)]
      exact ⟨_, false, rfl, fun h => absurd h (by decide)⟩
    · rw [if_neg hbp]
      by_cases hbn : b < 0
      · rw [if_pos hbn, asUsize_of_nonneg (-b - 1) (by omega) (by omega), tableGet_pre P _ (by omega)]
        exact ⟨_, false, rfl, fun h => absurd h (by decide)⟩
      · rw [if_neg hbn]
        exact ⟨_, false, rfl, fun h => absurd h (by decide)⟩

theorem pm_loop_total (P : Point) (k : ℕ) (hk : k < 2 ^ 256) : ∀ m, m ≤ 52 →
    ∀ st, TInv (dig k) 52 m st →
      TInv (dig k) 52 0 ((List.range m).reverse.foldl (pmStep (preTable P) k) st) := by
  intro m
  induction m with
  | zero => intro _ st hst; simpa using hst
  | succ m ih =>
    intro hm st hst
    rw [List.range_succ, List.reverse_append, List.reverse_cons, List.reverse_nil, List.nil_append,
      List.singleton_append, List.foldl_cons]
    exact ih (by omega) _ (pm_step_total P k hk m (by omega) st hst)

/-- `point_mul` never panics: for EVERY point (valid or not, canonical or not) and every k < 2^256 -/
theorem point_mul_total (P : Point) (k : ℕ) (hk : k < 2 ^ 256) : ∃ R, P.point_mul k = .ok R := by
  have h0 : TInv (dig k) 52 52 (.ok (Point.zero, true)) :=
    ⟨Point.zero, true, rfl, fun _ j h1 h2 => absurd h2 (by omega)⟩
  obtain ⟨r, inf, hst, _⟩ := pm_loop_total P k hk 52 (le_refl _) _ h0
  rw [point_mul_eq, hst]
  exact ⟨_, rfl⟩

end GmVerif.Proofs.SM9G1Mul
