/-
C09b, signing: the `loop` of `Sm9SignKey::sign` over a candidate list is the standard's A2–A7 (`Spec.SM9.signWith`) over
the candidates accepted by the sampler, given the pairing hypothesis `PairingRefines` for g = e(P1, Ppub-s).
-/
import GmVerif.Proofs.SM9SignRefinesG2
import GmVerif.Proofs.SM9Logic
import GmVerif.Proofs.SM9Field
set_option autoImplicit false
namespace GmVerif.Proofs.SM9SignRefines
open GmVerif GmVerif.Impl.SM9 GmVerif.Proofs.SM9Bridge
open GmVerif.Proofs.SM9Tower (Canon12)
open GmVerif.Proofs.SM9G2Impl (Valid2 toSpec2)
open GmVerif.Proofs.SM9Logic (bind_ok bind_err bind_panic map_ok map_err map_panic)
open GmVerif.Spec.SM9 (N Pt2)
open GmVerif.Spec.EC (Pt)

/-! ### the sampler -/

/-- what `sm9_random_u256(N − 1)` accepts: r < N − 1 with non-zero low 64 bits -/
def Accepts (r : Nat) : Prop := r < N - 1 ∧ r % 2 ^ 64 ≠ 0
instance (r : Nat) : Decidable (Accepts r) := by unfold Accepts; infer_instance

theorem n_minus_one : Gen.SM9.N_MINUS_ONE = N - 1 := by decide

theorem random_cons (c : List UInt8) (cs : List (List UInt8)) :
    sm9_random_u256 Gen.SM9.N_MINUS_ONE (c :: cs) =
      if Accepts (beNat c) then some (beNat c, cs) else sm9_random_u256 Gen.SM9.N_MINUS_ONE cs := by
  rw [SM9Field.sm9_random_cons, n_minus_one]; rfl

/-- accepted values are in the standard's range [1, N − 1] -/
theorem accepts_range {r : Nat} (h : Accepts r) : 1 ≤ r ∧ r < N := by
  obtain ⟨h1, h2⟩ := h
  refine ⟨?_, by omega⟩
  rcases Nat.eq_zero_or_pos r with rfl | h0
  · exact absurd rfl h2
  · exact h0

/-! ### the specification's loop -/

/-- A3–A6 on scalars: h = H2(M ‖ g^r), l = (r − h) mod N; `none` = "return to A2" -/
def signScalar (g : Spec.SM9.Fp12) (msg : List UInt8) (r : Nat) : Option (Nat × Nat) :=
  let h := Spec.SM9.H2 (msg ++ Spec.SM9.Fp12.toBytes (Spec.SM9.Fp12.pow g r))
  let l := (r + (N - h)) % N
  if l = 0 then none else some (h, l)

theorem signWith_eq (Ppubs : Pt2) (ds : Pt) (msg : List UInt8) (r : Nat) :
    Spec.SM9.signWith Ppubs ds msg r =
      (signScalar (Spec.SM9.pairing Spec.SM9.P1 Ppubs) msg r).map
        fun hl => (hl.1, Spec.EC.mul Spec.SM9.curve hl.2 ds) := by
  unfold Spec.SM9.signWith signScalar
  simp only []
  split <;> rfl

theorem signScalar_some {g : Spec.SM9.Fp12} {msg : List UInt8} {r h l : Nat} (hs : signScalar g msg r = some (h, l)) :
    1 ≤ h ∧ h < N ∧ l ≠ 0 ∧ l < N := by
  unfold signScalar at hs
  simp only [] at hs
  split at hs
  · cases hs
  · next hl =>
    simp only [Option.some.injEq, Prod.mk.injEq] at hs
    obtain ⟨rfl, rfl⟩ := hs
    have := SM9Algebra.H2_range (msg ++ Spec.SM9.Fp12.toBytes (Spec.SM9.Fp12.pow g r))
    exact ⟨this.1, this.2, hl, Nat.mod_lt _ SM9Algebra.N_pos⟩

/-- the loop on scalars: first accepted candidate for which A6 does not restart -/
def scalarLoop (g : Spec.SM9.Fp12) (msg : List UInt8) :
    List (List UInt8) → List Nat → Option ((Nat × Nat) × List Nat × List (List UInt8))
  | [], _ => none
  | c :: cs, used =>
    if Accepts (beNat c) then
      match signScalar g msg (beNat c) with
      | some hl => some (hl, used ++ [beNat c], cs)
      | none => scalarLoop g msg cs (used ++ [beNat c])
    else scalarLoop g msg cs used

/-- a result of the scalar loop: h ∈ [1, N − 1], l ∈ [1, N − 1] -/
theorem scalarLoop_some {g : Spec.SM9.Fp12} {msg : List UInt8} {cands : List (List UInt8)} {used : List Nat}
    {h l : Nat} {used' : List Nat} {rest : List (List UInt8)}
    (hsc : scalarLoop g msg cands used = some ((h, l), used', rest)) : 1 ≤ h ∧ h < N ∧ l ≠ 0 ∧ l < N := by
  induction cands generalizing used with
  | nil => cases hsc
  | cons c cs ih =>
    rw [scalarLoop] at hsc
    by_cases ha : Accepts (beNat c)
    · rw [if_pos ha] at hsc
      cases hss : signScalar g msg (beNat c) with
      | some hl' =>
        rw [hss] at hsc
        simp only [Option.some.injEq, Prod.mk.injEq] at hsc
        obtain ⟨rfl, _, _⟩ := hsc
        exact signScalar_some hss
      | none => rw [hss] at hsc; exact ih hsc
    · rw [if_neg ha] at hsc; exact ih hsc

theorem N_lt : N < 2 ^ 256 := by decide

/-- THE SPECIFICATION'S SIGNING LOOP over a candidate list (GM/T 0044.2 §6.2 A2–A7): candidates the sampler rejects are
skipped (not logged); for an accepted r, `signWith` either returns (h, S) — the result, with r appended to the log and the
unused candidates — or asks for a new r (r is logged, the loop goes on); `none` = the list is exhausted -/
def specSignLoop (Ppubs : Pt2) (ds : Pt) (msg : List UInt8) :
    List (List UInt8) → List Nat → Option ((Nat × Pt) × List Nat × List (List UInt8))
  | [], _ => none
  | c :: cs, used =>
    if Accepts (beNat c) then
      match Spec.SM9.signWith Ppubs ds msg (beNat c) with
      | some hs => some (hs, used ++ [beNat c], cs)
      | none => specSignLoop Ppubs ds msg cs (used ++ [beNat c])
    else specSignLoop Ppubs ds msg cs used

theorem specSignLoop_eq (Ppubs : Pt2) (ds : Pt) (msg : List UInt8) (cands : List (List UInt8)) (used : List Nat) :
    specSignLoop Ppubs ds msg cands used =
      (scalarLoop (Spec.SM9.pairing Spec.SM9.P1 Ppubs) msg cands used).map
        fun x => ((x.1.1, Spec.EC.mul Spec.SM9.curve x.1.2 ds), x.2) := by
  induction cands generalizing used with
  | nil => rfl
  | cons c cs ih =>
    rw [specSignLoop, scalarLoop]
    by_cases ha : Accepts (beNat c)
    · rw [if_pos ha, if_pos ha, signWith_eq]
      cases hsc : signScalar (Spec.SM9.pairing Spec.SM9.P1 Ppubs) msg (beNat c) with
      | none => simp only [Option.map_none]; exact ih _
      | some hl => rfl
    · rw [if_neg ha, if_neg ha]; exact ih _

/-- a result of the loop comes from an accepted candidate -/
theorem specSignLoop_some {Ppubs : Pt2} {ds : Pt} {msg : List UInt8} {cands : List (List UInt8)} {used : List Nat}
    {hs : Nat × Pt} {used' : List Nat} {rest : List (List UInt8)}
    (h : specSignLoop Ppubs ds msg cands used = some (hs, used', rest)) :
    ∃ r skipped, Accepts r ∧ Spec.SM9.signWith Ppubs ds msg r = some hs ∧ used' = used ++ skipped ++ [r]
      ∧ rest.length < cands.length := by
  induction cands generalizing used with
  | nil => cases h
  | cons c cs ih =>
    rw [specSignLoop] at h
    by_cases ha : Accepts (beNat c)
    · rw [if_pos ha] at h
      cases hsw : Spec.SM9.signWith Ppubs ds msg (beNat c) with
      | some hs' =>
        rw [hsw] at h
        simp only [Option.some.injEq, Prod.mk.injEq] at h
        obtain ⟨rfl, rfl, rfl⟩ := h
        exact ⟨beNat c, [], ha, hsw, by simp, by simp⟩
      | none =>
        rw [hsw] at h
        obtain ⟨r, sk, h1, h2, h3, h4⟩ := ih h
        refine ⟨r, beNat c :: sk, h1, h2, ?_, by simp only [List.length_cons]; omega⟩
        rw [h3]; simp
    · rw [if_neg ha] at h
      obtain ⟨r, sk, h1, h2, h3, h4⟩ := ih h
      exact ⟨r, sk, h1, h2, h3, by simp only [List.length_cons]; omega⟩

/-! ### one pass through the model's loop body -/

theorem N_eq : Gen.SM9.N = N := SM9Field.N_eq

/-- A3–A4 in the model for an exponent r ≤ N − 1 -/
theorem step_hash (gi : Fp12) (hg : Canon12 gi) (data : List UInt8) (r : Nat) (hr : r ≤ N - 1) :
    ∃ w, gi.pow r = .ok w ∧ Canon12 w ∧ SM9Bridge.dense w = Spec.SM9.Fp12.pow (SM9Bridge.dense gi) r ∧
      sm9_u256_hash2 data w.to_bytes_be =
        .ok (Spec.SM9.H2 (data ++ Spec.SM9.Fp12.toBytes (Spec.SM9.Fp12.pow (SM9Bridge.dense gi) r))) := by
  obtain ⟨w, h1, h2, h3⟩ := SM9TowerDense.dense_pow gi r hg hr
  refine ⟨w, h1, h2, h3, ?_⟩
  rw [SM9Field.hash2_refines, SM9TowerDense.dense_bytes w h2, h3]

/-- A5 -/
theorem mod_n_sub_spec (r h : Nat) (hr : r < N) (hh : h < N) : mod_n_sub r h = (r + (N - h)) % N := by
  rw [SM9Logic.mod_n_sub_eq r h (by rw [N_eq]; exact hr) (by rw [N_eq]; omega), N_eq]
  congr 1; omega

/-- the model's loop is the scalar loop of the specification (fuel: any amount exceeding the number of candidates) -/
theorem signLoop_eq (gi : Fp12) (hg : Canon12 gi) (data : List UInt8) :
    ∀ (cands : List (List UInt8)) (fuel : Nat) (used : List Nat), cands.length < fuel →
      signLoop gi data fuel cands used =
        match scalarLoop (SM9Bridge.dense gi) data cands used with
        | none => .err "rng-exhausted"
        | some (hl, used', rest) => .ok ⟨hl, used', rest⟩ := by
  intro cands
  induction cands with
  | nil =>
    intro fuel used hf
    cases fuel with
    | zero => omega
    | succ fuel => simp only [signLoop, sm9_random_u256, scalarLoop]
  | cons c cs ih =>
    intro fuel used hf
    cases fuel with
    | zero => omega
    | succ fuel =>
      have hf' : cs.length < fuel := by simpa using hf
      by_cases ha : Accepts (beNat c)
      · have hstep : signLoop gi data (fuel + 1) (c :: cs) used =
            ((gi.pow (beNat c)).bind fun w => (sm9_u256_hash2 data w.to_bytes_be).bind fun h =>
              if !(fp_is_zero (mod_n_sub (beNat c) h)) then
                .ok ⟨(h, mod_n_sub (beNat c) h), used ++ [beNat c], cs⟩
              else signLoop gi data fuel cs (used ++ [beNat c])) := by
          simp only [signLoop]
          rw [random_cons, if_pos ha]
        obtain ⟨hr1, hr2⟩ := accepts_range ha
        obtain ⟨w, hw1, _, _, hw4⟩ := step_hash gi hg data (beNat c) (by omega)
        have hH := SM9Algebra.H2_range
          (data ++ Spec.SM9.Fp12.toBytes (Spec.SM9.Fp12.pow (SM9Bridge.dense gi) (beNat c)))
        rw [hstep, hw1, bind_ok, hw4, bind_ok, mod_n_sub_spec _ _ hr2 hH.2, scalarLoop, if_pos ha, signScalar]
        by_cases hl : (beNat c + (N - Spec.SM9.H2
            (data ++ Spec.SM9.Fp12.toBytes (Spec.SM9.Fp12.pow (SM9Bridge.dense gi) (beNat c))))) % N = 0
        · rw [if_pos hl, hl, if_neg (by decide)]
          exact ih fuel _ hf'
        · rw [if_neg hl, if_pos (by simp [fp_is_zero, hl])]
      · have hstep : signLoop gi data (fuel + 1) (c :: cs) used = signLoop gi data (fuel + 1) cs used := by
          simp only [signLoop]
          rw [random_cons, if_neg ha]
        rw [hstep, scalarLoop, if_neg ha]
        exact ih (fuel + 1) used (by omega)

/-! ### `sign` -/

/-- `Sm9SignKey::sign` against the standard's loop, outcome by outcome -/
theorem sign_refines (PR : PairingRefines) (key : Sm9SignKey) (hds : SM9G1.Valid key.ds) (hpp : InG2 key.ppubs)
    (data : List UInt8) (cands : List (List UInt8)) :
    match specSignLoop (toSpec2 key.ppubs) (SM9G1.toSpec key.ds) data cands [] with
    | none => key.sign data cands = .err "rng-exhausted"
    | some ((h, S), used, rest) =>
      ∃ s, key.sign data cands = .ok ⟨(h, s), used, rest⟩ ∧ SM9G1.Valid s ∧ SM9G1.toSpec s = S
        ∧ (S ≠ none → s.to_bytes_be = Spec.SM9.encodePoint S) := by
  obtain ⟨hgc, hgv⟩ := pairing_g PR hpp
  have hloop := signLoop_eq _ hgc data cands (cands.length + 1) [] (Nat.lt_succ_self _)
  rw [hgv] at hloop
  rw [specSignLoop_eq]
  unfold Sm9SignKey.sign
  simp only []
  rw [hloop]
  cases hsc : scalarLoop (Spec.SM9.pairing Spec.SM9.P1 (toSpec2 key.ppubs)) data cands [] with
  | none => simp only [Option.map_none, bind_err]
  | some x =>
    obtain ⟨⟨h, l⟩, used, rest⟩ := x
    simp only [Option.map_some, bind_ok]
    have hl : l < 2 ^ 256 := Nat.lt_trans (scalarLoop_some hsc).2.2.2 N_lt
    obtain ⟨R, hR, hv, hs⟩ := SM9G1Mul.point_mul_good key.ds hds l hl
    refine ⟨R, by rw [hR, map_ok], hv, hs, fun hne => ?_⟩
    have hz : R.z ≠ 0 := by
      intro h0; apply hne; rw [← hs]; simp only [SM9G1.toSpec, h0, if_true]
    rw [← hs]; exact SM9G1.to_bytes_correct R hv hz

/-! ### the three cases of one candidate, in the shape of `Thm.C03.sign_raw_refines` / `sign_raw_retry` -/

/-- the first candidate is accepted and the standard signs with it: the model returns that signature -/
theorem sign_first (PR : PairingRefines) (key : Sm9SignKey) (hds : SM9G1.Valid key.ds) (hpp : InG2 key.ppubs)
    (data : List UInt8) (c : List UInt8) (rest : List (List UInt8)) (hc : Accepts (beNat c)) (h : Nat) (S : Pt)
    (hs : Spec.SM9.signWith (toSpec2 key.ppubs) (SM9G1.toSpec key.ds) data (beNat c) = some (h, S)) :
    ∃ s, key.sign data (c :: rest) = .ok ⟨(h, s), [beNat c], rest⟩ ∧ SM9G1.Valid s ∧ SM9G1.toSpec s = S
      ∧ (S ≠ none → s.to_bytes_be = Spec.SM9.encodePoint S) := by
  have h0 := sign_refines PR key hds hpp data (c :: rest)
  rw [specSignLoop, if_pos hc, hs] at h0
  exact h0

/-- a candidate the sampler rejects is skipped -/
theorem sign_skip (PR : PairingRefines) (key : Sm9SignKey) (hpp : InG2 key.ppubs) (data : List UInt8)
    (c : List UInt8) (rest : List (List UInt8)) (hc : ¬ Accepts (beNat c)) :
    key.sign data (c :: rest) = key.sign data rest := by
  obtain ⟨hgc, _⟩ := pairing_g PR hpp
  unfold Sm9SignKey.sign
  simp only []
  rw [signLoop_eq _ hgc data (c :: rest) _ [] (Nat.lt_succ_self _), signLoop_eq _ hgc data rest _ [] (Nat.lt_succ_self _),
    scalarLoop, if_neg hc]

/-- "return to A2": the standard asks for a new r for this accepted candidate — the model logs it and goes on -/
theorem sign_retry (PR : PairingRefines) (key : Sm9SignKey) (hpp : InG2 key.ppubs) (data : List UInt8) (ds : Pt)
    (c : List UInt8) (rest : List (List UInt8)) (used : List Nat) (fuel : Nat) (hf : rest.length < fuel)
    (hc : Accepts (beNat c)) (hs : Spec.SM9.signWith (toSpec2 key.ppubs) ds data (beNat c) = none) :
    signLoop (sm9_u256_pairing key.ppubs POINT_MONT_P1) data (fuel + 1) (c :: rest) used =
      signLoop (sm9_u256_pairing key.ppubs POINT_MONT_P1) data fuel rest (used ++ [beNat c]) := by
  obtain ⟨hgc, hgv⟩ := pairing_g PR hpp
  rw [signWith_eq, Option.map_eq_none_iff] at hs
  rw [signLoop_eq _ hgc data (c :: rest) _ used (by simp only [List.length_cons]; omega),
    signLoop_eq _ hgc data rest _ _ hf, scalarLoop, if_pos hc, hgv, hs]

/-- the model's pairing routine answers 1 as soon as one argument is a representation of the point at infinity -/
theorem pairing_inf_left (Q : TwistPoint) (P : Point) (hz : P.z = 0) : sm9_u256_pairing Q P = Fp12.one := by
  unfold sm9_u256_pairing
  rw [if_pos]
  simp [Point.is_zero, fp_is_zero, hz]
theorem pairing_inf_right (Q : TwistPoint) (P : Point) (hz : Q.z.is_zero = true) : sm9_u256_pairing Q P = Fp12.one := by
  unfold sm9_u256_pairing
  rw [if_pos]
  simp [hz]

end GmVerif.Proofs.SM9SignRefines
