/-
C03 (link Impl → Spec): the protocol models of `Impl.SM2.Key` (compute_za, verify_raw, sign_raw) compute what
GB/T 32918.2 (`Spec.SM2`) says, on top of the L3 results for `g_mul` / `scalar_mul` and the field functions mod n.
-/
import GmVerif.Proofs.SM2Table
import GmVerif.Impl.SM2.Key

namespace GmVerif.Proofs.SM2Protocol
open GmVerif
open GmVerif.Proofs.SM2Curve GmVerif.Proofs.SM2Scalar
open GmVerif.Impl.SM2 (Point fp_from_mont reduceN fn_add fn_sub fn_mul fn_pow)
open GmVerif.Spec.SM2 (n p G curve)

/-! ### small facts -/

theorem err_ne_ok {α : Type} {e : String} {v : α} (h : (Outcome.err e : Outcome α) = .ok v) : False := nomatch h


theorem sm3_eq (m : List UInt8) : Impl.SM2.sm3 m = Spec.SM2.hash m := by
  unfold Impl.SM2.sm3; rw [Proofs.SM3.sm3_refines]; rfl

theorem n_pos : 0 < n := by decide
theorem n_lt : n < 2 ^ 256 := by decide
theorem n_big : 2 ^ 255 < n := by decide
theorem p_lt' : p < 2 ^ 256 := by decide

theorem beNat_lt (bs : List UInt8) : beNat bs < 256 ^ bs.length := by
  induction bs using List.reverseRecOn with
  | nil => simp [beNat]
  | append_singleton l b ih =>
    rw [SM2Algebra.beNat_append_singleton, List.length_append, List.length_singleton, Nat.pow_succ]
    have := b.toNat_lt
    omega

theorem beNat_lt_of_len32 (bs : List UInt8) (h : bs.length = 32) : beNat bs < 2 ^ 256 := by
  have := beNat_lt bs
  rw [h] at this
  have e : (256 : ℕ) ^ 32 = 2 ^ 256 := by decide
  omega

theorem reduceN_eq (x : ℕ) (h : x < 2 ^ 256) : reduceN x = x % n := by
  unfold reduceN
  rw [SM2Field.N_eq]
  have := n_big
  split
  · next hge => rw [Nat.mod_eq_sub_mod hge, Nat.mod_eq_of_lt (by omega)]
  · next hlt => rw [Nat.mod_eq_of_lt (by omega)]

theorem fn_add_n (a b : ℕ) (ha : a < n) (hb : b < n) : fn_add a b = (a + b) % n := by
  rw [← SM2Field.N_eq] at *; exact SM2Field.fn_add_correct a b ha hb
theorem fn_sub_n (a b : ℕ) (ha : a < n) (hb : b < n) : fn_sub a b = (a + n - b) % n := by
  rw [← SM2Field.N_eq] at *; exact SM2Field.fn_sub_correct a b ha hb
theorem fn_mul_n (a b : ℕ) (ha : a < 2 ^ 256) (hb : b < 2 ^ 256) : fn_mul a b = a * b % n := by
  rw [← SM2Field.N_eq]; exact SM2Field.fn_mul_correct a b ha hb
theorem fn_pow_n (a e : ℕ) (ha : a < 2 ^ 256) : fn_pow a e = a ^ (e % 2 ^ 256) % n := by
  rw [← SM2Field.N_eq]; exact SM2Field.fn_pow_correct a e ha

/-! ### affine coordinates read off a valid point -/

/-- x-coordinate as the code reads it: 0 for the point at infinity -/
def xOf : Spec.EC.Pt → ℕ
  | none => 0
  | some (x, _) => x
def yOf : Spec.EC.Pt → ℕ
  | none => 0
  | some (_, y) => y

theorem mk_x (X Y Z : Fp) : (mk X Y Z).x = enc X := by simp only [mk]
theorem mk_y (X Y Z : Fp) : (mk X Y Z).y = enc Y := by simp only [mk]

theorem affine_xy_mk (X Y Z : Fp) :
    fp_from_mont (mk X Y Z).to_affine_point.x = xOf (toSpec (mk X Y Z))
      ∧ fp_from_mont (mk X Y Z).to_affine_point.y = yOf (toSpec (mk X Y Z)) := by
  rw [to_affine_mk field_facts, mk_x, mk_y, fp_from_mont_enc field_facts, fp_from_mont_enc field_facts]
  by_cases hZ : Z = 0
  · subst hZ
    rw [toSpec_mk_zero, zero_pow (by decide), zero_pow (by decide), div_zero, div_zero, ZMod.val_zero]
    exact ⟨rfl, rfl⟩
  · rw [toSpec_mk_of_ne hZ]
    exact ⟨rfl, rfl⟩

theorem affine_xy (T : Point) (h : Valid T) :
    fp_from_mont T.to_affine_point.x = xOf (toSpec T) ∧ fp_from_mont T.to_affine_point.y = yOf (toSpec T) := by
  rw [eq_mk T h.1 h.2.1 h.2.2.1]
  exact affine_xy_mk _ _ _

theorem xOf_lt (Q : Spec.EC.Pt) (h : Spec.EC.onCurve curve Q = true) : xOf Q < p := by
  match Q, h with
  | none, _ => exact p_pos
  | some (x, y), h =>
    simp only [Spec.EC.onCurve, curve, Bool.and_eq_true] at h
    exact of_decide_eq_true h.1.1

/-! ### ZA -/

theorem from_mont_a : fp_from_mont Gen.SM2.MODP_MONT_A = Spec.SM2.a := by decide
theorem from_mont_b : fp_from_mont Gen.SM2.MODP_MONT_B = Spec.SM2.b := by decide

theorem compute_za_refines (id : List UInt8) (P : Point) (hP : Valid P) (hz : P.z ≠ 0)
    (hid : id.length * 8 ≤ 65535) (x y : ℕ) (h : toSpec P = some (x, y)) :
    Impl.SM2.compute_za id P = .ok (Spec.SM2.ZA id x y) := by
  have hv : P.is_valid = true := (is_valid_iff field_facts P ⟨hP.1, hP.2.1, hP.2.2.1⟩).mpr hP
  have ha := (to_affine_correct field_facts P hP hz).2.2.2
  rw [h] at ha
  simp only [Option.some.injEq, Prod.mk.injEq] at ha
  unfold Impl.SM2.compute_za
  rw [if_neg (by rw [hv]; simp), if_neg (by omega)]
  simp only [sm3_eq, from_mont_a, from_mont_b, ← ha.1, ← ha.2, SM2Field.GX_eq, SM2Field.GY_eq, Spec.SM2.ZA,
    Impl.SM2.bytes32, Spec.SM2.bytes32, Nat.mul_comm id.length 8]

/-! ### verification -/

/-- the code's test for the point at infinity (Z = 0) is the specification's `none` -/
theorem is_zero_iff_toSpec_none (T : Point) : T.is_zero = true ↔ toSpec T = none := by
  unfold Impl.SM2.Point.is_zero toSpec
  by_cases h0 : T.z = 0
  · rw [if_pos h0]; simp [h0]
  · rw [if_neg h0]; simp [h0]

/-- exact characterisation of what `verify_raw` accepts -/
theorem verify_raw_char (digest sig : List UInt8) (P : Point) (hP : Valid P) (hd : digest.length = 32)
    (hs : sig.length = 64) :
    Impl.SM2.verify_raw digest P sig = .ok () ↔
      1 ≤ beNat (sig.take 32) ∧ beNat (sig.take 32) < n ∧ 1 ≤ beNat (sig.drop 32) ∧ beNat (sig.drop 32) < n
        ∧ (beNat (sig.take 32) + beNat (sig.drop 32)) % n ≠ 0
        ∧ Spec.EC.add curve (Spec.EC.mul curve (beNat (sig.drop 32)) G)
              (Spec.EC.mul curve ((beNat (sig.take 32) + beNat (sig.drop 32)) % n) (toSpec P)) ≠ none
        ∧ (beNat digest + xOf (Spec.EC.add curve (Spec.EC.mul curve (beNat (sig.drop 32)) G)
              (Spec.EC.mul curve ((beNat (sig.take 32) + beNat (sig.drop 32)) % n) (toSpec P)))) % n
            = beNat (sig.take 32) := by
  have he := beNat_lt_of_len32 digest hd
  unfold Impl.SM2.verify_raw
  rw [if_neg (by rw [hd]; simp), if_neg (by rw [hs]; simp)]
  dsimp only
  generalize beNat (sig.take 32) = r
  generalize beNat (sig.drop 32) = s
  generalize beNat digest = e at he
  rw [SM2Field.N_eq]
  by_cases h0 : r = 0 ∨ s = 0
  · rw [if_pos h0]; exact ⟨fun h => (err_ne_ok h).elim, fun h => by omega⟩
  rw [if_neg h0]
  by_cases h1 : r ≥ n ∨ s ≥ n
  · rw [if_pos h1]; exact ⟨fun h => (err_ne_ok h).elim, fun h => by omega⟩
  rw [if_neg h1]
  have hr : r < n := by omega
  have hsn : s < n := by omega
  have ht : fn_add s r = (r + s) % n := by rw [fn_add_n s r hsn hr, Nat.add_comm]
  rw [ht]
  by_cases h2 : (r + s) % n = 0
  · rw [if_pos h2]; exact ⟨fun h => (err_ne_ok h).elim, fun h => absurd h2 h.2.2.2.2.1⟩
  rw [if_neg h2]
  have htl : (r + s) % n < 2 ^ 256 := Nat.lt_trans (Nat.mod_lt _ n_pos) n_lt
  have hg := SM2Table.g_mul_good s (Nat.lt_trans hsn n_lt)
  have hm := scalar_mul_good P hP ((r + s) % n) htl
  have ha := add_ok _ _ hg.1 hm.1
  have hx := (affine_xy _ ha.1).1
  have hz := is_zero_iff_toSpec_none ((Impl.SM2.g_mul s).point_add (P.scalar_mul ((r + s) % n)))
  rw [ha.2, hg.2, hm.2] at hx hz
  rw [hx]
  have hon : Spec.EC.onCurve curve (Spec.EC.add curve (Spec.EC.mul curve s G)
      (Spec.EC.mul curve ((r + s) % n) (toSpec P))) = true :=
    SpecEC.onCurve_add hc (SpecEC.onCurve_mul hc _ SM2Table.G_onCurve) (SpecEC.onCurve_mul hc _ (oc P hP))
  generalize Spec.EC.add curve (Spec.EC.mul curve s G) (Spec.EC.mul curve ((r + s) % n) (toSpec P)) = W at hon hz
  by_cases h4 : W = none
  · rw [if_pos (hz.mpr h4)]; exact ⟨fun h => (err_ne_ok h).elim, fun h => absurd h4 h.2.2.2.2.2.1⟩
  rw [if_neg (fun h => h4 (hz.mp h))]
  have hxl : xOf W < 2 ^ 256 := Nat.lt_trans (xOf_lt W hon) p_lt'
  rw [reduceN_eq _ hxl, reduceN_eq _ he, fn_add_n _ _ (Nat.mod_lt _ n_pos) (Nat.mod_lt _ n_pos), ← Nat.add_mod,
    Nat.add_comm (xOf W) e]
  by_cases h3 : r = (e + xOf W) % n
  · rw [if_pos h3]; exact ⟨fun _ => ⟨by omega, hr, by omega, hsn, h2, h4, h3.symm⟩, fun _ => rfl⟩
  · rw [if_neg h3]; exact ⟨fun h => (err_ne_ok h).elim, fun h => absurd h.2.2.2.2.2.2.symm h3⟩

/-- the model accepts exactly what the standard's verifier accepts (every valid representation of the public key,
including the point at infinity; 32-byte digest, 64-byte signature) -/
theorem verify_raw_refines (digest sig : List UInt8) (P : Point) (hP : Valid P) (hd : digest.length = 32)
    (hs : sig.length = 64) :
    Impl.SM2.verify_raw digest P sig = .ok () ↔
      Spec.SM2.verify (toSpec P) (beNat digest) (beNat (sig.take 32)) (beNat (sig.drop 32)) = true := by
  rw [verify_raw_char digest sig P hP hd hs, SM2Algebra.verify_iff]
  generalize beNat (sig.take 32) = r
  generalize beNat (sig.drop 32) = s
  generalize beNat digest = e
  cases hW : Spec.EC.add curve (Spec.EC.mul curve s G) (Spec.EC.mul curve ((r + s) % n) (toSpec P)) with
  | none =>
    constructor
    · rintro ⟨_, _, _, _, _, a6, _⟩; exact absurd rfl a6
    · rintro ⟨_, _, _, _, _, x1, y1, h, _⟩; cases h
  | some q =>
    obtain ⟨x1, y1⟩ := q
    simp only [xOf]
    constructor
    · rintro ⟨a1, a2, a3, a4, a5, _, a7⟩; exact ⟨a1, a2, a3, a4, a5, x1, y1, rfl, a7⟩
    · rintro ⟨a1, a2, a3, a4, a5, x1', y1', h, a6⟩
      cases h; exact ⟨a1, a2, a3, a4, a5, Option.some_ne_none _, a6⟩

/-- completeness: what the standard's verifier accepts, the model accepts -/
theorem verify_raw_complete (digest sig : List UInt8) (P : Point) (hP : Valid P) (hd : digest.length = 32)
    (hs : sig.length = 64)
    (h : Spec.SM2.verify (toSpec P) (beNat digest) (beNat (sig.take 32)) (beNat (sig.drop 32)) = true) :
    Impl.SM2.verify_raw digest P sig = .ok () :=
  (verify_raw_refines digest sig P hP hd hs).mpr h

/-- soundness: what the model accepts, the standard's verifier accepts -/
theorem verify_raw_sound (digest sig : List UInt8) (P : Point) (hP : Valid P) (hd : digest.length = 32)
    (hs : sig.length = 64) (h : Impl.SM2.verify_raw digest P sig = .ok ()) :
    Spec.SM2.verify (toSpec P) (beNat digest) (beNat (sig.take 32)) (beNat (sig.drop 32)) = true :=
  (verify_raw_refines digest sig P hP hd hs).mp h


/-! ### signing -/

theorem random_u256_cons (kbytes : List UInt8) (rest : List (List UInt8)) (hk : 1 ≤ beNat kbytes ∧ beNat kbytes < n) :
    Impl.SM2.random_u256 (kbytes :: rest) = some (beNat kbytes, rest) := by
  simp only [Impl.SM2.random_u256, SM2Field.N_eq]
  rw [if_pos ⟨hk.2, by omega⟩]

/-- candidates outside [1, n−1] are skipped -/
theorem random_u256_skip (kbytes : List UInt8) (rest : List (List UInt8)) (hk : beNat kbytes = 0 ∨ n ≤ beNat kbytes) :
    Impl.SM2.random_u256 (kbytes :: rest) = Impl.SM2.random_u256 rest := by
  simp only [Impl.SM2.random_u256, SM2Field.N_eq]
  rw [if_neg (by omega)]

/-- the modular inverse of 1 + d as the model computes it -/
theorem s1_eq (d : ℕ) (hd : 1 ≤ d ∧ d ≤ n - 2) :
    fn_pow ((1 + d) % 2 ^ 256) Gen.SM2.N_MINUS_TWO = Spec.EC.invMod ((1 + d) % n) n := by
  have hn := n_lt
  have h1 : (1 + d) % 2 ^ 256 = 1 + d := Nat.mod_eq_of_lt (by omega)
  have h2 : (1 + d) % n = 1 + d := Nat.mod_eq_of_lt (by omega)
  have h3 : Gen.SM2.N_MINUS_TWO % 2 ^ 256 = n - 2 := by
    rw [SM2Field.N_m2, SM2Field.N_eq]; exact Nat.mod_eq_of_lt (by omega)
  rw [h1, h2, fn_pow_n _ _ (by omega), h3, Spec.EC.invMod, Proofs.Primes.powMod_eq]

/-- one iteration of the signing loop on an admissible candidate k: exactly `Spec.SM2.signWith` -/
theorem signLoop_step (E d s1 fuel : ℕ) (kbytes : List UInt8) (rest : List (List UInt8)) (used : List ℕ)
    (hd : 1 ≤ d ∧ d ≤ n - 2) (hs1 : s1 = Spec.EC.invMod ((1 + d) % n) n)
    (hk : 1 ≤ beNat kbytes ∧ beNat kbytes < n) :
    Impl.SM2.signLoop (E % n) d s1 (fuel + 1) (kbytes :: rest) used =
      match Spec.SM2.signWith d E (beNat kbytes) with
      | some (r, s) => .ok ⟨natBE 32 r ++ natBE 32 s, used ++ [beNat kbytes], rest⟩
      | none => Impl.SM2.signLoop (E % n) d s1 fuel rest (used ++ [beNat kbytes]) := by
  have hn := n_lt
  have hn0 := n_pos
  rw [Impl.SM2.signLoop, random_u256_cons kbytes rest hk]
  dsimp only
  generalize beNat kbytes = k at hk
  -- the point [k]G
  have hg := SM2Table.g_mul_good k (by omega)
  have hne := SM2Algebra.sm2_mul_ne_none' p_prime n_prime k hk.1 hk.2
  have hon := SpecEC.onCurve_mul hc k SM2Table.G_onCurve
  have hx := (affine_xy _ hg.1).1
  rw [hg.2] at hx
  unfold Spec.SM2.signWith
  cases hkG : Spec.EC.mul curve k G with
  | none => exact absurd hkG hne
  | some q =>
    obtain ⟨x1, y1⟩ := q
    rw [hkG] at hon hx
    have hx' : fp_from_mont (Impl.SM2.g_mul k).to_affine_point.x = x1 := hx
    have hx1 : x1 < 2 ^ 256 := Nat.lt_trans (xOf_lt _ hon) p_lt'
    have hr_eq : fn_add (E % n) (reduceN x1) = (E + x1) % n := by
      rw [reduceN_eq _ hx1, fn_add_n _ _ (Nat.mod_lt _ hn0) (Nat.mod_lt _ hn0), ← Nat.add_mod]
    rw [hx']
    simp only [hr_eq, SM2Field.N_eq]
    have hr : (E + x1) % n < n := Nat.mod_lt _ hn0
    generalize (E + x1) % n = r at hr
    have hd256 : d < 2 ^ 256 := by omega
    have hX : r * d % n < n := Nat.mod_lt _ hn0
    have hs1l : s1 < 2 ^ 256 := by
      rw [hs1, Spec.EC.invMod, Proofs.Primes.powMod_eq]; exact Nat.lt_trans (Nat.mod_lt _ hn0) hn
    have hY : (k + n - r * d % n) % n < n := Nat.mod_lt _ hn0
    rw [fn_mul_n r d (by omega) hd256, fn_sub_n k _ hk.2 hX, fn_mul_n s1 _ hs1l (by omega)]
    have e1 : k + (n - r * d % n) = k + n - r * d % n := by omega
    rw [e1, ← hs1]
    have hc1 : (r = 0 ∨ (r + k) % 2 ^ 256 = n) ↔ (r = 0 ∨ r + k = n) := by omega
    by_cases hc : r = 0 ∨ r + k = n
    · rw [if_pos (hc1.mpr hc), if_pos hc]
    · rw [if_neg (fun h => hc (hc1.mp h)), if_neg hc]
      by_cases hs0 : s1 * ((k + n - r * d % n) % n) % n = 0
      · rw [if_pos hs0, if_pos hs0]
      · rw [if_neg hs0, if_neg hs0]
        rfl

theorem sign_raw_unfold (digest : List UInt8) (hd : digest.length = 32) (d : ℕ) (hdr : 1 ≤ d ∧ d ≤ n - 2)
    (cands : List (List UInt8)) :
    Impl.SM2.sign_raw digest d cands =
      Impl.SM2.signLoop (beNat digest % n) d (Spec.EC.invMod ((1 + d) % n) n) (cands.length + 1) cands [] := by
  unfold Impl.SM2.sign_raw
  rw [if_neg (by rw [hd]; simp)]
  dsimp only
  rw [reduceN_eq _ (beNat_lt_of_len32 digest hd), s1_eq d hdr]

/-- signing with a fixed nonce: same (r, s) as the standard -/
theorem sign_raw_refines (digest : List UInt8) (hd : digest.length = 32) (d : ℕ) (hdr : 1 ≤ d ∧ d ≤ n - 2)
    (kbytes : List UInt8) (hk : kbytes.length = 32 ∧ 1 ≤ beNat kbytes ∧ beNat kbytes < n) (r s : ℕ)
    (h : Spec.SM2.signWith d (beNat digest) (beNat kbytes) = some (r, s)) (rest : List (List UInt8)) :
    ∃ out, Impl.SM2.sign_raw digest d (kbytes :: rest) = .ok out ∧ out.val = natBE 32 r ++ natBE 32 s
      ∧ out.used = [beNat kbytes] ∧ out.rest = rest := by
  rw [sign_raw_unfold digest hd d hdr, List.length_cons,
    signLoop_step _ d _ _ kbytes rest [] hdr rfl hk.2, h]
  exact ⟨_, rfl, rfl, rfl, rfl⟩

/-- when the standard says "return to A3" for this k, the model moves on to the next candidate -/
theorem sign_raw_retry (digest : List UInt8) (hd : digest.length = 32) (d : ℕ) (hdr : 1 ≤ d ∧ d ≤ n - 2)
    (kbytes : List UInt8) (hk : 1 ≤ beNat kbytes ∧ beNat kbytes < n)
    (h : Spec.SM2.signWith d (beNat digest) (beNat kbytes) = none) (rest : List (List UInt8)) :
    Impl.SM2.sign_raw digest d (kbytes :: rest) =
      Impl.SM2.signLoop (beNat digest % n) d (Spec.EC.invMod ((1 + d) % n) n) (rest.length + 1) rest [beNat kbytes] := by
  rw [sign_raw_unfold digest hd d hdr, List.length_cons,
    signLoop_step _ d _ _ kbytes rest [] hdr rfl hk, h]
  rfl


theorem take32_append (x y : ℕ) : (natBE 32 x ++ natBE 32 y).take 32 = natBE 32 x :=
  List.take_left' (SM2Algebra.natBE_length 32 x)
theorem drop32_append (x y : ℕ) : (natBE 32 x ++ natBE 32 y).drop 32 = natBE 32 y :=
  List.drop_left' (SM2Algebra.natBE_length 32 x)
theorem beNat_natBE32 (x : ℕ) (h : x < 2 ^ 256) : beNat (natBE 32 x) = x := SM2Algebra.beNat_bytes32 x h

/-- what the model signs, the model verifies (under any valid representation of the public key [d]G), and so does
the standard's verifier -/
theorem sign_then_verify_impl (digest : List UInt8) (hd : digest.length = 32) (d : ℕ) (hdr : 1 ≤ d ∧ d ≤ n - 2)
    (kbytes : List UInt8) (hk : kbytes.length = 32 ∧ 1 ≤ beNat kbytes ∧ beNat kbytes < n) (r s : ℕ)
    (h : Spec.SM2.signWith d (beNat digest) (beNat kbytes) = some (r, s)) (rest : List (List UInt8))
    (P : Point) (hP : Valid P) (hPd : toSpec P = Spec.EC.mul curve d G) :
    ∃ out, Impl.SM2.sign_raw digest d (kbytes :: rest) = .ok out ∧ out.val = natBE 32 r ++ natBE 32 s
      ∧ Impl.SM2.verify_raw digest P out.val = .ok ()
      ∧ Spec.SM2.verify (Spec.EC.mul curve d G) (beNat digest) r s = true := by
  obtain ⟨out, h1, h2, _, _⟩ := sign_raw_refines digest hd d hdr kbytes hk r s h rest
  obtain ⟨hr1, hrn, hs1, hsn, hv⟩ :=
    SM2Algebra.sign_then_verify p_prime n_prime d (beNat digest) (beNat kbytes) r s hdr hk.2 h
  refine ⟨out, h1, h2, ?_, hv⟩
  have hn := n_lt
  apply verify_raw_complete digest out.val P hP hd (by rw [h2]; simp [SM2Algebra.natBE_length])
  rw [h2, take32_append, drop32_append, beNat_natBE32 r (by omega), beNat_natBE32 s (by omega), hPd]
  exact hv

end GmVerif.Proofs.SM2Protocol
