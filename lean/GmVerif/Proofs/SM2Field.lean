/-
Helper lemmas for C11a, SM2 instances: the constants dumped from the crate satisfy the side conditions of the
Montgomery / modular routines, hence `Impl.SM2.fp_*` / `fn_*` compute the field operations, and the limb-level
instances `Impl.SM2.L.*` agree with them for ALL operands.
-/
import GmVerif.Proofs.Limb
import GmVerif.Impl.SM2.Field
import GmVerif.Spec.SM2
namespace GmVerif.Proofs.SM2Field
open GmVerif GmVerif.Impl GmVerif.Impl.NatField GmVerif.Proofs.Limb
open GmVerif.Gen.SM2

/-! ### constants -/

theorem P_eq : P = Spec.SM2.p := by decide
theorem N_eq : N = Spec.SM2.n := by decide
theorem GX_eq : G_X = Spec.SM2.Gx := by decide
theorem GY_eq : G_Y = Spec.SM2.Gy := by decide
theorem P_prime : (P * P_PRIME + 1) % 2 ^ 256 = 0 := by decide
theorem N_prime : (N * N_PRIME + 1) % 2 ^ 256 = 0 := by decide
theorem P_neg : MODP_MONT_ONE = 2 ^ 256 - P := by decide
theorem N_neg : N_NEG = 2 ^ 256 - N := by decide
theorem P_2e512' : MODP_2E512 = 2 ^ 256 * 2 ^ 256 % P := by decide
theorem N_2e512' : MOD_N_2E512 = 2 ^ 256 * 2 ^ 256 % N := by decide
set_option exponentiation.threshold 600 in
theorem P_2e512 : MODP_2E512 = 2 ^ 512 % P := by decide
set_option exponentiation.threshold 600 in
theorem N_2e512 : MOD_N_2E512 = 2 ^ 512 % N := by decide
theorem P_m2 : P_MINUS_TWO = P - 2 := by decide
theorem N_m2 : N_MINUS_TWO = N - 2 := by decide
theorem sqrt_exp : SQRT_EXP = (P + 1) / 4 := by decide
theorem mont_a : MODP_MONT_A = (Spec.SM2.a * 2 ^ 256) % P := by decide
theorem mont_b : MODP_MONT_B = (Spec.SM2.b * 2 ^ 256) % P := by decide
theorem P_range : 0 < P ∧ P < 2 ^ 256 := by decide
theorem N_range : 0 < N ∧ N < 2 ^ 256 := by decide
theorem P_big : 2 ^ 255 < P ∧ P < 2 ^ 256 := by decide
theorem N_big : 2 ^ 255 < N ∧ N < 2 ^ 256 := by decide
theorem P_odd : P % 2 = 1 := by decide
theorem mont_one : MODP_MONT_ONE = 2 ^ 256 % P := by decide
theorem N_mont_one : N_NEG = 2 ^ 256 % N := by decide

/-- 2^(-256) mod p -/
def RinvP : Nat := 0xfffffffb00000005fffffffc00000002fffffffd00000006fffffff900000004
/-- 2^(-256) mod n -/
def RinvN : Nat := 0x6f39132f13abb48ca81ba1178588d900f0e551783f95fa1213e93c0567b935ea
theorem RinvP_spec : 2 ^ 256 * RinvP % P = 1 % P := by decide
theorem RinvN_spec : 2 ^ 256 * RinvN % N = 1 % N := by decide

/-! ### Fp (Montgomery domain) -/

/-- `fp_mul` is a Montgomery product whenever a·b < p·2^256 (in particular for a < 2^256, b < p) -/
theorem fp_mul_correct' (a b : Nat) (hab : a * b < P * 2 ^ 256) :
    SM2.fp_mul a b < P ∧ (SM2.fp_mul a b * 2 ^ 256) % P = (a * b) % P :=
  montMul_correct P P_PRIME MODP_MONT_ONE a b P_range P_prime P_neg hab

theorem lt_mul_of_lt {m a b : Nat} (hm : m < 2 ^ 256) (ha : a < m) (hb : b < m) : a * b < m * 2 ^ 256 :=
  Nat.lt_trans (Nat.mul_lt_mul'' ha hb) (Nat.mul_lt_mul_of_pos_left hm (by omega))

theorem fp_mul_correct (a b : Nat) (ha : a < P) (hb : b < P) :
    SM2.fp_mul a b < P ∧ (SM2.fp_mul a b * 2 ^ 256) % P = (a * b) % P :=
  fp_mul_correct' a b (lt_mul_of_lt P_range.2 ha hb)

theorem fp_mul_redc (a b : Nat) (hab : a * b < P * 2 ^ 256) : SM2.fp_mul a b = a * b * RinvP % P :=
  montMul_redc P P_PRIME MODP_MONT_ONE RinvP a b P_range P_prime P_neg RinvP_spec hab

/-- product of Montgomery representatives -/
theorem fp_mul_dom (A B : Nat) : SM2.fp_mul (A * 2 ^ 256 % P) (B * 2 ^ 256 % P) = A * B * 2 ^ 256 % P :=
  mont_mul_dom P P_PRIME MODP_MONT_ONE RinvP A B P_range P_prime P_neg RinvP_spec

theorem fp_add_correct (a b : Nat) (ha : a < P) (hb : b < P) : SM2.fp_add a b = (a + b) % P :=
  modAdd_correct P MODP_MONT_ONE a b P_range P_neg ha hb
theorem fp_sub_correct (a b : Nat) (ha : a < P) (hb : b < P) : SM2.fp_sub a b = (a + P - b) % P :=
  modSub_correct P MODP_MONT_ONE a b P_range P_neg ha hb
theorem fp_neg_correct (a : Nat) (ha : a < P) : SM2.fp_neg a = (P - a) % P :=
  modNeg_correct P a P_range ha
theorem fp_div2_correct (a : Nat) (ha : a < P) : SM2.fp_div2 a < P ∧ (2 * SM2.fp_div2 a) % P = a :=
  modDiv2_correct P a P_odd ha
theorem fp_double_correct (a : Nat) (ha : a < P) : SM2.fp_double a = 2 * a % P := by
  rw [SM2.fp_double, fp_add_correct a a ha ha, Nat.two_mul]
theorem fp_triple_correct (a : Nat) (ha : a < P) : SM2.fp_triple a = 3 * a % P := by
  rw [SM2.fp_triple, fp_double_correct a ha, fp_add_correct a _ ha (Nat.mod_lt _ P_range.1), Nat.add_mod_mod]
  congr 1; omega
theorem fp_add_noncanonical (a b : Nat) (ha : a < 2 ^ 256) (hb : b < 2 ^ 256) :
    SM2.fp_add a b = (if a + b ≥ 2 ^ 256 then (a + b - P) % 2 ^ 256 else if a + b ≥ P then a + b - P else a + b) :=
  modAdd_noncanonical P MODP_MONT_ONE a b P_big P_neg ha hb

/-- `fp_to_mont a = a·R mod p` for every a < 2^256, canonical or not -/
theorem fp_to_mont_correct (a : Nat) (ha : a < 2 ^ 256) : SM2.fp_to_mont a = a * 2 ^ 256 % P :=
  mont_to P P_PRIME MODP_MONT_ONE RinvP MODP_2E512 a P_range P_prime P_neg RinvP_spec P_2e512' ha

theorem fp_from_mont_correct (a : Nat) (ha : a < 2 ^ 256) :
    SM2.fp_from_mont a < P ∧ (SM2.fp_from_mont a * 2 ^ 256) % P = a % P := by
  have := fp_mul_correct' a 1 (by have := P_range; omega)
  rwa [Nat.mul_one] at this

theorem fp_from_mont_dom (A : Nat) : SM2.fp_from_mont (A * 2 ^ 256 % P) = A % P :=
  mont_from_dom P P_PRIME MODP_MONT_ONE RinvP A P_range P_prime P_neg RinvP_spec

theorem fp_from_to_mont (a : Nat) (ha : a < 2 ^ 256) : SM2.fp_from_mont (SM2.fp_to_mont a) = a % P := by
  rw [fp_to_mont_correct a ha, fp_from_mont_dom]

/-- `fp_pow` in the Montgomery domain: (A·R)^e ↦ A^e·R, exponent read as its low 256 bits -/
theorem fp_pow_correct (A e : Nat) : SM2.fp_pow (A * 2 ^ 256 % P) e = A ^ (e % 2 ^ 256) * 2 ^ 256 % P := by
  have := powLoop_correct SM2.fp_mul P RinvP A e P_range.1 RinvP_spec (fun x y hx hy => fp_mul_correct x y hx hy)
  rwa [← mont_one] at this

/-! ### Fn (plain representation; Montgomery only inside `fn_mul` / `fn_pow`) -/

theorem fn_mont_mul_correct (a b : Nat) (hab : a * b < N * 2 ^ 256) :
    SM2.fn_mont_mul a b < N ∧ (SM2.fn_mont_mul a b * 2 ^ 256) % N = (a * b) % N :=
  montMul_correct N N_PRIME N_NEG a b N_range N_prime N_neg hab
theorem fn_add_correct (a b : Nat) (ha : a < N) (hb : b < N) : SM2.fn_add a b = (a + b) % N :=
  modAdd_correct N N_NEG a b N_range N_neg ha hb
theorem fn_sub_correct (a b : Nat) (ha : a < N) (hb : b < N) : SM2.fn_sub a b = (a + N - b) % N :=
  modSub_correct N N_NEG a b N_range N_neg ha hb
theorem fn_add_noncanonical (a b : Nat) (ha : a < 2 ^ 256) (hb : b < 2 ^ 256) :
    SM2.fn_add a b = (if a + b ≥ 2 ^ 256 then (a + b - N) % 2 ^ 256 else if a + b ≥ N then a + b - N else a + b) :=
  modAdd_noncanonical N N_NEG a b N_big N_neg ha hb
theorem fn_to_mont_correct (a : Nat) (ha : a < 2 ^ 256) : SM2.fn_to_mont a = a * 2 ^ 256 % N :=
  mont_to N N_PRIME N_NEG RinvN MOD_N_2E512 a N_range N_prime N_neg RinvN_spec N_2e512' ha
theorem fn_from_mont_dom (A : Nat) : SM2.fn_from_mont (A * 2 ^ 256 % N) = A % N :=
  mont_from_dom N N_PRIME N_NEG RinvN A N_range N_prime N_neg RinvN_spec
/-- `fn_mul a b = a·b mod n` for ALL a, b < 2^256 (canonical or not) -/
theorem fn_mul_correct (a b : Nat) (ha : a < 2 ^ 256) (hb : b < 2 ^ 256) : SM2.fn_mul a b = a * b % N :=
  mont_plain_mul N N_PRIME N_NEG RinvN MOD_N_2E512 a b N_range N_prime N_neg RinvN_spec N_2e512' ha hb
/-- `fn_pow a e = a^e mod n` for all a < 2^256 (exponent read as its low 256 bits) -/
theorem fn_pow_correct (a e : Nat) (ha : a < 2 ^ 256) : SM2.fn_pow a e = a ^ (e % 2 ^ 256) % N := by
  have h := powLoop_correct SM2.fn_mont_mul N RinvN a e N_range.1 RinvN_spec
    (fun x y hx hy => fn_mont_mul_correct x y (lt_mul_of_lt N_range.2 hx hy))
  rw [← N_mont_one] at h
  rw [SM2.fn_pow, fn_to_mont_correct a ha, h, fn_from_mont_dom]

/-! ### limb-level instances = Nat-level functions, for ALL operands -/

open GmVerif.Impl.Limb (U256)

theorem uP_toNat : SM2.L.uP.toNat = P := by rw [SM2.L.uP, toNat_ofNat]; decide
theorem uPP_toNat : SM2.L.uPP.toNat = P_PRIME := by rw [SM2.L.uPP, toNat_ofNat]; decide
theorem uONE_toNat : SM2.L.uONE.toNat = MODP_MONT_ONE := by rw [SM2.L.uONE, toNat_ofNat]; decide
theorem uN_toNat : SM2.L.uN.toNat = N := by rw [SM2.L.uN, toNat_ofNat]; decide
theorem uNP_toNat : SM2.L.uNP.toNat = N_PRIME := by rw [SM2.L.uNP, toNat_ofNat]; decide
theorem uNNEG_toNat : SM2.L.uNNEG.toNat = N_NEG := by rw [SM2.L.uNNEG, toNat_ofNat]; decide

theorem L_fp_mul (a b : U256) : (SM2.L.fp_mul a b).toNat = SM2.fp_mul a.toNat b.toNat := by
  rw [SM2.L.fp_mul, mont_mul_eq, uP_toNat, uPP_toNat, uONE_toNat]; rfl
theorem L_fp_add (a b : U256) : (SM2.L.fp_add a b).toNat = SM2.fp_add a.toNat b.toNat := by
  rw [SM2.L.fp_add, mod_add_eq, uP_toNat, uONE_toNat]; rfl
theorem L_fp_sub (a b : U256) : (SM2.L.fp_sub a b).toNat = SM2.fp_sub a.toNat b.toNat := by
  rw [SM2.L.fp_sub, mod_sub_eq, uONE_toNat]; rfl
theorem L_fp_neg (a : U256) : (SM2.L.fp_neg a).toNat = SM2.fp_neg a.toNat := by
  rw [SM2.L.fp_neg, mod_neg_eq, uP_toNat]; rfl
theorem L_fp_div2 (a : U256) : (SM2.L.fp_div2 a).toNat = SM2.fp_div2 a.toNat := by
  rw [SM2.L.fp_div2, mod_div2_eq_all, uP_toNat]; rfl
theorem L_fp_pow (a e : U256) : (SM2.L.fp_pow a e).toNat = SM2.fp_pow a.toNat e.toNat := by
  rw [SM2.L.fp_pow, pow_loop_eq SM2.L.fp_mul SM2.fp_mul L_fp_mul, uONE_toNat]; rfl
theorem L_fn_mont_mul (a b : U256) : (SM2.L.fn_mont_mul a b).toNat = SM2.fn_mont_mul a.toNat b.toNat := by
  rw [SM2.L.fn_mont_mul, mont_mul_eq, uN_toNat, uNP_toNat, uNNEG_toNat]; rfl
theorem L_fn_add (a b : U256) : (SM2.L.fn_add a b).toNat = SM2.fn_add a.toNat b.toNat := by
  rw [SM2.L.fn_add, mod_add_eq, uN_toNat, uNNEG_toNat]; rfl
theorem L_fn_sub (a b : U256) : (SM2.L.fn_sub a b).toNat = SM2.fn_sub a.toNat b.toNat := by
  rw [SM2.L.fn_sub, mod_sub_eq, uNNEG_toNat]; rfl
theorem L_fn_to_mont (a : U256) : (SM2.L.fn_to_mont a).toNat = SM2.fn_to_mont a.toNat := by
  rw [SM2.L.fn_to_mont, L_fn_mont_mul, toNat_ofNat, show MOD_N_2E512 % 2 ^ 256 = MOD_N_2E512 by decide]; rfl
theorem L_fn_from_mont (a : U256) : (SM2.L.fn_from_mont a).toNat = SM2.fn_from_mont a.toNat := by
  rw [SM2.L.fn_from_mont, L_fn_mont_mul, toNat_ofNat]; rfl
theorem L_fn_mul (a b : U256) : (SM2.L.fn_mul a b).toNat = SM2.fn_mul a.toNat b.toNat := by
  rw [SM2.L.fn_mul, L_fn_from_mont, L_fn_mont_mul, L_fn_to_mont, L_fn_to_mont]; rfl
theorem L_fn_pow (a e : U256) : (SM2.L.fn_pow a e).toNat = SM2.fn_pow a.toNat e.toNat := by
  rw [SM2.L.fn_pow, L_fn_from_mont, pow_loop_eq SM2.L.fn_mont_mul SM2.fn_mont_mul L_fn_mont_mul, uNNEG_toNat,
    L_fn_to_mont]; rfl

end GmVerif.Proofs.SM2Field
